#!/bin/bash
# MANIFEST.setup_cmd: full .vo build of the hand-written Coq library (nothing here depends on /repo)
set -e
HERE="$(cd "$(dirname "$0")" && pwd)"
cd "$HERE/coq"
# no Admitted / Axiom / ... anywhere in the development
if grep -rnE '\b(Admitted|admit|Axiom|Parameter|Conjecture|bypass_check)\b|Unset +Guard|Admit +Obligations' theories props --include='*.v' | grep -v '^[^:]*:[0-9]*: *(\*' ; then
  echo "forbidden vernacular found" >&2; exit 1
fi
{ echo "-R theories PV"; find theories -name '*.v' | sort; } > _CoqProject
coq_makefile -f _CoqProject -o Makefile > /dev/null
timeout 7200 make -j16 2>&1 | grep -v -i conda | tail -40
test ${PIPESTATUS[0]} -eq 0
