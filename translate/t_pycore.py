"""T-pycore: fail-closed translator from a small imperative subset of Python (as it occurs in the list / array helper
functions of pyerrors/obs.py) to Gallina definitions in the result monad of coq/theories/Py/Prim.v.

What is translated is the *code that exists*: every statement and expression of the selected functions is mapped, in
evaluation order, to the primitive that gives the Python / numpy operation its meaning (Py/Prim.v); a construct outside
the subset raises TranslateError, which the check reports as a broken tie.  The generated file is compiled on every run and
the tie theorems (coq/props/Tie*.v) prove, for all inputs in the documented domain, that the regenerated definition
returns exactly what the hand-written model returns - so the theorems about the model are theorems about the code as it
is now, and an edit to one of these functions either still proves (harmless) or breaks an obligation.

Typing: the translator is told the type of every parameter (SIGS below): Z ints, Q floats, numpy float arrays as `list Q`,
configuration lists (`range` or `list`) as Obs/Model.v's `idl`, lists of those.  Locals are inferred.
"""
import ast
from fractions import Fraction


class TranslateError(Exception):
    pass


INT, FLOAT, BOOL, ARR, INTLIST, IDL, IDLLIST, BOOLLIST = "Z", "Q", "bool", "(list Q)", "(list Z)", "idl", "(list idl)", "(list bool)"
STR, STRLIST, DICT = "string", "(list string)", "(list (string * Q))"
YVAL, YLIST = "Y", "(list Y)"      # the first entry of a timeslice (what Corr.fit hands to least_squares), abstract
SCAL = "S"      # a scalar operand of a correlator operation (number or observable; abstract)
ELT, OPTELT, CONTENT = "E", "(option E)", "(list (option E))"      # timeslice entries of a correlator (abstract element type E)
WVEC, OPTW, OPTWLIST = "W", "(option W)", "(list (option W))"      # projection vectors of Corr.projected (abstract), one per timeslice or None
VEC, VECLIST, MATX, PERMLIST = "V", "(list V)", "M", "(list (list Z))"      # eigenvectors / reference matrix of _sort_vectors (abstract)
OPTSTR, OPTSTRLIST = "(option string)", "(list (option string))"      # names that may fail to be strings (None = some other object)
INTMAT = "(list (list Z))"      # a two-dimensional integer array (rows)
DICTL = "(list (string * list Z))"      # a dictionary from strings to lists of ints
MAT2 = "(list (list Q))"      # a two-dimensional numpy float array
IDLMAP = "(string -> idl)"        # a dictionary name -> configuration list, read only (keys are iterated through an alias)
EXN = {"IndexError": "IndexError", "ValueError": "ValueError", "ZeroDivisionError": "ZeroDivisionError", "TypeError": "TypeError", "KeyError": "NameError"}


def _d(node):
    return ast.dump(node)


class Fn:
    """Translation of one function body."""

    def __init__(self, name, params, ret, aliases=None, consts=None, hints=None, stores=None, iter_aliases=None, unbound=None):
        self.unbound = unbound or {}      # variables that are first assigned under a condition: name -> type (held as an option)
        self.iter_aliases = iter_aliases or {}
        self.hints = hints or {}
        self.stores = stores or {}     # ast.dump(expr) of a dictionary that is stored into -> name of the state variable
        self.name = name
        self.params = params          # list of (python name, coq type) ; None type = dropped (aliased away)
        self.ret = ret
        self.aliases = aliases or {}  # ast.dump(expr) -> (coq term, type)
        self.consts = consts or {}
        self.n = 0

    def fresh(self, stem="t"):
        self.n += 1
        return "%s%d" % (stem, self.n)

    # ------------------------------------------------------------------ expressions
    def coerce(self, term, ty, want):
        if ty == want:
            return term
        if ty == INT and want == FLOAT:
            return "(inject_Z %s)" % term
        raise TranslateError("%s: cannot use a %s where a %s is needed: %s" % (self.name, ty, want, term))

    def v(self, name):
        return "v_" + name

    def expr(self, node, env, binds):
        """-> (coq term, type).  Partial operations are appended to `binds` as (name, monadic term), in evaluation order."""
        key = _d(node)
        if key in self.aliases:
            return self.aliases[key]
        if isinstance(node, ast.Name) and node.id in self.unbound:
            r = self.fresh()
            binds.append((r, "py_bound %s" % self.v(node.id)))      # UnboundLocalError when no assignment was executed
            return r, self.unbound[node.id]
        if isinstance(node, ast.Name):
            if node.id in env:
                return self.v(node.id), env[node.id]
            raise TranslateError("%s: unknown name %s" % (self.name, node.id))
        if isinstance(node, ast.Constant):
            c = node.value
            if isinstance(c, bool):
                return ("true" if c else "false"), BOOL
            if isinstance(c, int):
                return "(%d)" % c, INT
            if isinstance(c, float):
                f = Fraction(c)
                return ("((%d) # %d)" % (f.numerator, f.denominator)), FLOAT
            raise TranslateError("%s: constant %r" % (self.name, c))
        if isinstance(node, ast.UnaryOp):
            t, ty = self.expr(node.operand, env, binds)
            if isinstance(node.op, ast.USub) and ty == INT:
                return "(- %s)" % t, INT
            if isinstance(node.op, ast.USub) and ty == FLOAT:
                return "(- %s)%%Q" % t, FLOAT
            if isinstance(node.op, ast.Not) and ty == BOOL:
                return "(negb %s)" % t, BOOL
            raise TranslateError("%s: unary %s on %s" % (self.name, type(node.op).__name__, ty))
        if isinstance(node, ast.BinOp):
            return self.binop(node, env, binds)
        if isinstance(node, ast.BoolOp):
            parts = []
            for val in node.values:
                b = []
                t, ty = self.expr(val, env, b)
                if ty != BOOL:
                    raise TranslateError("%s: and/or on %s" % (self.name, ty))
                parts.append((b, t))
            is_and = isinstance(node.op, ast.And)
            if not any(b for b, _ in parts[1:]):
                binds.extend(parts[0][0])
                return "(" + (" && " if is_and else " || ").join(t for _, t in parts) + ")", BOOL
            # an operand that can raise sits behind the short-circuit operator: it is evaluated only when the operands before it do not decide
            binds.extend(parts[0][0])
            acc = parts[0][1]
            for b, t in parts[1:]:
                r = self.fresh()
                rest = self.seq(b, "(Ok %s)" % t)
                binds.append((r, ("(if %s then %s else (Ok false))" if is_and else "(if %s then (Ok true) else %s)") % (acc, rest)))
                acc = r
            return acc, BOOL
        if isinstance(node, ast.Compare):
            return self.compare(node, env, binds)
        if isinstance(node, ast.Subscript):
            return self.subscript(node, env, binds)
        if isinstance(node, ast.Attribute) and _d(node) == _d(ast.parse("np.finfo(np.float64).eps", mode="eval").body):
            return "(1 # 4503599627370496)", FLOAT      # 2^-52
        if isinstance(node, ast.Attribute):
            t, ty = self.expr(node.value, env, binds)
            if node.attr == "step" and ty == IDL:
                return "(range_step %s)" % t, INT
            if node.attr == "size" and ty in (ARR, INTLIST):
                return "(zlen %s)" % t, INT
            raise TranslateError("%s: attribute .%s of %s" % (self.name, node.attr, ty))
        if isinstance(node, ast.List):
            ts = [self.expr(e, env, binds) for e in node.elts]
            if ts and all(ty == IDL for _, ty in ts):
                return "[" + "; ".join(t for t, _ in ts) + "]", IDLLIST
            if ts and all(ty == OPTELT for _, ty in ts):
                return "[" + "; ".join(t for t, _ in ts) + "]", CONTENT
            raise TranslateError("%s: list display of %s" % (self.name, [ty for _, ty in ts]))
        if isinstance(node, ast.ListComp):
            return self.listcomp(node, env, binds)
        if isinstance(node, ast.IfExp) and isinstance(node.body, ast.Constant) and node.body.value is None:
            # None if c else e: the condition first; e is evaluated (and may raise) only when the condition is false
            c, tc = self.expr(node.test, env, binds)
            if tc != BOOL:
                raise TranslateError("%s: condition of type %s" % (self.name, tc))
            be = []
            e, te = self.expr(node.orelse, env, be)
            out = {WVEC: OPTW, ELT: OPTELT}.get(te)
            if out is None:
                raise TranslateError("%s: `None if .. else` producing %s" % (self.name, te))
            r = self.fresh()
            binds.append((r, "(if %s then Ok None else %s)" % (c, self.seq(be, "(Ok (Some %s))" % e))))
            return r, out
        if isinstance(node, ast.Call) and isinstance(node.func, ast.Name) and node.func.id == "vnorm__" and len(node.args) == 1 and not node.keywords:
            # v / np.sqrt(v @ v), renamed by the fragment selector: arithmetic on None raises TypeError
            a, ta = self.expr(node.args[0], env, binds)
            if ta != OPTW:
                raise TranslateError("%s: normalisation of %s" % (self.name, ta))
            r = self.fresh()
            binds.append((r, "py_eun vnorm %s" % a))
            return r, WVEC
        if isinstance(node, ast.Call) and isinstance(node.func, ast.Name) and node.func.id == "value__" and len(node.args) == 1 and not node.keywords:
            # <timeslice>[0].value, renamed by the fragment selector: subscripting None raises TypeError
            a, ta = self.expr(node.args[0], env, binds)
            if ta != OPTELT:
                raise TranslateError("%s: central value of %s" % (self.name, ta))
            r = self.fresh()
            binds.append((r, "py_eun evalue %s" % a))
            return r, FLOAT
        if isinstance(node, ast.Call) and isinstance(node.func, ast.Name) and node.func.id in ("rw__", "corr2__") and not node.keywords \
                and len(node.args) == (1 if node.func.id == "rw__" else 2):
            # np.array(reweight(weight, t_slice, **kwargs)) / np.array([correlate(o, partner.content[x0][0]) for o in t_slice]), renamed by the selectors
            args = [self.expr(a, env, binds) for a in node.args]
            if any(ty != OPTELT for _, ty in args):
                raise TranslateError("%s: timeslice operation on %s" % (self.name, [ty for _, ty in args]))
            names = []
            for a, _ in args:
                r = self.fresh()
                binds.append((r, "py_eun (fun x_ => x_) %s" % a))
                names.append(r)
            return "(%s %s)" % ("erw" if node.func.id == "rw__" else "ecorr", " ".join(names)), ELT
        if isinstance(node, ast.Call) and isinstance(node.func, ast.Name) and node.func.id == "dvalue__" and len(node.args) == 1 and not node.keywords:
            a, ta = self.expr(node.args[0], env, binds)
            if ta != OPTELT:
                raise TranslateError("%s: error of %s" % (self.name, ta))
            r = self.fresh()
            binds.append((r, "py_eun edvalue %s" % a))
            return r, FLOAT
        if isinstance(node, ast.Call) and isinstance(node.func, ast.Name) and node.func.id == "root__" and len(node.args) == 3 and not node.keywords:
            # np.abs(find_root(C(t)[0] / C(t+1)[0], root_function, guess=guess)) at timeslice t, renamed by the fragment selector
            args = [self.expr(a, env, binds) for a in node.args]
            if [ty for _, ty in args] != [OPTELT, OPTELT, INT]:
                raise TranslateError("%s: root of %s" % (self.name, [ty for _, ty in args]))
            names = []
            for a, _ in args[:2]:
                r = self.fresh()
                binds.append((r, "py_eun (fun x_ => x_) %s" % a))
                names.append(r)
            return "(eroot %s %s %s)" % (names[0], names[1], args[2][0]), ELT
        if isinstance(node, ast.Call) and isinstance(node.func, ast.Name) and node.func.id == "sandwich__" and len(node.args) == 3 and not node.keywords:
            # np.asarray([l.T @ G @ r]), renamed by the fragment selector; operands evaluated left to right, None raises
            args = [self.expr(a, env, binds) for a in node.args]
            if [ty for _, ty in args] not in ([OPTW, OPTELT, OPTW], [WVEC, OPTELT, WVEC]):
                raise TranslateError("%s: projection of %s" % (self.name, [ty for _, ty in args]))
            names = []
            for a, ty in args:
                if ty == WVEC:
                    names.append(a)
                    continue
                r = self.fresh()
                binds.append((r, "py_eun (fun x_ => x_) %s" % a))
                names.append(r)
            return "(sandwich %s %s %s)" % tuple(names), ELT
        if isinstance(node, ast.Call):
            return self.call(node, env, binds)
        raise TranslateError("%s: unsupported expression %s" % (self.name, type(node).__name__))

    def binop(self, node, env, binds):
        a, ta = self.expr(node.left, env, binds)
        b, tb = self.expr(node.right, env, binds)
        op = type(node.op)
        sym = {ast.Add: "+", ast.Sub: "-", ast.Mult: "*"}
        if ta == INT and tb == INT:
            if op in sym:
                return "(%s %s %s)" % (a, sym[op], b), INT
            lit = isinstance(node.right, ast.Constant) and isinstance(node.right.value, int) and not isinstance(node.right.value, bool) \
                and node.right.value != 0
            if op is ast.FloorDiv and lit:
                return "(%s / %s)" % (a, b), INT        # a non-zero literal divisor never raises
            if op is ast.Mod and lit:
                return "(%s mod %s)" % (a, b), INT
            if op is ast.FloorDiv:
                t = self.fresh()
                binds.append((t, "py_floordiv %s %s" % (a, b)))
                return t, INT
            if op is ast.Mod:
                t = self.fresh()
                binds.append((t, "py_mod %s %s" % (a, b)))
                return t, INT
        if ta in (INT, FLOAT) and tb in (INT, FLOAT):
            qa, qb = self.coerce(a, ta, FLOAT), self.coerce(b, tb, FLOAT)
            if op in sym:
                return "(%s %s %s)%%Q" % (qa, sym[op], qb), FLOAT
            if op is ast.Div and getattr(self, "numpy_div", False):
                return "(%s / %s)%%Q" % (qa, qb), FLOAT      # the divisor is a numpy scalar in this fragment: inf or nan, never an exception
            if op is ast.Div and isinstance(node.left, ast.Call) and _d(node.left.func) == _d(ast.parse("np.sum", mode="eval").body):
                return "(%s / %s)%%Q" % (qa, qb), FLOAT      # numpy scalar / number: inf or nan, never an exception
            if op is ast.Div:
                t = self.fresh()
                binds.append((t, "py_truediv %s %s" % (qa, qb)))
                return t, FLOAT
        if ta in (INT, FLOAT) and tb == MAT2 and op is ast.Mult:
            return "(mat_scale %s %s)" % (self.coerce(a, ta, FLOAT), b), MAT2
        if ta == MAT2 and tb == MAT2 and op is ast.Sub:
            t = self.fresh()
            binds.append((t, "py_mat_sub %s %s" % (a, b)))
            return t, MAT2
        if ta == MAT2 and tb in (INT, FLOAT) and op is ast.Div:
            return "(mat_div_s %s %s)" % (a, self.coerce(b, tb, FLOAT)), MAT2
        if ta == MAT2 and tb == ARR and op is ast.MatMult:
            t = self.fresh()
            binds.append((t, "py_matvec %s %s" % (a, b)))
            return t, ARR
        if ta == ARR and tb == MAT2 and op is ast.MatMult:
            t = self.fresh()
            binds.append((t, "py_vecmat %s %s" % (a, b)))
            return t, ARR
        if ta == OPTELT and tb == SCAL and op in (ast.Add, ast.Mult, ast.Div):
            f = {ast.Add: "eaddS", ast.Mult: "emulS", ast.Div: "edivS"}[op]
            t = self.fresh()
            binds.append((t, "py_eun (fun x_ => %s x_ %s) %s" % (f, b, a)))
            return t, ELT
        if ta == OPTELT and tb == OPTELT and op in (ast.Add, ast.Sub, ast.Mult, ast.Div):
            # arithmetic on two timeslice entries: a None operand raises TypeError
            f = {ast.Add: "eadd", ast.Sub: "esub", ast.Mult: "emul", ast.Div: "ediv"}[op]
            t = self.fresh()
            binds.append((t, "py_ebin %s %s %s" % (f, a, b)))
            return t, ELT
        if ta in (INT, FLOAT) and tb == ELT and op is ast.Mult:
            return "(escale %s %s)" % (self.coerce(a, ta, FLOAT), b), ELT
        if ta in (INT, FLOAT) and tb == OPTELT and op is ast.Mult:
            t = self.fresh()
            binds.append((t, "py_eun (escale %s) %s" % (self.coerce(a, ta, FLOAT), b)))
            return t, ELT
        if ta == ARR and tb in (INT, FLOAT):
            qb = self.coerce(b, tb, FLOAT)
            f = {ast.Mult: "arr_mul", ast.Div: "arr_div", ast.Add: "arr_add_s"}.get(op)
            if f:
                return "(%s %s %s)" % (f, a, qb), ARR
        if ta in (INT, FLOAT) and tb == ARR:
            qa = self.coerce(a, ta, FLOAT)
            if op is ast.Sub:
                return "(arr_rsub %s %s)" % (qa, b), ARR
            if op is ast.Mult:
                return "(arr_mul %s %s)" % (b, qa), ARR
        if ta == ARR and tb == ARR and op in (ast.Add, ast.Sub, ast.Mult):
            t = self.fresh()
            binds.append((t, "%s %s %s" % ({ast.Add: "py_arr_add2", ast.Sub: "py_arr_sub2", ast.Mult: "py_arr_mul2"}[op], a, b)))
            return t, ARR
        if ta == ARR and op is ast.Pow and isinstance(node.right, ast.Constant) and node.right.value == 2:
            return "(arr_sq %s)" % a, ARR
        raise TranslateError("%s: %s on (%s, %s)" % (self.name, op.__name__, ta, tb))

    def compare(self, node, env, binds):
        if len(node.ops) != 1:
            raise TranslateError("%s: chained comparison" % self.name)
        op = type(node.ops[0])
        left, right = node.left, node.comparators[0]
        # type(x) is range
        if op is ast.Is and isinstance(left, ast.Call) and isinstance(left.func, ast.Name) and left.func.id == "type" \
                and isinstance(right, ast.Name) and right.id == "range" and len(left.args) == 1:
            t, ty = self.expr(left.args[0], env, binds)
            if ty != IDL:
                raise TranslateError("%s: type(..) is range on %s" % (self.name, ty))
            return "(isr %s)" % t, BOOL
        if op in (ast.Is, ast.IsNot) and isinstance(right, ast.Constant) and right.value is None:
            a, ta = self.expr(left, env, binds)
            if ta not in (OPTELT, OPTW):
                raise TranslateError("%s: `is None` on %s" % (self.name, ta))
            return ("(is_none %s)" if op is ast.Is else "(negb (is_none %s))") % a, BOOL
        if op is ast.In and isinstance(right, ast.List) and right.elts:
            # x in [a, b, ..] over numbers: x == a or x == b or .. (no element can raise here: all are evaluated when the list is built)
            a, ta = self.expr(left, env, binds)
            es = [self.expr(e, env, binds) for e in right.elts]
            if ta not in (INT, FLOAT) or any(te not in (INT, FLOAT) for _, te in es):
                raise TranslateError("%s: membership in a list of %s" % (self.name, [te for _, te in es]))
            return "(" + " || ".join("(Qeqb %s %s)" % (self.coerce(a, ta, FLOAT), self.coerce(e, te, FLOAT)) for e, te in es) + ")", BOOL
        a, ta = self.expr(left, env, binds)
        b, tb = self.expr(right, env, binds)
        if ta == INT and tb == INT:
            f = {ast.Eq: "(%s =? %s)", ast.NotEq: "(negb (%s =? %s))", ast.Lt: "(%s <? %s)", ast.LtE: "(%s <=? %s)",
                 ast.Gt: "(%s >? %s)", ast.GtE: "(%s >=? %s)"}.get(op)
            if f:
                return f % (a, b), BOOL
        if ta in (INT, FLOAT) and tb in (INT, FLOAT):
            qa, qb = self.coerce(a, ta, FLOAT), self.coerce(b, tb, FLOAT)
            f = {ast.Eq: "(Qeqb %s %s)", ast.NotEq: "(negb (Qeqb %s %s))", ast.Lt: "(Qltb %s %s)", ast.LtE: "(Qleb %s %s)"}.get(op)
            if f:
                return f % (qa, qb), BOOL
            f = {ast.Gt: "(Qltb %s %s)", ast.GtE: "(Qleb %s %s)"}.get(op)
            if f:
                return f % (qb, qa), BOOL
        if ta == INTLIST and tb == INT and op in (ast.Lt, ast.Eq):
            return "(map (fun x_ => %s) %s)" % (("(x_ <? %s)" if op is ast.Lt else "(x_ =? %s)") % b, a), BOOLLIST
        if ta == STR and tb == STR and op is ast.Eq:
            return "(String.eqb %s %s)" % (a, b), BOOL
        if ta == IDL and tb == IDL and op is ast.Eq:
            return "(idl_eqb %s %s)" % (a, b), BOOL
        if ta == IDL and tb == IDL and op is ast.NotEq:
            return "(negb (idl_eqb %s %s))" % (a, b), BOOL
        raise TranslateError("%s: comparison %s on (%s, %s)" % (self.name, op.__name__, ta, tb))

    def subscript(self, node, env, binds):
        v = node.value
        # np.intersect1d(a, b, assume_unique=True, return_indices=True)[1]
        if isinstance(v, ast.Call) and isinstance(v.func, ast.Attribute) and v.func.attr == "intersect1d" \
                and isinstance(v.func.value, ast.Name) and v.func.value.id == "np":
            kws = {k.arg: k.value for k in v.keywords}
            if len(v.args) == 2 and set(kws) == {"assume_unique", "return_indices"} \
                    and all(isinstance(x, ast.Constant) and x.value is True for x in kws.values()) \
                    and isinstance(node.slice, ast.Constant) and node.slice.value == 1:
                (a, ta), (b, tb) = [self.expr(x, env, binds) for x in v.args]
                if ta == IDL and tb == IDL:
                    return "(py_intersect1d_pos (cfgs %s) (cfgs %s))" % (a, b), INTLIST
            raise TranslateError("%s: np.intersect1d call shape" % self.name)
        # name.split('|')[0]
        if isinstance(v, ast.Call) and isinstance(v.func, ast.Attribute) and v.func.attr == "split" and len(v.args) == 1 and not v.keywords \
                and isinstance(v.args[0], ast.Constant) and v.args[0].value == "|" and isinstance(node.slice, ast.Constant) and node.slice.value == 0:
            t, ty = self.expr(v.func.value, env, binds)
            if ty == OPTSTR:
                r = self.fresh()
                binds.append((r, "py_str %s" % t))      # AttributeError (rendered TypeError) for an object that is not a string
                return "(ens_of %s)" % r, STR
            if ty != STR:
                raise TranslateError("%s: .split of %s" % (self.name, ty))
            return "(ens_of %s)" % t, STR
        t, ty = self.expr(node.value, env, binds)
        sl = node.slice
        if ty == OPTELT and isinstance(sl, ast.Constant) and sl.value == 0:
            r = self.fresh()
            binds.append((r, "py_eun efirst %s" % t))
            return r, YVAL
        if ty == DICTL and not isinstance(sl, ast.Slice):
            i, ti = self.expr(sl, env, binds)
            if ti != STR:
                raise TranslateError("%s: dictionary indexed with %s" % (self.name, ti))
            r = self.fresh()
            binds.append((r, "py_dictl_get %s %s" % (t, i)))
            return r, INTLIST
        if ty == IDLMAP and not isinstance(sl, ast.Slice):
            i, ti = self.expr(sl, env, binds)
            if ti != STR:
                raise TranslateError("%s: name -> idl dictionary indexed with %s" % (self.name, ti))
            return "(%s %s)" % (t, i), IDL
        if isinstance(sl, ast.Slice) and ty == CONTENT and sl.lower is None and sl.upper is None and isinstance(sl.step, ast.UnaryOp) \
                and isinstance(sl.step.op, ast.USub) and isinstance(sl.step.operand, ast.Constant) and sl.step.operand.value == 1:
            return "(rev %s)" % t, CONTENT
        if isinstance(sl, ast.Slice) and ty == ARR and isinstance(sl.step, ast.UnaryOp) and isinstance(sl.step.op, ast.USub) \
                and isinstance(sl.step.operand, ast.Constant) and sl.step.operand.value == 1 and sl.lower is not None and sl.upper is not None:
            # a[lo:stop:-1] with stop = `None if c else e` or an integer expression
            lo = self.expr(sl.lower, env, binds)
            up = sl.upper
            if isinstance(up, ast.IfExp) and isinstance(up.body, ast.Constant) and up.body.value is None:
                bb = []
                c, tc = self.expr(up.test, env, bb)
                e, te = self.expr(up.orelse, env, bb)
                if bb or tc != BOOL or te != INT:
                    raise TranslateError("%s: conditional slice bound that can raise" % self.name)
                stop = "(if %s then None else Some %s)" % (c, e)
            else:
                e, te = self.expr(up, env, binds)
                if te != INT:
                    raise TranslateError("%s: slice bound of type %s" % (self.name, te))
                stop = "(Some %s)" % e
            if lo[1] != INT:
                raise TranslateError("%s: slice bound" % self.name)
            return "(py_slice_rev %s %s %s)" % (t, lo[0], stop), ARR
        if isinstance(sl, ast.Slice) and ty == CONTENT and sl.step is None:
            lo = ("(0)", INT) if sl.lower is None else self.expr(sl.lower, env, binds)
            hi = ("(zlen %s)" % t, INT) if sl.upper is None else self.expr(sl.upper, env, binds)
            if lo[1] != INT or hi[1] != INT:
                raise TranslateError("%s: slice bounds" % self.name)
            return "(py_slice %s %s %s)" % (t, lo[0], hi[0]), CONTENT
        if isinstance(sl, ast.Slice):
            if sl.step is not None or ty != ARR:
                raise TranslateError("%s: slice with a step / of %s" % (self.name, ty))
            lo = ("(0)", INT) if sl.lower is None else self.expr(sl.lower, env, binds)
            hi = ("(zlen %s)" % t, INT) if sl.upper is None else self.expr(sl.upper, env, binds)
            if lo[1] != INT or hi[1] != INT:
                raise TranslateError("%s: slice bounds" % self.name)
            return "(py_slice %s %s %s)" % (t, lo[0], hi[0]), ARR
        i, ti = self.expr(sl, env, binds)
        if ti == INTLIST and ty == ARR:
            r = self.fresh()
            binds.append((r, "py_take %s %s" % (t, i)))
            return r, ARR
        if ti != INT:
            raise TranslateError("%s: index of type %s" % (self.name, ti))
        elt = {IDL: INT, ARR: FLOAT, INTLIST: INT, IDLLIST: IDL, CONTENT: OPTELT, VECLIST: VEC, OPTSTRLIST: OPTSTR, OPTWLIST: OPTW}.get(ty)
        if elt is None:
            raise TranslateError("%s: subscript of %s" % (self.name, ty))
        seq = "(cfgs %s)" % t if ty == IDL else t
        r = self.fresh()
        binds.append((r, "py_index %s %s" % (seq, i)))
        return r, elt

    def listcomp(self, node, env, binds):
        # [list(o) for o in permutations([i for i in range(N)], N)]
        if _d(node).startswith(_d(ast.parse("[list(o) for o in permutations([i for i in range(N)], N)]", mode="eval").body)[:40]) \
                and _d(node) == _d(ast.parse("[list(o) for o in permutations([i for i in range(N)], N)]", mode="eval").body):
            t, ty = self.expr(ast.Name(id="N", ctx=ast.Load()), env, binds)
            if ty != INT:
                raise TranslateError("%s: permutations of a non-integer range" % self.name)
            return "(py_permutations %s)" % t, PERMLIST
        if len(node.generators) != 1 or not isinstance(node.generators[0].target, ast.Name):
            raise TranslateError("%s: list comprehension shape" % self.name)
        g = node.generators[0]
        xs, tx = self.iterable(g.iter, env, binds)
        x = g.target.id
        if g.ifs:
            # [e for x in xs if cond]: a filter, then a map; the condition is evaluated first, for every x, in order
            if len(g.ifs) != 1:
                raise TranslateError("%s: filtering comprehension shape" % self.name)
            envf = dict(env)
            envf[x] = tx
            bf = []
            c, tc = self.expr(g.ifs[0], envf, bf)
            if tc != BOOL:
                raise TranslateError("%s: filter condition is not boolean" % self.name)
            out = {STR: STRLIST, INT: INTLIST, OPTELT: CONTENT}.get(tx)
            if out is None:
                raise TranslateError("%s: filter over %s" % (self.name, tx))
            plain = isinstance(node.elt, ast.Name) and node.elt.id == x
            if not bf and plain:
                return "(filter (fun %s => %s) %s)" % (self.v(x), c, xs), out
            # NOTE python interleaves condition and element per x; with a condition that guards the element (as here) the two orders
            # raise in the same cases, the first exception being the one of the smallest x
            kept = self.fresh()
            binds.append((kept, "py_filter (fun %s => %s) %s" % (self.v(x), self.seq(bf, "(Ok %s)" % c), xs)))
            if plain:
                return kept, out
            be = []
            e, te = self.expr(node.elt, envf, be)
            oute = {FLOAT: ARR, INT: INTLIST, BOOL: BOOLLIST, VEC: VECLIST, ARR: MAT2, YVAL: YLIST}.get(te)
            if oute is None:
                raise TranslateError("%s: filtering comprehension producing %s" % (self.name, te))
            r = self.fresh()
            binds.append((r, "py_map (fun %s => %s) %s" % (self.v(x), self.seq(be, "(Ok %s)" % e), kept)))
            return r, oute
        env2 = dict(env)
        env2[x] = tx
        b = []
        body, tb = self.expr(node.elt, env2, b)
        out = {FLOAT: ARR, INT: INTLIST, BOOL: BOOLLIST, VEC: VECLIST, ARR: MAT2, STR: STRLIST, OPTW: OPTWLIST, OPTELT: CONTENT}.get(tb)
        if out is None:
            raise TranslateError("%s: list comprehension producing %s" % (self.name, tb))
        r = self.fresh()
        binds.append((r, "py_map (fun %s => %s) %s" % (self.v(x), self.seq(b, "(Ok %s)" % body), xs)))
        return r, out

    def iterable(self, node, env, binds):
        """-> (coq list term, element type)"""
        key = _d(node)
        if key in self.iter_aliases:      # iterating a dictionary runs over its keys
            t, ty = self.iter_aliases[key]
            return t, {STRLIST: STR}[ty]
        if key in self.aliases:
            t, ty = self.aliases[key]
            return t, {IDLLIST: IDL, INTLIST: INT, STRLIST: STR, CONTENT: OPTELT}[ty]
        if isinstance(node, ast.Call) and isinstance(node.func, ast.Name) and node.func.id == "range" and not node.keywords:
            args = [self.expr(a, env, binds) for a in node.args]
            if any(ty != INT for _, ty in args):
                raise TranslateError("%s: range over non-int" % self.name)
            if len(args) == 1:
                return "(py_upto %s)" % args[0][0], INT
            if len(args) == 2:
                return "(zrange %s %s 1)" % (args[0][0], args[1][0]), INT
            raise TranslateError("%s: for over a range with a step" % self.name)
        t, ty = self.expr(node, env, binds)
        if ty == INTLIST:
            return t, INT
        if ty == STRLIST:
            return t, STR
        if ty == CONTENT:
            return t, OPTELT
        if ty == OPTWLIST:
            return t, OPTW
        if ty == OPTSTRLIST:
            return t, OPTSTR
        if ty == PERMLIST:
            return t, INTLIST
        if ty == INTMAT:
            return t, INTLIST
        if ty == IDLLIST:
            return t, IDL
        if ty == IDL:
            return "(cfgs %s)" % t, INT
        raise TranslateError("%s: iteration over %s" % (self.name, ty))

    def call(self, node, env, binds):
        f = node.func
        fname = f.id if isinstance(f, ast.Name) else None
        dotted = None
        if isinstance(f, ast.Attribute):
            parts = []
            g = f
            while isinstance(g, ast.Attribute):
                parts.append(g.attr)
                g = g.value
            if isinstance(g, ast.Name):
                parts.append(g.id)
                dotted = ".".join(reversed(parts))
        if node.keywords and not (fname in ("Corr",) or (fname == "list") or dotted == "np.bincount"):
            raise TranslateError("%s: keyword arguments in a call" % self.name)
        if fname == "Corr" and len(node.args) == 1 and all(k.arg == "prange" for k in node.keywords):
            # the constructor is outside this translation: the new content is the result
            t, ty = self.expr(node.args[0], env, binds)
            if ty != CONTENT:
                raise TranslateError("%s: Corr(%s)" % (self.name, ty))
            return t, CONTENT
        if fname == "_check_for_none" and len(node.args) == 2 and not node.keywords:
            t, ty = self.expr(node.args[1], env, binds)
            if ty != OPTELT:
                raise TranslateError("%s: _check_for_none on %s" % (self.name, ty))
            return "(is_none %s)" % t, BOOL
        if fname == "all" and len(node.args) == 1 and not node.keywords and not isinstance(node.args[0], ast.GeneratorExp):
            t, ty = self.expr(node.args[0], env, binds)
            if ty != BOOLLIST:
                raise TranslateError("%s: all(%s)" % (self.name, ty))
            return "(forallb (fun b : bool => b) %s)" % t, BOOL
        if fname == "list" and len(node.args) == 1 and isinstance(node.args[0], ast.Call) and _d(node.args[0].func) == _d(ast.parse("np.roll", mode="eval").body):
            r = node.args[0]
            kws = {k.arg: k.value for k in r.keywords}
            inner = r.args[0] if r.args else None
            if len(r.args) == 2 and set(kws) == {"axis"} and isinstance(kws["axis"], ast.Constant) and kws["axis"].value == 0 \
                    and isinstance(inner, ast.Call) and _d(inner.func) == _d(ast.parse("np.array", mode="eval").body) and len(inner.args) == 1 \
                    and [k.arg for k in inner.keywords] == ["dtype"] and isinstance(inner.keywords[0].value, ast.Name) and inner.keywords[0].value.id == "object":
                c, tc = self.expr(inner.args[0], env, binds)
                d, td = self.expr(r.args[1], env, binds)
                if tc == CONTENT and td == INT:
                    return "(py_roll %s %s)" % (c, d), CONTENT
            raise TranslateError("%s: np.roll call shape" % self.name)
        if fname == "len" and len(node.args) == 1 and isinstance(node.args[0], ast.Call) and isinstance(node.args[0].func, ast.Name) \
                and node.args[0].func.id == "set" and len(node.args[0].args) == 1 and not node.args[0].keywords:
            t, ty = self.expr(node.args[0].args[0], env, binds)
            if ty == OPTSTRLIST:
                return "(zlen (optstr_set %s))" % t, INT
            if ty == STRLIST:
                return "(zlen (ssort_set %s))" % t, INT
            raise TranslateError("%s: len(set(%s))" % (self.name, ty))
        if fname == "isinstance" and len(node.args) == 2 and isinstance(node.args[1], ast.Name) and node.args[1].id == "str":
            t, ty = self.expr(node.args[0], env, binds)
            if ty != OPTSTR:
                raise TranslateError("%s: isinstance(.., str) on %s" % (self.name, ty))
            return "(is_some %s)" % t, BOOL
        if fname == "all" and len(node.args) == 1 and isinstance(node.args[0], ast.GeneratorExp):
            ge = node.args[0]
            lc = ast.ListComp(elt=ge.elt, generators=ge.generators)
            bl = []
            t, ty = self.listcomp(lc, env, bl)
            if ty != BOOLLIST:
                raise TranslateError("%s: all(generator of %s)" % (self.name, ty))
            # all() stops at the first False; the elements here cannot raise after a False would have been seen only if they are pure
            if any("py_map (fun" in b_[1] and ("<-" in b_[1].split("=>", 1)[1]) for b_ in bl):
                raise TranslateError("%s: all(generator) whose elements can raise" % self.name)
            binds.extend(bl)
            return "(forallb (fun b : bool => b) %s)" % t, BOOL
        if fname == "len" and len(node.args) == 1:
            t, ty = self.expr(node.args[0], env, binds)
            if ty == IDL:
                return "(zlen (cfgs %s))" % t, INT
            if ty in (ARR, INTLIST, IDLLIST, STRLIST, CONTENT, OPTSTRLIST):
                return "(zlen %s)" % t, INT
            raise TranslateError("%s: len of %s" % (self.name, ty))
        if fname == "isinstance" and len(node.args) == 2 and isinstance(node.args[1], ast.Name) and node.args[1].id == "range":
            t, ty = self.expr(node.args[0], env, binds)
            if ty != IDL:
                raise TranslateError("%s: isinstance(.., range) on %s" % (self.name, ty))
            return "(isr %s)" % t, BOOL
        if fname == "range":
            args = [self.expr(a, env, binds) for a in node.args]
            if any(ty != INT for _, ty in args) or not 1 <= len(args) <= 3:
                raise TranslateError("%s: range arguments" % self.name)
            a = [x for x, _ in args]
            full = {1: ["(0)", a[0], "(1)"], 2: a + ["(1)"], 3: a}[len(a)]
            r = self.fresh()
            binds.append((r, "py_range %s %s %s" % tuple(full)))
            return r, IDL
        if fname == "list" and len(node.args) == 1:
            t, ty = self.expr(node.args[0], env, binds)
            if ty != IDL:
                raise TranslateError("%s: list(..) of %s" % (self.name, ty))
            return "(mkIdl false (cfgs %s))" % t, IDL
        if fname == "sorted" and len(node.args) == 1 and isinstance(node.args[0], ast.Name) and env.get(node.args[0].id) == STRLIST:
            return "(py_sorted_strings %s)" % self.v(node.args[0].id), STRLIST
        if fname == "sorted" and len(node.args) == 1:
            a = node.args[0]
            # sorted(set().union(*idl))
            if isinstance(a, ast.Call) and isinstance(a.func, ast.Attribute) and a.func.attr == "union" \
                    and isinstance(a.func.value, ast.Call) and isinstance(a.func.value.func, ast.Name) and a.func.value.func.id == "set" \
                    and not a.func.value.args and len(a.args) == 1 and isinstance(a.args[0], ast.Starred):
                t, ty = self.expr(a.args[0].value, env, binds)
                if ty != IDLLIST:
                    raise TranslateError("%s: union over %s" % (self.name, ty))
                return "(mkIdl false (py_sorted_union (map cfgs %s)))" % t, IDL
            # sorted(set.intersection(*[set(o) for o in idl]))
            if isinstance(a, ast.Call) and isinstance(a.func, ast.Attribute) and a.func.attr == "intersection" \
                    and isinstance(a.func.value, ast.Name) and a.func.value.id == "set" and len(a.args) == 1 and isinstance(a.args[0], ast.Starred):
                lc = a.args[0].value
                if isinstance(lc, ast.ListComp) and len(lc.generators) == 1 and not lc.generators[0].ifs \
                        and isinstance(lc.elt, ast.Call) and isinstance(lc.elt.func, ast.Name) and lc.elt.func.id == "set" \
                        and len(lc.elt.args) == 1 and isinstance(lc.elt.args[0], ast.Name) \
                        and isinstance(lc.generators[0].target, ast.Name) and lc.generators[0].target.id == lc.elt.args[0].id:
                    t, ty = self.expr(lc.generators[0].iter, env, binds)
                    if ty != IDLLIST:
                        raise TranslateError("%s: intersection over %s" % (self.name, ty))
                    r = self.fresh()
                    binds.append((r, "py_sorted_inter (map cfgs %s)" % t))
                    return "(mkIdl false %s)" % r, IDL
            raise TranslateError("%s: sorted(..) of an unrecognised set expression" % self.name)
        if fname == "_check_lists_equal" and len(node.args) == 1:
            t, ty = self.expr(node.args[0], env, binds)
            if ty != IDLLIST:
                raise TranslateError("%s: _check_lists_equal on %s" % (self.name, ty))
            return "(all_idl_equal %s)" % t, BOOL
        if fname == "sum" and len(node.args) == 1:
            t, ty = self.expr(node.args[0], env, binds)
            if ty != INTLIST:
                raise TranslateError("%s: sum of %s" % (self.name, ty))
            return "(py_sum %s)" % t, INT
        if fname == "min" and len(node.args) == 1:
            t, ty = self.expr(node.args[0], env, binds)
            if ty != INTLIST:
                raise TranslateError("%s: min of %s" % (self.name, ty))
            r = self.fresh()
            binds.append((r, "py_min %s" % t))
            return r, INT
        if fname == "max" and len(node.args) == 1:
            t, ty = self.expr(node.args[0], env, binds)
            if ty != INTLIST:
                raise TranslateError("%s: max of %s" % (self.name, ty))
            r = self.fresh()
            binds.append((r, "py_max %s" % t))
            return r, INT
        if fname == "max" and len(node.args) == 2:
            (a, ta), (b, tb) = [self.expr(x, env, binds) for x in node.args]
            if ta == INT and tb == INT:
                return "(Z.max %s %s)" % (a, b), INT
        if fname == "min" and len(node.args) == 2:
            (a, ta), (b, tb) = [self.expr(x, env, binds) for x in node.args]
            if ta == INT and tb == INT:
                return "(Z.min %s %s)" % (a, b), INT
        if dotted == "np.fft.irfft" and len(node.args) == 1:
            # np.fft.irfft(np.abs(np.fft.rfft(x, P)) ** 2)
            a = node.args[0]
            ok = isinstance(a, ast.BinOp) and isinstance(a.op, ast.Pow) and isinstance(a.right, ast.Constant) and a.right.value == 2 \
                and isinstance(a.left, ast.Call) and _d(a.left.func) == _d(ast.parse("np.abs", mode="eval").body) and len(a.left.args) == 1 \
                and isinstance(a.left.args[0], ast.Call) and _d(a.left.args[0].func) == _d(ast.parse("np.fft.rfft", mode="eval").body) \
                and len(a.left.args[0].args) == 2 and not a.left.args[0].keywords and not a.left.keywords
            if not ok:
                raise TranslateError("%s: np.fft.irfft of something else than np.abs(np.fft.rfft(x, P)) ** 2" % self.name)
            (x, tx), (pp, tp) = [self.expr(e, env, binds) for e in a.left.args[0].args]
            if tx != ARR or tp != INT:
                raise TranslateError("%s: rfft arguments (%s, %s)" % (self.name, tx, tp))
            return "(py_fft_autocorr %s %s)" % (x, pp), ARR
        if dotted == "np.bincount" and len(node.args) == 1 and [k.arg for k in node.keywords] == ["minlength"]:
            t, ty = self.expr(node.args[0], env, binds)
            m, tm = self.expr(node.keywords[0].value, env, binds)
            if ty != INTLIST or tm != INT:
                raise TranslateError("%s: np.bincount(%s, minlength=%s)" % (self.name, ty, tm))
            r = self.fresh()
            binds.append((r, "py_bincount %s %s" % (t, m)))
            return r, ARR
        if dotted == "np.vstack" and len(node.args) == 1:
            t, ty = self.expr(node.args[0], env, binds)
            if ty != MAT2:
                raise TranslateError("%s: np.vstack(%s)" % (self.name, ty))
            r = self.fresh()
            binds.append((r, "py_vstack %s" % t))
            return r, MAT2
        if dotted == "np.mean" and len(node.args) == 1:
            t, ty = self.expr(node.args[0], env, binds)
            if ty != YLIST:
                raise TranslateError("%s: np.mean(%s)" % (self.name, ty))
            return "(ymean %s)" % t, YVAL
        if dotted == "np.arange" and len(node.args) == 1:
            t, ty = self.expr(node.args[0], env, binds)
            if ty != INT:
                raise TranslateError("%s: np.arange(%s)" % (self.name, ty))
            return "(map inject_Z (py_upto %s))" % t, ARR
        if dotted == "np.abs" and len(node.args) == 1:
            t, ty = self.expr(node.args[0], env, binds)
            if ty == ARR:
                return "(map Qabs %s)" % t, ARR
            if ty in (INT, FLOAT):
                return "(Qabs %s)" % self.coerce(t, ty, FLOAT), FLOAT
            raise TranslateError("%s: np.abs(%s)" % (self.name, ty))
        if dotted == "np.cumsum" and len(node.args) == 1:
            t, ty = self.expr(node.args[0], env, binds)
            if ty != ARR:
                raise TranslateError("%s: np.cumsum of %s" % (self.name, ty))
            return "(arr_cumsum %s)" % t, ARR
        if dotted == "np.concatenate" and len(node.args) == 1 and isinstance(node.args[0], (ast.List, ast.Tuple)) and node.args[0].elts:
            parts = []
            for e in node.args[0].elts:
                if isinstance(e, ast.List) and e.elts and all(isinstance(c, ast.Constant) and isinstance(c.value, (int, float)) and not isinstance(c.value, bool) for c in e.elts):
                    parts.append(("[" + "; ".join(self.coerce(*self.expr(c, env, binds), FLOAT) for c in e.elts) + "]", ARR))
                else:
                    parts.append(self.expr(e, env, binds))
            if any(ty != ARR for _, ty in parts):
                raise TranslateError("%s: np.concatenate of %s" % (self.name, [ty for _, ty in parts]))
            return "(" + " ++ ".join(t for t, _ in parts) + ")", ARR
        if dotted == "np.sum" and len(node.args) == 1:
            t, ty = self.expr(node.args[0], env, binds)
            if ty != ARR:
                raise TranslateError("%s: np.sum of %s" % (self.name, ty))
            return "(Qsum %s)" % t, FLOAT
        if dotted == "np.ones" and len(node.args) == 1 and isinstance(node.args[0], ast.Tuple) and len(node.args[0].elts) == 2:
            (r_, tr), (c_, tc) = [self.expr(e, env, binds) for e in node.args[0].elts]
            if tr != INT or tc != INT:
                raise TranslateError("%s: np.ones shape" % self.name)
            t = self.fresh()
            binds.append((t, "py_mat_ones %s %s" % (r_, c_)))
            return t, MAT2
        if dotted == "np.identity" and len(node.args) == 1:
            t, ty = self.expr(node.args[0], env, binds)
            if ty != INT:
                raise TranslateError("%s: np.identity(%s)" % (self.name, ty))
            r = self.fresh()
            binds.append((r, "py_mat_identity %s" % t))
            return r, MAT2
        if dotted == "np.zeros" and len(node.args) == 1:
            t, ty = self.expr(node.args[0], env, binds)
            if ty != INT:
                raise TranslateError("%s: np.zeros(%s)" % (self.name, ty))
            r = self.fresh()
            binds.append((r, "py_zeros %s" % t))
            return r, ARR
        if dotted == "np.array" and len(node.args) == 1:
            t, ty = self.expr(node.args[0], env, binds)
            if ty not in (ARR, INTLIST, YLIST):
                raise TranslateError("%s: np.array(%s)" % (self.name, ty))
            return t, ty
        if dotted == "np.min" and len(node.args) == 1 and isinstance(node.args[0], ast.Call) and len(node.args[0].args) == 1 \
                and isinstance(node.args[0].func, ast.Attribute) and node.args[0].func.attr == "diff" \
                and isinstance(node.args[0].func.value, ast.Name) and node.args[0].func.value.id == "np":
            t, ty = self.expr(node.args[0].args[0], env, binds)
            if ty != IDL:
                raise TranslateError("%s: np.min(np.diff(%s))" % (self.name, ty))
            r = self.fresh()
            binds.append((r, "py_min_diff (cfgs %s)" % t))
            return r, INT
        if dotted == "np.any" and len(node.args) == 1:
            t, ty = self.expr(node.args[0], env, binds)
            if ty != BOOLLIST:
                raise TranslateError("%s: np.any(%s)" % (self.name, ty))
            return "(existsb (fun b : bool => b) %s)" % t, BOOL
        if dotted == "np.unique" and len(node.args) == 1 and isinstance(node.args[0], ast.Call) and len(node.args[0].args) == 1 \
                and _d(node.args[0].func) == _d(ast.parse("np.diff", mode="eval").body):
            t, ty = self.expr(node.args[0].args[0], env, binds)
            if ty != IDL:
                raise TranslateError("%s: np.unique(np.diff(%s))" % (self.name, ty))
            return "(zsort_set (diffs (cfgs %s)))" % t, INTLIST
        if dotted == "np.all" and len(node.args) == 1:
            t, ty = self.expr(node.args[0], env, binds)
            if ty != BOOLLIST:
                raise TranslateError("%s: np.all(%s)" % (self.name, ty))
            return "(forallb (fun b : bool => b) %s)" % t, BOOL
        if fname == "abs" and len(node.args) == 1 and isinstance(node.args[0], ast.Call) \
                and _d(node.args[0].func) == _d(ast.parse("np.linalg.det", mode="eval").body) and len(node.args[0].args) == 1:
            t, ty = self.expr(node.args[0].args[0], env, binds)
            if ty != MATX:
                raise TranslateError("%s: det of %s" % (self.name, ty))
            return "(absdet %s)" % t, FLOAT
        if isinstance(f, ast.Attribute) and f.attr == "index" and len(node.args) == 1:
            a, ta = self.expr(f.value, env, binds)
            b, tb = self.expr(node.args[0], env, binds)
            if ta != INTLIST or tb != INT:
                raise TranslateError("%s: .index on (%s, %s)" % (self.name, ta, tb))
            r = self.fresh()
            binds.append((r, "py_list_index %s %s" % (a, b)))
            return r, INT
        if isinstance(f, ast.Attribute) and f.attr == "dot" and len(node.args) == 1:
            a, ta = self.expr(f.value, env, binds)
            b, tb = self.expr(node.args[0], env, binds)
            if ta == ARR and tb == ARR:
                r = self.fresh()
                binds.append((r, "py_dot %s %s" % (a, b)))
                return r, FLOAT
        if fname in self.consts:      # call of another translated function
            sig = self.consts[fname]
            args = [self.expr(a, env, binds) for a in node.args]
            want = [ty for _, ty in sig["params"] if ty is not None]
            if len(args) != len(want):
                raise TranslateError("%s: call of %s with %d arguments" % (self.name, fname, len(args)))
            r = self.fresh()
            binds.append((r, "%s %s" % (fname, " ".join(self.coerce(t, ty, w) for (t, ty), w in zip(args, want)))))
            return r, sig["ret"]
        raise TranslateError("%s: unsupported call %s" % (self.name, dotted or fname or _d(f)))

    # ------------------------------------------------------------------ statements
    @staticmethod
    def seq(binds, tail):
        out = ""
        for name, term in binds:
            out += "%s <- %s ;; " % (name, term)
        return "(" + out + tail + ")" if binds else tail

    def assigned(self, stmts):
        names = []
        for s in stmts:
            for n in ast.walk(s):
                tgt = None
                if isinstance(n, ast.Assign) and len(n.targets) == 1:
                    tgt = n.targets[0]
                elif isinstance(n, ast.AugAssign):
                    tgt = n.target
                elif isinstance(n, ast.Expr) and isinstance(n.value, ast.Call) and isinstance(n.value.func, ast.Attribute) \
                        and n.value.func.attr == "append" and isinstance(n.value.func.value, ast.Name):
                    tgt = n.value.func.value
                if isinstance(tgt, ast.Subscript):
                    if _d(tgt.value) in self.stores:
                        tgt = ast.Name(id=self.stores[_d(tgt.value)], ctx=ast.Load())
                    else:
                        tgt = tgt.value
                if isinstance(tgt, ast.Name) and tgt.id not in names:
                    names.append(tgt.id)
        return names

    def block(self, stmts, env, k):
        """Translate a statement list; `k(env)` gives the term for what follows it (None: nothing may follow)."""
        if not stmts:
            if k is None:
                raise TranslateError("%s: control reaches the end of the function without a return" % self.name)
            return k(env)
        s, rest = stmts[0], stmts[1:]
        nxt = lambda e: self.block(rest, e, k)
        if isinstance(s, ast.Expr) and isinstance(s.value, ast.Constant) and isinstance(s.value.value, str):
            return nxt(env)
        if isinstance(s, ast.Pass):
            return nxt(env)
        if isinstance(s, ast.Return):
            if s.value is None:
                raise TranslateError("%s: bare return" % self.name)
            b = []
            t, ty = self.expr(s.value, env, b)
            return self.seq(b, "(Ok %s)" % self.coerce(t, ty, self.ret))
        if isinstance(s, ast.Raise):
            e = s.exc
            nm = e.func.id if isinstance(e, ast.Call) and isinstance(e.func, ast.Name) else (e.id if isinstance(e, ast.Name) else None)
            if nm not in EXN:
                raise TranslateError("%s: raise of %s" % (self.name, nm))
            return "(Raise %s)" % EXN[nm]
        if isinstance(s, ast.Assign):
            if len(s.targets) != 1:
                raise TranslateError("%s: multiple assignment" % self.name)
            tgt = s.targets[0]
            b = []
            if isinstance(tgt, ast.Name) and isinstance(s.value, ast.Dict) and not s.value.keys and self.hints.get(tgt.id) == DICTL:
                env2 = dict(env)
                env2[tgt.id] = DICTL
                return "let %s := ([] : list (string * list Z)) in %s" % (self.v(tgt.id), nxt(env2))
            if isinstance(tgt, ast.Subscript) and isinstance(tgt.value, ast.Name) and env.get(tgt.value.id) == DICTL \
                    and not isinstance(tgt.slice, ast.Slice):
                i, ti = self.expr(tgt.slice, env, b)
                t, ty = self.expr(s.value, env, b)
                if ti != STR or ty != INTLIST:
                    raise TranslateError("%s: dictionary store (%s, %s)" % (self.name, ti, ty))
                dn = self.v(tgt.value.id)
                return self.seq(b, "let %s := (dictl_put %s %s %s) in %s" % (dn, dn, i, t, nxt(env)))
            if isinstance(tgt, ast.Name) and isinstance(s.value, ast.Dict) and not s.value.keys:
                if self.hints.get(tgt.id) != DICT:
                    raise TranslateError("%s: empty dict literal of unknown type (%s)" % (self.name, tgt.id))
                env2 = dict(env)
                env2[tgt.id] = DICT
                return "let %s := ([] : list (string * Q)) in %s" % (self.v(tgt.id), nxt(env2))
            if isinstance(tgt, ast.Subscript) and isinstance(tgt.value, ast.Name) and env.get(tgt.value.id) == DICT \
                    and not isinstance(tgt.slice, ast.Slice):
                i, ti = self.expr(tgt.slice, env, b)
                t, ty = self.expr(s.value, env, b)
                if ti != STR:
                    raise TranslateError("%s: dictionary store with a key of type %s" % (self.name, ti))
                dn = self.v(tgt.value.id)
                return self.seq(b, "let %s := (dict_put %s %s %s) in %s" % (dn, dn, i, self.coerce(t, ty, FLOAT), nxt(env)))
            if isinstance(tgt, ast.Name) and isinstance(s.value, ast.List) and not s.value.elts and self.hints.get(tgt.id) == CONTENT:
                env2 = dict(env)
                env2[tgt.id] = CONTENT
                return "let %s := ([] : list (option E)) in %s" % (self.v(tgt.id), nxt(env2))
            if isinstance(tgt, ast.Name) and isinstance(s.value, ast.List) and not s.value.elts:
                if self.hints.get(tgt.id) != INTLIST:
                    raise TranslateError("%s: empty list literal of unknown element type (%s)" % (self.name, tgt.id))
                env2 = dict(env)
                env2[tgt.id] = INTLIST
                return "let %s := ([] : list Z) in %s" % (self.v(tgt.id), nxt(env2))
            if isinstance(tgt, ast.Name) and tgt.id in self.unbound:
                t, ty = self.expr(s.value, env, b)
                if ty != self.unbound[tgt.id]:
                    raise TranslateError("%s: %s assigned a %s" % (self.name, tgt.id, ty))
                return self.seq(b, "let %s := (Some %s) in %s" % (self.v(tgt.id), t, nxt(env)))
            if isinstance(tgt, ast.Subscript) and isinstance(tgt.value, ast.Name) and env.get(tgt.value.id) == MATX \
                    and isinstance(tgt.slice, ast.Tuple) and len(tgt.slice.elts) == 2 and isinstance(tgt.slice.elts[1], ast.Slice) \
                    and tgt.slice.elts[1].lower is None and tgt.slice.elts[1].upper is None and tgt.slice.elts[1].step is None:
                # m[i, :] = v
                i, ti = self.expr(tgt.slice.elts[0], env, b)
                t, ty = self.expr(s.value, env, b)
                if ti != INT or ty != VEC:
                    raise TranslateError("%s: row store with (%s, %s)" % (self.name, ti, ty))
                m = self.v(tgt.value.id)
                return self.seq(b, "let %s := (rowset %s %s %s) in %s" % (m, m, i, t, nxt(env)))
            if isinstance(tgt, ast.Name):
                t, ty = self.expr(s.value, env, b)
                if self.hints.get(tgt.id) == FLOAT and ty == INT:
                    t, ty = self.coerce(t, ty, FLOAT), FLOAT
                env2 = dict(env)
                env2[tgt.id] = ty
                return self.seq(b, "let %s := %s in %s" % (self.v(tgt.id), t, nxt(env2)))
            if isinstance(tgt, ast.Subscript) and isinstance(tgt.value, ast.Name) and env.get(tgt.value.id) == ARR \
                    and not isinstance(tgt.slice, (ast.Slice, ast.Compare)):
                i, ti = self.expr(tgt.slice, env, b)
                t, ty = self.expr(s.value, env, b)
                if ti != INT:
                    raise TranslateError("%s: store index of type %s" % (self.name, ti))
                a = self.v(tgt.value.id)
                b.append((a, "py_store %s %s %s" % (a, i, self.coerce(t, ty, FLOAT))))
                return self.seq(b, nxt(env))
            if isinstance(tgt, ast.Subscript) and isinstance(tgt.value, ast.Name) and env.get(tgt.value.id) == ARR \
                    and isinstance(tgt.slice, ast.Slice) and tgt.slice.step is None:
                a = self.v(tgt.value.id)
                lo = ("(0)", INT) if tgt.slice.lower is None else self.expr(tgt.slice.lower, env, b)
                hi = ("(zlen %s)" % a, INT) if tgt.slice.upper is None else self.expr(tgt.slice.upper, env, b)
                t, ty = self.expr(s.value, env, b)
                if lo[1] != INT or hi[1] != INT or ty != ARR:
                    raise TranslateError("%s: slice assignment with (%s, %s, %s)" % (self.name, lo[1], hi[1], ty))
                b.append((a, "py_slice_set %s %s %s %s" % (a, lo[0], hi[0], t)))
                return self.seq(b, nxt(env))
            if isinstance(tgt, ast.Subscript) and isinstance(tgt.value, ast.Name) and env.get(tgt.value.id) == ARR \
                    and isinstance(tgt.slice, ast.Compare) and len(tgt.slice.ops) == 1 and isinstance(tgt.slice.left, ast.Name) \
                    and tgt.slice.left.id == tgt.value.id and isinstance(tgt.slice.ops[0], (ast.Lt, ast.LtE)):
                # a[a < c] = v : every entry below (or equal to) c is replaced by v
                c, tc = self.expr(tgt.slice.comparators[0], env, b)
                t, ty = self.expr(s.value, env, b)
                if tc not in (INT, FLOAT) or ty not in (INT, FLOAT):
                    raise TranslateError("%s: boolean-mask store with (%s, %s)" % (self.name, tc, ty))
                cmpf = "Qltb" if isinstance(tgt.slice.ops[0], ast.Lt) else "Qleb"
                a = self.v(tgt.value.id)
                return self.seq(b, "let %s := (arr_mask_set (fun x_ => %s x_ %s) %s %s) in %s"
                                % (a, cmpf, self.coerce(c, tc, FLOAT), self.coerce(t, ty, FLOAT), a, nxt(env)))
            if isinstance(tgt, ast.Subscript) and _d(tgt.value) in self.stores and not isinstance(tgt.slice, ast.Slice):
                dn = self.stores[_d(tgt.value)]
                i, ti = self.expr(tgt.slice, env, b)
                t, ty = self.expr(s.value, env, b)
                if ti != STR or env.get(dn) != DICT:
                    raise TranslateError("%s: dictionary store with a key of type %s" % (self.name, ti))
                return self.seq(b, "let %s := (dict_put %s %s %s) in %s" % (self.v(dn), self.v(dn), i, self.coerce(t, ty, FLOAT), nxt(env)))
            raise TranslateError("%s: assignment target" % self.name)
        if isinstance(s, ast.AugAssign):
            tgt = s.target
            b = []
            if isinstance(s.op, ast.Add) and isinstance(tgt, ast.Subscript) and isinstance(tgt.value, ast.Name) \
                    and env.get(tgt.value.id) == ARR and not isinstance(tgt.slice, ast.Slice):
                i, ti = self.expr(tgt.slice, env, b)
                t, ty = self.expr(s.value, env, b)
                if ti != INT:
                    raise TranslateError("%s: store index of type %s" % (self.name, ti))
                a = self.v(tgt.value.id)
                b.append((a, "py_store_add %s %s %s" % (a, i, self.coerce(t, ty, FLOAT))))
                return self.seq(b, nxt(env))
            if isinstance(s.op, ast.Add) and isinstance(tgt, ast.Subscript) and isinstance(tgt.value, ast.Name) \
                    and env.get(tgt.value.id) == ARR and isinstance(tgt.slice, ast.Slice) and tgt.slice.step is None:
                a = self.v(tgt.value.id)
                lo = ("(0)", INT) if tgt.slice.lower is None else self.expr(tgt.slice.lower, env, b)
                hi = ("(zlen %s)" % a, INT) if tgt.slice.upper is None else self.expr(tgt.slice.upper, env, b)
                t, ty = self.expr(s.value, env, b)
                if lo[1] != INT or hi[1] != INT or ty != ARR:
                    raise TranslateError("%s: slice += with (%s, %s, %s)" % (self.name, lo[1], hi[1], ty))
                b.append((a, "py_slice_add %s %s %s %s" % (a, lo[0], hi[0], t)))
                return self.seq(b, nxt(env))
            if isinstance(s.op, ast.Div) and isinstance(tgt, ast.Name) and env.get(tgt.id) == ARR:
                t, ty = self.expr(s.value, env, b)
                if ty != ARR:
                    raise TranslateError("%s: /= of %s to an array" % (self.name, ty))
                a = self.v(tgt.id)
                b.append((a, "py_arr_div2 %s %s" % (a, t)))
                return self.seq(b, nxt(env))
            if isinstance(s.op, ast.Add) and isinstance(tgt, ast.Name) and env.get(tgt.id) == INT:
                t, ty = self.expr(s.value, env, b)
                if ty != INT:
                    raise TranslateError("%s: += of %s to an int" % (self.name, ty))
                return self.seq(b, "let %s := (%s + %s) in %s" % (self.v(tgt.id), self.v(tgt.id), t, nxt(env)))
            if isinstance(s.op, ast.Mult) and isinstance(tgt, ast.Name) and env.get(tgt.id) == FLOAT:
                t, ty = self.expr(s.value, env, b)
                return self.seq(b, "let %s := (%s * %s)%%Q in %s" % (self.v(tgt.id), self.v(tgt.id), self.coerce(t, ty, FLOAT), nxt(env)))
            raise TranslateError("%s: augmented assignment" % self.name)
        if isinstance(s, ast.Expr) and isinstance(s.value, ast.Call) and isinstance(s.value.func, ast.Attribute) \
                and s.value.func.attr == "append" and isinstance(s.value.func.value, ast.Name) and len(s.value.args) == 1:
            lst = s.value.func.value.id
            b = []
            if env.get(lst) == CONTENT:
                arg = s.value.args[0]
                if isinstance(arg, ast.Constant) and arg.value is None:
                    t, ty = "None", OPTELT
                else:
                    t, ty = self.expr(arg, env, b)
                    if ty == ELT:
                        t, ty = "(Some %s)" % t, OPTELT
                if ty != OPTELT:
                    raise TranslateError("%s: append of %s to a correlator content" % (self.name, ty))
                return self.seq(b, "let %s := (%s ++ [%s]) in %s" % (self.v(lst), self.v(lst), t, nxt(env)))
            t, ty = self.expr(s.value.args[0], env, b)
            if env.get(lst) not in (INTLIST, None) or ty != INT:
                raise TranslateError("%s: append of %s to %s" % (self.name, ty, env.get(lst)))
            env2 = dict(env)
            env2[lst] = INTLIST
            return self.seq(b, "let %s := (%s ++ [%s]) in %s" % (self.v(lst), self.v(lst), t, nxt(env2)))
        if isinstance(s, ast.If):
            b = []
            c, tc = self.expr(s.test, env, b)
            if tc != BOOL:
                raise TranslateError("%s: condition of type %s" % (self.name, tc))
            if (rest or k is not None) and not self.assigned(s.body + s.orelse):
                # branches that fall through share one copy of what follows (no branch assigns, so the environment is the same)
                kn = self.fresh("k")
                cont = nxt(env)
                shared = lambda e: "%s tt" % kn
                term = "(if %s then %s else %s)" % (c, self.block(s.body, env, shared), self.block(s.orelse, env, shared))
                if ("%s tt" % kn) in term:
                    return self.seq(b, "let %s := (fun _ : unit => %s) in %s" % (kn, cont, term))
                return self.seq(b, term)
            return self.seq(b, "(if %s then %s else %s)" % (c, self.block(s.body, env, nxt), self.block(s.orelse, env, nxt)))
        if isinstance(s, ast.For):
            if isinstance(s.target, ast.Tuple) and len(s.target.elts) == 2 and all(isinstance(e, ast.Name) for e in s.target.elts) \
                    and isinstance(s.iter, ast.Call) and isinstance(s.iter.func, ast.Name) and s.iter.func.id == "enumerate" \
                    and len(s.iter.args) == 1 and not s.iter.keywords and not s.orelse:
                cnt = s.target.elts[0].id
                if any(isinstance(n, ast.Name) and n.id == cnt for st in s.body for n in ast.walk(st)):
                    raise TranslateError("%s: the counter of enumerate(..) is used in the loop body" % self.name)
                s = ast.For(target=s.target.elts[1], iter=s.iter.args[0], body=s.body, orelse=[])
            if s.orelse or not isinstance(s.target, ast.Name):
                raise TranslateError("%s: for-else / tuple target" % self.name)
            # search loop:  for x in xs: if cond: return e
            if len(s.body) == 1 and isinstance(s.body[0], ast.If) and not s.body[0].orelse and len(s.body[0].body) == 1 \
                    and isinstance(s.body[0].body[0], ast.Return) and s.body[0].body[0].value is not None:
                b = []
                xs, tx = self.iterable(s.iter, env, b)
                env2 = dict(env)
                env2[s.target.id] = tx
                bc = []
                c, tc = self.expr(s.body[0].test, env2, bc)
                bv = []
                v, tv = self.expr(s.body[0].body[0].value, env2, bv)
                if tc != BOOL:
                    raise TranslateError("%s: condition of type %s" % (self.name, tc))
                hit = self.seq(bv, "(Ok (Some %s))" % self.coerce(v, tv, self.ret))
                fun = "(fun %s => %s)" % (self.v(s.target.id), self.seq(bc, "(if %s then %s else (Ok None))" % (c, hit)))
                r = self.fresh("r")
                return self.seq(b, "%s <- py_first %s %s ;; match %s with Some found_ => Ok found_ | None => %s end" % (r, xs, fun, r, nxt(env)))
            for n in ast.walk(s):
                if isinstance(n, (ast.Return, ast.Break, ast.Continue, ast.Raise)):
                    raise TranslateError("%s: return / break / continue / raise inside a loop" % self.name)
            b = []
            xs, tx = self.iterable(s.iter, env, b)
            state = [n for n in self.assigned(s.body) if n in env or n in self.unbound]
            extra = [n for n in self.assigned(s.body) if n not in env and n not in self.unbound]
            later = {n.id for st in rest for n in ast.walk(st) if isinstance(n, ast.Name)}
            if set(extra) & later:
                raise TranslateError("%s: variables first assigned inside a loop are used after it: %s" % (self.name, sorted(set(extra) & later)))
            if not state:
                raise TranslateError("%s: loop without state" % self.name)
            pat = self.v(state[0]) if len(state) == 1 else "'(" + ", ".join(self.v(n) for n in state) + ")"
            tup = self.v(state[0]) if len(state) == 1 else "(" + ", ".join(self.v(n) for n in state) + ")"
            env2 = dict(env)
            env2[s.target.id] = tx
            body = self.block(s.body, env2, lambda e: "(Ok %s)" % tup)
            st = self.fresh("st")
            loop = "py_for %s %s (fun %s %s => let %s := %s in %s)" % (xs, tup, st, self.v(s.target.id), pat, st, body)
            return self.seq(b, "%s <- %s ;; let %s := %s in %s" % (st, loop, pat, st, nxt(env)))
        if isinstance(s, ast.Try):
            if s.orelse or s.finalbody or len(s.handlers) != 1 or not isinstance(s.handlers[0].type, ast.Name) \
                    or s.handlers[0].type.id not in EXN or s.handlers[0].name is not None:
                raise TranslateError("%s: try statement shape" % self.name)
            # what follows the try statement is evaluated inside try_except: it must not be able to raise
            if not (len(rest) == 1 and isinstance(rest[0], ast.Return) and isinstance(rest[0].value, ast.Name)) or k is not None:
                raise TranslateError("%s: statements after try must be a single `return <name>`" % self.name)
            if any(n in self.assigned(s.body) for n in [rest[0].value.id]):
                raise TranslateError("%s: try body assigns the returned variable" % self.name)
            return "(try_except %s %s %s)" % (EXN[s.handlers[0].type.id], self.block(s.body, env, nxt), self.block(s.handlers[0].body, env, nxt))
        raise TranslateError("%s: unsupported statement %s" % (self.name, type(s).__name__))


def find_function(tree, qualname):
    parts = qualname.split(".")
    body = tree.body
    node = None
    for p in parts:
        found = [n for st in body for n in ast.walk(st) if isinstance(n, (ast.FunctionDef, ast.ClassDef)) and n.name == p] if node is not None \
            else [n for n in body if isinstance(n, (ast.FunctionDef, ast.ClassDef)) and n.name == p]
        if len(found) != 1:
            raise TranslateError("function %s not found exactly once" % qualname)
        node = found[0]
        body = node.body
    if not isinstance(node, ast.FunctionDef):
        raise TranslateError("%s is not a function" % qualname)
    return node


def _targets(stmt):
    out = set()
    for n in ast.walk(stmt):
        if isinstance(n, ast.Assign):
            for t in n.targets:
                if isinstance(t, ast.Name):
                    out.add(t.id)
        if isinstance(n, ast.Call) and isinstance(n.func, ast.Attribute) and n.func.attr == "append" and isinstance(n.func.value, ast.Name):
            out.add(n.func.value.id)
    return out


def frag_w_max(fn):
    """The statements of Obs.gamma_method's per-ensemble loop that compute r_length and w_max, followed by `return w_max`."""
    loops = [n for n in fn.body if isinstance(n, ast.For) and isinstance(n.iter, ast.Call) and _d(n.iter) ==
             _d(ast.parse("enumerate(self.mc_names)", mode="eval").body)]
    if len(loops) != 1:
        raise TranslateError("gamma_method: the loop over enumerate(self.mc_names) was not found exactly once")
    picked, seen_w = [], False
    for st in loops[0].body:
        tg = _targets(st)
        mentions = {n.id for n in ast.walk(st) if isinstance(n, ast.Name)}
        if tg & {"r_length", "w_max"}:
            if seen_w:
                raise TranslateError("gamma_method: r_length / w_max are assigned again after w_max")
            picked.append(st)
            if "w_max" in tg:
                seen_w = True
        elif not seen_w and "r_length" in mentions and not isinstance(st, ast.Assign):
            raise TranslateError("gamma_method: r_length is used in an unrecognised statement before w_max")
    if not seen_w or len(picked) != 3:
        raise TranslateError("gamma_method: expected `r_length = []`, one loop filling it and `w_max = ...` (found %d statements)" % len(picked))
    return picked + [ast.Return(value=ast.Name(id="w_max", ctx=ast.Load()))]


def frag_drho(fn):
    """Body of the nested _compute_drho(i): `tmp = ...` followed by `<store> = np.sqrt(X)`; the fragment returns the radicand X."""
    body = [st for st in fn.body if not (isinstance(st, ast.Expr) and isinstance(st.value, ast.Constant))]
    if [a.arg for a in fn.args.args] != ["i"] or len(body) != 2 or not isinstance(body[1], ast.Assign):
        raise TranslateError("_compute_drho: expected `tmp = ...; self.e_drho[e_name][i] = np.sqrt(...)`")
    last = body[1]
    want = _d(ast.parse("self.e_drho[e_name][i]", mode="eval").body).replace("Load()", "Store()", 1)
    tgt = _d(last.targets[0])
    if len(last.targets) != 1 or _d(ast.parse("self.e_drho[e_name][i]", mode="eval").body).replace("ctx=Load())", "ctx=Store())") == "" :
        raise TranslateError("_compute_drho: store target")
    v = last.value
    if not (isinstance(last.targets[0], ast.Subscript) and isinstance(last.targets[0].slice, ast.Name) and last.targets[0].slice.id == "i"
            and _d(last.targets[0].value) == _d(ast.parse("self.e_drho[e_name]", mode="eval").body)):
        raise TranslateError("_compute_drho: the result is not stored into self.e_drho[e_name][i]")
    if not (isinstance(v, ast.Call) and _d(v.func) == _d(ast.parse("np.sqrt", mode="eval").body) and len(v.args) == 1 and not v.keywords):
        raise TranslateError("_compute_drho: the stored value is not np.sqrt(...)")
    return [body[0], ast.Return(value=v.args[0])]


class _Rename(ast.NodeTransformer):
    """Replace whole sub-expressions (given as source text) by plain names."""
    def __init__(self, table):
        self.table = {_d(ast.parse(k, mode="eval").body): v for k, v in table.items()}

    def generic_visit(self, node):
        key = _d(node).replace("Store()", "Load()") if isinstance(node, ast.expr) else None
        if key in self.table:
            return ast.copy_location(ast.Name(id=self.table[key], ctx=getattr(node, "ctx", ast.Load())), node)
        return super().generic_visit(node)


def _ensemble_loop(fn):
    loops = [x for x in fn.body if isinstance(x, ast.For) and isinstance(x.iter, ast.Call) and _d(x.iter) ==
             _d(ast.parse("enumerate(self.mc_names)", mode="eval").body)]
    if len(loops) != 1:
        raise TranslateError("gamma_method: the loop over enumerate(self.mc_names) was not found exactly once")
    return loops[0]


def _pick(loop, sources, what):
    import copy
    want = [_d(ast.parse(src).body[0]) for src in sources]
    body = [_d(st) for st in loop.body]
    pos = []
    for w in want:
        if body.count(w) != 1:
            raise TranslateError("gamma_method: statement of %s not found exactly once: %s" % (what, w[:80]))
        pos.append(body.index(w))
    if pos != sorted(pos):
        raise TranslateError("gamma_method: the statements of %s are not in the expected order" % what)
    return [copy.deepcopy(loop.body[i]) for i in pos]


def frag_gamma_norm(fn):
    """gamma_div[gamma_div < 1] = 1.0 ; e_gamma[e_name] /= gamma_div[:w_max]   (-> the normalised autocorrelation)"""
    st = _pick(_ensemble_loop(fn), ["gamma_div[gamma_div < 1] = 1.0", "e_gamma[e_name] /= gamma_div[:w_max]"], "the pair-count normalisation")
    ren = _Rename({"e_gamma[e_name]": "gamma"})
    return [ast.fix_missing_locations(ren.visit(x)) for x in st] + [ast.Return(value=ast.Name(id="gamma", ctx=ast.Load()))]


def frag_rho(fn):
    st = _pick(_ensemble_loop(fn), ["self.e_rho[e_name] = e_gamma[e_name][:w_max] / e_gamma[e_name][0]"], "rho")
    ren = _Rename({"e_gamma[e_name]": "gamma", "self.e_rho[e_name]": "rho"})
    return [ast.fix_missing_locations(ren.visit(x)) for x in st] + [ast.Return(value=ast.Name(id="rho", ctx=ast.Load()))]


def frag_n_tauint(fn):
    st = _pick(_ensemble_loop(fn), ["self.e_n_tauint[e_name] = np.cumsum(np.concatenate(([0.5], self.e_rho[e_name][1:])))",
                                    "self.e_n_tauint[e_name][self.e_n_tauint[e_name] <= 0.5] = 0.5 + np.finfo(np.float64).eps"], "the cumulative tau_int")
    ren = _Rename({"self.e_rho[e_name]": "rho", "self.e_n_tauint[e_name]": "nt"})
    return [ast.fix_missing_locations(ren.visit(x)) for x in st] + [ast.Return(value=ast.Name(id="nt", ctx=ast.Load()))]


def frag_tauexp_search(fn):
    """Obs.gamma_method, tau_exp branch: `_compute_drho(1)` then
           for n in range(1, w_max // 2): _compute_drho(n + 1); if <criterion at n> or n >= w_max // 2 - 2: ...; break
    The fragment is the search (which n the loop stops at).  Checked syntactically: drho(1) is computed before the loop and drho(n + 1)
    before the criterion of iteration n is evaluated, so the criterion at n reads an entry of e_drho that has been computed; exactly n is
    stored as the window; the loop leaves only through the final break."""
    want_iter = _d(ast.parse("range(1, w_max // 2)", mode="eval").body)
    found = [x for x in ast.walk(fn) if isinstance(x, ast.For) and _d(x.iter) == want_iter and isinstance(x.target, ast.Name) and x.target.id == "n"]
    if len(found) != 1:
        raise TranslateError("gamma_method: the tau_exp loop was not found exactly once")
    loop = found[0]
    if loop.orelse or len(loop.body) != 2 or _d(loop.body[0]) != _d(ast.parse("_compute_drho(n + 1)").body[0]) or not isinstance(loop.body[1], ast.If):
        raise TranslateError("gamma_method: the tau_exp loop body is not `_compute_drho(n + 1)` followed by one `if`")
    cond = loop.body[1]
    if cond.orelse or not isinstance(cond.body[-1], ast.Break) or any(isinstance(x, (ast.Break, ast.Continue, ast.Return)) for st in cond.body[:-1] for x in ast.walk(st)):
        raise TranslateError("gamma_method: the tau_exp loop does not stop with a single `break` at the end of its `if`")
    stored = [st for st in cond.body if isinstance(st, ast.Assign) and _d(st.targets[0]).replace("Store()", "Load()") == _d(ast.parse("self.e_windowsize[e_name]", mode="eval").body)]
    if len(stored) != 1 or not (isinstance(stored[0].value, ast.Name) and stored[0].value.id == "n"):
        raise TranslateError("gamma_method: the window stored in the tau_exp branch is not the loop variable n")
    # _compute_drho(1) precedes the loop in the same block
    parents = [x for x in ast.walk(fn) if isinstance(x, ast.If) and loop in x.body]
    if len(parents) != 1:
        raise TranslateError("gamma_method: the tau_exp loop is not directly inside one `if`")
    blk = parents[0].body
    before = [_d(st) for st in blk[:blk.index(loop)]]
    if _d(ast.parse("_compute_drho(1)").body[0]) not in before:
        raise TranslateError("gamma_method: _compute_drho(1) is not called before the tau_exp loop")
    search = ast.For(target=loop.target, iter=loop.iter, body=[ast.If(test=cond.test, body=[ast.Return(value=ast.Name(id="n", ctx=ast.Load()))], orelse=[])], orelse=[])
    return [search, ast.Raise(exc=ast.Call(func=ast.Name(id="KeyError", ctx=ast.Load()), args=[], keywords=[]), cause=None)]


def _window_if(fn):
    want_iter = _d(ast.parse("range(1, w_max)", mode="eval").body)
    probe = _d(ast.parse("g_w[n - 1] < 0", mode="eval").body)
    found = [x for x in ast.walk(fn) if isinstance(x, ast.For) and _d(x.iter) == want_iter and isinstance(x.target, ast.Name) and x.target.id == "n"
             and len(x.body) == 1 and isinstance(x.body[0], ast.If) and probe in _d(x.body[0].test)]
    if len(found) != 1:
        raise TranslateError("gamma_method: the automatic-windowing loop was not found exactly once")
    return found[0].body[0]


def _stored(cond, target_src, what):
    import copy
    hits = [st for st in cond.body if isinstance(st, ast.Assign) and len(st.targets) == 1
            and _d(st.targets[0]).replace("Store()", "Load()") == _d(ast.parse(target_src, mode="eval").body)]
    if len(hits) != 1:
        raise TranslateError("gamma_method: %s is not assigned exactly once in the windowing branch" % what)
    return copy.deepcopy(hits[0].value)


def frag_window_tauint(fn):
    """the value stored as e_tauint[e_name] when the automatic window is found"""
    v = _stored(_window_if(fn), "self.e_tauint[e_name]", "e_tauint")
    ren = _Rename({"self.e_n_tauint[e_name]": "nt"})
    return [ast.fix_missing_locations(ast.Return(value=ren.visit(v)))]


def frag_window_dvalue_sq(fn):
    """the radicand of the value stored as e_dvalue[e_name] (= np.sqrt(radicand)) when the automatic window is found"""
    v = _stored(_window_if(fn), "self.e_dvalue[e_name]", "e_dvalue")
    if not (isinstance(v, ast.Call) and _d(v.func) == _d(ast.parse("np.sqrt", mode="eval").body) and len(v.args) == 1 and not v.keywords):
        raise TranslateError("gamma_method: e_dvalue is not np.sqrt(...)")
    ren = _Rename({"self.e_tauint[e_name]": "tauint", "e_gamma[e_name]": "gamma"})
    return [ast.fix_missing_locations(ast.Return(value=ren.visit(v.args[0])))]


def _dtauint_stmt(fn):
    import copy
    loop = _ensemble_loop(fn)
    hits = [st for st in loop.body if isinstance(st, ast.Assign) and len(st.targets) == 1
            and _d(st.targets[0]).replace("Store()", "Load()") == _d(ast.parse("self.e_n_dtauint[e_name]", mode="eval").body)]
    if len(hits) != 1:
        raise TranslateError("gamma_method: e_n_dtauint[e_name] is not assigned exactly once in the ensemble loop")
    zero = [st for st in loop.body if _d(st) == _d(ast.parse("self.e_n_dtauint[e_name][0] = 0.0").body[0])]
    if len(zero) != 1:
        raise TranslateError("gamma_method: e_n_dtauint[e_name][0] = 0.0 is missing")
    v = copy.deepcopy(hits[0].value)
    sq = [x for x in ast.walk(v) if isinstance(x, ast.Call) and _d(x.func) == _d(ast.parse("np.sqrt", mode="eval").body)]
    if len(sq) != 1 or len(sq[0].args) != 1:
        raise TranslateError("gamma_method: e_n_dtauint is not of the form <factor> * np.sqrt(<radicand>)")
    return v, sq[0]


def frag_dtauint_radicand(fn):
    """the argument of the single np.sqrt in the formula of e_n_dtauint (hep-lat/0306017 eq. 42)"""
    v, sq = _dtauint_stmt(fn)
    ren = _Rename({"self.e_n_tauint[e_name]": "nt"})
    return [ast.fix_missing_locations(ast.Return(value=ren.visit(sq.args[0])))]


def frag_dtauint_factor(fn):
    """the formula of e_n_dtauint with np.sqrt(..) replaced by 1: the factor in front of the square root"""
    v, sq = _dtauint_stmt(fn)

    class One(ast.NodeTransformer):
        def visit_Call(self, node):
            if node is sq:
                return ast.Constant(value=1)
            return self.generic_visit(node)
    v = One().visit(v)
    ren = _Rename({"self.e_n_tauint[e_name]": "nt"})
    return [ast.fix_missing_locations(ast.Return(value=ren.visit(v)))]


def frag_reweight_samples(fn):
    """reweight: the two statements of the per-replica loop -- the weight's rows for the observable's configurations, and the
    products of weight sample and observable sample -- as a function returning the products."""
    import copy
    want_loop = _d(ast.parse("sorted(obs[i].names)", mode="eval").body)
    loops = [x for x in ast.walk(fn) if isinstance(x, ast.For) and _d(x.iter) == want_loop and isinstance(x.target, ast.Name) and x.target.id == "name"]
    if len(loops) != 1 or len(loops[0].body) != 2:
        raise TranslateError("reweight: the loop `for name in sorted(obs[i].names)` with two statements was not found exactly once")
    st1, st2 = loops[0].body
    if not (isinstance(st1, ast.Assign) and _d(st1.targets[0]).replace("Store()", "Load()") == _d(ast.parse("w_deltas[name]", mode="eval").body)):
        raise TranslateError("reweight: the first statement of the replica loop does not assign w_deltas[name]")
    if not (isinstance(st2, ast.Expr) and isinstance(st2.value, ast.Call) and _d(st2.value.func) == _d(ast.parse("new_samples.append", mode="eval").body) and len(st2.value.args) == 1):
        raise TranslateError("reweight: the second statement of the replica loop is not new_samples.append(...)")
    ren = _Rename({"w_deltas[name]": "wd", "weight.deltas[name]": "wdeltas", "weight.idl[name]": "widl", "obs[i].idl[name]": "oidl",
                   "weight.r_values[name]": "wr", "obs[i].deltas[name]": "odeltas", "obs[i].r_values[name]": "orv"})
    a = ast.Assign(targets=[ast.Name(id="wd", ctx=ast.Store())], value=ren.visit(copy.deepcopy(st1.value)))
    r = ast.Return(value=ren.visit(copy.deepcopy(st2.value.args[0])))
    return [ast.fix_missing_locations(a), ast.fix_missing_locations(r)]


def frag_correlate_replica(fn):
    """correlate: what happens to one replica -- the two checks of the validation loop (sample counts, configuration lists) and the
    statement of the second loop that builds the samples of the result, as one function of that replica's data."""
    import copy
    loops = [x for x in fn.body if isinstance(x, ast.For) and isinstance(x.target, ast.Name) and x.target.id == "name"]
    if len(loops) != 2 or _d(loops[0].iter) != _d(ast.parse("obs_a.names", mode="eval").body) \
            or _d(loops[1].iter) != _d(ast.parse("sorted(obs_a.names)", mode="eval").body):
        raise TranslateError("correlate: the validation loop over obs_a.names and the sample loop over sorted(obs_a.names) were not found")
    if fn.body.index(loops[0]) > fn.body.index(loops[1]):
        raise TranslateError("correlate: validation does not precede the construction of the samples")
    checks = loops[0].body
    if len(checks) != 2 or not all(isinstance(c, ast.If) and not c.orelse and len(c.body) == 1 and isinstance(c.body[0], ast.Raise) for c in checks):
        raise TranslateError("correlate: the validation loop is not two `if ...: raise` statements")
    app = [st for st in loops[1].body if isinstance(st, ast.Expr) and isinstance(st.value, ast.Call) and _d(st.value.func) == _d(ast.parse("new_samples.append", mode="eval").body)]
    idl = [st for st in loops[1].body if isinstance(st, ast.Expr) and isinstance(st.value, ast.Call) and _d(st.value.func) == _d(ast.parse("new_idl.append", mode="eval").body)]
    if len(loops[1].body) != 2 or len(app) != 1 or len(idl) != 1 or _d(idl[0].value.args[0]) != _d(ast.parse("obs_a.idl[name]", mode="eval").body):
        raise TranslateError("correlate: the sample loop is not `new_samples.append(..); new_idl.append(obs_a.idl[name])`")
    ren = _Rename({"obs_a.shape[name]": "ashape", "obs_b.shape[name]": "bshape", "obs_a.idl[name]": "aidl", "obs_b.idl[name]": "bidl",
                   "obs_a.deltas[name]": "adeltas", "obs_b.deltas[name]": "bdeltas", "obs_a.r_values[name]": "ar", "obs_b.r_values[name]": "br"})
    out = []
    for c in checks:
        out.append(ast.If(test=ren.visit(copy.deepcopy(c.test)), body=[ast.Raise(exc=ast.Call(func=ast.Name(id="ValueError", ctx=ast.Load()), args=[], keywords=[]), cause=None)], orelse=[])
                   if isinstance(c.body[0].exc, ast.Call) and isinstance(c.body[0].exc.func, ast.Name) and c.body[0].exc.func.id == "ValueError" else None)
    if None in out:
        raise TranslateError("correlate: a validation failure does not raise ValueError")
    out.append(ast.Return(value=ren.visit(copy.deepcopy(app[0].value.args[0]))))
    return [ast.fix_missing_locations(st) for st in out]


def frag_window_search(fn):
    """Obs.gamma_method: the automatic-windowing loop `for n in range(1, w_max): if g_w[n - 1] < 0 or n >= w_max - 1: ...; break`.
    The fragment is the search itself: which n the loop stops at (its body up to `break` is the bookkeeping of that n)."""
    want_iter = _d(ast.parse("range(1, w_max)", mode="eval").body)
    probe = _d(ast.parse("g_w[n - 1] < 0", mode="eval").body)
    found = [x for x in ast.walk(fn) if isinstance(x, ast.For) and _d(x.iter) == want_iter and isinstance(x.target, ast.Name) and x.target.id == "n"
             and len(x.body) == 1 and isinstance(x.body[0], ast.If) and probe in _d(x.body[0].test)]
    if len(found) != 1:
        raise TranslateError("gamma_method: the automatic-windowing loop was not found exactly once")
    loop = found[0]
    cond = loop.body[0]
    if loop.orelse or cond.orelse or not isinstance(cond.body[-1], ast.Break) or any(isinstance(x, (ast.Break, ast.Continue, ast.Return)) for st in cond.body[:-1] for x in ast.walk(st)):
        raise TranslateError("gamma_method: the windowing loop does not stop with a single `break` at the end of its `if`")
    stored = [st for st in cond.body if isinstance(st, ast.Assign) and _d(st.targets[0]).replace("Store()", "Load()") == _d(ast.parse("self.e_windowsize[e_name]", mode="eval").body)]
    if len(stored) != 1 or not (isinstance(stored[0].value, ast.Name) and stored[0].value.id == "n"):
        raise TranslateError("gamma_method: the window stored is not the loop variable n")
    search = ast.For(target=loop.target, iter=loop.iter, body=[ast.If(test=cond.test, body=[ast.Return(value=ast.Name(id="n", ctx=ast.Load()))], orelse=[])], orelse=[])
    return [search, ast.Raise(exc=ast.Call(func=ast.Name(id="KeyError", ctx=ast.Load()), args=[], keywords=[]), cause=None)]


def frag_sort_corr_mapping(fn):
    """sort_corr: the statements that build `mapping` (everything before corr_sorted is allocated), returning mapping."""
    body = [st for st in fn.body if not (isinstance(st, ast.Expr) and isinstance(st.value, ast.Constant))]
    cut = [k for k, st in enumerate(body) if isinstance(st, ast.Assign) and isinstance(st.targets[0], ast.Name) and st.targets[0].id == "corr_sorted"]
    if len(cut) != 1:
        raise TranslateError("sort_corr: the allocation of corr_sorted was not found exactly once")
    rest = body[cut[0]:]
    want = ast.parse("""
corr_sorted = np.zeros_like(corr)
for i in range(corr.shape[0]):
    for j in range(corr.shape[0]):
        corr_sorted[i][j] = corr[mapping[i]][mapping[j]]
return corr_sorted
""").body
    if [_d(x) for x in rest] != [_d(x) for x in want]:
        raise TranslateError("sort_corr: the permutation of the matrix is not corr_sorted[i][j] = corr[mapping[i]][mapping[j]] over the full index range")
    return body[:cut[0]] + [ast.Return(value=ast.Name(id="mapping", ctx=ast.Load()))]


def frag_init_validation(fn):
    """Obs.__init__: the validation block `if kwargs.get("means") is None and len(samples): ...`; the fragment returns True when no check raised."""
    want = _d(ast.parse('kwargs.get("means") is None and len(samples)', mode="eval").body)
    body = [st for st in fn.body if not (isinstance(st, ast.Expr) and isinstance(st.value, ast.Constant))]
    if not (isinstance(body[0], ast.If) and _d(body[0].test) == want and not body[0].orelse):
        raise TranslateError("Obs.__init__: does not start with the validation block `if kwargs.get(\"means\") is None and len(samples):`")
    return [body[0], ast.Return(value=ast.Constant(value=True))]


def frag_init_idl_list(fn):
    """Obs.__init__: the branch `elif isinstance(idx, (list, np.ndarray)):` of the loop that stores idl; `self.idl[name] = X` becomes `return X`."""
    want = _d(ast.parse("isinstance(idx, (list, np.ndarray))", mode="eval").body)
    found = [n for n in ast.walk(fn) if isinstance(n, ast.If) and _d(n.test) == want]
    if len(found) != 1:
        raise TranslateError("Obs.__init__: the branch for list-type idl was not found exactly once")

    class R(ast.NodeTransformer):
        def visit_Assign(self, node):
            if len(node.targets) == 1 and _d(node.targets[0]).replace("Store()", "Load()") == _d(ast.parse("self.idl[name]", mode="eval").body):
                return ast.Return(value=node.value)
            return node
    import copy
    body = [R().visit(copy.deepcopy(st)) for st in found[0].body]
    return body


def frag_export_boot_core(fn):
    """export_bootstrap from `proj = ...` on (the table of random numbers is given; its generation from the md5 seed is an oracle)."""
    body = [st for st in fn.body if not (isinstance(st, ast.Expr) and isinstance(st.value, ast.Constant))]
    start = [k for k, st in enumerate(body) if isinstance(st, ast.Assign) and isinstance(st.targets[0], ast.Name) and st.targets[0].id == "proj"]
    if len(start) != 1:
        raise TranslateError("export_bootstrap: the assignment of proj was not found exactly once")
    return body[start[0]:]


def frag_import_jack_samples(fn):
    """The statements of import_jackknife up to `samples = jacks[1:] @ prj`, returning samples."""
    body = [st for st in fn.body if not (isinstance(st, ast.Expr) and isinstance(st.value, ast.Constant))]
    names = [st.targets[0].id if isinstance(st, ast.Assign) and isinstance(st.targets[0], ast.Name) else None for st in body]
    if names[:3] != ["length", "prj", "samples"]:
        raise TranslateError("import_jackknife: expected the assignments length, prj, samples first (found %s)" % names[:3])
    return body[:3] + [ast.Return(value=ast.Name(id="samples", ctx=ast.Load()))]


_REP_ALIASES = lambda obj: {"e_content[e_name]": ("v_reps", IDLLIST), "%s.idl[r_name]" % obj: ("v_r_name", IDL)}

# name in the generated file, qualified python name, parameters (python name, type | None = not a value parameter), return type, aliases
SIGS = [
    dict(coq="_expand_deltas", py="_expand_deltas", params=[("deltas", ARR), ("idx", IDL), ("shape", INT), ("gapsize", INT)], ret=ARR),
    dict(coq="_merge_idx", py="_merge_idx", params=[("idl", IDLLIST)], ret=IDL),
    dict(coq="_intersection_idx", py="_intersection_idx", params=[("idl", IDLLIST)], ret=IDL),
    dict(coq="_determine_gap", py="_determine_gap", params=[("o", None), ("e_content", None), ("e_name", None)], ret=INT,
         extra_params=[("v_reps", IDLLIST)], aliases=_REP_ALIASES("o"), hints={"gaps": INTLIST}),
    dict(coq="gamma_method_w_max", py="Obs.gamma_method", fragment=frag_w_max, params=[], ret=INT,
         extra_params=[("v_reps", IDLLIST), ("v_gapsize", INT)], aliases=_REP_ALIASES("self"), hints={"r_length": INTLIST},
         env={"gapsize": INT}),
    dict(coq="_parse_kwarg", py="Obs.gamma_method._parse_kwarg", params=[("kwarg_name", None)], ret=DICT,
         extra_params=[("v_kw", "(option Q)"), ("v_kw_is_number", BOOL), ("v_dict", DICT), ("v_glob", FLOAT), ("v_names", STRLIST), ("v_out", DICT)],
         env={"out": DICT}, procedure_result="out",
         aliases={"kwarg_name in kwargs": ("(is_some v_kw)", BOOL), "kwargs.get(kwarg_name)": ("(opt_get v_kw)", FLOAT),
                  "isinstance(tmp, (int, float))": ("v_kw_is_number", BOOL),
                  "e_name in getattr(Obs, kwarg_name + '_dict')": ("(is_some (dict_find v_dict v_e_name))", BOOL),
                  "getattr(Obs, kwarg_name + '_dict')[e_name]": ("(opt_get (dict_find v_dict v_e_name))", FLOAT),
                  "getattr(Obs, kwarg_name + '_global')": ("v_glob", FLOAT),
                  "self.e_names": ("v_names", STRLIST)},
         stores={"getattr(self, kwarg_name)": "out"}),
    dict(coq="_calc_gamma", py="Obs._calc_gamma", needs=["_expand_deltas"],
         params=[("self", None), ("deltas", ARR), ("idx", IDL), ("shape", INT), ("w_max", INT), ("fft", BOOL), ("gapsize", INT)], ret=ARR),
    dict(coq="_compute_scalefactor_missing_rep", py="derived_observable._compute_scalefactor_missing_rep", params=[("obs", None)], ret=DICT,
         extra_params=[("v_mc_names", STRLIST), ("v_obs_names", STRLIST), ("v_new_names", STRLIST), ("v_new_idl_d", IDLMAP)],
         env={"new_idl_d": IDLMAP}, hints={"scalef_d": DICT},
         aliases={"obs.mc_names": ("v_mc_names", STRLIST), "obs.idl": ("v_obs_names", STRLIST)},
         iter_aliases={"new_idl_d": ("v_new_names", STRLIST)}),
    dict(coq="export_jackknife", py="Obs.export_jackknife", params=[("self", None)], ret=ARR,
         extra_params=[("v_nnames", INT), ("v_name", STR), ("v_deltas", ARR), ("v_rmean", FLOAT), ("v_value", FLOAT)],
         aliases={"len(self.names)": ("v_nnames", INT), "self.names[0]": ("v_name", STR), "self.deltas[name]": ("v_deltas", ARR),
                  "self.r_values[name]": ("v_rmean", FLOAT), "self.value": ("v_value", FLOAT)}),
    dict(coq="compute_drho_radicand", py="Obs.gamma_method._compute_drho", fragment=frag_drho, params=[], ret=FLOAT,
         extra_params=[("v_rho", ARR), ("v_w_max", INT), ("v_e_N", INT), ("v_i", INT)],
         env={"w_max": INT, "e_N": INT, "i": INT}, aliases={"self.e_rho[e_name]": ("v_rho", ARR)}),
    dict(coq="import_jackknife_samples", py="import_jackknife", fragment=frag_import_jack_samples, params=[], ret=ARR,
         extra_params=[("v_jacks", ARR)], env={"jacks": ARR}),
    dict(coq="obs_init_idl_from_list", py="Obs.__init__", fragment=frag_init_idl_list, params=[], ret=IDL,
         extra_params=[("v_idx", IDL)], env={"idx": IDL}),
    dict(coq="sort_corr_mapping", py="sort_corr", fragment=frag_sort_corr_mapping, params=[], ret=INTLIST,
         extra_params=[("v_kl", STRLIST), ("v_sizes", "(string -> Z)")], env={"kl": STRLIST},
         aliases={"len(yd[k])": ("(v_sizes v_k)", INT)}, hints={"posd": DICTL, "mapping": INTLIST}),
    dict(coq="gamma_method_window_search", py="Obs.gamma_method", fragment=frag_window_search, params=[], ret=INT,
         extra_params=[("v_gneg", "(Z -> bool)"), ("v_w_max", INT)], env={"w_max": INT},
         aliases={"g_w[n - 1] < 0": ("(v_gneg (v_n - 1))", BOOL)}),
    dict(coq="gamma_method_normalise", py="Obs.gamma_method", fragment=frag_gamma_norm, params=[], ret=ARR,
         extra_params=[("v_gamma", ARR), ("v_gamma_div", ARR), ("v_w_max", INT)], env={"gamma": ARR, "gamma_div": ARR, "w_max": INT}),
    dict(coq="gamma_method_rho", py="Obs.gamma_method", fragment=frag_rho, params=[], ret=ARR,
         extra_params=[("v_gamma", ARR), ("v_w_max", INT)], env={"gamma": ARR, "w_max": INT}),
    dict(coq="gamma_method_n_tauint", py="Obs.gamma_method", fragment=frag_n_tauint, params=[], ret=ARR,
         extra_params=[("v_rho", ARR)], env={"rho": ARR}),
    dict(coq="gamma_method_tauexp_search", py="Obs.gamma_method", fragment=frag_tauexp_search, params=[], ret=INT,
         extra_params=[("v_crit", "(Z -> bool)"), ("v_w_max", INT)], env={"w_max": INT},
         aliases={"(self.e_rho[e_name][n] - self.N_sigma[e_name] * self.e_drho[e_name][n]) < 0": ("(v_crit v_n)", BOOL)}),
    dict(coq="gamma_method_window_tauint", py="Obs.gamma_method", fragment=frag_window_tauint, params=[], ret=FLOAT, numpy_div=True,
         extra_params=[("v_nt", ARR), ("v_n", INT), ("v_e_N", INT)], env={"nt": ARR, "n": INT, "e_N": INT}),
    dict(coq="gamma_method_window_dvalue_sq", py="Obs.gamma_method", fragment=frag_window_dvalue_sq, params=[], ret=FLOAT, numpy_div=True,
         extra_params=[("v_tauint", FLOAT), ("v_gamma", ARR), ("v_e_N", INT)], env={"tauint": FLOAT, "gamma": ARR, "e_N": INT}),
    dict(coq="export_bootstrap_core", py="Obs.export_bootstrap", fragment=frag_export_boot_core, params=[], ret=ARR,
         extra_params=[("v_samples", INT), ("v_random_numbers", INTMAT), ("v_deltas", ARR), ("v_rmean", FLOAT), ("v_value", FLOAT)],
         env={"samples": INT, "random_numbers": INTMAT},
         aliases={"length": ("(zlen v_deltas)", INT), "self.deltas[name]": ("v_deltas", ARR), "self.r_values[name]": ("v_rmean", FLOAT), "self.value": ("v_value", FLOAT)}),
    dict(coq="obs_init_validation", py="Obs.__init__", fragment=frag_init_validation, params=[], ret=BOOL,
         extra_params=[("v_no_means", BOOL), ("v_nsamples", INT), ("v_names", OPTSTRLIST), ("v_has_idl", BOOL), ("v_len_idl", INT), ("v_minlen", INT)],
         env={"names": OPTSTRLIST},
         aliases={'kwargs.get("means") is None and len(samples)': ("(v_no_means && negb (v_nsamples =? 0))", BOOL), "len(samples)": ("v_nsamples", INT),
                  "idl is not None": ("v_has_idl", BOOL), "len(idl)": ("v_len_idl", INT), "min(len(x) for x in samples)": ("v_minlen", INT)}),
    dict(coq="gamma_method_dtauint_radicand", py="Obs.gamma_method", fragment=frag_dtauint_radicand, params=[], ret=ARR, numpy_div=True,
         extra_params=[("v_nt", ARR), ("v_w_max", INT), ("v_e_N", INT)], env={"nt": ARR, "w_max": INT, "e_N": INT}),
    dict(coq="gamma_method_dtauint_factor", py="Obs.gamma_method", fragment=frag_dtauint_factor, params=[], ret=ARR, numpy_div=True,
         extra_params=[("v_nt", ARR), ("v_w_max", INT), ("v_e_N", INT)], env={"nt": ARR, "w_max": INT, "e_N": INT}),
    dict(coq="_reduce_deltas", py="_reduce_deltas", params=[("deltas", ARR), ("idx_old", IDL), ("idx_new", IDL)], ret=ARR),
    dict(coq="covariance_calc_gamma", py="_covariance_element.calc_gamma", needs=["_reduce_deltas"],
         params=[("deltas1", ARR), ("deltas2", ARR), ("idx1", IDL), ("idx2", IDL), ("new_idx", IDL)], ret=FLOAT),
    dict(coq="reweight_samples", py="reweight", fragment=frag_reweight_samples, params=[], ret=ARR, needs=["_reduce_deltas"],
         extra_params=[("v_wdeltas", ARR), ("v_widl", IDL), ("v_wr", FLOAT), ("v_odeltas", ARR), ("v_oidl", IDL), ("v_orv", FLOAT)],
         env={"wdeltas": ARR, "widl": IDL, "wr": FLOAT, "odeltas": ARR, "oidl": IDL, "orv": FLOAT}),
    dict(coq="correlate_replica", py="correlate", fragment=frag_correlate_replica, params=[], ret=ARR,
         extra_params=[("v_ashape", INT), ("v_bshape", INT), ("v_aidl", IDL), ("v_bidl", IDL), ("v_adeltas", ARR), ("v_ar", FLOAT), ("v_bdeltas", ARR), ("v_br", FLOAT)],
         env={"ashape": INT, "bshape": INT, "aidl": IDL, "bidl": IDL, "adeltas": ARR, "ar": FLOAT, "bdeltas": ARR, "br": FLOAT}),
    dict(coq="_expand_deltas_for_merge", py="_expand_deltas_for_merge",
         params=[("deltas", ARR), ("idx", IDL), ("shape", INT), ("new_idx", IDL), ("scalefactor", FLOAT)], ret=ARR),
]


def _drop_warn_blocks(stmts):
    """Remove `if ...:` statements whose body only prepares and emits a warning (no return / raise / append / store): they cannot change
    the result; whether their evaluation can raise is left to the correspondence checks."""
    out = []
    for st in stmts:
        if isinstance(st, ast.If) and not st.orelse:
            has_warn = any(isinstance(n, ast.Call) and _d(n.func) == _d(ast.parse("warnings.warn", mode="eval").body) for n in ast.walk(st))
            effects = any(isinstance(n, (ast.Return, ast.Raise, ast.AugAssign)) or
                          (isinstance(n, ast.Call) and isinstance(n.func, ast.Attribute) and n.func.attr == "append") or
                          (isinstance(n, ast.Assign) and any(not isinstance(t, ast.Name) for t in n.targets)) for n in ast.walk(st))
            if has_warn and not effects:
                continue
        out.append(st)
    return out


def frag_corr_corr_branch(fn):
    """The body of the `if isinstance(y, Corr):` branch of a binary operator of Corr."""
    first = [st for st in fn.body if not (isinstance(st, ast.Expr) and isinstance(st.value, ast.Constant))][0]
    if not (isinstance(first, ast.If) and _d(first.test) == _d(ast.parse("isinstance(y, Corr)", mode="eval").body)):
        raise TranslateError("%s: the method does not start with `if isinstance(y, Corr):`" % fn.name)
    return first.body


def _fit_assign(fn, name):
    import copy
    hits = [st for st in fn.body if isinstance(st, ast.Assign) and len(st.targets) == 1 and isinstance(st.targets[0], ast.Name) and st.targets[0].id == name]
    if len(hits) != 1:
        raise TranslateError("Corr.fit: %s is not assigned exactly once at the top level" % name)
    call = [st for st in fn.body if isinstance(st, ast.Assign) and isinstance(st.value, ast.Call) and isinstance(st.value.func, ast.Name)
            and st.value.func.id == "least_squares"]
    if len(call) != 1 or [_d(a) for a in call[0].value.args[:2]] != [_d(ast.parse("xs", mode="eval").body), _d(ast.parse("ys", mode="eval").body)]:
        raise TranslateError("Corr.fit: least_squares is not called as least_squares(xs, ys, ...)")
    return [ast.Return(value=copy.deepcopy(hits[0].value))]


def frag_fit_xs(fn):
    return _fit_assign(fn, "xs")


def frag_fit_ys(fn):
    return _fit_assign(fn, "ys")


def frag_plateau_avg(fn):
    """Corr.plateau: the branch `elif method in ["avg", "average", "mean"]:` (the value it returns)"""
    want = _d(ast.parse('method in ["avg", "average", "mean"]', mode="eval").body)
    hits = [x for x in ast.walk(fn) if isinstance(x, ast.If) and _d(x.test) == want]
    if len(hits) != 1:
        raise TranslateError("Corr.plateau: the averaging branch was not found exactly once")
    return hits[0].body


class _RewriteProjection(ast.NodeTransformer):
    """v / np.sqrt(v @ v) -> vnorm__(v);  np.asarray([a.T @ G @ b]) -> sandwich__(a, G, b).  Anything else with `@` stays and is refused later."""
    def visit_BinOp(self, node):
        if isinstance(node.op, ast.Div) and isinstance(node.left, ast.Name):
            want = ast.parse("%s / np.sqrt(%s @ %s)" % ((node.left.id,) * 3), mode="eval").body
            if _d(node) == _d(want):
                return ast.Call(func=ast.Name(id="vnorm__", ctx=ast.Load()), args=[node.left], keywords=[])
        return self.generic_visit(node)

    def visit_Call(self, node):
        if _d(node.func) == _d(ast.parse("np.asarray", mode="eval").body) and len(node.args) == 1 and not node.keywords \
                and isinstance(node.args[0], ast.List) and len(node.args[0].elts) == 1:
            e = node.args[0].elts[0]
            if isinstance(e, ast.BinOp) and isinstance(e.op, ast.MatMult) and isinstance(e.left, ast.BinOp) and isinstance(e.left.op, ast.MatMult) \
                    and isinstance(e.left.left, ast.Attribute) and e.left.left.attr == "T":
                return ast.Call(func=ast.Name(id="sandwich__", ctx=ast.Load()), args=[e.left.left.value, e.left.right, e.right], keywords=[])
        return self.generic_visit(node)


class _RewriteMeffRoot(ast.NodeTransformer):
    """self.content[k][0].value -> value__(self.content[k]);  np.abs(find_root(self.content[t][0] / self.content[t + 1][0], root_function, guess=guess))
    -> root__(self.content[t], self.content[t + 1], t);  variant == 'sinh' -> is_sinh."""
    def visit_Attribute(self, node):
        if node.attr == "value" and isinstance(node.value, ast.Subscript) and isinstance(node.value.slice, ast.Constant) and node.value.slice.value == 0 \
                and isinstance(node.value.value, ast.Subscript) and _d(node.value.value.value) == _d(ast.parse("self.content", mode="eval").body):
            return ast.Call(func=ast.Name(id="value__", ctx=ast.Load()), args=[node.value.value], keywords=[])
        return self.generic_visit(node)

    def visit_Call(self, node):
        want = ast.parse("np.abs(find_root(self.content[t][0] / self.content[t + 1][0], root_function, guess=guess))", mode="eval").body
        if _d(node) == _d(want):
            return ast.parse("root__(self.content[t], self.content[t + 1], t)", mode="eval").body
        return self.generic_visit(node)

    def visit_Compare(self, node):
        if _d(node) == _d(ast.parse("variant == 'sinh'", mode="eval").body):
            return ast.Name(id="is_sinh", ctx=ast.Load())
        return self.generic_visit(node)


def frag_meff_root_loop(fn):
    """Corr.m_eff, branch `elif variant in ['periodic', 'cosh', 'sinh']:` -- the loop that decides, timeslice by timeslice, between undefined,
    filled with the predecessor, and the root of the documented ratio equation.  The selector also checks the equation that is solved."""
    import copy
    want = _d(ast.parse("variant in ['periodic', 'cosh', 'sinh']", mode="eval").body)
    hits = [x for x in ast.walk(fn) if isinstance(x, ast.If) and _d(x.test) == want]
    if len(hits) != 1:
        raise TranslateError("Corr.m_eff: the branch of the root variants was not found exactly once")
    body = hits[0].body
    rf = [st for st in body if isinstance(st, ast.FunctionDef) and st.name == "root_function"]
    want_rf = ast.parse("def root_function(x, d):\n    return func(x * (t - self.T / 2)) / func(x * (t + 1 - self.T / 2)) - d").body[0]
    if len(rf) != 1 or _d(rf[0]) != _d(want_rf):
        raise TranslateError("Corr.m_eff: root_function is not func(x (t - T/2)) / func(x (t + 1 - T/2)) - d")
    sel = [st for st in body if isinstance(st, ast.If) and _d(st.test) == _d(ast.parse("variant in ['periodic', 'cosh']", mode="eval").body)]
    want_sel = ast.parse("if variant in ['periodic', 'cosh']:\n    func = anp.cosh\nelse:\n    func = anp.sinh").body[0]
    if len(sel) != 1 or _d(sel[0]) != _d(want_sel):
        raise TranslateError("Corr.m_eff: func is not anp.cosh for periodic / cosh and anp.sinh for sinh")
    init = [i for i, st in enumerate(body) if _d(st) == _d(ast.parse("newcontent = []").body[0])]
    if len(init) != 1 or init[0] + 1 >= len(body) or not isinstance(body[init[0] + 1], ast.For):
        raise TranslateError("Corr.m_eff: `newcontent = []` followed by the loop over the timeslices was not found")
    if any(isinstance(n, ast.Name) and n.id in ("newcontent", "t") and isinstance(n.ctx, ast.Store) for st in body[:init[0]] for n in ast.walk(st)):
        raise TranslateError("Corr.m_eff: newcontent / t assigned before the loop")
    stmts = [_RewriteMeffRoot().visit(copy.deepcopy(st)) for st in body[init[0]:init[0] + 2]]
    return [ast.fix_missing_locations(st) for st in stmts] + [ast.Return(value=ast.Name(id="newcontent", ctx=ast.Load()))]


def frag_corr_reweight_loop(fn):
    """Corr.reweight: `new_content = []`, the loop over the timeslices, and the content handed to the constructor."""
    import copy
    init = [i for i, st in enumerate(fn.body) if _d(st) == _d(ast.parse("new_content = []").body[0])]
    if len(init) != 1 or not isinstance(fn.body[init[0] + 1], ast.For) or _d(fn.body[-1]) != _d(ast.parse("return Corr(new_content)").body[0]) or init[0] + 3 != len(fn.body):
        raise TranslateError("Corr.reweight: `new_content = []; for ...; return Corr(new_content)` was not found at the end of the method")
    want = _d(ast.parse("np.array(reweight(weight, t_slice, **kwargs))", mode="eval").body)

    class R(ast.NodeTransformer):
        def visit_Call(self, node):
            if _d(node) == want:
                return ast.parse("rw__(t_slice)", mode="eval").body
            return self.generic_visit(node)
    return [ast.fix_missing_locations(R().visit(copy.deepcopy(st))) for st in fn.body[init[0]:init[0] + 2]] + [ast.Return(value=ast.Name(id="new_content", ctx=ast.Load()))]


def frag_corr_correlate_loop(fn):
    """Corr.correlate with a Corr partner: the loop over enumerate(self.content), read as a loop over the timeslice numbers x0 with
    t_slice = self.content[x0] (len(self.content) == self.T is the class invariant), specialised to the `isinstance(partner, Corr)` branch."""
    import copy
    init = [i for i, st in enumerate(fn.body) if _d(st) == _d(ast.parse("new_content = []").body[0])]
    if len(init) != 1 or not isinstance(fn.body[init[0] + 1], ast.For) or _d(fn.body[-1]) != _d(ast.parse("return Corr(new_content)").body[0]) or init[0] + 3 != len(fn.body):
        raise TranslateError("Corr.correlate: `new_content = []; for ...; return Corr(new_content)` was not found at the end of the method")
    loop = fn.body[init[0] + 1]
    if _d(loop.target) != _d(ast.parse("for x0, t_slice in enumerate(self.content): pass").body[0].target) or _d(loop.iter) != _d(ast.parse("enumerate(self.content)", mode="eval").body):
        raise TranslateError("Corr.correlate: the loop is not `for x0, t_slice in enumerate(self.content)`")
    if len(loop.body) != 1 or not isinstance(loop.body[0], ast.If) or len(loop.body[0].orelse) != 1 or not isinstance(loop.body[0].orelse[0], ast.If) \
            or _d(loop.body[0].orelse[0].test) != _d(ast.parse("isinstance(partner, Corr)", mode="eval").body):
        raise TranslateError("Corr.correlate: the loop body is not `if <undefined>: ... else: if isinstance(partner, Corr): ...`")
    outer = copy.deepcopy(loop.body[0])
    outer.orelse = outer.orelse[0].body        # the branch taken for a Corr partner
    want = _d(ast.parse("np.array([correlate(o, partner.content[x0][0]) for o in t_slice])", mode="eval").body)

    class R(ast.NodeTransformer):
        def visit_Call(self, node):
            if _d(node) == want:
                return ast.parse("corr2__(t_slice, partner.content[x0])", mode="eval").body
            return self.generic_visit(node)
    outer = R().visit(outer)
    new_loop = ast.For(target=ast.Name(id="x0", ctx=ast.Store()), iter=ast.parse("range(self.T)", mode="eval").body,
                       body=[ast.parse("t_slice = self.content[x0]").body[0], outer], orelse=[])
    return [ast.fix_missing_locations(st) for st in [copy.deepcopy(fn.body[init[0]]), new_loop, ast.Return(value=ast.Name(id="new_content", ctx=ast.Load()))]]


class _RewritePlottable(ast.NodeTransformer):
    """y[0].value -> value__(y);  y[0].dvalue -> dvalue__(y)  (y a plain name)"""
    def visit_Attribute(self, node):
        if node.attr in ("value", "dvalue") and isinstance(node.value, ast.Subscript) and isinstance(node.value.slice, ast.Constant) and node.value.slice.value == 0 \
                and isinstance(node.value.value, ast.Name):
            return ast.Call(func=ast.Name(id=node.attr + "__", ctx=ast.Load()), args=[node.value.value], keywords=[])
        return self.generic_visit(node)


def _plottable_list(fn, which):
    import copy
    ret = fn.body[-1]
    if not (isinstance(ret, ast.Return) and _d(ret.value) == _d(ast.parse("x_list, y_list, y_err_list", mode="eval").body)):
        raise TranslateError("Corr.plottable does not return x_list, y_list, y_err_list")
    hits = [st for st in fn.body if isinstance(st, ast.Assign) and len(st.targets) == 1 and isinstance(st.targets[0], ast.Name) and st.targets[0].id == which]
    if len(hits) != 1:
        raise TranslateError("Corr.plottable: %s is not assigned exactly once" % which)
    return [ast.fix_missing_locations(ast.Return(value=_RewritePlottable().visit(copy.deepcopy(hits[0].value))))]


def frag_plottable_x(fn):
    return _plottable_list(fn, "x_list")


def frag_plottable_y(fn):
    return _plottable_list(fn, "y_list")


def frag_plottable_yerr(fn):
    return _plottable_list(fn, "y_err_list")


def frag_projected_single(fn):
    """Corr.projected: the statement of the single-vector branch that builds the new content."""
    import copy
    want = _d(ast.parse("not isinstance(vector_l, list)", mode="eval").body)
    hits = [st for st in fn.body if isinstance(st, ast.If) and _d(st.test) == want]
    if len(hits) != 1:
        raise TranslateError("Corr.projected: the single-vector branch was not found exactly once")
    last = hits[0].body[-1]
    if not (isinstance(last, ast.Assign) and len(last.targets) == 1 and isinstance(last.targets[0], ast.Name) and last.targets[0].id == "newcontent"):
        raise TranslateError("Corr.projected: the single-vector branch does not end with the assignment of newcontent")
    if any(isinstance(n, ast.Name) and n.id == "newcontent" for st in hits[0].body[:-1] for n in ast.walk(st)):
        raise TranslateError("Corr.projected: newcontent is touched before it is built")
    val = _RewriteProjection().visit(copy.deepcopy(last.value))
    return [ast.fix_missing_locations(ast.Return(value=val))]


def frag_projected_lists(fn):
    """Corr.projected: the branch for one vector pair per timeslice (the `else:` of `if not isinstance(vector_l, list):`), up to the new content."""
    import copy
    want = _d(ast.parse("not isinstance(vector_l, list)", mode="eval").body)
    hits = [st for st in fn.body if isinstance(st, ast.If) and _d(st.test) == want]
    if len(hits) != 1 or not hits[0].orelse:
        raise TranslateError("Corr.projected: the branch for vector lists was not found exactly once")
    last = fn.body[-1]
    if not (isinstance(last, ast.Return) and _d(last.value) == _d(ast.parse("Corr(newcontent)", mode="eval").body) and fn.body[-2] is hits[0]):
        raise TranslateError("Corr.projected: the method does not end with the two branches followed by `return Corr(newcontent)`")
    body = [_RewriteProjection().visit(copy.deepcopy(st)) for st in hits[0].orelse]
    return [ast.fix_missing_locations(st) for st in body] + [ast.Return(value=ast.Name(id="newcontent", ctx=ast.Load()))]


def frag_corr_scalar_branch(fn):
    """The body of the `elif isinstance(y, (Obs, int, float, CObs, complex)):` branch of a binary operator of Corr."""
    first = [st for st in fn.body if not (isinstance(st, ast.Expr) and isinstance(st.value, ast.Constant))][0]
    want = _d(ast.parse("isinstance(y, (Obs, int, float, CObs, complex))", mode="eval").body)
    if not (isinstance(first, ast.If) and len(first.orelse) == 1 and isinstance(first.orelse[0], ast.If) and _d(first.orelse[0].test) == want):
        raise TranslateError("%s: the scalar branch `elif isinstance(y, (Obs, int, float, CObs, complex)):` was not found" % fn.name)
    return first.orelse[0].body


def frag_drop_warnings(fn):
    return _drop_warn_blocks(fn.body)


def frag_sort_branch(fn):
    """The branch `elif not t == ts:` of the loop of _sort_vectors; its final append becomes the returned value."""
    loops = [st for st in fn.body if isinstance(st, ast.For)]
    if len(loops) != 1 or not (isinstance(loops[0].body[0], ast.If) and len(loops[0].body) == 1):
        raise TranslateError("_sort_vectors: expected one loop over the timeslices with one if / elif / else")
    top = loops[0].body[0]
    if not (len(top.orelse) == 1 and isinstance(top.orelse[0], ast.If) and _d(top.orelse[0].test) == _d(ast.parse("not t == ts", mode="eval").body)):
        raise TranslateError("_sort_vectors: the branch `elif not t == ts:` was not found")
    br = top.orelse[0].body
    last = br[-1]
    if not (isinstance(last, ast.Expr) and isinstance(last.value, ast.Call) and isinstance(last.value.func, ast.Attribute)
            and last.value.func.attr == "append" and _d(last.value.func.value) == _d(ast.parse("sorted_vec_set", mode="eval").body) and len(last.value.args) == 1):
        raise TranslateError("_sort_vectors: the branch does not end with sorted_vec_set.append(...)")
    return br[:-1] + [ast.Return(value=last.value.args[0])]


_CORR = dict(file="correlators.py", section="corr")
_CORR_ALIASES = {"self.content": ("v_content", CONTENT), "self.T": ("(zlen v_content)", INT), "self.N": ("v_N", INT),
                 "y.content": ("v_ycontent", CONTENT), "y.T": ("(zlen v_ycontent)", INT), "y.N": ("v_yN", INT)}
CORR_SIGS = [
    dict(coq="corr_thin", py="Corr.thin", params=[("self", None), ("spacing", INT), ("offset", INT)], ret=CONTENT, defaults_ok=True,
         extra_params=[("v_content", CONTENT)], aliases=_CORR_ALIASES, hints={"new_content": CONTENT}, **_CORR),
    dict(coq="corr_reverse", py="Corr.reverse", params=[("self", None)], ret=CONTENT, extra_params=[("v_content", CONTENT)], aliases=_CORR_ALIASES, **_CORR),
    dict(coq="corr_roll", py="Corr.roll", params=[("self", None), ("dt", INT)], ret=CONTENT, extra_params=[("v_content", CONTENT)], aliases=_CORR_ALIASES, **_CORR),
    dict(coq="corr_symmetric", py="Corr.symmetric", fragment=frag_drop_warnings, params=[], ret=CONTENT,
         extra_params=[("v_content", CONTENT), ("v_N", INT)], aliases=_CORR_ALIASES, **_CORR),
    dict(coq="corr_anti_symmetric", py="Corr.anti_symmetric", fragment=frag_drop_warnings, params=[], ret=CONTENT,
         extra_params=[("v_content", CONTENT), ("v_N", INT)], aliases=_CORR_ALIASES, **_CORR),
    dict(coq="corr_add_corr", py="Corr.__add__", fragment=frag_corr_corr_branch, params=[], ret=CONTENT,
         extra_params=[("v_content", CONTENT), ("v_N", INT), ("v_ycontent", CONTENT), ("v_yN", INT)], aliases=_CORR_ALIASES, hints={"newcontent": CONTENT}, **_CORR),
    dict(coq="corr_add_scalar", py="Corr.__add__", fragment=frag_corr_scalar_branch, params=[], ret=CONTENT,
         extra_params=[("v_content", CONTENT), ("v_N", INT), ("v_y", SCAL)], env={"y": SCAL}, aliases=_CORR_ALIASES, hints={"newcontent": CONTENT}, **_CORR),
    dict(coq="corr_mul_scalar", py="Corr.__mul__", fragment=frag_corr_scalar_branch, params=[], ret=CONTENT,
         extra_params=[("v_content", CONTENT), ("v_N", INT), ("v_y", SCAL)], env={"y": SCAL}, aliases=_CORR_ALIASES, hints={"newcontent": CONTENT}, **_CORR),
    dict(coq="corr_plateau_avg", py="Corr.plateau", fragment=frag_plateau_avg, params=[], ret=YVAL,
         extra_params=[("v_content", CONTENT), ("v_plateau_range", INTLIST)], env={"plateau_range": INTLIST}, aliases=_CORR_ALIASES, **_CORR),
    dict(coq="corr_fit_xs", py="Corr.fit", fragment=frag_fit_xs, params=[], ret=INTLIST,
         extra_params=[("v_content", CONTENT), ("v_fitrange", INTLIST)], env={"fitrange": INTLIST}, aliases=_CORR_ALIASES, **_CORR),
    dict(coq="corr_fit_ys", py="Corr.fit", fragment=frag_fit_ys, params=[], ret=YLIST,
         extra_params=[("v_content", CONTENT), ("v_fitrange", INTLIST)], env={"fitrange": INTLIST}, aliases=_CORR_ALIASES, **_CORR),
    dict(coq="corr_mul_corr", py="Corr.__mul__", fragment=frag_corr_corr_branch, params=[], ret=CONTENT,
         extra_params=[("v_content", CONTENT), ("v_N", INT), ("v_ycontent", CONTENT), ("v_yN", INT)], aliases=_CORR_ALIASES, hints={"newcontent": CONTENT}, **_CORR),
]
MEFF_SIGS = [
    dict(coq="m_eff_root_loop", py="Corr.m_eff", fragment=frag_meff_root_loop, params=[], ret=CONTENT, file="correlators.py", section="meffroot",
         extra_params=[("v_content", CONTENT), ("v_is_sinh", BOOL)], env={"is_sinh": BOOL}, aliases=_CORR_ALIASES, hints={"newcontent": CONTENT}),
]
CORR05_SIGS = [
    dict(coq="corr_reweight_loop", py="Corr.reweight", fragment=frag_corr_reweight_loop, params=[], ret=CONTENT, file="correlators.py", section="corr05",
         extra_params=[("v_content", CONTENT)], aliases=_CORR_ALIASES, hints={"new_content": CONTENT}),
    dict(coq="corr_correlate_loop", py="Corr.correlate", fragment=frag_corr_correlate_loop, params=[], ret=CONTENT, file="correlators.py", section="corr05",
         extra_params=[("v_content", CONTENT), ("v_pcontent", CONTENT)],
         aliases=dict(_CORR_ALIASES, **{"partner.content": ("v_pcontent", CONTENT)}), hints={"new_content": CONTENT}),
]
PLOT_SIGS = [
    dict(coq="corr_plottable_x", py="Corr.plottable", fragment=frag_plottable_x, params=[], ret=INTLIST, file="correlators.py", section="plot",
         extra_params=[("v_content", CONTENT)], aliases=_CORR_ALIASES),
    dict(coq="corr_plottable_y", py="Corr.plottable", fragment=frag_plottable_y, params=[], ret=ARR, file="correlators.py", section="plot",
         extra_params=[("v_content", CONTENT)], aliases=_CORR_ALIASES),
    dict(coq="corr_plottable_yerr", py="Corr.plottable", fragment=frag_plottable_yerr, params=[], ret=ARR, file="correlators.py", section="plot",
         extra_params=[("v_content", CONTENT)], aliases=_CORR_ALIASES),
]
PROJ_SIGS = [
    dict(coq="corr_projected_single", py="Corr.projected", fragment=frag_projected_single, params=[], ret=CONTENT, file="correlators.py", section="proj",
         extra_params=[("v_content", CONTENT), ("v_vector_l", WVEC), ("v_vector_r", WVEC)],
         env={"vector_l": WVEC, "vector_r": WVEC}, aliases=_CORR_ALIASES),
    dict(coq="corr_projected_lists", py="Corr.projected", fragment=frag_projected_lists, params=[], ret=CONTENT, file="correlators.py", section="proj",
         extra_params=[("v_content", CONTENT), ("v_vector_l", OPTWLIST), ("v_vector_r", OPTWLIST), ("v_normalize", BOOL)],
         env={"vector_l": OPTWLIST, "vector_r": OPTWLIST, "normalize": BOOL}, aliases=_CORR_ALIASES),
]
SORT_SIGS = [
    dict(coq="sort_vectors_branch", py="_sort_vectors", fragment=frag_sort_branch, params=[], ret=VECLIST, file="correlators.py", section="sortvec",
         extra_params=[("v_N", INT), ("v_ref", MATX), ("v_vec", VECLIST), ("v_vec_in", VECLIST)], env={"N": INT},
         aliases={"reference_sorting.copy()": ("v_ref", MATX), "vec_set[t]": ("v_vec", VECLIST), "vec_set_in[t]": ("v_vec_in", VECLIST)},
         hints={"best_score": FLOAT, "current_score": FLOAT}, unbound={"best_perm": INTLIST}),
]
SECTION_HEADERS = {
    "sortvec": ["Section SortVec.", "Variables V M : Type.", "Variable rowset : M -> Z -> V -> M.", "Variable absdet : M -> Q."],
    "meffroot": ["Section MeffRoot.", "Variable E : Type.", "Variable evalue : E -> Q.", "Variable eroot : E -> E -> Z -> E."],
    "corr05": ["Section CorrPairing.", "Variable E : Type.", "Variable erw : E -> E.", "Variable ecorr : E -> E -> E."],
    "plot": ["Section Plottable.", "Variable E : Type.", "Variables evalue edvalue : E -> Q."],
    "proj": ["Section ProjOps.", "Variables E W : Type.", "Variable vnorm : W -> W.", "Variable sandwich : W -> E -> W -> E."],
    "corr": ["Section CorrOps.", "Variables E S : Type.", "Variables eadd esub emul ediv : E -> E -> E.", "Variable escale : Q -> E -> E.",
             "Variables eaddS emulS edivS : E -> S -> E.", "Variable Y : Type.", "Variable efirst : E -> Y.", "Variable ymean : list Y -> Y."],
}


def translate_source(src, sigs=None, only=None, sources=None):
    """-> (coq text, [names translated]).  `sources`: file name -> text for signatures that name another file of pyerrors."""
    tree = ast.parse(src)
    trees = {"obs.py": tree}
    for fn_, tx_ in (sources or {}).items():
        trees[fn_] = ast.parse(tx_)
    sigs = sigs or (SIGS + CORR_SIGS + SORT_SIGS + PROJ_SIGS + MEFF_SIGS + PLOT_SIGS + CORR05_SIGS)

    out = ["(* GENERATED by translate/t_pycore.py from pyerrors/obs.py -- do not edit *)",
           "From Coq Require Import ZArith QArith Qabs List Bool.",
           "From Coq Require Import String.", "From PV Require Import Base.QAux Obs.Model Py.Prim.",
           "Import ListNotations.", "Open Scope Z_scope.", ""]
    done = {}
    cur_section = None
    if only:
        only = list(only)
        for sg in sigs:
            if sg["coq"] in only:
                only += [n for n in sg.get("needs", []) if n not in only]
    for sg in sigs:
        if only and sg["coq"] not in only:
            continue
        if sg.get("file", "obs.py") not in trees:
            raise TranslateError("%s: source file %s was not supplied" % (sg["coq"], sg.get("file")))
        fn = find_function(trees[sg.get("file", "obs.py")], sg["py"])
        if "fragment" in sg:
            stmts = sg["fragment"](fn)
        else:
            if fn.decorator_list or fn.args.vararg or fn.args.kwarg or fn.args.kwonlyargs or (fn.args.defaults and not sg.get("defaults_ok")):
                raise TranslateError("%s: decorators / defaults / *args are outside the subset" % sg["py"])
            pyparams = [a.arg for a in fn.args.args]
            if pyparams != [p for p, _ in sg["params"]]:
                raise TranslateError("%s: parameters are %s, expected %s" % (sg["py"], pyparams, [p for p, _ in sg["params"]]))
            stmts = fn.body
        aliases = {}
        for src_expr, (term, ty) in (sg.get("aliases") or {}).items():
            aliases[_d(ast.parse(src_expr, mode="eval").body)] = (term, ty)
        stores = {_d(ast.parse(e, mode="eval").body): n for e, n in (sg.get("stores") or {}).items()}
        iter_aliases = {_d(ast.parse(e, mode="eval").body): v for e, v in (sg.get("iter_aliases") or {}).items()}
        f = Fn(sg["coq"], sg["params"], sg["ret"], aliases, done, sg.get("hints"), stores, iter_aliases, sg.get("unbound"))
        f.numpy_div = bool(sg.get("numpy_div"))
        env = {p: ty for p, ty in sg["params"] if ty is not None}
        env.update(sg.get("env", {}))
        fin = None
        if sg.get("procedure_result"):      # a procedure: falling off the end returns the named state variable
            fin = lambda e, _n=sg["procedure_result"]: "(Ok %s)" % f.v(_n)
        body = f.block(stmts, env, fin)
        for un, uty in (sg.get("unbound") or {}).items():
            body = "let %s := (None : option %s) in %s" % (f.v(un), uty, body)
        binder = " ".join("(%s : %s)" % (f.v(p), ty) for p, ty in sg["params"] if ty is not None)
        binder += "".join(" (%s : %s)" % (n, ty) for n, ty in sg.get("extra_params", []))
        sec = sg.get("section")
        if sec != cur_section:
            if cur_section:
                out.append("End %s.\n" % SECTION_HEADERS[cur_section][0].split()[1].rstrip("."))
            if sec:
                out.extend(SECTION_HEADERS[sec])
            cur_section = sec
        out.append("Definition %s %s : res %s :=\n  %s.\n" % (sg["coq"], binder, sg["ret"], body))
        done[sg["coq"]] = sg
    if cur_section:
        out.append("End %s.\n" % SECTION_HEADERS[cur_section][0].split()[1].rstrip("."))
    return "\n".join(out), list(done)


def translate_repo(repo="/repo", **kw):
    with open("%s/pyerrors/correlators.py" % repo) as fh:
        corr = fh.read()
    with open("%s/pyerrors/obs.py" % repo) as fh:
        return translate_source(fh.read(), sources={"correlators.py": corr}, **kw)


if __name__ == "__main__":
    import sys
    print(translate_repo(sys.argv[1] if len(sys.argv) > 1 else "/repo")[0])
