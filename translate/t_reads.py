"""T-reads: for every `while True:` record loop of pyerrors/input/openQCD.py decide syntactically whether the LAST
fp.read of a record is checked (its result is unpacked with an explicit count, or its length is tested and an exception
raised).  Reads are sequential, so a checked last read implies that every earlier read of the record was complete.
Fail-closed: a loop without any read, or syntax the walker cannot classify, raises TranslateError."""
import ast


class TranslateError(Exception):
    pass


def _is_read(node):
    return isinstance(node, ast.Call) and isinstance(node.func, ast.Attribute) and node.func.attr == "read" \
        and isinstance(node.func.value, ast.Name) and node.func.value.id == "fp"


def _unpacks(node, var):
    for n in ast.walk(node):
        if isinstance(n, ast.Call) and isinstance(n.func, ast.Attribute) and n.func.attr == "unpack" and n.args \
                and isinstance(n.args[-1], ast.Name) and n.args[-1].id == var:
            return True
    return False


def _len_check(test, var):
    """len(var) < / != ... , or `not var`"""
    for n in ast.walk(test):
        if isinstance(n, ast.Call) and isinstance(n.func, ast.Name) and n.func.id == "len" and n.args and isinstance(n.args[0], ast.Name) and n.args[0].id == var:
            return True
    if isinstance(test, ast.UnaryOp) and isinstance(test.op, ast.Not) and isinstance(test.operand, ast.Name) and test.operand.id == var:
        return True
    return False


def _exits(body):
    return any(isinstance(s, (ast.Raise, ast.Break)) for s in body)


def last_read_status(stmts):
    """None: no read; True: the last read of this statement list is checked; False: it is not"""
    status, var = None, None
    for st in stmts:
        if isinstance(st, ast.Assign) and _is_read(st.value):
            if len(st.targets) != 1 or not isinstance(st.targets[0], ast.Name):
                raise TranslateError("read result assigned to a non-name")
            status, var = False, st.targets[0].id
        elif isinstance(st, ast.Assign) and isinstance(st.value, ast.Call) and isinstance(st.value.func, ast.Name) and st.value.func.id == "_read_array_openQCD2":
            status, var = True, None
        elif isinstance(st, (ast.Assign, ast.Expr, ast.AugAssign)) and var is not None and _unpacks(st, var):
            status = True
        elif isinstance(st, ast.If):
            if var is not None and _len_check(st.test, var) and _exits(st.body):
                status = True
                rest = last_read_status(st.orelse)
                if rest is not None:
                    status = rest
                continue
            subs = [last_read_status(st.body), last_read_status(st.orelse)]
            with_reads = [x for x in subs if x is not None]
            if with_reads:
                if None in subs and status is False:
                    status = False          # a path without reads keeps the unchecked pending read
                else:
                    status = all(with_reads) if None not in subs or status is not False else False
                var = None
        elif isinstance(st, (ast.For, ast.While)):
            r = last_read_status(st.body)
            if r is not None:
                status, var = r, None
        elif isinstance(st, ast.With):
            r = last_read_status(st.body)
            if r is not None:
                status, var = r, None
    return status


def translate_reads(src):
    tree = ast.parse(src)
    rows = []
    for fn in [n for n in ast.walk(tree) if isinstance(n, ast.FunctionDef)]:
        k = 0
        for node in ast.walk(fn):
            if isinstance(node, ast.While) and isinstance(node.test, ast.Constant) and node.test.value is True:
                st = last_read_status(node.body)
                if st is None:
                    raise TranslateError("%s: while-True loop without fp.read" % fn.name)
                k += 1
                rows.append(("%s#%d@line%d" % (fn.name, k, node.lineno), st))
    if len(rows) < 4:
        raise TranslateError("expected at least four record loops in openQCD.py, found %d" % len(rows))
    out = ["(* REGENERATED from pyerrors/input/openQCD.py by translate/t_reads.py -- do not edit *)",
           "From Coq Require Import List String Bool.", "Import ListNotations.", "Open Scope string_scope.", "",
           "(* record loop, is the last read of a record checked (unpacked with a count / length-tested)? *)",
           "Definition record_loops : list (string * bool) := [%s]." % "; ".join('("%s", %s)' % (n, "true" if b else "false") for n, b in rows), ""]
    return "\n".join(out), rows
