"""T-schema: the JSON schema shipped with pyerrors (examples/json_schema.json) as a term of the model's schema type.
Fail-closed: a validation keyword outside the supported draft-07 subset raises TranslateError."""
import json


class TranslateError(Exception):
    pass


ANNOTATIONS = {"$id", "$schema", "examples", "default", "optional", "description", "title", "$comment", "prefixItems", "$defs", "definitions"}
SUPPORTED = {"type", "properties", "required", "items", "$ref"}


def _s(x):
    return '"%s"' % x.replace('"', '""')


def _schema(d):
    if not isinstance(d, dict):
        raise TranslateError("schema node is not an object")
    unknown = set(d) - ANNOTATIONS - SUPPORTED
    if unknown:
        raise TranslateError("unsupported schema keywords: %s" % sorted(unknown))
    if "$ref" in d:
        ref = d["$ref"]
        if not ref.startswith("#/$defs/"):
            raise TranslateError("unsupported $ref %r" % ref)
        return "(SRef %s)" % _s(ref[len("#/$defs/"):])
    tys = d.get("type", [])
    if isinstance(tys, str):
        tys = [tys]
    props = d.get("properties", {})
    req = d.get("required", [])
    items = d.get("items")
    it, tup = "None", "[]"
    if isinstance(items, dict):
        it = "(Some %s)" % _schema(items)
    elif isinstance(items, list):
        tup = "[%s]" % "; ".join(_schema(x) for x in items)
    elif items is not None:
        raise TranslateError("unsupported items form")
    return "(SType [%s] [%s] [%s] %s %s)" % ("; ".join(_s(t) for t in tys), "; ".join("(%s, %s)" % (_s(k), _schema(v)) for k, v in props.items()),
                                             "; ".join(_s(r) for r in req), it, tup)


def translate_schema(text):
    d = json.loads(text)
    defs = d.get("$defs", {})
    out = ["(* REGENERATED from examples/json_schema.json by translate/t_schema.py -- do not edit *)",
           "From Coq Require Import List String.", "From PV Require Import IO.Json.", "Import ListNotations.", "Open Scope string_scope.", "",
           "Definition shipped_defs : list (string * schema) := [%s]." % ";\n  ".join("(%s, %s)" % (_s(k), _schema(v)) for k, v in defs.items()),
           "Definition shipped_schema : schema := %s." % _schema(d), ""]
    return "\n".join(out)
