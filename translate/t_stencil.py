"""T-stencil: fail-closed AST translator for Corr.deriv / Corr.second_deriv / Corr.m_eff (log, logsym, arccosh)
in pyerrors/correlators.py.  Every `variant` branch of the loop shape

    newcontent = []
    for t in range(<lo>, self.T - <hi>):
        if <guards>:  newcontent.append(None)
        [elif <sign test, `< 0` or `<= 0`>: newcontent.append(None)]
        else:         newcontent.append(<expr over self.content[t+k]>)
    if all(x is None ...): raise ValueError(...)
    return <outer>(Corr(newcontent, padding=[p0, p1])) [/ 2]

becomes a Coq record (Corr/Stencil.v: mkStencil / mkMStencil).  The two 'log' variants are recognised by their
exact composition and emitted as flags.  Anything else raises TranslateError (a broken tie).
"""
import ast
from fractions import Fraction


class TranslateError(Exception):
    pass


def _q(fr):
    fr = Fraction(fr)
    if fr.numerator < 0:
        return "((%d) # %d)" % (fr.numerator, fr.denominator)
    return "(%d # %d)" % (fr.numerator, fr.denominator)


def _z(n):
    return "(%d)" % n


def _offset(node):
    """t, t + k, t - k  ->  k"""
    if isinstance(node, ast.Name) and node.id == "t":
        return 0
    if isinstance(node, ast.BinOp) and isinstance(node.left, ast.Name) and node.left.id == "t" \
            and isinstance(node.right, ast.Constant) and isinstance(node.right.value, int):
        if isinstance(node.op, ast.Add):
            return node.right.value
        if isinstance(node.op, ast.Sub):
            return -node.right.value
    raise TranslateError("index is not t +/- const: %s" % ast.dump(node))


def _is_self_content(node):
    return isinstance(node, ast.Attribute) and node.attr == "content" and isinstance(node.value, ast.Name) and node.value.id == "self"


def _content_ref(node):
    """self.content[t+k] -> k (or None)"""
    if isinstance(node, ast.Subscript) and _is_self_content(node.value):
        return _offset(node.slice)
    return None


def _value_ref(node):
    """self.content[t+k][0].value -> k (or None)"""
    if isinstance(node, ast.Attribute) and node.attr == "value" and isinstance(node.value, ast.Subscript) \
            and isinstance(node.value.slice, ast.Constant) and node.value.slice.value == 0:
        return _content_ref(node.value.value)
    return None


def _sexpr(node):
    k = _content_ref(node)
    if k is not None:
        return "(SV %s)" % _z(k)
    if isinstance(node, ast.Constant) and isinstance(node.value, (int, float)) and not isinstance(node.value, bool):
        return "(SC %s)" % _q(Fraction(node.value))
    if isinstance(node, ast.UnaryOp) and isinstance(node.op, ast.USub):
        return "(SNeg %s)" % _sexpr(node.operand)
    if isinstance(node, ast.BinOp):
        # constant folding of number / number (e.g. 1 / 12) must stay exact
        if isinstance(node.left, ast.Constant) and isinstance(node.right, ast.Constant) and isinstance(node.op, ast.Div) \
                and all(isinstance(c.value, int) and not isinstance(c.value, bool) for c in (node.left, node.right)) and node.right.value != 0:
            return "(SC %s)" % _q(Fraction(node.left.value, node.right.value))
        ops = {ast.Add: "SAdd", ast.Sub: "SSub", ast.Mult: "SMul", ast.Div: "SDiv"}
        for ty, nm in ops.items():
            if isinstance(node.op, ty):
                return "(%s %s %s)" % (nm, _sexpr(node.left), _sexpr(node.right))
    raise TranslateError("unsupported expression in stencil: %s" % ast.dump(node))


def _flatten_or(node):
    if isinstance(node, ast.BoolOp) and isinstance(node.op, ast.Or):
        out = []
        for v in node.values:
            out += _flatten_or(v)
        return out
    return [node]


def _guards(test):
    """-> (none_offsets, zero_offsets)"""
    none, zero = [], []
    for g in _flatten_or(test):
        if isinstance(g, ast.Compare) and len(g.ops) == 1 and isinstance(g.ops[0], ast.Is) \
                and isinstance(g.comparators[0], ast.Constant) and g.comparators[0].value is None:
            k = _content_ref(g.left)
            if k is None:
                raise TranslateError("`is None` test on something else than self.content[t+k]")
            none.append(k)
        elif isinstance(g, ast.Compare) and len(g.ops) == 1 and isinstance(g.ops[0], ast.Eq) \
                and isinstance(g.comparators[0], ast.Constant) and g.comparators[0].value == 0:
            k = _value_ref(g.left)
            if k is None:
                raise TranslateError("`== 0` test on something else than self.content[t+k][0].value")
            zero.append(k)
        else:
            raise TranslateError("unsupported guard: %s" % ast.dump(g))
    return none, zero


def _append_arg(stmts):
    if len(stmts) == 1 and isinstance(stmts[0], ast.Expr) and isinstance(stmts[0].value, ast.Call):
        c = stmts[0].value
        if isinstance(c.func, ast.Attribute) and c.func.attr == "append" and isinstance(c.func.value, ast.Name) \
                and c.func.value.id == "newcontent" and len(c.args) == 1:
            return c.args[0]
    raise TranslateError("branch body is not a single newcontent.append(...)")


def _is_none_const(node):
    return isinstance(node, ast.Constant) and node.value is None


def _range_bounds(call):
    """range(self.T - h) | range(l, self.T - h) | range(l, self.T) | range(self.T)  ->  (l, h)"""
    if not (isinstance(call, ast.Call) and isinstance(call.func, ast.Name) and call.func.id == "range" and not call.keywords):
        raise TranslateError("loop is not over range(...)")
    a = call.args
    if len(a) == 1:
        lo, stop = 0, a[0]
    elif len(a) == 2 and isinstance(a[0], ast.Constant) and isinstance(a[0].value, int):
        lo, stop = a[0].value, a[1]
    else:
        raise TranslateError("unsupported range arguments")

    def is_T(n):
        return isinstance(n, ast.Attribute) and n.attr == "T" and isinstance(n.value, ast.Name) and n.value.id == "self"
    if is_T(stop):
        return lo, 0
    if isinstance(stop, ast.BinOp) and isinstance(stop.op, ast.Sub) and is_T(stop.left) and isinstance(stop.right, ast.Constant) \
            and isinstance(stop.right.value, int):
        return lo, stop.right.value
    raise TranslateError("range stop is not self.T - const")


def _padding(call):
    if not (isinstance(call, ast.Call) and isinstance(call.func, ast.Name) and call.func.id == "Corr" and len(call.args) == 1
            and isinstance(call.args[0], ast.Name) and call.args[0].id == "newcontent"):
        raise TranslateError("return value is not Corr(newcontent, ...)")
    kws = {k.arg: k.value for k in call.keywords}
    if set(kws) - {"padding"}:
        raise TranslateError("unexpected Corr keywords")
    if "padding" not in kws:
        return 0, 0
    p = kws["padding"]
    if not (isinstance(p, ast.List) and len(p.elts) == 2 and all(isinstance(e, ast.Constant) and isinstance(e.value, int) for e in p.elts)):
        raise TranslateError("padding is not [int, int]")
    return p.elts[0].value, p.elts[1].value


def _loop_branch(body):
    """body of one `variant` branch with the loop shape -> dict"""
    if len(body) != 4:
        raise TranslateError("variant branch has %d statements, expected 4 (init, loop, all-None test, return)" % len(body))
    init, loop, chk, ret = body
    if not (isinstance(init, ast.Assign) and len(init.targets) == 1 and isinstance(init.targets[0], ast.Name) and init.targets[0].id == "newcontent"
            and isinstance(init.value, ast.List) and not init.value.elts):
        raise TranslateError("branch does not start with newcontent = []")
    if not (isinstance(loop, ast.For) and isinstance(loop.target, ast.Name) and loop.target.id == "t" and not loop.orelse and len(loop.body) == 1
            and isinstance(loop.body[0], ast.If)):
        raise TranslateError("branch loop is not `for t in range(...): if ...`")
    lo, hi = _range_bounds(loop.iter)
    iff = loop.body[0]
    if not _is_none_const(_append_arg(iff.body)):
        raise TranslateError("guarded branch does not append None")
    none, zero = _guards(iff.test)
    sign = None
    orelse = iff.orelse
    if len(orelse) == 1 and isinstance(orelse[0], ast.If):      # elif <a>.value / <b>.value < 0: append(None)
        e2 = orelse[0]
        t2 = e2.test
        if not (isinstance(t2, ast.Compare) and len(t2.ops) == 1 and isinstance(t2.ops[0], (ast.Lt, ast.LtE)) and isinstance(t2.comparators[0], ast.Constant)
                and t2.comparators[0].value == 0 and isinstance(t2.left, ast.BinOp) and isinstance(t2.left.op, ast.Div)):
            raise TranslateError("elif is not a ratio-sign test")
        a, b = _value_ref(t2.left.left), _value_ref(t2.left.right)
        if a is None or b is None:
            raise TranslateError("ratio-sign test on something else than values of self.content[t+k]")
        if not _is_none_const(_append_arg(e2.body)):
            raise TranslateError("sign-test branch does not append None")
        sign = (a, b, isinstance(t2.ops[0], ast.LtE))
        orelse = e2.orelse
    expr = _sexpr(_append_arg(orelse))
    # all-None check: if all([x is None for x in newcontent]): raise ValueError(...)
    if not (isinstance(chk, ast.If) and len(chk.body) == 1 and isinstance(chk.body[0], ast.Raise) and not chk.orelse):
        raise TranslateError("missing all-None ValueError check")
    exc = chk.body[0].exc
    if not (isinstance(exc, ast.Call) and isinstance(exc.func, ast.Name) and exc.func.id == "ValueError"):
        raise TranslateError("all-None check does not raise ValueError")
    if not isinstance(ret, ast.Return):
        raise TranslateError("branch does not end with return")
    return {"lo": lo, "hi": hi, "none": none, "zero": zero, "sign": sign, "expr": expr, "ret": ret.value}


def _variant_branches(fn):
    """the if/elif chain on `variant == '<name>'` -> list of (names, body); the final else must raise"""
    chain = [s for s in fn.body if isinstance(s, ast.If) and isinstance(s.test, ast.Compare) and isinstance(s.test.left, ast.Name) and s.test.left.id == "variant"]
    if len(chain) != 1:
        raise TranslateError("%s: expected exactly one if-chain on `variant`" % fn.name)
    node = chain[0]
    out = []
    while True:
        t = node.test
        if not (isinstance(t, ast.Compare) and isinstance(t.left, ast.Name) and t.left.id == "variant" and len(t.ops) == 1):
            raise TranslateError("%s: branch test is not on `variant`" % fn.name)
        if isinstance(t.ops[0], ast.Eq) and isinstance(t.comparators[0], ast.Constant):
            names = [t.comparators[0].value]
        elif isinstance(t.ops[0], ast.In) and isinstance(t.comparators[0], ast.List):
            names = [e.value for e in t.comparators[0].elts]
        else:
            raise TranslateError("%s: unsupported variant test" % fn.name)
        out.append((names, node.body))
        if len(node.orelse) == 1 and isinstance(node.orelse[0], ast.If):
            node = node.orelse[0]
            continue
        if not (len(node.orelse) == 1 and isinstance(node.orelse[0], ast.Raise)):
            raise TranslateError("%s: unknown variants are not rejected with an exception" % fn.name)
        break
    return out


def _stencil_term(b):
    if b["zero"] or b["sign"]:
        raise TranslateError("value tests in a derivative stencil")
    p0, p1 = _padding(b["ret"])
    return "(mkStencil %s %s [%s] %s (%s, %s))" % (_z(b["lo"]), _z(b["hi"]), "; ".join(_z(k) for k in b["none"]), b["expr"], _z(p0), _z(p1))


_LOG_GUARD = "BoolOp(op=Or(), values=[Compare(left=Subscript(value=Attribute(value=Name(id='self', ctx=Load()), attr='content', ctx=Load()), slice=Name(id='t', ctx=Load()), ctx=Load()), ops=[Is()], comparators=[Constant(value=None)]), Compare(left=Subscript(value=Attribute(value=Name(id='self', ctx=Load()), attr='content', ctx=Load()), slice=Name(id='t', ctx=Load()), ctx=Load()), ops=[LtE()], comparators=[Constant(value=0)])])"


def _log_branch(body, fname):
    """logcorr = Corr([None if content[t] is None or content[t] <= 0 else np.log(content[t])]); return self * <combination>"""
    if len(body) != 5:
        raise TranslateError("%s log variant: unexpected number of statements" % fname)
    init, loop, chk, asg, ret = body
    if not (isinstance(loop, ast.For) and len(loop.body) == 1 and isinstance(loop.body[0], ast.If)):
        raise TranslateError("%s log variant: loop shape" % fname)
    if _range_bounds(loop.iter) != (0, 0):
        raise TranslateError("%s log variant: loop does not run over all timeslices" % fname)
    iff = loop.body[0]
    if ast.dump(iff.test) != _LOG_GUARD:
        raise TranslateError("%s log variant: guard is not `content[t] is None or content[t] <= 0`" % fname)
    if not _is_none_const(_append_arg(iff.body)):
        raise TranslateError("%s log variant: guarded branch does not append None" % fname)
    val = _append_arg(iff.orelse)
    if ast.unparse(val) != "np.log(self.content[t])":
        raise TranslateError("%s log variant: does not take np.log of the timeslice" % fname)
    if ast.unparse(asg) != "logcorr = Corr(newcontent)":
        raise TranslateError("%s log variant: logcorr construction" % fname)
    return ast.unparse(ret.value)


def translate_stencils(src):
    tree = ast.parse(src)
    corr = [n for n in tree.body if isinstance(n, ast.ClassDef) and n.name == "Corr"]
    if len(corr) != 1:
        raise TranslateError("class Corr not found")
    fns = {n.name: n for n in corr[0].body if isinstance(n, ast.FunctionDef)}
    out = ["(* REGENERATED from pyerrors/correlators.py by translate/t_stencil.py -- do not edit *)",
           "From Coq Require Import ZArith QArith List.", "From PV Require Import Base.QAux Corr.Stencil.", "Import ListNotations.", "Open Scope Z_scope.", ""]
    names = {"deriv": [], "second_deriv": [], "m_eff": []}
    for fname in ("deriv", "second_deriv"):
        if fname not in fns:
            raise TranslateError("Corr.%s not found" % fname)
        for vnames, body in _variant_branches(fns[fname]):
            for v in vnames:
                if v == "log":
                    comp = _log_branch(body, fname)
                    expected = {"deriv": "self * logcorr.deriv('symmetric')",
                                "second_deriv": "self * (logcorr.second_deriv('symmetric') + logcorr.deriv('symmetric') ** 2)"}[fname]
                    if comp != expected:
                        raise TranslateError("%s log variant returns %r, expected %r" % (fname, comp, expected))
                    out.append("Definition %s_log_is_documented_composition : bool := true." % fname)
                else:
                    b = _loop_branch(body)
                    out.append("Definition st_%s_%s : stencil := %s." % (fname, v, _stencil_term(b)))
                    names[fname].append(v)
    if "m_eff" not in fns:
        raise TranslateError("Corr.m_eff not found")
    for vnames, body in _variant_branches(fns["m_eff"]):
        for v in vnames:
            if v in ("log", "logsym", "arccosh"):
                b = _loop_branch(body)
                ret = b["ret"]
                # outer function: np.log(Corr(...)) | np.log(Corr(...)) / 2 | np.arccosh(Corr(...))
                half = False
                if isinstance(ret, ast.BinOp) and isinstance(ret.op, ast.Div) and isinstance(ret.right, ast.Constant) and ret.right.value == 2:
                    half, ret = True, ret.left
                if not (isinstance(ret, ast.Call) and isinstance(ret.func, ast.Attribute) and isinstance(ret.func.value, ast.Name) and ret.func.value.id == "np"
                        and ret.func.attr in ("log", "arccosh") and len(ret.args) == 1):
                    raise TranslateError("m_eff %s: outer function not recognised" % v)
                outer = ret.func.attr + ("_half" if half else "")
                p0, p1 = _padding(ret.args[0])
                sign = "None" if b["sign"] is None else "(Some (%s, %s, %s))" % (_z(b["sign"][0]), _z(b["sign"][1]), "true" if b["sign"][2] else "false")
                out.append("Definition ms_m_eff_%s : mstencil := (mkMStencil %s %s [%s] [%s] %s %s (%s, %s))." % (
                    v, _z(b["lo"]), _z(b["hi"]), "; ".join(_z(k) for k in b["none"]), "; ".join(_z(k) for k in b["zero"]), sign, b["expr"], _z(p0), _z(p1)))
                out.append("Definition m_eff_%s_outer : nat := %d.  (* 0 = log, 1 = log/2, 2 = arccosh *)" % (v, {"log": 0, "log_half": 1, "arccosh": 2}[outer]))
                names["m_eff"].append(v)
    out.append("")
    return "\n".join(out) + "\n", names
