"""T-dirac / T-kn: fail-closed AST translators for pyerrors/dirac.py and pyerrors/special.py.

Emit Coq text (gen/C20/DiracGen.v, gen/C20/KnGen.v).  Anything not recognised raises
TranslateError, which the check treats as a broken tie.
"""
import ast
from fractions import Fraction


class TranslateError(Exception):
    pass


def _q(fr):
    fr = Fraction(fr)
    if fr.numerator < 0:
        return "((%d) # %d)" % (fr.numerator, fr.denominator)
    return "(%d # %d)" % (fr.numerator, fr.denominator)


def _centry(node):
    """An entry of a gamma-matrix literal: int, float, k*1j constants with optional minus."""
    sign = 1
    while isinstance(node, ast.UnaryOp) and isinstance(node.op, (ast.USub, ast.UAdd)):
        if isinstance(node.op, ast.USub):
            sign = -sign
        node = node.operand
    if not isinstance(node, ast.Constant):
        raise TranslateError("matrix entry is not a constant: %s" % ast.dump(node))
    v = node.value
    if isinstance(v, bool):
        raise TranslateError("bool matrix entry")
    if isinstance(v, (int, float)):
        re_, im_ = Fraction(v) * sign, Fraction(0)
    elif isinstance(v, complex):
        re_, im_ = Fraction(v.real) * sign, Fraction(v.imag) * sign
    else:
        raise TranslateError("matrix entry constant of type %s" % type(v))
    return "(%s, %s)" % (_q(re_), _q(im_))


def _np_array_literal(node):
    """np.array([[...],...], dtype=complex) -> Coq mat literal."""
    if not (isinstance(node, ast.Call) and isinstance(node.func, ast.Attribute) and node.func.attr == "array"
            and isinstance(node.func.value, ast.Name) and node.func.value.id == "np"):
        raise TranslateError("not an np.array call")
    if len(node.args) != 1:
        raise TranslateError("np.array with %d positional args" % len(node.args))
    kws = {k.arg: k.value for k in node.keywords}
    if set(kws) - {"dtype"}:
        raise TranslateError("unexpected keywords in np.array: %s" % sorted(kws))
    if "dtype" in kws and not (isinstance(kws["dtype"], ast.Name) and kws["dtype"].id == "complex"):
        raise TranslateError("dtype is not complex")
    arg = node.args[0]
    if not isinstance(arg, ast.List):
        raise TranslateError("np.array argument is not a list literal")
    if all(isinstance(r, ast.Name) for r in arg.elts):
        return ("stack", [r.id for r in arg.elts])
    rows = []
    for r in arg.elts:
        if not isinstance(r, ast.List):
            raise TranslateError("row is not a list literal")
        rows.append("[" + "; ".join(_centry(e) for e in r.elts) + "]")
    return ("mat", "[" + "; ".join(rows) + "]")


def _mexpr(node, known):
    """Matrix-valued expression in Grid_gamma."""
    if isinstance(node, ast.Name):
        if node.id not in known:
            raise TranslateError("unknown matrix name %s" % node.id)
        return node.id
    if isinstance(node, ast.Subscript):
        if not (isinstance(node.value, ast.Name) and node.value.id in known):
            raise TranslateError("subscript of unknown name")
        idx = node.slice
        if not (isinstance(idx, ast.Constant) and isinstance(idx.value, int) and not isinstance(idx.value, bool) and idx.value >= 0):
            raise TranslateError("non-constant subscript")
        return "(nth %d %s mzero4)" % (idx.value, node.value.id)
    if isinstance(node, ast.BinOp):
        if isinstance(node.op, ast.MatMult):
            return "(mmul %s %s)" % (_mexpr(node.left, known), _mexpr(node.right, known))
        if isinstance(node.op, ast.Sub):
            return "(msub %s %s)" % (_mexpr(node.left, known), _mexpr(node.right, known))
        if isinstance(node.op, ast.Add):
            return "(madd %s %s)" % (_mexpr(node.left, known), _mexpr(node.right, known))
        if isinstance(node.op, ast.Mult):
            if isinstance(node.left, ast.Constant) and isinstance(node.left.value, (int, float, complex)) and not isinstance(node.left.value, bool):
                v = node.left.value
                if isinstance(v, complex):
                    c = "(%s, %s)" % (_q(Fraction(v.real)), _q(Fraction(v.imag)))
                else:
                    c = "(%s, %s)" % (_q(Fraction(v)), _q(0))
                return "(mscale %s %s)" % (c, _mexpr(node.right, known))
            raise TranslateError("product whose left factor is not a numeric constant")
    if isinstance(node, ast.UnaryOp) and isinstance(node.op, ast.USub):
        return "(mneg %s)" % _mexpr(node.operand, known)
    raise TranslateError("unrecognised matrix expression: %s" % ast.dump(node)[:200])


def _zexpr(node, names):
    """Integer/rational formula of the epsilon tensors -> Q expression."""
    if isinstance(node, ast.Name):
        if node.id not in names:
            raise TranslateError("free name %s in formula" % node.id)
        return "(inject_Z %s)" % node.id
    if isinstance(node, ast.Constant) and isinstance(node.value, (int, float)) and not isinstance(node.value, bool):
        return _q(Fraction(node.value))
    if isinstance(node, ast.UnaryOp) and isinstance(node.op, ast.USub):
        return "(- %s)" % _zexpr(node.operand, names)
    if isinstance(node, ast.BinOp):
        ops = {ast.Add: "+", ast.Sub: "-", ast.Mult: "*", ast.Div: "/"}
        for k, s in ops.items():
            if isinstance(node.op, k):
                return "(%s %s %s)" % (_zexpr(node.left, names), s, _zexpr(node.right, names))
    raise TranslateError("unrecognised formula: %s" % ast.dump(node)[:200])


def _set_of_consts(node):
    """set((1, 2, 3)) -> [1;2;3]"""
    if not (isinstance(node, ast.Call) and isinstance(node.func, ast.Name) and node.func.id == "set" and len(node.args) == 1
            and isinstance(node.args[0], (ast.Tuple, ast.List))):
        raise TranslateError("not a set((..)) literal")
    vals = []
    for e in node.args[0].elts:
        if not (isinstance(e, ast.Constant) and isinstance(e.value, int) and not isinstance(e.value, bool)):
            raise TranslateError("set element is not an int constant")
        vals.append(e.value)
    return vals


def _epsilon(fn):
    names = [a.arg for a in fn.args.args]
    if fn.args.vararg or fn.args.kwarg or fn.args.kwonlyargs or fn.args.defaults:
        raise TranslateError("unexpected signature of %s" % fn.name)
    body = [s for s in fn.body if not (isinstance(s, ast.Expr) and isinstance(s.value, ast.Constant) and isinstance(s.value.value, str))]
    if len(body) != 3:
        raise TranslateError("%s: expected assignment, guard, return" % fn.name)
    asg, guard, ret = body
    if not (isinstance(asg, ast.Assign) and len(asg.targets) == 1 and isinstance(asg.targets[0], ast.Name)):
        raise TranslateError("%s: first statement is not a simple assignment" % fn.name)
    tsname = asg.targets[0].id
    v = asg.value
    if not (isinstance(v, ast.Call) and isinstance(v.func, ast.Name) and v.func.id == "set" and len(v.args) == 1
            and isinstance(v.args[0], ast.Tuple) and [getattr(e, "id", None) for e in v.args[0].elts] == names):
        raise TranslateError("%s: test set is not set((args))" % fn.name)
    if not (isinstance(guard, ast.If) and not guard.orelse and len(guard.body) == 1 and isinstance(guard.body[0], ast.Raise)):
        raise TranslateError("%s: guard is not `if ...: raise`" % fn.name)
    t = guard.test
    if not (isinstance(t, ast.UnaryOp) and isinstance(t.op, ast.Not) and isinstance(t.operand, ast.BoolOp) and isinstance(t.operand.op, ast.Or)):
        raise TranslateError("%s: guard is not `not (A or B ...)`" % fn.name)
    allowed = []
    for d in t.operand.values:
        if not (isinstance(d, ast.Compare) and len(d.ops) == 1 and isinstance(d.ops[0], ast.LtE)
                and isinstance(d.left, ast.Name) and d.left.id == tsname):
            raise TranslateError("%s: disjunct is not `test_set <= set(..)`" % fn.name)
        allowed.append(_set_of_consts(d.comparators[0]))
    if len(allowed) != 2:
        raise TranslateError("%s: expected two accepted index sets" % fn.name)
    if not isinstance(ret, ast.Return):
        raise TranslateError("%s: last statement is not return" % fn.name)
    return names, allowed, _zexpr(ret.value, names)


def translate_dirac(src):
    tree = ast.parse(src)
    out = ["(* GENERATED from pyerrors/dirac.py by translate/t_dirac.py -- do not edit *)",
           "From Coq Require Import ZArith QArith List Bool String.",
           "From PV Require Import Base.QAux Tab.CMat Tab.Eps.",
           "Import ListNotations.", "Open Scope Q_scope.", ""]
    known = []
    eps = {}
    grid = None
    for st in tree.body:
        if isinstance(st, ast.Import):
            continue
        if isinstance(st, ast.Assign):
            if len(st.targets) != 1 or not isinstance(st.targets[0], ast.Name):
                raise TranslateError("module-level assignment with a complex target")
            name = st.targets[0].id
            kind, val = _np_array_literal(st.value)
            if kind == "mat":
                out.append("Definition %s : mat := %s." % (name, val))
            else:
                for n in val:
                    if n not in known:
                        raise TranslateError("stack of unknown matrices")
                out.append("Definition %s : list mat := [%s]." % (name, "; ".join(val)))
            known.append(name)
            continue
        if isinstance(st, ast.FunctionDef):
            if st.name in ("epsilon_tensor", "epsilon_tensor_rank4"):
                eps[st.name] = _epsilon(st)
                continue
            if st.name == "Grid_gamma":
                grid = st
                continue
        raise TranslateError("unrecognised module-level statement at line %d" % st.lineno)
    for need in ("gammaX", "gammaY", "gammaZ", "gammaT", "gamma", "gamma5", "identity"):
        if need not in known:
            raise TranslateError("missing table %s" % need)
    if set(eps) != {"epsilon_tensor", "epsilon_tensor_rank4"} or grid is None:
        raise TranslateError("missing function")
    out.append("")
    for fname, cname in (("epsilon_tensor", "eps3"), ("epsilon_tensor_rank4", "eps4")):
        names, allowed, form = eps[fname]
        args = " ".join(names)
        lst = "[" + ";".join(names) + "]%Z"
        al = ["[" + ";".join(str(v) if v >= 0 else "(%d)" % v for v in a) + "]%Z" for a in allowed]
        out.append("Definition %s_allowed_a : list Z := %s." % (cname, al[0]))
        out.append("Definition %s_allowed_b : list Z := %s." % (cname, al[1]))
        out.append("Definition %s_dom (%s : Z) : bool := subsetZ %s %s_allowed_a || subsetZ %s %s_allowed_b." % (cname, args, lst, cname, lst, cname))
        out.append("Definition %s_form (%s : Z) : Q := %s." % (cname, args, form))
        out.append("Definition %s_model (%s : Z) : option Q := if %s_dom %s then Some (%s_form %s) else None." % (cname, args, cname, args, cname, args))
        out.append("Definition %s_arity : nat := %d." % (cname, len(names)))
    # Grid_gamma if-chain
    if len(grid.args.args) != 1:
        raise TranslateError("Grid_gamma signature")
    tagname = grid.args.args[0].arg
    body = [s for s in grid.body if not (isinstance(s, ast.Expr) and isinstance(s.value, ast.Constant))]
    if len(body) != 2 or not isinstance(body[0], ast.If) or not isinstance(body[1], ast.Return):
        raise TranslateError("Grid_gamma body shape")
    if not (isinstance(body[1].value, ast.Name)):
        raise TranslateError("Grid_gamma return")
    gvar = body[1].value.id
    chain = []
    node = body[0]
    while True:
        t = node.test
        if not (isinstance(t, ast.Compare) and len(t.ops) == 1 and isinstance(t.ops[0], ast.Eq) and isinstance(t.left, ast.Name)
                and t.left.id == tagname and isinstance(t.comparators[0], ast.Constant) and isinstance(t.comparators[0].value, str)):
            raise TranslateError("Grid_gamma test shape")
        if not (len(node.body) == 1 and isinstance(node.body[0], ast.Assign) and len(node.body[0].targets) == 1
                and isinstance(node.body[0].targets[0], ast.Name) and node.body[0].targets[0].id == gvar):
            raise TranslateError("Grid_gamma branch is not `g = <expr>`")
        chain.append((t.comparators[0].value, _mexpr(node.body[0].value, known)))
        if len(node.orelse) == 1 and isinstance(node.orelse[0], ast.If):
            node = node.orelse[0]
            continue
        if len(node.orelse) == 1 and isinstance(node.orelse[0], ast.Raise):
            break
        raise TranslateError("Grid_gamma: else branch is not raise")
    out.append("")
    out.append("Definition grid_gamma (tag : string) : option mat :=")
    for tag, e in chain:
        if '"' in tag:
            raise TranslateError("quote in tag")
        out.append('  if String.eqb tag "%s"%%string then Some %s else' % (tag, e))
    out.append("  None.")
    out.append("Definition grid_tags : list string := [%s]." % "; ".join('"%s"%%string' % t for t, _ in chain))
    return "\n".join(out) + "\n", {"tags": [t for t, _ in chain], "tables": known,
                                    "eps_allowed": {k: v[1] for k, v in eps.items()}}


# ----------------------------------------------------------------------------- special.py: kn vjp
def _rexpr_kn(node, env):
    """Real expression of the kn vjp lambda over variables g, n, x with K : Z -> R -> R."""
    if isinstance(node, ast.Name):
        if node.id not in env:
            raise TranslateError("free name %s in kn vjp" % node.id)
        return env[node.id]
    if isinstance(node, ast.Constant) and isinstance(node.value, (int, float)) and not isinstance(node.value, bool):
        fr = Fraction(node.value)
        return "(%d / %d)%%R" % (fr.numerator, fr.denominator) if fr.denominator != 1 else "(%d)%%R" % fr.numerator
    if isinstance(node, ast.UnaryOp) and isinstance(node.op, ast.USub):
        return "(- %s)%%R" % _rexpr_kn(node.operand, env)
    if isinstance(node, ast.BinOp):
        ops = {ast.Add: "+", ast.Sub: "-", ast.Mult: "*", ast.Div: "/"}
        for k, s in ops.items():
            if isinstance(node.op, k):
                return "(%s %s %s)%%R" % (_rexpr_kn(node.left, env), s, _rexpr_kn(node.right, env))
    if isinstance(node, ast.Call) and isinstance(node.func, ast.Name) and node.func.id == "kn" and len(node.args) == 2 and not node.keywords:
        return "(K %s %s)" % (_zexpr_kn(node.args[0], env), _rexpr_kn(node.args[1], env))
    raise TranslateError("unrecognised kn vjp expression: %s" % ast.dump(node)[:200])


def _zexpr_kn(node, env):
    if isinstance(node, ast.Name) and node.id == env.get("__order__"):
        return "n"
    if isinstance(node, ast.Constant) and isinstance(node.value, int) and not isinstance(node.value, bool):
        return "(%d)%%Z" % node.value
    if isinstance(node, ast.BinOp) and isinstance(node.op, (ast.Add, ast.Sub)):
        return "(%s %s %s)%%Z" % (_zexpr_kn(node.left, env), "+" if isinstance(node.op, ast.Add) else "-", _zexpr_kn(node.right, env))
    if isinstance(node, ast.Call) and len(node.args) == 1 and not node.keywords:
        f = node.func
        if (isinstance(f, ast.Attribute) and f.attr in ("abs", "absolute") and isinstance(f.value, ast.Name) and f.value.id == "np") or \
           (isinstance(f, ast.Name) and f.id == "abs"):
            return "(Z.abs %s)" % _zexpr_kn(node.args[0], env)
    raise TranslateError("unrecognised order expression in kn vjp: %s" % ast.dump(node)[:200])


def translate_special(src):
    tree = ast.parse(src)
    vjp = None
    kn_def = None
    all_list = None
    imported = []
    for st in tree.body:
        if isinstance(st, ast.ImportFrom) and st.module == "autograd.scipy.special":
            imported += [a.name for a in st.names]
        if isinstance(st, ast.Assign) and len(st.targets) == 1 and isinstance(st.targets[0], ast.Name) and st.targets[0].id == "__all__":
            all_list = [e.value for e in st.value.elts]
        if isinstance(st, ast.FunctionDef) and st.name == "kn":
            kn_def = st
        if isinstance(st, ast.Expr) and isinstance(st.value, ast.Call) and isinstance(st.value.func, ast.Name) and st.value.func.id == "defvjp":
            vjp = st.value
    if vjp is None or kn_def is None or all_list is None:
        raise TranslateError("special.py: kn / defvjp / __all__ not found")
    # kn must be a primitive that rejects non-integer orders and calls scipy.special.kn(n, x)
    if [a.arg for a in kn_def.args.args] != ["n", "x"]:
        raise TranslateError("kn signature")
    decos = [d.id for d in kn_def.decorator_list if isinstance(d, ast.Name)]
    if decos != ["primitive"]:
        raise TranslateError("kn is not an autograd primitive")
    body = [s for s in kn_def.body if not (isinstance(s, ast.Expr) and isinstance(s.value, ast.Constant))]
    if len(body) != 2 or not isinstance(body[0], ast.If) or not isinstance(body[1], ast.Return):
        raise TranslateError("kn body shape")
    g = body[0]
    ok_guard = (isinstance(g.test, ast.Compare) and isinstance(g.test.ops[0], ast.NotEq)
                and isinstance(g.test.left, ast.Call) and getattr(g.test.left.func, "id", None) == "int"
                and isinstance(g.test.left.args[0], ast.Name) and g.test.left.args[0].id == "n"
                and isinstance(g.test.comparators[0], ast.Name) and g.test.comparators[0].id == "n"
                and len(g.body) == 1 and isinstance(g.body[0], ast.Raise) and not g.orelse)
    if not ok_guard:
        raise TranslateError("kn: integer-order guard not recognised")
    r = body[1].value
    if not (isinstance(r, ast.Call) and ast.unparse(r.func) == "scipy.special.kn" and [ast.unparse(a) for a in r.args] == ["n", "x"] and not r.keywords):
        raise TranslateError("kn does not return scipy.special.kn(n, x)")
    # defvjp(kn, None, lambda ans, n, x: lambda g: <expr>)
    if not (len(vjp.args) == 3 and isinstance(vjp.args[0], ast.Name) and vjp.args[0].id == "kn"
            and isinstance(vjp.args[1], ast.Constant) and vjp.args[1].value is None and isinstance(vjp.args[2], ast.Lambda)):
        raise TranslateError("defvjp shape")
    outer = vjp.args[2]
    on = [a.arg for a in outer.args.args]
    if len(on) != 3 or not isinstance(outer.body, ast.Lambda) or len(outer.body.args.args) != 1:
        raise TranslateError("defvjp lambda shape")
    gname = outer.body.args.args[0].arg
    env = {gname: "g", on[2]: "x", "__order__": on[1]}
    expr = _rexpr_kn(outer.body.body, env)
    txt = "\n".join([
        "(* GENERATED from pyerrors/special.py by translate/t_dirac.py -- do not edit *)",
        "From Coq Require Import ZArith Reals.",
        "Section KnGen.",
        "Variable K : Z -> R -> R.",
        "Definition kn_vjp (n : Z) (x g : R) : R := %s." % expr,
        "End KnGen.", ""])
    return txt, {"all": all_list, "imported": imported}
