"""T-dispatch: the type-dispatch chains of Obs.__add__/__sub__/__mul__/__truediv__/__rtruediv__ and the reflected
one-liners, regenerated as a table (fail-closed).  Row = (test on the partner y, action):
  tests:   Obs | ndarray | complex | CorrCObs | else
  actions: Derived2 (derived_observable over [self, y] or [y, self]) | Derived1 (derived_observable over [self], y captured as a number)
           | Array | ToCObs (an expression built from CObs(...)) | NotImplemented
"""
import ast


class TranslateError(Exception):
    pass


def _test_kind(t):
    if isinstance(t, ast.Call) and isinstance(t.func, ast.Name) and t.func.id == "isinstance" and len(t.args) == 2 and isinstance(t.args[0], ast.Name) and t.args[0].id == "y":
        k = ast.unparse(t.args[1])
        if k in ("Obs", "np.ndarray", "complex"):
            return {"Obs": "Obs", "np.ndarray": "ndarray", "complex": "complex"}[k]
    if ast.unparse(t) == "y.__class__.__name__ in ['Corr', 'CObs']":
        return "CorrCObs"
    raise TranslateError("unrecognised dispatch test: %s" % ast.unparse(t))


def _action(stmts):
    if len(stmts) != 1 or not isinstance(stmts[0], ast.Return):
        raise TranslateError("dispatch branch is not a single return")
    v = stmts[0].value
    if isinstance(v, ast.Name) and v.id == "NotImplemented":
        return "NotImplemented"
    if isinstance(v, ast.Call) and isinstance(v.func, ast.Name) and v.func.id == "derived_observable":
        ops = v.args[1]
        if isinstance(ops, ast.List):
            names = [ast.unparse(e) for e in ops.elts]
            if sorted(names) == ["self", "y"]:
                return "Derived2"
            if names == ["self"]:
                return "Derived1"
        raise TranslateError("derived_observable over unexpected operands")
    if isinstance(v, ast.Call) and ast.unparse(v.func) == "np.array":
        return "Array"
    src = ast.unparse(v)
    if "CObs(" in src and "derived_observable" not in src:
        return "ToCObs"
    raise TranslateError("unrecognised dispatch action: %s" % src)


def _chain(fn):
    body = [s for s in fn.body if not (isinstance(s, ast.Expr) and isinstance(s.value, ast.Constant))]
    if len(body) != 1 or not isinstance(body[0], ast.If):
        raise TranslateError("%s: body is not a single if-chain" % fn.name)
    rows = []
    node = body[0]
    while True:
        rows.append((_test_kind(node.test), _action(node.body)))
        if len(node.orelse) == 1 and isinstance(node.orelse[0], ast.If):
            node = node.orelse[0]
        else:
            rows.append(("else", _action(node.orelse)))
            break
    return rows


REFLECT = {"__radd__": ("self + y", "SameAs:__add__"), "__rmul__": ("self * y", "SameAs:__mul__"), "__rsub__": ("-1 * (self - y)", "NegOf:__sub__")}


def translate_dispatch(src):
    tree = ast.parse(src)
    cs = [n for n in tree.body if isinstance(n, ast.ClassDef) and n.name == "Obs"]
    if len(cs) != 1:
        raise TranslateError("class Obs not found")
    fns = {n.name: n for n in cs[0].body if isinstance(n, ast.FunctionDef)}
    table = {}
    for m in ("__add__", "__sub__", "__mul__", "__truediv__", "__rtruediv__"):
        if m not in fns:
            raise TranslateError("Obs.%s not found" % m)
        table[m] = _chain(fns[m])
    for m, (expect, code) in REFLECT.items():
        if m not in fns:
            raise TranslateError("Obs.%s not found" % m)
        b = fns[m].body
        if len(b) != 1 or not isinstance(b[0], ast.Return) or ast.unparse(b[0].value) != expect:
            raise TranslateError("Obs.%s is not `return %s`" % (m, expect))
        table[m] = [("reflect", code)]
    out = ["(* REGENERATED from class Obs in pyerrors/obs.py by translate/t_dispatch.py -- do not edit *)",
           "From Coq Require Import List String.", "Import ListNotations.", "Open Scope string_scope.", "",
           "Definition obs_dispatch : list (string * list (string * string)) := [",
           ";\n".join('  ("%s", [%s])' % (m, "; ".join('("%s", "%s")' % r for r in rows)) for m, rows in table.items()), "].", ""]
    return "\n".join(out), table
