"""T-effects: syntactic effect analysis of the public methods of a class (fail-closed on syntax it cannot classify).

For every method: the set of parameter names (other than self) that are the root of
  * a subscript / attribute STORE   (p[i] = ..., p.x = ..., p[i] += ..., del p[i]),
  * an in-place method call         (p.append(..), p.sort(), p.update(..), ...),
  * or of the same through a direct alias (q = p ; q[i] = ...),  or tuple-unpacking aliases (a, b = p, q).
A plain rebinding `p = <expr>` is not a mutation of the caller's object (but keeps p in the alias set if <expr> is a bare
parameter name).  Flow-insensitive: a store through a name that was a parameter anywhere in the method counts.
"""
import ast

INPLACE = {"append", "extend", "insert", "pop", "remove", "sort", "reverse", "clear", "update", "setdefault", "popitem",
           "fill", "put", "resize", "itemset", "setflags", "add", "discard", "__setitem__", "__delitem__", "__iadd__"}


class TranslateError(Exception):
    pass


def _root(node):
    while isinstance(node, (ast.Subscript, ast.Attribute)):
        node = node.value
    return node.id if isinstance(node, ast.Name) else None


def method_effects(fn):
    params = [a.arg for a in fn.args.posonlyargs + fn.args.args + fn.args.kwonlyargs if a.arg != "self"]
    if fn.args.vararg:
        params.append(fn.args.vararg.arg)
    if fn.args.kwarg:
        params.append(fn.args.kwarg.arg)
    alias = {p: {p} for p in params}          # name -> set of params it may alias
    changed = True
    while changed:                             # propagate direct aliases to a fixpoint
        changed = False
        for node in ast.walk(fn):
            if isinstance(node, ast.Assign):
                for tgt in node.targets:
                    pairs = []
                    if isinstance(tgt, ast.Name) and isinstance(node.value, ast.Name):
                        pairs.append((tgt.id, node.value.id))
                    if isinstance(tgt, ast.Tuple) and isinstance(node.value, ast.Tuple) and len(tgt.elts) == len(node.value.elts):
                        for a, b in zip(tgt.elts, node.value.elts):
                            if isinstance(a, ast.Name) and isinstance(b, ast.Name):
                                pairs.append((a.id, b.id))
                    for a, b in pairs:
                        if b in alias and not alias[b] <= alias.setdefault(a, set()):
                            alias[a] |= alias[b]
                            changed = True
    mutated = set()

    def hit(name):
        if name in alias:
            mutated.update(alias[name] & set(params))

    stmt_calls = {id(n.value) for n in ast.walk(fn) if isinstance(n, ast.Expr) and isinstance(n.value, ast.Call)}
    for node in ast.walk(fn):
        if isinstance(node, (ast.Assign, ast.AugAssign, ast.AnnAssign, ast.Delete)):
            tgts = node.targets if isinstance(node, (ast.Assign, ast.Delete)) else [node.target]
            for tgt in tgts:
                elts = tgt.elts if isinstance(tgt, (ast.Tuple, ast.List)) else [tgt]
                for e in elts:
                    if isinstance(e, (ast.Subscript, ast.Attribute)):
                        r = _root(e)
                        if r is not None and r != "self":
                            hit(r)
                    elif isinstance(e, ast.Name) and isinstance(node, ast.AugAssign):
                        # p += x mutates a list / ndarray in place
                        hit(e.id)
        elif isinstance(node, ast.Call) and isinstance(node.func, ast.Attribute) and node.func.attr in INPLACE:
            # in-place container methods return None: they only occur as statements (pop / setdefault / popitem return a value)
            if node.func.attr not in ("pop", "setdefault", "popitem") and id(node) not in stmt_calls:
                continue
            r = _root(node.func.value)
            if r is not None and r != "self":
                hit(r)
    return params, sorted(mutated)


def translate_effects(src, cls, ident):
    tree = ast.parse(src)
    cs = [n for n in tree.body if isinstance(n, ast.ClassDef) and n.name == cls]
    if len(cs) != 1:
        raise TranslateError("class %s not found" % cls)
    rows = []
    for n in cs[0].body:
        if isinstance(n, ast.FunctionDef):
            params, mut = method_effects(n)
            rows.append((n.name, params, mut))
    if len(rows) < 10:
        raise TranslateError("suspiciously few methods in class %s" % cls)

    def sl(xs):
        return "[" + "; ".join('"%s"' % x for x in xs) + "]"
    out = ["(* REGENERATED from the source of class %s by translate/t_effects.py -- do not edit *)" % cls,
           "From Coq Require Import List String.", "Import ListNotations.", "Open Scope string_scope.", "",
           "(* method, its parameters, the parameters it stores into *)",
           "Definition %s : list (string * list string * list string) := [" % ident,
           ";\n".join('  ("%s", %s, %s)' % (m, sl(p), sl(mu)) for m, p, mu in rows), "].", ""]
    return "\n".join(out), rows
