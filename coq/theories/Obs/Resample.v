(* Jackknife / bootstrap export and import (pyerrors/obs.py export_jackknife, import_jackknife,
   export_bootstrap, import_bootstrap), transcribed, with their specification and theorems. *)
From Coq Require Import ZArith QArith Qabs List Bool Lia Lqa.
From PV Require Import Base.QAux Obs.Model.
Import ListNotations.
Open Scope Q_scope.

(* ------------------------------------------------------------------ MODEL (code's words) *)
(* export_jackknife: tmp[0] = value ; tmp[1:] = (n*value - full_data)/(n-1) *)
Definition export_jack (value : Q) (full : list Q) : list Q :=
  value :: map (fun x => Qred ((QlenL full * value - x) / (QlenL full - 1))) full.

(* import_jackknife: prj = ones - (L-1) 1 ; samples = jacks[1:] @ prj ; mean ; Obs([samples-mean], means=[mean]) ; value = jacks[0] *)
Definition prj_entry (L : nat) (i j : nat) : Q := 1 - (inject_Z (Z.of_nat L) - 1) * (if Nat.eqb i j then 1 else 0).
Definition vecmat_col (v : list Q) (L : nat) (j : nat) : Q :=
  Qsum (map (fun p => snd p * prj_entry L (fst p) j) (combine (seq 0 L) v)).
Definition import_samples_mat (jacks : list Q) : list Q :=
  let js := tl jacks in let L := List.length js in map (vecmat_col js L) (seq 0 L).
(* closed form of the same product *)
Definition import_samples (jacks : list Q) : list Q :=
  let js := tl jacks in let S := Qsum js in map (fun j => Qred (S - (QlenL js - 1) * j)) js.

Record jobs := mkJ { j_value : Q; j_mean : Q; j_deltas : list Q }.
Definition import_jack (jacks : list Q) : jobs :=
  let s := import_samples jacks in
  let m := Qred (Qsum s / QlenL s) in
  mkJ (hd 0 jacks) m (map (fun x => Qred (x - m)) s).

(* bootstrap: proj row = bincount(o, minlength=L)/L ; ret[1:] = proj @ data *)
Fixpoint incr_at (c : list Q) (k : nat) : list Q :=
  match c, k with
  | [], _ => []
  | x :: r, O => Qred (x + 1) :: r
  | x :: r, S k' => x :: incr_at r k'
  end.
Fixpoint bincount (rho : list nat) (L : nat) : list Q :=
  match rho with [] => repeat 0 L | k :: r => incr_at (bincount r L) k end.
Fixpoint dot (a b : list Q) : Q :=
  match a, b with x :: a', y :: b' => Qred (x * y + dot a' b') | _, _ => 0 end.
Definition boot_row (rho : list nat) (data : list Q) : Q :=
  dot (map (fun c => c / QlenL data) (bincount rho (List.length data))) data.
Definition export_boot (value : Q) (data : list Q) (table : list (list nat)) : list Q :=
  value :: map (fun rho => boot_row rho data) table.

(* ------------------------------------------------------------------ SPEC (property's words) *)
Fixpoint remove_nth {A} (i : nat) (l : list A) : list A :=
  match l, i with
  | [], _ => []
  | _ :: r, O => r
  | x :: r, S k => x :: remove_nth k r
  end.
(* leave-one-out mean *)
Definition loo_mean (l : list Q) (i : nat) : Q := Qred (Qsum (remove_nth i l) / QlenL (remove_nth i l)).
(* mean over the resampled configurations *)
Definition resample_mean (rho : list nat) (data : list Q) : Q :=
  Qsum (map (fun k => nth k data 0) rho) / QlenL data.
(* naive (S = 0) squared error of the mean:  sum delta^2 / (n (n-1)) *)
Definition naive_err_sq (l : list Q) : Q :=
  let m := Qred (Qmean l) in Qsum (map (fun x => Qred ((x - m) * (x - m))) l) / (QlenL l * (QlenL l - 1)).
(* jackknife variance (n-1)/n sum (j_i - jbar)^2 *)
Definition jack_var (js : list Q) : Q :=
  let m := Qred (Qmean js) in (QlenL js - 1) / QlenL js * Qsum (map (fun x => Qred ((x - m) * (x - m))) js).

(* ------------------------------------------------------------------ lemmas *)
Lemma QlenL_pos {A} (l : list A) : l <> [] -> 0 < QlenL l.
Proof.
  destruct l as [|x l]; [congruence|]. intros _. unfold QlenL. cbn [List.length].
  rewrite Nat2Z.inj_succ. unfold Qlt. simpl. lia.
Qed.

Lemma QlenL_ge2 {A} (l : list A) : (2 <= List.length l)%nat -> 1 < QlenL l.
Proof.
  intro H. unfold QlenL. unfold Qlt. simpl. lia.
Qed.

Lemma QlenL_map {A B} (f : A -> B) l : QlenL (map f l) = QlenL l.
Proof. unfold QlenL. rewrite map_length. reflexivity. Qed.

Lemma Qsum_remove_nth l i : (i < List.length l)%nat -> Qsum (remove_nth i l) == Qsum l - nth i l 0.
Proof.
  revert i; induction l as [|x l IH]; intros [|i] H; simpl in *; try lia.
  - rewrite Qred_correct. ring.
  - rewrite !Qred_correct. rewrite IH by lia. ring.
Qed.

Lemma length_remove_nth {A} (l : list A) i : (i < List.length l)%nat -> S (List.length (remove_nth i l)) = List.length l.
Proof.
  revert i; induction l as [|x l IH]; intros [|i] H; simpl in *; try lia.
  rewrite IH by lia. reflexivity.
Qed.

Lemma QlenL_remove_nth {A} (l : list A) i : (i < List.length l)%nat -> QlenL (remove_nth i l) == QlenL l - 1.
Proof.
  intro H. unfold QlenL. rewrite <- (length_remove_nth l i H).
  rewrite Nat2Z.inj_succ, <- Z.add_1_r, inject_Z_plus. ring.
Qed.

(* ------------------------------------------------------------------ THEOREMS: jackknife *)
(* entry 0 is the central value *)
Lemma export_jack_head v l : hd 0 (export_jack v l) = v.
Proof. reflexivity. Qed.
Lemma export_jack_length v l : List.length (export_jack v l) = S (List.length l).
Proof. unfold export_jack. simpl. rewrite map_length. reflexivity. Qed.

Lemma nth_map_Q (f : Q -> Q) l i : (i < List.length l)%nat -> nth i (map f l) 0 = f (nth i l 0).
Proof. intro H. rewrite (nth_indep (map f l) 0 (f 0)) by (rewrite map_length; exact H). apply map_nth. Qed.

(* entries 1..n are exactly the leave-one-out means, when the central value is the sample mean *)
Lemma export_jack_loo v l i :
  (2 <= List.length l)%nat -> (i < List.length l)%nat -> v == Qmean l ->
  nth i (tl (export_jack v l)) 0 == loo_mean l i.
Proof.
  intros Hn Hi Hv. unfold export_jack. cbn [tl].
  assert (Hlen : 1 < QlenL l) by (apply QlenL_ge2; exact Hn).
  rewrite nth_map_Q by exact Hi. unfold loo_mean. rewrite !Qred_correct.
  rewrite Qsum_remove_nth, QlenL_remove_nth by exact Hi.
  rewrite Hv. unfold Qmean. fold (QlenL l).
  field. split; lra.
Qed.

Lemma Qsum_export_tail v l : (2 <= List.length l)%nat -> v == Qmean l ->
  Qsum (tl (export_jack v l)) == QlenL l * v.
Proof.
  intros Hn Hv. unfold export_jack. cbn [tl].
  assert (Hlen : 1 < QlenL l) by (apply QlenL_ge2; exact Hn).
  rewrite (Qsum_map_affine (- (1 / (QlenL l - 1))) (QlenL l * v / (QlenL l - 1))).
  2:{ intro x. rewrite Qred_correct. field. lra. }
  assert (Hs : Qsum l == QlenL l * v). { rewrite Hv. unfold Qmean. fold (QlenL l). field. lra. }
  rewrite Hs. field. lra.
Qed.

(* import o export = identity on the samples (hence on fluctuations and mean), any n >= 2 *)
Lemma import_export_samples v l i :
  (2 <= List.length l)%nat -> (i < List.length l)%nat -> v == Qmean l ->
  nth i (import_samples (export_jack v l)) 0 == nth i l 0.
Proof.
  intros Hn Hi Hv. unfold import_samples. cbv zeta.
  assert (Hlen : 1 < QlenL l) by (apply QlenL_ge2; exact Hn).
  assert (HL : QlenL (tl (export_jack v l)) = QlenL l). { unfold export_jack. cbn [tl]. apply QlenL_map. }
  assert (Hjl : List.length (tl (export_jack v l)) = List.length l). { unfold export_jack. cbn [tl]. apply map_length. }
  rewrite nth_map_Q by lia. rewrite Qred_correct, HL.
  rewrite Qsum_export_tail by assumption.
  unfold export_jack. cbn [tl]. rewrite nth_map_Q by exact Hi. rewrite Qred_correct.
  field. lra.
Qed.

Lemma import_export_value v l : j_value (import_jack (export_jack v l)) = v.
Proof. reflexivity. Qed.

(* the matrix form jacks[1:] @ prj equals the closed form *)
Lemma sum_indicator (v : list Q) (c : Q) (j : nat) : forall s,
  Qsum (map (fun p => snd p * (1 - c * (if Nat.eqb (fst p) j then 1 else 0))) (combine (seq s (List.length v)) v))
  == Qsum v - c * (if (Nat.leb s j && Nat.ltb j (s + List.length v))%bool then nth (j - s) v 0 else 0).
Proof.
  induction v as [|x v IH]; intro s.
  - simpl. destruct (Nat.leb s j && Nat.ltb j (s + 0))%bool; [destruct (j - s)%nat; simpl|]; ring.
  - cbn [List.length seq combine map fst snd]. rewrite !Qsum_cons. cbn [fst snd].
    rewrite (IH (S s)).
    destruct (Nat.eqb_spec s j) as [->|Hne].
    + replace (j - j)%nat with O by lia. cbn [nth].
      assert (H1 : (Nat.leb (S j) j && Nat.ltb j (S j + List.length v))%bool = false).
      { apply andb_false_iff. left. apply Nat.leb_gt. lia. }
      assert (H2 : (Nat.leb j j && Nat.ltb j (j + S (List.length v)))%bool = true).
      { apply andb_true_iff. split; [apply Nat.leb_le; lia | apply Nat.ltb_lt; lia]. }
      rewrite H1, H2. ring.
    + destruct (Nat.leb (S s) j && Nat.ltb j (S s + List.length v))%bool eqn:E1.
      * apply andb_true_iff in E1. destruct E1 as [A B]. apply Nat.leb_le in A. apply Nat.ltb_lt in B.
        assert (H2 : (Nat.leb s j && Nat.ltb j (s + S (List.length v)))%bool = true).
        { apply andb_true_iff. split; [apply Nat.leb_le; lia | apply Nat.ltb_lt; lia]. }
        rewrite H2. replace (j - s)%nat with (S (j - S s)) by lia. cbn [nth]. ring.
      * assert (H2 : (Nat.leb s j && Nat.ltb j (s + S (List.length v)))%bool = false).
        { apply andb_false_iff in E1. apply andb_false_iff.
          destruct E1 as [A|B]; [left; apply Nat.leb_gt in A; apply Nat.leb_gt; lia
                                |right; apply Nat.ltb_ge in B; apply Nat.ltb_ge; lia]. }
        rewrite H2. ring.
Qed.

Lemma import_samples_mat_closed jacks i :
  (i < List.length (tl jacks))%nat ->
  nth i (import_samples_mat jacks) 0 == nth i (import_samples jacks) 0.
Proof.
  intro Hi. unfold import_samples_mat, import_samples. cbv zeta.
  set (js := tl jacks) in *.
  rewrite nth_map_Q by exact Hi. rewrite Qred_correct.
  rewrite (nth_indep _ 0 (vecmat_col js (List.length js) 0%nat)) by (rewrite map_length, seq_length; exact Hi).
  rewrite map_nth, seq_nth by exact Hi. cbn [Nat.add].
  unfold vecmat_col, prj_entry.
  rewrite (sum_indicator js (inject_Z (Z.of_nat (List.length js)) - 1) i 0%nat).
  assert (H2 : (Nat.leb 0 i && Nat.ltb i (0 + List.length js))%bool = true).
  { apply andb_true_iff. split; [reflexivity | apply Nat.ltb_lt; lia]. }
  rewrite H2. rewrite Nat.sub_0_r. unfold QlenL. ring.
Qed.

(* jackknife variance of the exported samples = squared naive error *)
Lemma jack_var_is_naive l :
  (2 <= List.length l)%nat ->
  jack_var (tl (export_jack (Qmean l) l)) == naive_err_sq l.
Proof.
  intro Hn. unfold jack_var, naive_err_sq. cbv zeta.
  assert (Hlen : 1 < QlenL l) by (apply QlenL_ge2; exact Hn).
  set (v := Qmean l).
  set (js := tl (export_jack v l)).
  assert (HL : QlenL js = QlenL l). { unfold js, export_jack. cbn [tl]. apply QlenL_map. }
  assert (Hm : Qmean js == v).
  { unfold Qmean. fold (QlenL js). rewrite HL. unfold js. rewrite Qsum_export_tail; [|exact Hn|reflexivity].
    field. lra. }
  rewrite HL.
  rewrite (Qsum_map_ext _ (fun x => (x - v) * (x - v)) js).
  2:{ intros x _. rewrite !Qred_correct, Hm. reflexivity. }
  rewrite (Qsum_map_ext _ (fun x => (x - v) * (x - v)) l).
  2:{ intros x _. rewrite !Qred_correct. reflexivity. }
  unfold js, export_jack. cbn [tl]. rewrite map_map.
  rewrite (Qsum_map_ext _ (fun x => (1 / ((QlenL l - 1) * (QlenL l - 1))) * ((x - v) * (x - v)))).
  2:{ intros x _. rewrite Qred_correct. field. lra. }
  rewrite (Qsum_map_scale _ (fun x => (x - v) * (x - v))). field. split; lra.
Qed.

(* ------------------------------------------------------------------ THEOREMS: bootstrap *)
Lemma bincount_length rho L : List.length (bincount rho L) = L.
Proof.
  induction rho as [|k r IH]; simpl; [apply repeat_length|].
  rewrite <- IH at 2. generalize (bincount r L). clear. intro c. revert k.
  induction c as [|x c IHc]; intros [|k]; simpl; auto.
Qed.

Lemma dot_incr_at c : forall k x, (k < List.length c)%nat -> List.length c = List.length x ->
  dot (incr_at c k) x == dot c x + nth k x 0.
Proof.
  induction c as [|y c IH]; intros [|k] [|z x] Hk Hl; simpl in *; try lia.
  - rewrite !Qred_correct. ring.
  - rewrite !Qred_correct. rewrite IH by lia. ring.
Qed.

Lemma dot_zeros n x : dot (repeat 0 n) x == 0.
Proof. revert x; induction n as [|n IH]; intros [|z x]; simpl; try reflexivity. rewrite Qred_correct, IH. ring. Qed.

Lemma dot_scale_l a c x : dot (map (fun t => t / a) c) x == dot c x / a.
Proof.
  revert x; induction c as [|y c IH]; intros [|z x]; simpl; try (unfold Qdiv; ring).
  rewrite !Qred_correct, IH. unfold Qdiv. ring.
Qed.

(* a bootstrap sample is exactly the mean over the resampled configurations: any table, any size *)
Lemma boot_row_is_resample_mean rho data :
  Forall (fun k => (k < List.length data)%nat) rho ->
  boot_row rho data == resample_mean rho data.
Proof.
  intro H. unfold boot_row, resample_mean. rewrite dot_scale_l.
  apply Qmult_comp; [|reflexivity].
  induction H as [|k r Hk Hr IH]; cbn [bincount map].
  - apply dot_zeros.
  - rewrite Qsum_cons. rewrite dot_incr_at; [rewrite IH; ring | rewrite bincount_length; exact Hk | apply bincount_length].
Qed.

Lemma export_boot_spec v data table i :
  (i < List.length table)%nat ->
  Forall (Forall (fun k => (k < List.length data)%nat)) table ->
  nth i (tl (export_boot v data table)) 0 == resample_mean (nth i table []) data.
Proof.
  intros Hi H. unfold export_boot. cbn [tl].
  rewrite (nth_indep _ 0 (boot_row [] data)) by (rewrite map_length; exact Hi).
  rewrite (map_nth (fun rho => boot_row rho data)).
  apply boot_row_is_resample_mean. rewrite Forall_forall in H. apply H. apply nth_In. exact Hi.
Qed.

(* ------------------------------------------------------------------ correspondence verdicts *)
Record jcase := mkJC {
  jc_value : Q; jc_rmean : Q; jc_deltas : list Q;     (* the exported observable *)
  jc_jacks : list Q;                                   (* export_jackknife() *)
  jc_imp_value : Q; jc_imp_mean : Q; jc_imp_deltas : list Q;   (* import_jackknife(jacks) *)
  jc_naive_sq : Q;                                     (* dvalue^2 after gamma_method(S=0) *)
  jc_idl : idl; jc_imp_idl : idl;                      (* configuration list before / after the round trip *)
  jc_tol : Q; jc_atol : Q }.                           (* relative tolerance; absolute tolerance (scaled with the data by the harness) *)

Definition jc_full (c : jcase) : list Q := map (fun d => d + jc_rmean c) (jc_deltas c).
Definition jcase_model_ok (c : jcase) : bool :=
  close_list (jc_tol c) (jc_atol c) (jc_jacks c) (export_jack (jc_value c) (jc_full c))
  && (let r := import_jack (jc_jacks c) in
      closeb (jc_tol c) (jc_atol c) (jc_imp_value c) (j_value r)
      && closeb (jc_tol c) (jc_atol c) (jc_imp_mean c) (j_mean r)
      && close_list (jc_tol c) (jc_atol c) (jc_imp_deltas c) (j_deltas r))
  && close_list (jc_tol c) (jc_atol c) (import_samples_mat (jc_jacks c)) (import_samples (jc_jacks c)).
(* spec verdict: leave-one-out means; round trip restores samples; jackknife variance = naive^2 *)
Definition jcase_spec_ok (c : jcase) : bool :=
  let full := jc_full c in
  closeb (jc_tol c) (jc_atol c) (hd 0 (jc_jacks c)) (jc_value c)
  && all2 (fun i j => closeb (jc_tol c) (jc_atol c) j (loo_mean full i)) (seq 0 (List.length full)) (tl (jc_jacks c))
  && closeb (jc_tol c) (jc_atol c) (jc_imp_value c) (jc_value c)
  && idl_eqb (jc_idl c) (jc_imp_idl c)
  && close_list (jc_tol c) (jc_atol c) (map (fun d => d + jc_imp_mean c) (jc_imp_deltas c)) full
  && closeb (jc_tol c) (jc_tol c * jc_naive_sq c) (jack_var (tl (jc_jacks c))) (jc_naive_sq c)
  && closeb (jc_tol c) (jc_tol c * jc_naive_sq c) (naive_err_sq full) (jc_naive_sq c).

Record bcase := mkBC {
  bc_value : Q; bc_data : list Q; bc_table : list (list nat);
  bc_boots : list Q;                   (* export_bootstrap(random_numbers=table) *)
  bc_imp : option (Q * list Q);        (* import_bootstrap: value, samples (deltas + mean); None if not attempted *)
  bc_tol : Q }.
Definition bcase_model_ok (c : bcase) : bool :=
  close_list (bc_tol c) (bc_tol c) (bc_boots c) (export_boot (bc_value c) (bc_data c) (bc_table c)).
Definition bcase_spec_ok (c : bcase) : bool :=
  closeb (bc_tol c) (bc_tol c) (hd 0 (bc_boots c)) (bc_value c)
  && all2 (fun rho b => closeb (bc_tol c) (bc_tol c) b (resample_mean rho (bc_data c))) (bc_table c) (tl (bc_boots c))
  && match bc_imp c with
     | None => true
     | Some (v, s) => closeb (bc_tol c) (bc_tol c) v (bc_value c)
                      && close_list (bc_tol c * (2 # 1) ^ 12) (bc_tol c * (2 # 1) ^ 12) s (bc_data c)
     end.
