(* reweight / correlate / merge_obs and _reduce_deltas (pyerrors/obs.py:1362-1478, 1764-1795): samples of two observables
   are paired by configuration number.  Model (array positions, as the code does it), specification (finite-map lookup),
   and the theorem that the two coincide for well-formed configuration lists. *)
From Coq Require Import ZArith QArith Qabs List Bool String Lia Lqa Sorted.
From PV Require Import Base.QAux Obs.Model Obs.Derived Obs.DerivedThm.
Import ListNotations.
Open Scope Q_scope.

(* ------------------------------------------------------------------ _reduce_deltas *)
(* np.intersect1d(idx_old, idx_new, assume_unique=True, return_indices=True)[1] for sorted unique inputs:
   the POSITIONS in idx_old of the configurations that also occur in idx_new *)
Fixpoint inter_positions (old new : list Z) (pos : nat) : list nat :=
  match old with
  | [] => []
  | x :: old' =>
      (fix inner (new : list Z) : list nat :=
         match new with
         | [] => []
         | y :: new' =>
             if (x <? y)%Z then inter_positions old' new (S pos)
             else if (y <? x)%Z then inner new'
             else pos :: inter_positions old' new' (S pos)
         end) new
  end.

Definition reduce_deltas (deltas : list Q) (idx_old idx_new : idl) : option (list Q) :=
  if negb (Nat.eqb (List.length deltas) (List.length (cfgs idx_old))) then None
  else if isr idx_old && isr idx_new && zlist_eqb (cfgs idx_old) (cfgs idx_new) then Some deltas
  else if idl_eqb idx_old idx_new then Some deltas
  else
    let ind := inter_positions (cfgs idx_old) (cfgs idx_new) 0 in
    if Nat.ltb (List.length ind) (List.length (cfgs idx_new)) then None
    else Some (map (fun i => nth i deltas 0) ind).

(* SPEC: the fluctuation stored for each requested configuration NUMBER; rejected iff some number is absent *)
Definition restrict (deltas : list Q) (idx_old idx_new : idl) : option (list Q) :=
  if negb (Nat.eqb (List.length deltas) (List.length (cfgs idx_old))) then None
  else if forallb (fun c => match lookup (cfgs idx_old) deltas c with Some _ => true | None => false end) (cfgs idx_new)
       then Some (map (lookup0 (cfgs idx_old) deltas) (cfgs idx_new))
       else None.

(* ------------------------------------------------------------------ primary observables from samples (Obs.__init__ without means) *)
Definition chain_in := (string * idl * list Q)%type.
Definition primary (chs : list chain_in) (rw : bool) : obs :=
  let reps := map (fun ch => match ch with (n, i, xs) =>
                  let m := Qred (Qsum xs / QlenL xs) in mkRep n i (map (fun x => Qred (x - m)) xs) m end) chs in
  let N := Qsum (map (fun ch => QlenL (snd ch)) chs) in
  let v := Qred (Qsum (map (fun r => QlenL (r_deltas r) * r_mean r) reps) / N) in
  mkObs v reps [] rw.

Definition rep_samples (r : rep) : list Q := map (fun d => Qred (d + r_mean r)) (r_deltas r).
Definition rmean_or_value (o : obs) (n : string) : Q := match find_rep o n with Some r => r_mean r | None => o_value o end.

(* a / b through derived_observable with the analytic gradient (Obs.__truediv__) *)
Definition obs_div (a b : obs) : obs :=
  let va := o_value a in let vb := o_value b in
  let names := sample_names [a; b] in
  derived [a; b] (Qred (va / vb)) (map (fun n => (n, Qred (rmean_or_value a n / rmean_or_value b n))) names)
          [Qred (1 / vb); Qred (- va / (vb * vb))].

Fixpoint opt_list {A} (l : list (option A)) : option (list A) :=
  match l with
  | [] => Some []
  | None :: _ => None
  | Some x :: r => match opt_list r with Some r' => Some (x :: r') | None => None end
  end.

Definition subset_names (a b : list string) : bool := forallb (fun n => smem n b) a.
Definition zsubset (a b : list Z) : bool := forallb (fun x => existsb (Z.eqb x) b) a.

(* reweight(weight, [o], all_configs) -- parametrised by the row-selection function (code: reduce_deltas, spec: restrict) *)
Definition reweight_with (red : list Q -> idl -> idl -> option (list Q)) (w o : obs) (all_configs : bool) : option obs :=
  if negb (Nat.eqb (List.length (o_covs o)) 0) then None
  else if negb (subset_names (rep_names o) (rep_names w ++ cov_names w)) then None
  else if Nat.ltb 1 (List.length (mc_names o)) || Nat.ltb 1 (List.length (mc_names w)) then None
  else if negb (forallb (fun r => match find_rep w (r_name r) with
                                   | Some wr => zsubset (cfgs (r_idl r)) (cfgs (r_idl wr)) | None => false end) (o_reps o)) then None
  else
    let rows := map (fun r => match find_rep w (r_name r) with
                              | Some wr => match red (r_deltas wr) (r_idl wr) (r_idl r) with
                                           | Some wd => Some (r_name r, r_idl r, map (fun d => Qred (d + r_mean wr)) wd, rep_samples r)
                                           | None => None end
                              | None => None end) (o_reps o) in
    match opt_list rows with
    | None => None
    | Some rs =>
        let tmp := primary (map (fun x => match x with (n, i, ws, os) => (n, i, map (fun p => Qred (fst p * snd p)) (combine ws os)) end) rs) false in
        let nw := if all_configs then w else primary (map (fun x => match x with (n, i, ws, _) => (n, i, ws) end) rs) false in
        let r := obs_div tmp nw in
        Some (mkObs (o_value r) (o_reps r) (o_covs r) true)
    end.
Definition reweight := reweight_with reduce_deltas.
Definition reweight_spec := reweight_with restrict.

(* correlate(a, b): per-configuration products; same chains, same configuration lists required *)
Definition correlate (a b : obs) : option obs :=
  if Nat.ltb 1 (List.length (mc_names a)) || Nat.ltb 1 (List.length (mc_names b)) then None
  else if negb (all2 String.eqb (rep_names a ++ cov_names a) (rep_names b ++ cov_names b)) then None
  else if negb (Nat.eqb (List.length (o_covs a)) 0) || negb (Nat.eqb (List.length (o_covs b)) 0) then None
  else if negb (all2 (fun x y => idl_eqb (r_idl x) (r_idl y)) (o_reps a) (o_reps b)) then None
  else Some (primary (map (fun p => (r_name (fst p), r_idl (fst p),
                                     map (fun q => Qred (fst q * snd q)) (combine (rep_samples (fst p)) (rep_samples (snd p)))))
                          (combine (o_reps a) (o_reps b))) (o_rw a || o_rw b)).

(* merge_obs: union of the chains; duplicated replica or covobs rejected; the constructor rejects several ensembles *)
Fixpoint sinsert_rep (r : rep) (l : list rep) : list rep :=
  match l with
  | [] => [r]
  | x :: t => if String.leb (r_name r) (r_name x) then r :: l else x :: sinsert_rep r t
  end.
Fixpoint str_nodup_b (l : list string) : bool :=
  match l with [] => true | x :: r => negb (smem x r) && str_nodup_b r end.
Definition merge_obs (l : list obs) : option obs :=
  let all := flat_map o_reps l in
  if negb (str_nodup_b (map r_name all)) then None
  else if existsb (fun o => negb (Nat.eqb (List.length (o_covs o)) 0)) l then None
  else if Nat.ltb 1 (List.length (ssort_set (map (fun r => ens_of (r_name r)) all))) then None
  else
    let sorted := fold_right sinsert_rep [] all in
    Some (primary (map (fun r => (r_name r, r_idl r, rep_samples r)) sorted) (existsb o_rw l)).

(* ------------------------------------------------------------------ THEOREMS *)
Lemma lookup0_cons_ne x old d deltas c : x <> c -> lookup0 (x :: old) (d :: deltas) c = lookup0 old deltas c.
Proof. intro H. unfold lookup0. simpl. destruct (Z.eqb_spec x c); [congruence | reflexivity]. Qed.
Lemma lookup0_cons_eq x old d deltas : lookup0 (x :: old) (d :: deltas) x = d.
Proof. unfold lookup0. simpl. rewrite Z.eqb_refl. reflexivity. Qed.

Lemma incr_tail x l : incr (x :: l) -> incr l /\ Forall (fun y => (x < y)%Z) l.
Proof. intro H. inversion H; subst. split; assumption. Qed.

(* the positions selected by the intersection carry exactly the requested configuration NUMBERS *)
Lemma inter_positions_spec : forall old deltas new pre,
  List.length deltas = List.length old -> incr old -> incr new -> (forall x, In x new -> In x old) ->
  map (fun i => nth i (pre ++ deltas) 0) (inter_positions old new (List.length pre)) = map (lookup0 old deltas) new
  /\ List.length (inter_positions old new (List.length pre)) = List.length new.
Proof.
  induction old as [|x old IH]; intros deltas new pre Hl Ho Hn Hsub.
  - destruct new as [|y new]; [split; reflexivity|]. exfalso. apply (Hsub y). left. reflexivity.
  - destruct deltas as [|d deltas]; [discriminate|]. simpl in Hl. injection Hl as Hl.
    destruct (incr_tail _ _ Ho) as [Ho' Hgt].
    induction new as [|y new IHn].
    + split; reflexivity.
    + destruct (incr_tail _ _ Hn) as [Hn' Hgtn].
      cbn [inter_positions].
      destruct (Z.ltb_spec x y) as [Hxy|Hxy].
      * (* x is not requested *)
        assert (Hsub' : forall c, In c (y :: new) -> In c old).
        { intros c Hc. destruct (Hsub c Hc) as [E|E]; [|exact E]. subst c. exfalso.
          destruct Hc as [E|Hc]; [lia|]. rewrite Forall_forall in Hgtn. specialize (Hgtn x Hc). lia. }
        specialize (IH deltas (y :: new) (pre ++ [d]) Hl Ho' Hn Hsub').
        rewrite app_length in IH. cbn [List.length] in IH. rewrite Nat.add_1_r in IH.
        rewrite <- app_assoc in IH. cbn [app] in IH. destruct IH as [IH1 IH2]. split; [|exact IH2].
        rewrite IH1. apply map_ext_in. intros c Hc. symmetry. apply lookup0_cons_ne.
        intro E. subst c. destruct Hc as [E|Hc]; [lia|]. rewrite Forall_forall in Hgtn. specialize (Hgtn x Hc). lia.
      * destruct (Z.ltb_spec y x) as [Hyx|Hyx].
        -- exfalso. destruct (Hsub y (or_introl eq_refl)) as [E|E]; [lia|].
           rewrite Forall_forall in Hgt. specialize (Hgt y E). lia.
        -- assert (E : x = y) by lia. subst y.
           assert (Hsub' : forall c, In c new -> In c old).
           { intros c Hc. rewrite Forall_forall in Hgtn. specialize (Hgtn c Hc).
             destruct (Hsub c (or_intror Hc)) as [E|E]; [lia | exact E]. }
           specialize (IH deltas new (pre ++ [d]) Hl Ho' Hn' Hsub').
           rewrite app_length in IH. cbn [List.length] in IH. rewrite Nat.add_1_r in IH.
           rewrite <- app_assoc in IH. cbn [app] in IH. destruct IH as [IH1 IH2].
           cbn [map List.length]. split; [|rewrite IH2; reflexivity].
           rewrite app_nth2 by lia. rewrite Nat.sub_diag. cbn [nth]. rewrite lookup0_cons_eq. f_equal.
           rewrite IH1. apply map_ext_in. intros c Hc. symmetry. apply lookup0_cons_ne.
           rewrite Forall_forall in Hgtn. specialize (Hgtn c Hc). lia.
Qed.

(* _reduce_deltas selects by configuration number: for strictly increasing lists and a subset request it returns exactly the
   stored fluctuation of every requested configuration, whatever the layout (prefix, stride, random subset, range or list) *)
Theorem reduce_is_restriction deltas idx_old idx_new :
  List.length deltas = List.length (cfgs idx_old) -> incr (cfgs idx_old) -> incr (cfgs idx_new) ->
  (forall x, In x (cfgs idx_new) -> In x (cfgs idx_old)) ->
  exists r, reduce_deltas deltas idx_old idx_new = Some r /\ r = map (lookup0 (cfgs idx_old) deltas) (cfgs idx_new).
Proof.
  intros Hl Ho Hn Hsub. unfold reduce_deltas.
  assert (E0 : Nat.eqb (List.length deltas) (List.length (cfgs idx_old)) = true) by (apply Nat.eqb_eq; exact Hl).
  rewrite E0. cbn [negb].
  assert (Hid : forall l ds, List.length ds = List.length l -> incr l -> map (lookup0 l ds) l = ds).
  { induction l as [|x l IHl]; intros [|d ds] Hlen Hi; try discriminate; [reflexivity|].
    simpl in Hlen. injection Hlen as Hlen. destruct (incr_tail _ _ Hi) as [Hi' Hg].
    cbn [map]. rewrite lookup0_cons_eq. f_equal.
    rewrite <- (IHl ds Hlen Hi') at 2. apply map_ext_in. intros c Hc. apply lookup0_cons_ne.
    rewrite Forall_forall in Hg. specialize (Hg c Hc). lia. }
  destruct (isr idx_old && isr idx_new && zlist_eqb (cfgs idx_old) (cfgs idx_new)) eqn:E1.
  - exists deltas. split; [reflexivity|]. apply andb_true_iff in E1. destruct E1 as [_ E1]. apply zlist_eqb_eq in E1.
    rewrite <- E1. symmetry. apply Hid; assumption.
  - destruct (idl_eqb idx_old idx_new) eqn:E2.
    + exists deltas. split; [reflexivity|]. unfold idl_eqb in E2. apply andb_true_iff in E2. destruct E2 as [_ E2].
      apply zlist_eqb_eq in E2. rewrite <- E2. symmetry. apply Hid; assumption.
    + destruct (inter_positions_spec (cfgs idx_old) deltas (cfgs idx_new) [] Hl Ho Hn Hsub) as [S1 S2].
      cbn [List.length app] in S1, S2. rewrite S2. rewrite Nat.ltb_irrefl.
      eexists. split; [reflexivity|]. exact S1.
Qed.

(* a request for a configuration that was not measured is rejected, never silently mis-aligned *)
Theorem restrict_rejects_missing deltas idx_old idx_new c :
  In c (cfgs idx_new) -> ~ In c (cfgs idx_old) -> restrict deltas idx_old idx_new = None.
Proof.
  intros Hc Hn. unfold restrict. destruct (negb _); [reflexivity|].
  destruct (forallb _ (cfgs idx_new)) eqn:E; [|reflexivity]. exfalso.
  rewrite forallb_forall in E. specialize (E c Hc).
  destruct (lookup (cfgs idx_old) deltas c) eqn:L; [|discriminate].
  clear E. revert deltas L. induction (cfgs idx_old) as [|x l IH]; intros [|d ds] L; simpl in L; try discriminate.
  destruct (Z.eqb_spec x c) as [->|Hne]; [apply Hn; left; reflexivity|].
  apply (IH (fun H => Hn (or_intror H)) ds L).
Qed.

(* ------------------------------------------------------------------ correspondence verdicts *)
Inductive pop := PReweight (w o : obs) (all_configs : bool) | PCorrelate (a b : obs) | PMerge (l : list obs).
Record pcase := mkPC { pc_op : pop; pc_impl : option obs; pc_rt : Q; pc_at : Q }.
Definition run_pop (p : pop) : option obs :=
  match p with PReweight w o a => reweight w o a | PCorrelate a b => correlate a b | PMerge l => merge_obs l end.
(* correlate, specified by configuration number: sample(c) = sample_a(c) * sample_b(c) on the common chains *)
Definition correlate_spec (a b : obs) : option obs :=
  if Nat.ltb 1 (List.length (mc_names a)) || Nat.ltb 1 (List.length (mc_names b)) then None
  else if negb (Nat.eqb (List.length (o_covs a)) 0) || negb (Nat.eqb (List.length (o_covs b)) 0) then None
  else if negb (all2 String.eqb (rep_names a) (rep_names b)) then None
  else if negb (forallb (fun r => match find_rep b (r_name r) with Some s => zlist_eqb (cfgs (r_idl r)) (cfgs (r_idl s)) | None => false end) (o_reps a)) then None
  else Some (primary (map (fun r => (r_name r, r_idl r,
                 map (fun c => Qred ((lookup0 (cfgs (r_idl r)) (r_deltas r) c + r_mean r)
                                     * (match find_rep b (r_name r) with
                                        | Some s => lookup0 (cfgs (r_idl s)) (r_deltas s) c + r_mean s | None => 0 end))) (cfgs (r_idl r)))) (o_reps a))
             (o_rw a || o_rw b)).
Definition spec_pop (p : pop) : option obs :=
  match p with PReweight w o a => reweight_spec w o a | PCorrelate a b => correlate_spec a b | PMerge l => merge_obs l end.
Definition opt_obs_agree (rt at_ : Q) (m i : option obs) : bool :=
  match m, i with None, None => true | Some a, Some b => obs_agree rt at_ b a | _, _ => false end.
Definition pcase_model_ok (c : pcase) : bool := opt_obs_agree (pc_rt c) (pc_at c) (run_pop (pc_op c)) (pc_impl c).
Definition pcase_spec_ok (c : pcase) : bool := opt_obs_agree (pc_rt c) (pc_at c) (spec_pop (pc_op c)) (pc_impl c).
