(* Structural well-formedness of observables (property C04): the predicate, the constructor model with every
   rejection of Obs.__init__ (pyerrors/obs.py:73-137), and the dispatch of the arithmetic operators. *)
From Coq Require Import ZArith QArith List Bool String Ascii Lia Sorted.
From PV Require Import Base.QAux Obs.Model.
Import ListNotations.
Open Scope Z_scope.

(* ------------------------------------------------------------------ the structure of an observable as seen from outside *)
Record chain := mkChain { ch_name : string; ch_idl : idl; ch_ndeltas : nat; ch_shape : nat }.
Record ostruct := mkOS {
  os_names : list string;          (* o.names *)
  os_cov_names : list string;      (* o.cov_names *)
  os_chains : list chain;          (* Monte-Carlo chains, in the order of o.mc_names *)
  os_N : Z;
  os_value_is_real_float : bool;   (* isinstance(o.value, (float, np.floating)) and finite-or-nan, not complex *)
  os_e_names : list string }.      (* o.e_names *)

Fixpoint str_sorted_strict (l : list string) : bool :=
  match l with
  | a :: ((b :: _) as r) => String.ltb a b && str_sorted_strict r
  | _ => true
  end.
Definition idl_wfb (i : idl) : bool :=
  strictly_increasing (cfgs i) && Bool.eqb (isr i) (uniform (cfgs i)).
Definition chain_wfb (c : chain) : bool :=
  idl_wfb (ch_idl c) && Nat.eqb (ch_ndeltas c) (List.length (cfgs (ch_idl c))) && Nat.eqb (ch_shape c) (List.length (cfgs (ch_idl c))).
Fixpoint has_char (ch : ascii) (s : string) : bool :=
  match s with EmptyString => false | String c r => Ascii.eqb c ch || has_char ch r end.

Definition wfb (o : ostruct) : bool :=
  os_value_is_real_float o
  && str_sorted_strict (map ch_name (os_chains o))                          (* chain names sorted and unique *)
  && forallb chain_wfb (os_chains o)
  && Z.eqb (os_N o) (Z.of_nat (fold_right (fun c a => (ch_shape c + a)%nat) O (os_chains o)))
  && forallb (fun n => negb (smem n (map ch_name (os_chains o))) && negb (has_char bar n)) (os_cov_names o)
  (* names = the sorted chain names followed by the covariance names (each exactly once) *)
  && all2 String.eqb (firstn (List.length (os_chains o)) (os_names o)) (map ch_name (os_chains o))
  && all2 String.eqb (ssort_set (skipn (List.length (os_chains o)) (os_names o))) (ssort_set (os_cov_names o))
  && Nat.eqb (List.length (os_names o)) (List.length (os_chains o) + List.length (ssort_set (os_cov_names o)))
  && all2 String.eqb (os_e_names o) (ssort_set (map (fun c => ens_of (ch_name c)) (os_chains o) ++ os_cov_names o)).

(* ------------------------------------------------------------------ constructor model *)
Inductive idl_arg := ARange (i : idl) | AList (l : list Z) | ABad.        (* range object / list or ndarray / anything else *)
Inductive name_arg := NStr (s : string) | NOther.
Inductive init_res := Rejected | Built (o : ostruct).

Definition nm (a : name_arg) : string := match a with NStr s => s | NOther => EmptyString end.
Fixpoint str_nodup (l : list string) : bool :=
  match l with [] => true | x :: r => negb (smem x r) && str_nodup r end.
Definition all_str (l : list name_arg) : bool := forallb (fun a => match a with NStr _ => true | NOther => false end) l.

Definition idl_of_arg (a : idl_arg) : option idl :=
  match a with
  | ARange i => Some i
  | AList l =>
      let d := diffs l in
      if existsb (fun x => x <? 0) d then None            (* unsorted *)
      else if existsb (fun x => x =? 0) d then None       (* duplicates *)
      else Some (norm_idl (mkIdl false l))
  | ABad => None
  end.

(* sorted(zip(names, ...)) by name *)
Fixpoint insert_by_name {A} (x : string * A) (l : list (string * A)) : list (string * A) :=
  match l with
  | [] => [x]
  | y :: r => if String.leb (fst x) (fst y) then x :: l else y :: insert_by_name x r
  end.
Definition sort_by_name {A} (l : list (string * A)) : list (string * A) := fold_right insert_by_name [] l.

(* Obs(samples, names, idl) without `means`: lens = len(sample) for each sample *)
Definition obs_init (lens : list nat) (names : list name_arg) (idl : option (list idl_arg)) : init_res :=
  if negb (Nat.eqb (List.length lens) (List.length names)) then Rejected
  else if match idl with Some l => negb (Nat.eqb (List.length l) (List.length names)) | None => false end then Rejected
  else if negb (all_str names) then Rejected
  else if negb (str_nodup (map nm names)) then Rejected
  else if Nat.ltb 1 (List.length (ssort_set (map (fun a => ens_of (nm a)) names))) then Rejected
  else if existsb (fun n => Nat.leb n 4) lens then Rejected
  else
    let idls := match idl with
                | Some l => map idl_of_arg l
                | None => map (fun n => Some (mkIdl true (zrange 1 (Z.of_nat n + 1) 1))) lens
                end in
    if existsb (fun x => match x with None => true | Some _ => false end) idls then Rejected
    else
      let rows := sort_by_name (combine (map nm names) (combine idls lens)) in
      if existsb (fun r => match fst (snd r) with
                           | Some i => negb (Nat.eqb (snd (snd r)) (List.length (cfgs i)))
                           | None => true end) rows then Rejected
      else
        let chains := map (fun r => match fst (snd r) with
                                    | Some i => mkChain (fst r) i (snd (snd r)) (List.length (cfgs i))
                                    | None => mkChain (fst r) (mkIdl false []) O O end) rows in
        Built (mkOS (map ch_name chains) [] chains
                    (Z.of_nat (fold_right (fun c a => (ch_shape c + a)%nat) O chains)) true
                    (ssort_set (map (fun c => ens_of (ch_name c)) chains))).

(* ------------------------------------------------------------------ dispatch of the arithmetic operators (table regenerated by T-dispatch) *)
Inductive pk := PObs | PReal | PComplex | PCObs.
Inductive rk := RObs | RCObs | RComplexValuedObs | RUnknown.

Definition test_matches (t : string) (p : pk) : bool :=
  match p with
  | PObs => String.eqb t "Obs"
  | PComplex => String.eqb t "complex"
  | PCObs => String.eqb t "CorrCObs"
  | PReal => false
  end || String.eqb t "else".

Definition action_result (a : string) (p : pk) : rk :=
  if String.eqb a "Derived2" then RObs
  else if String.eqb a "Derived1" then (match p with PComplex => RComplexValuedObs | PCObs => RUnknown | _ => RObs end)
  else if String.eqb a "ToCObs" then RCObs
  else if String.eqb a "NotImplemented" then RCObs      (* Python then calls the reflected method of CObs, which always builds a CObs *)
  else RUnknown.

Fixpoint walk (rows : list (string * string)) (p : pk) : rk :=
  match rows with
  | [] => RUnknown
  | (t, a) :: r => if test_matches t p then action_result a p else walk r p
  end.

Definition lookup_rows (tbl : list (string * list (string * string))) (m : string) : list (string * string) :=
  match find (fun r => String.eqb (fst r) m) tbl with Some r => snd r | None => [] end.

Definition is_prefix (p s : string) : bool := starts_with p s.
Definition drop (n : nat) (s : string) : string := substring n (String.length s - n) s.

(* one level of reflection is enough: __radd__/__rmul__ = same as __add__/__mul__, __rsub__ = -1 * (self - y) *)
Definition dispatch (tbl : list (string * list (string * string))) (m : string) (p : pk) : rk :=
  match lookup_rows tbl m with
  | [(t, a)] =>
      if String.eqb t "reflect" then
        (if is_prefix "SameAs:" a then walk (lookup_rows tbl (drop 7 a)) p
         else if is_prefix "NegOf:" a then walk (lookup_rows tbl (drop 6 a)) p    (* -1 * x keeps the kind of x *)
         else RUnknown)
      else walk [(t, a)] p
  | rows => walk rows p
  end.

Definition arith_methods : list string :=
  ["__add__"; "__radd__"; "__sub__"; "__rsub__"; "__mul__"; "__rmul__"; "__truediv__"; "__rtruediv__"]%string.
Definition closed_kind (r : rk) : bool := match r with RObs | RCObs => true | _ => false end.
Definition arith_closedb (tbl : list (string * list (string * string))) : bool :=
  forallb (fun m => forallb (fun p => closed_kind (dispatch tbl m p)) [PObs; PReal; PComplex; PCObs]) arith_methods.

(* ------------------------------------------------------------------ THEOREMS *)
Lemma sort_by_name_length {A} (l : list (string * A)) : List.length (sort_by_name l) = List.length l.
Proof.
  induction l as [|x l IH]; [reflexivity|]. simpl. rewrite <- IH.
  generalize (sort_by_name l). clear. intro s. induction s as [|y s IHs]; simpl; [reflexivity|].
  destruct (String.leb (fst x) (fst y)); simpl; [reflexivity | rewrite IHs; reflexivity].
Qed.

(* each kind of malformed request is rejected *)
Theorem init_rejects_length_mismatch lens names idl :
  List.length lens <> List.length names -> obs_init lens names idl = Rejected.
Proof. intro H. unfold obs_init. apply Nat.eqb_neq in H. rewrite H. reflexivity. Qed.
Theorem init_rejects_non_string_names lens names idl :
  all_str names = false -> obs_init lens names idl = Rejected.
Proof.
  intro H. unfold obs_init. destruct (negb (Nat.eqb _ _)); [reflexivity|].
  destruct (match idl with Some _ => _ | None => _ end); [reflexivity|]. rewrite H. reflexivity.
Qed.
Theorem init_rejects_duplicate_names lens names idl :
  str_nodup (map nm names) = false -> obs_init lens names idl = Rejected.
Proof.
  intro H. unfold obs_init. destruct (negb (Nat.eqb _ _)); [reflexivity|].
  destruct (match idl with Some _ => _ | None => _ end); [reflexivity|].
  destruct (negb (all_str names)); [reflexivity|]. rewrite H. reflexivity.
Qed.
Theorem init_rejects_several_ensembles lens names idl :
  (1 < List.length (ssort_set (map (fun a => ens_of (nm a)) names)))%nat -> obs_init lens names idl = Rejected.
Proof.
  intro H. unfold obs_init. destruct (negb (Nat.eqb _ _)); [reflexivity|].
  destruct (match idl with Some _ => _ | None => _ end); [reflexivity|].
  destruct (negb (all_str names)); [reflexivity|]. destruct (negb (str_nodup _)); [reflexivity|].
  apply Nat.ltb_lt in H. rewrite H. reflexivity.
Qed.
Theorem init_rejects_short_samples lens names idl :
  existsb (fun n => Nat.leb n 4) lens = true -> obs_init lens names idl = Rejected.
Proof.
  intro H. unfold obs_init. destruct (negb (Nat.eqb _ _)); [reflexivity|].
  destruct (match idl with Some _ => _ | None => _ end); [reflexivity|].
  destruct (negb (all_str names)); [reflexivity|]. destruct (negb (str_nodup _)); [reflexivity|].
  destruct (Nat.ltb 1 _); [reflexivity|]. rewrite H. reflexivity.
Qed.
Theorem unsorted_or_duplicate_idl_rejected l :
  existsb (fun x => x <=? 0) (diffs l) = true -> idl_of_arg (AList l) = None.
Proof.
  intro H. unfold idl_of_arg. apply existsb_exists in H. destruct H as [x [Hx Hle]]. apply Z.leb_le in Hle.
  destruct (existsb (fun x0 => x0 <? 0) (diffs l)) eqn:E1; [reflexivity|].
  destruct (existsb (fun x0 => x0 =? 0) (diffs l)) eqn:E2; [reflexivity|]. exfalso.
  assert (A : (x <? 0) = false).
  { destruct (x <? 0) eqn:E; [|reflexivity]. assert (existsb (fun x0 => x0 <? 0) (diffs l) = true) by (apply existsb_exists; eauto). congruence. }
  assert (B : (x =? 0) = false).
  { destruct (x =? 0) eqn:E; [|reflexivity]. assert (existsb (fun x0 => x0 =? 0) (diffs l) = true) by (apply existsb_exists; eauto). congruence. }
  apply Z.ltb_ge in A. apply Z.eqb_neq in B. lia.
Qed.

(* an accepted configuration list is strictly increasing and a range exactly when equally spaced *)
Theorem accepted_list_idl_wf l i : idl_of_arg (AList l) = Some i -> idl_wfb i = true /\ cfgs i = l.
Proof.
  unfold idl_of_arg. destruct (existsb (fun x => x <? 0) (diffs l)) eqn:E1; [discriminate|].
  destruct (existsb (fun x => x =? 0) (diffs l)) eqn:E2; [discriminate|]. intro H. injection H as <-.
  unfold norm_idl, idl_wfb. cbn [isr cfgs].
  assert (SI : strictly_increasing l = true).
  { unfold strictly_increasing. apply forallb_forall. intros x Hx. apply Z.ltb_lt.
    assert (A : (x <? 0) = false).
    { destruct (x <? 0) eqn:E; [|reflexivity]. assert (existsb (fun x0 => x0 <? 0) (diffs l) = true) by (apply existsb_exists; eauto). congruence. }
    assert (B : (x =? 0) = false).
    { destruct (x =? 0) eqn:E; [|reflexivity]. assert (existsb (fun x0 => x0 =? 0) (diffs l) = true) by (apply existsb_exists; eauto). congruence. }
    apply Z.ltb_ge in A. apply Z.eqb_neq in B. lia. }
  destruct (uniform l) eqn:U; cbn [isr cfgs]; rewrite SI, U; split; reflexivity.
Qed.

(* ------------------------------------------------------------------ correspondence verdicts *)
Definition chain_eqb (a b : chain) : bool :=
  String.eqb (ch_name a) (ch_name b) && idl_eqb (ch_idl a) (ch_idl b) && Nat.eqb (ch_ndeltas a) (ch_ndeltas b) && Nat.eqb (ch_shape a) (ch_shape b).
Definition ostruct_eqb (a b : ostruct) : bool :=
  all2 String.eqb (os_names a) (os_names b) && all2 chain_eqb (os_chains a) (os_chains b) && Z.eqb (os_N a) (os_N b)
  && all2 String.eqb (os_e_names a) (os_e_names b).
(* a constructor request, whether it contains one of the listed malformations (decided by the generator), what the
   implementation did *)
Record icase := mkIC { ic_lens : list nat; ic_names : list name_arg; ic_idl : option (list idl_arg); ic_malformed : bool;
                       ic_impl : option ostruct }.
Definition icase_model_ok (c : icase) : bool :=
  match obs_init (ic_lens c) (ic_names c) (ic_idl c), ic_impl c with
  | Rejected, None => true
  | Built o, Some i => ostruct_eqb o i
  | _, _ => false
  end.
Definition icase_spec_ok (c : icase) : bool :=
  match ic_impl c with
  | None => true                                   (* rejecting is always allowed for requests of this stream *)
  | Some i => negb (ic_malformed c) && wfb i
  end.
