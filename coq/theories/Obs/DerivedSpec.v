(* C01, the last link: the fluctuation that the model of derived_observable stores (Obs/DerivedThm.v: aligned_sum, in the code's
   vocabulary -- |new| / |own| times the missing-replica scale factor of the code) IS the fluctuation the property demands
   (Obs/Derived.v: spec_fluct, with spec_weight written from the property text), for all operands, layouts and gradients.
   Needed on the way: sorted(set(..)) of strings is duplicate free (transitivity of the string order, which the standard
   library does not provide). *)
From Coq Require Import ZArith QArith Qabs List Bool String Ascii Lia Sorted Permutation NArith.
From PV Require Import Base.QAux Obs.Model Obs.Derived Obs.DerivedThm.
Import ListNotations.

(* ------------------------------------------------------------------ the order on strings *)
Lemma ascii_compare_refl a : Ascii.compare a a = Eq.
Proof. unfold Ascii.compare. apply N.compare_refl. Qed.
Lemma ascii_compare_lt_trans a b c : Ascii.compare a b = Lt -> Ascii.compare b c = Lt -> Ascii.compare a c = Lt.
Proof. unfold Ascii.compare. rewrite !N.compare_lt_iff. apply N.lt_trans. Qed.

Lemma string_compare_refl s : String.compare s s = Eq.
Proof. induction s as [|a s IH]; [reflexivity|]. simpl. rewrite ascii_compare_refl. exact IH. Qed.

Lemma string_compare_lt_trans a : forall b c, String.compare a b = Lt -> String.compare b c = Lt -> String.compare a c = Lt.
Proof.
  induction a as [|x a IH]; intros [|y b] [|z c] H1 H2; simpl in *; try discriminate; try reflexivity.
  destruct (Ascii.compare x y) eqn:Exy; try discriminate.
  - apply Ascii.compare_eq_iff in Exy. subst y. destruct (Ascii.compare x z) eqn:Exz; try discriminate; [|reflexivity].
    eapply IH; eassumption.
  - destruct (Ascii.compare y z) eqn:Eyz; try discriminate.
    + apply Ascii.compare_eq_iff in Eyz. subst z. rewrite Exy. reflexivity.
    + rewrite (ascii_compare_lt_trans _ _ _ Exy Eyz). reflexivity.
Qed.

Definition slt (a b : string) : Prop := String.ltb a b = true.
Lemma slt_compare a b : slt a b <-> String.compare a b = Lt.
Proof. unfold slt, String.ltb. destruct (String.compare a b); split; congruence. Qed.
Lemma slt_trans a b c : slt a b -> slt b c -> slt a c.
Proof. rewrite !slt_compare. apply string_compare_lt_trans. Qed.
Lemma slt_irrefl a : ~ slt a a.
Proof. rewrite slt_compare, string_compare_refl. discriminate. Qed.
(* not equal and not smaller: greater *)
Lemma slt_total a b : String.eqb a b = false -> String.ltb a b = false -> slt b a.
Proof.
  intros He Hl. rewrite slt_compare. rewrite String.compare_antisym.
  unfold String.ltb in Hl. destruct (String.compare a b) eqn:E; try discriminate; [|reflexivity].
  apply String.compare_eq_iff in E. subst. rewrite String.eqb_refl in He. discriminate.
Qed.

(* ------------------------------------------------------------------ sorted(set(l)) *)
Definition ssorted (l : list string) : Prop := StronglySorted slt l.

Lemma sinsert_In s l x : In x (sinsert s l) <-> x = s \/ In x l.
Proof.
  induction l as [|y r IH]; simpl; [intuition|].
  destruct (String.eqb s y) eqn:E1.
  - apply String.eqb_eq in E1. subst. simpl. intuition.
  - destruct (String.ltb s y); simpl; [intuition|]. rewrite IH. intuition.
Qed.
Lemma sinsert_lb s l m : slt m s -> Forall (slt m) l -> Forall (slt m) (sinsert s l).
Proof.
  intros Hs H. induction H as [|y r Hy Hr IH]; simpl; [constructor; [exact Hs|constructor]|].
  destruct (String.eqb s y); [constructor; assumption|].
  destruct (String.ltb s y); constructor; try assumption. constructor; assumption.
Qed.
Lemma sinsert_sorted s l : ssorted l -> ssorted (sinsert s l).
Proof.
  unfold ssorted. induction 1 as [|y r Hr IH Hy]; simpl; [constructor; constructor|].
  destruct (String.eqb s y) eqn:E1; [constructor; assumption|].
  destruct (String.ltb s y) eqn:E2.
  - constructor; [constructor; assumption|]. constructor; [exact E2|].
    eapply Forall_impl; [|exact Hy]. intros a Ha. eapply slt_trans; [exact E2|exact Ha].
  - constructor; [exact IH|]. apply sinsert_lb; [apply slt_total; assumption|exact Hy].
Qed.
Lemma ssort_set_sorted l : ssorted (ssort_set l).
Proof. unfold ssort_set. induction l as [|x r IH]; simpl; [constructor|]. apply sinsert_sorted. exact IH. Qed.
Lemma ssort_set_In l x : In x (ssort_set l) <-> In x l.
Proof. unfold ssort_set. induction l as [|y r IH]; simpl; [tauto|]. rewrite sinsert_In, IH. intuition. Qed.
Lemma ssorted_NoDup l : ssorted l -> NoDup l.
Proof.
  unfold ssorted. induction 1 as [|y r Hr IH Hy]; constructor; [|exact IH].
  intro Hin. rewrite Forall_forall in Hy. apply (slt_irrefl y). apply Hy. exact Hin.
Qed.
Lemma ssort_set_NoDup l : NoDup (ssort_set l).
Proof. apply ssorted_NoDup, ssort_set_sorted. Qed.

Lemma sample_names_NoDup ops : NoDup (sample_names ops).
Proof. unfold sample_names. apply NoDup_filter. unfold all_names. apply ssort_set_NoDup. Qed.

Lemma smem_In s l : smem s l = true <-> In s l.
Proof.
  unfold smem. rewrite existsb_exists. split.
  - intros [y [Hy E]]. apply String.eqb_eq in E. subst. exact Hy.
  - intro H. exists s. split; [exact H|apply String.eqb_refl].
Qed.

(* ------------------------------------------------------------------ sizes of the merged lists *)
Lemma new_len_union ops m : new_len ops m = union_len ops m.
Proof.
  unfold new_len, union_len, union_cfgs, new_idl. destruct (idls_of ops m) as [|i l] eqn:E; [reflexivity|].
  rewrite merge_idx_is_union by congruence. reflexivity.
Qed.

Lemma zsum_perm l1 l2 : Permutation l1 l2 -> zsum l1 = zsum l2.
Proof. induction 1; simpl; lia. Qed.

(* ------------------------------------------------------------------ the scale factor of the code is the replica factor of the spec *)
Open Scope Q_scope.

Lemma scalefactor_is_spec ops o n r :
  find_rep o n = Some r -> NoDup (rep_names o) -> incl (rep_names o) (sample_names ops) ->
  scalefactor ops o (ens_of n) =
    (if Nat.ltb (List.length (filter (fun m => smem m (rep_names o)) (filter (fun m => String.eqb (ens_of m) (ens_of n)) (sample_names ops))))
                (List.length (filter (fun m => String.eqb (ens_of m) (ens_of n)) (sample_names ops)))
     then inject_Z (zsum (map (union_len ops) (filter (fun m => String.eqb (ens_of m) (ens_of n)) (sample_names ops))))
          / inject_Z (zsum (map (union_len ops) (filter (fun m => smem m (rep_names o)) (filter (fun m => String.eqb (ens_of m) (ens_of n)) (sample_names ops)))))
     else 1).
Proof.
  intros Hf Hnd Hincl. unfold scalefactor.
  pose proof (find_rep_In _ _ _ Hf) as [Hr Hn].
  assert (Hin : In n (rep_names o)) by (unfold rep_names; rewrite <- Hn; apply in_map; exact Hr).
  assert (Hmc : smem (ens_of n) (mc_names o) = true).
  { apply smem_In. unfold mc_names. apply ssort_set_In. apply in_map. exact Hin. }
  rewrite Hmc. unfold prefixed.
  set (e := ens_of n).
  set (all := filter (fun m => String.eqb (ens_of m) e) (sample_names ops)).
  set (mine := filter (fun m => String.eqb (ens_of m) e) (rep_names o)).
  set (mine' := filter (fun m => smem m (rep_names o)) all).
  assert (HP : Permutation mine mine').
  { apply NoDup_Permutation.
    - apply NoDup_filter. exact Hnd.
    - apply NoDup_filter. apply NoDup_filter. apply sample_names_NoDup.
    - intro x. unfold mine, mine', all. rewrite !filter_In, smem_In. split.
      + intros [H1 H2]. split; [split; [apply Hincl; exact H1|exact H2]|exact H1].
      + intros [[_ H2] H1]. split; assumption. }
  assert (Hpos : (0 <? List.length mine)%nat = true).
  { apply Nat.ltb_lt. assert (In n mine) by (unfold mine; apply filter_In; split; [exact Hin|apply String.eqb_refl]).
    destruct mine; [contradiction|simpl; lia]. }
  rewrite Hpos. cbn [andb].
  rewrite (Permutation_length HP).
  rewrite (map_ext (new_len ops) (union_len ops)) by (intro; apply new_len_union).
  rewrite (map_ext (new_len ops) (union_len ops)) by (intro; apply new_len_union).
  rewrite (zsum_perm _ _ (Permutation_map (union_len ops) HP)).
  reflexivity.
Qed.

(* ------------------------------------------------------------------ MODEL = SPECIFICATION, all inputs *)
Definition names_ok (ops : list obs) : Prop :=
  forall o, In o ops -> NoDup (rep_names o) /\ incl (rep_names o) (sample_names ops).

Theorem aligned_sum_is_spec ops n c : forall gs os,
  (forall o, In o os -> In o ops) -> names_ok ops ->
  aligned_sum ops n c gs os == spec_fluct ops n c gs os.
Proof.
  induction gs as [|g gs IH]; intros os Hsub Hok; [reflexivity|].
  destruct os as [|o os]; [reflexivity|]. cbn [aligned_sum spec_fluct].
  rewrite IH by (try assumption; intros o' Ho'; apply Hsub; right; exact Ho').
  apply Qplus_comp; [|reflexivity].
  assert (Ho : In o ops) by (apply Hsub; left; reflexivity).
  unfold fluct0, fluct. destruct (find_rep o n) as [r|] eqn:Ef.
  - destruct (Hok o Ho) as [Hnd Hincl].
    unfold spec_weight. cbv zeta. rewrite <- (scalefactor_is_spec ops o n r Ef Hnd Hincl).
    unfold expand_spec, lookup0, own_len. rewrite Ef.
    assert (Hnn : idls_of ops n <> []).
    { intro E. pose proof (idls_of_In ops n o r Ho Ef) as H. rewrite E in H. destruct H. }
    unfold Qlen. fold (new_len ops n). rewrite new_len_union.
    destruct (lookup (cfgs (r_idl r)) (r_deltas r) c); unfold Qdiv; ring.
  - ring.
Qed.

(* the stored fluctuation of the result, entry by entry, is the property's formula *)
Theorem derived_fluctuation_is_the_specified_one ops n i gs :
  Forall obs_wf ops -> names_ok ops -> (i < List.length (cfgs (new_idl ops n)))%nat ->
  acc_nth (acc_deltas ops n gs ops None) i == spec_fluct ops n (nth i (cfgs (new_idl ops n)) 0%Z) gs ops.
Proof.
  intros Hwf Hok Hi. rewrite derived_deltas_aligned by assumption.
  apply aligned_sum_is_spec; [auto|exact Hok].
Qed.
