(* derived_observable (scalar mode, gradient given) transcribed from pyerrors/obs.py:1172-1359,
   and the property's specification of it.  Theorems are in Obs/DerivedThm.v. *)
From Coq Require Import ZArith QArith Qabs List Bool String Ascii Lia.
From PV Require Import Base.QAux Obs.Model.
Import ListNotations.
Open Scope Q_scope.

Fixpoint vadd (a b : list Q) : list Q :=
  match a, b with
  | x :: a', y :: b' => (x + y) :: vadd a' b'
  | _, _ => []
  end.
Definition vscale (s : Q) (a : list Q) : list Q := map (fun x => s * x) a.

(* names of all operands, sorted and unique *)
Definition all_names (ops : list obs) : list string :=
  ssort_set (flat_map (fun o => rep_names o ++ cov_names o) ops).
Definition all_cov_names (ops : list obs) : list string := ssort_set (flat_map cov_names ops).
Definition sample_names (ops : list obs) : list string :=
  filter (fun n => negb (smem n (all_cov_names ops))) (all_names ops).

(* new_idl_d[name] = _merge_idx([o.idl[name] for o in data if name in o.idl]) *)
Definition idls_of (ops : list obs) (n : string) : list idl :=
  flat_map (fun o => match find_rep o n with Some r => [r_idl r] | None => [] end) ops.
Definition new_idl (ops : list obs) (n : string) : idl := merge_idx (idls_of ops n).

(* _compute_scalefactor_missing_rep(obs).get(ens, 1) *)
(* the replica of ensemble e: name.split('|')[0] == e (a bare name 'e' is a replica of e, as everywhere else in the library) *)
Definition prefixed (e : string) (names : list string) : list string :=
  filter (fun n => String.eqb (ens_of n) e) names.
Definition new_len (ops : list obs) (n : string) : Z := Z.of_nat (List.length (cfgs (new_idl ops n))).
Definition zsum (l : list Z) : Z := fold_right Z.add 0%Z l.
Definition scalefactor (ops : list obs) (o : obs) (e : string) : Q :=
  if smem e (mc_names o) then
    let mine := prefixed e (rep_names o) in
    let all := prefixed e (sample_names ops) in
    if (Nat.ltb 0 (List.length mine)) && (Nat.ltb (List.length mine) (List.length all)) then
      inject_Z (zsum (map (new_len ops) all)) / inject_Z (zsum (map (new_len ops) mine))
    else 1
  else 1.

(* contribution of operand o (gradient entry g) to replica n *)
Definition contrib (ops : list obs) (n : string) (g : Q) (o : obs) : option (list Q) :=
  match find_rep o n with
  | Some r => Some (vscale g (expand_for_merge (r_deltas r) (r_idl r) (new_idl ops n) (scalefactor ops o (ens_of n))))
  | None => None
  end.

Fixpoint acc_deltas (ops : list obs) (n : string) (gs : list Q) (os : list obs) (acc : option (list Q)) : option (list Q) :=
  match gs, os with
  | g :: gs', o :: os' =>
      let acc' := match contrib ops n g o, acc with
                  | Some v, Some a => Some (vadd a v)
                  | Some v, None => Some v
                  | None, a => a
                  end in
      acc_deltas ops n gs' os' acc'
  | _, _ => acc
  end.

Definition cov_contrib (n : string) (g : Q) (o : obs) : option (list Q) :=
  match find_cov o n with Some c => Some (vscale g (c_grad c)) | None => None end.
Fixpoint acc_grad (n : string) (gs : list Q) (os : list obs) (acc : option (list Q)) : option (list Q) :=
  match gs, os with
  | g :: gs', o :: os' =>
      let acc' := match cov_contrib n g o, acc with
                  | Some v, Some a => Some (vadd a v)
                  | Some v, None => Some v
                  | None, a => a
                  end in
      acc_grad n gs' os' acc'
  | _, _ => acc
  end.

Definition first_cov (ops : list obs) (n : string) : list (list Q) :=
  match flat_map (fun o => match find_cov o n with Some c => [c_cov c] | None => [] end) ops with
  | m :: _ => m | [] => [] end.

Definition assocQ (l : list (string * Q)) (n : string) (d : Q) : Q :=
  match find (fun p => String.eqb (fst p) n) l with Some p => snd p | None => d end.

(* derived_observable(func, ops, man_grad=gs) with value [val] = func(values) and replica means
   [rvals] = func(replica means or values) *)
Definition derived (ops : list obs) (val : Q) (rvals : list (string * Q)) (gs : list Q) : obs :=
  let reps := map (fun n =>
      mkRep n (norm_idl (new_idl ops n))
            (match acc_deltas ops n gs ops None with Some v => v | None => [] end)
            (assocQ rvals n val)) (sample_names ops) in
  let covs := map (fun n =>
      mkCov n (first_cov ops n) (match acc_grad n gs ops None with Some v => v | None => [] end)) (all_cov_names ops) in
  mkObs val reps covs (existsb o_rw ops).

(* ------------------------------------------------------------------ SPECIFICATION (property text)
   fluctuation of the result on configuration c of replica n:
     sum_i g_i * w_i(n) * (fluct of x_i at (n,c), or 0)
   w_i(n) = |cfgs(n)| / |cfgs_i(n)| * (sum_{r' in ens(n)} |cfgs(r')|) / (sum_{r' in ens(n), x_i has r'} |cfgs(r')|) *)
Definition union_cfgs (ops : list obs) (n : string) : list Z := zunion (map cfgs (idls_of ops n)).
Definition own_len (o : obs) (n : string) : Z :=
  match find_rep o n with Some r => Z.of_nat (List.length (cfgs (r_idl r))) | None => 0%Z end.
Definition union_len (ops : list obs) (n : string) : Z := Z.of_nat (List.length (union_cfgs ops n)).

Definition spec_weight (ops : list obs) (o : obs) (n : string) : Q :=
  let e := ens_of n in
  let ens_reps := filter (fun m => String.eqb (ens_of m) e) (sample_names ops) in
  let mine := filter (fun m => smem m (rep_names o)) ens_reps in
  (inject_Z (union_len ops n) / inject_Z (own_len o n))
  * (if Nat.ltb (List.length mine) (List.length ens_reps)
     then inject_Z (zsum (map (union_len ops) ens_reps)) / inject_Z (zsum (map (union_len ops) mine)) else 1).

(* the same weight with the union sizes looked up in a table computed once (used by verdicts that need many weights) *)
Definition ulen_table (ops : list obs) : list (string * Z) := map (fun m => (m, union_len ops m)) (sample_names ops).
Fixpoint ulen_lookup (tab : list (string * Z)) (ops : list obs) (m : string) : Z :=
  match tab with
  | (k, v) :: rest => if String.eqb k m then v else ulen_lookup rest ops m
  | [] => union_len ops m
  end.
Definition spec_weight_t (ops : list obs) (tab : list (string * Z)) (o : obs) (n : string) : Q :=
  let e := ens_of n in
  let ens_reps := filter (fun m => String.eqb (ens_of m) e) (map fst tab) in
  let mine := filter (fun m => smem m (rep_names o)) ens_reps in
  (inject_Z (ulen_lookup tab ops n) / inject_Z (own_len o n))
  * (if Nat.ltb (List.length mine) (List.length ens_reps)
     then inject_Z (zsum (map (ulen_lookup tab ops) ens_reps)) / inject_Z (zsum (map (ulen_lookup tab ops) mine)) else 1).
Lemma ulen_lookup_correct ops names m : ulen_lookup (map (fun k => (k, union_len ops k)) names) ops m = union_len ops m.
Proof. induction names as [|k names IH]; [reflexivity|]. cbn. destruct (String.eqb k m) eqn:E; [apply String.eqb_eq in E; subst; reflexivity | exact IH]. Qed.
Lemma spec_weight_t_correct ops o n : spec_weight_t ops (ulen_table ops) o n = spec_weight ops o n.
Proof.
  unfold spec_weight_t, spec_weight, ulen_table. rewrite map_map. cbn [fst]. rewrite map_id.
  rewrite ulen_lookup_correct.
  rewrite !(map_ext (ulen_lookup (map (fun m => (m, union_len ops m)) (sample_names ops)) ops) (union_len ops)) by (intro; apply ulen_lookup_correct).
  reflexivity.
Qed.

Fixpoint spec_fluct (ops : list obs) (n : string) (c : Z) (gs : list Q) (os : list obs) : Q :=
  match gs, os with
  | g :: gs', o :: os' => g * spec_weight ops o n * fluct0 o n c + spec_fluct ops n c gs' os'
  | _, _ => 0
  end.

Fixpoint spec_covgrad (n : string) (k : nat) (gs : list Q) (os : list obs) : Q :=
  match gs, os with
  | g :: gs', o :: os' =>
      g * (match find_cov o n with Some c => qnth (c_grad c) k | None => 0 end) + spec_covgrad n k gs' os'
  | _, _ => 0
  end.

(* boolean judgement of an implementation result against the SPEC (not the model): used when
   the model and the implementation disagree, to decide whether the real code violates the property *)
Definition names_eqb (a b : list string) : bool := all2 String.eqb a b.
Definition spec_judge (rt at_ : Q) (ops : list obs) (val : Q) (gs : list Q) (res : obs) : bool :=
  closeb rt at_ (o_value res) val
  && names_eqb (rep_names res) (sample_names ops)
  && forallb (fun r =>
        zlist_eqb (cfgs (r_idl r)) (union_cfgs ops (r_name r))
        && Bool.eqb (isr (r_idl r)) (uniform (cfgs (r_idl r)))
        && all2 (fun c d => closeb rt at_ d (spec_fluct ops (r_name r) c gs ops)) (cfgs (r_idl r)) (r_deltas r))
      (o_reps res)
  && Bool.eqb (o_rw res) (existsb o_rw ops).
