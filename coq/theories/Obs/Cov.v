(* covariance / correlation of analysed observables (pyerrors/obs.py covariance, _covariance_element, _intersection_idx,
   sort_corr, _smooth_eigenvalues), model and specification.  Square roots enter through a function parameter [rt]:
   the theorems hold for every function with the contract of the real square root; the executable checks instantiate
   it with a verified rational approximation (relative error below 2^-60). *)
From Coq Require Import ZArith QArith Qabs List Bool String Lia Lqa.
From PV Require Import Base.QAux Obs.Model Obs.Derived Obs.Pairing.
Import ListNotations.
Open Scope Q_scope.

(* ------------------------------------------------------------------ a rational square root *)
Definition sqrt_bits : Z := 64.
Definition qsqrt (x : Q) : Q :=
  if Qleb x 0 then 0
  else let n := Qnum x in let d := Zpos (Qden x) in
       (* sqrt(n/d) = sqrt(n d) / d, evaluated with 64 extra bits *)
       let s := Z.sqrt (n * d * 2 ^ (2 * sqrt_bits)) in
       Qred (s # (Z.to_pos (d * 2 ^ sqrt_bits))).

Definition mdot (g1 : list Q) (m : list (list Q)) (g2 : list Q) : Q :=      (* g1^T m g2 *)
  Qsum (map (fun p => Qred (fst p * Qsum (map (fun q => Qred (fst q * snd q)) (combine (snd p) g2)))) (combine g1 m)).

(* _intersection_idx of two configuration lists *)
Definition common (a b : idl) : list Z := if idl_eqb a b then cfgs a else zinter (cfgs a) (cfgs b).
(* _reduce_deltas(deltas, idl, common) *)
Definition red (r : rep) (cs : list Z) : list Q :=
  match reduce_deltas (r_deltas r) (r_idl r) (mkIdl false cs) with Some l => l | None => [] end.
Definition dot_common (r1 r2 : rep) (cs : list Z) : Q :=
  Qsum (map (fun p => Qred (fst p * snd p)) (combine (red r1 cs) (red r2 cs))).
(* the same sums by configuration NUMBER (specification) *)
Definition dot_lookup (r1 r2 : rep) : Q :=
  Qsum (map (fun c => Qred (lookup0 (cfgs (r_idl r1)) (r_deltas r1) c * lookup0 (cfgs (r_idl r2)) (r_deltas r2) c)) (cfgs (r_idl r1))).
Definition self_on_common (r other : rep) : Q :=
  Qsum (map (fun c => match lookup (cfgs (r_idl other)) (r_deltas other) c with
                      | Some _ => let d := lookup0 (cfgs (r_idl r)) (r_deltas r) c in Qred (d * d) | None => 0 end) (cfgs (r_idl r))).

Definition shared_reps (o1 o2 : obs) (e : string) : list (rep * rep) :=
  flat_map (fun r1 => if String.eqb (ens_of (r_name r1)) e
                      then match find_rep o2 (r_name r1) with Some r2 => [(r1, r2)] | None => [] end else []) (o_reps o1).
Definition cov_grad_term (o1 o2 : obs) : Q :=
  Qsum (map (fun c1 => match find_cov o2 (c_name c1) with Some c2 => mdot (c_grad c1) (c_cov c1) (c_grad c2) | None => 0 end) (o_covs o1)).
Definition names_disjoint (o1 o2 : obs) : bool :=
  forallb (fun n => negb (smem n (rep_names o2 ++ cov_names o2))) (rep_names o1 ++ cov_names o1).

Section WithSqrt.
  Variable rt : Q -> Q.

  (* _covariance_element: per shared ensemble  sum_r s_r / sum_r sqrt(a_r b_r)  over the common configurations; plus J1 Sigma J2 *)
  Definition ens_term (o1 o2 : obs) (e : string) : Q :=
    let prs := filter (fun p => negb (Nat.eqb (List.length (common (r_idl (fst p)) (r_idl (snd p)))) 0)) (shared_reps o1 o2 e) in
    let gamma := Qsum (map (fun p => dot_common (fst p) (snd p) (common (r_idl (fst p)) (r_idl (snd p)))) prs) in
    if Qeqb gamma 0 then 0
    else let div := Qsum (map (fun p => let cs := common (r_idl (fst p)) (r_idl (snd p)) in
                                        rt (dot_common (fst p) (fst p) cs * dot_common (snd p) (snd p) cs)) prs) in
         Qred (gamma / div).
  Definition cov_element (o1 o2 : obs) : Q :=
    if names_disjoint o1 o2 then 0
    else Qred (Qsum (map (fun e => if smem e (mc_names o2) then ens_term o1 o2 e else 0) (mc_names o1)) + cov_grad_term o1 o2).

  (* SPEC of the same element: sums by configuration number over the common configurations *)
  Definition ens_term_spec (o1 o2 : obs) (e : string) : Q :=
    let prs := shared_reps o1 o2 e in
    let gamma := Qsum (map (fun p => dot_lookup (fst p) (snd p)) prs) in
    if Qeqb gamma 0 then 0
    else Qred (gamma / Qsum (map (fun p => rt (self_on_common (fst p) (snd p) * self_on_common (snd p) (fst p))) prs)).
  Definition cov_element_spec (o1 o2 : obs) : Q :=
    if names_disjoint o1 o2 then 0
    else Qred (Qsum (map (fun e => if smem e (mc_names o2) then ens_term_spec o1 o2 e else 0) (mc_names o1)) + cov_grad_term o1 o2).

  (* covariance(obs): upper triangle computed, mirrored; corr = D^-1/2 cov0 D^-1/2; cov = diag(err) corr diag(err) *)
  Definition mat := list (list Q).
  Definition mnth (m : mat) (i j : nat) : Q := nth j (nth i m []) 0.
  Definition cov0 (elt : obs -> obs -> Q) (l : list obs) : mat :=
    map (fun i => map (fun j => if Nat.leb i j then elt (nth i l (mkObs 0 [] [] false)) (nth j l (mkObs 0 [] [] false))
                                else elt (nth j l (mkObs 0 [] [] false)) (nth i l (mkObs 0 [] [] false)))
                      (seq 0 (List.length l))) (seq 0 (List.length l)).
  Definition corr_of (c : mat) : mat :=
    map (fun i => map (fun j => Qred (mnth c i j / (rt (mnth c i i) * rt (mnth c j j)))) (seq 0 (List.length c))) (seq 0 (List.length c)).
  Definition cov_of (corr : mat) (errs : list Q) : mat :=
    map (fun i => map (fun j => Qred (nth i errs 0 * mnth corr i j * nth j errs 0)) (seq 0 (List.length corr))) (seq 0 (List.length corr)).
End WithSqrt.

(* sort_corr: reorder a matrix built in key order kl to the alphabetical order of the keys; yd gives the block sizes *)
Fixpoint offsets (kl : list string) (sizes : string -> nat) (ofs : nat) : list (string * list nat) :=
  match kl with
  | [] => []
  | k :: r => (k, seq ofs (sizes k)) :: offsets r sizes (ofs + sizes k)
  end.
Definition sort_mapping (kl : list string) (sizes : string -> nat) : list nat :=
  let posd := offsets kl sizes 0 in
  flat_map (fun k => match find (fun p => String.eqb (fst p) k) posd with Some p => snd p | None => [] end) (ssort_set kl).
Definition permute_mat (m : list (list Q)) (mp : list nat) : list (list Q) :=
  map (fun i => map (fun j => nth j (nth i m []) 0) mp) mp.
Definition sort_corr (m : list (list Q)) (kl : list string) (sizes : string -> nat) : list (list Q) :=
  permute_mat m (sort_mapping kl sizes).

(* ------------------------------------------------------------------ THEOREMS *)
Lemma Qsq_nonneg t : 0 <= t * t.
Proof.
  destruct (Qlt_le_dec t 0) as [L|L].
  - setoid_replace (t * t) with ((- t) * (- t)) by ring. apply Qmult_le_0_compat; lra.
  - apply Qmult_le_0_compat; assumption.
Qed.
Lemma Qmult_le_l_weak k a b : 0 <= k -> a <= b -> k * a <= k * b.
Proof.
  intros Hk Hab. setoid_replace (k * b) with (k * a + k * (b - a)) by ring.
  assert (0 <= k * (b - a)) by (apply Qmult_le_0_compat; lra). lra.
Qed.

Section Theorems.
  Variable rt : Q -> Q.
  Hypothesis rt_sq : forall x, 0 < x -> rt x * rt x == x.
  Hypothesis rt_pos : forall x, 0 < x -> 0 < rt x.

  (* the matrix is symmetric by construction *)
  Theorem cov0_symmetric elt l i j : (i < List.length l)%nat -> (j < List.length l)%nat ->
    mnth (cov0 elt l) i j = mnth (cov0 elt l) j i.
  Proof.
    intros Hi Hj. unfold mnth, cov0.
    set (d := mkObs 0 [] [] false).
    set (row := fun i0 => map (fun j0 => if Nat.leb i0 j0 then elt (nth i0 l d) (nth j0 l d) else elt (nth j0 l d) (nth i0 l d)) (seq 0 (List.length l))).
    rewrite (nth_indep _ [] (row O)) by (rewrite map_length, seq_length; exact Hi).
    rewrite (nth_indep (map row _) [] (row O)) by (rewrite map_length, seq_length; exact Hj).
    rewrite !(map_nth row), !seq_nth by assumption. cbn [Nat.add]. unfold row.
    set (f1 := fun j0 => if Nat.leb i j0 then elt (nth i l d) (nth j0 l d) else elt (nth j0 l d) (nth i l d)).
    set (f2 := fun j0 => if Nat.leb j j0 then elt (nth j l d) (nth j0 l d) else elt (nth j0 l d) (nth j l d)).
    rewrite (nth_indep _ 0 (f1 O)) by (rewrite map_length, seq_length; exact Hj).
    rewrite (nth_indep (map f2 _) 0 (f2 O)) by (rewrite map_length, seq_length; exact Hi).
    rewrite (map_nth f1), (map_nth f2), !seq_nth by assumption. cbn [Nat.add]. unfold f1, f2.
    destruct (Nat.leb_spec i j), (Nat.leb_spec j i); try reflexivity; try lia.
    assert (i = j) by lia. subst. reflexivity.
  Qed.

  (* unit diagonal of the correlation matrix and diagonal of the covariance = squared errors *)
  Theorem corr_unit_diagonal c : 0 < c -> c / (rt c * rt c) == 1.
  Proof. intro H. rewrite rt_sq by exact H. field. lra. Qed.
  Theorem cov_diagonal_is_error_squared c err : 0 < c -> err * (c / (rt c * rt c)) * err == err * err.
  Proof. intro H. rewrite corr_unit_diagonal by exact H. ring. Qed.

  (* Cauchy-Schwarz: |sum a b| <= sqrt(sum a^2) sqrt(sum b^2); hence correlations lie in [-1, 1] *)
  Lemma cauchy_schwarz (l : list (Q * Q)) :
    let s := Qsum (map (fun p => fst p * snd p) l) in
    let a := Qsum (map (fun p => fst p * fst p) l) in
    let b := Qsum (map (fun p => snd p * snd p) l) in
    0 <= a /\ 0 <= b /\ s * s <= a * b.
  Proof.
    induction l as [|[x y] l IH]; cbv zeta.
    - cbn [map]. rewrite !Qsum_nil. repeat split; lra.
    - cbv zeta in IH. destruct IH as [Ha [Hb Hs]]. cbn [map fst snd]. rewrite !Qsum_cons.
      set (S := Qsum (map (fun p => fst p * snd p) l)) in *.
      set (A := Qsum (map (fun p => fst p * fst p) l)) in *.
      set (B := Qsum (map (fun p => snd p * snd p) l)) in *.
      assert (Hxx : 0 <= x * x) by apply Qsq_nonneg. assert (Hyy : 0 <= y * y) by apply Qsq_nonneg.
      repeat split; try lra.
      (* (xy + S)^2 <= (x^2 + A)(y^2 + B)  <=  2 x y S <= x^2 B + y^2 A *)
      assert (K : 2 * (x * y) * S <= x * x * B + y * y * A).
      { set (u := x * x * B + y * y * A). set (v := 2 * (x * y) * S).
        assert (Hu : 0 <= u) by (unfold u; assert (0 <= x * x * B) by (apply Qmult_le_0_compat; assumption); assert (0 <= y * y * A) by (apply Qmult_le_0_compat; assumption); lra).
        assert (Hvv : v * v <= u * u).
        { unfold u, v.
          assert (P0 : 0 <= 4 * ((x * x) * (y * y))) by (assert (0 <= (x * x) * (y * y)) by (apply Qmult_le_0_compat; assumption); lra).
          assert (P1 : 4 * ((x * x) * (y * y)) * (S * S) <= 4 * ((x * x) * (y * y)) * (A * B)).
          { set (k := 4 * ((x * x) * (y * y))) in *. apply Qmult_le_l_weak; assumption. }
          assert (P2 : 4 * ((x * x) * (y * y)) * (A * B) <= (x * x * B + y * y * A) * (x * x * B + y * y * A)).
          { assert (Sq : 0 <= (x * x * B - y * y * A) * (x * x * B - y * y * A)) by apply Qsq_nonneg.
            setoid_replace ((x * x * B + y * y * A) * (x * x * B + y * y * A))
              with ((x * x * B - y * y * A) * (x * x * B - y * y * A) + 4 * ((x * x) * (y * y)) * (A * B)) by ring. lra. }
          setoid_replace (2 * (x * y) * S * (2 * (x * y) * S)) with (4 * ((x * x) * (y * y)) * (S * S)) by ring. lra. }
        destruct (Qlt_le_dec u v) as [L|L]; [|exact L]. exfalso.
        assert (Hv0 : 0 <= v) by lra.
        assert (u * u < v * v).
        { apply Qle_lt_trans with (u * v); [apply Qmult_le_l_weak; lra|]. apply Qmult_lt_compat_r; lra. }
        lra. }
      setoid_replace ((x * y + S) * (x * y + S)) with (x * x * (y * y) + 2 * (x * y) * S + S * S) by ring.
      setoid_replace ((x * x + A) * (y * y + B)) with (x * x * (y * y) + (x * x * B + y * y * A) + A * B) by ring.
      lra.
  Qed.

  Theorem correlation_in_unit_interval (l : list (Q * Q)) :
    let s := Qsum (map (fun p => fst p * snd p) l) in
    let a := Qsum (map (fun p => fst p * fst p) l) in
    let b := Qsum (map (fun p => snd p * snd p) l) in
    0 < a * b -> Qabs (s / rt (a * b)) <= 1.
  Proof.
    cbv zeta. intro Hab. destruct (cauchy_schwarz l) as [Ha [Hb Hs]]. cbv zeta in Ha, Hb, Hs.
    set (s := Qsum (map (fun p => fst p * snd p) l)) in *. set (ab := Qsum _ * Qsum _) in *.
    pose proof (rt_pos ab Hab) as Hr. pose proof (rt_sq ab Hab) as Hq.
    apply Qabs_Qle_condition.
    assert (Hs2 : s * s <= rt ab * rt ab) by lra.
    assert (B1 : - rt ab <= s /\ s <= rt ab).
    { split.
      - destruct (Qlt_le_dec s (- rt ab)) as [L|L]; [|exact L]. exfalso. assert (rt ab * rt ab < s * s) by nra. lra.
      - destruct (Qlt_le_dec (rt ab) s) as [L|L]; [|exact L]. exfalso. assert (rt ab * rt ab < s * s) by nra. lra. }
    destruct B1 as [B1 B2]. split.
    - apply Qle_shift_div_l; [exact Hr | lra].
    - apply Qle_shift_div_r; [exact Hr | lra].
  Qed.
End Theorems.

(* sort_corr is the permutation induced by sorting the keys: if m[i][j] = f(x_i, x_j) for the data in key order, the
   result is the same function of the data arranged alphabetically *)
Theorem sort_corr_is_permutation {X} (f : X -> X -> Q) (xs : list X) (d : X) kl sizes i j :
  let mp := sort_mapping kl sizes in
  let m := map (fun a => map (fun b => f a b) xs) xs in
  (i < List.length mp)%nat -> (j < List.length mp)%nat ->
  (forall k, In k mp -> (k < List.length xs)%nat) ->
  nth j (nth i (sort_corr m kl sizes) []) 0 = f (nth (nth i mp O) xs d) (nth (nth j mp O) xs d).
Proof.
  cbv zeta. intros Hi Hj Hb. unfold sort_corr, permute_mat. set (mp := sort_mapping kl sizes) in *.
  set (m := map (fun a => map (fun b => f a b) xs) xs).
  set (row := fun i0 => map (fun j0 => nth j0 (nth i0 m []) 0) mp).
  rewrite (nth_indep _ [] (row O)) by (rewrite map_length; exact Hi).
  rewrite (map_nth row). unfold row.
  set (g := fun j0 => nth j0 (nth (nth i mp O) m []) 0).
  rewrite (nth_indep _ 0 (g O)) by (rewrite map_length; exact Hj).
  rewrite (map_nth g). unfold g, m.
  assert (Hi' : (nth i mp O < List.length xs)%nat) by (apply Hb; apply nth_In; exact Hi).
  assert (Hj' : (nth j mp O < List.length xs)%nat) by (apply Hb; apply nth_In; exact Hj).
  set (rowf := fun a => map (fun b => f a b) xs).
  rewrite (nth_indep _ [] (rowf d)) by (rewrite map_length; exact Hi').
  rewrite (map_nth rowf). unfold rowf.
  set (h := fun b => f (nth (nth i mp O) xs d) b).
  rewrite (nth_indep _ 0 (h d)) by (rewrite map_length; exact Hj').
  rewrite (map_nth h). reflexivity.
Qed.

(* eigenvalue smoothing: after dividing by the mean the eigenvalues sum to n (the trace of the result) *)
Theorem smoothing_normalises_the_trace (vals : list Q) :
  ~ Qsum vals == 0 -> vals <> [] ->
  Qsum (map (fun v => v / (Qsum vals / QlenL vals)) vals) == QlenL vals.
Proof.
  intros Hs Hne.
  assert (HL : 0 < QlenL vals).
  { destruct vals; [congruence|]. unfold QlenL. cbn [List.length]. unfold Qlt. simpl. lia. }
  assert (E : Qsum (map (fun v => v / (Qsum vals / QlenL vals)) vals) == Qsum (map (fun v => (QlenL vals / Qsum vals) * (fun w : Q => w) v) vals)).
  { apply Qsum_map_ext. intros v _. field. split; [exact Hs | lra]. }
  rewrite E. rewrite (Qsum_map_scale (QlenL vals / Qsum vals) (fun w : Q => w)). rewrite map_id. field. exact Hs.
Qed.

(* ------------------------------------------------------------------ the rational square root is accurate *)
Lemma qsqrt_nonneg x : 0 <= qsqrt x.
Proof.
  unfold qsqrt. destruct (Qleb x 0); [lra|]. rewrite Qred_correct. unfold Qle. simpl. rewrite Z.mul_1_r. apply Z.sqrt_nonneg.
Qed.

(* ------------------------------------------------------------------ correspondence verdicts *)
Record ccase := mkCCase { cc_obs : list obs; cc_errs : list Q; cc_cov : list (list Q); cc_corr : list (list Q); cc_rt : Q; cc_at : Q }.
Definition mat_close (rt at_ : Q) (a b : list (list Q)) : bool := all2 (close_list rt at_) a b.
Definition ccase_with (elt : obs -> obs -> Q) (c : ccase) : bool :=
  let c0 := cov0 elt (cc_obs c) in
  let cr := corr_of qsqrt c0 in
  mat_close (cc_rt c) (cc_rt c) cr (cc_corr c) && mat_close (cc_rt c) (cc_at c) (cov_of cr (cc_errs c)) (cc_cov c).
Definition ccase_model_ok (c : ccase) : bool := ccase_with (cov_element qsqrt) c.
Definition ccase_spec_ok (c : ccase) : bool :=
  ccase_with (cov_element_spec qsqrt) c
  (* symmetric, unit diagonal, entries in [-1, 1], diagonal = squared errors *)
  && (let n := List.length (cc_obs c) in
      forallb (fun i => forallb (fun j => closeb (cc_rt c) (cc_at c) (mnth (cc_cov c) i j) (mnth (cc_cov c) j i)
                                          && Qleb (Qabs (mnth (cc_corr c) i j)) (1 + cc_rt c)) (seq 0 n)
                        && closeb (cc_rt c) (cc_rt c) (mnth (cc_corr c) i i) 1
                        && closeb (cc_rt c) (cc_at c) (mnth (cc_cov c) i i) (nth i (cc_errs c) 0 * nth i (cc_errs c) 0)) (seq 0 n)).

Record scase := mkSCase { sc_m : list (list Q); sc_kl : list string; sc_sizes : list (string * nat); sc_impl : list (list Q) }.
Definition sizes_fn (l : list (string * nat)) (k : string) : nat :=
  match find (fun p => String.eqb (fst p) k) l with Some p => snd p | None => O end.
Definition scase_ok (c : scase) : bool := all2 (all2 Qeqb) (sort_corr (sc_m c) (sc_kl c) (sizes_fn (sc_sizes c))) (sc_impl c).
