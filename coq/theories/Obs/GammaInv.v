(* Invariances of the Gamma-method model (property C03): relabelling of configuration numbers, parameter
   precedence, bounds. *)
From Coq Require Import ZArith QArith Qabs List Bool String Lia Lqa.
From PV Require Import Base.QAux Obs.Model Obs.Gamma.
Import ListNotations.
Open Scope Q_scope.

(* ------------------------------------------------------------------ relabelling c -> a*c + b *)
Definition relabel_idl (a b : Z) (i : idl) : idl := mkIdl (isr i) (map (fun c => (a * c + b)%Z) (cfgs i)).
Definition relabel (a b : Z) (r : grep) : grep := mkGrep (relabel_idl a b (g_idl r)) (g_deltas r).

Lemma diffs_relabel a b l : diffs (map (fun c => (a * c + b)%Z) l) = map (fun d => (a * d)%Z) (diffs l).
Proof.
  induction l as [|x l IH]; [reflexivity|]. destruct l as [|y l]; [reflexivity|].
  cbn [map diffs] in *. rewrite IH. f_equal. lia.
Qed.

Lemma zmin_list_scale a l d : (0 < a)%Z -> zmin_list (map (fun x => (a * x)%Z) l) (a * d)%Z = (a * zmin_list l d)%Z.
Proof.
  intro Ha. induction l as [|x l IH]; [reflexivity|]. cbn [map zmin_list fold_right] in *. unfold zmin_list in IH. rewrite IH.
  rewrite Z.mul_min_distr_nonneg_l by lia. reflexivity.
Qed.

Lemma rep_gap_relabel a b r : (0 < a)%Z -> diffs (cfgs (g_idl r)) <> [] -> rep_gap (relabel a b r) = (a * rep_gap r)%Z.
Proof.
  intros Ha Hne. unfold rep_gap, relabel, relabel_idl. cbn [g_idl cfgs isr]. rewrite diffs_relabel.
  destruct (diffs (cfgs (g_idl r))) as [|d ds]; [congruence|]. cbn [map].
  destruct (isr (g_idl r)); [reflexivity|]. apply zmin_list_scale. exact Ha.
Qed.

Lemma zhd_relabel a b l : l <> [] -> zhd (map (fun c => (a * c + b)%Z) l) = (a * zhd l + b)%Z.
Proof. destruct l; [congruence | reflexivity]. Qed.
Lemma zlast_relabel a b l : l <> [] -> zlast (map (fun c => (a * c + b)%Z) l) = (a * zlast l + b)%Z.
Proof.
  intro H. unfold zlast. induction l as [|x l IH]; [congruence|]. destruct l as [|y l]; [reflexivity|].
  cbn [map last] in *. apply IH. discriminate.
Qed.

(* positions on the grid do not change: (a c + b - (a c0 + b)) / (a gap) = (c - c0) / gap *)
Lemma scatter_gap_relabel a b idx : forall deltas ret base gap, (0 < a)%Z -> (0 < gap)%Z ->
  scatter_gap ret (a * base + b) (a * gap) (map (fun c => (a * c + b)%Z) idx) deltas = scatter_gap ret base gap idx deltas.
Proof.
  induction idx as [|x idx IH]; intros [|d deltas] ret base gap Ha Hg; cbn [map scatter_gap]; try reflexivity.
  replace (a * x + b - (a * base + b))%Z with (a * (x - base))%Z by lia.
  rewrite Z.div_mul_cancel_l by lia. apply IH; assumption.
Qed.

Theorem expand_deltas_relabel a b deltas i gap :
  (0 < a)%Z -> (0 < gap)%Z -> cfgs i <> [] -> diffs (cfgs i) <> [] ->
  expand_deltas deltas (relabel_idl a b i) (a * gap) = expand_deltas deltas i gap.
Proof.
  intros Ha Hg Hne Hd. unfold expand_deltas.
  change (mkGrep (relabel_idl a b i) deltas) with (relabel a b (mkGrep i deltas)).
  rewrite rep_gap_relabel by assumption.
  assert (E : (a * rep_gap (mkGrep i deltas) =? a * gap)%Z = (rep_gap (mkGrep i deltas) =? gap)%Z).
  { destruct (Z.eqb_spec (rep_gap (mkGrep i deltas)) gap) as [->|Hn]; [apply Z.eqb_refl|].
    apply Z.eqb_neq. intro H. apply Z.mul_cancel_l in H; lia. }
  cbn [isr relabel_idl cfgs]. rewrite E. destruct (isr i && (rep_gap (mkGrep i deltas) =? gap)%Z); [reflexivity|].
  rewrite zhd_relabel, zlast_relabel by assumption.
  replace (a * zlast (cfgs i) + b - (a * zhd (cfgs i) + b) + a * gap)%Z with (a * (zlast (cfgs i) - zhd (cfgs i) + gap))%Z by lia.
  rewrite Z.div_mul_cancel_l by lia. apply scatter_gap_relabel; assumption.
Qed.

(* the extent in units of the gap is invariant (for lists it is the length of the expanded array) *)
Theorem r_length_relabel a b gap r :
  (0 < a)%Z -> (0 < gap)%Z -> cfgs (g_idl r) <> [] -> diffs (cfgs (g_idl r)) <> [] ->
  r_length (a * gap) (relabel a b r) = r_length gap r.
Proof.
  intros Ha Hg Hne Hd. unfold r_length. rewrite rep_gap_relabel by assumption.
  unfold relabel, relabel_idl. cbn [g_idl isr cfgs]. rewrite map_length.
  destruct (isr (g_idl r)).
  - replace (Z.of_nat (List.length (cfgs (g_idl r))) * (a * rep_gap r))%Z with (a * (Z.of_nat (List.length (cfgs (g_idl r))) * rep_gap r))%Z by lia.
    apply Z.div_mul_cancel_l; lia.
  - rewrite zhd_relabel, zlast_relabel by assumption.
    replace (a * zlast (cfgs (g_idl r)) + b - (a * zhd (cfgs (g_idl r)) + b) + a * gap)%Z with (a * (zlast (cfgs (g_idl r)) - zhd (cfgs (g_idl r)) + gap))%Z by lia.
    apply Z.div_mul_cancel_l; lia.
Qed.

(* ------------------------------------------------------------------ bounds *)
Lemma bias_ge_1 n N : (0 <= n)%Z -> 0 < N -> 1 <= bias n N.
Proof.
  intros Hn HN. unfold bias.
  assert (0 <= inject_Z n) by (change 0 with (inject_Z 0); rewrite <- Zle_Qle; exact Hn).
  assert (H1 : 0 < 1 + 1 / N). { assert (0 < 1 / N) by (apply Qlt_shift_div_l; lra). lra. }
  apply Qle_shift_div_l; [exact H1|].
  assert (1 / N <= (2 * inject_Z n + 1) / N).
  { unfold Qdiv. apply Qmult_le_compat_r; [lra|]. apply Qlt_le_weak. apply Qinv_lt_0_compat. exact HN. }
  lra.
Qed.

Lemma clip_gt_half (l : list Q) :
  Forall (fun t => 1 # 2 < t) (map (fun t => if Qleb t (1 # 2) then (1 # 2) + eps52 else t) l).
Proof.
  apply Forall_forall. intros x Hx. apply in_map_iff in Hx. destruct Hx as [t [<- _]].
  destruct (Qleb t (1 # 2)) eqn:E.
  - unfold eps52. assert (0 < 1 # 2 ^ 52) by reflexivity. lra.
  - destruct (Qlt_le_dec (1 # 2) t) as [L|L]; [exact L|]. apply Qleb_le in L. congruence.
Qed.

(* ------------------------------------------------------------------ parameter precedence and history *)
(* explicit argument over per-ensemble dictionary over global default *)
Definition effective (arg : option Q) (dict : list (string * Q)) (glob : Q) (e : string) : Q :=
  match arg with
  | Some v => v
  | None => match find (fun p => String.eqb (fst p) e) dict with Some p => snd p | None => glob end
  end.

Record gstate := mkGState { gs_S : Q; gs_tau : Q; gs_ns : Q; gs_Sd : list (string * Q); gs_taud : list (string * Q); gs_nsd : list (string * Q) }.
Inductive hop :=
| SetGlobal (which : nat) (v : Q)
| SetDict (which : nat) (e : string) (v : Q)
| DelDict (which : nat) (e : string)
| OtherAnalysis.            (* an analysis of the same or another object: does not touch the state *)

Definition dict_set (d : list (string * Q)) (e : string) (v : Q) := (e, v) :: filter (fun p => negb (String.eqb (fst p) e)) d.
Definition dict_del (d : list (string * Q)) (e : string) := filter (fun p => negb (String.eqb (fst p) e)) d.
Definition hstep (s : gstate) (o : hop) : gstate :=
  match o with
  | SetGlobal 0 v => mkGState v (gs_tau s) (gs_ns s) (gs_Sd s) (gs_taud s) (gs_nsd s)
  | SetGlobal 1 v => mkGState (gs_S s) v (gs_ns s) (gs_Sd s) (gs_taud s) (gs_nsd s)
  | SetGlobal _ v => mkGState (gs_S s) (gs_tau s) v (gs_Sd s) (gs_taud s) (gs_nsd s)
  | SetDict 0 e v => mkGState (gs_S s) (gs_tau s) (gs_ns s) (dict_set (gs_Sd s) e v) (gs_taud s) (gs_nsd s)
  | SetDict 1 e v => mkGState (gs_S s) (gs_tau s) (gs_ns s) (gs_Sd s) (dict_set (gs_taud s) e v) (gs_nsd s)
  | SetDict _ e v => mkGState (gs_S s) (gs_tau s) (gs_ns s) (gs_Sd s) (gs_taud s) (dict_set (gs_nsd s) e v)
  | DelDict 0 e => mkGState (gs_S s) (gs_tau s) (gs_ns s) (dict_del (gs_Sd s) e) (gs_taud s) (gs_nsd s)
  | DelDict 1 e => mkGState (gs_S s) (gs_tau s) (gs_ns s) (gs_Sd s) (dict_del (gs_taud s) e) (gs_nsd s)
  | DelDict _ e => mkGState (gs_S s) (gs_tau s) (gs_ns s) (gs_Sd s) (gs_taud s) (dict_del (gs_nsd s) e)
  | OtherAnalysis => s
  end.
Definition params_of (s : gstate) (aS atau ans : option Q) (e : string) : params :=
  mkParams (effective aS (gs_Sd s) (gs_S s) e) (effective atau (gs_taud s) (gs_tau s) e) (effective ans (gs_nsd s) (gs_ns s) e).

(* an analysis after ANY history depends only on the data and the effective parameters *)
Definition analysis_after (gws : Q -> Q -> Z -> Z -> option bool) (h : list hop) (s0 : gstate) (reps : list grep)
           (aS atau ans : option Q) (e : string) : aout :=
  analyse gws reps (params_of (fold_left hstep h s0) aS atau ans e).

Theorem history_irrelevant gws h1 h2 s1 s2 reps aS atau ans e :
  params_of (fold_left hstep h1 s1) aS atau ans e = params_of (fold_left hstep h2 s2) aS atau ans e ->
  analysis_after gws h1 s1 reps aS atau ans e = analysis_after gws h2 s2 reps aS atau ans e.
Proof. intro H. unfold analysis_after. rewrite H. reflexivity. Qed.

Theorem explicit_argument_wins v dict glob e : effective (Some v) dict glob e = v.
Proof. reflexivity. Qed.
Theorem dictionary_over_global dict glob e v :
  find (fun p => String.eqb (fst p) e) dict = Some (e, v) -> effective None dict glob e = v.
Proof. intro H. unfold effective. rewrite H. reflexivity. Qed.
Theorem global_when_no_entry dict glob e :
  find (fun p => String.eqb (fst p) e) dict = None -> effective None dict glob e = glob.
Proof. intro H. unfold effective. rewrite H. reflexivity. Qed.
Theorem other_analyses_do_not_change_parameters s n : fold_left hstep (repeat OtherAnalysis n) s = s.
Proof. induction n as [|n IH]; [reflexivity | exact IH]. Qed.

(* ------------------------------------------------------------------ the whole analysis is invariant under relabelling *)
Definition relabel_ok (a : Z) (r : grep) : Prop :=
  cfgs (g_idl r) <> [] /\ diffs (cfgs (g_idl r)) <> [] /\ (0 < rep_gap r)%Z.

Lemma determine_gap_relabel a b reps :
  (0 < a)%Z -> Forall (relabel_ok a) reps ->
  determine_gap (map (relabel a b) reps) = match determine_gap reps with Some g => Some (a * g)%Z | None => None end.
Proof.
  intros Ha Hok. unfold determine_gap. rewrite map_map.
  rewrite (map_ext_in (fun r => rep_gap (relabel a b r)) (fun r => (a * rep_gap r)%Z)).
  2:{ intros r Hr. rewrite Forall_forall in Hok. destruct (Hok r Hr) as [_ [Hd _]]. apply rep_gap_relabel; assumption. }
  rewrite <- (map_map rep_gap (fun g => (a * g)%Z)).
  assert (Hpos : Forall (fun g => (0 < g)%Z) (map rep_gap reps)).
  { apply Forall_forall. intros g Hg. apply in_map_iff in Hg. destruct Hg as [r [<- Hr]].
    rewrite Forall_forall in Hok. destruct (Hok r Hr) as [_ [_ Hp]]. exact Hp. }
  destruct (map rep_gap reps) as [|g gs]; [reflexivity|]. cbn [map].
  rewrite zmin_list_scale by exact Ha.
  set (gap := zmin_list gs g).
  assert (Hgap : (0 < gap)%Z).
  { unfold gap. inversion Hpos as [|? ? Hg Hgs]; subst. clear Hpos. revert Hgs. induction gs as [|x gs IH]; intro Hgs; [exact Hg|].
    inversion Hgs; subst. cbn [zmin_list fold_right]. apply Z.min_glb_lt; [assumption | apply IH; assumption]. }
  assert (E : forallb (fun gi => (gi mod (a * gap) =? 0)%Z) ((a * g)%Z :: map (fun g0 => (a * g0)%Z) gs)
              = forallb (fun gi => (gi mod gap =? 0)%Z) (g :: gs)).
  { change ((a * g)%Z :: map (fun g0 => (a * g0)%Z) gs) with (map (fun g0 => (a * g0)%Z) (g :: gs)).
    generalize (g :: gs) as l. induction l as [|x l IHl]; [reflexivity|]. cbn [map forallb]. rewrite IHl. f_equal.
    rewrite Z.mul_mod_distr_l by lia.
    destruct (Z.eqb_spec (x mod gap) 0) as [->|Hn]; [rewrite Z.mul_0_r; reflexivity|].
    apply Z.eqb_neq. intro H. apply Z.mul_eq_0 in H. lia. }
  rewrite E. destruct (forallb _ (g :: gs)); reflexivity.
Qed.

Lemma determine_gap_pos reps gap : Forall (fun r => (0 < rep_gap r)%Z) reps -> determine_gap reps = Some gap -> (0 < gap)%Z.
Proof.
  intros Hp. unfold determine_gap.
  assert (Hpos : Forall (fun g => (0 < g)%Z) (map rep_gap reps)).
  { apply Forall_forall. intros g Hg. apply in_map_iff in Hg. destruct Hg as [r [<- Hr]]. rewrite Forall_forall in Hp. apply Hp. exact Hr. }
  destruct (map rep_gap reps) as [|g gs]; [discriminate|].
  destruct (forallb _ _); [|discriminate]. intro H. injection H as <-.
  inversion Hpos as [|? ? Hg Hgs]; subst. clear Hpos. revert Hgs. induction gs as [|x gs IH]; intro Hgs; [exact Hg|].
  inversion Hgs; subst. cbn [zmin_list fold_right]. apply Z.min_glb_lt; [assumption | apply IH; assumption].
Qed.

(* shifting all configuration numbers of an ensemble by b (and, for range-type lists, multiplying them by a >= 1) leaves
   every result of the analysis unchanged *)
Theorem analysis_invariant_under_relabelling gws a b reps p :
  (0 < a)%Z -> Forall (relabel_ok a) reps ->
  analyse gws (map (relabel a b) reps) p = analyse gws reps p.
Proof.
  intros Ha Hok. unfold analyse. rewrite determine_gap_relabel by assumption.
  destruct (determine_gap reps) as [gap|] eqn:EG; [|reflexivity].
  assert (Hg : (0 < gap)%Z).
  { apply (determine_gap_pos reps); [|exact EG]. eapply Forall_impl; [|exact Hok]. intros r [_ [_ H]]. exact H. }
  rewrite Forall_forall in Hok.
  assert (H1 : map (r_length (a * gap)) (map (relabel a b) reps) = map (r_length gap) reps).
  { rewrite map_map. apply map_ext_in. intros r Hr. destruct (Hok r Hr) as [A [B _]]. apply r_length_relabel; assumption. }
  assert (H2 : fold_right (fun r acc => (List.length (cfgs (g_idl r)) + acc)%nat) O (map (relabel a b) reps)
               = fold_right (fun r acc => (List.length (cfgs (g_idl r)) + acc)%nat) O reps).
  { clear. induction reps as [|r reps IH]; [reflexivity|]. cbn [map fold_right]. rewrite IH.
    unfold relabel, relabel_idl. cbn [g_idl cfgs]. rewrite map_length. reflexivity. }
  assert (H3 : map (fun r => expand_deltas (g_deltas r) (g_idl r) (a * gap)) (map (relabel a b) reps)
               = map (fun r => expand_deltas (g_deltas r) (g_idl r) gap) reps).
  { rewrite map_map. apply map_ext_in. intros r Hr. destruct (Hok r Hr) as [A [B _]].
    unfold relabel. cbn [g_deltas g_idl]. apply expand_deltas_relabel; assumption. }
  assert (H4 : map (fun r => expand_deltas (map (fun _ => 1) (g_deltas r)) (g_idl r) (a * gap)) (map (relabel a b) reps)
               = map (fun r => expand_deltas (map (fun _ => 1) (g_deltas r)) (g_idl r) gap) reps).
  { rewrite map_map. apply map_ext_in. intros r Hr. destruct (Hok r Hr) as [A [B _]].
    unfold relabel. cbn [g_deltas g_idl]. apply expand_deltas_relabel; assumption. }
  rewrite H1, H2, H3, H4. reflexivity.
Qed.

(* before the repair of obs.py (fix commit recorded in known_findings.json) the list extent was (last - first + 1) // gap,
   which is not invariant under i -> a*i: with it, r_length 2 (relabel 2 0 r) <> r_length 1 r for r = {1,2,4,5,7,8}. *)
