(* Refinement theorems for the Gamma-method model: the zero-filled arrays and shifted dot products compute the sum over
   pairs of configurations t measurement steps apart (by configuration NUMBER); the windowing loop returns the first
   lag at which the criterion is negative; S = 0 is the naive error. *)
From Coq Require Import ZArith QArith Qabs List Bool Lia Lqa Sorted FinFun.
From PV Require Import Base.QAux Obs.Model Obs.DerivedThm Obs.Gamma.
Import ListNotations.
Open Scope Q_scope.

(* ------------------------------------------------------------------ expansion onto the grid *)
Definition aligned (idx : list Z) (base gap : Z) (L : nat) : Prop :=
  forall x, In x idx -> (base <= x)%Z /\ ((x - base) mod gap = 0)%Z /\ (Z.to_nat ((x - base) / gap) < L)%nat.

Lemma aligned_pos_eq x base gap k :
  (0 < gap)%Z -> (base <= x)%Z -> ((x - base) mod gap = 0)%Z ->
  (Z.to_nat ((x - base) / gap) = k <-> x = (base + Z.of_nat k * gap)%Z).
Proof.
  intros Hg Hb Hm.
  assert (E : (x - base = gap * ((x - base) / gap))%Z) by (apply Z_div_exact_full_2; lia).
  assert (Hq : (0 <= (x - base) / gap)%Z) by (apply Z.div_pos; lia).
  split; intro H.
  - subst k. rewrite Z2Nat.id by exact Hq. lia.
  - subst x. replace (base + Z.of_nat k * gap - base)%Z with (Z.of_nat k * gap)%Z by lia.
    rewrite Z.div_mul by lia. lia.
Qed.

Lemma scatter_gap_lookup idx : forall deltas ret base gap k,
  (0 < gap)%Z -> NoDup idx -> List.length idx = List.length deltas ->
  aligned idx base gap (List.length ret) -> (k < List.length ret)%nat ->
  qnth (scatter_gap ret base gap idx deltas) k =
  match lookup idx deltas (base + Z.of_nat k * gap)%Z with Some d => d | None => qnth ret k end.
Proof.
  induction idx as [|x idx IH]; intros deltas ret base gap k Hg Hnd Hl Hal Hk.
  - destruct deltas; reflexivity.
  - destruct deltas as [|d deltas]; [discriminate|].
    cbn [scatter_gap lookup]. inversion Hnd as [|? ? Hnotin Hnd']; subst.
    destruct (Hal x (or_introl eq_refl)) as [Hb [Hm Hp]].
    rewrite IH; auto.
    + destruct (Z.eqb_spec x (base + Z.of_nat k * gap)%Z) as [E|Hne].
      * assert (Hpk : Z.to_nat ((x - base) / gap) = k) by (apply aligned_pos_eq; auto).
        destruct (lookup idx deltas (base + Z.of_nat k * gap)%Z) eqn:L.
        -- exfalso. rewrite <- E in L. clear - L Hnotin Hl. simpl in Hl. injection Hl as Hl.
           revert deltas Hl L. induction idx as [|y idx IH2]; intros [|e deltas] Hl L; simpl in *; try discriminate.
           destruct (Z.eqb_spec y x) as [->|]; [apply Hnotin; left; reflexivity|].
           eapply IH2; eauto.
        -- rewrite Hpk. apply qnth_upd_same. exact Hk.
      * destruct (lookup idx deltas (base + Z.of_nat k * gap)%Z); [reflexivity|].
        apply qnth_upd_other. intro Hpk. apply Hne. apply aligned_pos_eq in Hpk; auto.
    + rewrite upd_length. intros y Hy. apply Hal. right. exact Hy.
    + rewrite upd_length. exact Hk.
Qed.

(* the zero-filled array holds, at slot k, the fluctuation of configuration first + k gap (0 where not measured) *)
Theorem expand_is_lookup deltas i gap k :
  (0 < gap)%Z -> incr (cfgs i) -> List.length (cfgs i) = List.length deltas -> cfgs i <> [] ->
  (forall x, In x (cfgs i) -> ((x - zhd (cfgs i)) mod gap = 0)%Z) ->
  (isr i && (rep_gap (mkGrep i deltas) =? gap)%Z = false) ->
  let L := Z.to_nat ((zlast (cfgs i) - zhd (cfgs i) + gap) / gap) in
  (k < L)%nat ->
  qnth (expand_deltas deltas i gap) k = lookup0 (cfgs i) deltas (zhd (cfgs i) + Z.of_nat k * gap)%Z.
Proof.
  intros Hg Hi Hl Hne Hal Hsc L Hk. unfold expand_deltas. rewrite Hsc.
  rewrite scatter_gap_lookup; auto.
  - unfold lookup0. destruct (lookup _ _ _); [reflexivity | apply qnth_zeros].
  - apply incr_NoDup. exact Hi.
  - rewrite zeros_length. intros x Hx. pose proof (incr_bounds _ _ Hi Hx) as [B1 B2].
    split; [exact B1|]. split; [apply Hal; exact Hx|]. fold L.
    assert (E : (x - zhd (cfgs i) = gap * ((x - zhd (cfgs i)) / gap))%Z) by (apply Z_div_exact_full_2; [lia | apply Hal; exact Hx]).
    assert (Hq : (0 <= (x - zhd (cfgs i)) / gap)%Z) by (apply Z.div_pos; lia).
    unfold L. apply Z2Nat.inj_lt; [exact Hq | apply Z.div_pos; lia |].
    apply Z.div_lt_upper_bound; [lia|].
    assert (M : (gap * ((zlast (cfgs i) - zhd (cfgs i) + gap) / gap) > zlast (cfgs i) - zhd (cfgs i))%Z).
    { pose proof (Z.mul_succ_div_gt (zlast (cfgs i) - zhd (cfgs i) + gap) gap Hg). lia. }
    nia.
  - rewrite zeros_length. exact Hk.
Qed.

(* ------------------------------------------------------------------ shifted dot product = sum over index pairs *)
Lemma dotq_cons x a y b : dotq (x :: a) (y :: b) == x * y + dotq a b.
Proof. cbn [dotq]. apply Qred_correct. Qed.

Lemma skipn_cons_nth (m : nat) : forall (l : list Q) y b, y :: b = skipn m l -> nth m l 0 = y /\ b = skipn (S m) l.
Proof.
  induction m as [|m IHm]; intros l y b H.
  - destruct l as [|x l]; [discriminate|]. cbn [skipn] in H. injection H as H1 H2. subst. split; reflexivity.
  - destruct l as [|x l]; [discriminate|]. cbn [skipn] in H. destruct (IHm l y b H) as [A B]. split; [exact A|].
    rewrite B. reflexivity.
Qed.

(* Gamma at lag n as computed by the code: sum over k of e[k] * e[k+n] *)
Lemma dotq_skipn_sum e : forall n,
  dotq e (skipn n e) == Qsum (map (fun k => nth k e 0 * nth (k + n) e 0) (seq 0 (List.length e - n))).
Proof.
  intro n. revert e.
  assert (G : forall (a b : list Q) m, (List.length b + m = List.length a)%nat -> b = skipn m a ->
          dotq a b == Qsum (map (fun k => nth k a 0 * nth (k + m) a 0) (seq 0 (List.length b)))).
  { intros a b m. revert a m. induction b as [|y b IH]; intros a m Hl Hb.
    - destruct a; reflexivity.
    - destruct a as [|x a]; [destruct m; discriminate|].
      rewrite dotq_cons. cbn [List.length seq map]. rewrite Qsum_cons.
      change (nth 0 (x :: a) 0) with x. change (0 + m)%nat with m.
      destruct (skipn_cons_nth m (x :: a) y b Hb) as [Hy Hb'].
      rewrite Hy. apply Qplus_comp; [reflexivity|]. cbn [skipn] in Hb'.
      rewrite (IH a m); [|simpl in Hl; lia | exact Hb'].
      rewrite <- seq_shift, map_map. apply Qsum_map_ext. intros k _. reflexivity. }
  intro e. destruct (Nat.le_gt_cases n (List.length e)) as [Hle|Hgt].
  - rewrite (G e (skipn n e) n); [rewrite skipn_length; reflexivity | rewrite skipn_length; lia | reflexivity].
  - rewrite skipn_all2 by lia. replace (List.length e - n)%nat with O by lia. destruct e; reflexivity.
Qed.

Theorem calc_gamma_nth e w n :
  (n < w)%nat -> (n <= List.length e)%nat ->
  nth n (calc_gamma e w) 0 == Qsum (map (fun k => nth k e 0 * nth (k + n) e 0) (seq 0 (List.length e - n))).
Proof.
  intros Hn Hle. unfold calc_gamma.
  rewrite (nth_map_any _ _ _ 0 O) by (rewrite seq_length; exact Hn).
  rewrite seq_nth by exact Hn. cbn [Nat.add].
  destruct (Nat.leb_spec n (List.length e)); [apply dotq_skipn_sum | lia].
Qed.

(* ------------------------------------------------------------------ from the grid to the configurations actually present *)
(* a sum over grid points of a function that vanishes off the measured configurations = the sum over the configurations *)
Lemma grid_sum_is_idl_sum (g : Z -> Q) (idx grid : list Z) :
  NoDup idx -> NoDup grid -> (forall x, In x idx -> In x grid) -> (forall x, ~ In x idx -> g x == 0) ->
  Qsum (map g grid) == Qsum (map g idx).
Proof.
  intros Hni Hng Hsub Hz.
  rewrite <- (Qsum_lookup0_subset idx (map g idx) grid); auto; [|rewrite map_length; reflexivity].
  apply Qsum_map_ext. intros x _. unfold lookup0.
  destruct (lookup idx (map g idx) x) eqn:L.
  - clear - L. revert L. induction idx as [|y idx IH]; simpl; [discriminate|].
    destruct (Z.eqb_spec y x) as [->|]; [intro H; injection H as <-; reflexivity | exact IH].
  - apply Hz. apply lookup_None_notin in L; [exact L | rewrite map_length; reflexivity].
Qed.

(* ------------------------------------------------------------------ windowing: first lag at which the criterion is negative *)
Theorem window_auto_first_negative gws fuel : forall n w_max N S nt W,
  window_auto gws fuel n w_max N S nt = Some W -> (n <= w_max - 1)%Z -> (Z.to_nat (w_max - 1 - n) < fuel)%nat ->
  (n <= W <= w_max - 1)%Z
  /\ (forall m, (n <= m < W)%Z -> gws (qnthz nt m) S m N = Some false)
  /\ (W = (w_max - 1)%Z \/ gws (qnthz nt W) S W N = Some true).
Proof.
  induction fuel as [|f IH]; intros n w_max N S nt W H Hn Hf; [lia|].
  cbn [window_auto] in H. destruct (Z.leb_spec (w_max - 1) n) as [Hle|Hlt].
  - injection H as <-. assert (n = (w_max - 1)%Z) by lia. subst n.
    split; [lia|]. split; [intros m Hm; lia | left; reflexivity].
  - destruct (gws (qnthz nt n) S n N) as [[|]|] eqn:E; [| |discriminate].
    + injection H as <-. split; [lia|]. split; [intros m Hm; lia | right; exact E].
    + apply IH in H; [|lia|lia]. destruct H as [H1 [H2 H3]]. split; [lia|]. split; [|exact H3].
      intros m Hm. destruct (Z.eq_dec m n) as [->|Hne]; [exact E | apply H2; lia].
Qed.

Theorem first_neg_spec fuel : forall n hi sign W,
  first_neg fuel n hi sign = Some W -> (n <= hi)%Z -> (Z.to_nat (hi - n) < fuel)%nat ->
  (n <= W <= hi)%Z /\ (forall m, (n <= m < W)%Z -> sign m = Some false) /\ (W = hi \/ sign W = Some true).
Proof.
  induction fuel as [|f IH]; intros n hi sign W H Hn Hf; [lia|].
  cbn [first_neg] in H. destruct (Z.leb_spec hi n) as [Hle|Hlt].
  - injection H as <-. assert (n = hi) by lia. subst n. split; [lia|]. split; [intros m Hm; lia | left; reflexivity].
  - destruct (sign n) as [[|]|] eqn:E; [| |discriminate].
    + injection H as <-. split; [lia|]. split; [intros m Hm; lia | right; exact E].
    + apply IH in H; [|lia|lia]. destruct H as [H1 [H2 H3]]. split; [lia|]. split; [|exact H3].
      intros m Hm. destruct (Z.eq_dec m n) as [->|Hne]; [exact E | apply H2; lia].
Qed.

(* the two formulations of the window search agree: the code's loop IS "first negative lag, else w_max - 1" *)
Theorem window_auto_eq_first_neg gws fuel : forall n w_max N S nt, (n <= w_max - 1)%Z ->
  window_auto gws fuel n w_max N S nt = first_neg fuel n (w_max - 1) (fun m => gws (qnthz nt m) S m N).
Proof.
  induction fuel as [|f IH]; intros n w_max N S nt Hn; [reflexivity|]. cbn [window_auto first_neg].
  destruct (Z.leb_spec (w_max - 1) n) as [Hle|Hlt]; [f_equal; lia|].
  destruct (gws (qnthz nt n) S n N) as [[|]|]; try reflexivity.
  apply IH. lia.
Qed.

(* the exact decision of  rho - N_sigma * drho < 0  from the squares *)
Theorem crit_neg_sound rho nsig d drho_sq :
  0 <= nsig -> 0 <= d -> d * d == drho_sq ->
  (crit_neg rho nsig drho_sq = true <-> rho - nsig * d < 0).
Proof.
  intros Hn Hd Hsq. unfold crit_neg. destruct (Qltb rho 0) eqn:E.
  - apply Qltb_lt in E. split; [intros _|reflexivity].
    assert (0 <= nsig * d) by (apply Qmult_le_0_compat; assumption). lra.
  - assert (Hr : 0 <= rho). { destruct (Qlt_le_dec rho 0) as [L|L]; [apply Qltb_lt in L; congruence | exact L]. }
    rewrite Qltb_lt. rewrite <- Hsq.
    assert (Hp : 0 <= nsig * d) by (apply Qmult_le_0_compat; assumption).
    setoid_replace (nsig * nsig * (d * d)) with ((nsig * d) * (nsig * d)) by ring.
    split; intro H.
    + destruct (Qlt_le_dec rho (nsig * d)) as [L|L]; [lra|]. exfalso.
      assert (nsig * d * (nsig * d) <= rho * rho) by (apply Qmult_le_compat_nonneg; split; assumption). lra.
    + assert (L : rho < nsig * d) by lra.
      destruct (Qeq_dec rho 0) as [Z0|NZ].
      * rewrite Z0. setoid_replace (0 * 0) with 0 by ring. apply Qmult_lt_0_compat; lra.
      * assert (0 < rho) by (destruct (Qle_lt_or_eq _ _ Hr) as [K|K]; [exact K | exfalso; apply NZ; symmetry; exact K]).
        apply Qle_lt_trans with (rho * (nsig * d)).
        -- apply Qmult_le_l; lra.
        -- apply Qmult_lt_r; lra.
Qed.

(* ------------------------------------------------------------------ Gamma(t) of the code = sum over pairs t steps apart *)
Lemma scatter_gap_length idx : forall deltas ret base gap, List.length (scatter_gap ret base gap idx deltas) = List.length ret.
Proof.
  induction idx as [|x idx IH]; intros [|d deltas] ret base gap; simpl; auto. rewrite IH. apply upd_length.
Qed.

Lemma lookup0_notin idx deltas c : List.length idx = List.length deltas -> ~ In c idx -> lookup0 idx deltas c = 0.
Proof.
  intros Hl Hn. unfold lookup0. destruct (lookup idx deltas c) eqn:L; [|reflexivity]. exfalso. apply Hn.
  clear Hn. revert deltas Hl L. induction idx as [|y idx IH]; intros [|e deltas] Hl L; simpl in *; try discriminate.
  destruct (Z.eqb_spec y c) as [->|]; [left; reflexivity | right; eapply IH; eauto].
Qed.

Lemma NoDup_grid base gap L : (0 < gap)%Z -> NoDup (map (fun k => (base + Z.of_nat k * gap)%Z) (seq 0 L)).
Proof.
  intro Hg. apply FinFun.Injective_map_NoDup; [|apply seq_NoDup].
  intros a b H. assert (Z.of_nat a * gap = Z.of_nat b * gap)%Z by lia. apply Z.mul_cancel_r in H0; lia.
Qed.

Lemma Qsum_zero {A} (f : A -> Q) l : (forall x, In x l -> f x == 0) -> Qsum (map f l) == 0.
Proof.
  intro H. induction l as [|x l IH]; [reflexivity|]. cbn [map]. rewrite Qsum_cons, H by (left; reflexivity).
  rewrite IH; [ring|]. intros y Hy. apply H. right. exact Hy.
Qed.

Theorem gamma_is_pair_sum deltas i gap n w :
  (0 < gap)%Z -> incr (cfgs i) -> List.length (cfgs i) = List.length deltas -> cfgs i <> [] ->
  (forall x, In x (cfgs i) -> ((x - zhd (cfgs i)) mod gap = 0)%Z) ->
  (isr i && (rep_gap (mkGrep i deltas) =? gap)%Z = false) ->
  (n < w)%nat -> (n <= Z.to_nat ((zlast (cfgs i) - zhd (cfgs i) + gap) / gap))%nat ->
  nth n (calc_gamma (expand_deltas deltas i gap) w) 0 == pair_sum dl (mkGrep i deltas) gap (Z.of_nat n).
Proof.
  intros Hg Hi Hl Hne Hal Hsc Hn HnL.
  set (base := zhd (cfgs i)) in *. set (lst := zlast (cfgs i)) in *.
  set (L := Z.to_nat ((lst - base + gap) / gap)) in *.
  set (e := expand_deltas deltas i gap).
  assert (He : List.length e = L).
  { unfold e, expand_deltas. rewrite Hsc. rewrite scatter_gap_length, zeros_length. reflexivity. }
  assert (Hek : forall k, (k < L)%nat -> nth k e 0 = lookup0 (cfgs i) deltas (base + Z.of_nat k * gap)%Z).
  { intros k Hk. apply (expand_is_lookup deltas i gap k); assumption. }
  assert (HLgt : (lst - base < gap * Z.of_nat L)%Z).
  { unfold L. rewrite Z2Nat.id.
    - pose proof (Z.mul_succ_div_gt (lst - base + gap) gap Hg). lia.
    - apply Z.div_pos; [|lia]. assert (In lst (cfgs i)).
      { unfold lst, zlast. destruct (cfgs i) as [|z l]; [congruence|]. apply last_In. }
      pose proof (incr_bounds _ _ Hi H) as [B _]. fold base in B. lia. }
  set (g := fun c : Z => lookup0 (cfgs i) deltas c * lookup0 (cfgs i) deltas (c + Z.of_nat n * gap)%Z).
  rewrite calc_gamma_nth by (try exact Hn; rewrite He; exact HnL). rewrite He.
  (* array entries -> lookups *)
  rewrite (Qsum_map_ext _ (fun k => g (base + Z.of_nat k * gap)%Z)).
  2:{ intros k Hk. apply in_seq in Hk. unfold g. rewrite !Hek by lia.
      replace (base + Z.of_nat (k + n) * gap)%Z with (base + Z.of_nat k * gap + Z.of_nat n * gap)%Z by lia. reflexivity. }
  (* extend the sum to the whole grid: the extra terms reach beyond the last configuration *)
  assert (Hext : Qsum (map (fun k => g (base + Z.of_nat k * gap)%Z) (seq 0 L))
                 == Qsum (map (fun k => g (base + Z.of_nat k * gap)%Z) (seq 0 (L - n)))).
  { replace L with ((L - n) + n)%nat at 1 by lia. rewrite seq_app, map_app, Qsum_app.
    rewrite (Qsum_zero _ (seq (0 + (L - n)) n)); [ring|].
    intros k Hk. apply in_seq in Hk. unfold g.
    rewrite (lookup0_notin (cfgs i) deltas (base + Z.of_nat k * gap + Z.of_nat n * gap)%Z); [ring | exact Hl |].
    intro Hin. pose proof (incr_bounds _ _ Hi Hin) as [_ B]. fold lst in B. nia. }
  rewrite <- Hext.
  rewrite <- (map_map (fun k => (base + Z.of_nat k * gap)%Z) g).
  rewrite (grid_sum_is_idl_sum g (cfgs i)).
  - unfold pair_sum, dl. cbn [g_idl g_deltas]. apply Qsum_map_ext. intros c _. rewrite Qred_correct. reflexivity.
  - apply incr_NoDup. exact Hi.
  - apply NoDup_grid. exact Hg.
  - intros x Hx. apply in_map_iff. pose proof (incr_bounds _ _ Hi Hx) as [B1 B2]. fold base in B1. fold lst in B2.
    exists (Z.to_nat ((x - base) / gap)). 
    assert (E : (x - base = gap * ((x - base) / gap))%Z) by (apply Z_div_exact_full_2; [lia | apply Hal; exact Hx]).
    assert (Hq : (0 <= (x - base) / gap)%Z) by (apply Z.div_pos; lia).
    split; [rewrite Z2Nat.id by exact Hq; lia|].
    apply in_seq. split; [lia|]. cbn [Nat.add]. apply Nat2Z.inj_lt. rewrite Z2Nat.id by exact Hq. nia.
  - intros x Hx. unfold g. rewrite (lookup0_notin (cfgs i) deltas x Hl Hx). ring.
Qed.

(* the pair count comes from the same computation on ones: at lag 0 it is the number of configurations *)
Lemma lookup_in_some idx : forall deltas c, List.length idx = List.length deltas -> In c idx -> exists d, lookup idx deltas c = Some d.
Proof.
  induction idx as [|y idx IH]; intros [|e deltas] c Hl Hin; simpl in *; try discriminate; [destruct Hin|].
  destruct (Z.eqb_spec y c) as [->|Hne]; [eexists; reflexivity|]. destruct Hin as [E|Hin]; [congruence|]. apply IH; [lia | exact Hin].
Qed.

Theorem pair_count_lag0 r gap :
  List.length (cfgs (g_idl r)) = List.length (g_deltas r) ->
  pair_sum present r gap 0 == QlenL (cfgs (g_idl r)).
Proof.
  intro Hl. unfold pair_sum.
  rewrite (Qsum_map_ext _ (fun _ => 1)).
  - rewrite Qsum_map_const. ring.
  - intros c Hc. rewrite Qred_correct. replace (c + 0 * gap)%Z with c by lia. unfold present.
    destruct (lookup_in_some _ _ c Hl Hc) as [d ->]. ring.
Qed.

(* ------------------------------------------------------------------ lag 0 and the naive error (S = 0) *)
Lemma map_lookup0_self l : forall ds, List.length ds = List.length l -> incr l -> map (lookup0 l ds) l = ds.
Proof.
  induction l as [|x l IHl]; intros [|d ds] Hlen Hi; try discriminate; [reflexivity|].
  simpl in Hlen. injection Hlen as Hlen. inversion Hi as [|? ? Hi' Hg]; subst.
  cbn [map]. unfold lookup0 at 1. cbn [lookup]. rewrite Z.eqb_refl. f_equal.
  rewrite <- (IHl ds Hlen Hi') at 2. apply map_ext_in. intros c Hc. unfold lookup0. cbn [lookup].
  rewrite Forall_forall in Hg. specialize (Hg c Hc). destruct (Z.eqb_spec x c); [lia | reflexivity].
Qed.

Lemma pair_sum_lag0 r gap :
  List.length (g_deltas r) = List.length (cfgs (g_idl r)) -> incr (cfgs (g_idl r)) ->
  pair_sum dl r gap 0 == Qsum (map (fun d => d * d) (g_deltas r)).
Proof.
  intros Hl Hi. unfold pair_sum, dl.
  rewrite (Qsum_map_ext _ (fun c => lookup0 (cfgs (g_idl r)) (g_deltas r) c * lookup0 (cfgs (g_idl r)) (g_deltas r) c)).
  2:{ intros c _. rewrite Qred_correct. replace (c + 0 * gap)%Z with c by lia. reflexivity. }
  rewrite <- (map_map (lookup0 (cfgs (g_idl r)) (g_deltas r)) (fun d => d * d)).
  rewrite map_lookup0_self by assumption. reflexivity.
Qed.

Definition rep_ok (r : grep) : Prop := List.length (g_deltas r) = List.length (cfgs (g_idl r)) /\ incr (cfgs (g_idl r)).

(* Gamma(0) = sum of squared fluctuations / number of configurations; with S = 0 the squared error is therefore
   sum delta^2 / (N (N - 1)): the naive standard error of the mean *)
Theorem gamma_spec_lag0 reps gap :
  Forall rep_ok reps -> 1 <= Qsum (map (fun r => QlenL (cfgs (g_idl r))) reps) ->
  gamma_spec reps gap 0 ==
  Qsum (map (fun r => Qsum (map (fun d => d * d) (g_deltas r))) reps) / Qsum (map (fun r => QlenL (cfgs (g_idl r))) reps).
Proof.
  intros Hok HN. unfold gamma_spec. rewrite Qred_correct. rewrite Forall_forall in Hok.
  assert (E1 : Qsum (map (fun r => pair_sum dl r gap 0) reps) == Qsum (map (fun r => Qsum (map (fun d => d * d) (g_deltas r))) reps)).
  { apply Qsum_map_ext. intros r Hr. destruct (Hok r Hr). apply pair_sum_lag0; assumption. }
  assert (E2 : Qsum (map (fun r => pair_sum present r gap 0) reps) == Qsum (map (fun r => QlenL (cfgs (g_idl r))) reps)).
  { apply Qsum_map_ext. intros r Hr. destruct (Hok r Hr) as [A _]. apply pair_count_lag0. symmetry. exact A. }
  set (np := Qsum (map (fun r => pair_sum present r gap 0) reps)) in *.
  destruct (Qltb np 1) eqn:L.
  - apply Qltb_lt in L. rewrite E2 in L. lra.
  - rewrite E1, E2. reflexivity.
Qed.

(* ------------------------------------------------------------------ _compute_drho: the three slices are the index form *)
Lemma nth_firstn_lt {A} (l : list A) d : forall n i, (i < n)%nat -> nth i (firstn n l) d = nth i l d.
Proof. induction l as [|x l IH]; intros [|n] [|i] H; simpl; try lia; auto. apply IH. lia. Qed.
Lemma nth_skipn_add {A} (l : list A) d : forall n i, nth i (skipn n l) d = nth (n + i) l d.
Proof. induction l as [|x l IH]; intros [|n] i; simpl; auto. destruct i; reflexivity. Qed.

Lemma firstn_skipn_seq (l : list Q) a m : (a + m <= List.length l)%nat ->
  firstn m (skipn a l) = map (fun k => nth (a + k) l 0) (seq 0 m).
Proof.
  intro H. apply (nth_ext _ _ 0 0).
  - rewrite firstn_length, skipn_length, map_length, seq_length. lia.
  - intros n Hn. rewrite firstn_length, skipn_length in Hn.
    rewrite nth_firstn_lt by lia. rewrite nth_skipn_add.
    rewrite (nth_map_any _ _ _ 0 O) by (rewrite seq_length; lia). rewrite seq_nth by lia. reflexivity.
Qed.

Lemma slice_fwd_map l a b :
  (0 <= a <= b)%Z -> (b <= Z.of_nat (List.length l))%Z ->
  slice_fwd l a b = map (fun k => qnthz l (a + Z.of_nat k - 1)%Z) (seq 1 (Z.to_nat (b - a))).
Proof.
  intros Hab Hb. unfold slice_fwd, pyidx.
  destruct (Z.ltb_spec a 0); [lia|]. destruct (Z.ltb_spec b 0); [lia|].
  rewrite !Z.min_r by lia. rewrite firstn_skipn_seq by lia.
  rewrite <- seq_shift, map_map. apply map_ext_in. intros k Hk. apply in_seq in Hk. unfold qnthz.
  destruct (Z.ltb_spec (a + Z.of_nat (S k) - 1) 0); [lia|]. f_equal. lia.
Qed.

Lemma map_seq_from (f : nat -> Q) s m : map f (seq s m) = map (fun k => f (s + k)%nat) (seq 0 m).
Proof.
  revert s f. induction m as [|m IH]; intros s f; [reflexivity|]. cbn [seq map]. f_equal; [f_equal; lia|].
  rewrite (IH (S s)), (IH 1%nat). apply map_ext. intro k. f_equal. lia.
Qed.

Fixpoint vcomb3_map {K} (l : list K) (a b c : K -> Q) (f : Q -> Q -> Q -> Q) {struct l} :
  vcomb3 (map a l) (map b l) (map c l) f = map (fun k => f (a k) (b k) (c k)) l.
Proof. destruct l as [|k l]; [reflexivity|]. cbn [map vcomb3]. f_equal. apply vcomb3_map. Qed.

Theorem compute_drho_is_index_form rho w N i :
  Z.of_nat (List.length rho) = w -> (1 <= i < w)%Z ->
  compute_drho_sq rho w N i == drho_sq_spec (qnthz rho) w N i.
Proof.
  intros Hlen Hi. unfold compute_drho_sq, drho_sq_spec. rewrite !Qred_correct.
  apply Qmult_comp; [|reflexivity].
  set (K := seq 1 (Z.to_nat (w - i - 1))).
  assert (T1 : slice_fwd rho (i + 1) w = map (fun k => qnthz rho (i + Z.of_nat k)%Z) K).
  { rewrite slice_fwd_map by lia. replace (w - (i + 1))%Z with (w - i - 1)%Z by lia. fold K.
    apply map_ext. intro k. f_equal. lia. }
  assert (T3 : slice_fwd rho 1 (w - i) = map (fun k => qnthz rho (Z.of_nat k)) K).
  { rewrite slice_fwd_map by lia. replace (w - i - 1)%Z with (w - i - 1)%Z by lia. fold K.
    apply map_ext. intro k. f_equal. lia. }
  assert (T2 : (slice_rev rho (i - 1) (if (i - (w - 1) / 2 <=? 0)%Z then None else Some (2 * i - 2 * w / 2)%Z)
                ++ slice_fwd rho 1 (Z.max 1 (w - 2 * i))) = map (fun k => qnthz rho (Z.abs (i - Z.of_nat k))) K).
  { replace (2 * w / 2)%Z with w by (rewrite Z.mul_comm, Z.div_mul; lia).
    destruct (Z.leb_spec (i - (w - 1) / 2) 0) as [C|C].
    - (* i <= (w-1)//2 : i-1 down to 0, then rho[1 : w-2i] *)
      assert (H2i : (2 * i <= w - 1)%Z).
      { pose proof (Z.mul_div_le (w - 1) 2). lia. }
      unfold slice_rev. destruct (Z.ltb_spec (i - 1) 0); [lia|]. rewrite Z.min_r by lia.
      replace (i - 1 - -1)%Z with i by lia.
      rewrite slice_fwd_map by lia. rewrite Z.max_r by lia.
      unfold K. replace (Z.to_nat (w - i - 1)) with (Z.to_nat i + Z.to_nat (w - 2 * i - 1))%nat by lia.
      rewrite seq_app, map_app. f_equal.
      + rewrite (map_seq_from _ 1). apply map_ext_in. intros k Hk. apply in_seq in Hk. f_equal. lia.
      + rewrite (map_seq_from _ 1), (map_seq_from _ (1 + Z.to_nat i)). apply map_ext_in. intros k Hk. apply in_seq in Hk. f_equal. lia.
    - (* i > (w-1)//2 : i-1 down to 2i-w+1, second slice empty *)
      assert (H2i : (w <= 2 * i)%Z).
      { pose proof (Z.mul_succ_div_gt (w - 1) 2). lia. }
      unfold slice_rev. destruct (Z.ltb_spec (i - 1) 0); [lia|]. rewrite Z.min_r by lia.
      destruct (Z.ltb_spec (2 * i - w) 0); [lia|]. rewrite (Z.min_r _ (2 * i - w)) by lia.
      replace (i - 1 - (2 * i - w))%Z with (w - i - 1)%Z by lia.
      rewrite Z.max_l by lia. rewrite slice_fwd_map by lia. replace (Z.to_nat (1 - 1)) with O by lia. cbn [seq map].
      rewrite app_nil_r. unfold K. rewrite (map_seq_from _ 1). apply map_ext_in. intros k Hk. apply in_seq in Hk. f_equal. lia. }
  rewrite T1, T2, T3. rewrite vcomb3_map. apply Qsum_map_ext. intros k _. cbv zeta. reflexivity.
Qed.

(* ------------------------------------------------------------------ the FFT path: with the code's padding the circular
   autocorrelation of the zero-padded array (what irfft(|rfft(x, P)|^2) computes) is the linear one for every lag kept *)
Definition circ_autocorr (x : list Q) (P n : nat) : Q :=
  Qsum (map (fun i => nth i x 0 * nth ((i + n) mod P) x 0) (seq 0 P)).
Definition fft_padding (L w_max : nat) : nat := let m := Nat.min L w_max in L + m + (L + m) mod 2.

Theorem fft_padding_sufficient x P n m :
  (n < m)%nat -> (List.length x + m <= P)%nat ->
  circ_autocorr x P n == Qsum (map (fun k => nth k x 0 * nth (k + n) x 0) (seq 0 (List.length x - n))).
Proof.
  intros Hn HP. unfold circ_autocorr. set (L := List.length x) in *.
  assert (E : seq 0 P = seq 0 (L - n) ++ seq (0 + (L - n)) (P - (L - n))) by (rewrite <- seq_app; f_equal; lia).
  rewrite E, map_app, Qsum_app.
  rewrite (Qsum_zero _ (seq (0 + (L - n)) (P - (L - n)))).
  - rewrite Qplus_0_r. apply Qsum_map_ext. intros k Hk. apply in_seq in Hk.
    rewrite Nat.mod_small by lia. reflexivity.
  - intros i Hi. apply in_seq in Hi. destruct (Nat.lt_ge_cases i L) as [Hlt|Hge].
    + rewrite Nat.mod_small by lia. rewrite (nth_overflow x 0 (n := (i + n)%nat)) by (fold L; lia). ring.
    + rewrite (nth_overflow x 0 (n := i)) by (fold L; lia). ring.
Qed.

Theorem code_padding_is_sufficient_and_even L w_max :
  (L + Nat.min L w_max <= fft_padding L w_max)%nat /\ (fft_padding L w_max mod 2 = 0)%nat.
Proof.
  unfold fft_padding. set (s := (L + Nat.min L w_max)%nat). split; [lia|].
  pose proof (Nat.mod_upper_bound s 2). pose proof (Nat.div_mod s 2).
  destruct (s mod 2)%nat as [|[|k]] eqn:E; try lia.
  - rewrite Nat.add_0_r. exact E.
  - replace (s + 1)%nat with (2 * (s / 2 + 1))%nat by lia. rewrite Nat.mul_comm. apply Nat.mod_mul. lia.
Qed.
