(* Verdicts of the Gamma-method correspondence, with the windowing sign supplied by verified interval enclosures. *)
From Coq Require Import ZArith QArith List Bool.
From PV Require Import Base.QAux Base.RI Obs.Model Obs.Gamma.
Import ListNotations.

Definition gcase_model_ok (c : gcase) : bool := aout_agree (gc_rt c) (gc_at c) (analyse gw_sign (gc_reps c) (gc_params c)) (gc_impl c).
Definition gcase_spec_ok (c : gcase) : bool := aout_agree (gc_rt c) (gc_at c) (spec_analyse gw_sign (gc_reps c) (gc_params c)) (gc_impl c).
Definition gcase_not_tie (c : gcase) : bool := negb (is_tie (analyse gw_sign (gc_reps c) (gc_params c))).

(* total error of an observable: per-ensemble results (computed by the model) and covariance inputs *)
Record tcase := mkTC { tc_ens : list (list grep * params); tc_covs : list cov; tc_dvalue : Q; tc_ddvalue : Q; tc_rt : Q; tc_at : Q }.
Definition tcase_ok (c : tcase) : bool :=
  let rs := map (fun e => analyse gw_sign (fst e) (snd e)) (tc_ens c) in
  if existsb (fun a => match a with AOk _ => false | _ => true end) rs then true
  else
    let es := flat_map (fun a => match a with AOk r => [r] | _ => [] end) rs in
    closeb (tc_rt c) (tc_at c * tc_at c) (total_dvalue_sq es (tc_covs c)) (tc_dvalue c * tc_dvalue c)
    && closeb (tc_rt c) (tc_at c * tc_at c) (total_ddvalue_sq es (tc_covs c)) (tc_ddvalue c * tc_ddvalue c).
