(* Verdicts of the Gamma-method correspondence, with the windowing sign supplied by verified interval enclosures. *)
From Coq Require Import ZArith QArith List Bool.
From PV Require Import Base.QAux Base.RI Obs.Model Obs.Gamma.
Import ListNotations.

Definition gcase_model_ok (c : gcase) : bool := aout_agree (gc_rt c) (gc_at c) (analyse gw_sign (gc_reps c) (gc_params c)) (gc_impl c).
Definition gcase_spec_ok (c : gcase) : bool := aout_agree (gc_rt c) (gc_at c) (spec_analyse gw_sign (gc_reps c) (gc_params c)) (gc_impl c).
Definition gcase_not_tie (c : gcase) : bool := negb (is_tie (analyse gw_sign (gc_reps c) (gc_params c))).

(* total error of an observable: per-ensemble results (computed by the model) and covariance inputs *)
Record tcase := mkTC { tc_ens : list (list grep * params); tc_covs : list cov; tc_dvalue : Q; tc_ddvalue : Q; tc_rt : Q; tc_at : Q }.
Definition tcase_ok (c : tcase) : bool :=
  let rs := map (fun e => analyse gw_sign (fst e) (snd e)) (tc_ens c) in
  if existsb (fun a => match a with AOk _ => false | _ => true end) rs then true
  else
    let es := flat_map (fun a => match a with AOk r => [r] | _ => [] end) rs in
    closeb (tc_rt c) (tc_at c * tc_at c) (total_dvalue_sq es (tc_covs c)) (tc_dvalue c * tc_dvalue c)
    && closeb (tc_rt c) (tc_at c * tc_at c) (total_ddvalue_sq es (tc_covs c)) (tc_ddvalue c * tc_ddvalue c).

(* ------------------------------------------------------------------ C03: metamorphic pairs and parameter precedence *)
From PV Require Import Obs.GammaInv.
From Coq Require Import String.
(* two analyses of the implementation that the property relates: b must equal a, with errors scaled by [factor] *)
Record mcase := mkMCase { m_factor : Q; m_a : gimpl; m_b : gimpl; m_rt : Q; m_at : Q }.
Definition mcase_ok (c : mcase) : bool :=
  let a := m_a c in let b := m_b c in let f := m_factor c in
  if gi_raised a || gi_raised b then Bool.eqb (gi_raised a) (gi_raised b)
  else
    Z.eqb (gi_W a) (gi_W b)
    && closeb (m_rt c) (m_at c) (gi_tauint a) (gi_tauint b) && closeb (m_rt c) (m_at c) (gi_dtauint a) (gi_dtauint b)
    && closeb (m_rt c) (m_at c * f) (f * gi_dvalue a) (gi_dvalue b) && closeb (m_rt c) (m_at c * f) (f * gi_ddvalue a) (gi_ddvalue b)
    && close_list (m_rt c) (m_at c) (gi_rho a) (gi_rho b) && close_list (m_rt c) (m_at c) (gi_drho a) (gi_drho b)
    && close_list (m_rt c) (m_at c) (gi_n_tauint a) (gi_n_tauint b) && close_list (m_rt c) (m_at c) (gi_n_dtauint a) (gi_n_dtauint b)
    (* tau_int >= 1/2 and all reported errors non-negative *)
    && Qleb (1 # 2) (gi_tauint a) && Qleb 0 (gi_dtauint a) && Qleb 0 (gi_dvalue a) && Qleb 0 (gi_ddvalue a)
    && forallb (Qleb 0) (gi_drho a).

(* parameter precedence after a history of changes to the global and per-ensemble parameters *)
Record hcase := mkHCase { h_state0 : gstate; h_ops : list hop; h_args : option Q * option Q * option Q; h_ens : string;
                          h_impl : params }.
Definition params_eqb (a b : params) : bool := Qeqb (p_S a) (p_S b) && Qeqb (p_tau_exp a) (p_tau_exp b) && Qeqb (p_N_sigma a) (p_N_sigma b).
Definition hcase_ok (c : hcase) : bool :=
  match h_args c with (aS, atau, ans) =>
    params_eqb (params_of (fold_left hstep (h_ops c) (h_state0 c)) aS atau ans (h_ens c)) (h_impl c) end.
