(* Case records and verdict functions of the correspondence checks on observables. *)
From Coq Require Import ZArith QArith List Bool String.
From PV Require Import Base.QAux Obs.Model Obs.Derived.
Import ListNotations.
Open Scope Q_scope.

Record dcase := mkCase {
  dc_ops : list obs; dc_val : Q; dc_rvals : list (string * Q); dc_gs : list Q;
  dc_impl : obs; dc_rt : Q; dc_at : Q }.

(* model verdict: the code-shaped model reproduces the implementation's result *)
Definition dcase_model_ok (c : dcase) : bool :=
  obs_agree (dc_rt c) (dc_at c) (dc_impl c) (derived (dc_ops c) (dc_val c) (dc_rvals c) (dc_gs c)).

(* spec verdict: the implementation's result is what the property says *)
Definition dcase_spec_ok (c : dcase) : bool :=
  spec_judge (dc_rt c) (dc_at c) (dc_ops c) (dc_val c) (dc_gs c) (dc_impl c)
  && all2 (fun r p => String.eqb (r_name r) (fst p) && closeb (dc_rt c) (dc_at c) (r_mean r) (snd p)) (o_reps (dc_impl c)) (dc_rvals c)
  && all2 (fun cv n => String.eqb (c_name cv) n
            && all2 (fun k g => closeb (dc_rt c) (dc_at c) g (spec_covgrad n k (dc_gs c) (dc_ops c)))
                    (seq 0 (List.length (c_grad cv))) (c_grad cv))
          (o_covs (dc_impl c)) (all_cov_names (dc_ops c)).

(* the same without the replica means: results of fits and root finders carry replica means rescaled linearly from
   their first input (fits.py / roots.py), which no property constrains *)
Definition dcase_spec_core (c : dcase) : bool :=
  spec_judge (dc_rt c) (dc_at c) (dc_ops c) (dc_val c) (dc_gs c) (dc_impl c)
  && all2 (fun cv n => String.eqb (c_name cv) n
            && all2 (fun k g => closeb (dc_rt c) (dc_at c) g (spec_covgrad n k (dc_gs c) (dc_ops c)))
                    (seq 0 (List.length (c_grad cv))) (c_grad cv))
          (o_covs (dc_impl c)) (all_cov_names (dc_ops c)).
