(* The shared data model of an observable (DESIGN §3) and the code's list/array helpers,
   transcribed line by line from pyerrors/obs.py.  Everything is executable (vm_compute). *)
From Coq Require Import ZArith QArith Qabs List Bool String Ascii Lia.
From PV Require Import Base.QAux.
Import ListNotations.
Open Scope Z_scope.

(* ---------------------------------------------------------------- configuration lists *)
(* A Python [range] or [list] of configuration numbers.  [isr] records which of the two it is;
   [cfgs] is its enumeration.  Python compares two ranges as sequences, two lists as sequences,
   and a range is never equal to a list (_check_lists_equal relies on ==). *)
Record idl := mkIdl { isr : bool; cfgs : list Z }.

Fixpoint zlist_eqb (a b : list Z) : bool :=
  match a, b with
  | [], [] => true
  | x :: r, y :: s => Z.eqb x y && zlist_eqb r s
  | _, _ => false
  end.

Lemma zlist_eqb_eq a b : zlist_eqb a b = true <-> a = b.
Proof.
  revert b; induction a as [|x a IH]; destruct b as [|y b]; simpl; split; try congruence; auto.
  - intro H. apply andb_true_iff in H. destruct H as [H1 H2]. apply Z.eqb_eq in H1. apply IH in H2. congruence.
  - intro H. injection H as -> ->. rewrite Z.eqb_refl. simpl. apply IH. reflexivity.
Qed.

Definition idl_eqb (a b : idl) : bool := Bool.eqb (isr a) (isr b) && zlist_eqb (cfgs a) (cfgs b).

(* _check_lists_equal: all elements identical *)
Definition all_idl_equal (l : list idl) : bool :=
  match l with [] => true | x :: r => forallb (idl_eqb x) r end.

(* sorted, duplicate free union of two strictly increasing lists (sorted(set().union(..))) *)
Fixpoint zmerge (a : list Z) : list Z -> list Z :=
  fix inner (b : list Z) : list Z :=
    match a, b with
    | [], _ => b
    | _, [] => a
    | x :: a', y :: b' =>
        if x <? y then x :: zmerge a' b
        else if y <? x then y :: inner b'
        else x :: zmerge a' b'
    end.

Definition zunion (ls : list (list Z)) : list Z := fold_left zmerge ls [].

Fixpoint zinter (a : list Z) : list Z -> list Z :=
  fix inner (b : list Z) : list Z :=
    match a, b with
    | [], _ => []
    | _, [] => []
    | x :: a', y :: b' =>
        if x <? y then zinter a' b
        else if y <? x then inner b'
        else x :: zinter a' b'
    end.

(* list(range(start, stop, step)) for step > 0 *)
Fixpoint zrange_n (start step : Z) (n : nat) : list Z :=
  match n with O => [] | S k => start :: zrange_n (start + step) step k end.
Definition zrange (start stop step : Z) : list Z :=
  if step <=? 0 then [] else zrange_n start step (Z.to_nat ((stop - start + step - 1) / step)).

Definition zhd (l : list Z) : Z := hd 0 l.
Definition zlast (l : list Z) : Z := last l 0.
Definition znth (l : list Z) (i : nat) : Z := nth i l 0.

(* _merge_idx *)
Definition merge_idx (l : list idl) : idl :=
  if all_idl_equal l then hd (mkIdl false []) l
  else
    let u := zunion (map cfgs l) in
    let r := zrange (zhd u) (zlast u + 1) (znth u 1 - zhd u) in
    if zlist_eqb r u then mkIdl true u else mkIdl false u.

(* all consecutive differences equal (np.unique(np.diff(idx)) has one element) *)
Fixpoint diffs (l : list Z) : list Z :=
  match l with
  | x :: ((y :: _) as r) => (y - x) :: diffs r
  | _ => []
  end.
Definition uniform (l : list Z) : bool :=
  match diffs l with [] => false | d :: r => forallb (Z.eqb d) r end.
Definition strictly_increasing (l : list Z) : bool := forallb (fun d => 0 <? d) (diffs l).

(* what Obs.__init__ stores for an idl argument: ranges stay, lists become ranges iff equally spaced *)
Definition norm_idl (i : idl) : idl :=
  if isr i then i else if uniform (cfgs i) then mkIdl true (cfgs i) else i.

(* ---------------------------------------------------------------- arrays of rationals *)
Open Scope Q_scope.

Fixpoint upd (l : list Q) (i : nat) (v : Q) : list Q :=
  match l, i with
  | [], _ => []
  | _ :: r, O => v :: r
  | x :: r, S k => x :: upd r k v
  end.
Definition qnth (l : list Q) (i : nat) : Q := nth i l 0.
Definition zeros (n : nat) : list Q := repeat 0 n.

(* ret[idx[i] - base] = deltas[i] for i in range(shape) *)
Fixpoint scatter (ret : list Q) (base : Z) (idx : list Z) (deltas : list Q) : list Q :=
  match idx, deltas with
  | c :: idx', d :: deltas' => scatter (upd ret (Z.to_nat (c - base)) d) base idx' deltas'
  | _, _ => ret
  end.

(* the value stored for configuration c, the spec's view of (idx, deltas) *)
Fixpoint lookup (idx : list Z) (deltas : list Q) (c : Z) : option Q :=
  match idx, deltas with
  | x :: idx', d :: deltas' => if Z.eqb x c then Some d else lookup idx' deltas' c
  | _, _ => None
  end.
Definition lookup0 idx deltas c : Q := match lookup idx deltas c with Some d => d | None => 0 end.

Definition Qlen {A} (l : list A) : Q := inject_Z (Z.of_nat (List.length l)).

(* _expand_deltas_for_merge *)
Definition expand_for_merge (deltas : list Q) (idx new_idx : idl) (sf : Q) : list Q :=
  if isr idx && isr new_idx && zlist_eqb (cfgs idx) (cfgs new_idx) then
    (if Qeqb sf 1 then deltas else map (fun d => d * sf) deltas)
  else
    let base := zhd (cfgs new_idx) in
    let ret := scatter (zeros (Z.to_nat (zlast (cfgs new_idx) - base + 1))) base (cfgs idx) deltas in
    map (fun c => qnth ret (Z.to_nat (c - base)) * Qlen (cfgs new_idx) / Qlen (cfgs idx) * sf) (cfgs new_idx).

(* ---------------------------------------------------------------- names *)
Definition bar : ascii := "|"%char.
Fixpoint ens_of (s : string) : string :=          (* s.split('|')[0] *)
  match s with
  | EmptyString => EmptyString
  | String c r => if Ascii.eqb c bar then EmptyString else String c (ens_of r)
  end.
Fixpoint starts_with (p s : string) : bool :=
  match p, s with
  | EmptyString, _ => true
  | String a p', String b s' => Ascii.eqb a b && starts_with p' s'
  | _, _ => false
  end.
Definition has_bar (s : string) : bool := negb (String.eqb (ens_of s) s).

Fixpoint sinsert (s : string) (l : list string) : list string :=
  match l with
  | [] => [s]
  | x :: r => if String.eqb s x then l else if String.ltb s x then s :: l else x :: sinsert s r
  end.
Definition ssort_set (l : list string) : list string := fold_right sinsert [] l.   (* sorted(set(l)) *)
Definition smem (s : string) (l : list string) : bool := existsb (String.eqb s) l.

(* ---------------------------------------------------------------- observables *)
Record rep := mkRep { r_name : string; r_idl : idl; r_deltas : list Q; r_mean : Q }.
Record cov := mkCov { c_name : string; c_cov : list (list Q); c_grad : list Q }.
Record obs := mkObs { o_value : Q; o_reps : list rep; o_covs : list cov; o_rw : bool }.

Definition find_rep (o : obs) (n : string) : option rep :=
  find (fun r => String.eqb (r_name r) n) (o_reps o).
Definition find_cov (o : obs) (n : string) : option cov :=
  find (fun c => String.eqb (c_name c) n) (o_covs o).
Definition rep_names (o : obs) : list string := map r_name (o_reps o).
Definition cov_names (o : obs) : list string := map c_name (o_covs o).
Definition mc_names (o : obs) : list string := ssort_set (map ens_of (rep_names o)).
Definition o_N (o : obs) : Z := Z.of_nat (fold_right (fun r a => (List.length (cfgs (r_idl r)) + a)%nat) O (o_reps o)).

(* the property's view: the fluctuation of o on configuration c of replica n *)
Definition fluct (o : obs) (n : string) (c : Z) : option Q :=
  match find_rep o n with
  | Some r => lookup (cfgs (r_idl r)) (r_deltas r) c
  | None => None
  end.
Definition fluct0 (o : obs) (n : string) (c : Z) : Q :=
  match fluct o n c with Some d => d | None => 0 end.

(* ---------------------------------------------------------------- comparison of an implementation
   result with a model result (the correspondence verdict) *)
Definition rep_agree (rt at_ : Q) (a b : rep) : bool :=
  String.eqb (r_name a) (r_name b) && idl_eqb (r_idl a) (r_idl b)
  && close_list rt at_ (r_deltas a) (r_deltas b) && closeb rt at_ (r_mean a) (r_mean b).
Definition cov_agree (rt at_ : Q) (a b : cov) : bool :=
  String.eqb (c_name a) (c_name b) && close_list rt at_ (c_grad a) (c_grad b).
Definition obs_agree (rt at_ : Q) (a b : obs) : bool :=
  closeb rt at_ (o_value a) (o_value b) && all2 (rep_agree rt at_) (o_reps a) (o_reps b)
  && all2 (cov_agree rt at_) (o_covs a) (o_covs b) && Bool.eqb (o_rw a) (o_rw b).
