(* The Gamma-method error analysis of one ensemble (pyerrors/obs.py gamma_method, _calc_gamma, _expand_deltas,
   _determine_gap, _compute_drho), transcribed over exact rationals.  Square roots are kept squared; the sign of the
   automatic-windowing function g_W (exp, ln, sqrt) is supplied by a sign oracle [gws] (instantiated with verified
   interval enclosures in Base/RI.v).  The FFT path computes the same numbers as the direct path (theorem in
   GammaThm.v), so one model serves both. *)
From Coq Require Import ZArith QArith Qabs List Bool Lia.
From PV Require Import Base.QAux Obs.Model.
Import ListNotations.
Open Scope Q_scope.

Record grep := mkGrep { g_idl : idl; g_deltas : list Q }.

(* ------------------------------------------------------------------ gaps, lengths, expansion *)
Definition zmin_list (l : list Z) (d : Z) : Z := fold_right Z.min d l.
Definition rep_gap (r : grep) : Z :=
  match diffs (cfgs (g_idl r)) with
  | [] => 1%Z
  | d :: ds => if isr (g_idl r) then d else zmin_list ds d      (* range.step | np.min(np.diff(idl)) *)
  end.
(* _determine_gap: the smallest replica gap; ValueError unless every replica gap is a multiple of it *)
Definition determine_gap (reps : list grep) : option Z :=
  match map rep_gap reps with
  | [] => None
  | g :: gs => let gap := zmin_list gs g in
               if forallb (fun gi => (gi mod gap =? 0)%Z) (g :: gs) then Some gap else None
  end.
Definition r_length (gap : Z) (r : grep) : Z :=
  let c := cfgs (g_idl r) in
  if isr (g_idl r) then (Z.of_nat (List.length c) * rep_gap r / gap)%Z
  else ((zlast c - zhd c + gap) / gap)%Z.

(* _expand_deltas: zero-filled array on the grid first, first+gap, ...; unchanged for a range whose step is the gap *)
Fixpoint scatter_gap (ret : list Q) (base gap : Z) (idx : list Z) (deltas : list Q) : list Q :=
  match idx, deltas with
  | c :: idx', d :: deltas' => scatter_gap (upd ret (Z.to_nat ((c - base) / gap)) d) base gap idx' deltas'
  | _, _ => ret
  end.
Definition expand_deltas (deltas : list Q) (i : idl) (gap : Z) : list Q :=
  if isr i && (rep_gap (mkGrep i deltas) =? gap)%Z then deltas
  else let c := cfgs i in
       scatter_gap (zeros (Z.to_nat ((zlast c - zhd c + gap) / gap))) (zhd c) gap c deltas.

(* _calc_gamma, direct path: gamma[n] = deltas[0:L-n] . deltas[n:L]  (for n < w_max, L - n >= 0) *)
Fixpoint dotq (a b : list Q) : Q :=
  match a, b with x :: a', y :: b' => Qred (x * y + dotq a' b') | _, _ => 0 end.
Definition calc_gamma (e : list Q) (w_max : nat) : list Q :=
  map (fun n => if Nat.leb n (List.length e) then dotq e (skipn n e) else 0) (seq 0 w_max).

Fixpoint vsum (a b : list Q) : list Q :=
  match a, b with x :: a', y :: b' => Qred (x + y) :: vsum a' b' | _, _ => [] end.

(* ------------------------------------------------------------------ the analysis of one ensemble *)
Record params := mkParams { p_S : Q; p_tau_exp : Q; p_N_sigma : Q }.
Record eres := mkERes {
  e_W : Z;                 (* e_windowsize *)
  e_tauint : Q; e_dtauint_sq : Q; e_dvalue_sq : Q; e_ddvalue_sq : Q;
  e_rho : list Q; e_drho_sq : list Q;      (* drho^2, only the entries the code computes are non-zero *)
  e_n_tauint : list Q; e_n_dtauint_sq : list Q;
  e_gamma0 : Q; e_wmax : Z; e_N : Z }.
Inductive aout := AError | ATie | AOk (r : eres).     (* ValueError | windowing sign undecidable (near tie) | result *)

Definition qnthz (l : list Q) (i : Z) : Q := if (i <? 0)%Z then 0 else nth (Z.to_nat i) l 0.
Definition eps52 : Q := 1 # (2 ^ 52).

(* Python slices of a list (start, optional stop, step +1 / -1), as used by _compute_drho *)
Definition pyidx (len i : Z) : Z := if (i <? 0)%Z then Z.max 0 (len + i) else Z.min len i.
Definition slice_fwd (l : list Q) (a b : Z) : list Q :=
  let len := Z.of_nat (List.length l) in let a' := pyidx len a in let b' := pyidx len b in
  firstn (Z.to_nat (b' - a')) (skipn (Z.to_nat a') l).
(* l[a:stop:-1] with stop = None (down to index 0) or an index (exclusive) *)
Definition slice_rev (l : list Q) (a : Z) (stop : option Z) : list Q :=
  let len := Z.of_nat (List.length l) in
  let a' := if (a <? 0)%Z then (len + a)%Z else Z.min (len - 1) a in
  let lo := match stop with None => (-1)%Z | Some s => if (s <? 0)%Z then Z.max (-1) (len + s) else Z.min (len - 1) s end in
  (* indices a', a'-1, ..., lo+1 *)
  map (fun k => qnthz l (a' - Z.of_nat k)) (seq 0 (Z.to_nat (a' - lo))).

Fixpoint vcomb3 (a b c : list Q) (f : Q -> Q -> Q -> Q) : list Q :=
  match a, b, c with x :: a', y :: b', z :: c' => f x y z :: vcomb3 a' b' c' f | _, _, _ => [] end.

(* _compute_drho(i)^2:  sum( (rho[i+1:w] + concat(rho[i-1:stop:-1], rho[1:max(1,w-2i)]) - 2 rho[i] rho[1:w-i])^2 ) / N *)
Definition compute_drho_sq (rho : list Q) (w_max : Z) (N : Q) (i : Z) : Q :=
  let stop := if (i - (w_max - 1) / 2 <=? 0)%Z then None else Some (2 * i - (2 * w_max) / 2)%Z in
  let t1 := slice_fwd rho (i + 1) w_max in
  let t2 := slice_rev rho (i - 1) stop ++ slice_fwd rho 1 (Z.max 1 (w_max - 2 * i)) in
  let t3 := slice_fwd rho 1 (w_max - i) in
  let ri := qnthz rho i in
  Qred (Qsum (vcomb3 t1 t2 t3 (fun x y z => let t := x + y - 2 * ri * z in Qred (t * t))) / N).

Definition cumsum (l : list Q) : list Q :=
  snd (fold_left (fun (st : Q * list Q) x => let s := Qred (fst st + x) in (s, snd st ++ [s])) l (0, [])).

Definition bias (n : Z) (N : Q) : Q := (1 + (2 * inject_Z n + 1) / N) / (1 + 1 / N).

(* rho[n] - N_sigma * drho[n] < 0, decided exactly from rho[n], N_sigma >= 0 and drho[n]^2 *)
Definition crit_neg (rho_n nsig drho_sq : Q) : bool :=
  if Qltb rho_n 0 then true else Qltb (rho_n * rho_n) (nsig * nsig * drho_sq).

(* near tie of the tail criterion: |rho[n] - N_sigma * drho[n]| <= 2^-30 (rho is normalised, |rho| <= 1 up to noise), decided from squares.
   A floating-point implementation may decide such a case either way -- in particular rho[n] = 0 exactly at a lag without any pair,
   where the FFT path returns +-1e-17 -- so the analysis reports a tie there, as for the automatic window. *)
Definition crit_margin : Q := 1 # (2 ^ 30).
Definition crit_tie (rho_n nsig drho_sq : Q) : bool :=
  let b2 := nsig * nsig * drho_sq in
  let ap := rho_n + crit_margin in let am := rho_n - crit_margin in
  (Qleb 0 ap && Qleb b2 (ap * ap)) && (Qleb am 0 || Qleb (am * am) b2).

Section Analysis.
  (* sign oracle for g_W(n) = exp(-n/tau) - tau/sqrt(n N), tau = S / ln((2 t + 1)/(2 t - 1)):
     Some true: g < 0, Some false: g >= 0 is certain... (see Base/RI.v), None: too close to call *)
  Variable gws : Q -> Q -> Z -> Z -> option bool.

  Fixpoint window_auto (fuel : nat) (n : Z) (w_max N : Z) (S : Q) (n_tauint : list Q) : option Z :=
    match fuel with
    | O => Some (w_max - 1)%Z
    | S f =>
        if (w_max - 1 <=? n)%Z then Some n
        else match gws (qnthz n_tauint n) S n N with
             | None => None
             | Some true => Some n
             | Some false => window_auto f (n + 1)%Z w_max N S n_tauint
             end
    end.

  Definition analyse (reps : list grep) (p : params) : aout :=
    match determine_gap reps with
    | None => AError
    | Some gap =>
        let w_max := (fold_right Z.max 0%Z (map (r_length gap) reps) / 2)%Z in
        let wn := Z.to_nat w_max in
        let Nz := Z.of_nat (fold_right (fun r a => (List.length (cfgs (g_idl r)) + a)%nat) O reps) in
        let N := inject_Z Nz in
        let exps := map (fun r => expand_deltas (g_deltas r) (g_idl r) gap) reps in
        let ones := map (fun r => expand_deltas (map (fun _ => 1) (g_deltas r)) (g_idl r) gap) reps in
        let gam := fold_left vsum (map (fun e => calc_gamma e wn) exps) (zeros wn) in
        let div := fold_left vsum (map (fun e => calc_gamma e wn) ones) (zeros wn) in
        let gamma := map (fun pq => Qred (fst pq / (if Qltb (snd pq) 1 then 1 else snd pq))) (combine gam div) in
        let g0 := qnthz gamma 0 in
        if Qeqb g0 0 then
          AOk (mkERes 0 (1 # 2) 0 0 0 (zeros wn) (zeros wn) [] [] 0 w_max Nz)
        else
          let rho := map (fun g => Qred (g / g0)) gamma in
          let nt0 := cumsum ((1 # 2) :: tl rho) in
          let n_tauint := map (fun t => if Qleb t (1 # 2) then (1 # 2) + eps52 else t) nt0 in
          let n_dtau_sq := map (fun it => if Nat.eqb (fst it) 0 then 0 else
                                   Qred (snd it * snd it * 4 * Qabs (inject_Z (Z.of_nat (fst it)) + (1 # 2) - snd it) / N))
                               (combine (seq 0 wn) n_tauint) in
          let dr := compute_drho_sq rho w_max N in
          let setd (l : list Q) (i : Z) := upd l (Z.to_nat i) (dr i) in
          if Qltb 0 (p_tau_exp p) then
            if (w_max / 2 <=? 1)%Z then AError
            else
              (* for n in range(1, w_max//2): _compute_drho(n+1); if crit or n >= w_max//2 - 2: ... break *)
              let fix loop (fuel : nat) (n : Z) (drho : list Q) : aout :=
                match fuel with
                | O => AError
                | S f =>
                    if (w_max / 2 <=? n)%Z then AError
                    else
                      let drho' := setd drho (n + 1)%Z in
                      if crit_tie (qnthz rho n) (p_N_sigma p) (qnthz drho' n) && negb (w_max / 2 - 2 <=? n)%Z then ATie
                      else if crit_neg (qnthz rho n) (p_N_sigma p) (qnthz drho' n) || (w_max / 2 - 2 <=? n)%Z then
                        let tauint := Qred (qnthz n_tauint n * bias n N + p_tau_exp p * Qabs (qnthz rho (n + 1)%Z)) in
                        let dtau_sq := Qred (qnthz n_dtau_sq n + p_tau_exp p * p_tau_exp p * qnthz drho' (n + 1)%Z) in
                        let dv := Qred (2 * tauint * g0 * (1 + 1 / N) / N) in
                        AOk (mkERes n tauint dtau_sq dv (Qred ((inject_Z n + (1 # 2)) / N)) rho drho' n_tauint n_dtau_sq g0 w_max Nz)
                      else loop f (n + 1)%Z drho'
                end in
              loop (S wn) 1%Z (setd (zeros wn) 1%Z)
          else if Qeqb (p_S p) 0 then
            AOk (mkERes 0 (1 # 2) 0 (Qred (g0 / (N - 1))) (Qred ((1 # 2) / N)) rho (zeros wn) n_tauint n_dtau_sq g0 w_max Nz)
          else
            if (w_max <=? 1)%Z then
              (* range(1, w_max) is empty: no window is ever set; e_dvalue is then missing and the code raises KeyError *)
              AError
            else
              match window_auto (S wn) 1%Z w_max Nz (p_S p) n_tauint with
              | None => ATie
              | Some n =>
                  let drho := setd (zeros wn) n in
                  let tauint := Qred (qnthz n_tauint n * bias n N) in
                  let dv := Qred (2 * tauint * g0 * (1 + 1 / N) / N) in
                  AOk (mkERes n tauint (qnthz n_dtau_sq n) dv (Qred ((inject_Z n + (1 # 2)) / N)) rho drho n_tauint n_dtau_sq g0 w_max Nz)
              end
    end.
End Analysis.

(* ------------------------------------------------------------------ SPECIFICATION (hep-lat/0306017; 1009.5228), in terms of
   the fluctuation at a configuration NUMBER *)
Definition dl (r : grep) (c : Z) : Q := lookup0 (cfgs (g_idl r)) (g_deltas r) c.
Definition present (r : grep) (c : Z) : Q := match lookup (cfgs (g_idl r)) (g_deltas r) c with Some _ => 1 | None => 0 end.
Definition grid (r : grep) (gap : Z) : list Z :=
  let c := cfgs (g_idl r) in map (fun k => (zhd c + Z.of_nat k * gap)%Z) (seq 0 (Z.to_nat ((zlast c - zhd c) / gap + 1))).
(* sum over the configurations c of replica r of f(c) f(c + t gap): products of fluctuations t measurement steps apart *)
Definition pair_sum (f : grep -> Z -> Q) (r : grep) (gap : Z) (t : Z) : Q :=
  Qsum (map (fun c => Qred (f r c * f r (c + t * gap)%Z)) (cfgs (g_idl r))).
Definition gamma_spec (reps : list grep) (gap : Z) (t : Z) : Q :=
  let s := Qsum (map (fun r => pair_sum dl r gap t) reps) in
  let npairs := Qsum (map (fun r => pair_sum present r gap t) reps) in
  Qred (s / (if Qltb npairs 1 then 1 else npairs)).
Definition rho_spec (reps : list grep) (gap : Z) (t : Z) : Q := Qred (gamma_spec reps gap t / gamma_spec reps gap 0).
Definition tau_n_spec (reps : list grep) (gap : Z) (W : Z) : Q :=
  (1 # 2) + Qsum (map (fun t => rho_spec reps gap (Z.of_nat t)) (seq 1 (Z.to_nat W))).
(* drho(i)^2 = (1/N) sum_{k=1}^{w_max - i - 1} (rho(i+k) + rho(|i-k|) - 2 rho(i) rho(k))^2 *)
Definition drho_sq_spec (rho : Z -> Q) (w_max : Z) (N : Q) (i : Z) : Q :=
  Qred (Qsum (map (fun k => let k := Z.of_nat k in
                     let t := rho (i + k)%Z + rho (Z.abs (i - k)) - 2 * rho i * rho k in Qred (t * t))
                  (seq 1 (Z.to_nat (w_max - i - 1)))) / N).

(* ------------------------------------------------------------------ totals over ensembles and covariance inputs *)
Definition mat_vec (m : list (list Q)) (v : list Q) : list Q := map (fun row => dotq row v) m.
Definition errsq (c : cov) : Q := dotq (c_grad c) (mat_vec (c_cov c) (c_grad c)).
Definition total_dvalue_sq (es : list eres) (covs : list cov) : Q :=
  Qred (Qsum (map e_dvalue_sq es) + Qsum (map errsq covs)).
(* ddvalue^2 = sum_e (dvalue_e ddvalue_e)^2 / dvalue^2, with ddvalue_e^2 = dvalue_e^2 * e_ddvalue_sq *)
Definition total_ddvalue_sq (es : list eres) (covs : list cov) : Q :=
  let dv := total_dvalue_sq es covs in
  if Qeqb dv 0 then 0 else Qred (Qsum (map (fun e => e_dvalue_sq e * (e_dvalue_sq e * e_ddvalue_sq e)) es) / dv).

(* ------------------------------------------------------------------ the analysis re-stated from the papers' formulas
   (independent of the array manipulations above: pair sums by configuration number, index-form drho, "first lag at
   which the criterion turns negative") -- used as the SPEC verdict of the correspondence and related to [analyse]
   by the theorems of GammaThm.v *)
Section SpecAnalysis.
  Variable gws : Q -> Q -> Z -> Z -> option bool.

  (* least n in [lo, hi) with sign n = Some true; None if the sign is undecidable before that; hi if none *)
  Fixpoint first_neg (fuel : nat) (n hi : Z) (sign : Z -> option bool) : option Z :=
    match fuel with
    | O => Some hi
    | S f => if (hi <=? n)%Z then Some hi
             else match sign n with None => None | Some true => Some n | Some false => first_neg f (n + 1)%Z hi sign end
    end.

  Definition spec_analyse (reps : list grep) (p : params) : aout :=
    match determine_gap reps with
    | None => AError
    | Some gap =>
        let w_max := (fold_right Z.max 0%Z (map (r_length gap) reps) / 2)%Z in
        let wn := Z.to_nat w_max in
        let Nz := Z.of_nat (fold_right (fun r a => (List.length (cfgs (g_idl r)) + a)%nat) O reps) in
        let N := inject_Z Nz in
        let gamma := map (fun t => gamma_spec reps gap (Z.of_nat t)) (seq 0 wn) in
        let g0 := qnthz gamma 0 in
        if Qeqb g0 0 then AOk (mkERes 0 (1 # 2) 0 0 0 (zeros wn) (zeros wn) [] [] 0 w_max Nz)
        else
          let rhol := map (fun g => Qred (g / g0)) gamma in
          let rho := qnthz rhol in
          (* tau_int(W) = 1/2 + sum_{t=1..W} rho(t), kept above 1/2 *)
          let taun := fun W => let s := (1 # 2) + Qsum (map (fun t => rho (Z.of_nat t)) (seq 1 (Z.to_nat W))) in
                               if Qleb s (1 # 2) then (1 # 2) + eps52 else s in
          let n_tauint := map (fun t => taun (Z.of_nat t)) (seq 0 wn) in
          let dtau_sq := fun W => if (W =? 0)%Z then 0 else Qred (4 * taun W * taun W * Qabs (inject_Z W + (1 # 2) - taun W) / N) in
          let n_dtau_sq := map (fun t => dtau_sq (Z.of_nat t)) (seq 0 wn) in
          let drs := drho_sq_spec rho w_max N in
          if Qltb 0 (p_tau_exp p) then
            if (w_max / 2 <=? 1)%Z then AError
            else
              match first_neg (S wn) 1 (Z.max 1 (w_max / 2 - 2)) (fun n => if crit_tie (rho n) (p_N_sigma p) (drs n) then None else Some (crit_neg (rho n) (p_N_sigma p) (drs n))) with
              | None => ATie
              | Some W =>
                  let tauint := Qred (taun W * bias W N + p_tau_exp p * Qabs (rho (W + 1)%Z)) in
                  let drho := map (fun i => if (1 <=? Z.of_nat i)%Z && (Z.of_nat i <=? W + 1)%Z then drs (Z.of_nat i) else 0) (seq 0 wn) in
                  AOk (mkERes W tauint (Qred (dtau_sq W + p_tau_exp p * p_tau_exp p * drs (W + 1)%Z))
                              (Qred (2 * tauint * g0 * (1 + 1 / N) / N)) (Qred ((inject_Z W + (1 # 2)) / N)) rhol drho n_tauint n_dtau_sq g0 w_max Nz)
              end
          else if Qeqb (p_S p) 0 then
            (* naive standard error of the mean: sum delta^2 / (N (N-1)) *)
            AOk (mkERes 0 (1 # 2) 0 (Qred (g0 / (N - 1))) (Qred ((1 # 2) / N)) rhol (zeros wn) n_tauint n_dtau_sq g0 w_max Nz)
          else if (w_max <=? 1)%Z then AError
          else
            match first_neg (S wn) 1 (w_max - 1) (fun n => gws (taun n) (p_S p) n Nz) with
            | None => ATie
            | Some W =>
                let tauint := Qred (taun W * bias W N) in
                let drho := map (fun i => if (Z.of_nat i =? W)%Z then drs W else 0) (seq 0 wn) in
                AOk (mkERes W tauint (dtau_sq W) (Qred (2 * tauint * g0 * (1 + 1 / N) / N)) (Qred ((inject_Z W + (1 # 2)) / N))
                            rhol drho n_tauint n_dtau_sq g0 w_max Nz)
            end
    end.
End SpecAnalysis.

(* ------------------------------------------------------------------ correspondence verdicts *)
Record gimpl := mkGImpl {
  gi_raised : bool; gi_W : Z; gi_tauint : Q; gi_dtauint : Q; gi_dvalue : Q; gi_ddvalue : Q;
  gi_rho : list Q; gi_drho : list Q; gi_n_tauint : list Q; gi_n_dtauint : list Q }.
Record gcase := mkGC { gc_reps : list grep; gc_params : params; gc_impl : gimpl; gc_rt : Q; gc_at : Q }.

Definition sq (x : Q) : Q := x * x.
Definition eres_agree (rt at_ : Q) (r : eres) (i : gimpl) : bool :=
  negb (gi_raised i)
  && Z.eqb (e_W r) (gi_W i)
  && closeb rt at_ (e_tauint r) (gi_tauint i)
  && closeb rt (at_ * at_) (e_dtauint_sq r) (sq (gi_dtauint i))
  && closeb rt (at_ * at_) (e_dvalue_sq r) (sq (gi_dvalue i))
  && closeb rt (at_ * at_) (e_dvalue_sq r * e_ddvalue_sq r) (sq (gi_ddvalue i))
  && (match e_rho r with [] => true | _ => close_list rt at_ (e_rho r) (gi_rho i) end)
  && (match e_n_tauint r with [] => true | _ => close_list rt at_ (e_n_tauint r) (gi_n_tauint i) end)
  && (match e_n_tauint r with [] => true | _ => close_list rt (at_ * at_) (e_n_dtauint_sq r) (map sq (gi_n_dtauint i)) end)
  && (match e_rho r with [] => true | _ => close_list rt (at_ * at_) (e_drho_sq r) (map sq (gi_drho i)) end).
Definition aout_agree (rt at_ : Q) (a : aout) (i : gimpl) : bool :=
  match a with
  | AError => gi_raised i
  | ATie => true
  | AOk r => eres_agree rt at_ r i
  end.
Definition is_tie (a : aout) : bool := match a with ATie => true | _ => false end.
