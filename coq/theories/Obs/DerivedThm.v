(* Refinement theorems for the propagation engine: the code's scatter / gather arrays compute the
   configuration-aligned, up-weighted fluctuation of the specification, for every layout. *)
From Coq Require Import ZArith QArith Qabs List Bool String Lia Lqa Sorted.
From PV Require Import Base.QAux Obs.Model Obs.Derived.
Import ListNotations.
Open Scope Q_scope.

(* ------------------------------------------------------------------ arrays *)
Lemma upd_length l i v : List.length (upd l i v) = List.length l.
Proof. revert i; induction l as [|x l IH]; intros [|i]; simpl; auto. Qed.

Lemma qnth_upd_same l i v : (i < List.length l)%nat -> qnth (upd l i v) i = v.
Proof.
  revert i; induction l as [|x l IH]; intros [|i] H; simpl in *; try lia; auto.
  apply IH. lia.
Qed.

Lemma qnth_upd_other l i j v : i <> j -> qnth (upd l i v) j = qnth l j.
Proof.
  revert i j; induction l as [|x l IH]; intros [|i] [|j] H; simpl; auto; try congruence.
  unfold qnth in *. simpl. apply IH. congruence.
Qed.

Lemma lookup_None_notin idx deltas c :
  List.length idx = List.length deltas -> lookup idx deltas c = None -> ~ In c idx.
Proof.
  revert deltas; induction idx as [|x idx IH]; intros [|d deltas] Hl H; simpl in *; try discriminate; auto.
  destruct (Z.eqb_spec x c) as [->|Hne]; [discriminate|].
  intros [E|Hin]; [congruence|]. eapply IH; eauto.
Qed.

(* the array built by the scatter loop holds, at slot c - base, the value stored for configuration c *)
Lemma scatter_lookup idx : forall deltas ret base c,
  NoDup idx ->
  List.length idx = List.length deltas ->
  (forall x, In x idx -> (base <= x < base + Z.of_nat (List.length ret))%Z) ->
  (base <= c < base + Z.of_nat (List.length ret))%Z ->
  qnth (scatter ret base idx deltas) (Z.to_nat (c - base)) =
  match lookup idx deltas c with Some d => d | None => qnth ret (Z.to_nat (c - base)) end.
Proof.
  induction idx as [|x idx IH]; intros deltas ret base c Hnd Hl Hr Hc.
  - destruct deltas; reflexivity.
  - destruct deltas as [|d deltas]; [discriminate|].
    simpl. inversion Hnd as [|? ? Hnotin Hnd']; subst.
    assert (Hx : (base <= x < base + Z.of_nat (List.length ret))%Z) by (apply Hr; left; reflexivity).
    rewrite IH; auto.
    + destruct (Z.eqb_spec x c) as [->|Hne].
      * destruct (lookup idx deltas c) eqn:E.
        -- exfalso. clear - E Hnotin Hl. simpl in Hl. injection Hl as Hl.
           revert deltas Hl E. induction idx as [|y idx IH2]; intros [|e deltas] Hl E; simpl in *; try discriminate.
           destruct (Z.eqb_spec y c) as [->|]; [apply Hnotin; left; reflexivity|].
           eapply IH2; eauto.
        -- apply qnth_upd_same. lia.
      * destruct (lookup idx deltas c); [reflexivity|].
        apply qnth_upd_other. lia.
    + rewrite upd_length. intros y Hy. apply Hr. right. exact Hy.
    + rewrite upd_length. exact Hc.
Qed.

Lemma qnth_zeros n i : qnth (zeros n) i = 0.
Proof.
  unfold qnth, zeros. revert i; induction n as [|n IH]; intros [|i]; simpl; auto.
Qed.

Lemma zeros_length n : List.length (zeros n) = n.
Proof. apply repeat_length. Qed.

(* ------------------------------------------------------------------ sortedness facts *)
Definition incr (l : list Z) : Prop := StronglySorted Z.lt l.

Lemma incr_NoDup l : incr l -> NoDup l.
Proof.
  induction 1 as [|x l Hs IH Hall]; constructor; auto.
  intro Hin. rewrite Forall_forall in Hall. specialize (Hall x Hin). lia.
Qed.

Lemma last_In (z : Z) (l : list Z) : In (last (z :: l) 0%Z) (z :: l).
Proof.
  revert z; induction l as [|y l IH]; intro z; [left; reflexivity|].
  right. change (In (last (y :: l) 0%Z) (y :: l)). apply IH.
Qed.

Lemma incr_bounds l x : incr l -> In x l -> (zhd l <= x <= zlast l)%Z.
Proof.
  unfold zhd, zlast. induction 1 as [|y l Hs IH Hall]; intros Hin; [destruct Hin|].
  rewrite Forall_forall in Hall. simpl hd.
  destruct l as [|z l'].
  - destruct Hin as [->|[]]. simpl. lia.
  - pose proof (last_In z l') as HL. pose proof (Hall _ HL) as HL'.
    change (last (y :: z :: l') 0%Z) with (last (z :: l') 0%Z).
    destruct Hin as [->|Hin]; [lia|].
    specialize (IH Hin). specialize (Hall x Hin). cbn [hd] in IH. lia.
Qed.

(* ------------------------------------------------------------------ _expand_deltas_for_merge *)
(* Spec of one expanded entry: the operand's fluctuation on THAT configuration number (0 where it
   has none), up-weighted by |new| / |own| and the replica scale factor. *)
Definition expand_spec (deltas : list Q) (idx new_idx : idl) (sf : Q) (c : Z) : Q :=
  lookup0 (cfgs idx) deltas c * Qlen (cfgs new_idx) / Qlen (cfgs idx) * sf.

Lemma lookup_self idx : forall deltas i,
  NoDup idx -> List.length idx = List.length deltas -> (i < List.length idx)%nat ->
  lookup idx deltas (nth i idx 0%Z) = Some (nth i deltas 0).
Proof.
  induction idx as [|x idx IH]; intros [|d deltas] i Hnd Hl Hi; simpl in *; try lia; try discriminate.
  inversion Hnd as [|? ? Hnotin Hnd']; subst.
  destruct i as [|i].
  - rewrite Z.eqb_refl. reflexivity.
  - destruct (Z.eqb_spec x (nth i idx 0%Z)) as [E|_].
    + exfalso. apply Hnotin. rewrite E. apply nth_In. lia.
    + apply IH; auto; lia.
Qed.

Lemma Qlen_pos {A} (l : list A) : l <> [] -> 0 < Qlen l.
Proof.
  intro H. unfold Qlen. destruct l; [congruence|]. simpl List.length.
  unfold Qlt. simpl. lia.
Qed.

Lemma nth_map_any {A B} (f : A -> B) (l : list A) i d d' : (i < List.length l)%nat ->
  nth i (map f l) d = f (nth i l d').
Proof.
  revert i; induction l as [|x l IH]; intros [|i] H; simpl in *; try lia; auto. apply IH; lia.
Qed.

Lemma nth_map_mul deltas sf i : (i < List.length deltas)%nat ->
  nth i (map (fun d => d * sf) deltas) 0 = nth i deltas 0 * sf.
Proof.
  revert i; induction deltas as [|d ds IH]; intros [|i] H; simpl in *; try lia; auto. apply IH; lia.
Qed.

Theorem expand_for_merge_aligned deltas idx new_idx sf i :
  incr (cfgs idx) -> incr (cfgs new_idx) ->
  List.length (cfgs idx) = List.length deltas ->
  (forall x, In x (cfgs idx) -> In x (cfgs new_idx)) ->
  cfgs idx <> [] ->
  (i < List.length (cfgs new_idx))%nat ->
  nth i (expand_for_merge deltas idx new_idx sf) 0 == expand_spec deltas idx new_idx sf (nth i (cfgs new_idx) 0%Z).
Proof.
  intros Hi Hn Hl Hsub Hne Hlt. unfold expand_for_merge, expand_spec.
  destruct (isr idx && isr new_idx && zlist_eqb (cfgs idx) (cfgs new_idx)) eqn:Esc.
  - (* the equal-ranges shortcut returns what the general path returns *)
    apply andb_true_iff in Esc. destruct Esc as [_ Eeq]. apply zlist_eqb_eq in Eeq.
    rewrite <- Eeq in Hlt |- *. unfold lookup0.
    rewrite lookup_self; auto using incr_NoDup.
    assert (Hp : 0 < Qlen (cfgs idx)) by (apply Qlen_pos; exact Hne).
    destruct (Qeqb sf 1) eqn:Esf.
    + apply Qeqb_eq in Esf. rewrite Esf. field. lra.
    + assert (Hm : nth i (map (fun d => d * sf) deltas) 0 = nth i deltas 0 * sf)
        by (apply nth_map_mul; lia).
      rewrite Hm. field. lra.
  - set (base := zhd (cfgs new_idx)).
    set (n := Z.to_nat (zlast (cfgs new_idx) - base + 1)).
    assert (Hin : In (nth i (cfgs new_idx) 0%Z) (cfgs new_idx)) by (apply nth_In; exact Hlt).
    pose proof (incr_bounds _ _ Hn Hin) as Hb. fold base in Hb.
    rewrite (nth_map_any (fun c => qnth (scatter (zeros n) base (cfgs idx) deltas) (Z.to_nat (c - base)) * Qlen (cfgs new_idx) / Qlen (cfgs idx) * sf) (cfgs new_idx) i 0 0%Z Hlt).
    rewrite scatter_lookup; auto using incr_NoDup.
    + unfold lookup0. destruct (lookup (cfgs idx) deltas (nth i (cfgs new_idx) 0%Z)); [reflexivity|].
      rewrite qnth_zeros. reflexivity.
    + intros x Hx. rewrite zeros_length. unfold n.
      pose proof (incr_bounds _ _ Hn (Hsub x Hx)) as Hbx. fold base in Hbx. lia.
    + rewrite zeros_length. unfold n. lia.
Qed.

(* ------------------------------------------------------------------ _merge_idx is the union *)
Lemma zmerge_In a : forall b x, In x (zmerge a b) <-> In x a \/ In x b.
Proof.
  induction a as [|p a IHa]; intros b x.
  - destruct b; simpl; tauto.
  - induction b as [|q b IHb].
    + simpl. tauto.
    + simpl. destruct (p <? q)%Z eqn:E1.
      * simpl. rewrite IHa. simpl. tauto.
      * destruct (q <? p)%Z eqn:E2.
        -- simpl. simpl in IHb. rewrite IHb. tauto.
        -- assert (p = q) by lia. subst. simpl. rewrite IHa. tauto.
Qed.

Lemma zmerge_refl a : zmerge a a = a.
Proof.
  induction a as [|p a IH]; simpl; auto.
  rewrite Z.ltb_irrefl. f_equal. exact IH.
Qed.

Lemma zmerge_nil_l b : zmerge [] b = b.
Proof. destruct b; reflexivity. Qed.

Lemma zunion_In ls : forall x, In x (zunion ls) <-> exists l, In l ls /\ In x l.
Proof.
  unfold zunion.
  assert (G : forall acc x, In x (fold_left zmerge ls acc) <-> In x acc \/ exists l, In l ls /\ In x l).
  { induction ls as [|l ls IH]; intros acc x; simpl.
    - split; [auto|]. intros [H|[l [[] _]]]. exact H.
    - rewrite IH, zmerge_In. split.
      + intros [[H|H]|[l' [H1 H2]]]; eauto 6.
      + intros [H|[l' [[->|H1] H2]]]; eauto 6. }
  intro x. rewrite G. simpl. split; [intros [[]|H]; exact H | auto].
Qed.

Lemma zmerge_lb a : forall b m, Forall (Z.lt m) a -> Forall (Z.lt m) b -> Forall (Z.lt m) (zmerge a b).
Proof.
  intros b m Ha Hb. rewrite Forall_forall in *. intros x Hx. apply zmerge_In in Hx. destruct Hx; auto.
Qed.

Lemma zmerge_incr a : forall b, incr a -> incr b -> incr (zmerge a b).
Proof.
  induction a as [|p a IHa]; intros b Ha Hb.
  - rewrite zmerge_nil_l. exact Hb.
  - induction b as [|q b IHb].
    + simpl. exact Ha.
    + inversion Ha as [|? ? Ha' Hpa]; subst. inversion Hb as [|? ? Hb' Hqb]; subst.
      simpl. destruct (p <? q)%Z eqn:E1.
      * constructor; [apply IHa; auto|].
        apply zmerge_lb; auto. constructor; [lia|].
        rewrite Forall_forall in *. intros y Hy. specialize (Hqb y Hy). lia.
      * destruct (q <? p)%Z eqn:E2.
        -- constructor; [apply IHb; auto|].
           change (Forall (Z.lt q) (zmerge (p :: a) b)).
           apply zmerge_lb; auto. constructor; [lia|].
           rewrite Forall_forall in *. intros y Hy. specialize (Hpa y Hy). lia.
        -- assert (p = q) by lia. subst. constructor; [apply IHa; auto|].
           apply zmerge_lb; auto.
Qed.

Lemma zunion_incr ls : Forall incr ls -> incr (zunion ls).
Proof.
  unfold zunion. assert (G : forall acc, incr acc -> Forall incr ls -> incr (fold_left zmerge ls acc)).
  { induction ls as [|l ls IH]; intros acc Hacc Hall; simpl; auto.
    inversion Hall; subst. apply IH; auto. apply zmerge_incr; auto. }
  apply G. constructor.
Qed.

(* the configurations of the merged idl are exactly the union of the operands' configurations *)
Theorem merge_idx_is_union (l : list idl) : l <> [] -> cfgs (merge_idx l) = zunion (map cfgs l).
Proof.
  intro Hne. unfold merge_idx. destruct (all_idl_equal l) eqn:E.
  - destruct l as [|x r]; [congruence|]. simpl in E. simpl hd.
    unfold zunion. simpl. rewrite zmerge_nil_l.
    rewrite forallb_forall in E.
    assert (G : forall acc, acc = cfgs x -> fold_left zmerge (map cfgs r) acc = cfgs x).
    { clear Hne. induction r as [|y r IH]; intros acc ->; simpl; auto.
      assert (Ey : idl_eqb x y = true) by (apply E; left; reflexivity).
      unfold idl_eqb in Ey. apply andb_true_iff in Ey. destruct Ey as [_ Ey]. apply zlist_eqb_eq in Ey.
      rewrite <- Ey, zmerge_refl. apply IH; auto. intros z Hz. apply E. right. exact Hz. }
    symmetry. apply G. reflexivity.
  - destruct (zlist_eqb _ _); reflexivity.
Qed.

Corollary merge_idx_member (l : list idl) x : l <> [] ->
  (In x (cfgs (merge_idx l)) <-> exists i, In i l /\ In x (cfgs i)).
Proof.
  intro Hne. rewrite merge_idx_is_union by exact Hne. rewrite zunion_In. split.
  - intros [c [Hc Hx]]. apply in_map_iff in Hc. destruct Hc as [i [<- Hi]]. eauto.
  - intros [i [Hi Hx]]. exists (cfgs i). split; [apply in_map; exact Hi | exact Hx].
Qed.

Corollary merge_idx_incr (l : list idl) : l <> [] -> Forall (fun i => incr (cfgs i)) l -> incr (cfgs (merge_idx l)).
Proof.
  intros Hne H. rewrite merge_idx_is_union by exact Hne. apply zunion_incr.
  rewrite Forall_forall in *. intros c Hc. apply in_map_iff in Hc. destruct Hc as [i [<- Hi]]. auto.
Qed.

(* ------------------------------------------------------------------ linear accumulation *)
Lemma nth_vadd a : forall b i, List.length a = List.length b -> nth i (vadd a b) 0 == nth i a 0 + nth i b 0.
Proof.
  induction a as [|x a IH]; intros [|y b] i Hl; simpl in *; try discriminate.
  - destruct i; simpl; ring.
  - destruct i; simpl; [ring|]. apply IH. lia.
Qed.

Lemma vadd_length a : forall b, List.length a = List.length b -> List.length (vadd a b) = List.length a.
Proof. induction a as [|x a IH]; intros [|y b] Hl; simpl in *; try discriminate; auto. Qed.

Lemma nth_vscale s a i : nth i (vscale s a) 0 == s * nth i a 0.
Proof.
  unfold vscale. revert i; induction a as [|x a IH]; intros [|i]; simpl; try ring. apply IH.
Qed.

Lemma vscale_length s a : List.length (vscale s a) = List.length a.
Proof. apply map_length. Qed.

(* ------------------------------------------------------------------ the accumulated fluctuation *)
(* sum over the operands that have replica n of  g_j * (j-th expanded array)[i] *)
Fixpoint contrib_sum (ops : list obs) (n : string) (i : nat) (gs : list Q) (os : list obs) : Q :=
  match gs, os with
  | g :: gs', o :: os' =>
      (match contrib ops n g o with Some v => nth i v 0 | None => 0 end) + contrib_sum ops n i gs' os'
  | _, _ => 0
  end.

Definition acc_len_ok (L : nat) (acc : option (list Q)) : Prop :=
  match acc with Some a => List.length a = L | None => True end.
Definition acc_nth (acc : option (list Q)) (i : nat) : Q :=
  match acc with Some a => nth i a 0 | None => 0 end.

Lemma acc_deltas_nth ops n L i : forall gs os acc,
  acc_len_ok L acc ->
  (forall g o v, In o os -> contrib ops n g o = Some v -> List.length v = L) ->
  acc_nth (acc_deltas ops n gs os acc) i == acc_nth acc i + contrib_sum ops n i gs os
  /\ acc_len_ok L (acc_deltas ops n gs os acc).
Proof.
  induction gs as [|g gs IH]; intros os acc Hacc Hlen.
  - simpl. split; [ring | exact Hacc].
  - destruct os as [|o os]; [simpl; split; [ring | exact Hacc]|].
    simpl acc_deltas. simpl contrib_sum.
    destruct (contrib ops n g o) as [v|] eqn:Ec.
    + assert (Hv : List.length v = L) by (eapply Hlen; [left; reflexivity | exact Ec]).
      destruct acc as [a|].
      * simpl in Hacc.
        destruct (IH os (Some (vadd a v))) as [E1 E2].
        { simpl. rewrite vadd_length; congruence. }
        { intros g' o' v' Hin. apply Hlen. right. exact Hin. }
        split; [|exact E2]. rewrite E1. simpl acc_nth. rewrite nth_vadd by congruence. ring.
      * destruct (IH os (Some v)) as [E1 E2].
        { simpl. exact Hv. }
        { intros g' o' v' Hin. apply Hlen. right. exact Hin. }
        split; [|exact E2]. rewrite E1. simpl acc_nth. ring.
    + destruct (IH os acc Hacc) as [E1 E2].
      { intros g' o' v' Hin. apply Hlen. right. exact Hin. }
      split; [|exact E2]. rewrite E1. ring.
Qed.

(* well-formed replica: increasing configuration numbers, one fluctuation per configuration *)
Definition rep_wf (r : rep) : Prop :=
  incr (cfgs (r_idl r)) /\ cfgs (r_idl r) <> [] /\ List.length (r_deltas r) = List.length (cfgs (r_idl r)).
Definition obs_wf (o : obs) : Prop := Forall rep_wf (o_reps o).

Lemma find_rep_In o n r : find_rep o n = Some r -> In r (o_reps o) /\ r_name r = n.
Proof.
  unfold find_rep. intro H. apply find_some in H. destruct H as [H1 H2].
  apply String.eqb_eq in H2. auto.
Qed.

Lemma idls_of_In ops n o r : In o ops -> find_rep o n = Some r -> In (r_idl r) (idls_of ops n).
Proof.
  intros Hin Hf. unfold idls_of. apply in_flat_map. exists o. split; [exact Hin|]. rewrite Hf. left. reflexivity.
Qed.

Lemma idls_of_wf ops n : Forall obs_wf ops -> Forall (fun i => incr (cfgs i)) (idls_of ops n).
Proof.
  intro H. rewrite Forall_forall in *. intros i Hi. unfold idls_of in Hi. apply in_flat_map in Hi.
  destruct Hi as [o [Ho Hi]]. destruct (find_rep o n) as [r|] eqn:E; [|destruct Hi].
  destruct Hi as [<-|[]]. apply find_rep_In in E. destruct E as [E _].
  specialize (H o Ho). unfold obs_wf in H. rewrite Forall_forall in H. apply (H r E).
Qed.

Lemma expand_length deltas idx new_idx sf :
  List.length deltas = List.length (cfgs idx) ->
  (isr idx && isr new_idx && zlist_eqb (cfgs idx) (cfgs new_idx) = true -> cfgs idx = cfgs new_idx) ->
  List.length (expand_for_merge deltas idx new_idx sf) = List.length (cfgs new_idx).
Proof.
  intros Hl Hs. unfold expand_for_merge.
  destruct (isr idx && isr new_idx && zlist_eqb (cfgs idx) (cfgs new_idx)) eqn:E.
  - rewrite <- (Hs eq_refl). destruct (Qeqb sf 1); [exact Hl | rewrite map_length; exact Hl].
  - rewrite map_length. reflexivity.
Qed.

(* MAIN THEOREM (model = aligned specification): the i-th stored fluctuation of replica n of the
   result is  sum_j g_j * (fluctuation of operand j on configuration number new_cfgs[i], or 0)
   * |new cfgs| / |own cfgs| * scalefactor_j,  for every layout of the operands. *)
Fixpoint aligned_sum (ops : list obs) (n : string) (c : Z) (gs : list Q) (os : list obs) : Q :=
  match gs, os with
  | g :: gs', o :: os' =>
      (match find_rep o n with
       | Some r => g * expand_spec (r_deltas r) (r_idl r) (new_idl ops n) (scalefactor ops o (ens_of n)) c
       | None => 0 end) + aligned_sum ops n c gs' os'
  | _, _ => 0
  end.

Lemma contrib_sum_aligned ops n i : Forall obs_wf ops -> (i < List.length (cfgs (new_idl ops n)))%nat ->
  forall gs os, (forall o, In o os -> In o ops) ->
  contrib_sum ops n i gs os == aligned_sum ops n (nth i (cfgs (new_idl ops n)) 0%Z) gs os.
Proof.
  intros Hwf Hi. induction gs as [|g gs IH]; intros os Hsub; [reflexivity|].
  destruct os as [|o os]; [reflexivity|]. simpl.
  rewrite IH by (intros o' Ho'; apply Hsub; right; exact Ho').
  apply Qplus_comp; [|reflexivity].
  unfold contrib. destruct (find_rep o n) as [r|] eqn:Ef; [|reflexivity].
  assert (Ho : In o ops) by (apply Hsub; left; reflexivity).
  pose proof (find_rep_In _ _ _ Ef) as [Hr _].
  assert (Hrwf : rep_wf r).
  { rewrite Forall_forall in Hwf. specialize (Hwf o Ho). unfold obs_wf in Hwf. rewrite Forall_forall in Hwf. auto. }
  destruct Hrwf as [Hinc [Hne Hlen]].
  assert (Hnn : idls_of ops n <> []).
  { intro E. pose proof (idls_of_In ops n o r Ho Ef) as H. rewrite E in H. destruct H. }
  rewrite nth_vscale. apply Qmult_comp; [reflexivity|].
  apply expand_for_merge_aligned; auto.
  - unfold new_idl. apply merge_idx_incr; auto. apply idls_of_wf; auto.
  - intros x Hx. unfold new_idl. apply merge_idx_member; auto. exists (r_idl r). split; [eapply idls_of_In; eauto | exact Hx].
Qed.

Theorem derived_deltas_aligned ops n i gs :
  Forall obs_wf ops -> (i < List.length (cfgs (new_idl ops n)))%nat ->
  acc_nth (acc_deltas ops n gs ops None) i == aligned_sum ops n (nth i (cfgs (new_idl ops n)) 0%Z) gs ops.
Proof.
  intros Hwf Hi.
  destruct (acc_deltas_nth ops n (List.length (cfgs (new_idl ops n))) i gs ops None) as [E _].
  - exact I.
  - intros g o v Hin Hc. unfold contrib in Hc. destruct (find_rep o n) as [r|] eqn:Ef; [|discriminate].
    injection Hc as <-. rewrite vscale_length.
    pose proof (find_rep_In _ _ _ Ef) as [Hr _].
    rewrite Forall_forall in Hwf. specialize (Hwf o Hin). unfold obs_wf in Hwf. rewrite Forall_forall in Hwf.
    destruct (Hwf r Hr) as [_ [_ Hlen]].
    apply expand_length; [exact Hlen|].
    intro H. apply andb_true_iff in H. destruct H as [_ H]. apply zlist_eqb_eq in H. exact H.
  - rewrite E. simpl acc_nth. rewrite contrib_sum_aligned; auto. ring.
Qed.

(* ------------------------------------------------------------------ why the up-weight: the
   contribution of an operand to the replica mean is unchanged by the expansion *)
Lemma Qsum_delta_one (x : Z) (d : Q) (l : list Z) :
  NoDup l -> In x l -> Qsum (map (fun c => if Z.eqb x c then d else 0) l) == d.
Proof.
  induction l as [|y l IH]; intros Hnd Hin; [destruct Hin|].
  inversion Hnd as [|? ? Hnot Hnd']; subst. simpl. rewrite Qred_correct.
  destruct (Z.eqb_spec x y) as [->|Hne].
  - assert (Z0 : Qsum (map (fun c => if Z.eqb y c then d else 0) l) == 0).
    { clear - Hnot. induction l as [|z l IH]; simpl; rewrite ?Qred_correct; [reflexivity|].
      destruct (Z.eqb_spec y z) as [->|_]; [exfalso; apply Hnot; left; reflexivity|].
      rewrite IH; [ring|]. intro H. apply Hnot. right. exact H. }
    rewrite Z0. ring.
  - destruct Hin as [E|Hin]; [congruence|]. rewrite IH by assumption. ring.
Qed.

Lemma Qsum_lookup0_subset idx : forall deltas new,
  NoDup idx -> NoDup new -> List.length idx = List.length deltas ->
  (forall x, In x idx -> In x new) ->
  Qsum (map (lookup0 idx deltas) new) == Qsum deltas.
Proof.
  induction idx as [|x idx IH]; intros [|d deltas] new Hnd Hnn Hl Hsub; simpl in Hl; try discriminate.
  - unfold lookup0. simpl. clear. induction new; simpl; rewrite ?Qred_correct; [reflexivity | rewrite IHnew; ring].
  - inversion Hnd as [|? ? Hnot Hnd']; subst.
    rewrite (Qsum_map_ext _ (fun c => (if Z.eqb x c then d else 0) + lookup0 idx deltas c)).
    + rewrite Qsum_map_plus, Qsum_delta_one, IH; auto.
      * rewrite Qsum_cons. reflexivity.
      * intros y Hy. apply Hsub. right. exact Hy.
      * apply Hsub. left. reflexivity.
    + intros c _. unfold lookup0. simpl. destruct (Z.eqb_spec x c) as [->|_].
      * destruct (lookup idx deltas c) eqn:E; [|ring].
        exfalso. apply Hnot. clear - E Hl. injection Hl as Hl. revert deltas Hl E.
        induction idx as [|y idx IH2]; intros [|e deltas] Hl E; simpl in *; try discriminate.
        destruct (Z.eqb_spec y c) as [->|]; [left; reflexivity | right; eapply IH2; eauto].
      * ring.
Qed.

Theorem upweight_preserves_mean deltas idx new_idx sf :
  incr (cfgs idx) -> incr (cfgs new_idx) ->
  List.length (cfgs idx) = List.length deltas ->
  (forall x, In x (cfgs idx) -> In x (cfgs new_idx)) -> cfgs idx <> [] -> cfgs new_idx <> [] ->
  Qsum (map (expand_spec deltas idx new_idx sf) (cfgs new_idx)) / Qlen (cfgs new_idx)
  == sf * (Qsum deltas / Qlen (cfgs idx)).
Proof.
  intros Hi Hn Hl Hsub Hne Hnn. unfold expand_spec.
  assert (Hp1 : 0 < Qlen (cfgs idx)) by (apply Qlen_pos; exact Hne).
  assert (Hp2 : 0 < Qlen (cfgs new_idx)) by (apply Qlen_pos; exact Hnn).
  set (k := Qlen (cfgs new_idx) / Qlen (cfgs idx) * sf).
  rewrite (Qsum_map_ext _ (fun c => lookup0 (cfgs idx) deltas c * k)) by (intros; unfold k; field; lra).
  rewrite Qsum_map_scale_r, Qsum_lookup0_subset; auto using incr_NoDup.
  unfold k. field. lra.
Qed.
