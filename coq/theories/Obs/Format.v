(* Exact digit model of value(error) printing (pyerrors/obs.py _format_uncertainty, Obs.__format__,
   CObs.__format__) and of the prior-string parser (fits.py _extract_val_and_dval).
   A binary64 number is a rational; Python's format(x, '.kf') is the correctly rounded (half-even on the
   exact value) decimal with k places, so [fixd k x] below is an exact model of the printed digits. *)
From Coq Require Import ZArith NArith QArith Qabs Qround List Bool String Ascii Lia Lqa Decimal DecimalString.
From PV Require Import Base.QAux.
Import ListNotations.
Open Scope Q_scope.

(* ------------------------------------------------------------------ rounding *)
Definition rne (x : Q) : Z :=
  let f := Qfloor x in
  match Qcompare (x - inject_Z f) (1 # 2) with
  | Lt => f
  | Gt => (f + 1)%Z
  | Eq => if Z.even f then f else (f + 1)%Z
  end.

Lemma rne_half x : Qabs (inject_Z (rne x) - x) <= 1 # 2.
Proof.
  unfold rne. set (f := Qfloor x).
  assert (H1 : inject_Z f <= x) by apply Qfloor_le.
  assert (H2 : x < inject_Z (f + 1)) by apply Qlt_floor.
  rewrite inject_Z_plus in H2. change (inject_Z 1) with 1 in H2.
  destruct (Qcompare_spec (x - inject_Z f) (1 # 2)) as [E|L|G].
  - destruct (Z.even f).
    + apply Qabs_Qle_condition. split; lra.
    + rewrite inject_Z_plus. change (inject_Z 1) with 1. apply Qabs_Qle_condition. split; lra.
  - apply Qabs_Qle_condition. split; lra.
  - rewrite inject_Z_plus. change (inject_Z 1) with 1. apply Qabs_Qle_condition. split; lra.
Qed.

Definition pow10 (k : nat) : Q := inject_Z (10 ^ Z.of_nat k).
Lemma pow10_pos k : 0 < pow10 k.
Proof. unfold pow10. change 0 with (inject_Z 0). rewrite <- Zlt_Qlt. apply Z.pow_pos_nonneg; lia. Qed.

(* the integer printed by format(x, '.kf') (without the decimal point) *)
Definition fixd (k : nat) (x : Q) : Z := rne (x * pow10 k).

(* half a unit of the last printed digit *)
Lemma fixd_half_unit k x : Qabs (inject_Z (fixd k x) / pow10 k - x) <= (1 # 2) / pow10 k.
Proof.
  unfold fixd. pose proof (pow10_pos k) as Hp. pose proof (rne_half (x * pow10 k)) as H.
  apply Qabs_Qle_condition in H. destruct H as [Ha Hb].
  apply Qabs_Qle_condition.
  assert (E : inject_Z (rne (x * pow10 k)) / pow10 k - x == (inject_Z (rne (x * pow10 k)) - x * pow10 k) / pow10 k) by (field; lra).
  rewrite E. clear E. set (u := inject_Z (rne (x * pow10 k)) - x * pow10 k) in *.
  assert (Hi : 0 < / pow10 k) by (apply Qinv_lt_0_compat; exact Hp).
  unfold Qdiv. split.
  - setoid_replace (- ((1 # 2) * / pow10 k)) with ((- (1 # 2)) * / pow10 k) by ring.
    apply Qmult_le_compat_r; lra.
  - apply Qmult_le_compat_r; lra.
Qed.

(* ------------------------------------------------------------------ binary64 rounding of a product *)
Definition pow2Q (e : Z) : Q := if (0 <=? e)%Z then inject_Z (2 ^ e) else 1 # (Z.to_pos (2 ^ (- e))).
Lemma pow2Q_pos e : 0 < pow2Q e.
Proof.
  unfold pow2Q. destruct (0 <=? e)%Z eqn:E.
  - change 0 with (inject_Z 0). rewrite <- Zlt_Qlt. apply Z.pow_pos_nonneg; lia.
  - reflexivity.
Qed.

(* exponent of the unit in the last place of a positive x: 2^52 <= x / 2^e < 2^53 *)
Definition ulp_exp (x : Q) : Z :=
  let e0 := (Z.log2 (Qnum x) - Z.log2 (QDen x) - 53)%Z in
  if Qle_bool (pow2Q 53) (x / pow2Q e0) then (e0 + 1)%Z else e0.
Definition b64_at (e : Z) (x : Q) : Q := inject_Z (rne (x / pow2Q e)) * pow2Q e.
Definition normal_at (e : Z) (x : Q) : bool := Qle_bool (pow2Q 52 * pow2Q e) x.
Definition b64 (x : Q) : Q :=
  match Qnum x with
  | Z0 => 0
  | Zpos _ => b64_at (ulp_exp x) x
  | Zneg _ => - b64_at (ulp_exp (- x)) (- x)
  end.

Lemma b64_at_err e x : Qabs (b64_at e x - x) <= (1 # 2) * pow2Q e.
Proof.
  unfold b64_at. pose proof (pow2Q_pos e) as Hp. pose proof (rne_half (x / pow2Q e)) as H.
  apply Qabs_Qle_condition in H. destruct H as [Ha Hb]. apply Qabs_Qle_condition.
  set (m := inject_Z (rne (x / pow2Q e))) in *.
  assert (E : m * pow2Q e - x == (m - x / pow2Q e) * pow2Q e) by (field; lra).
  rewrite E. split.
  - setoid_replace (- ((1 # 2) * pow2Q e)) with ((- (1 # 2)) * pow2Q e) by ring.
    apply Qmult_le_compat_r; lra.
  - apply Qmult_le_compat_r; lra.
Qed.

(* relative error 2^-53 whenever the chosen exponent is (checked to be) the normalised one *)
Lemma b64_at_rel e x : normal_at e x = true -> Qabs (b64_at e x - x) <= x / pow2Q 53.
Proof.
  intro H. apply Qle_bool_iff in H. eapply Qle_trans; [apply b64_at_err|].
  pose proof (pow2Q_pos e) as Hp.
  assert (E52 : pow2Q 52 == inject_Z (2 ^ 52)) by reflexivity.
  assert (E53 : pow2Q 53 == 2 * pow2Q 52) by (vm_compute; reflexivity).
  assert (P52 : 0 < pow2Q 52) by apply pow2Q_pos.
  rewrite E53. apply Qle_shift_div_l; [lra|]. lra.
Qed.

(* ------------------------------------------------------------------ rendering *)
Definition digits (z : Z) : string := NilZero.string_of_uint (N.to_uint (Z.to_N z)).
Fixpoint zeros_s (n : nat) : string := match n with O => EmptyString | S k => String "0" (zeros_s k) end.
Definition pad_left0 (k : nat) (s : string) : string := zeros_s (k - String.length s) ++ s.
Fixpoint spaces (n : nat) : string := match n with O => EmptyString | S k => String " " (spaces k) end.
Definition pad_width (w : nat) (s : string) : string := spaces (w - String.length s) ++ s.

(* format(x, '.kf'): sign of x, integer part, '.', k fractional digits *)
Definition render_fixed (k : nat) (x : Q) : string :=
  let z := Z.abs (fixd k x) in
  let p := (10 ^ Z.of_nat k)%Z in
  ((if Qltb x 0 then "-" else "") ++ digits (z / p)
   ++ (match k with O => "" | _ => "." ++ pad_left0 k (digits (z mod p)) end))%string.

Definition Qpow10Z (e : Z) : Q := if (0 <=? e)%Z then inject_Z (10 ^ e) else 1 # (Z.to_pos (10 ^ (- e))).

(* floor(log10 d) for d > 0, searched upwards from -60 with fuel *)
Fixpoint fexp_from (fuel : nat) (e : Z) (d : Q) : Z :=
  match fuel with
  | O => e
  | S f => if Qle_bool (Qpow10Z (e + 1)) d then fexp_from f (e + 1)%Z d else e
  end.
Definition fexp_of (d : Q) : Z := fexp_from 130 (-60)%Z d.
Definition fexp_in_range (d : Q) : bool := Qle_bool (Qpow10Z (-60)) d && Qltb d (Qpow10Z 60).
(* d within 2^-44 (relative) of a power of ten from below: numpy's log10 may round up to the integer *)
Definition near_pow10_below (d : Q) : bool :=
  let e := fexp_of d in Qltb (Qpow10Z (e + 1) * (1 - (1 # 2 ^ 44))) d.

Record printed := mkPrinted {
  p_neg : bool; p_vdigits : Z; p_vplaces : nat;      (* value: |digits| / 10^places, sign *)
  p_edigits : Z; p_eplaces : nat;                    (* error: digits / 10^places *)
  p_text : string }.

(* _format_uncertainty(value, dvalue, significance) for finite dvalue > 0, significance >= 1 *)
Definition format_uncertainty (v d : Q) (sig : nat) : printed :=
  let fe := fexp_of d in
  if (fe <? 0)%Z then
    let k := (Z.to_nat (- fe) + sig - 1)%nat in
    let e := rne (b64 (d * pow10 k)) in
    mkPrinted (Qltb v 0) (Z.abs (fixd k v)) k e k
      (render_fixed k v ++ "(" ++ pad_width 1 (digits e) ++ ")")%string
  else if (fe =? 0)%Z then
    let k := (sig - 1)%nat in
    mkPrinted (Qltb v 0) (Z.abs (fixd k v)) k (fixd k d) k
      (render_fixed k v ++ "(" ++ pad_width 1 (render_fixed k d) ++ ")")%string
  else
    let k := (sig - Z.to_nat fe - 1)%nat in
    mkPrinted (Qltb v 0) (Z.abs (fixd k v)) k (fixd k d) k
      (render_fixed k v ++ "(" ++ pad_width 2 (render_fixed k d) ++ ")")%string.

(* the numbers denoted by the printed string *)
Definition denoted_value (p : printed) : Q := (if p_neg p then -1 else 1) * inject_Z (p_vdigits p) / pow10 (p_vplaces p).
Definition denoted_error (p : printed) : Q := inject_Z (p_edigits p) / pow10 (p_eplaces p).

(* Obs.__format__ flags: only the leading character *)
Definition with_flag (flag : string) (s : string) : string :=
  match flag, s with
  | String c EmptyString, String c0 _ => if Ascii.eqb c0 "-" then s else String c s
  | _, _ => s
  end.
(* CObs.__format__: (re:{flag}{sig}  im:+{sig} j) *)
Definition format_cobs (flag : string) (re dre im dim : Q) (sig : nat) : string :=
  ("(" ++ with_flag flag (p_text (format_uncertainty re dre sig))
       ++ with_flag "+" (p_text (format_uncertainty im dim sig)) ++ "j)")%string.

(* _extract_val_and_dval on a printed token record: the error token is scaled by 10^-places exactly when the
   value token contains '.' and the error token does not *)
Definition error_token_has_dot (fe : Z) (k : nat) : bool := (0 <=? fe)%Z && negb (Nat.eqb k 0).
Definition parse_printed (fe : Z) (p : printed) : Q * Q :=
  let value_has_dot := negb (Nat.eqb (p_vplaces p) 0) in
  let etoken := if (fe <? 0)%Z then inject_Z (p_edigits p) else inject_Z (p_edigits p) / pow10 (p_eplaces p) in
  let factor := if value_has_dot && negb (error_token_has_dot fe (p_eplaces p)) then 1 / pow10 (p_vplaces p) else 1 in
  (denoted_value p, etoken * factor).

(* ------------------------------------------------------------------ THEOREMS *)
Lemma Zabs_sign_Q (z : Z) (x : Q) (neg : bool) :
  (neg = true -> inject_Z z <= 0) -> (neg = false -> 0 <= inject_Z z) ->
  (if neg then -1 else 1) * inject_Z (Z.abs z) == inject_Z z.
Proof.
  intros Hn Hp. destruct neg.
  - specialize (Hn eq_refl). assert (Hz : (z <= 0)%Z) by (rewrite Zle_Qle; exact Hn). rewrite Z.abs_neq by lia. rewrite inject_Z_opp. ring.
  - specialize (Hp eq_refl). assert (Hz : (0 <= z)%Z) by (rewrite Zle_Qle; exact Hp). rewrite Z.abs_eq by lia. ring.
Qed.

Lemma rne_nonneg x : 0 <= x -> (0 <= rne x)%Z.
Proof.
  intro H. unfold rne.
  assert (Hf : (0 <= Qfloor x)%Z). { change 0%Z with (Qfloor 0). apply Qfloor_resp_le. exact H. }
  destruct (Qcompare _ _); [destruct (Z.even _)| |]; lia.
Qed.
Lemma rne_nonpos x : x <= 0 -> (rne x <= 0)%Z.
Proof.
  intro H. unfold rne.
  assert (Hf : (Qfloor x <= 0)%Z). { change 0%Z with (Qfloor 0). apply Qfloor_resp_le. exact H. }
  destruct (Qcompare_spec (x - inject_Z (Qfloor x)) (1 # 2)) as [E|L|G].
  - assert (Hlt : (Qfloor x < 0)%Z).
    { apply Z.le_neq. split; [exact Hf|]. intro E0. rewrite E0 in E. change (inject_Z 0) with 0 in E. lra. }
    destruct (Z.even _); lia.
  - exact Hf.
  - assert (Hlt : (Qfloor x < 0)%Z).
    { apply Z.le_neq. split; [exact Hf|]. intro E0. rewrite E0 in G. change (inject_Z 0) with 0 in G. lra. }
    lia.
Qed.

(* the printed value denotes a number within half a unit of the last printed digit of the value *)
Theorem printed_value_half_unit v d sig :
  let p := format_uncertainty v d sig in
  Qabs (denoted_value p - v) <= (1 # 2) / pow10 (p_vplaces p).
Proof.
  cbv zeta.
  assert (G : forall k, Qabs ((if Qltb v 0 then -1 else 1) * inject_Z (Z.abs (fixd k v)) / pow10 k - v) <= (1 # 2) / pow10 k).
  { intro k. pose proof (pow10_pos k) as Hp.
    assert (E : (if Qltb v 0 then -1 else 1) * inject_Z (Z.abs (fixd k v)) == inject_Z (fixd k v)).
    { apply (Zabs_sign_Q _ v).
      - intro Hn. apply Qltb_lt in Hn. change 0 with (inject_Z 0). rewrite <- Zle_Qle. apply rne_nonpos.
        setoid_replace 0 with (0 * pow10 k) by ring. apply Qmult_le_compat_r; lra.
      - intro Hn. change 0 with (inject_Z 0). rewrite <- Zle_Qle. apply rne_nonneg.
        assert (0 <= v). { destruct (Qlt_le_dec v 0) as [L|L]; [apply Qltb_lt in L; congruence | exact L]. }
        apply Qmult_le_0_compat; lra. }
    unfold Qdiv at 1. rewrite E. apply fixd_half_unit. }
  unfold format_uncertainty.
  destruct (fexp_of d <? 0)%Z; [|destruct (fexp_of d =? 0)%Z]; unfold denoted_value; cbn [p_neg p_vdigits p_vplaces]; apply G.
Qed.

(* the printed error (error at least 1: branches fexp >= 0) denotes a number within half a unit of its last digit *)
Theorem printed_error_half_unit_ge1 v d sig :
  (0 <=? fexp_of d)%Z = true -> 0 <= d ->
  let p := format_uncertainty v d sig in
  Qabs (denoted_error p - d) <= (1 # 2) / pow10 (p_eplaces p).
Proof.
  intros H Hd. cbv zeta. unfold format_uncertainty.
  assert (Hlt : (fexp_of d <? 0)%Z = false) by (apply Z.ltb_ge; apply Z.leb_le in H; exact H).
  rewrite Hlt.
  destruct (fexp_of d =? 0)%Z; unfold denoted_error; cbn [p_edigits p_eplaces]; apply fixd_half_unit.
Qed.

(* error below 1: the mantissa d*10^k is first rounded to binary64 (the code multiplies in floating point), then to
   an integer: half a unit plus the binary64 rounding error *)
Theorem printed_error_half_unit_lt1 v d sig :
  (fexp_of d <? 0)%Z = true -> 0 < d ->
  let p := format_uncertainty v d sig in
  let x := d * pow10 (p_eplaces p) in
  normal_at (ulp_exp x) x = true ->
  Qabs (inject_Z (p_edigits p) - x) <= (1 # 2) + x / pow2Q 53.
Proof.
  intros H Hd. cbv zeta. unfold format_uncertainty. rewrite H. cbn [p_edigits p_eplaces].
  set (k := (Z.to_nat (- fexp_of d) + sig - 1)%nat). set (x := d * pow10 k). intro Hn.
  assert (Hx : 0 < x). { unfold x. apply Qmult_lt_0_compat; [exact Hd | apply pow10_pos]. }
  assert (Hb : b64 x = b64_at (ulp_exp x) x).
  { unfold b64. destruct x as [n m]. unfold Qlt in Hx. simpl in Hx. destruct n; try lia. reflexivity. }
  rewrite Hb.
  pose proof (rne_half (b64_at (ulp_exp x) x)) as H1. pose proof (b64_at_rel _ _ Hn) as H2.
  apply Qabs_Qle_condition in H1. apply Qabs_Qle_condition in H2. apply Qabs_Qle_condition.
  destruct H1, H2. split; lra.
Qed.

(* the parser recovers exactly the denoted numbers *)
Theorem parse_recovers_denoted v d sig :
  (1 <= sig)%nat ->
  let p := format_uncertainty v d sig in
  let r := parse_printed (fexp_of d) p in
  fst r == denoted_value p /\ snd r == denoted_error p.
Proof.
  intro Hsig. cbv zeta. unfold parse_printed, format_uncertainty, error_token_has_dot.
  destruct (fexp_of d <? 0)%Z eqn:E1.
  - cbn [fst snd p_vplaces p_eplaces p_edigits]. split; [reflexivity|].
    assert (E0 : (0 <=? fexp_of d)%Z = false) by (apply Z.leb_gt; apply Z.ltb_lt in E1; exact E1).
    rewrite E0. cbn [andb negb]. unfold denoted_error. cbn [p_edigits p_eplaces].
    set (k := (Z.to_nat (- fexp_of d) + sig - 1)%nat).
    assert (Hk : Nat.eqb k 0 = false).
    { apply Nat.eqb_neq. unfold k. apply Z.ltb_lt in E1. lia. }
    rewrite Hk. cbn [negb andb]. pose proof (pow10_pos k). field. lra.
  - assert (E0 : (0 <=? fexp_of d)%Z = true) by (apply Z.leb_le; apply Z.ltb_ge in E1; exact E1).
    rewrite E0.
    destruct (fexp_of d =? 0)%Z; cbn [fst snd p_vplaces p_eplaces p_edigits]; (split; [reflexivity|]);
      unfold denoted_error; cbn [p_edigits p_eplaces];
      match goal with |- context [Nat.eqb ?k 0] => destruct (Nat.eqb k 0); cbn [negb andb] end;
      match goal with |- context [pow10 ?k] => pose proof (pow10_pos k) end; try (field; lra); ring.
Qed.

(* value and error are printed to the same decimal place *)
Theorem same_decimal_place v d sig :
  let p := format_uncertainty v d sig in p_vplaces p = p_eplaces p.
Proof.
  cbv zeta. unfold format_uncertainty.
  destruct (fexp_of d <? 0)%Z; [|destruct (fexp_of d =? 0)%Z]; reflexivity.
Qed.

(* flags only affect the leading character *)
Theorem flag_only_leading_char c s :
  with_flag (String c EmptyString) s = s \/ with_flag (String c EmptyString) s = String c s.
Proof. unfold with_flag. destruct s as [|c0 s]; [left; reflexivity|]. destruct (Ascii.eqb c0 "-"); auto. Qed.

(* ------------------------------------------------------------------ correspondence verdicts *)
Record fcase := mkFC {
  fc_v : Q; fc_d : Q; fc_sig : nat; fc_flag : string;
  fc_str : string;                 (* format(obs, flag+sig) *)
  fc_parsed : option (Q * Q);      (* _extract_val_and_dval(str) when attempted *)
  fc_prior : option (Q * Q) }.     (* value, dvalue of the prior observable built from the string *)

Definition fcase_skip (c : fcase) : bool :=
  negb (fexp_in_range (fc_d c)) || near_pow10_below (fc_d c)
  || (let fe := fexp_of (fc_d c) in (fe <? 0)%Z &&
        (let k := (Z.to_nat (- fe) + fc_sig c - 1)%nat in
         Nat.ltb 22 k
         || (let x := fc_d c * pow10 k in
             negb (normal_at (ulp_exp x) x)
             (* within 2^-40 of a tie of the integer rounding, or of the binary64 rounding: do not risk characters *)
             || Qltb (Qabs (Qabs (b64 x - inject_Z (Qfloor (b64 x))) - (1 # 2))) (1 # 2 ^ 40)))).

Definition fcase_model_ok (c : fcase) : bool :=
  fcase_skip c ||
  String.eqb (fc_str c) (with_flag (fc_flag c) (p_text (format_uncertainty (fc_v c) (fc_d c) (fc_sig c)))).

Definition rel_close (a b : Q) : bool := closeb (1 # 2 ^ 48) 0 a b.
(* spec verdict, independent of the rendering: the numbers read back from the implementation's string (by the
   implementation's own parser) are within half a unit (+ binary64 slack) of value and error, and the prior built
   from the string has exactly that value and error *)
Definition fcase_spec_ok (c : fcase) : bool :=
  fcase_skip c ||
  (let p := format_uncertainty (fc_v c) (fc_d c) (fc_sig c) in
   let unit := 1 / pow10 (p_vplaces p) in
   match fc_parsed c with
   | None => true
   | Some (pv, pd) =>
       Qleb (Qabs (pv - fc_v c)) ((1 # 2) * unit * (1 + (1 # 2 ^ 40)) + Qabs (fc_v c) / pow2Q 50)
       && Qleb (Qabs (pd - fc_d c)) ((1 # 2) * unit * (1 + (1 # 2 ^ 40)) + fc_d c / pow2Q 50)
       && match fc_prior c with
          | None => true
          | Some (qv, qd) => rel_close qv pv && rel_close qd pd
          end
   end).

(* scalar views *)
Record vcase := mkVC { vc_v : Q; vc_d : Q; vc_x : Q; vc_sigma : Q;
                       vc_lt : bool; vc_le : bool; vc_gt : bool; vc_ge : bool; vc_float : Q; vc_zero_within : bool }.
Definition vcase_ok (c : vcase) : bool :=
  Bool.eqb (vc_lt c) (Qltb (vc_v c) (vc_x c)) && Bool.eqb (vc_le c) (Qleb (vc_v c) (vc_x c))
  && Bool.eqb (vc_gt c) (Qltb (vc_x c) (vc_v c)) && Bool.eqb (vc_ge c) (Qleb (vc_x c) (vc_v c))
  && Qeqb (vc_float c) (vc_v c)
  && Bool.eqb (vc_zero_within c) (Qleb (Qabs (vc_v c)) (vc_sigma c * vc_d c)).

Record ccase := mkCC { cc_flag : string; cc_re : Q; cc_dre : Q; cc_im : Q; cc_dim : Q; cc_sig : nat; cc_str : string }.
Definition ccase_skip (c : ccase) : bool :=
  fcase_skip (mkFC (cc_re c) (cc_dre c) (cc_sig c) "" "" None None) || fcase_skip (mkFC (cc_im c) (cc_dim c) (cc_sig c) "" "" None None).
Definition ccase_ok (c : ccase) : bool :=
  ccase_skip c || String.eqb (cc_str c) (format_cobs (cc_flag c) (cc_re c) (cc_dre c) (cc_im c) (cc_dim c) (cc_sig c)).
