(* Soundness of the remaining interval verdicts of C08 - C10 / C16 (Fit/Implicit.v): a positive answer of

     equations_hold   (a root / an integral / a fit parameter satisfies its equation)
     eq_holds         (a defining identity of a matrix operation holds)
     closed_form_ok   (the solution agrees with a closed form)
     fit_chisq_ok     (the reported chi-square is the objective at the solution)          -- through [within]

   implies the corresponding inequality between REAL numbers: the residual of the real-valued equation at the solution, the real
   partial derivatives (Xderive_pt) and the rational data.  Together with Fit/ImplicitTop.v / TlsTop.v (implicit_ok) every verdict
   the correspondence checks of C08 - C10 use is now covered by a soundness theorem. *)
From Coq Require Import ZArith QArith Reals List Bool Lia Lra Qreals.
From Interval Require Import Float.Specific_ops Interval.Float_full Interval.Interval Real.Xreal Real.Xreal_derive Float.Basic.
From PV Require Import Base.RI Base.Expr Base.ExprFold Obs.Model Fit.Implicit Fit.ImplicitTop.
Import ListNotations.
Local Open Scope R_scope.

Lemma certainly_le_sound a b ra rb :
  certainly_le a b = true -> contains (I.convert a) (Xreal ra) -> contains (I.convert b) (Xreal rb) -> ra <= rb.
Proof.
  unfold certainly_le. intros H Ha Hb.
  pose proof (I.sign_large_correct (I.sub prec b a)) as S.
  pose proof (I.sub_correct prec b a (Xreal rb) (Xreal ra) Hb Ha) as C. cbn [Xsub] in C.
  destruct (I.sign_large (I.sub prec b a)); try discriminate.
  - specialize (S _ C). injection S as S. lra.
  - destruct (S _ C) as [_ S']. cbn [proj_val] in S'. lra.
Qed.

Lemma Xq_is_real q : Xq q = Xreal (Q2R q).
Proof. apply Xq_real. Qed.

Lemma qI_real q : contains (I.convert (qI q)) (Xreal (Q2R q)).
Proof. rewrite <- Xq_is_real. apply qI_correct. Qed.
Lemma zI_real z : contains (I.convert (zI z)) (Xreal (IZR z)).
Proof. apply zI_correct. Qed.

Lemma abs_real i r : contains (I.convert i) (Xreal r) -> contains (I.convert (I.abs i)) (Xreal (Rabs r)).
Proof. intro H. exact (I.abs_correct i (Xreal r) H). Qed.
Lemma mul_real i j a b : contains (I.convert i) (Xreal a) -> contains (I.convert j) (Xreal b) ->
  contains (I.convert (I.mul prec i j)) (Xreal (a * b)).
Proof. intros H1 H2. exact (I.mul_correct prec i j (Xreal a) (Xreal b) H1 H2). Qed.
Lemma add_real i j a b : contains (I.convert i) (Xreal a) -> contains (I.convert j) (Xreal b) ->
  contains (I.convert (I.add prec i j)) (Xreal (a + b)).
Proof. intros H1 H2. exact (I.add_correct prec i j (Xreal a) (Xreal b) H1 H2). Qed.
Lemma sub_real i j a b : contains (I.convert i) (Xreal a) -> contains (I.convert j) (Xreal b) ->
  contains (I.convert (I.sub prec i j)) (Xreal (a - b)).
Proof. intros H1 H2. exact (I.sub_correct prec i j (Xreal a) (Xreal b) H1 H2). Qed.

(* the value of a guarded expression at the rational point l is a real number, enclosed by evalI *)
Lemma value_enclosed l e : guardsI (qenvI l) e = true ->
  exists r, evalX (renv (qenvR l)) e = Xreal r /\ contains (I.convert (evalI (qenvI l) e)) (Xreal r).
Proof.
  intro G. pose proof (guardsI_sound (qenvR l) (qenvI l) e (qenv_contains l) G) as GR.
  destruct (guards_real (qenvR l) e GR) as [r Er]. exists r. split; [exact Er|]. rewrite <- Er. apply evalI_on_rationals.
Qed.
Lemma derivative_enclosed l e j : guardsI (qenvI l) e = true ->
  contains (I.convert (evalI (qenvI l) (Dfold e j))) (Xreal (dval l e j))
  /\ Xderive_pt (fun t => evalX (updX (qenvR l) j t) e) (Xreal (qenvR l j)) (Xreal (dval l e j)).
Proof.
  intro G. destruct (certified_derivative l e j G) as [Dv [En GR]].
  destruct (guards_real (qenvR l) _ GR) as [d Ed]. unfold dval. rewrite Ed in *. cbn [proj_val]. split; assumption.
Qed.

(* ------------------------------------------------------------------ eq_holds *)
Definition real_scale (l : list Q) (uvals : list Q) (eq : expr) (js : list nat) : R :=
  fold_right (fun j acc => Rabs (dval l eq j) * (1 + Rabs (Q2R (nth j uvals 0%Q))) + acc) 0 js.

Lemma scale_enclosed l uvals eq js : guardsI (qenvI l) eq = true ->
  contains (I.convert (fold_right (fun j acc => I.add prec (I.mul prec (I.abs (evalI (qenvI l) (Dfold eq j)))
                                                   (I.add prec (zI 1) (I.abs (qI (nth j uvals 0%Q))))) acc) (zI 0) js))
           (Xreal (real_scale l uvals eq js)).
Proof.
  intro G. induction js as [|j js IH]; cbn [fold_right real_scale].
  - apply zI_real.
  - apply add_real; [|exact IH]. apply mul_real.
    + apply abs_real. apply (derivative_enclosed l eq j G).
    + apply add_real; [apply zI_real|]. apply abs_real. apply qI_real.
Qed.

(* a positive eq_holds: |eq(v)| <= tol * sum_j |d eq / d u_j (v)| (1 + |u_j|), all quantities real *)
Theorem eq_holds_sound (c : icase) tol eq :
  guardsI (ic_env c) eq = true -> eq_holds c tol eq = true ->
  exists r, evalX (renv (qenvR (ic_uvals c ++ ic_dvals c))) eq = Xreal r
            /\ Rabs r <= Q2R tol * real_scale (ic_uvals c ++ ic_dvals c) (ic_uvals c) eq (seq 0 (ic_nu c)).
Proof.
  unfold ic_env, eq_holds. cbv zeta. intros G H.
  destruct (value_enclosed _ _ G) as [r [Er Cr]]. exists r. split; [exact Er|].
  refine (certainly_le_sound _ _ _ _ H _ _).
  - apply abs_real. exact Cr.
  - apply mul_real; [apply qI_real|]. unfold ic_env. apply scale_enclosed. exact G.
Qed.

(* ------------------------------------------------------------------ equations_hold *)
Theorem equations_hold_sound (c : icase) tol i :
  (i < ic_nu c)%nat -> guardsI (ic_env c) (nth i (ic_eqs c) (EC 0)) = true -> equations_hold c tol = true ->
  let l := (ic_uvals c ++ ic_dvals c)%list in let eq := nth i (ic_eqs c) (EC 0) in
  exists r, evalX (renv (qenvR l)) eq = Xreal r
            /\ Rabs r <= Q2R tol * (Rabs (dval l eq i) * (1 + Rabs (Q2R (nth i (ic_uvals c) 0%Q))))
            /\ Xderive_pt (fun t => evalX (updX (qenvR l) i t) eq) (Xreal (qenvR l i)) (Xreal (dval l eq i)).
Proof.
  intros Hi G H. cbv zeta. unfold equations_hold in H. rewrite forallb_forall in H.
  specialize (H i (proj2 (in_seq _ _ _) (conj (Nat.le_0_l i) Hi))). cbv zeta in H. unfold ic_env in *.
  destruct (value_enclosed _ _ G) as [r [Er Cr]]. exists r. split; [exact Er|].
  destruct (derivative_enclosed _ _ i G) as [Cd Dv]. split; [|exact Dv].
  refine (certainly_le_sound _ _ _ _ H _ _).
  - apply abs_real. exact Cr.
  - apply mul_real; [apply qI_real|]. apply mul_real; [apply abs_real; exact Cd|].
    apply add_real; [apply zI_real|]. apply abs_real. apply qI_real.
Qed.

(* ------------------------------------------------------------------ within, closed_form_ok, fit_chisq_ok *)
Lemma within_sound i v tol r : within i v tol = true -> contains (I.convert i) (Xreal r) -> Rabs (r - Q2R v) < Q2R tol.
Proof.
  unfold within. intros H C.
  pose proof (I.sign_strict_correct (I.add prec (I.sub prec i (qI v)) (qI tol))) as S1.
  pose proof (I.sign_strict_correct (I.sub prec (I.sub prec i (qI v)) (qI tol))) as S2.
  pose proof (add_real _ _ _ _ (sub_real _ _ _ _ C (qI_real v)) (qI_real tol)) as C1.
  pose proof (sub_real _ _ _ _ (sub_real _ _ _ _ C (qI_real v)) (qI_real tol)) as C2.
  destruct (I.sign_strict (I.add prec (I.sub prec i (qI v)) (qI tol))); try discriminate.
  destruct (I.sign_strict (I.sub prec (I.sub prec i (qI v)) (qI tol))); try discriminate.
  destruct (S1 _ C1) as [_ P1]. destruct (S2 _ C2) as [_ P2]. cbn [proj_val] in P1, P2.
  apply Rabs_def1; lra.
Qed.

Theorem closed_form_ok_sound (c : icase) g tol :
  closed_form_ok c g tol = true ->
  exists r, evalX (renv (qenvR (ic_uvals c ++ ic_dvals c))) g = Xreal r
            /\ Rabs (r - Q2R (nth 0 (ic_uvals c) 0%Q)) < Q2R (Qabs.Qabs (nth 0 (ic_uvals c) 0%Q) * tol + tol).
Proof.
  unfold closed_form_ok, ic_env. intro H. apply andb_true_iff in H. destruct H as [G W].
  destruct (value_enclosed _ _ G) as [r [Er Cr]]. exists r. split; [exact Er|]. exact (within_sound _ _ _ _ W Cr).
Qed.

Theorem fit_chisq_ok_sound (c : fitcase) :
  guardsI (qenvI (fc_uvals c ++ fc_dvals c)) (fc_F c) = true -> fit_chisq_ok c = true ->
  exists r, evalX (renv (qenvR (fc_uvals c ++ fc_dvals c))) (fc_F c) = Xreal r
            /\ Rabs (r - Q2R (fc_chisq c)) < Q2R (Qabs.Qabs (fc_chisq c) * fc_tol c + fc_tol c).
Proof.
  unfold fit_chisq_ok. intros G W.
  destruct (value_enclosed _ _ G) as [r [Er Cr]]. exists r. split; [exact Er|]. exact (within_sound _ _ _ _ W Cr).
Qed.

(* ------------------------------------------------------------------ stationary_ok: the fitted parameters are a stationary point *)
Lemma second_derivative_enclosed l F i : guardsI (qenvI l) F = true ->
  contains (I.convert (evalI (qenvI l) (Dfold (Dfold F i) i))) (Xreal (dval l (Dfold F i) i))
  /\ Xderive_pt (fun t => evalX (updX (qenvR l) i t) (Dfold F i)) (Xreal (qenvR l i)) (Xreal (dval l (Dfold F i) i)).
Proof.
  intro G. destruct (certified_derivative l F i G) as [_ [_ GR1]].
  pose proof (Dfold_correct (qenvR l) i (Dfold F i) GR1) as Dv.
  pose proof (guards_Dfold (qenvR l) i (Dfold F i) GR1) as GR2.
  destruct (guards_real (qenvR l) _ GR2) as [d Ed]. unfold dval. rewrite Ed in *. cbn [proj_val].
  split; [rewrite <- Ed; apply evalI_on_rationals|exact Dv].
Qed.

(* a positive stationary_ok: for every parameter u_i the real first derivative g and second derivative h of the objective satisfy
   h > 0 and g^2 <= tol^2 h (1 + |F| + h u_i^2)  -- the Newton step g / h is below tol times the natural scales *)
Theorem stationary_ok_sound F nu l uvals tol i :
  stationary_ok F nu (qenvI l) uvals tol = true -> (i < nu)%nat ->
  exists f, evalX (renv (qenvR l)) F = Xreal f /\
  let g := dval l F i in let h := dval l (Dfold F i) i in let u := Q2R (nth i uvals 0%Q) in
  0 < h /\ g * g <= (Q2R tol * Q2R tol) * (h * ((1 + Rabs f) + h * (u * u)))
  /\ Xderive_pt (fun t => evalX (updX (qenvR l) i t) F) (Xreal (qenvR l i)) (Xreal g)
  /\ Xderive_pt (fun t => evalX (updX (qenvR l) i t) (Dfold F i)) (Xreal (qenvR l i)) (Xreal h).
Proof.
  unfold stationary_ok. intros H Hi. apply andb_true_iff in H. destruct H as [G H].
  rewrite forallb_forall in H. specialize (H i (proj2 (in_seq _ _ _) (conj (Nat.le_0_l i) Hi))). cbv zeta in H.
  destruct (value_enclosed _ _ G) as [f [Ef Cf]]. exists f. split; [exact Ef|]. cbv zeta.
  destruct (derivative_enclosed l F i G) as [Cg Dg]. destruct (second_derivative_enclosed l F i G) as [Ch Dh].
  pose proof (I.sign_strict_correct (evalI (qenvI l) (Dfold (Dfold F i) i))) as S.
  destruct (I.sign_strict (evalI (qenvI l) (Dfold (Dfold F i) i))); try discriminate.
  destruct (S _ Ch) as [_ Hpos]. cbn [proj_val] in Hpos.
  split; [exact Hpos|]. split; [|split; assumption].
  refine (certainly_le_sound _ _ _ _ H _ _).
  - exact (I.sqr_correct prec _ (Xreal (dval l F i)) Cg).
  - apply mul_real.
    + exact (I.sqr_correct prec _ (Xreal (Q2R tol)) (qI_real tol)).
    + apply mul_real; [exact Ch|]. apply add_real.
      * apply add_real; [apply zI_real|apply abs_real; exact Cf].
      * apply mul_real; [exact Ch|]. exact (I.sqr_correct prec _ (Xreal (Q2R (nth i uvals 0%Q))) (qI_real _)).
Qed.
