(* Top-level soundness of the verdict implicit_ok for systems whose unknowns all have result observables (roots, integrals, matrix
   identities, ordinary least squares): a positive verdict implies, for every equation, every row of the fluctuation table (one per
   replica and configuration) and every real argument vector inside that row's enclosures, the real inequality

       | sum_j  (d eq / d v_j)  x_j |   <=   rt * ( sum_j |(d eq / d v_j) x_j|  +  scale )

   where d eq / d v_j are the REAL partial derivatives of the equation at the solution (Xderive_pt, i.e. Reals.derivable_pt_lim). *)
From Coq Require Import ZArith QArith Reals List Bool Lia Lra.
From Interval Require Import Float.Specific_ops Interval.Float_full Interval.Interval Real.Xreal Real.Xreal_derive Float.Basic.
From PV Require Import Base.RI Base.Expr Base.ExprFold Base.Dyadic Base.DyadicR Obs.Model Fit.Implicit.
From PV Require Import Fit.ImplicitSound.
Import ListNotations.
Local Open Scope R_scope.

Definition dval (l : list Q) (eq : expr) (j : nat) : R := proj_val (evalX (renv (qenvR l)) (Dfold eq j)).

(* the j-th coefficient enclosure of an equation's row encloses the real partial derivative, which is the derivative *)
Lemma coefficient_enclosed l eq j : guardsI (qenvI l) eq = true ->
  encl (i2d (evalI (qenvI l) (Dfold eq j))) (dval l eq j)
  /\ Xderive_pt (fun t => evalX (updX (qenvR l) j t) eq) (Xreal (qenvR l j)) (Xreal (dval l eq j)).
Proof.
  intro G. destruct (certified_derivative l eq j G) as [Dv [En GR]].
  destruct (guards_real (qenvR l) _ GR) as [d Ed]. unfold dval. rewrite Ed in *. cbn [proj_val]. split; [|exact Dv].
  destruct (i2d (evalI (qenvI l) (Dfold eq j))) as [[a b]|] eqn:E; cbn [encl]; [|exact I].
  exact (i2d_correct _ a b d E En).
Qed.

Lemma row_enclosed l eq : guardsI (qenvI l) eq = true -> forall cols,
  Forall2 encl (map i2d (map (fun j => evalI (qenvI l) (Dfold eq j)) cols)) (map (dval l eq) cols).
Proof. intros G cols. induction cols as [|j cols IH]; cbn; constructor; [apply (coefficient_enclosed l eq j G) | exact IH]. Qed.

Lemma dforms_ok_In rt scale sizes s : dforms_ok rt scale sizes = true -> In s sizes ->
  exists res, s = Some res /\ dleb (fst res) (dmul rt (dadd (snd res) scale)) = true.
Proof.
  unfold dforms_ok. intros H Hin. rewrite forallb_forall in H. specialize (H s Hin).
  destruct s as [[r a]|]; [|discriminate]. exists (r, a). split; [reflexivity | exact H].
Qed.

Theorem implicit_ok_sound (c : icase) (i : nat) (xs : list (dy * dy)) (xrs : list R) :
  ic_nv c = ic_nu c -> implicit_ok c = true -> (0 <= dR (fst (dexact (ic_rt c))))%R ->
  (i < length (ic_eqs c))%nat ->
  In xs (dfluct_table (ic_uobs c) (ic_dobs c)) -> Forall2 enclx xs xrs ->
  let l := ic_uvals c ++ ic_dvals c in
  let eq := nth i (ic_eqs c) (EC 0%Q) in
  let cols := seq 0 (ic_nu c + length (ic_dvals c)) in
  let ds := map (dval l eq) cols in
  (forall j, In j cols -> Xderive_pt (fun t => evalX (updX (qenvR l) j t) eq) (Xreal (qenvR l j)) (Xreal (dval l eq j)))
  /\ exists scale, Rabs (rsum ds xrs) <= dR (fst (dexact (ic_rt c))) * (rasum ds xrs + dR scale).
Proof.
  intros Hv Hok Hrt Hi Hin Hx l eq cols ds.
  unfold implicit_ok in Hok. rewrite Hv, Nat.sub_diag, Nat.eqb_refl in Hok. cbn [seq eliminate] in Hok.
  apply andb_true_iff in Hok. destruct Hok as [Hok Hrows]. apply andb_true_iff in Hok. destruct Hok as [_ Hg].
  rewrite forallb_forall in Hg. rewrite forallb_forall in Hrows.
  assert (Ein : In eq (ic_eqs c)) by (apply nth_In; exact Hi).
  assert (G : guardsI (qenvI l) eq = true) by (apply Hg; exact Ein).
  split; [intros j _; apply (coefficient_enclosed l eq j G)|].
  specialize (Hrows i). rewrite in_seq in Hrows. specialize (Hrows ltac:(lia)). cbv zeta in Hrows.
  apply andb_true_iff in Hrows. destruct Hrows as [Hf _].
  unfold jacobian in Hf. rewrite (nth_indep _ [] (map (fun j => evalI (ic_env c) (Dfold (EC 0%Q) j)) (seq 0 (ic_nu c + length (ic_dvals c))))) in Hf by (rewrite map_length; exact Hi).
  rewrite (map_nth (fun eq0 => map (fun j => evalI (ic_env c) (Dfold eq0 j)) (seq 0 (ic_nu c + length (ic_dvals c)))) (ic_eqs c) (EC 0%Q) i) in Hf.
  fold eq in Hf. rewrite firstn_skipn in Hf.
  unfold dtable_form_ok in Hf.
  destruct (dforms_ok_In _ _ _ _ Hf (in_map (fun xs0 => dform _ xs0 dzero dzero dzero) _ xs Hin)) as [res [Eres Dres]].
  eexists. eapply (form_decision_sound _ xs ds xrs _ _ res); [| exact Hx | exact Hrt | exact Eres | exact Dres].
  unfold ds, cols. apply (row_enclosed l eq G).
Qed.

(* the same for the covariance-gradient table (one row per covariance input and component) *)
Theorem implicit_ok_sound_cov (c : icase) (i : nat) (xs : list (dy * dy)) (xrs : list R) :
  ic_nv c = ic_nu c -> implicit_ok c = true -> (0 <= dR (fst (dexact (ic_rt c))))%R ->
  (i < length (ic_eqs c))%nat ->
  In xs (dcov_table (ic_uobs c) (ic_dobs c)) -> Forall2 enclx xs xrs ->
  let l := ic_uvals c ++ ic_dvals c in
  let eq := nth i (ic_eqs c) (EC 0%Q) in
  let cols := seq 0 (ic_nu c + length (ic_dvals c)) in
  let ds := map (dval l eq) cols in
  (forall j, In j cols -> Xderive_pt (fun t => evalX (updX (qenvR l) j t) eq) (Xreal (qenvR l j)) (Xreal (dval l eq j)))
  /\ exists scale, Rabs (rsum ds xrs) <= dR (fst (dexact (ic_rt c))) * (rasum ds xrs + dR scale).
Proof.
  intros Hv Hok Hrt Hi Hin Hx l eq cols ds.
  unfold implicit_ok in Hok. rewrite Hv, Nat.sub_diag, Nat.eqb_refl in Hok. cbn [seq eliminate] in Hok.
  apply andb_true_iff in Hok. destruct Hok as [Hok Hrows]. apply andb_true_iff in Hok. destruct Hok as [_ Hg].
  rewrite forallb_forall in Hg. rewrite forallb_forall in Hrows.
  assert (Ein : In eq (ic_eqs c)) by (apply nth_In; exact Hi).
  assert (G : guardsI (qenvI l) eq = true) by (apply Hg; exact Ein).
  split; [intros j _; apply (coefficient_enclosed l eq j G)|].
  specialize (Hrows i). rewrite in_seq in Hrows. specialize (Hrows ltac:(lia)). cbv zeta in Hrows.
  apply andb_true_iff in Hrows. destruct Hrows as [_ Hf].
  unfold jacobian in Hf. rewrite (nth_indep _ [] (map (fun j => evalI (ic_env c) (Dfold (EC 0%Q) j)) (seq 0 (ic_nu c + length (ic_dvals c))))) in Hf by (rewrite map_length; exact Hi).
  rewrite (map_nth (fun eq0 => map (fun j => evalI (ic_env c) (Dfold eq0 j)) (seq 0 (ic_nu c + length (ic_dvals c)))) (ic_eqs c) (EC 0%Q) i) in Hf.
  fold eq in Hf. rewrite firstn_skipn in Hf.
  unfold dtable_form_ok in Hf.
  destruct (dforms_ok_In _ _ _ _ Hf (in_map (fun xs0 => dform _ xs0 dzero dzero dzero) _ xs Hin)) as [res [Eres Dres]].
  eexists. eapply (form_decision_sound _ xs ds xrs _ _ res); [| exact Hx | exact Hrt | exact Eres | exact Dres].
  unfold ds, cols. apply (row_enclosed l eq G).
Qed.
