(* Soundness of the interval Gaussian elimination of hidden unknowns (Fit/Implicit.v: eliminate), used for the fitted abscissae of
   total least squares: every interval row of the result encloses a real row that is a linear combination of the original real
   equations -- hence still annihilates the true solution vector z -- and has exact zeros in the eliminated columns; or the row is
   "poisoned" (a pivot enclosure contained 0) and then all its entries are unbounded, which the verdict rejects. *)
From Coq Require Import ZArith Reals List Bool Lia Lra Permutation.
From Interval Require Import Float.Specific_ops Interval.Float_full Interval.Interval Real.Xreal Float.Basic.
From PV Require Import Base.RI Base.Dyadic Base.DyadicR Fit.Implicit Fit.ImplicitSound.
Import ListNotations.
Local Open Scope R_scope.

(* ------------------------------------------------------------------ list plumbing *)
Lemma nth_map_indexed {A B} (g : nat * A -> B) (l : list A) (dA : A) (dB : B) : forall s i, (i < length l)%nat ->
  nth i (map g (combine (seq s (length l)) l)) dB = g ((s + i)%nat, nth i l dA).
Proof.
  induction l as [|x l IH]; intros s i H; [simpl in H; lia|].
  cbn [length seq combine map]. destruct i as [|i]; [cbn; f_equal; f_equal; lia|].
  cbn [nth]. rewrite (IH (S s) i) by (simpl in H; lia). f_equal. f_equal. lia.
Qed.
Lemma length_map_indexed {A B} (g : nat * A -> B) (l : list A) s : length (map g (combine (seq s (length l)) l)) = length l.
Proof. rewrite map_length, combine_length, seq_length. lia. Qed.

(* ------------------------------------------------------------------ real rows (None = poisoned) *)
Fixpoint raxpy (f : R) (r p : list R) : list R := match r, p with a :: r', b :: p' => (a - f * b) :: raxpy f r' p' | _, _ => [] end.
Definition oaxpy (h : nat) (r p : option (list R)) : option (list R) :=
  match r, p with
  | Some rr, Some pr => if Req_EM_T (nth h pr 0) 0 then None else Some (raxpy (nth h rr 0 / nth h pr 0) rr pr)
  | _, _ => None
  end.
Fixpoint oeliminate (hidden : list nat) (rows : list (option (list R))) : list (option (list R)) :=
  match hidden with
  | [] => rows
  | h :: hs =>
      let piv := nth h rows None in
      oeliminate hs (map (fun rr => if Nat.eqb (fst rr) h then snd rr else oaxpy h (snd rr) piv) (combine (seq 0 (length rows)) rows))
  end.

Definition encl_entry (i : I.type) (r : R) : Prop := contains (I.convert i) (Xreal r).
Definition unbounded (i : I.type) : Prop := contains (I.convert i) Xnan.
Definition encl_row (ir : irow) (o : option (list R)) : Prop :=
  match o with Some rr => Forall2 encl_entry ir rr | None => Forall unbounded ir end.

Definition inhabited (i : I.type) : Prop := exists x, contains (I.convert i) x.
Lemma encl_inhabited i r : encl_entry i r -> inhabited i.
Proof. intro H. exists (Xreal r). exact H. Qed.
Lemma unbounded_inhabited i : unbounded i -> inhabited i.
Proof. intro H. exists Xnan. exact H. Qed.

Lemma sub_unbounded_r a b : inhabited a -> unbounded b -> unbounded (I.sub prec a b).
Proof.
  intros [x Hx] Hb. unfold unbounded. pose proof (I.sub_correct prec a b x Xnan Hx Hb) as K.
  destruct x; exact K.
Qed.
Lemma mul_unbounded_l f b : unbounded f -> inhabited b -> unbounded (I.mul prec f b).
Proof. intros Hf [y Hy]. unfold unbounded. exact (I.mul_correct prec f b Xnan y Hf Hy). Qed.
Lemma mul_unbounded_r f b : inhabited f -> unbounded b -> unbounded (I.mul prec f b).
Proof. intros [x Hx] Hb. unfold unbounded. pose proof (I.mul_correct prec f b x Xnan Hx Hb) as K. destruct x; exact K. Qed.
Lemma div_unbounded_zero a d x : contains (I.convert a) x -> encl_entry d 0 -> unbounded (I.div prec a d).
Proof.
  intros Ha Hd. unfold unbounded. pose proof (I.div_correct prec a d x (Xreal 0) Ha Hd) as K.
  destruct x as [|xr]; [exact K|]. cbn in K. unfold Xdiv' in K. rewrite is_zero_0 in K. exact K.
Qed.
Lemma div_unbounded_l a d : unbounded a -> inhabited d -> unbounded (I.div prec a d).
Proof. intros Ha [y Hy]. unfold unbounded. exact (I.div_correct prec a d Xnan y Ha Hy). Qed.
Lemma div_unbounded_r a d : inhabited a -> unbounded d -> unbounded (I.div prec a d).
Proof. intros [x Hx] Hd. unfold unbounded. pose proof (I.div_correct prec a d x Xnan Hx Hd) as K. destruct x; exact K. Qed.

(* one row operation: row_axpy (r[h] / p[h]) r p *)
Lemma row_inhabited ir o : encl_row ir o -> Forall inhabited ir.
Proof.
  destruct o as [rr|]; cbn.
  - intro H. induction H; constructor; [eapply encl_inhabited; eassumption | assumption].
  - intro H. induction H; constructor; [apply unbounded_inhabited; assumption | assumption].
Qed.

Lemma axpy_unbounded f : forall r p, unbounded f -> Forall inhabited r -> Forall inhabited p -> Forall unbounded (row_axpy f r p).
Proof.
  intros r p Hf Hr. revert p. induction Hr as [|a r Ha Hr IH]; intros p Hp; [constructor|].
  destruct Hp as [|b p Hb Hp]; [constructor|]. cbn. constructor; [|apply IH; exact Hp].
  apply sub_unbounded_r; [exact Ha | apply mul_unbounded_l; assumption].
Qed.
Lemma axpy_unbounded_p f : forall r p, inhabited f -> Forall inhabited r -> Forall unbounded p -> Forall unbounded (row_axpy f r p).
Proof.
  intros r p Hf Hr. revert p. induction Hr as [|a r Ha Hr IH]; intros p Hp; [constructor|].
  destruct Hp as [|b p Hb Hp]; [constructor|]. cbn. constructor; [|apply IH; exact Hp].
  apply sub_unbounded_r; [exact Ha | apply mul_unbounded_r; assumption].
Qed.
Lemma axpy_unbounded_r f : forall r p, Forall unbounded r -> Forall inhabited p -> inhabited f -> Forall unbounded (row_axpy f r p).
Proof.
  intros r p Hr. revert p. induction Hr as [|a r Ha Hr IH]; intros p Hp Hf; [constructor|].
  destruct Hp as [|b p Hb Hp]; [constructor|]. cbn. constructor; [|apply IH; assumption].
  unfold unbounded in *. destruct Hf as [x Hx]. destruct Hb as [y Hy].
  pose proof (I.sub_correct prec a (I.mul prec f b) Xnan (Xmul x y) Ha (I.mul_correct prec f b x y Hx Hy)) as K. exact K.
Qed.
Lemma axpy_encl f fr : forall r p rr pr, encl_entry f fr -> Forall2 encl_entry r rr -> Forall2 encl_entry p pr ->
  Forall2 encl_entry (row_axpy f r p) (raxpy fr rr pr).
Proof.
  intros r p rr pr Hf Hr. revert p pr. induction Hr as [|a ar r rr Ha Hr IH]; intros p pr Hp; [constructor|].
  destruct Hp as [|b br p pr Hb Hp]; [constructor|]. cbn. constructor; [|apply IH; exact Hp].
  unfold encl_entry in *. exact (I.sub_correct prec a (I.mul prec f b) (Xreal ar) (Xreal (fr * br)) Ha (I.mul_correct prec f b (Xreal fr) (Xreal br) Hf Hb)).
Qed.

Lemma nth_encl r rr h : Forall2 encl_entry r rr -> encl_entry (nth h r inan) (nth h rr 0).
Proof.
  intro H. revert h. induction H as [|a ar r rr Ha H IH]; intro h.
  - destruct h; cbn; exact I.
  - destruct h; cbn; [exact Ha | apply IH].
Qed.
Lemma nth_unbounded r h : Forall unbounded r -> unbounded (nth h r inan).
Proof.
  intro H. revert h. induction H as [|a r Ha H IH]; intro h.
  - destruct h; cbn; exact I.
  - destruct h; cbn; [exact Ha | apply IH].
Qed.
Lemma nth_inhabited r o h : encl_row r o -> inhabited (nth h r inan).
Proof.
  destruct o as [rr|]; cbn; intro H.
  - eapply encl_inhabited. apply nth_encl. exact H.
  - apply unbounded_inhabited. apply nth_unbounded. exact H.
Qed.

Lemma step_encl h r p orr opr : encl_row r orr -> encl_row p opr ->
  encl_row (row_axpy (I.div prec (nth h r inan) (nth h p inan)) r p) (oaxpy h orr opr).
Proof.
  intros Hr Hp. pose proof (row_inhabited r orr Hr) as Ir. pose proof (row_inhabited p opr Hp) as Ip.
  destruct orr as [rr|]; destruct opr as [pr|]; cbn [oaxpy encl_row] in *.
  - destruct (Req_EM_T (nth h pr 0) 0) as [Z|NZ]; cbn [encl_row].
    + apply axpy_unbounded; [|exact Ir | exact Ip].
      pose proof (nth_encl r rr h Hr) as A. pose proof (nth_encl p pr h Hp) as B. rewrite Z in B.
      exact (div_unbounded_zero _ _ _ A B).
    + apply axpy_encl; [|exact Hr | exact Hp].
      pose proof (nth_encl r rr h Hr) as A. pose proof (nth_encl p pr h Hp) as B. unfold encl_entry in *.
      pose proof (I.div_correct prec _ _ _ _ A B) as K. cbn [Xbind2] in K. unfold Xdiv', is_zero in K. rewrite (Raux.Req_bool_false _ _ NZ) in K. exact K.
  - apply axpy_unbounded; [|exact Ir | exact Ip]. apply div_unbounded_r; [exact (nth_inhabited r (Some rr) h Hr) | apply nth_unbounded; exact Hp].
  - apply axpy_unbounded_r; [exact Hr | exact Ip |]. apply unbounded_inhabited. apply div_unbounded_l; [apply nth_unbounded; exact Hr | exact (nth_inhabited p (Some pr) h Hp)].
  - apply axpy_unbounded_r; [exact Hr | exact Ip |]. apply unbounded_inhabited. apply div_unbounded_l; [apply nth_unbounded; exact Hr | apply unbounded_inhabited; apply nth_unbounded; exact Hp].
Qed.

Lemma Forall2_map_indexed {A B C D} (R : A -> B -> Prop) (R' : C -> D -> Prop) (g1 : nat * A -> C) (g2 : nat * B -> D) l1 l2 :
  Forall2 R l1 l2 -> (forall k a b, R a b -> R' (g1 (k, a)) (g2 (k, b))) ->
  forall s, Forall2 R' (map g1 (combine (seq s (length l1)) l1)) (map g2 (combine (seq s (length l2)) l2)).
Proof.
  intros H G. induction H as [|a b l1 l2 Hab H IH]; intro s; [constructor|].
  cbn [length seq combine map]. constructor; [apply G; exact Hab | apply IH].
Qed.
Lemma Forall2_len {A B} (R : A -> B -> Prop) l1 l2 : Forall2 R l1 l2 -> length l1 = length l2.
Proof. intro H. induction H; cbn; congruence. Qed.
Lemma Forall2_nth {A B} (R : A -> B -> Prop) l1 l2 dA dB k : Forall2 R l1 l2 -> R dA dB -> R (nth k l1 dA) (nth k l2 dB).
Proof. intros H D. revert k. induction H; intro k; destruct k; cbn; auto. Qed.

(* the interval elimination encloses the real elimination, row by row *)
Theorem eliminate_encl hidden : forall rows orows, Forall2 encl_row rows orows -> Forall2 encl_row (eliminate hidden rows) (oeliminate hidden orows).
Proof.
  induction hidden as [|h hs IH]; intros rows orows H; [exact H|].
  cbn [eliminate oeliminate]. apply IH.
  assert (P : encl_row (nth h rows []) (nth h orows None)) by (apply Forall2_nth; [exact H | constructor]).
  apply (Forall2_map_indexed encl_row encl_row _ _ rows orows H).
  intros k a b Hab. cbn [fst snd]. destruct (Nat.eqb k h); [exact Hab|]. apply step_encl; assumption.
Qed.

(* ------------------------------------------------------------------ algebra of the real elimination *)
Fixpoint rdot (a z : list R) : R := match a, z with x :: a', y :: z' => x * y + rdot a' z' | _, _ => 0 end.
Lemma raxpy_length f : forall r p, length r = length p -> length (raxpy f r p) = length r.
Proof. induction r as [|a r IH]; intros [|b p] H; try discriminate; [reflexivity|]. cbn. f_equal. apply IH. simpl in H. lia. Qed.
Lemma raxpy_dot f : forall r p z, length r = length p -> rdot (raxpy f r p) z = rdot r z - f * rdot p z.
Proof.
  induction r as [|a r IH]; intros [|b p] z H; try discriminate; [cbn; ring|].
  destruct z as [|y z]; [cbn; ring|]. cbn. rewrite IH by (simpl in H; lia). ring.
Qed.
Lemma raxpy_nth f : forall r p j, length r = length p -> nth j (raxpy f r p) 0 = nth j r 0 - f * nth j p 0.
Proof.
  induction r as [|a r IH]; intros [|b p] j H; try discriminate; [destruct j; cbn; ring|].
  destruct j; cbn; [ring|]. apply IH. simpl in H. lia.
Qed.

Section Algebra.
Variable z : list R.
Variable n : nat.
(* invariant of row k after eliminating the columns in H *)
Definition row_inv (H : list nat) (k : nat) (o : option (list R)) : Prop :=
  match o with
  | None => True
  | Some rr => length rr = n /\ rdot rr z = 0 /\ (~ In k H -> forall h, In h H -> nth h rr 0 = 0)
  end.

Lemma oeliminate_length hidden : forall orows, length (oeliminate hidden orows) = length orows.
Proof. induction hidden as [|h hs IH]; intro orows; [reflexivity|]. cbn [oeliminate]. rewrite IH. apply length_map_indexed. Qed.

Theorem oeliminate_inv hidden : forall H orows, NoDup (hidden ++ H) ->
  (forall k, (k < length orows)%nat -> row_inv H k (nth k orows None)) ->
  forall k, (k < length orows)%nat -> row_inv (rev hidden ++ H) k (nth k (oeliminate hidden orows) None).
Proof.
  induction hidden as [|h hs IH]; intros H orows ND Inv k Hk; [apply Inv; exact Hk|].
  cbn [oeliminate rev]. rewrite <- app_assoc. cbn [app].
  set (orows' := map (fun rr => if Nat.eqb (fst rr) h then snd rr else oaxpy h (snd rr) (nth h orows None)) (combine (seq 0 (length orows)) orows)).
  assert (L' : length orows' = length orows) by apply length_map_indexed.
  assert (NDh : ~ In h H /\ NoDup (hs ++ H)).
  { cbn in ND. inversion ND as [|? ? Nin ND']; subst. split; [intro K; apply Nin; apply in_or_app; right; exact K | exact ND']. }
  destruct NDh as [NinH ND'].
  assert (ND'' : NoDup (hs ++ h :: H)).
  { apply Permutation_NoDup with (l := (h :: hs) ++ H); [|exact ND]. cbn. apply Permutation_middle. }
  replace (length orows) with (length orows') in Hk by exact L'.
  apply (IH (h :: H) orows' ND''); [|exact Hk].
  intros j Hj. rewrite L' in Hj. unfold orows'. rewrite (nth_map_indexed _ orows None None 0 j Hj). cbn [fst snd]. replace (0 + j)%nat with j by lia.
  pose proof (Inv j Hj) as Ij.
  destruct (Nat.eqb_spec j h) as [->|Njh].
  - (* the pivot row is unchanged *)
    destruct (nth h orows None) as [rr|]; [|exact I]. destruct Ij as [A [B C]]. repeat split; [exact A | exact B|].
    intro K. exfalso. apply K. left. reflexivity.
  - destruct (nth j orows None) as [rr|] eqn:Ej; [|exact I].
    destruct (nth h orows None) as [pr|] eqn:Eh; [|exact I]. cbn [oaxpy].
    destruct (Req_EM_T (nth h pr 0) 0) as [Z|NZ]; [exact I|].
    destruct Ij as [A [B C]].
    assert (Ih : row_inv H h (Some pr)).
    { destruct (Nat.lt_ge_cases h (length orows)) as [Lt|Ge]; [rewrite <- Eh; apply Inv; exact Lt|].
      rewrite nth_overflow in Eh by exact Ge. discriminate. }
    destruct Ih as [A' [B' C']].
    assert (LL : length rr = length pr) by congruence.
    cbn [row_inv]. repeat split.
    + rewrite raxpy_length by exact LL. exact A.
    + rewrite raxpy_dot by exact LL. rewrite B, B'. ring.
    + intros Nin h' [<-|Hin].
      * rewrite raxpy_nth by exact LL. field. exact NZ.
      * rewrite raxpy_nth by exact LL.
        assert (Nj : ~ In j H) by (intro K; apply Nin; right; exact K).
        rewrite (C Nj h' Hin), (C' NinH h' Hin). ring.
Qed.
End Algebra.

(* ------------------------------------------------------------------ the statement used by the verdict *)
Theorem eliminate_sound (rows : list irow) (RR : list (list R)) (z : list R) (n : nat) (hidden : list nat) (k : nat) :
  Forall2 (fun ir rr => Forall2 encl_entry ir rr) rows RR ->
  Forall (fun rr => length rr = n /\ rdot rr z = 0) RR ->
  NoDup hidden -> (k < length rows)%nat -> ~ In k hidden ->
  let ir := nth k (eliminate hidden rows) [] in
  Forall unbounded ir \/
  exists rr, Forall2 encl_entry ir rr /\ rdot rr z = 0 /\ forall h, In h hidden -> nth h rr 0 = 0.
Proof.
  intros HE HA ND Hk Nk ir.
  set (orows := map (@Some (list R)) RR).
  assert (E0 : Forall2 encl_row rows orows).
  { unfold orows. clear -HE. induction HE; cbn; constructor; assumption. }
  pose proof (eliminate_encl hidden rows orows E0) as E1.
  assert (Lr : length rows = length orows) by (unfold orows; rewrite map_length; eapply Forall2_len; exact HE).
  assert (Inv0 : forall j, (j < length orows)%nat -> row_inv z n [] j (nth j orows None)).
  { intros j Hj. unfold orows in *. rewrite map_length in Hj.
    rewrite (nth_indep _ None (Some []) ) by (rewrite map_length; exact Hj). rewrite (map_nth (@Some (list R)) RR [] j).
    cbn [row_inv]. rewrite Forall_forall in HA. destruct (HA (nth j RR []) (nth_In RR [] Hj)) as [A B].
    repeat split; [exact A | exact B | intros _ h []]. }
  assert (ND0 : NoDup (hidden ++ [])) by (rewrite app_nil_r; exact ND).
  rewrite Lr in Hk.
  pose proof (oeliminate_inv z n hidden [] orows ND0 Inv0 k Hk) as Ik. rewrite app_nil_r in Ik.
  pose proof (Forall2_nth encl_row _ _ [] None k E1 (Forall_nil _)) as Ek. fold ir in Ek.
  destruct (nth k (oeliminate hidden orows) None) as [rr|]; [|left; exact Ek].
  right. exists rr. destruct Ik as [A [B C]]. repeat split; [exact Ek | exact B|].
  intros h Hh. apply C; [intro K; apply Nk; apply in_rev; exact K | apply in_rev in Hh; exact Hh].
Qed.

(* a poisoned (unbounded) entry is never converted to dyadic bounds, so the verdict rejects poisoned rows *)
Lemma unbounded_no_bounds i a b : i2d i = Some (a, b) -> ~ unbounded i.
Proof.
  unfold i2d, unbounded. destruct i as [|l u]; [discriminate|].
  destruct (f2d l) as [dl|] eqn:El; [|discriminate]. destruct (f2d u) as [du|] eqn:Eu; [|discriminate]. intros _.
  cbn [I.convert]. destruct (I.F.valid_lb l && I.F.valid_ub u).
  - rewrite (ImplicitSound.f2d_correct l dl El). cbn. tauto.
  - cbn. tauto.
Qed.

Lemma rdot_zeros rr n : rdot rr (repeat 0 n) = 0.
Proof. revert n; induction rr as [|a rr IH]; intros [|n]; cbn; try reflexivity. rewrite IH. ring. Qed.

(* the eliminated row does not depend on the solution vector: it annihilates EVERY vector that all original equations annihilate
   (it lies in their span), has exact zeros in the eliminated columns, and is enclosed by the interval row *)
Theorem eliminate_sound_all (rows : list irow) (RR : list (list R)) (n : nat) (hidden : list nat) (k : nat) :
  Forall2 (fun ir rr => Forall2 encl_entry ir rr) rows RR ->
  Forall (fun rr => length rr = n) RR ->
  NoDup hidden -> (k < length rows)%nat -> ~ In k hidden ->
  let ir := nth k (eliminate hidden rows) [] in
  Forall unbounded ir \/
  exists rr, Forall2 encl_entry ir rr /\ (forall h, In h hidden -> nth h rr 0 = 0)
             /\ forall z, Forall (fun R0 => rdot R0 z = 0) RR -> rdot rr z = 0.
Proof.
  intros HE HL ND Hk Nk ir.
  set (orows := map (@Some (list R)) RR).
  assert (E0 : Forall2 encl_row rows orows).
  { unfold orows. clear -HE. induction HE; cbn; constructor; assumption. }
  pose proof (eliminate_encl hidden rows orows E0) as E1.
  assert (Lr : length rows = length orows) by (unfold orows; rewrite map_length; eapply Forall2_len; exact HE).
  assert (Inv0 : forall z, Forall (fun R0 => rdot R0 z = 0) RR -> forall j, (j < length orows)%nat -> row_inv z n [] j (nth j orows None)).
  { intros z HZ j Hj. unfold orows in *. rewrite map_length in Hj.
    rewrite (nth_indep _ None (Some []) ) by (rewrite map_length; exact Hj). rewrite (map_nth (@Some (list R)) RR [] j).
    cbn [row_inv]. rewrite Forall_forall in HL, HZ.
    repeat split; [apply HL; apply nth_In; exact Hj | apply HZ; apply nth_In; exact Hj | intros _ h []]. }
  assert (ND0 : NoDup (hidden ++ [])) by (rewrite app_nil_r; exact ND).
  rewrite Lr in Hk.
  pose proof (Forall2_nth encl_row _ _ [] None k E1 (Forall_nil _)) as Ek. fold ir in Ek.
  destruct (nth k (oeliminate hidden orows) None) as [rr|] eqn:Er; [|left; exact Ek].
  right. exists rr. split; [exact Ek|]. split.
  - assert (HZ0 : Forall (fun R0 => rdot R0 (repeat 0 n) = 0) RR) by (apply Forall_forall; intros; apply rdot_zeros).
    pose proof (oeliminate_inv (repeat 0 n) n hidden [] orows ND0 (Inv0 _ HZ0) k Hk) as Ik. rewrite app_nil_r, Er in Ik.
    destruct Ik as [_ [_ C]]. intros h Hh. apply C; [intro K; apply Nk; apply in_rev; exact K | apply in_rev in Hh; exact Hh].
  - intros z HZ. pose proof (oeliminate_inv z n hidden [] orows ND0 (Inv0 z HZ) k Hk) as Ik. rewrite app_nil_r, Er in Ik.
    destruct Ik as [_ [B _]]. exact B.
Qed.
