(* Implicit-function rule for stationary points and roots.
   A system eqs_i(u, d) = 0 (i < nu) in unknowns u (variables 0 .. nu-1) and data d (variables nu .. nu+nd-1) defines u(d);
   differentiating gives  sum_j (d eqs_i / d u_j) du_j + sum_m (d eqs_i / d d_m) dd_m = 0.
   For a fit eqs = grad_u chi^2, so the Jacobian blocks are the Hessian H and the mixed second derivatives B, and the rule is
   du = -H^-1 B dd.  The verdicts below evaluate the symbolic derivatives (Base/Expr.v, proved correct) with verified interval
   arithmetic at the implementation's solution and decide, for every configuration and covariance input, whether the
   implementation's fluctuations satisfy the differentiated system. *)
From Coq Require Import ZArith QArith Qminmax Qabs List Bool String.
From Interval Require Import Float.Specific_ops Interval.Float_full Interval.Interval Real.Xreal Float.Basic.
From PV Require Import Base.QAux Base.RI Base.Expr Base.Dyadic Obs.Model Obs.Derived.
Import ListNotations.

(* ------------------------------------------------------------------ the documented chi-square functions as expressions *)
Fixpoint subst (s : nat -> expr) (e : expr) : expr :=
  match e with
  | EC q => EC q
  | EV n => s n
  | EAdd a b => EAdd (subst s a) (subst s b)
  | ESub a b => ESub (subst s a) (subst s b)
  | EMul a b => EMul (subst s a) (subst s b)
  | EDiv a b => EDiv (subst s a) (subst s b)
  | ENeg a => ENeg (subst s a)
  | EExp a => EExp (subst s a)
  | ELn a => ELn (subst s a)
  | ESin a => ESin (subst s a)
  | ECos a => ECos (subst s a)
  | ESqrt a => ESqrt (subst s a)
  | EPow a n => EPow (subst s a) n
  end.
Definition esum (l : list expr) : expr := fold_right (fun a acc => mkadd a acc) (EC 0) l.
Definition esq (a : expr) : expr := EPow a 2.

(* least_squares: the fit function fe uses EV i (i < np) for the parameters and EV (np + c) for the c-th abscissa component.
   Variables of chi^2: parameters 0..np-1 | data y_l at np + l | prior values at np + ny + k.
   chi^2 = sum_k (sum_l W_kl (y_l - f(p, x_l)))^2 + sum_k ((p_mask(k) - prior_k) / dp_k)^2 *)
Definition model_at (fe : expr) (np : nat) (x : list Q) : expr :=
  subst (fun n => if Nat.ltb n np then EV n else EC (nth (n - np) x 0%Q)) fe.
Definition lsq_chisq (fe : expr) (np : nat) (xs : list (list Q)) (W : list (list Q)) (mask : list nat) (dp : list Q) : expr :=
  let ny := List.length xs in
  let res := map (fun lx => ESub (EV (np + fst lx)) (model_at fe np (snd lx))) (combine (seq 0 ny) xs) in
  let rows := map (fun wrow => esq (esum (map (fun wr => if Qeq_bool (fst wr) 0 then EC 0 else EMul (EC (fst wr)) (snd wr)) (combine wrow res)))) W in
  let pri := map (fun kmd => esq (EMul (ESub (EV (snd (fst kmd))) (EV (np + ny + fst (fst kmd)))) (EC (1 / snd kmd))))
                 (combine (combine (seq 0 (List.length mask)) mask) dp) in
  esum (rows ++ pri).

(* total_least_squares: unknowns p (np) and the fitted abscissae xhat_{c,l} at np + c n + l (c < nc components, l < n points);
   data: x_{c,l} at nu + c n + l, y_l at nu + nc n + l  with nu = np + nc n.
   chi^2 = sum_l ((y_l - f(p, xhat_l)) / dy_l)^2 + sum_{c,l} ((x_cl - xhat_cl) / dx_cl)^2 *)
Definition odr_chisq (fe : expr) (np nc n : nat) (dy : list Q) (dx : list (list Q)) : expr :=
  let nu := (np + nc * n)%nat in
  let f_l := fun l => subst (fun v => if Nat.ltb v np then EV v else EV (np + (v - np) * n + l)) fe in
  let yt := map (fun ld => esq (EMul (ESub (EV (nu + nc * n + fst ld)) (f_l (fst ld))) (EC (1 / snd ld)))) (combine (seq 0 n) dy) in
  let xt := flat_map (fun cd => map (fun ld => esq (EMul (ESub (EV (nu + fst cd * n + fst ld)) (EV (np + fst cd * n + fst ld))) (EC (1 / snd ld))))
                                    (combine (seq 0 n) (snd cd))) (combine (seq 0 nc) dx) in
  esum (yt ++ xt).

(* ------------------------------------------------------------------ interval linear algebra *)
Definition irow := list I.type.
Definition inan : I.type := I.nai.
Fixpoint map2I (f : I.type -> I.type -> I.type) (a b : irow) : irow :=
  match a, b with x :: a', y :: b' => f x y :: map2I f a' b' | _, _ => [] end.
Definition row_axpy (f : I.type) (r p : irow) : irow := map2I (fun a b => I.sub prec a (I.mul prec f b)) r p.
(* eliminate the hidden unknowns (indices in hidden) from all other rows: each step subtracts a multiple of the pivot row, so every
   resulting row is a linear combination of the original equations; in the pivot column the exact result is 0 *)
Fixpoint eliminate (hidden : list nat) (rows : list irow) : list irow :=
  match hidden with
  | [] => rows
  | h :: hs =>
      let piv := nth h rows [] in
      let d := nth h piv inan in
      eliminate hs (map (fun rr => if Nat.eqb (fst rr) h then snd rr else row_axpy (I.div prec (nth h (snd rr) inan) d) (snd rr) piv)
                        (combine (seq 0 (List.length rows)) rows))
  end.

Definition jacobian (eqs : list expr) (nvars : nat) (env : nat -> I.type) : list irow :=
  map (fun eq => map (fun j => evalI env (Dfold eq j)) (seq 0 nvars)) eqs.

(* ------------------------------------------------------------------ the differentiated system on the observables *)
(* one linear form: interval coefficients (for the visible unknowns' observables and the data observables) applied to exact
   rational fluctuations.  The coefficient bounds are exact dyadic rationals, so the enclosure of the form is computed exactly
   over Q: term in [min(lo x, hi x), max(lo x, hi x)], sums of the bounds.  Decision: sup |form| <= rt * inf (sum of |terms|). *)
Definition f2q (f : F.type) : option Q :=
  match F.toF f with
  | Fnan => None
  | Fzero => Some 0
  | Float s m e =>
      let sm := if s then Z.neg m else Z.pos m in
      Some (match e with 0%Z => sm # 1 | Z.pos p => (sm * Z.pow_pos 2 p) # 1 | Z.neg p => sm # (2 ^ p) end)
  end.
Definition i2q (i : I.type) : option (Q * Q) :=
  match i with
  | Float.Ibnd l u => match f2q l, f2q u with Some a, Some b => Some (a, b) | _, _ => None end
  | Float.Inan => None
  end.
Definition qrow := list (option (Q * Q)).
Definition term_bounds (c : option (Q * Q)) (x : Q) : option (Q * Q) :=
  if Qeq_bool x 0 then Some (0, 0) else
  match c with
  | None => None
  | Some (lo, hi) =>
      if Qeq_bool lo 0 && Qeq_bool hi 0 then Some (0, 0) else
      let a := Qred (lo * x) in let b := Qred (hi * x) in Some (Qmin a b, Qmax a b)
  end.
Fixpoint form_bounds (cs : qrow) (xs : list Q) : option (list (Q * Q)) :=
  match cs, xs with
  | c :: cs', x :: xs' => match term_bounds c x, form_bounds cs' xs' with Some t, Some r => Some (t :: r) | _, _ => None end
  | [], [] => Some []
  | _, _ => None
  end.
(* (sup |form|, inf sum |terms|) of one linear form; None if a needed coefficient is unbounded *)
Definition form_sizes (cs : qrow) (xs : list Q) : option (Q * Q) :=
  match form_bounds cs xs with
  | None => None
  | Some ts =>
      let lo := Qsum (map fst ts) in let hi := Qsum (map snd ts) in
      Some (Qmax (Qabs.Qabs lo) (Qabs.Qabs hi),
            Qsum (map (fun t => if Qle_bool (fst t) 0 && Qle_bool 0 (snd t) then 0 else Qmin (Qabs.Qabs (fst t)) (Qabs.Qabs (snd t))) ts))
  end.
(* all forms of one equation: each residual is below rt times (its own sum of absolute terms + the largest such sum of the
   equation): rounding noise on configurations where all true terms vanish is measured against the equation's scale *)
Definition forms_ok (rt : Q) (sizes : list (option (Q * Q))) : bool :=
  let amax := fold_right (fun s acc => match s with Some (_, a) => Qmax a acc | None => acc end) 0 sizes in
  forallb (fun s => match s with Some (r, a) => Qle_bool r (rt * (a + amax)) | None => false end) sizes.
Definition form_ok (rt : Q) (cs : qrow) (xs : list Q) : bool := forms_ok rt [form_sizes cs xs].

(* all fluctuation vectors (visible unknowns' observables, then weighted data observables), one per replica and configuration *)
Definition fluct_table (u_obs d_obs : list obs) : list (list Q) :=
  let tab := ulen_table d_obs in
  flat_map (fun n =>
    let ws := map (fun o => spec_weight_t d_obs tab o n) d_obs in
    map (fun c => map (fun o => fluct0 o n c) u_obs ++ map (fun ow => Qred (snd ow * fluct0 (fst ow) n c)) (combine d_obs ws))
        (union_cfgs (u_obs ++ d_obs) n))
    (sample_names (u_obs ++ d_obs)).
Definition table_form_ok (rt : Q) (table : list (list Q)) (cs : qrow) : bool := forms_ok rt (map (form_sizes cs) table).
Definition fluct_form_ok (rt : Q) (u_obs d_obs : list obs) (cs : qrow) : bool := table_form_ok rt (fluct_table u_obs d_obs) cs.
(* ---- the same decision in exact dyadic arithmetic (no gcd): coefficient bounds and fluctuations are dyadic numbers (binary floats);
   the rational C01 weights are enclosed by dyadics 2^-64 apart, which only widens the enclosure of the form *)
Definition f2d (f : F.type) : option dy :=
  match F.toF f with
  | Fnan => None
  | Fzero => Some dzero
  | Float s m e => Some ((if s then Z.neg m else Z.pos m), e)
  end.
Definition i2d (i : I.type) : option (dy * dy) :=
  match i with
  | Float.Ibnd l u => match f2d l, f2d u with Some a, Some b => Some (a, b) | _, _ => None end
  | Float.Inan => None
  end.
Definition drow := list (option (dy * dy)).
Definition dterm (c : option (dy * dy)) (x : dy * dy) : option (dy * dy) :=
  if dis0 (fst x) && dis0 (snd x) then Some (dzero, dzero) else
  match c with
  | None => None
  | Some (lo, hi) =>
      if dis0 lo && dis0 hi then Some (dzero, dzero) else
      if (fst (fst x) =? fst (snd x))%Z && (snd (fst x) =? snd (snd x))%Z then
        let p1 := dmul lo (fst x) in let p3 := dmul hi (fst x) in Some (dmin p1 p3, dmax p1 p3)
      else
      let p1 := dmul lo (fst x) in let p2 := dmul lo (snd x) in let p3 := dmul hi (fst x) in let p4 := dmul hi (snd x) in
      Some (dmin (dmin p1 p2) (dmin p3 p4), dmax (dmax p1 p2) (dmax p3 p4))
  end.
Fixpoint dform (cs : drow) (xs : list (dy * dy)) (lo hi inf : dy) : option (dy * dy) :=   (* (sup |form|, inf sum |terms|) *)
  match cs, xs with
  | c :: cs', x :: xs' =>
      match dterm c x with
      | None => None
      | Some (tl, th) =>
          if dis0 tl && dis0 th then dform cs' xs' lo hi inf else
          let a := if dleb tl dzero && dleb dzero th then dzero else dmin (dabs tl) (dabs th) in
          dform cs' xs' (dadd lo tl) (dadd hi th) (dadd inf a)
      end
  | [], [] => Some (dmax (dabs lo) (dabs hi), inf)
  | _, _ => None
  end.
(* Each residual is below rt times (its own sum of absolute terms + the equation's scale), where the scale is
   (sum_j |c_j|) max_j max_c |x_j(c)|, so a
   configuration (or covariance input) on which all true terms vanish is measured against the equation's overall size. *)
Fixpoint col_max (table : list (list (dy * dy))) : list dy :=
  match table with
  | [] => []
  | [xs] => map (fun x => dmax (dabs (fst x)) (dabs (snd x))) xs
  | xs :: rest => let m := col_max rest in
                  (fix go (a : list (dy * dy)) (b : list dy) : list dy :=
                     match a, b with x :: a', y :: b' => dmax (dmax (dabs (fst x)) (dabs (snd x))) y :: go a' b' | _, _ => [] end) xs m
  end.
Definition row_scale (cs : drow) (xm : list dy) : dy :=
  (* (sum_j |c_j|) * max_j max_c |x_j(c)|: rounding noise of matrix-valued derivatives is relative to the largest entry of the whole
     system, not to the individual observable *)
  dmul (fold_right (fun c acc => match c with Some (lo, hi) => dadd (dmax (dabs lo) (dabs hi)) acc | None => acc end) dzero cs)
       (fold_right dmax dzero xm).
Definition dforms_ok (rt : dy) (scale : dy) (sizes : list (option (dy * dy))) : bool :=
  forallb (fun s => match s with Some (r, a) => dleb r (dmul rt (dadd a scale)) | None => false end) sizes.
Definition dexact (q : Q) : dy * dy := d_enclose 120 q.
Definition dweighted (w : dy * dy) (q : Q) : dy * dy :=
  let x := dexact q in
  if (fst (fst w) =? 1)%Z && (snd (fst w) =? 0)%Z && (fst (snd w) =? 1)%Z && (snd (snd w) =? 0)%Z then x else
  let p1 := dmul (fst w) (fst x) in let p2 := dmul (fst w) (snd x) in let p3 := dmul (snd w) (fst x) in let p4 := dmul (snd w) (snd x) in
  (dmin (dmin p1 p2) (dmin p3 p4), dmax (dmax p1 p2) (dmax p3 p4)).
Definition dfluct_table (u_obs d_obs : list obs) : list (list (dy * dy)) :=
  let tab := ulen_table d_obs in
  flat_map (fun n =>
    let ws := map (fun o => d_enclose 64 (spec_weight_t d_obs tab o n)) d_obs in
    map (fun c => map (fun o => dexact (fluct0 o n c)) u_obs ++ map (fun ow => if Qeq_bool (fluct0 (fst ow) n c) 0 then (dzero, dzero) else dweighted (snd ow) (fluct0 (fst ow) n c)) (combine d_obs ws))
        (union_cfgs (u_obs ++ d_obs) n))
    (sample_names (u_obs ++ d_obs)).
Definition dtable_form_ok (rt : Q) (table : list (list (dy * dy))) (xm : list dy) (cs : drow) : bool :=
  dforms_ok (fst (dexact rt)) (row_scale cs xm) (map (fun xs => dform cs xs dzero dzero dzero) table).

Definition covgrad_of (o : obs) (n : string) (k : nat) : Q := match find_cov o n with Some c => qnth (c_grad c) k | None => 0 end.
Definition cov_len (ops : list obs) (n : string) : nat :=
  fold_right (fun o acc => match find_cov o n with Some c => Nat.max (List.length (c_grad c)) acc | None => acc end) O ops.
Definition cov_table (u_obs d_obs : list obs) : list (list Q) :=
  flat_map (fun n =>
    map (fun k => map (fun o => covgrad_of o n k) u_obs ++ map (fun o => covgrad_of o n k) d_obs)
        (seq 0 (cov_len (u_obs ++ d_obs) n)))
    (all_cov_names (u_obs ++ d_obs)).
Definition cov_form_ok (rt : Q) (u_obs d_obs : list obs) (cs : qrow) : bool := table_form_ok rt (cov_table u_obs d_obs) cs.
Definition dcov_table (u_obs d_obs : list obs) : list (list (dy * dy)) :=
  flat_map (fun n =>
    map (fun k => map (fun o => dexact (covgrad_of o n k)) u_obs ++ map (fun o => dexact (covgrad_of o n k)) d_obs)
        (seq 0 (cov_len (u_obs ++ d_obs) n)))
    (all_cov_names (u_obs ++ d_obs)).
(* the results live exactly on the union of the data's configurations / covariance inputs *)
Definition support_ok (u_obs d_obs : list obs) : bool :=
  forallb (fun u => names_eqb (rep_names u) (sample_names d_obs)
                    && forallb (fun r => zlist_eqb (cfgs (r_idl r)) (union_cfgs d_obs (r_name r))) (o_reps u)
                    && names_eqb (cov_names u) (all_cov_names d_obs)) u_obs.

Record icase := mkICase {
  ic_eqs : list expr;          (* nu equations *)
  ic_nu : nat; ic_nv : nat;    (* unknowns; the first nv have result observables *)
  ic_uvals : list Q; ic_dvals : list Q;
  ic_uobs : list obs; ic_dobs : list obs;
  ic_rt : Q }.
Definition ic_env (c : icase) : nat -> I.type := qenvI (ic_uvals c ++ ic_dvals c).
Definition implicit_ok (c : icase) : bool :=
  let nu := ic_nu c in let nd := List.length (ic_dvals c) in
  let J := jacobian (ic_eqs c) (nu + nd) (ic_env c) in
  let J' := eliminate (seq (ic_nv c) (nu - ic_nv c)) J in
  let ft := dfluct_table (ic_uobs c) (ic_dobs c) in
  let ct := dcov_table (ic_uobs c) (ic_dobs c) in
  let fm := col_max ft in let cm := col_max ct in
  support_ok (ic_uobs c) (ic_dobs c) && forallb (guardsI (ic_env c)) (ic_eqs c)
  && forallb (fun i => let row := nth i J' [] in
                       let cs := map i2d (firstn (ic_nv c) row ++ skipn nu row) in
                       dtable_form_ok (ic_rt c) ft fm cs && dtable_form_ok (ic_rt c) ct cm cs)
             (if Nat.eqb (ic_nv c) nu then seq 0 (List.length (ic_eqs c)) else seq 0 (ic_nv c)).

(* stationarity of an objective F at the solution, scale-free: g_i^2 <= tol^2 H_ii (1 + F + H_ii u_i^2) with H_ii > 0 *)
Definition stationary_ok (F : expr) (nu : nat) (env : nat -> I.type) (uvals : list Q) (tol : Q) : bool :=
  guardsI env F && forallb (fun i =>
    let g := evalI env (Dfold F i) in let h := evalI env (Dfold (Dfold F i) i) in
    let u := qI (nth i uvals 0%Q) in
    match I.sign_strict h with
    | Xgt => certainly_le (I.sqr prec g)
               (I.mul prec (I.sqr prec (qI tol)) (I.mul prec h (I.add prec (I.add prec (zI 1) (I.abs (evalI env F))) (I.mul prec h (I.sqr prec u)))))
    | _ => false
    end) (seq 0 nu).

(* a fit case: objective F; the equations are its gradient *)
Record fitcase := mkFitC {
  fc_F : expr; fc_nu : nat; fc_nv : nat; fc_uvals : list Q; fc_dvals : list Q; fc_uobs : list obs; fc_dobs : list obs;
  fc_rt : Q; fc_tol : Q; fc_chisq : Q }.
Definition fit_icase (c : fitcase) : icase :=
  mkICase (map (Dfold (fc_F c)) (seq 0 (fc_nu c))) (fc_nu c) (fc_nv c) (fc_uvals c) (fc_dvals c) (fc_uobs c) (fc_dobs c) (fc_rt c).
Definition fit_stationary (c : fitcase) : bool :=
  stationary_ok (fc_F c) (fc_nu c) (qenvI (fc_uvals c ++ fc_dvals c)) (fc_uvals c) (fc_tol c).
Definition fit_chisq_ok (c : fitcase) : bool :=
  within (evalI (qenvI (fc_uvals c ++ fc_dvals c)) (fc_F c)) (fc_chisq c) (Qabs.Qabs (fc_chisq c) * fc_tol c + fc_tol c).
Definition fit_implicit (c : fitcase) : bool := implicit_ok (fit_icase c).
Definition fit_values_ok (c : fitcase) : bool :=
  all2 (fun o v => Qeq_bool (o_value o) v) (fc_uobs c) (firstn (fc_nv c) (fc_uvals c)).

(* diagnostics: the largest ratio sup |form| / inf (sum |terms|) over all configurations, per visible equation (as a multiple of 2^-60) *)
Definition form_ratio (cs : qrow) (xs : list Q) : Z :=
  match form_bounds cs xs with
  | None => (-1)%Z
  | Some ts =>
      let lo := Qsum (map fst ts) in let hi := Qsum (map snd ts) in
      let sup_abs := Qmax (Qabs.Qabs lo) (Qabs.Qabs hi) in
      let inf_terms := Qsum (map (fun t => if Qle_bool (fst t) 0 && Qle_bool 0 (snd t) then 0 else Qmin (Qabs.Qabs (fst t)) (Qabs.Qabs (snd t))) ts) in
      if Qeq_bool inf_terms 0 then (if Qeq_bool sup_abs 0 then 0 else -2)%Z else
      let r := sup_abs / inf_terms * inject_Z (2 ^ 60) in (Qnum r / Z.pos (Qden r))%Z
  end.
Definition implicit_worst (c : icase) : list Z :=
  let nu := ic_nu c in let nd := List.length (ic_dvals c) in
  let J := jacobian (ic_eqs c) (nu + nd) (ic_env c) in
  let J' := eliminate (seq (ic_nv c) (nu - ic_nv c)) J in
  map (fun i => let row := nth i J' [] in
                let cs := map i2q (firstn (ic_nv c) row ++ skipn nu row) in
                let u_obs := ic_uobs c in let d_obs := ic_dobs c in
                fold_right Z.max 0%Z (flat_map (fun n =>
                  let ws := map (fun o => spec_weight d_obs o n) d_obs in
                  map (fun cf => form_ratio cs (map (fun o => fluct0 o n cf) u_obs ++ map (fun ow => Qred (snd ow * fluct0 (fst ow) n cf)) (combine d_obs ws)))
                      (union_cfgs (u_obs ++ d_obs) n)) (sample_names (u_obs ++ d_obs))))
      (seq 0 (ic_nv c)).

(* ------------------------------------------------------------------ roots and integrals (C09) *)
(* the equations hold at the solution: |eq_i| <= tol |d eq_i / d u_i| (1 + |u_i|)  (Newton step below tol, relative to the unknown) *)
Definition equations_hold (c : icase) (tol : Q) : bool :=
  forallb (fun i =>
    let eq := nth i (ic_eqs c) (EC 0) in
    let u := qI (nth i (ic_uvals c) 0%Q) in
    certainly_le (I.abs (evalI (ic_env c) eq))
                 (I.mul prec (qI tol) (I.mul prec (I.abs (evalI (ic_env c) (Dfold eq i))) (I.add prec (zI 1) (I.abs u)))))
    (seq 0 (ic_nu c)).
(* the solution agrees with a closed form g(d) *)
Definition closed_form_ok (c : icase) (g : expr) (tol : Q) : bool :=
  guardsI (ic_env c) g &&
  within (evalI (ic_env c) g) (nth 0 (ic_uvals c) 0%Q) (Qabs.Qabs (nth 0 (ic_uvals c) 0%Q) * tol + tol).
(* dFa/dx = f at the points xs (consistency of an integrand with its antiderivative; variable xv) *)
Definition antiderivative_ok (Fa f : expr) (xv : nat) (envs : list (list Q)) (tol : Q) : bool :=
  forallb (fun l => guardsI (qenvI l) Fa && certainly_le (I.abs (I.sub prec (evalI (qenvI l) (Dfold Fa xv)) (evalI (qenvI l) f))) (qI tol)) envs.

Record rcase := mkRCase { rc_ic : icase; rc_tol : Q; rc_closed : option expr }.
Definition rcase_root (c : rcase) : bool := equations_hold (rc_ic c) (rc_tol c).
Definition rcase_implicit (c : rcase) : bool := implicit_ok (rc_ic c).
Definition rcase_closed (c : rcase) : bool := match rc_closed c with Some g => closed_form_ok (rc_ic c) g (rc_tol c) | None => true end.
Definition rcase_values (c : rcase) : bool := all2 (fun o v => Qeq_bool (o_value o) v) (ic_uobs (rc_ic c)) (firstn (ic_nv (rc_ic c)) (ic_uvals (rc_ic c))).

(* ------------------------------------------------------------------ systems of identities (C10, C16): any number of equations in the
   unknowns; an equation holds when its residual is below tol times its first-order scale sum_j |d eq / d u_j| (1 + |u_j|) *)
Definition eq_holds (c : icase) (tol : Q) (eq : expr) : bool :=
  let env := ic_env c in
  let scale := fold_right (fun j acc => I.add prec (I.mul prec (I.abs (evalI env (Dfold eq j))) (I.add prec (zI 1) (I.abs (qI (nth j (ic_uvals c) 0%Q))))) acc)
                          (zI 0) (seq 0 (ic_nu c)) in
  certainly_le (I.abs (evalI env eq)) (I.mul prec (qI tol) scale).
Definition rcase_identities (c : rcase) : bool := forallb (eq_holds (rc_ic c) (rc_tol c)) (ic_eqs (rc_ic c)).
Definition implicit_culprits (c : icase) (thr : Z) : list (nat * string * Z * list (Q * Q)) :=
  let nu := ic_nu c in let nd := List.length (ic_dvals c) in
  let J := jacobian (ic_eqs c) (nu + nd) (ic_env c) in
  let J' := eliminate (seq (ic_nv c) (nu - ic_nv c)) J in
  flat_map (fun i => let row := nth i J' [] in
                let cs := map i2q (firstn (ic_nv c) row ++ skipn nu row) in
                let u_obs := ic_uobs c in let d_obs := ic_dobs c in
                flat_map (fun n =>
                  let ws := map (fun o => spec_weight d_obs o n) d_obs in
                  flat_map (fun cf => let xs := map (fun o => fluct0 o n cf) u_obs ++ map (fun ow => Qred (snd ow * fluct0 (fst ow) n cf)) (combine d_obs ws) in
                                      if (thr <=? form_ratio cs xs)%Z then [(i, n, cf, match form_bounds cs xs with Some ts => ts | None => [] end)] else [])
                      (union_cfgs (u_obs ++ d_obs) n)) (sample_names (u_obs ++ d_obs)))
      (if Nat.eqb (ic_nv c) nu then seq 0 (List.length (ic_eqs c)) else seq 0 (ic_nv c)).
