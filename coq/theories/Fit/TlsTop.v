(* Top-level soundness of implicit_ok when some unknowns have no result observable (total least squares: the fitted abscissae):
   a positive verdict implies, for every visible equation and every table row, that SOME real linear combination of the real
   differentiated equations, with exactly vanishing coefficients for all hidden unknowns, holds for the implementation's fluctuations
   within the tolerance. *)
From Coq Require Import ZArith QArith Reals List Bool Lia Lra.
From Interval Require Import Float.Specific_ops Interval.Float_full Interval.Interval Real.Xreal Real.Xreal_derive Float.Basic.
From PV Require Import Base.RI Base.Expr Base.ExprFold Base.Dyadic Base.DyadicR Obs.Model Fit.Implicit Fit.ImplicitSound Fit.ImplicitTop Fit.ElimSound.
Import ListNotations.
Local Open Scope R_scope.

Lemma Forall2_firstn {A B} (R : A -> B -> Prop) n : forall l1 l2, Forall2 R l1 l2 -> Forall2 R (firstn n l1) (firstn n l2).
Proof. induction n as [|n IH]; intros l1 l2 H; [constructor|]. destruct H; cbn; constructor; auto. Qed.
Lemma Forall2_skipn {A B} (R : A -> B -> Prop) n : forall l1 l2, Forall2 R l1 l2 -> Forall2 R (skipn n l1) (skipn n l2).
Proof. induction n as [|n IH]; intros l1 l2 H; [exact H|]. destruct H; cbn; [constructor | auto]. Qed.
Lemma encl_of_entry i r : encl_entry i r -> encl (i2d i) r.
Proof. intro H. destruct (i2d i) as [[a b]|] eqn:E; cbn; [exact (i2d_correct i a b r E H) | exact I]. Qed.
Lemma Forall2_encl_of_entry ir rr : Forall2 encl_entry ir rr -> Forall2 encl (map i2d ir) rr.
Proof. intro H. induction H; cbn; constructor; [apply encl_of_entry; assumption | assumption]. Qed.

Lemma jacobian_row_entries l eq : guardsI (qenvI l) eq = true -> forall cols,
  Forall2 encl_entry (map (fun j => evalI (qenvI l) (Dfold eq j)) cols) (map (dval l eq) cols).
Proof.
  intros G cols. induction cols as [|j cols IH]; cbn; constructor; [|exact IH].
  destruct (certified_derivative l eq j G) as [_ [En GR]]. destruct (guards_real (qenvR l) _ GR) as [d Ed].
  unfold encl_entry, dval. rewrite Ed in *. exact En.
Qed.

Lemma rsum_zero_l cs : Forall (fun c => c = 0) cs -> forall xs, rsum cs xs = 0.
Proof. intro H. induction H as [|c cs Hc H IH]; intros [|x xs]; cbn; try reflexivity. rewrite IH, Hc. ring. Qed.
Lemma rasum_zero_l cs : Forall (fun c => c = 0) cs -> forall xs, rasum cs xs = 0.
Proof. intro H. induction H as [|c cs Hc H IH]; intros [|x xs]; cbn; try reflexivity. rewrite IH, Hc, Rmult_0_l, Rabs_R0. ring. Qed.
Lemma Forall_firstn_ {A} (P : A -> Prop) n : forall l, Forall P l -> Forall P (firstn n l).
Proof. induction n as [|n IH]; intros l H; [constructor|]. destruct H; cbn; constructor; auto. Qed.
Lemma Forall_skipn_ {A} (P : A -> Prop) n : forall l, Forall P l -> Forall P (skipn n l).
Proof. induction n as [|n IH]; intros l H; [exact H|]. destruct H; cbn; [constructor | auto]. Qed.
Lemma Forall_repeat0 n : Forall (fun c : R => c = 0) (repeat 0 n).
Proof. induction n; cbn; constructor; auto. Qed.

Theorem implicit_ok_hidden_sound (c : icase) (i : nat) (xs : list (dy * dy)) (xrs : list R) :
  (ic_nv c < ic_nu c)%nat -> length (ic_eqs c) = ic_nu c -> implicit_ok c = true -> (0 <= dR (fst (dexact (ic_rt c))))%R ->
  (i < ic_nv c)%nat ->
  In xs (dfluct_table (ic_uobs c) (ic_dobs c)) -> Forall2 enclx xs xrs ->
  let l := ic_uvals c ++ ic_dvals c in
  let cols := seq 0 (ic_nu c + length (ic_dvals c)) in
  let RR := map (fun eq => map (dval l eq) cols) (ic_eqs c) in      (* the real Jacobian of the system at the solution *)
  let hidden := seq (ic_nv c) (ic_nu c - ic_nv c) in
  exists rr scale,
    (forall h, In h hidden -> nth h rr 0 = 0)
    /\ (forall z, Forall (fun R0 => rdot R0 z = 0) RR -> rdot rr z = 0)
    /\ Rabs (rsum (firstn (ic_nv c) rr ++ skipn (ic_nu c) rr) xrs)
       <= dR (fst (dexact (ic_rt c))) * (rasum (firstn (ic_nv c) rr ++ skipn (ic_nu c) rr) xrs + dR scale).
Proof.
  intros Hlt Hlen Hok Hrt Hi Hin Hx l cols RR hidden.
  unfold implicit_ok in Hok.
  assert (Hne : Nat.eqb (ic_nv c) (ic_nu c) = false) by (apply Nat.eqb_neq; lia). rewrite Hne in Hok.
  apply andb_true_iff in Hok. destruct Hok as [Hok Hrows]. apply andb_true_iff in Hok. destruct Hok as [_ Hg].
  rewrite forallb_forall in Hg. rewrite forallb_forall in Hrows.
  specialize (Hrows i). rewrite in_seq in Hrows. specialize (Hrows ltac:(lia)). cbv zeta in Hrows.
  apply andb_true_iff in Hrows. destruct Hrows as [Hf _].
  set (J := jacobian (ic_eqs c) (ic_nu c + length (ic_dvals c)) (ic_env c)) in *.
  assert (HE : Forall2 (fun ir rr => Forall2 encl_entry ir rr) J RR).
  { unfold J, jacobian, RR. clear -Hg. induction (ic_eqs c) as [|eq eqs IH]; cbn; constructor.
    - apply jacobian_row_entries. apply Hg. left. reflexivity.
    - apply IH. intros e He. apply Hg. right. exact He. }
  assert (HL : Forall (fun rr => length rr = length cols) RR).
  { unfold RR. apply Forall_forall. intros rr Hr. apply in_map_iff in Hr. destruct Hr as [eq [<- _]]. apply map_length. }
  assert (ND : NoDup hidden) by apply seq_NoDup.
  assert (Hk : (i < length J)%nat) by (unfold J, jacobian; rewrite map_length; lia).
  assert (Nk : ~ In i hidden) by (unfold hidden; rewrite in_seq; lia).
  destruct (eliminate_sound_all J RR (length cols) hidden i HE HL ND Hk Nk) as [U | [rr [En [Z Sp]]]].
  - (* poisoned row: every coefficient is unbounded; the zero combination serves *)
    exists (repeat 0 (ic_nu c + length (ic_dvals c))), dzero. split; [intros h _; apply nth_repeat|]. split.
    + intros z _. clear. induction (ic_nu c + length (ic_dvals c))%nat as [|m IH] in z |- *; destruct z; cbn; try reflexivity. rewrite IH. ring.
    + assert (Z0 : Forall (fun c0 : R => c0 = 0) (firstn (ic_nv c) (repeat 0 (ic_nu c + length (ic_dvals c))) ++ skipn (ic_nu c) (repeat 0 (ic_nu c + length (ic_dvals c))))).
      { apply Forall_app. split; [apply Forall_firstn_ | apply Forall_skipn_]; apply Forall_repeat0. }
      rewrite (rsum_zero_l _ Z0), (rasum_zero_l _ Z0), Rabs_R0, dR_zero. lra.
  - exists rr.
    unfold dtable_form_ok in Hf.
    destruct (dforms_ok_In _ _ _ _ Hf (in_map (fun xs0 => dform _ xs0 dzero dzero dzero) _ xs Hin)) as [res [Eres Dres]].
    eexists. split; [exact Z|]. split; [exact Sp|].
    eapply (form_decision_sound _ xs _ xrs _ _ res); [| exact Hx | exact Hrt | exact Eres | exact Dres].
    rewrite map_app. apply Forall2_app; apply Forall2_encl_of_entry; [apply Forall2_firstn | apply Forall2_skipn]; exact En.
Qed.
