(* Soundness of the decision taken on one linear form in Fit/Implicit.v (dterm / dform / dforms_ok) with respect to real numbers:
   if the real coefficients lie in their interval enclosures (as converted by i2d) and the real arguments in theirs, a positive
   decision implies   | sum_j c_j x_j |  <=  rt * ( sum_j |c_j x_j| + scale ). *)
From Coq Require Import ZArith QArith Reals List Bool Lia Lra Psatz.
From Flocq Require Import Core.Raux Core.Defs Core.Float_prop.
From Interval Require Import Float.Specific_ops Float.Specific_stdz Interval.Float_full Interval.Interval Real.Xreal Float.Basic.
From PV Require Import Base.RI Base.Dyadic Base.DyadicR Fit.Implicit.
Import ListNotations.
Local Open Scope R_scope.

(* ------------------------------------------------------------------ interval bounds as dyadics *)
Lemma f2d_correct f d : f2d f = Some d -> F.toX f = Xreal (dR d).
Proof.
  unfold f2d, F.toX. destruct (F.toF f) as [| |s m e]; intro H; try discriminate.
  - injection H as <-. cbn. rewrite dR_zero. reflexivity.
  - injection H as <-. cbn [FtoX]. f_equal. rewrite FtoR_split. unfold F2R, dR. cbn [Fnum Fexp fst snd]. destruct s; reflexivity.
Qed.
Lemma i2d_correct i a b r : i2d i = Some (a, b) -> contains (I.convert i) (Xreal r) -> dR a <= r <= dR b.
Proof.
  unfold i2d. destruct i as [|l u]; [discriminate|].
  destruct (f2d l) as [dl|] eqn:El; [|discriminate]. destruct (f2d u) as [du|] eqn:Eu; [|discriminate].
  intro H. injection H as <- <-. cbn [I.convert].
  destruct (I.F.valid_lb l && I.F.valid_ub u).
  - rewrite (f2d_correct l dl El), (f2d_correct u du Eu). cbn. tauto.
  - cbn. lra.
Qed.

(* ------------------------------------------------------------------ one term *)
(* an unbounded coefficient (None) constrains nothing: a term with such a coefficient is only accepted when its argument is exactly 0 *)
Definition encl (c : option (dy * dy)) (r : R) : Prop := match c with Some (lo, hi) => dR lo <= r <= dR hi | None => True end.
Definition enclx (x : dy * dy) (r : R) : Prop := dR (fst x) <= r <= dR (snd x).

Lemma Rmin_id p : Rmin p p = p. Proof. unfold Rmin. destruct (Rle_dec p p); reflexivity. Qed.
Lemma Rmax_id p : Rmax p p = p. Proof. unfold Rmax. destruct (Rle_dec p p); reflexivity. Qed.

Lemma dterm_sound c x cr xr t : encl c cr -> enclx x xr -> dterm c x = Some t -> dR (fst t) <= cr * xr <= dR (snd t).
Proof.
  intros Hc Hx. unfold dterm. destruct (dis0 (fst x) && dis0 (snd x)) eqn:Zx.
  { apply andb_true_iff in Zx. destruct Zx as [Z1 Z2]. intro H. injection H as <-. cbn [fst snd]. rewrite dR_zero.
    unfold enclx in Hx. rewrite (dis0_R _ Z1), (dis0_R _ Z2) in Hx. assert (xr = 0) by lra. subst. lra. }
  destruct c as [[lo hi]|]; [|discriminate]. cbn [encl] in Hc.
  destruct (dis0 lo && dis0 hi) eqn:Zc.
  { apply andb_true_iff in Zc. destruct Zc as [Z1 Z2]. intro H. injection H as <-. cbn [fst snd]. rewrite dR_zero.
    rewrite (dis0_R _ Z1), (dis0_R _ Z2) in Hc. assert (cr = 0) by lra. subst. lra. }
  destruct x as [xl xh]. cbn [fst snd] in *. unfold enclx in Hx. cbn [fst snd] in Hx.
  pose proof (prod_bounds (dR lo) (dR hi) (dR xl) (dR xh) cr xr Hc Hx) as PB.
  destruct ((fst xl =? fst xh)%Z && (snd xl =? snd xh)%Z) eqn:Eq.
  - apply andb_true_iff in Eq. destruct Eq as [E1 E2]. apply Z.eqb_eq in E1. apply Z.eqb_eq in E2.
    assert (xl = xh) by (destruct xl, xh; cbn in *; congruence). subst xh.
    intro H. injection H as <-. cbn [fst snd]. rewrite dmin_R, dmax_R, !dmul_R.
    rewrite !Rmin_id, !Rmax_id in PB. exact PB.
  - intro H. injection H as <-. cbn [fst snd]. rewrite !dmin_R, !dmax_R, !dmul_R. exact PB.
Qed.

(* ------------------------------------------------------------------ the whole form *)
Fixpoint rsum (cs xs : list R) : R := match cs, xs with c :: cs', x :: xs' => c * x + rsum cs' xs' | _, _ => 0 end.
Fixpoint rasum (cs xs : list R) : R := match cs, xs with c :: cs', x :: xs' => Rabs (c * x) + rasum cs' xs' | _, _ => 0 end.

Lemma dform_sound cs : forall xs crs xrs lo hi inf S A res,
  Forall2 encl cs crs -> Forall2 enclx xs xrs ->
  dR lo <= S <= dR hi -> dR inf <= A ->
  dform cs xs lo hi inf = Some res ->
  Rabs (S + rsum crs xrs) <= dR (fst res) /\ dR (snd res) <= A + rasum crs xrs.
Proof.
  induction cs as [|c cs IH]; intros xs crs xrs lo hi inf S A res Hc Hx HS HA H.
  - inversion Hc; subst. destruct xs as [|x xs]; [|discriminate]. inversion Hx; subst. cbn in H. injection H as <-. cbn [fst snd rsum rasum].
    rewrite dmax_R, !dabs_R. split; [|lra]. rewrite Rplus_0_r.
    unfold Rmax. destruct (Rle_dec _ _); unfold Rabs in *; repeat destruct (Rcase_abs _); lra.
  - inversion Hc as [|? cr ? crs' Hc1 Hc2]; subst. destruct xs as [|x xs]; [discriminate|]. inversion Hx as [|? xr ? xrs' Hx1 Hx2]; subst.
    cbn [dform] in H. destruct (dterm c x) as [[tl th]|] eqn:T; [|discriminate].
    pose proof (dterm_sound c x cr xr (tl, th) Hc1 Hx1 T) as B. cbn [fst snd] in B. cbn [rsum rasum].
    destruct (dis0 tl && dis0 th) eqn:Z0.
    + apply andb_true_iff in Z0. destruct Z0 as [Z1 Z2]. rewrite (dis0_R _ Z1), (dis0_R _ Z2) in B.
      assert (E : cr * xr = 0) by lra. rewrite E, Rabs_R0.
      replace (S + (0 + rsum crs' xrs')) with (S + rsum crs' xrs') by ring. replace (A + (0 + rasum crs' xrs')) with (A + rasum crs' xrs') by ring.
      apply (IH xs crs' xrs' lo hi inf S A res Hc2 Hx2 HS HA H).
    + replace (S + (cr * xr + rsum crs' xrs')) with ((S + cr * xr) + rsum crs' xrs') by ring.
      replace (A + (Rabs (cr * xr) + rasum crs' xrs')) with ((A + Rabs (cr * xr)) + rasum crs' xrs') by ring.
      refine (IH xs crs' xrs' _ _ _ (S + cr * xr) (A + Rabs (cr * xr)) res Hc2 Hx2 _ _ H).
      * rewrite !dadd_R. lra.
      * rewrite dadd_R. destruct (dleb tl dzero && dleb dzero th) eqn:Z.
        -- rewrite dR_zero. pose proof (Rabs_pos (cr * xr)). lra.
        -- rewrite dmin_R, !dabs_R.
           assert (N : ~ (dR tl <= 0 /\ 0 <= dR th)).
           { intros [N1 N2]. rewrite <- dR_zero in N1, N2. apply dleb_R in N1. apply dleb_R in N2. rewrite N1, N2 in Z. discriminate. }
           assert (Rmin (Rabs (dR tl)) (Rabs (dR th)) <= Rabs (cr * xr)).
           { unfold Rmin. destruct (Rle_dec _ _); unfold Rabs in *; repeat destruct (Rcase_abs _); lra. }
           lra.
Qed.

(* the decision on one form *)
Theorem form_decision_sound cs xs crs xrs rt scale res :
  Forall2 encl cs crs -> Forall2 enclx xs xrs -> 0 <= dR rt ->
  dform cs xs dzero dzero dzero = Some res ->
  dleb (fst res) (dmul rt (dadd (snd res) scale)) = true ->
  Rabs (rsum crs xrs) <= dR rt * (rasum crs xrs + dR scale).
Proof.
  intros Hc Hx Hrt H D.
  destruct (dform_sound cs xs crs xrs dzero dzero dzero 0 0 res Hc Hx) as [B1 B2]; try (rewrite dR_zero; lra); [exact H|].
  apply dleb_R in D. rewrite dmul_R, dadd_R in D. rewrite Rplus_0_l in B1, B2.
  eapply Rle_trans; [exact B1|]. eapply Rle_trans; [exact D|]. apply Rmult_le_compat_l; [exact Hrt | lra].
Qed.
