(* The rows of the fluctuation table enclose the actual (C01-weighted) fluctuations: the vector of real numbers
     Q2R (fluct0 u n c)  for the unknowns' observables,   Q2R (spec_weight d_obs o n * fluct0 o n c)  for the data observables
   lies inside the dyadic enclosures that implicit_ok evaluates, for every replica n and configuration c. *)
From Coq Require Import ZArith QArith Qpower Qreals Reals List Bool Lia Lra String.
From Flocq Require Import Core.Raux Core.Defs Core.Zaux.
From PV Require Import Base.QAux Base.RI Base.Dyadic Base.DyadicR Obs.Model Obs.Derived Fit.Implicit.
From PV Require Import Fit.ImplicitSound.
Import ListNotations.
Local Open Scope R_scope.

Lemma Q2R_inject_Z m : Q2R (inject_Z m) = IZR m.
Proof. unfold Q2R, inject_Z. cbn. field. Qed.
Lemma Q2R_pow2 e : Q2R (Qpower 2 e) = bpow radix2 e.
Proof.
  destruct e as [|p|p].
  - cbn. unfold Q2R. cbn. field.
  - rewrite (Qeq_eqR _ _ (Qeq_sym _ _ (pow2_shift (Z.pos p) ltac:(lia)))). rewrite Q2R_inject_Z. apply (IZR_Zpower radix2). lia.
  - change (Z.neg p) with (- Z.pos p)%Z. rewrite (Qeq_eqR _ _ (Qpower_opp 2 (Z.pos p))).
    assert (NZ : ~ Qpower 2 (Z.pos p) == 0%Q).
    { intro K. pose proof (pow2_pos (Z.pos p)) as P. rewrite K in P. apply Qlt_irrefl in P. exact P. }
    rewrite (Q2R_inv _ NZ).
    rewrite (Qeq_eqR _ _ (Qeq_sym _ _ (pow2_shift (Z.pos p) ltac:(lia)))). rewrite Q2R_inject_Z. rewrite bpow_opp. f_equal.
Qed.
Lemma dq_dR d : Q2R (dq d) = dR d.
Proof. unfold dq, dR. rewrite Q2R_mult, Q2R_inject_Z, Q2R_pow2. reflexivity. Qed.

Lemma d_enclose_R bits q : (0 <= bits)%Z -> dR (fst (d_enclose bits q)) <= Q2R q <= dR (snd (d_enclose bits q)).
Proof.
  intro Hb. pose proof (d_enclose_correct bits q Hb) as H. destruct (d_enclose bits q) as [lo hi]. destruct H as [H1 H2].
  cbn [fst snd]. rewrite <- !dq_dR. split; apply Qle_Rle; assumption.
Qed.
Lemma dexact_encl q : enclx (dexact q) (Q2R q).
Proof. unfold enclx, dexact. apply d_enclose_R. lia. Qed.

Lemma dweighted_encl w wq q : dR (fst w) <= Q2R wq <= dR (snd w) -> enclx (dweighted w q) (Q2R (wq * q)).
Proof.
  intro Hw. rewrite Q2R_mult. unfold dweighted. pose proof (dexact_encl q) as Hx. unfold enclx in *.
  destruct ((fst (fst w) =? 1)%Z && (snd (fst w) =? 0)%Z && (fst (snd w) =? 1)%Z && (snd (snd w) =? 0)%Z) eqn:E.
  - apply andb_true_iff in E. destruct E as [E E4]. apply andb_true_iff in E. destruct E as [E E3]. apply andb_true_iff in E. destruct E as [E1 E2].
    apply Z.eqb_eq in E1, E2, E3, E4. destruct w as [[a b] [c d]]. cbn [fst snd] in *. subst. unfold dR in Hw. cbn [fst snd] in Hw. cbn in Hw.
    assert (Q2R wq = 1) by lra. rewrite H. lra.
  - cbn [fst snd]. rewrite !dmin_R, !dmax_R, !dmul_R. apply prod_bounds; assumption.
Qed.

Lemma data_part_encloses (d_obs : list obs) tab (n : string) (c : Z) :
  (forall o, spec_weight_t d_obs tab o n = spec_weight d_obs o n) -> forall l : list obs,
  Forall2 enclx
    (map (fun ow : obs * (dy * dy) => if Qeq_bool (fluct0 (fst ow) n c) 0 then (dzero, dzero) else dweighted (snd ow) (fluct0 (fst ow) n c))
         (combine l (map (fun o => d_enclose 64 (spec_weight_t d_obs tab o n)) l)))
    (map (fun o => Q2R (spec_weight d_obs o n * fluct0 o n c)) l).
Proof.
  intros W l. induction l as [|o l IH]; cbn; constructor; [|exact IH].
  destruct (Qeq_bool (fluct0 o n c) 0) eqn:Z.
  - apply Qeq_bool_eq in Z. unfold enclx. cbn [fst snd]. rewrite dR_zero.
    rewrite (Qeq_eqR _ 0%Q); [rewrite RMicromega.Q2R_0; lra | rewrite Z; ring].
  - rewrite <- W. apply dweighted_encl. apply d_enclose_R. lia.
Qed.

(* every row of the table, entry by entry *)
Theorem fluct_table_row_encloses (u_obs d_obs : list obs) (n : string) (c : Z) :
  let tab := ulen_table d_obs in
  let ws := map (fun o => d_enclose 64 (spec_weight_t d_obs tab o n)) d_obs in
  let xs := map (fun o => dexact (fluct0 o n c)) u_obs
            ++ map (fun ow => if Qeq_bool (fluct0 (fst ow) n c) 0 then (dzero, dzero) else dweighted (snd ow) (fluct0 (fst ow) n c)) (combine d_obs ws) in
  Forall2 enclx xs (map (fun o => Q2R (fluct0 o n c)) u_obs ++ map (fun o => Q2R (spec_weight d_obs o n * fluct0 o n c)) d_obs).
Proof.
  cbv zeta. apply Forall2_app.
  - induction u_obs as [|o l IH]; cbn; constructor; [apply dexact_encl | exact IH].
  - apply data_part_encloses. intro o. apply spec_weight_t_correct.
Qed.

(* the table consists exactly of these rows, one per replica name of the operands and configuration of that replica's union *)
Definition table_row (u_obs d_obs : list obs) (n : string) (c : Z) : list (dy * dy) :=
  let tab := ulen_table d_obs in
  let ws := map (fun o => d_enclose 64 (spec_weight_t d_obs tab o n)) d_obs in
  map (fun o => dexact (fluct0 o n c)) u_obs
  ++ map (fun ow => if Qeq_bool (fluct0 (fst ow) n c) 0 then (dzero, dzero) else dweighted (snd ow) (fluct0 (fst ow) n c)) (combine d_obs ws).
Theorem fluct_table_rows (u_obs d_obs : list obs) xs :
  In xs (dfluct_table u_obs d_obs) <->
  exists n c, In n (sample_names (u_obs ++ d_obs)) /\ In c (union_cfgs (u_obs ++ d_obs) n) /\ xs = table_row u_obs d_obs n c.
Proof.
  unfold dfluct_table, table_row. rewrite in_flat_map. split.
  - intros [n [Hn H]]. apply in_map_iff in H. destruct H as [c [E Hc]]. exists n, c. repeat split; [exact Hn | exact Hc | symmetry; exact E].
  - intros [n [c [Hn [Hc E]]]]. exists n. split; [exact Hn|]. apply in_map_iff. exists c. split; [symmetry; exact E | exact Hc].
Qed.

(* rows of the covariance-gradient table: exact enclosures of the gradient components of every observable *)
Theorem cov_table_rows (u_obs d_obs : list obs) xs :
  In xs (dcov_table u_obs d_obs) <->
  exists n k, In n (all_cov_names (u_obs ++ d_obs)) /\ In k (seq 0 (cov_len (u_obs ++ d_obs) n))
              /\ xs = map (fun o => dexact (covgrad_of o n k)) u_obs ++ map (fun o => dexact (covgrad_of o n k)) d_obs.
Proof.
  unfold dcov_table. rewrite in_flat_map. split.
  - intros [n [Hn H]]. apply in_map_iff in H. destruct H as [k [E Hk]]. exists n, k. repeat split; [exact Hn | exact Hk | symmetry; exact E].
  - intros [n [k [Hn [Hk E]]]]. exists n. split; [exact Hn|]. apply in_map_iff. exists k. split; [symmetry; exact E | exact Hk].
Qed.
Theorem cov_table_row_encloses (u_obs d_obs : list obs) (n : string) (k : nat) :
  Forall2 enclx (map (fun o => dexact (covgrad_of o n k)) u_obs ++ map (fun o => dexact (covgrad_of o n k)) d_obs)
          (map (fun o => Q2R (covgrad_of o n k)) u_obs ++ map (fun o => Q2R (covgrad_of o n k)) d_obs).
Proof. apply Forall2_app; [induction u_obs as [|o l IH] | induction d_obs as [|o l IH]]; cbn; constructor; try apply dexact_encl; exact IH. Qed.
