(* Linear least squares as pyerrors sets it up (fits.py least_squares): residual vector = whitened data residuals followed by
   prior rows; closed-form generalised least squares; implicit-function sensitivities; verdict against the implementation. *)
From Coq Require Import ZArith QArith Qabs List Bool String Lia Lqa.
From PV Require Import Base.QAux Obs.Model Obs.Derived Lin.Mat.
Import ListNotations.
Open Scope Q_scope.

Record fitdata := mkFit {
  f_A : mat;                 (* design matrix: row k = d f(p, x_k) / d p  (the model is linear in p), rows in key-sorted order *)
  f_y : vec;                 (* central values of the data *)
  f_W : mat;                 (* whitening matrix: diag(1/dy) or the inverse Cholesky factor L^-1 D^-1 (n_y x n_y) *)
  f_mask : list nat;         (* parameter index of each prior *)
  f_pr : vec; f_dp : vec;    (* prior values and errors *)
  f_np : nat }.              (* number of parameters *)

Definition unit_row (n j : nat) (s : Q) : vec := map (fun k => if Nat.eqb k j then s else 0) (seq 0 n).
(* M = [W A ; e_mask / dp],  b = [W y ; pr / dp] : chi^2(p) = |M p - b|^2 is the documented chi-square *)
Definition gls_M (f : fitdata) : mat :=
  mmul (f_W f) (f_A f) (f_np f) ++ map (fun jd => unit_row (f_np f) (fst jd) (Qred (1 / snd jd))) (combine (f_mask f) (f_dp f)).
Definition gls_b (f : fitdata) : vec :=
  mvec (f_W f) (f_y f) ++ map (fun pd => Qred (fst pd / snd pd)) (combine (f_pr f) (f_dp f)).
(* the full whitening [W 0; 0 diag(1/dp)] applied to the raw (data, prior) vector *)
Definition gls_Wfull (f : fitdata) : mat :=
  let ny := List.length (f_y f) in let npr := List.length (f_pr f) in
  map (fun row => row ++ repeat 0 npr) (f_W f) ++ map (fun kd => repeat 0 ny ++ unit_row npr (fst kd) (Qred (1 / snd kd))) (combine (seq 0 npr) (f_dp f)).

(* result: the parameters and T = (M^T M)^-1; both certified by multiplication *)
Record glsres := mkGls { g_p : vec; g_T : mat }.
Definition identity (n : nat) : mat := map (fun i => unit_row n i 1) (seq 0 n).
Definition gls (f : fitdata) : option glsres :=
  let M := gls_M f in let b := gls_b f in let np := f_np f in
  let Mt := transpose M np in
  let N := mmul Mt M np in
  match solve_checked N (map (fun r => [r]) (mvec Mt b)) 1, solve_checked N (identity np) np with
  | Some P, Some T => Some (mkGls (mcol P 0) T)
  | _, _ => None
  end.
Definition gls_chisq (f : fitdata) (p : vec) : Q := normsq (vsubv (mvec (gls_M f) p) (gls_b f)).
Definition gls_dof (f : fitdata) : Z := (Z.of_nat (List.length (f_y f)) - Z.of_nat (f_np f) + Z.of_nat (List.length (f_pr f)))%Z.
(* sensitivities d p / d (data, priors) = T M^T W' : the implicit-function derivative -H^-1 d2chi2/dp dy for a linear model *)
Definition gls_S (f : fitdata) (T : mat) : mat :=
  let ntot := (List.length (f_y f) + List.length (f_pr f))%nat in
  mmul T (mmul (transpose (gls_M f) (f_np f)) (gls_Wfull f) ntot) ntot.

(* the parameters satisfy the normal equations and T is the inverse of N = M^T M, exactly (certifying solve) *)
Theorem gls_solves_normal_equations f r :
  gls f = Some r ->
  let M := gls_M f in let np := f_np f in let Mt := transpose M np in let N := mmul Mt M np in
  exists P, g_p r = mcol P 0 /\ List.length P = np
    /\ mat_eqb (mmul N P 1) (map (map Qred) (map (fun x => [x]) (mvec Mt (gls_b f)))) = true
    /\ mat_eqb (mmul N (g_T r) np) (map (map Qred) (identity np)) = true.
Proof.
  cbv zeta. unfold gls.
  destruct (solve_checked _ (map (fun r0 => [r0]) _) 1) as [P|] eqn:E1; [|discriminate].
  destruct (solve_checked _ (identity _) _) as [T|] eqn:E2; [|discriminate].
  intro H. injection H as <-. cbn [g_p g_T]. exists P. split; [reflexivity|].
  apply solve_checked_sound in E1. apply solve_checked_sound in E2. destruct E1 as [L1 E1]. destruct E2 as [_ E2].
  split; [|split; assumption]. rewrite L1. unfold mmul, transpose. rewrite !map_length, seq_length. reflexivity.
Qed.

Definition fit_shape_ok (f : fitdata) : Prop :=
  List.length (f_y f) = List.length (f_W f) /\ List.length (f_mask f) = List.length (f_dp f) /\ List.length (f_pr f) = List.length (f_dp f).

Lemma gls_M_shape f : shape_ok (gls_M f) (f_np f).
Proof.
  unfold gls_M, shape_ok. apply Forall_app. split; apply Forall_forall; intros row H.
  - unfold mmul in H. apply in_map_iff in H. destruct H as [w [<- _]]. rewrite map_length, seq_length. reflexivity.
  - apply in_map_iff in H. destruct H as [jd [<- _]]. unfold unit_row. rewrite map_length, seq_length. reflexivity.
Qed.
Lemma gls_b_length f : fit_shape_ok f -> List.length (gls_b f) = List.length (gls_M f).
Proof.
  intros [H1 [H2 H3]]. unfold gls_b, gls_M, mmul, mvec. rewrite !app_length, !map_length, !combine_length. lia.
Qed.

(* the fitted parameters minimise chi^2(p) = |M p - b|^2 over every parameter vector p *)
Theorem gls_minimises f r p : gls f = Some r -> fit_shape_ok f -> List.length p = f_np f ->
  gls_chisq f (g_p r) <= gls_chisq f p.
Proof.
  intros H Hf Hp. destruct (gls_solves_normal_equations f r H) as [P [-> [LN [E1 _]]]]. unfold gls_chisq.
  apply normal_equations_give_the_minimum.
  - rewrite Hp. apply gls_M_shape.
  - unfold mcol. rewrite map_length, Hp. exact LN.
  - apply gls_b_length. exact Hf.
  - intros d _. rewrite Hp. apply (matrix_normal_equations (gls_M f) (gls_b f) P (f_np f)).
    + apply gls_M_shape.
    + apply gls_b_length. exact Hf.
    + exact LN.
    + exact E1.
Qed.

(* ------------------------------------------------------------------ verdict against the implementation *)
Record fcase := mkFitCase {
  fc_fit : fitdata; fc_ops : list obs;            (* data observables followed by the prior observables *)
  fc_params : list obs; fc_chisq : Q; fc_dof : Z; (* what least_squares returned *)
  fc_rt : Q; fc_at : Q }.
(* value, every fluctuation (configuration-aligned, C01) and every covariance gradient of parameter i follow from row i of the
   sensitivity matrix; chi-square is the weighted residual norm; dof = points - parameters + priors *)
Definition param_ok (rt at_ : Q) (ops : list obs) (val : Q) (gs : vec) (res : obs) : bool :=
  closeb rt at_ (o_value res) val
  && names_eqb (rep_names res) (sample_names ops)
  && forallb (fun r => zlist_eqb (cfgs (r_idl r)) (union_cfgs ops (r_name r))
                       && all2 (fun c d => closeb rt at_ d (spec_fluct ops (r_name r) c gs ops)) (cfgs (r_idl r)) (r_deltas r)) (o_reps res)
  && all2 (fun cv n => String.eqb (c_name cv) n
            && all2 (fun k g => closeb rt at_ g (spec_covgrad n k gs ops)) (seq 0 (List.length (c_grad cv))) (c_grad cv))
          (o_covs res) (all_cov_names ops).
(* The verdict compares within a tolerance (fc_rt, fc_at >= 2^-30 * scale); T and p are rounded to 2^-96 before the products
   below (qround_below / qround_above bound the rounding) so that the many per-configuration products stay small. *)
Definition rnd (x : Q) : Q := Qred (qround 96 x).
Definition fcase_ok (c : fcase) : bool :=
  let f := fc_fit c in
  match gls f with
  | None => false
  | Some r =>
      let p := map rnd (g_p r) in
      let S := map (map rnd) (gls_S f (map (map rnd) (g_T r))) in
      Nat.eqb (List.length (fc_params c)) (List.length p)
      && forallb (fun i => param_ok (fc_rt c) (fc_at c) (fc_ops c) (nth i p 0) (nth i S []) (nth i (fc_params c) (mkObs 0 [] [] false)))
                 (seq 0 (List.length p))
      && closeb (fc_rt c) (fc_at c) (gls_chisq f p) (fc_chisq c) && Z.eqb (gls_dof f) (fc_dof c)
  end.
