(* Facts about the Python primitives of Py/Prim.v that the tie theorems (coq/props/Tie*.v) use to relate the regenerated
   definitions to the hand-written models: indexing inside the bounds, loops by invariants, sorted sets. *)
From Coq Require Import ZArith QArith List Bool Lia Sorted.
From PV Require Import Base.QAux Obs.Model Obs.DerivedThm Py.Prim.
Import ListNotations.
Open Scope Z_scope.

(* ------------------------------------------------------------------ indexing *)
Lemma norm_index_ok n i : 0 <= i < n -> norm_index n i = Some i.
Proof.
  intro H. unfold norm_index. destruct (i <? 0) eqn:E; [lia|].
  destruct (0 <=? i) eqn:E1; destruct (i <? n) eqn:E2; simpl; try reflexivity; lia.
Qed.
Lemma norm_index_neg n i : - n <= i < 0 -> norm_index n i = Some (i + n).
Proof.
  intro H. unfold norm_index. destruct (i <? 0) eqn:E; [|lia].
  destruct (0 <=? i + n) eqn:E1; destruct (i + n <? n) eqn:E2; simpl; try reflexivity; lia.
Qed.
Lemma norm_index_range n i j : norm_index n i = Some j -> 0 <= j < n.
Proof.
  unfold norm_index. set (k := if i <? 0 then i + n else i).
  destruct (0 <=? k) eqn:E1; destruct (k <? n) eqn:E2; simpl; try discriminate. intro H. injection H as <-. lia.
Qed.

Lemma zlen_nonneg {A} (l : list A) : 0 <= zlen l.
Proof. unfold zlen. lia. Qed.

Lemma py_index_nth {A} (l : list A) i d : 0 <= i < zlen l -> py_index l i = Ok (nth (Z.to_nat i) l d).
Proof.
  intro H. unfold py_index. rewrite norm_index_ok by exact H.
  destruct (nth_error l (Z.to_nat i)) eqn:E.
  - f_equal. symmetry. apply nth_error_nth. exact E.
  - apply nth_error_None in E. unfold zlen in H. lia.
Qed.
Lemma py_index_nat {A} (l : list A) k d : (k < List.length l)%nat -> py_index l (Z.of_nat k) = Ok (nth k l d).
Proof.
  intro H. rewrite (py_index_nth l _ d) by (unfold zlen; lia). rewrite Nat2Z.id. reflexivity.
Qed.
Lemma py_index_0 (l : list Z) : l <> [] -> py_index l 0 = Ok (zhd l).
Proof.
  intro H. destruct l as [|x r]; [congruence|]. rewrite (py_index_nth _ _ 0) by (unfold zlen; simpl; lia). reflexivity.
Qed.
Lemma last_nth (l : list Z) d : l <> [] -> last l d = nth (List.length l - 1) l d.
Proof.
  induction l as [|x r IH]; [congruence|]. intros _. destruct r as [|y r'].
  - reflexivity.
  - change (last (x :: y :: r') d) with (last (y :: r') d). rewrite IH by congruence. simpl. rewrite Nat.sub_0_r. reflexivity.
Qed.
Lemma py_index_m1 (l : list Z) : l <> [] -> py_index l (-1) = Ok (zlast l).
Proof.
  intro H. unfold py_index. assert (Hl : (0 < List.length l)%nat) by (destruct l; [congruence|simpl; lia]).
  rewrite norm_index_neg by (unfold zlen; lia).
  replace (Z.to_nat (-1 + zlen l)) with (List.length l - 1)%nat by (unfold zlen; lia).
  destruct (nth_error l (List.length l - 1)) eqn:E.
  - f_equal. unfold zlast. rewrite last_nth by exact H. symmetry. apply nth_error_nth. exact E.
  - apply nth_error_None in E. lia.
Qed.
Lemma py_index_1 (l : list Z) : (2 <= List.length l)%nat -> py_index l 1 = Ok (znth l 1).
Proof. intro H. rewrite (py_index_nth _ _ 0) by (unfold zlen; lia). reflexivity. Qed.

Lemma py_store_ok l i v : 0 <= i < zlen l -> py_store l i v = Ok (upd l (Z.to_nat i) v).
Proof. intro H. unfold py_store. rewrite norm_index_ok by exact H. reflexivity. Qed.

(* ------------------------------------------------------------------ range(n), loops *)
Lemma zrange_n_seq a n : zrange_n (Z.of_nat a) 1 n = map Z.of_nat (seq a n).
Proof.
  revert a; induction n as [|n IH]; intro a; simpl; [reflexivity|]. f_equal.
  replace (Z.of_nat a + 1) with (Z.of_nat (S a)) by lia. apply IH.
Qed.
Lemma py_upto_seq n : py_upto (Z.of_nat n) = map Z.of_nat (seq 0 n).
Proof.
  unfold py_upto, zrange. simpl. replace (Z.of_nat n - 0 + 1 - 1) with (Z.of_nat n) by lia.
  rewrite Z.div_1_r, Nat2Z.id. apply (zrange_n_seq 0).
Qed.

(* a loop over range(n) whose k-th iteration succeeds and re-establishes the invariant *)
Lemma py_for_seq_inv {S} (P : nat -> S -> Prop) (body : S -> Z -> res S) n : forall a st,
  P a st ->
  (forall k st, (a <= k < a + n)%nat -> P k st -> exists st', body st (Z.of_nat k) = Ok st' /\ P (Datatypes.S k) st') ->
  exists st', py_for (map Z.of_nat (seq a n)) st body = Ok st' /\ P (a + n)%nat st'.
Proof.
  induction n as [|n IH]; intros a st H0 Hstep.
  - exists st. simpl. rewrite Nat.add_0_r. auto.
  - simpl. destruct (Hstep a st ltac:(lia) H0) as [st1 [E1 P1]]. rewrite E1. simpl.
    destruct (IH (Datatypes.S a) st1 P1) as [st2 [E2 P2]].
    + intros k st' Hk. apply Hstep. lia.
    + exists st2. split; [exact E2|]. replace (a + Datatypes.S n)%nat with (Datatypes.S a + n)%nat by lia. exact P2.
Qed.
Lemma py_for_upto_inv {S} (P : nat -> S -> Prop) (body : S -> Z -> res S) n st :
  P O st ->
  (forall k st, (k < n)%nat -> P k st -> exists st', body st (Z.of_nat k) = Ok st' /\ P (Datatypes.S k) st') ->
  exists st', py_for (py_upto (Z.of_nat n)) st body = Ok st' /\ P n st'.
Proof.
  intros H0 Hstep. rewrite py_upto_seq. apply (py_for_seq_inv P body n 0 st H0).
  intros k st' Hk. apply Hstep. lia.
Qed.

Lemma py_map_total {A B} (f : A -> res B) (g : A -> B) xs :
  (forall x, In x xs -> f x = Ok (g x)) -> py_map f xs = Ok (map g xs).
Proof.
  induction xs as [|x r IH]; intro H; simpl; [reflexivity|].
  rewrite (H x) by (left; reflexivity). simpl. rewrite IH by (intros y Hy; apply H; right; exact Hy). reflexivity.
Qed.

(* ------------------------------------------------------------------ sorted sets *)
Lemma zinsert_In x l y : In y (zinsert x l) <-> y = x \/ In y l.
Proof.
  induction l as [|z r IH]; simpl.
  - intuition.
  - destruct (x <? z) eqn:E1; [simpl; intuition|]. destruct (x =? z) eqn:E2.
    + apply Z.eqb_eq in E2. subst. simpl. intuition.
    + simpl. rewrite IH. intuition.
Qed.
Lemma zinsert_lb x l m : m < x -> Forall (Z.lt m) l -> Forall (Z.lt m) (zinsert x l).
Proof.
  intros Hx H. induction H as [|z r Hz Hr IH]; simpl.
  - constructor; [exact Hx|constructor].
  - destruct (x <? z); [constructor; [exact Hx|constructor; assumption]|].
    destruct (x =? z); constructor; assumption.
Qed.
Lemma zinsert_incr x l : incr l -> incr (zinsert x l).
Proof.
  unfold incr. induction 1 as [|z r Hr IH Hz]; simpl.
  - constructor; constructor.
  - destruct (x <? z) eqn:E1.
    + apply Z.ltb_lt in E1. constructor; [constructor; assumption|]. constructor; [exact E1|].
      eapply Forall_impl; [|exact Hz]. intros a Ha. lia.
    + destruct (x =? z) eqn:E2; [constructor; assumption|].
      apply Z.ltb_ge in E1. apply Z.eqb_neq in E2. constructor; [exact IH|]. apply zinsert_lb; [lia|exact Hz].
Qed.
Lemma zsort_set_incr l : incr (zsort_set l).
Proof. induction l as [|x r IH]; simpl; [constructor|]. apply zinsert_incr. exact IH. Qed.
Lemma zsort_set_In l y : In y (zsort_set l) <-> In y l.
Proof. induction l as [|x r IH]; simpl; [tauto|]. rewrite zinsert_In, IH. intuition. Qed.

Lemma incr_head_lt x r : incr (x :: r) -> Forall (Z.lt x) r.
Proof. intro H. inversion H; assumption. Qed.
Lemma incr_tail x r : incr (x :: r) -> incr r.
Proof. intro H. inversion H; assumption. Qed.

(* two strictly increasing lists with the same members are the same list *)
Lemma incr_ext a : forall b, incr a -> incr b -> (forall x, In x a <-> In x b) -> a = b.
Proof.
  induction a as [|x a IH]; intros b Ha Hb H.
  - destruct b as [|y b]; [reflexivity|]. exfalso. apply (proj2 (H y)). left; reflexivity.
  - destruct b as [|y b]; [exfalso; apply (proj1 (H x)); left; reflexivity|].
    pose proof (incr_head_lt _ _ Ha) as La. pose proof (incr_head_lt _ _ Hb) as Lb.
    rewrite Forall_forall in La, Lb.
    assert (x = y).
    { destruct (proj1 (H x) (or_introl eq_refl)) as [E|E]; [congruence|].
      destruct (proj2 (H y) (or_introl eq_refl)) as [E'|E']; [congruence|].
      apply Lb in E. apply La in E'. lia. }
    subst y. f_equal. apply IH; [eapply incr_tail; eassumption|eapply incr_tail; eassumption|].
    intro z. split; intro Hz.
    + destruct (proj1 (H z) (or_intror Hz)) as [E|E]; [|exact E]. subst z. apply La in Hz. lia.
    + destruct (proj2 (H z) (or_intror Hz)) as [E|E]; [|exact E]. subst z. apply Lb in Hz. lia.
Qed.

Lemma py_sorted_union_zunion ls : Forall incr ls -> py_sorted_union ls = zunion ls.
Proof.
  intro H. apply incr_ext.
  - apply zsort_set_incr.
  - apply zunion_incr. exact H.
  - intro x. unfold py_sorted_union. rewrite zsort_set_In, zunion_In, in_concat. reflexivity.
Qed.

Ltac fin_in La Lb :=
  subst; try tauto; try lia;
  repeat match goal with H : In _ _ |- _ => first [apply La in H | apply Lb in H] end; try lia; try tauto.

Lemma zinter_In a : forall b x, incr a -> incr b -> (In x (zinter a b) <-> In x a /\ In x b).
Proof.
  induction a as [|u a IHa]; intros b x Ha Hb.
  - destruct b; simpl; tauto.
  - induction b as [|v b IHb].
    + simpl. tauto.
    + pose proof (incr_head_lt _ _ Ha) as La. pose proof (incr_head_lt _ _ Hb) as Lb. rewrite Forall_forall in La, Lb.
      cbn [zinter]. destruct (u <? v) eqn:E1.
      * apply Z.ltb_lt in E1. rewrite (IHa (v :: b) x (incr_tail _ _ Ha) Hb). simpl. split.
        -- intuition.
        -- intros [[Hx|Hx] [Hy|Hy]]; fin_in La Lb.
      * destruct (v <? u) eqn:E2.
        -- apply Z.ltb_lt in E2.
           change ((fix inner (b0 : list Z) : list Z := match b0 with
                     | [] => [] | y :: b' => if u <? y then zinter a b0 else if y <? u then inner b' else u :: zinter a b' end) b)
             with (zinter (u :: a) b).
           rewrite (IHb (incr_tail _ _ Hb)). simpl. split.
           ++ intuition.
           ++ intros [[Hx|Hx] [Hy|Hy]]; fin_in La Lb.
        -- assert (u = v) by (apply Z.ltb_ge in E1; apply Z.ltb_ge in E2; lia). subst v.
           simpl. rewrite (IHa b x (incr_tail _ _ Ha) (incr_tail _ _ Hb)). split.
           ++ intros [Hx|[Hx Hy]]; [subst; tauto|tauto].
           ++ intros [[Hx|Hx] [Hy|Hy]]; fin_in La Lb.
Qed.

Lemma zinter_lb a : forall b m, Forall (Z.lt m) a -> Forall (Z.lt m) (zinter a b).
Proof.
  induction a as [|u a IHa]; intros b m Ha.
  - destruct b; constructor.
  - inversion Ha as [|? ? Hu Ha']; subst. induction b as [|v b IHb]; [constructor|].
    cbn [zinter]. destruct (u <? v); [apply IHa; exact Ha'|]. destruct (v <? u); [exact IHb|].
    constructor; [exact Hu|apply IHa; exact Ha'].
Qed.
Lemma zinter_incr a : forall b, incr a -> incr (zinter a b).
Proof.
  induction a as [|u a IHa]; intros b Ha.
  - destruct b; constructor.
  - induction b as [|v b IHb]; [constructor|].
    cbn [zinter]. destruct (u <? v); [apply IHa; eapply incr_tail; eassumption|]. destruct (v <? u); [exact IHb|].
    constructor; [apply IHa; eapply incr_tail; eassumption|]. apply zinter_lb. apply incr_head_lt. exact Ha.
Qed.

Lemma zmem_In x l : zmem x l = true <-> In x l.
Proof.
  unfold zmem. rewrite existsb_exists. split.
  - intros [y [Hy E]]. apply Z.eqb_eq in E. subst. exact Hy.
  - intro H. exists x. split; [exact H|apply Z.eqb_refl].
Qed.
Lemma py_sorted_inter2 a b : incr a -> incr b -> py_sorted_inter [a; b] = Ok (zinter a b).
Proof.
  intros Ha Hb. unfold py_sorted_inter. f_equal. apply incr_ext.
  - apply zsort_set_incr.
  - apply zinter_incr. exact Ha.
  - intro x. rewrite zsort_set_In, filter_In, (zinter_In a b x Ha Hb). simpl. rewrite andb_true_r, zmem_In. reflexivity.
Qed.

Lemma zrange_any_pos a b s : 0 < s -> zrange_any a b s = zrange a b s.
Proof. intro H. unfold zrange_any. destruct (0 <? s) eqn:E; [reflexivity|lia]. Qed.

(* ------------------------------------------------------------------ the scatter loops *)
(* ret[h(idx[i])] = deltas[i] for i in range(len(idx)), as a recursion over the two lists *)
Fixpoint scatter_h (h : Z -> Z) (ret : list Q) (idx : list Z) (deltas : list Q) : list Q :=
  match idx, deltas with
  | c :: idx', d :: deltas' => scatter_h h (upd ret (Z.to_nat (h c)) d) idx' deltas'
  | _, _ => ret
  end.
Lemma scatter_h_scatter base idx : forall deltas ret,
  scatter_h (fun c => c - base) ret idx deltas = scatter ret base idx deltas.
Proof. induction idx as [|c idx IH]; intros [|d ds] r; simpl; auto. Qed.

Lemma skipn_nth_cons {A} (l : list A) k d : (k < List.length l)%nat -> skipn k l = nth k l d :: skipn (S k) l.
Proof.
  revert k; induction l as [|x l IH]; intros k H; simpl in H; [lia|].
  destruct k as [|k]; [reflexivity|]. simpl. apply IH. lia.
Qed.

Lemma py_for_scatter (h : Z -> Z) (body : list Q -> Z -> res (list Q)) idx deltas ret0 :
  List.length deltas = List.length idx ->
  (forall k ret, (k < List.length idx)%nat -> List.length ret = List.length ret0 ->
       body ret (Z.of_nat k) = Ok (upd ret (Z.to_nat (h (nth k idx 0))) (nth k deltas 0%Q))) ->
  py_for (py_upto (zlen idx)) ret0 body = Ok (scatter_h h ret0 idx deltas).
Proof.
  intros Hl Hb.
  destruct (py_for_upto_inv
              (fun k ret => List.length ret = List.length ret0 /\
                            scatter_h h ret (skipn k idx) (skipn k deltas) = scatter_h h ret0 idx deltas)
              body (List.length idx) ret0) as [st [E [_ P]]].
  - split; reflexivity.
  - intros k ret Hk [Hlen Hs]. exists (upd ret (Z.to_nat (h (nth k idx 0))) (nth k deltas 0%Q)). split.
    + apply Hb; assumption.
    + split; [rewrite upd_length; exact Hlen|].
      rewrite <- Hs. rewrite (skipn_nth_cons idx k 0) by exact Hk.
      rewrite (skipn_nth_cons deltas k 0%Q) by lia. reflexivity.
  - unfold zlen. rewrite E. f_equal. rewrite skipn_all in P. simpl in P. exact P.
Qed.

Lemma map_nth_seq {A B} (f : A -> B) (l : list A) d :
  map (fun k => f (nth k l d)) (seq 0 (List.length l)) = map f l.
Proof.
  induction l as [|x l IH]; [reflexivity|]. simpl. f_equal. rewrite <- seq_shift, map_map. exact IH.
Qed.

(* a loop that appends one value per element *)
Lemma py_for_append {X A} (g : X -> A) (body : list A -> X -> res (list A)) xs : forall acc,
  (forall st x, In x xs -> body st x = Ok (st ++ [g x])) -> py_for xs acc body = Ok (acc ++ map g xs).
Proof.
  induction xs as [|x r IH]; intros acc H; simpl.
  - rewrite app_nil_r. reflexivity.
  - rewrite (H acc x) by (left; reflexivity). simpl. rewrite IH by (intros st y Hy; apply H; right; exact Hy).
    rewrite <- app_assoc. reflexivity.
Qed.

Lemma diffs_pos l : incr l -> Forall (fun d => 0 < d) (diffs l).
Proof.
  induction l as [|x [|y r] IH]; intro H; simpl; try constructor.
  - inversion H as [|? ? Ht Hlt]; subst. inversion Hlt; subst. lia.
  - apply IH. inversion H; assumption.
Qed.
Lemma fold_min_pos x l : 0 < x -> Forall (fun d => 0 < d) l -> 0 < fold_right Z.min x l.
Proof. intros Hx H. induction H as [|d l Hd Hl IH]; simpl; [exact Hx|lia]. Qed.
Lemma fold_max_nonneg x l : 0 <= x -> Forall (fun d => 0 <= d) l -> fold_right Z.max x l = fold_right Z.max 0 (x :: l).
Proof.
  intros Hx H. induction H as [|d l Hd Hl IH]; simpl; [lia|]. simpl in IH. rewrite IH. lia.
Qed.

(* a loop whose body cannot raise is a fold *)
Lemma py_for_total {S X} (f : S -> X -> S) (body : S -> X -> res S) xs : forall st,
  (forall st x, In x xs -> body st x = Ok (f st x)) -> py_for xs st body = Ok (fold_left f xs st).
Proof.
  induction xs as [|x r IH]; intros st H; simpl; [reflexivity|].
  rewrite (H st x) by (left; reflexivity). simpl. apply IH. intros st' y Hy. apply H. right. exact Hy.
Qed.

Lemma zrange_seq a b : zrange (Z.of_nat a) (Z.of_nat b) 1 = map Z.of_nat (seq a (b - a)).
Proof.
  unfold zrange. simpl. replace (Z.of_nat b - Z.of_nat a + 1 - 1) with (Z.of_nat b - Z.of_nat a) by lia.
  rewrite Z.div_1_r. replace (Z.to_nat (Z.of_nat b - Z.of_nat a)) with (b - a)%nat by lia. apply zrange_n_seq.
Qed.

(* a search loop over consecutive integers stops at the first one satisfying the (non-raising) condition *)
Lemma py_first_seq (f : Z -> bool) n : forall a,
  match py_first (map Z.of_nat (seq a n)) (fun x => if f x then Ok (Some x) else Ok None) with
  | Ok (Some W) => exists k, W = Z.of_nat k /\ (a <= k < a + n)%nat /\ f W = true /\ forall j, (a <= j < k)%nat -> f (Z.of_nat j) = false
  | Ok None => forall j, (a <= j < a + n)%nat -> f (Z.of_nat j) = false
  | Raise _ => False
  end.
Proof.
  induction n as [|n IH]; intro a; cbn [seq map py_first]; [intros j Hj; lia|].
  destruct (f (Z.of_nat a)) eqn:E; cbn [bind].
  - exists a. split; [reflexivity|]. split; [lia|]. split; [exact E|intros j Hj; lia].
  - specialize (IH (S a)). destruct (py_first (map Z.of_nat (seq (S a) n)) _) as [[W|]|e]; [| |exact IH].
    + destruct IH as [k [HW [Hk [Hf Hpre]]]]. exists k. split; [exact HW|]. split; [lia|]. split; [exact Hf|].
      intros j Hj. destruct (Nat.eq_dec j a) as [->|Hne]; [exact E|apply Hpre; lia].
    + intros j Hj. destruct (Nat.eq_dec j a) as [->|Hne]; [exact E|apply IH; lia].
Qed.

Lemma py_filter_total {X} (f : X -> res bool) (g : X -> bool) xs :
  (forall x, In x xs -> f x = Ok (g x)) -> py_filter f xs = Ok (filter g xs).
Proof.
  induction xs as [|x r IH]; intro H; simpl; [reflexivity|].
  rewrite (H x) by (left; reflexivity). simpl. rewrite IH by (intros y Hy; apply H; right; exact Hy). simpl.
  destruct (g x); reflexivity.
Qed.
Lemma filter_map_swap {A B} (h : A -> B) (g : B -> bool) l : filter g (map h l) = map h (filter (fun a => g (h a)) l).
Proof. induction l as [|a l IH]; simpl; [reflexivity|]. destruct (g (h a)); simpl; rewrite IH; reflexivity. Qed.
