(* Semantics of the Python / numpy operations that the translator translate/t_pycore.py maps source constructs to.
   The generated definitions (coq/gen/<id>/PyGen.v, regenerated from /repo on every run) are written in a result
   monad: every operation that can raise in Python returns [Raise e] at exactly that point.  Nothing in this file
   mentions pyerrors; it is the meaning given to Python itself and is part of the trusted base (DESIGN 7.7). *)
From Coq Require Import ZArith QArith List Bool Lia.
From PV Require Import Base.QAux Obs.Model.
Import ListNotations.
Open Scope Z_scope.

Inductive exn := IndexError | ValueError | ZeroDivisionError | TypeError | NameError.
Inductive res (A : Type) := Ok (a : A) | Raise (e : exn).
Arguments Ok {A} a.
Arguments Raise {A} e.

Definition bind {A B} (x : res A) (f : A -> res B) : res B :=
  match x with Ok a => f a | Raise e => Raise e end.
Notation "x <- e ;; k" := (bind e (fun x => k)) (at level 61, e at next level, right associativity).

Definition exn_eqb (a b : exn) : bool :=
  match a, b with
  | IndexError, IndexError | ValueError, ValueError | ZeroDivisionError, ZeroDivisionError | TypeError, TypeError | NameError, NameError => true
  | _, _ => false
  end.
(* try: body  except <e>: handler *)
Definition try_except {A} (e : exn) (body : res A) (handler : res A) : res A :=
  match body with
  | Ok a => Ok a
  | Raise e' => if exn_eqb e e' then handler else Raise e'
  end.

(* ------------------------------------------------------------------ sequences *)
Definition zlen {A} (l : list A) : Z := Z.of_nat (List.length l).

(* l[i]: a negative index counts from the end (once); outside -len..len-1 raises IndexError *)
Definition norm_index (n i : Z) : option Z :=
  let j := if i <? 0 then i + n else i in
  if (0 <=? j) && (j <? n) then Some j else None.
Definition py_index {A} (l : list A) (i : Z) : res A :=
  match norm_index (zlen l) i with
  | Some j => match nth_error l (Z.to_nat j) with Some a => Ok a | None => Raise IndexError end
  | None => Raise IndexError
  end.
(* a[i] = v on a numpy array *)
Definition py_store (l : list Q) (i : Z) (v : Q) : res (list Q) :=
  match norm_index (zlen l) i with
  | Some j => Ok (upd l (Z.to_nat j) v)
  | None => Raise IndexError
  end.
(* a[i] += v *)
Definition py_store_add (l : list Q) (i : Z) (v : Q) : res (list Q) :=
  match norm_index (zlen l) i with
  | Some j => Ok (upd l (Z.to_nat j) (Qred (qnth l (Z.to_nat j) + v)))
  | None => Raise IndexError
  end.

(* l[a:b] with explicit integer bounds: clipped, never raises *)
Definition clip_index (n i : Z) : Z := if i <? 0 then Z.max 0 (n + i) else Z.min n i.
Definition py_slice {A} (l : list A) (a b : Z) : list A :=
  let n := zlen l in let a' := clip_index n a in let b' := clip_index n b in
  firstn (Z.to_nat (b' - a')) (skipn (Z.to_nat a') l).

(* np.zeros(n): a negative length raises ValueError *)
Definition py_zeros (n : Z) : res (list Q) := if n <? 0 then Raise ValueError else Ok (zeros (Z.to_nat n)).

(* a // b and a % b on ints: Coq's Z.div / Z.modulo round like Python's (sign of the divisor) *)
Definition py_floordiv (a b : Z) : res Z := if b =? 0 then Raise ZeroDivisionError else Ok (a / b).
Definition py_mod (a b : Z) : res Z := if b =? 0 then Raise ZeroDivisionError else Ok (a mod b).
(* a / b on numbers *)
Definition py_truediv (a b : Q) : res Q := if Qeqb b 0 then Raise ZeroDivisionError else Ok (a / b)%Q.

(* list(range(start, stop, step)) for either sign of the step; step 0 raises ValueError *)
Fixpoint zrange_down_n (start step : Z) (n : nat) : list Z :=
  match n with O => [] | S k => start :: zrange_down_n (start + step) step k end.
Definition zrange_any (start stop step : Z) : list Z :=
  if 0 <? step then zrange start stop step
  else if step <? 0 then zrange_down_n start step (Z.to_nat ((start - stop - step - 1) / (- step)))
  else [].
Definition py_range (start stop step : Z) : res idl :=
  if step =? 0 then Raise ValueError else Ok (mkIdl true (zrange_any start stop step)).
(* range(n) as the sequence a for loop runs over *)
Definition py_upto (n : Z) : list Z := zrange 0 n 1.

(* the .step attribute of a range, read off its enumeration (a range with fewer than two elements does not determine
   its step: 1, as Obs.__init__ builds them) *)
Definition range_step (i : idl) : Z := match diffs (cfgs i) with d :: _ => d | [] => 1 end.

(* for x in xs: st = body st x *)
Fixpoint py_for {S X} (xs : list X) (st : S) (body : S -> X -> res S) : res S :=
  match xs with
  | [] => Ok st
  | x :: r => st' <- body st x ;; py_for r st' body
  end.
(* [f x for x in xs] *)
Fixpoint py_map {A B} (f : A -> res B) (xs : list A) : res (list B) :=
  match xs with
  | [] => Ok []
  | x :: r => y <- f x ;; ys <- py_map f r ;; Ok (y :: ys)
  end.

(* sorted(set(..)) of integers: insertion into a strictly increasing list *)
Fixpoint zinsert (x : Z) (l : list Z) : list Z :=
  match l with
  | [] => [x]
  | y :: r => if x <? y then x :: l else if x =? y then l else y :: zinsert x r
  end.
Definition zsort_set (l : list Z) : list Z := fold_right zinsert [] l.
Definition zmem (x : Z) (l : list Z) : bool := existsb (Z.eqb x) l.
(* sorted of the union of all the sets *)
Definition py_sorted_union (ls : list (list Z)) : list Z := zsort_set (concat ls).
(* sorted intersection of all the sets; set.intersection() without arguments raises TypeError *)
Definition py_sorted_inter (ls : list (list Z)) : res (list Z) :=
  match ls with
  | [] => Raise TypeError
  | l :: r => Ok (zsort_set (filter (fun x => forallb (zmem x) r) l))
  end.

(* min(l) of a non-empty list of ints, np.min(np.diff(l)) *)
Definition py_min (l : list Z) : res Z :=
  match l with [] => Raise ValueError | x :: r => Ok (fold_right Z.min x r) end.
Definition py_min_diff (l : list Z) : res Z := py_min (diffs l).

(* elementwise numpy arithmetic with a scalar, dot product *)
Definition arr_mul (a : list Q) (s : Q) : list Q := map (fun d => d * s)%Q a.
Definition arr_div (a : list Q) (s : Q) : list Q := map (fun d => d / s)%Q a.
Definition arr_rsub (s : Q) (a : list Q) : list Q := map (fun d => s - d)%Q a.      (* s - a *)
Definition arr_add_s (a : list Q) (s : Q) : list Q := map (fun d => d + s)%Q a.
Fixpoint arr_dot (a b : list Q) : Q :=
  match a, b with x :: a', y :: b' => Qred (x * y + arr_dot a' b') | _, _ => 0%Q end.
(* a.dot(b) raises ValueError on a shape mismatch *)
Definition py_dot (a b : list Q) : res Q :=
  if Nat.eqb (List.length a) (List.length b) then Ok (arr_dot a b) else Raise ValueError.

(* np.intersect1d(a, b, assume_unique=True, return_indices=True)[1] for duplicate-free a, b: the positions in a of the common
   values, in the order of the sorted common values *)
Fixpoint zindex_of (x : Z) (l : list Z) : Z :=
  match l with [] => 0 | y :: r => if x =? y then 0 else 1 + zindex_of x r end.
Definition py_intersect1d_pos (a b : list Z) : list Z :=
  map (fun x => zindex_of x a) (zsort_set (filter (fun x => zmem x b) a)).
(* a[indices] with an integer index list (numpy fancy indexing) *)
Definition py_take (a : list Q) (ind : list Z) : res (list Q) := py_map (py_index a) ind.
Definition py_max (l : list Z) : res Z :=
  match l with [] => Raise ValueError | x :: r => Ok (fold_right Z.max x r) end.

(* dictionaries with string keys (the per-ensemble parameter dictionaries of Obs) *)
Definition dict_find (d : list (String.string * Q)) (k : String.string) : option Q :=
  option_map snd (find (fun p => String.eqb (fst p) k) d).
Definition dict_put (d : list (String.string * Q)) (k : String.string) (v : Q) : list (String.string * Q) :=
  (k, v) :: filter (fun p => negb (String.eqb (fst p) k)) d.
Definition is_some {A} (o : option A) : bool := match o with Some _ => true | None => false end.
Definition opt_get (o : option Q) : Q := match o with Some v => v | None => 0%Q end.

(* a[lo:hi] += v  on a numpy array (the shapes must agree) *)
Fixpoint arr_add (a b : list Q) : list Q :=
  match a, b with x :: a', y :: b' => Qred (x + y) :: arr_add a' b' | _, _ => [] end.
Definition py_slice_add (l : list Q) (lo hi : Z) (v : list Q) : res (list Q) :=
  let n := zlen l in let a := clip_index n lo in let b := clip_index n hi in
  let mid := firstn (Z.to_nat (b - a)) (skipn (Z.to_nat a) l) in
  if Nat.eqb (List.length mid) (List.length v)
  then Ok (firstn (Z.to_nat a) l ++ arr_add mid v ++ skipn (Z.to_nat a + List.length mid) l)
  else Raise ValueError.

(* np.fft.irfft(np.abs(np.fft.rfft(x, P)) ** 2) for an even P >= len(x): the circular autocorrelation of x zero-padded to
   length P (Wiener-Khinchin); numpy's FFT itself is an oracle, this is the mathematical meaning given to the expression *)
Definition py_circ_autocorr (x : list Q) (P n : nat) : Q :=
  Qsum (map (fun i => nth i x 0 * nth ((i + n) mod P) x 0)%Q (seq 0 P)).
Definition py_fft_autocorr (x : list Q) (P : Z) : list Q :=
  map (py_circ_autocorr x (Z.to_nat P)) (seq 0 (Z.to_nat P)).
Definition py_sum (l : list Z) : Z := fold_right Z.add 0 l.

(* a[lo:hi] = v on a numpy array: the lengths must agree (broadcasting of a single value is not modelled) *)
Definition py_slice_set (l : list Q) (lo hi : Z) (v : list Q) : res (list Q) :=
  let n := zlen l in let a := clip_index n lo in let b := clip_index n hi in
  if Nat.eqb (Z.to_nat (b - a)) (List.length v)
  then Ok (firstn (Z.to_nat a) l ++ v ++ skipn (Z.to_nat (Z.max a b)) l) else Raise ValueError.      (* an empty slice (b <= a) sits at a *)

(* a[lo:stop:-1]: indices lo, lo-1, ..., down to (not including) stop; stop = None runs down to index 0 *)
Definition py_slice_rev (l : list Q) (lo : Z) (stop : option Z) : list Q :=
  let n := zlen l in
  let a := if lo <? 0 then Z.max (-1) (n + lo) else Z.min (n - 1) lo in
  let b := match stop with None => -1 | Some s => if s <? 0 then Z.max (-1) (n + s) else Z.min (n - 1) s end in
  map (fun k => nth (Z.to_nat (a - Z.of_nat k)) l 0%Q) (seq 0 (Z.to_nat (a - b))).
(* a + b, a - b on numpy arrays: equal lengths, or one of them of length 1 (broadcast); anything else raises ValueError *)
Fixpoint arr_zip (f : Q -> Q -> Q) (a b : list Q) : list Q :=
  match a, b with x :: a', y :: b' => f x y :: arr_zip f a' b' | _, _ => [] end.
Definition py_arr_zip (f : Q -> Q -> Q) (a b : list Q) : res (list Q) :=
  if Nat.eqb (List.length a) (List.length b) then Ok (arr_zip f a b)
  else match a, b with
       | [x], _ => Ok (map (fun y => f x y) b)
       | _, [y] => Ok (map (fun x => f x y) a)
       | _, _ => Raise ValueError
       end.
Definition py_arr_add2 := py_arr_zip Qplus.
Definition py_arr_sub2 := py_arr_zip Qminus.
Definition arr_sq (a : list Q) : list Q := map (fun x => x * x)%Q a.
Definition py_arr_mul2 := py_arr_zip Qmult.

(* timeslice entries of a correlator: None or an element; arithmetic on a None entry raises TypeError *)
Definition is_none {A} (o : option A) : bool := match o with None => true | Some _ => false end.
Definition py_ebin {E} (f : E -> E -> E) (a b : option E) : res E :=
  match a, b with Some x, Some y => Ok (f x y) | _, _ => Raise TypeError end.
Definition py_eun {A B} (f : A -> B) (a : option A) : res B :=
  match a with Some x => Ok (f x) | None => Raise TypeError end.
(* list(np.roll(np.array(l, dtype=object), dt, axis=0)): entry i of the result is entry (i - dt) mod n of l *)
Definition py_roll {A} (l : list A) (dt : Z) : list A :=
  match List.length l with
  | O => l
  | n => let k := Z.to_nat (dt mod Z.of_nat n) in skipn (n - k) l ++ firstn (n - k) l
  end.

(* a local variable that is assigned only under a condition: reading it before any assignment raises UnboundLocalError (a NameError) *)
Definition py_bound {A} (o : option A) : res A := match o with Some a => Ok a | None => Raise NameError end.
(* l.index(x): position of the first occurrence, ValueError if absent *)
Fixpoint py_list_index (l : list Z) (x : Z) : res Z :=
  match l with
  | [] => Raise ValueError
  | y :: r => if x =? y then Ok 0 else i <- py_list_index r x ;; Ok (1 + i)
  end.
(* [list(o) for o in itertools.permutations(range(n), n)]: all orderings of 0 .. n-1, lexicographic in the positions *)
Fixpoint perms_of (fuel : nat) (l : list Z) : list (list Z) :=
  match fuel with
  | O => [[]]
  | S f => match l with
           | [] => [[]]
           | _ => flat_map (fun x => map (cons x) (perms_of f (remove Z.eq_dec x l))) l
           end
  end.
Definition py_permutations (n : Z) : list (list Z) := perms_of (Z.to_nat n) (zrange 0 n 1).

(* two-dimensional float arrays as lists of rows *)
Definition py_mat_ones (r c : Z) : res (list (list Q)) :=
  if (r <? 0) || (c <? 0) then Raise ValueError else Ok (repeat (repeat 1%Q (Z.to_nat c)) (Z.to_nat r)).
Definition py_mat_identity (n : Z) : res (list (list Q)) :=
  if n <? 0 then Raise ValueError
  else Ok (map (fun i => map (fun j => if Nat.eqb i j then 1%Q else 0%Q) (seq 0 (Z.to_nat n))) (seq 0 (Z.to_nat n))).
Definition mat_scale (s : Q) (m : list (list Q)) : list (list Q) := map (map (fun x => s * x)%Q) m.
Definition mat_shape_eq (a b : list (list Q)) : bool :=
  Nat.eqb (List.length a) (List.length b) && forallb (fun p => Nat.eqb (List.length (fst p)) (List.length (snd p))) (combine a b).
(* a - b for equal shapes (broadcasting between matrices is not modelled: other shapes raise) *)
Definition py_mat_sub (a b : list (list Q)) : res (list (list Q)) :=
  if mat_shape_eq a b then Ok (map (fun p => arr_zip Qminus (fst p) (snd p)) (combine a b)) else Raise ValueError.
(* v @ m: entry j = sum_i v[i] m[i][j]; the length of v must be the number of rows *)
Definition py_vecmat (v : list Q) (m : list (list Q)) : res (list Q) :=
  if Nat.eqb (List.length v) (List.length m)
  then Ok (map (fun j => Qsum (map (fun p => (fst p * nth j (snd p) 0)%Q) (combine v m))) (seq 0 (match m with [] => 0%nat | r :: _ => List.length r end)))
  else Raise ValueError.

(* dictionaries from strings to lists of ints; d[k] raises KeyError (a LookupError; rendered as IndexError's sibling ValueError is wrong: its own code) *)
Definition dictl_put (d : list (String.string * list Z)) (k : String.string) (v : list Z) : list (String.string * list Z) :=
  (k, v) :: filter (fun p => negb (String.eqb (fst p) k)) d.
Definition py_dictl_get (d : list (String.string * list Z)) (k : String.string) : res (list Z) :=
  match find (fun p => String.eqb (fst p) k) d with Some p => Ok (snd p) | None => Raise NameError end.
(* sorted(l) for a list of strings (duplicates kept) *)
Fixpoint sinsert_dup (s : String.string) (l : list String.string) : list String.string :=
  match l with
  | [] => [s]
  | x :: r => if String.leb s x then s :: l else x :: sinsert_dup s r
  end.
Definition py_sorted_strings (l : list String.string) : list String.string := fold_right sinsert_dup [] l.

(* for x in xs: if ..: return ..   -- the first element for which the body produces a value *)
Fixpoint py_first {X A} (xs : list X) (f : X -> res (option A)) : res (option A) :=
  match xs with
  | [] => Ok None
  | x :: r => o <- f x ;; match o with Some a => Ok (Some a) | None => py_first r f end
  end.

(* a[a < c] = v, a /= b, np.cumsum *)
Definition arr_mask_set (test : Q -> bool) (v : Q) (a : list Q) : list Q := map (fun x => if test x then v else x) a.
Definition py_arr_div2 := py_arr_zip Qdiv.
Definition arr_cumsum (l : list Q) : list Q :=
  snd (fold_left (fun (st : Q * list Q) x => let s := Qred (fst st + x) in (s, snd st ++ [s])) l (0%Q, [])).

(* np.bincount(o, minlength=L): negative entries raise; entries >= L lengthen the result *)
Fixpoint incr_at_q (c : list Q) (k : nat) : list Q :=
  match c, k with
  | [], _ => []
  | x :: r, O => Qred (x + 1) :: r
  | x :: r, S k' => x :: incr_at_q r k'
  end.
Fixpoint bincount_q (rho : list nat) (L : nat) : list Q :=
  match rho with [] => repeat 0%Q L | k :: r => incr_at_q (bincount_q r L) k end.
Definition py_bincount (o : list Z) (L : Z) : res (list Q) :=
  if existsb (fun x => x <? 0) o then Raise ValueError
  else Ok (bincount_q (map Z.to_nat o) (Z.to_nat (fold_right Z.max L (map (fun x => x + 1) o)))).
(* np.vstack of equally long rows *)
Definition py_vstack (rows : list (list Q)) : res (list (list Q)) :=
  match rows with
  | [] => Raise ValueError
  | r :: rs => if forallb (fun x => Nat.eqb (List.length x) (List.length r)) rs then Ok rows else Raise ValueError
  end.
Definition mat_div_s (m : list (list Q)) (q : Q) : list (list Q) := map (map (fun c => c / q)%Q) m.
(* m @ v *)
Definition py_matvec (m : list (list Q)) (v : list Q) : res (list Q) :=
  if forallb (fun row => Nat.eqb (List.length row) (List.length v)) m then Ok (map (fun row => arr_dot row v) m) else Raise ValueError.

(* [x for x in xs if cond(x)] with a condition that can raise *)
Fixpoint py_filter {X} (f : X -> res bool) (xs : list X) : res (list X) :=
  match xs with
  | [] => Ok []
  | x :: r => b <- f x ;; ys <- py_filter f r ;; Ok (if b then x :: ys else ys)
  end.

(* objects that may or may not be strings (None = not a string): set(..) of them, string methods *)
Definition optstr_eqb (a b : option String.string) : bool :=
  match a, b with Some x, Some y => String.eqb x y | None, None => true | _, _ => false end.
Fixpoint optstr_set (l : list (option String.string)) : list (option String.string) :=
  match l with [] => [] | x :: r => if existsb (optstr_eqb x) r then optstr_set r else x :: optstr_set r end.
Definition py_str (o : option String.string) : res String.string := match o with Some s => Ok s | None => Raise TypeError end.
