(* Exact rational helpers shared by all models: boolean comparisons, tolerances, sums. *)
From Coq Require Import ZArith QArith Qabs List Bool Lia Lqa.
Import ListNotations.
Open Scope Q_scope.

Definition Qeqb (a b : Q) : bool := Qeq_bool a b.
Definition Qleb (a b : Q) : bool := Qle_bool a b.
Definition Qltb (a b : Q) : bool := negb (Qle_bool b a).

Lemma Qeqb_eq a b : Qeqb a b = true <-> a == b.
Proof. apply Qeq_bool_iff. Qed.
Lemma Qleb_le a b : Qleb a b = true <-> a <= b.
Proof. apply Qle_bool_iff. Qed.
Lemma Qltb_lt a b : Qltb a b = true <-> a < b.
Proof.
  unfold Qltb. rewrite negb_true_iff. split; intro H.
  - apply Qnot_le_lt. intro C. apply Qle_bool_iff in C. congruence.
  - destruct (Qle_bool b a) eqn:E; auto. apply Qle_bool_iff in E. exfalso. apply (Qlt_not_le _ _ H E).
Qed.

(* |a - b| <= rtol * (|a| + |b|) + atol : the verdict used by every correspondence check *)
Definition closeb (rtol atol a b : Q) : bool :=
  Qleb (Qabs (a - b)) (rtol * (Qabs a + Qabs b) + atol).

Lemma closeb_refl rtol atol a : 0 <= rtol -> 0 <= atol -> closeb rtol atol a a = true.
Proof.
  intros Hr Ha. unfold closeb. apply Qleb_le.
  setoid_replace (a - a) with 0 by ring. simpl Qabs.
  assert (0 <= Qabs a) by apply Qabs_nonneg.
  assert (0 <= rtol * (Qabs a + Qabs a)). { apply Qmult_le_0_compat; lra. }
  lra.
Qed.

(* sums are reduced at every step: Coq's binary integers make unreduced sums of doubles (denominators 2^52)
   quadratically expensive; Qred x == x, so the theorems are unaffected *)
Global Arguments Qred : simpl never.
Fixpoint Qsum (l : list Q) : Q :=
  match l with [] => 0 | x :: r => Qred (x + Qsum r) end.

Lemma Qsum_nil : Qsum [] = 0.
Proof. reflexivity. Qed.
Lemma Qsum_cons x r : Qsum (x :: r) == x + Qsum r.
Proof. simpl. apply Qred_correct. Qed.

Lemma Qsum_app l1 l2 : Qsum (l1 ++ l2) == Qsum l1 + Qsum l2.
Proof. induction l1 as [|x l1 IH]; simpl; rewrite ?Qred_correct; [ring | rewrite IH; ring]. Qed.

Lemma Qsum_map_plus {A} (f g : A -> Q) l : Qsum (map (fun c => f c + g c) l) == Qsum (map f l) + Qsum (map g l).
Proof. induction l as [|x l IH]; simpl; rewrite ?Qred_correct; [ring | rewrite IH; ring]. Qed.

Lemma Qsum_map_ext {A} (f g : A -> Q) l : (forall x, In x l -> f x == g x) -> Qsum (map f l) == Qsum (map g l).
Proof.
  induction l as [|x l IH]; intro H; simpl; rewrite ?Qred_correct; [reflexivity|].
  rewrite H by (left; reflexivity). rewrite IH; [reflexivity|]. intros y Hy. apply H. right. exact Hy.
Qed.

Lemma Qsum_map_scale {A} (a : Q) (f : A -> Q) l : Qsum (map (fun x => a * f x) l) == a * Qsum (map f l).
Proof. induction l as [|x l IH]; simpl; rewrite ?Qred_correct; [ring | rewrite IH; ring]. Qed.

Lemma Qsum_map_scale_r {A} (a : Q) (f : A -> Q) l : Qsum (map (fun x => f x * a) l) == Qsum (map f l) * a.
Proof. induction l as [|x l IH]; simpl; rewrite ?Qred_correct; [ring | rewrite IH; ring]. Qed.

Definition QlenL {A} (l : list A) : Q := inject_Z (Z.of_nat (List.length l)).

Lemma QlenL_cons {A} (x : A) l : QlenL (x :: l) == QlenL l + 1.
Proof. unfold QlenL. cbn [List.length]. rewrite Nat2Z.inj_succ, <- Z.add_1_r, inject_Z_plus. ring. Qed.

Lemma Qsum_map_affine (a b : Q) (f : Q -> Q) l :
  (forall x, f x == a * x + b) -> Qsum (map f l) == a * Qsum l + b * QlenL l.
Proof.
  intro Hf. induction l as [|x l IH].
  - simpl. unfold QlenL. simpl. ring.
  - cbn [map]. rewrite !Qsum_cons, IH, Hf, QlenL_cons. ring.
Qed.

Lemma Qsum_map_const {A} (b : Q) (l : list A) : Qsum (map (fun _ => b) l) == b * QlenL l.
Proof.
  induction l as [|x l IH]; [simpl; unfold QlenL; simpl; ring|].
  cbn [map]. rewrite Qsum_cons, IH, QlenL_cons. ring.
Qed.

Definition Qmean (l : list Q) : Q := Qsum l / inject_Z (Z.of_nat (length l)).

Definition tol30 : Q := 1 # (2 ^ 30).
Definition tol20 : Q := 1 # (2 ^ 20).
Definition tol40 : Q := 1 # (2 ^ 40).

(* all2 / list agreement with index report *)
Fixpoint all2 {A B} (f : A -> B -> bool) (l1 : list A) (l2 : list B) : bool :=
  match l1, l2 with
  | [], [] => true
  | x :: r1, y :: r2 => f x y && all2 f r1 r2
  | _, _ => false
  end.

Definition close_list (rtol atol : Q) (l1 l2 : list Q) : bool := all2 (closeb rtol atol) l1 l2.

(* indices (as Z, starting at 0) of the cases on which [ok] is false *)
Fixpoint bad_from {A} (ok : A -> bool) (i : Z) (l : list A) : list Z :=
  match l with
  | [] => []
  | x :: r => if ok x then bad_from ok (i + 1)%Z r else i :: bad_from ok (i + 1)%Z r
  end.
Definition bad_cases {A} (ok : A -> bool) (l : list A) : list Z := bad_from ok 0%Z l.

Lemma bad_cases_nil_all {A} (ok : A -> bool) l : bad_cases ok l = [] -> forall x, In x l -> ok x = true.
Proof.
  unfold bad_cases. generalize 0%Z. induction l as [|y l IH]; intros i H x Hin; [destruct Hin|].
  simpl in H. destruct (ok y) eqn:E; [|discriminate].
  destruct Hin as [->|Hin]; [exact E | eapply IH; eauto].
Qed.
