(* Verified interval enclosure of the automatic-windowing function of the Gamma method (hep-lat/0306017 eq. (52)):
     g_W(n) = exp(-n / tau) - tau / sqrt(n N),     tau = S / ln((2 t + 1) / (2 t - 1)),   t = tau_int(n)
   evaluated with the Interval library's executable floating-point intervals (80 bits), and the soundness of the sign
   decision with respect to the real-number expression (Interval's extended-real calculus). *)
From Coq Require Import ZArith QArith Reals.
From Interval Require Import Float.Specific_ops Float.Specific_stdz Interval.Float_full Interval.Interval Real.Xreal Float.Basic.

Module F := SpecificFloat StdZRadix2.
Module I := FloatIntervalFull F.

Definition prec := F.PtoP 80.
Definition zI (z : Z) : I.type := I.fromZ prec z.
Definition qI (q : Q) : I.type := I.div prec (zI (Qnum q)) (zI (Zpos (Qden q))).

(* the real-number expression, in extended reals (Xnan outside the domain of ln / division) *)
Definition Xz (z : Z) : ExtendedR := Xreal (IZR z).
Definition Xq (q : Q) : ExtendedR := Xdiv (Xz (Qnum q)) (Xz (Zpos (Qden q))).
Definition Xtau (t S : Q) : ExtendedR :=
  Xdiv (Xq S) (Xln (Xdiv (Xadd (Xmul (Xz 2) (Xq t)) (Xz 1)) (Xsub (Xmul (Xz 2) (Xq t)) (Xz 1)))).
Definition Xg (t S : Q) (n N : Z) : ExtendedR :=
  Xsub (Xexp (Xneg (Xdiv (Xz n) (Xtau t S)))) (Xdiv (Xtau t S) (Xsqrt (Xmul (Xz n) (Xz N)))).

Definition tauI (t S : Q) : I.type :=
  I.div prec (qI S) (I.ln prec (I.div prec (I.add prec (I.mul prec (zI 2) (qI t)) (zI 1)) (I.sub prec (I.mul prec (zI 2) (qI t)) (zI 1)))).
Definition gI (t S : Q) (n N : Z) : I.type :=
  I.sub prec (I.exp prec (I.neg (I.div prec (zI n) (tauI t S)))) (I.div prec (tauI t S) (I.sqrt prec (I.mul prec (zI n) (zI N)))).

Lemma zI_correct z : contains (I.convert (zI z)) (Xz z).
Proof. apply I.fromZ_correct. Qed.
Lemma qI_correct q : contains (I.convert (qI q)) (Xq q).
Proof. unfold qI, Xq. apply I.div_correct; apply zI_correct. Qed.
Lemma tauI_correct t S : contains (I.convert (tauI t S)) (Xtau t S).
Proof.
  unfold tauI, Xtau. apply I.div_correct; [apply qI_correct|]. apply I.ln_correct. apply I.div_correct.
  - apply I.add_correct; [apply I.mul_correct; [apply zI_correct | apply qI_correct] | apply zI_correct].
  - apply I.sub_correct; [apply I.mul_correct; [apply zI_correct | apply qI_correct] | apply zI_correct].
Qed.
(* the computed interval encloses the real value of g_W(n) *)
Theorem gI_correct t S n N : contains (I.convert (gI t S n N)) (Xg t S n N).
Proof.
  unfold gI, Xg. apply I.sub_correct.
  - apply I.exp_correct. apply I.neg_correct. apply I.div_correct; [apply zI_correct | apply tauI_correct].
  - apply I.div_correct; [apply tauI_correct|]. apply I.sqrt_correct. apply I.mul_correct; apply zI_correct.
Qed.

(* decision with a safety margin 2^-30: Some true = certainly g < -2^-30, Some false = certainly g > 2^-30,
   None = within the margin or undefined (the floating-point implementation may decide either way: near tie) *)
Definition margin : I.type := qI (1 # (2 ^ 30)).
Definition gw_sign (t S : Q) (n N : Z) : option bool :=
  let g := gI t S n N in
  match I.sign_strict (I.add prec g margin), I.sign_strict (I.sub prec g margin) with
  | Xlt, _ => Some true
  | _, Xgt => Some false
  | _, _ => None
  end.

Definition Xmargin : ExtendedR := Xq (1 # (2 ^ 30)).

Theorem gw_sign_true_sound t S n N :
  gw_sign t S n N = Some true -> exists r, Xadd (Xg t S n N) Xmargin = Xreal r /\ (r < 0)%R.
Proof.
  unfold gw_sign. intro H.
  pose proof (I.sign_strict_correct (I.add prec (gI t S n N) margin)) as C.
  destruct (I.sign_strict (I.add prec (gI t S n N) margin)) eqn:E.
  - destruct (I.sign_strict (I.sub prec (gI t S n N) margin)); discriminate.
  - specialize (C (Xadd (Xg t S n N) Xmargin)).
    assert (K : contains (I.convert (I.add prec (gI t S n N) margin)) (Xadd (Xg t S n N) Xmargin)).
    { apply I.add_correct; [apply gI_correct | apply qI_correct]. }
    destruct (C K) as [C1 C2]. eexists. split; [exact C1 | exact C2].
  - destruct (I.sign_strict (I.sub prec (gI t S n N) margin)); discriminate.
  - destruct (I.sign_strict (I.sub prec (gI t S n N) margin)); discriminate.
Qed.

Theorem gw_sign_false_sound t S n N :
  gw_sign t S n N = Some false -> exists r, Xsub (Xg t S n N) Xmargin = Xreal r /\ (0 < r)%R.
Proof.
  unfold gw_sign. intro H.
  pose proof (I.sign_strict_correct (I.sub prec (gI t S n N) margin)) as C.
  assert (K : contains (I.convert (I.sub prec (gI t S n N) margin)) (Xsub (Xg t S n N) Xmargin)).
  { apply I.sub_correct; [apply gI_correct | apply qI_correct]. }
  destruct (I.sign_strict (I.add prec (gI t S n N) margin)) eqn:E0; try discriminate;
  destruct (I.sign_strict (I.sub prec (gI t S n N) margin)) eqn:E; try discriminate;
  specialize (C (Xsub (Xg t S n N) Xmargin) K); destruct C as [C1 C2]; (eexists; split; [exact C1 | exact C2]).
Qed.

(* ------------------------------------------------------------------ reweighting-factor reduction (read_rwms):
   product over the factors of the source average of exp(-x), enclosed with interval arithmetic *)
Definition mean_exp_neg (xs : list Q) : I.type :=
  I.div prec (List.fold_left (fun acc x => I.add prec acc (I.exp prec (I.neg (qI x)))) xs (zI 0)) (zI (Z.of_nat (List.length xs))).
Definition rw_factor (xss : list (list Q)) : I.type :=
  List.fold_left (fun acc xs => I.mul prec acc (mean_exp_neg xs)) xss (zI 1).
(* |value in the interval - v| < tol, decided on the enclosure *)
Definition within (i : I.type) (v tol : Q) : bool :=
  match I.sign_strict (I.add prec (I.sub prec i (qI v)) (qI tol)), I.sign_strict (I.sub prec (I.sub prec i (qI v)) (qI tol)) with
  | Xgt, Xlt => true
  | _, _ => false
  end.
Definition XmeanExpNeg (xs : list Q) : ExtendedR :=
  Xdiv (List.fold_left (fun acc x => Xadd acc (Xexp (Xneg (Xq x)))) xs (Xz 0)) (Xz (Z.of_nat (List.length xs))).
Lemma mean_exp_neg_correct xs : contains (I.convert (mean_exp_neg xs)) (XmeanExpNeg xs).
Proof.
  unfold mean_exp_neg, XmeanExpNeg. apply I.div_correct; [|apply zI_correct].
  generalize (zI_correct 0). generalize (zI 0) (Xz 0). induction xs as [|x xs IH]; intros i0 x0 H0; [exact H0|].
  cbn [List.fold_left]. apply IH. apply I.add_correct; [exact H0|]. apply I.exp_correct. apply I.neg_correct. apply qI_correct.
Qed.
