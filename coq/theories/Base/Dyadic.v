(* Exact dyadic arithmetic (mantissa * 2^exponent over Z) -- no gcd, unlike reduced Q arithmetic -- with its meaning in Q.
   Used by the verdicts that evaluate many linear forms per case (Fit/Implicit.v). *)
From Coq Require Import ZArith QArith Qpower Qabs List Bool Lia.
Import ListNotations.

Definition dy := (Z * Z)%type.
Definition dq (d : dy) : Q := inject_Z (fst d) * Qpower 2 (snd d).
Definition dzero : dy := (0%Z, 0%Z).
Definition dmul (a b : dy) : dy := ((fst a * fst b)%Z, (snd a + snd b)%Z).
Definition dalign (a b : dy) : Z * Z * Z :=        (* mantissas of a and b at the common (smaller) exponent *)
  if (snd a <=? snd b)%Z then (fst a, Z.shiftl (fst b) (snd b - snd a), snd a)
  else (Z.shiftl (fst a) (snd a - snd b), fst b, snd b).
Definition dadd (a b : dy) : dy := let '(x, y, e) := dalign a b in ((x + y)%Z, e).
Definition dleb (a b : dy) : bool := let '(x, y, _) := dalign a b in (x <=? y)%Z.
Definition dabs (a : dy) : dy := (Z.abs (fst a), snd a).
Definition dmin (a b : dy) : dy := if dleb a b then a else b.
Definition dmax (a b : dy) : dy := if dleb a b then b else a.
Definition dsum (l : list dy) : dy := fold_right dadd dzero l.
Definition dis0 (a : dy) : bool := (fst a =? 0)%Z.

(* exact conversion of a dyadic rational; None if the denominator is not a power of two *)
Fixpoint pos_log2_exact (p : positive) : option Z :=
  match p with
  | xH => Some 0%Z
  | xO q => match pos_log2_exact q with Some k => Some (k + 1)%Z | None => None end
  | xI _ => None
  end.
Definition d_of_q (q : Q) : option dy := match pos_log2_exact (Qden q) with Some k => Some (Qnum q, (- k)%Z) | None => None end.
(* enclosure of an arbitrary rational by dyadics of the given precision (bits after the binary point) *)
Definition d_enclose (bits : Z) (q : Q) : dy * dy :=
  match d_of_q q with
  | Some d => (d, d)
  | None => let f := (Qnum q * 2 ^ bits / Z.pos (Qden q))%Z in ((f, (- bits)%Z), ((f + 1)%Z, (- bits)%Z))
  end.

(* ------------------------------------------------------------------ meaning *)
Lemma two_ne0 : ~ 2 == 0. Proof. discriminate. Qed.
Lemma pow2_shift (k : Z) : (0 <= k)%Z -> inject_Z (2 ^ k) == Qpower 2 k.
Proof. intro H. rewrite <- (Zpower_Qpower 2 k H). reflexivity. Qed.

Lemma dmul_correct a b : dq (dmul a b) == dq a * dq b.
Proof. unfold dq, dmul. cbn [fst snd]. rewrite inject_Z_mult, (Qpower_plus 2 _ _ two_ne0). ring. Qed.

Lemma dalign_correct a b : let '(x, y, e) := dalign a b in dq a == inject_Z x * Qpower 2 e /\ dq b == inject_Z y * Qpower 2 e.
Proof.
  unfold dalign, dq. destruct (Z.leb_spec (snd a) (snd b)) as [H|H]; cbn [fst snd].
  - split; [reflexivity|]. rewrite Z.shiftl_mul_pow2 by lia. rewrite inject_Z_mult, pow2_shift by lia.
    rewrite <- Qmult_assoc, <- (Qpower_plus 2 _ _ two_ne0). replace (snd b - snd a + snd a)%Z with (snd b) by lia. reflexivity.
  - split; [|reflexivity]. rewrite Z.shiftl_mul_pow2 by lia. rewrite inject_Z_mult, pow2_shift by lia.
    rewrite <- Qmult_assoc, <- (Qpower_plus 2 _ _ two_ne0). replace (snd a - snd b + snd b)%Z with (snd a) by lia. reflexivity.
Qed.
Lemma dadd_correct a b : dq (dadd a b) == dq a + dq b.
Proof.
  unfold dadd. pose proof (dalign_correct a b) as H. destruct (dalign a b) as [[x y] e]. destruct H as [Ha Hb].
  rewrite Ha, Hb. unfold dq. cbn [fst snd]. rewrite inject_Z_plus. ring.
Qed.
Lemma pow2_pos e : 0 < Qpower 2 e.
Proof. apply Qpower_0_lt. reflexivity. Qed.
Lemma dleb_correct a b : dleb a b = true <-> dq a <= dq b.
Proof.
  unfold dleb. pose proof (dalign_correct a b) as H. destruct (dalign a b) as [[x y] e]. destruct H as [Ha Hb].
  rewrite Ha, Hb. rewrite Z.leb_le, Zle_Qle. pose proof (pow2_pos e) as P. split; intro L.
  - apply Qmult_le_compat_r; [exact L | apply Qlt_le_weak; exact P].
  - apply (Qmult_le_r _ _ _ P). exact L.
Qed.
Lemma dabs_correct a : dq (dabs a) == Qabs (dq a).
Proof.
  unfold dq, dabs. cbn [fst snd]. rewrite Qabs_Qmult. rewrite (Qabs_pos (Qpower 2 (snd a))) by (apply Qlt_le_weak, pow2_pos).
  apply Qmult_comp; [|reflexivity]. unfold Qabs, inject_Z. reflexivity.
Qed.
Lemma pos_log2_exact_correct p k : pos_log2_exact p = Some k -> (0 <= k)%Z /\ Z.pos p = (2 ^ k)%Z.
Proof.
  revert k; induction p as [p IH|p IH|]; intros k H; cbn in H; try discriminate.
  - destruct (pos_log2_exact p) as [j|]; [|discriminate]. injection H as <-. destruct (IH j eq_refl) as [Hj E].
    split; [lia|]. rewrite Z.pow_add_r by lia. rewrite <- E. lia.
  - injection H as <-. split; [lia | reflexivity].
Qed.
Lemma d_of_q_correct q d : d_of_q q = Some d -> dq d == q.
Proof.
  unfold d_of_q. destruct (pos_log2_exact (Qden q)) as [k|] eqn:E; [|discriminate]. intro H. injection H as <-.
  destruct (pos_log2_exact_correct _ _ E) as [Hk Ek]. unfold dq. cbn [fst snd].
  rewrite Qpower_opp, <- pow2_shift by exact Hk. rewrite <- Ek.
  destruct q as [n dd]. cbn [Qnum Qden]. unfold Qeq, Qmult, Qinv, inject_Z. cbn. lia.
Qed.

(* the dyadic enclosure of an arbitrary rational encloses it *)
Lemma d_enclose_correct bits q : (0 <= bits)%Z -> let '(lo, hi) := d_enclose bits q in dq lo <= q /\ q <= dq hi.
Proof.
  intro Hb. unfold d_enclose. destruct (d_of_q q) as [d|] eqn:E.
  - pose proof (d_of_q_correct q d E) as H. rewrite H. split; apply Qle_refl.
  - unfold dq. cbn [fst snd]. rewrite Qpower_opp, <- pow2_shift by exact Hb.
    destruct q as [n d]. cbn [Qnum Qden].
    assert (P : (0 < 2 ^ bits)%Z) by (apply Z.pow_pos_nonneg; lia).
    pose proof (Z.div_mod (n * 2 ^ bits) (Z.pos d) ltac:(lia)) as DM.
    pose proof (Z.mod_pos_bound (n * 2 ^ bits) (Z.pos d) ltac:(lia)) as MB.
    set (f := (n * 2 ^ bits / Z.pos d)%Z) in *. set (r := ((n * 2 ^ bits) mod Z.pos d)%Z) in *.
    destruct (2 ^ bits)%Z as [|p|p] eqn:E2; try lia.
    split; unfold Qle, Qmult, Qinv, inject_Z; cbn; nia.
Qed.
