(* Real-analytic expressions: syntax, extended-real semantics (Interval's ExtendedR: Xnan outside the domain), verified
   interval evaluation, and symbolic differentiation proved correct with respect to the real derivative
   (Interval.Real.Xreal_derive.Xderive_pt, i.e. Reals' derivable_pt_lim).
   Used to decide statements about chi-square gradients / Hessians (C08), roots and integrals (C09), exact spectra (C16). *)
From Coq Require Import ZArith QArith Reals List Bool Qreals Lra.
From Interval Require Import Float.Specific_ops Float.Specific_stdz Interval.Float_full Interval.Interval Real.Xreal Real.Xreal_derive Float.Basic.
From PV Require Import Base.RI.
Import ListNotations.

Inductive expr :=
| EC (q : Q) | EV (n : nat)
| EAdd (a b : expr) | ESub (a b : expr) | EMul (a b : expr) | EDiv (a b : expr) | ENeg (a : expr)
| EExp (a : expr) | ELn (a : expr) | ESin (a : expr) | ECos (a : expr) | ESqrt (a : expr) | EPow (a : expr) (n : Z).

Fixpoint evalX (env : nat -> ExtendedR) (e : expr) : ExtendedR :=
  match e with
  | EC q => Xreal (Q2R q)
  | EV n => env n
  | EAdd a b => Xadd (evalX env a) (evalX env b)
  | ESub a b => Xsub (evalX env a) (evalX env b)
  | EMul a b => Xmul (evalX env a) (evalX env b)
  | EDiv a b => Xdiv (evalX env a) (evalX env b)
  | ENeg a => Xneg (evalX env a)
  | EExp a => Xexp (evalX env a)
  | ELn a => Xln (evalX env a)
  | ESin a => Xsin (evalX env a)
  | ECos a => Xcos (evalX env a)
  | ESqrt a => Xsqrt (evalX env a)
  | EPow a n => Xpower_int (evalX env a) n
  end.

Fixpoint evalI (env : nat -> I.type) (e : expr) : I.type :=
  match e with
  | EC q => qI q
  | EV n => env n
  | EAdd a b => I.add prec (evalI env a) (evalI env b)
  | ESub a b => I.sub prec (evalI env a) (evalI env b)
  | EMul a b => I.mul prec (evalI env a) (evalI env b)
  | EDiv a b => I.div prec (evalI env a) (evalI env b)
  | ENeg a => I.neg (evalI env a)
  | EExp a => I.exp prec (evalI env a)
  | ELn a => I.ln prec (evalI env a)
  | ESin a => I.sin prec (evalI env a)
  | ECos a => I.cos prec (evalI env a)
  | ESqrt a => I.sqrt prec (evalI env a)
  | EPow a n => I.power_int prec (evalI env a) n
  end.

Lemma Xq_real q : Xq q = Xreal (Q2R q).
Proof.
  unfold Xq, Xz, Q2R. cbn [Xbind2]. unfold Xdiv', is_zero.
  rewrite Raux.Req_bool_false; [reflexivity|]. apply not_0_IZR. discriminate.
Qed.

(* the interval evaluation encloses the extended-real value (and is therefore NaN-free only where the expression is defined) *)
Theorem evalI_correct ienv xenv e :
  (forall n, contains (I.convert (ienv n)) (xenv n)) -> contains (I.convert (evalI ienv e)) (evalX xenv e).
Proof.
  intro H. induction e; cbn [evalI evalX].
  - rewrite <- Xq_real. apply qI_correct.
  - apply H.
  - apply I.add_correct; assumption.
  - apply I.sub_correct; assumption.
  - apply I.mul_correct; assumption.
  - apply I.div_correct; assumption.
  - apply I.neg_correct; assumption.
  - apply I.exp_correct; assumption.
  - apply I.ln_correct; assumption.
  - apply I.sin_correct; assumption.
  - apply I.cos_correct; assumption.
  - apply I.sqrt_correct; assumption.
  - apply I.power_int_correct; assumption.
Qed.

Lemma evalX_ext env1 env2 e : (forall n, env1 n = env2 n) -> evalX env1 e = evalX env2 e.
Proof. intro H. induction e; cbn [evalX]; rewrite ?IHe, ?IHe1, ?IHe2; auto. Qed.

(* ------------------------------------------------------------------ symbolic differentiation with constant folding *)
(* expressions that are defined for every real environment: folding 0 * e to 0 is exact only for these *)
Fixpoint total (e : expr) : bool :=
  match e with
  | EC _ | EV _ => true
  | EAdd a b | ESub a b | EMul a b => total a && total b
  | EDiv _ _ | ELn _ => false
  | ENeg a | EExp a | ESin a | ECos a | ESqrt a => total a
  | EPow a n => total a && (0 <=? n)%Z
  end.
Definition is0 (e : expr) : bool := match e with EC q => Qeq_bool q 0 | _ => false end.
Definition is1 (e : expr) : bool := match e with EC q => Qeq_bool q 1 | _ => false end.
Definition mkadd (a b : expr) : expr := if is0 a then b else if is0 b then a else EAdd a b.
Definition mksub (a b : expr) : expr := if is0 b then a else ESub a b.
Definition mkmul (a b : expr) : expr :=
  if is0 a && total b then EC 0 else if is0 b && total a then EC 0 else if is1 a then b else if is1 b then a else EMul a b.
Definition mkneg (a : expr) : expr := if is0 a then EC 0 else ENeg a.
(* x where y is defined, undefined elsewhere *)
Definition mask (x y : expr) : expr := EAdd x (EMul (EC 0) y).

Fixpoint D (e : expr) (v : nat) : expr :=
  match e with
  | EC _ => EC 0
  | EV n => if Nat.eqb n v then EC 1 else EC 0
  | EAdd a b => mkadd (D a v) (D b v)
  | ESub a b => mksub (D a v) (D b v)
  | EMul a b => mkadd (mkmul (D a v) b) (mkmul (D b v) a)
  | EDiv a b => EDiv (mksub (mkmul (D a v) b) (mkmul (D b v) a)) (EMul b b)
  | ENeg a => mkneg (D a v)
  | EExp a => mkmul (D a v) (EExp a)
  | ELn a => mask (EDiv (D a v) a) (ELn a)
  | ESin a => mkmul (D a v) (ECos a)
  | ECos a => mkmul (D a v) (ENeg (ESin a))
  | ESqrt a => EDiv (D a v) (EAdd (ESqrt a) (ESqrt a))
  | EPow a n => mkmul (D a v) (EMul (EC (inject_Z n)) (EPow a (Z.pred n)))
  end.

Definition renv (env : nat -> R) : nat -> ExtendedR := fun n => Xreal (env n).

Lemma is0_eval env e : is0 e = true -> evalX env e = Xreal 0.
Proof.
  destruct e; try discriminate. cbn [is0 evalX]. intro H. apply Qeq_bool_eq in H. f_equal.
  rewrite (Qeq_eqR _ _ H). apply RMicromega.Q2R_0.
Qed.
Lemma is1_eval env e : is1 e = true -> evalX env e = Xreal 1.
Proof.
  destruct e; try discriminate. cbn [is1 evalX]. intro H. apply Qeq_bool_eq in H. f_equal.
  rewrite (Qeq_eqR _ _ H). apply RMicromega.Q2R_1.
Qed.
Lemma total_real env e : total e = true -> exists r, evalX (renv env) e = Xreal r.
Proof.
  induction e; cbn [total evalX]; intro H; try discriminate;
    try (apply andb_true_iff in H; destruct H as [H1 H2]);
    try (destruct (IHe1 H1) as [r1 E1]; destruct (IHe2 H2) as [r2 E2]; rewrite E1, E2; eexists; reflexivity);
    try (destruct (IHe H) as [r E]; rewrite E; eexists; reflexivity).
  - eexists; reflexivity.
  - eexists; reflexivity.
  - destruct (IHe H1) as [r E]. rewrite E. cbn [Xpower_int Xbind]. destruct n as [|p|p]; try (eexists; reflexivity).
    apply Z.leb_le in H2. exfalso. apply H2. reflexivity.
Qed.

Lemma X0_add_l x : Xadd (Xreal 0) x = x.
Proof. destruct x; [reflexivity|]. cbn. f_equal. apply Rplus_0_l. Qed.
Lemma X0_add_r x : Xadd x (Xreal 0) = x.
Proof. destruct x; [reflexivity|]. cbn. f_equal. apply Rplus_0_r. Qed.
Lemma X0_sub_r x : Xsub x (Xreal 0) = x.
Proof. destruct x; [reflexivity|]. cbn. f_equal. apply Rminus_0_r. Qed.
Lemma X1_mul_l x : Xmul (Xreal 1) x = x.
Proof. destruct x; [reflexivity|]. cbn. f_equal. apply Rmult_1_l. Qed.
Lemma X1_mul_r x : Xmul x (Xreal 1) = x.
Proof. destruct x; [reflexivity|]. cbn. f_equal. apply Rmult_1_r. Qed.

Lemma mkadd_eval env a b : evalX env (mkadd a b) = evalX env (EAdd a b).
Proof.
  unfold mkadd. destruct (is0 a) eqn:Ea; [cbn [evalX]; rewrite (is0_eval env a Ea), X0_add_l; reflexivity|].
  destruct (is0 b) eqn:Eb; [cbn [evalX]; rewrite (is0_eval env b Eb), X0_add_r; reflexivity|]. reflexivity.
Qed.
Lemma mksub_eval env a b : evalX env (mksub a b) = evalX env (ESub a b).
Proof. unfold mksub. destruct (is0 b) eqn:Eb; [cbn [evalX]; rewrite (is0_eval env b Eb), X0_sub_r; reflexivity|]. reflexivity. Qed.
Lemma mkneg_eval env a : evalX env (mkneg a) = evalX env (ENeg a).
Proof.
  unfold mkneg. destruct (is0 a) eqn:Ea; [|reflexivity]. cbn [evalX]. rewrite (is0_eval env a Ea). cbn. f_equal.
  rewrite RMicromega.Q2R_0. symmetry. apply Ropp_0.
Qed.
Lemma mkmul_eval env a b : evalX (renv env) (mkmul a b) = evalX (renv env) (EMul a b).
Proof.
  unfold mkmul.
  destruct (is0 a && total b) eqn:E1.
  { apply andb_true_iff in E1. destruct E1 as [Ea Tb]. destruct (total_real env b Tb) as [r Er].
    cbn [evalX]. rewrite (is0_eval _ a Ea), Er. cbn. f_equal. rewrite RMicromega.Q2R_0. symmetry. apply Rmult_0_l. }
  destruct (is0 b && total a) eqn:E2.
  { apply andb_true_iff in E2. destruct E2 as [Eb Ta]. destruct (total_real env a Ta) as [r Er].
    cbn [evalX]. rewrite (is0_eval _ b Eb), Er. cbn. f_equal. rewrite RMicromega.Q2R_0. symmetry. apply Rmult_0_r. }
  destruct (is1 a) eqn:E3; [cbn [evalX]; rewrite (is1_eval _ a E3), X1_mul_l; reflexivity|].
  destruct (is1 b) eqn:E4; [cbn [evalX]; rewrite (is1_eval _ b E4), X1_mul_r; reflexivity|]. reflexivity.
Qed.

Definition updX (env : nat -> R) (v : nat) (t : ExtendedR) : nat -> ExtendedR := fun n => if Nat.eqb n v then t else Xreal (env n).
Lemma updX_same env v n : updX env v (Xreal (env v)) n = renv env n.
Proof. unfold updX, renv. destruct (Nat.eqb n v) eqn:E; [apply Nat.eqb_eq in E; subst; reflexivity | reflexivity]. Qed.

Lemma Xderive_pt_weaken f x y y' : Xderive_pt f x y -> (y' = Xnan \/ y' = y) -> Xderive_pt f x y'.
Proof. intros H [->| ->]; [|exact H]. destruct x; exact I. Qed.

(* the symbolic partial derivative is the real derivative: wherever D e v evaluates to a real number d, the function
   t |-> e[v := t] is defined at env v and has derivative d there *)
Theorem D_correct e v env :
  Xderive_pt (fun t => evalX (updX env v t) e) (Xreal (env v)) (evalX (renv env) (D e v)).
Proof.
  pose proof (fun e0 => evalX_ext _ _ e0 (updX_same env v)) as Same.
  induction e; cbn [D].
  - cbn [evalX]. replace (Xreal (Q2R 0)) with (Xmask (Xreal 0) (Xreal (env v))) by (cbn; f_equal; symmetry; apply RMicromega.Q2R_0).
    apply Xderive_pt_constant.
  - cbn [evalX]. unfold updX at 1. destruct (Nat.eqb n v) eqn:E.
    + cbn [evalX]. replace (Xreal (Q2R 1)) with (Xmask (Xreal 1) (Xreal (env v))) by (cbn; f_equal; symmetry; apply RMicromega.Q2R_1).
      apply Xderive_pt_identity.
    + cbn [evalX]. replace (Xreal (Q2R 0)) with (Xmask (Xreal 0) (Xreal (env v))) by (cbn; f_equal; symmetry; apply RMicromega.Q2R_0).
      apply Xderive_pt_constant.
  - rewrite mkadd_eval. cbn [evalX]. apply Xderive_pt_add; assumption.
  - rewrite mksub_eval. cbn [evalX]. apply Xderive_pt_sub; assumption.
  - rewrite mkadd_eval. cbn [evalX]. rewrite !mkmul_eval. cbn [evalX].
    rewrite <- (Same e1), <- (Same e2). apply (Xderive_pt_mul (fun t => evalX (updX env v t) e1) (fun t => evalX (updX env v t) e2)); assumption.
  - cbn [evalX]. rewrite mksub_eval. cbn [evalX]. rewrite !mkmul_eval. cbn [evalX].
    rewrite <- (Same e1), <- (Same e2). apply (Xderive_pt_div (fun t => evalX (updX env v t) e1) (fun t => evalX (updX env v t) e2)); assumption.
  - rewrite mkneg_eval. cbn [evalX]. apply Xderive_pt_neg; assumption.
  - rewrite mkmul_eval. cbn [evalX]. rewrite <- (Same e). apply (Xderive_pt_exp (fun t => evalX (updX env v t) e)); assumption.
  - (* ln *)
    pose proof (Xderive_pt_ln (fun t => evalX (updX env v t) e) _ _ IHe) as K. cbv beta in K.
    eapply Xderive_pt_weaken; [exact K|]. unfold mask. cbn [evalX]. rewrite (Same e).
    destruct (evalX (renv env) e) as [|a] eqn:Ea.
    { left. destruct (evalX (renv env) (D e v)); reflexivity. }
    cbn [Xbind]. unfold Xln'. unfold is_positive. destruct (Raux.Rlt_bool_spec 0 a) as [Hp|Hn].
    + right. cbn [Xcmp]. destruct (Raux.Rcompare_spec a 0) as [L|L|L]; try (exfalso; lra).
      destruct (evalX (renv env) (D e v)) as [|d]; [reflexivity|]. cbn [Xbind2]. unfold Xdiv'. destruct (is_zero a); [reflexivity|].
      cbn. f_equal. rewrite RMicromega.Q2R_0. ring.
    + left. destruct (Xdiv (evalX (renv env) (D e v)) (Xreal a)); reflexivity.
  - rewrite mkmul_eval. cbn [evalX]. rewrite <- (Same e). apply (Xderive_pt_sin (fun t => evalX (updX env v t) e)); assumption.
  - rewrite mkmul_eval. cbn [evalX]. rewrite <- (Same e). apply (Xderive_pt_cos (fun t => evalX (updX env v t) e)); assumption.
  - cbn [evalX]. rewrite <- (Same e). apply (Xderive_pt_sqrt (fun t => evalX (updX env v t) e)); assumption.
  - rewrite mkmul_eval. cbn [evalX]. rewrite <- (Same e).
    replace (Q2R (inject_Z n)) with (IZR n) by (unfold Q2R, inject_Z; cbn; field).
    apply (Xderive_pt_power_int n (fun t => evalX (updX env v t) e)); assumption.
Qed.

(* ------------------------------------------------------------------ aggressive folding under a definedness certificate.
   guardsI certifies with intervals, ONCE per expression, that every divisor is non-zero, every logarithm / square-root argument
   positive and every base of a non-positive power non-zero, so every subexpression has a real value at the point.  Under that
   certificate 0 * b = 0 and 0 / b = 0 are exact, and Dfold (D with unconditional folding) denotes the same real number as D. *)
Definition amul (a b : expr) : expr :=
  if is0 a || is0 b then EC 0 else if is1 a then b else if is1 b then a else EMul a b.
Definition adiv (a b : expr) : expr := if is0 a then EC 0 else EDiv a b.
Fixpoint Dfold (e : expr) (v : nat) : expr :=
  match e with
  | EC _ => EC 0
  | EV n => if Nat.eqb n v then EC 1 else EC 0
  | EAdd a b => mkadd (Dfold a v) (Dfold b v)
  | ESub a b => if is0 (Dfold a v) then mkneg (Dfold b v) else mksub (Dfold a v) (Dfold b v)
  | EMul a b => mkadd (amul (Dfold a v) b) (amul (Dfold b v) a)
  | EDiv a b => adiv (let n1 := amul (Dfold a v) b in let n2 := amul (Dfold b v) a in if is0 n1 then mkneg n2 else mksub n1 n2) (EMul b b)
  | ENeg a => mkneg (Dfold a v)
  | EExp a => amul (Dfold a v) (EExp a)
  | ELn a => adiv (Dfold a v) a
  | ESin a => amul (Dfold a v) (ECos a)
  | ECos a => amul (Dfold a v) (ENeg (ESin a))
  | ESqrt a => adiv (Dfold a v) (EAdd (ESqrt a) (ESqrt a))
  | EPow a n => if (n =? 1)%Z then Dfold a v else amul (Dfold a v) (EMul (EC (inject_Z n)) (EPow a (Z.pred n)))
  end.
Definition nonzeroI (i : I.type) : bool := match I.sign_strict i with Xlt | Xgt => true | _ => false end.
Definition positiveI (i : I.type) : bool := match I.sign_strict i with Xgt => true | _ => false end.
Fixpoint guardsI (env : nat -> I.type) (e : expr) : bool :=
  match e with
  | EC _ | EV _ => true
  | EAdd a b | ESub a b | EMul a b => guardsI env a && guardsI env b
  | EDiv a b => guardsI env a && guardsI env b && nonzeroI (evalI env b)
  | ENeg a | EExp a | ESin a | ECos a => guardsI env a
  | ELn a | ESqrt a => guardsI env a && positiveI (evalI env a)
  | EPow a n => guardsI env a && ((0 <? n)%Z || nonzeroI (evalI env a))
  end.

(* ------------------------------------------------------------------ helpers for verdicts *)
Definition qenvI (l : list Q) : nat -> I.type := fun n => qI (nth n l 0%Q).
Definition qenvR (l : list Q) : nat -> R := fun n => Q2R (nth n l 0%Q).
Lemma qenv_contains l n : contains (I.convert (qenvI l n)) (renv (qenvR l) n).
Proof. unfold qenvI, renv, qenvR. rewrite <- Xq_real. apply qI_correct. Qed.

(* the value of e on the rational environment l, and of its partial derivatives, enclosed *)
Corollary evalI_on_rationals l e : contains (I.convert (evalI (qenvI l) e)) (evalX (renv (qenvR l)) e).
Proof. apply evalI_correct. apply qenv_contains. Qed.

(* |i| <= bound certainly (both as intervals): upper(|i|) <= lower(bound) *)
Definition certainly_le (a b : I.type) : bool :=
  match I.sign_large (I.sub prec b a) with Xgt | Xeq => true | _ => false end.
