(* Dfold (symbolic derivative with unconditional constant folding) denotes the same real number as the proved derivative D
   wherever the definedness certificate guardsI holds; hence Dfold is the real derivative there, and the certificate is
   inherited by Dfold e v (so second derivatives are covered by applying the theorems twice). *)
From Coq Require Import ZArith QArith Reals List Bool Qreals Lra Lia.
From Interval Require Import Float.Specific_ops Float.Specific_stdz Interval.Float_full Interval.Interval Real.Xreal Real.Xreal_derive Float.Basic.
From PV Require Import Base.RI Base.Expr.
Import ListNotations.

Section Guards.
Variable env : nat -> R.
Notation ev e := (evalX (renv env) e).

Fixpoint guardsR (e : expr) : Prop :=
  match e with
  | EC _ | EV _ => True
  | EAdd a b | ESub a b | EMul a b => guardsR a /\ guardsR b
  | EDiv a b => guardsR a /\ guardsR b /\ (forall r, ev b = Xreal r -> r <> 0%R)
  | ENeg a | EExp a | ESin a | ECos a => guardsR a
  | ELn a | ESqrt a => guardsR a /\ (forall r, ev a = Xreal r -> (0 < r)%R)
  | EPow a n => guardsR a /\ ((0 < n)%Z \/ (forall r, ev a = Xreal r -> r <> 0%R))
  end.

Lemma is_zero_false r : r <> 0%R -> is_zero r = false.
Proof. intro H. unfold is_zero. apply Raux.Req_bool_false. exact H. Qed.
Lemma is_positive_true r : (0 < r)%R -> is_positive r = true.
Proof. intro H. unfold is_positive. apply Raux.Rlt_bool_true. exact H. Qed.

Lemma pow_real r n : ((0 < n)%Z \/ r <> 0%R) -> exists p, Xpower_int' r n = Xreal p.
Proof.
  intros H. destruct n as [|p|p]; cbn; try (eexists; reflexivity).
  destruct H as [H|H]; [lia|]. rewrite is_zero_false by exact H. eexists; reflexivity.
Qed.

Lemma guards_real e : guardsR e -> exists r, ev e = Xreal r.
Proof.
  induction e; cbn [guardsR evalX]; intro G.
  - eexists; reflexivity.
  - eexists; reflexivity.
  - destruct G as [G1 G2]. destruct (IHe1 G1) as [r1 E1]. destruct (IHe2 G2) as [r2 E2]. rewrite E1, E2. eexists; reflexivity.
  - destruct G as [G1 G2]. destruct (IHe1 G1) as [r1 E1]. destruct (IHe2 G2) as [r2 E2]. rewrite E1, E2. eexists; reflexivity.
  - destruct G as [G1 G2]. destruct (IHe1 G1) as [r1 E1]. destruct (IHe2 G2) as [r2 E2]. rewrite E1, E2. eexists; reflexivity.
  - destruct G as [G1 [G2 N]]. destruct (IHe1 G1) as [r1 E1]. destruct (IHe2 G2) as [r2 E2]. rewrite E1, E2. cbn. unfold Xdiv'.
    rewrite (is_zero_false r2 (N r2 E2)). eexists; reflexivity.
  - destruct (IHe G) as [r E]. rewrite E. eexists; reflexivity.
  - destruct (IHe G) as [r E]. rewrite E. eexists; reflexivity.
  - destruct G as [G P]. destruct (IHe G) as [r E]. rewrite E. cbn. unfold Xln'. rewrite (is_positive_true r (P r E)). eexists; reflexivity.
  - destruct (IHe G) as [r E]. rewrite E. eexists; reflexivity.
  - destruct (IHe G) as [r E]. rewrite E. eexists; reflexivity.
  - destruct G as [G P]. destruct (IHe G) as [r E]. rewrite E. eexists; reflexivity.
  - destruct G as [G P]. destruct (IHe G) as [r E]. rewrite E. cbn [Xpower_int Xbind].
    apply pow_real. destruct P as [P|P]; [left; exact P | right; exact (P r E)].
Qed.

Lemma Xreal_inj a b : Xreal a = Xreal b -> a = b.
Proof. intro H. injection H. auto. Qed.
Lemma is0_real e a : is0 e = true -> ev e = Xreal a -> a = 0%R.
Proof. intros H E. rewrite (is0_eval _ e H) in E. symmetry. apply Xreal_inj. exact E. Qed.
Lemma is1_real e a : is1 e = true -> ev e = Xreal a -> a = 1%R.
Proof. intros H E. rewrite (is1_eval _ e H) in E. symmetry. apply Xreal_inj. exact E. Qed.
Lemma ec0 : ev (EC 0) = Xreal 0.
Proof. cbn. f_equal. apply RMicromega.Q2R_0. Qed.

Lemma mkadd_real x y a b : ev x = Xreal a -> ev y = Xreal b -> ev (mkadd x y) = Xreal (a + b).
Proof. intros Ex Ey. rewrite mkadd_eval. cbn [evalX]. rewrite Ex, Ey. reflexivity. Qed.
Lemma mksub_real x y a b : ev x = Xreal a -> ev y = Xreal b -> ev (mksub x y) = Xreal (a - b).
Proof. intros Ex Ey. rewrite mksub_eval. cbn [evalX]. rewrite Ex, Ey. reflexivity. Qed.
Lemma mkneg_real x a : ev x = Xreal a -> ev (mkneg x) = Xreal (- a).
Proof. intros Ex. rewrite mkneg_eval. cbn [evalX]. rewrite Ex. reflexivity. Qed.
Lemma mkmul_real x y a b : ev x = Xreal a -> ev y = Xreal b -> ev (mkmul x y) = Xreal (a * b).
Proof. intros Ex Ey. rewrite mkmul_eval. cbn [evalX]. rewrite Ex, Ey. reflexivity. Qed.
Lemma amul_real x y a b : ev x = Xreal a -> ev y = Xreal b -> ev (amul x y) = Xreal (a * b).
Proof.
  intros Ex Ey. unfold amul. destruct (is0 x) eqn:Zx.
  { cbn [orb]. rewrite ec0. f_equal. rewrite (is0_real x a Zx Ex). ring. }
  destruct (is0 y) eqn:Zy.
  { cbn [orb]. rewrite ec0. f_equal. rewrite (is0_real y b Zy Ey). ring. }
  cbn [orb]. destruct (is1 x) eqn:Ox; [rewrite Ey; f_equal; rewrite (is1_real x a Ox Ex); ring|].
  destruct (is1 y) eqn:Oy; [rewrite Ex; f_equal; rewrite (is1_real y b Oy Ey); ring|].
  cbn [evalX]. rewrite Ex, Ey. reflexivity.
Qed.
Lemma ediv_real x y a b : ev x = Xreal a -> ev y = Xreal b -> b <> 0%R -> ev (EDiv x y) = Xreal (a / b).
Proof. intros Ex Ey Hb. cbn [evalX]. rewrite Ex, Ey. cbn. unfold Xdiv'. rewrite (is_zero_false b Hb). reflexivity. Qed.
Lemma adiv_real x y a b : ev x = Xreal a -> ev y = Xreal b -> b <> 0%R -> ev (adiv x y) = Xreal (a / b).
Proof.
  intros Ex Ey Hb. unfold adiv. destruct (is0 x) eqn:Zx; [|apply ediv_real; assumption].
  rewrite ec0. f_equal. rewrite (is0_real x a Zx Ex). unfold Rdiv. ring.
Qed.

Variable v : nat.

(* D and Dfold denote the same real number under the guards *)
Lemma Dfold_D e : guardsR e -> exists d, ev (D e v) = Xreal d /\ ev (Dfold e v) = Xreal d.
Proof.
  induction e; cbn [guardsR D Dfold]; intro G.
  - exists 0%R. split; apply ec0.
  - destruct (Nat.eqb n v); [exists 1%R; split; cbn; f_equal; apply RMicromega.Q2R_1 | exists 0%R; split; apply ec0].
  - destruct G as [G1 G2]. destruct (IHe1 G1) as [d1 [A1 B1]]. destruct (IHe2 G2) as [d2 [A2 B2]].
    exists (d1 + d2)%R. split; apply mkadd_real; assumption.
  - destruct G as [G1 G2]. destruct (IHe1 G1) as [d1 [A1 B1]]. destruct (IHe2 G2) as [d2 [A2 B2]].
    exists (d1 - d2)%R. split; [apply mksub_real; assumption|].
    destruct (is0 (Dfold e1 v)) eqn:Z; [|apply mksub_real; assumption].
    rewrite (mkneg_real _ d2 B2). f_equal. rewrite (is0_real _ d1 Z B1). ring.
  - destruct G as [G1 G2]. destruct (IHe1 G1) as [d1 [A1 B1]]. destruct (IHe2 G2) as [d2 [A2 B2]].
    destruct (guards_real e1 G1) as [r1 R1]. destruct (guards_real e2 G2) as [r2 R2].
    exists (d1 * r2 + d2 * r1)%R. split.
    + apply mkadd_real; apply mkmul_real; assumption.
    + apply mkadd_real; apply amul_real; assumption.
  - destruct G as [G1 [G2 N]]. destruct (IHe1 G1) as [d1 [A1 B1]]. destruct (IHe2 G2) as [d2 [A2 B2]].
    destruct (guards_real e1 G1) as [r1 R1]. destruct (guards_real e2 G2) as [r2 R2].
    assert (Hb : (r2 * r2 <> 0)%R) by (apply Rmult_integral_contrapositive_currified; apply (N r2 R2)).
    assert (Ebb : ev (EMul e2 e2) = Xreal (r2 * r2)) by (cbn [evalX]; rewrite R2; reflexivity).
    exists ((d1 * r2 - d2 * r1) / (r2 * r2))%R. split.
    + apply ediv_real; [apply mksub_real; apply mkmul_real; assumption | exact Ebb | exact Hb].
    + apply adiv_real; [| exact Ebb | exact Hb].
      pose proof (amul_real _ _ _ _ B1 R2) as M1. pose proof (amul_real _ _ _ _ B2 R1) as M2.
      destruct (is0 (amul (Dfold e1 v) e2)) eqn:Z; [|apply mksub_real; assumption].
      rewrite (mkneg_real _ _ M2). f_equal. rewrite (is0_real _ _ Z M1). ring.
  - destruct (IHe G) as [d [A B]]. exists (- d)%R. split; apply mkneg_real; assumption.
  - destruct (IHe G) as [d [A B]]. destruct (guards_real e G) as [r R0].
    assert (Ee : ev (EExp e) = Xreal (exp r)) by (cbn [evalX]; rewrite R0; reflexivity).
    exists (d * exp r)%R. split; [apply mkmul_real | apply amul_real]; assumption.
  - destruct G as [G P]. destruct (IHe G) as [d [A B]]. destruct (guards_real e G) as [r R0].
    pose proof (P r R0) as Pr. assert (Hr : r <> 0%R) by lra.
    exists (d / r)%R. split; [|apply adiv_real; assumption].
    unfold mask. cbn [evalX]. rewrite A, R0. cbn. unfold Xdiv', Xln'. rewrite (is_zero_false r Hr), (is_positive_true r Pr).
    cbn. f_equal. rewrite RMicromega.Q2R_0. ring.
  - destruct (IHe G) as [d [A B]]. destruct (guards_real e G) as [r R0].
    assert (Ee : ev (ECos e) = Xreal (cos r)) by (cbn [evalX]; rewrite R0; reflexivity).
    exists (d * cos r)%R. split; [apply mkmul_real | apply amul_real]; assumption.
  - destruct (IHe G) as [d [A B]]. destruct (guards_real e G) as [r R0].
    assert (Ee : ev (ENeg (ESin e)) = Xreal (- sin r)) by (cbn [evalX]; rewrite R0; reflexivity).
    exists (d * - sin r)%R. split; [apply mkmul_real | apply amul_real]; assumption.
  - destruct G as [G P]. destruct (IHe G) as [d [A B]]. destruct (guards_real e G) as [r R0].
    pose proof (P r R0) as Pr.
    assert (Es : ev (EAdd (ESqrt e) (ESqrt e)) = Xreal (sqrt r + sqrt r)) by (cbn [evalX]; rewrite R0; reflexivity).
    assert (Hs : (sqrt r + sqrt r <> 0)%R) by (pose proof (sqrt_lt_R0 r Pr); lra).
    exists (d / (sqrt r + sqrt r))%R. split; [apply ediv_real | apply adiv_real]; assumption.
  - destruct G as [G P]. destruct (IHe G) as [d [A B]]. destruct (guards_real e G) as [r R0].
    assert (Pp : exists p, Xpower_int' r (Z.pred n) = Xreal p /\ (n = 1%Z -> p = 1%R)).
    { destruct (Z.eq_dec n 1) as [->|Hn]; [exists 1%R; split; [reflexivity | auto]|].
      destruct (pow_real r (Z.pred n)) as [p Ep]; [destruct P as [P|P]; [left; lia | right; exact (P r R0)] | exists p; split; [exact Ep | intro; contradiction]]. }
    destruct Pp as [p [Ep P1]].
    assert (Ek : ev (EMul (EC (inject_Z n)) (EPow e (Z.pred n))) = Xreal (Q2R (inject_Z n) * p)).
    { cbn [evalX]. rewrite R0. cbn [Xpower_int Xbind]. rewrite Ep. reflexivity. }
    exists (d * (Q2R (inject_Z n) * p))%R. split; [apply mkmul_real; assumption|].
    destruct (Z.eqb_spec n 1) as [->|Hn]; [|apply amul_real; assumption].
    rewrite B. f_equal. rewrite (P1 eq_refl). unfold Q2R, inject_Z. cbn. field.
Qed.

(* the guards are inherited by the folded derivative, so the theorems apply again to second derivatives *)
Lemma guards_mkadd x y : guardsR x -> guardsR y -> guardsR (mkadd x y).
Proof. intros Gx Gy. unfold mkadd. destruct (is0 x); [exact Gy|]. destruct (is0 y); [exact Gx|]. split; assumption. Qed.
Lemma guards_mksub x y : guardsR x -> guardsR y -> guardsR (mksub x y).
Proof. intros Gx Gy. unfold mksub. destruct (is0 y); [exact Gx|]. split; assumption. Qed.
Lemma guards_mkneg x : guardsR x -> guardsR (mkneg x).
Proof. intros Gx. unfold mkneg. destruct (is0 x); [exact I | exact Gx]. Qed.
Lemma guards_amul x y : guardsR x -> guardsR y -> guardsR (amul x y).
Proof. intros Gx Gy. unfold amul. destruct (is0 x || is0 y); [exact I|]. destruct (is1 x); [exact Gy|]. destruct (is1 y); [exact Gx|]. split; assumption. Qed.
Lemma guards_adiv x y : guardsR x -> guardsR y -> (forall r, ev y = Xreal r -> r <> 0%R) -> guardsR (adiv x y).
Proof. intros Gx Gy N. unfold adiv. destruct (is0 x); [exact I|]. repeat split; assumption. Qed.

Lemma guards_Dfold e : guardsR e -> guardsR (Dfold e v).
Proof.
  induction e; cbn [guardsR Dfold]; intro G.
  - exact I.
  - destruct (Nat.eqb n v); exact I.
  - destruct G as [G1 G2]. apply guards_mkadd; auto.
  - destruct G as [G1 G2]. destruct (is0 (Dfold e1 v)); [apply guards_mkneg | apply guards_mksub]; auto.
  - destruct G as [G1 G2]. apply guards_mkadd; apply guards_amul; auto.
  - destruct G as [G1 [G2 N]]. apply guards_adiv.
    + destruct (is0 (amul (Dfold e1 v) e2)); [apply guards_mkneg | apply guards_mksub]; apply guards_amul; auto.
    + split; assumption.
    + intros r E. cbn [evalX] in E. destruct (guards_real e2 G2) as [r2 R2]. rewrite R2 in E. cbn in E. apply Xreal_inj in E. subst r.
      apply Rmult_integral_contrapositive_currified; apply (N r2 R2).
  - apply guards_mkneg; auto.
  - apply guards_amul; [auto | exact G].
  - destruct G as [G P]. apply guards_adiv; [auto | exact G |]. intros r E. pose proof (P r E). lra.
  - apply guards_amul; [auto | exact G].
  - apply guards_amul; [auto | exact G].
  - destruct G as [G P]. apply guards_adiv; [auto | |].
    + split; split; assumption.
    + intros r E. cbn [evalX] in E. destruct (guards_real e G) as [r0 R0]. rewrite R0 in E. cbn in E. apply Xreal_inj in E. subst r.
      pose proof (sqrt_lt_R0 r0 (P r0 R0)). lra.
  - destruct G as [G P]. destruct (Z.eqb_spec n 1) as [->|Hn]; [auto|]. apply guards_amul; [auto|].
    split; [exact I|]. split; [exact G|]. destruct P as [P|P]; [left; lia | right; exact P].
Qed.

(* hence Dfold is the real derivative wherever the guards hold *)
Theorem Dfold_correct e : guardsR e ->
  Xderive_pt (fun t => evalX (updX env v t) e) (Xreal (env v)) (ev (Dfold e v)).
Proof. intro G. destruct (Dfold_D e G) as [d [A B]]. rewrite B, <- A. apply D_correct. Qed.
End Guards.

(* the interval certificate implies the guards *)
Lemma nonzeroI_sound i x : nonzeroI i = true -> contains (I.convert i) x -> forall r, x = Xreal r -> r <> 0%R.
Proof.
  unfold nonzeroI. pose proof (I.sign_strict_correct i) as C. intros H K r E.
  destruct (I.sign_strict i); try discriminate; destruct (C x K) as [C1 C2]; rewrite E in C2; cbn in C2; lra.
Qed.
Lemma positiveI_sound i x : positiveI i = true -> contains (I.convert i) x -> forall r, x = Xreal r -> (0 < r)%R.
Proof.
  unfold positiveI. pose proof (I.sign_strict_correct i) as C. intros H K r E.
  destruct (I.sign_strict i); try discriminate; destruct (C x K) as [C1 C2]; rewrite E in C2; cbn in C2; lra.
Qed.
Theorem guardsI_sound (env : nat -> R) (ienv : nat -> I.type) e :
  (forall n, contains (I.convert (ienv n)) (renv env n)) -> guardsI ienv e = true -> guardsR env e.
Proof.
  intro H. pose proof (fun e0 => evalI_correct ienv (renv env) e0 H) as K.
  induction e; cbn [guardsI guardsR]; intro G; try exact I;
    try (apply andb_true_iff in G; destruct G as [G1 G2]).
  - split; auto.
  - split; auto.
  - split; auto.
  - apply andb_true_iff in G1. destruct G1 as [Ga Gb]. repeat split; auto. apply (nonzeroI_sound _ _ G2 (K e2)).
  - auto.
  - auto.
  - split; auto. apply (positiveI_sound _ _ G2 (K e)).
  - auto.
  - auto.
  - split; auto. apply (positiveI_sound _ _ G2 (K e)).
  - split; auto. apply orb_true_iff in G2. destruct G2 as [G2|G2]; [left; apply Z.ltb_lt; exact G2 | right; apply (nonzeroI_sound _ _ G2 (K e))].
Qed.

(* Summary: a passed certificate makes the folded first and second symbolic derivatives the real derivatives, enclosed by evalI *)
Corollary certified_derivative (l : list Q) e v :
  guardsI (qenvI l) e = true ->
  Xderive_pt (fun t => evalX (updX (qenvR l) v t) e) (Xreal (qenvR l v)) (evalX (renv (qenvR l)) (Dfold e v))
  /\ contains (I.convert (evalI (qenvI l) (Dfold e v))) (evalX (renv (qenvR l)) (Dfold e v))
  /\ guardsR (qenvR l) (Dfold e v).
Proof.
  intro G. pose proof (guardsI_sound (qenvR l) (qenvI l) e (qenv_contains l) G) as GR.
  split; [apply Dfold_correct; exact GR|]. split; [apply evalI_on_rationals | apply guards_Dfold; exact GR].
Qed.
