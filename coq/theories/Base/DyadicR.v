(* Real-number meaning of the dyadic arithmetic and of the conversion of interval bounds, and soundness of the decision on one
   linear form: if the coefficients lie in their enclosures, the decided inequality holds for the real numbers. *)
From Coq Require Import ZArith QArith Reals List Bool Lia Lra Psatz.
From Flocq Require Import Core.Raux Core.Defs Core.Float_prop.
From Interval Require Import Float.Specific_ops Float.Specific_stdz Interval.Float_full Interval.Interval Real.Xreal Float.Basic.
From PV Require Import Base.RI Base.Dyadic.
Import ListNotations.
Local Open Scope R_scope.

Definition dR (d : dy) : R := IZR (fst d) * bpow radix2 (snd d).

Lemma dR_zero : dR dzero = 0.
Proof. unfold dR, dzero. cbn. ring. Qed.
Lemma dmul_R a b : dR (dmul a b) = dR a * dR b.
Proof. unfold dR, dmul. cbn [fst snd]. rewrite mult_IZR, bpow_plus. ring. Qed.
Lemma shiftl_R m k : (0 <= k)%Z -> IZR (Z.shiftl m k) = IZR m * bpow radix2 k.
Proof. intro H. rewrite Z.shiftl_mul_pow2 by exact H. rewrite mult_IZR. f_equal. rewrite <- (IZR_Zpower radix2 k H). reflexivity. Qed.
Lemma dalign_R a b : let '(x, y, e) := dalign a b in dR a = IZR x * bpow radix2 e /\ dR b = IZR y * bpow radix2 e.
Proof.
  unfold dalign, dR. destruct (Z.leb_spec (snd a) (snd b)) as [H|H]; cbn [fst snd].
  - split; [reflexivity|]. rewrite shiftl_R by lia. rewrite Rmult_assoc, <- bpow_plus. do 2 f_equal. lia.
  - split; [|reflexivity]. rewrite shiftl_R by lia. rewrite Rmult_assoc, <- bpow_plus. do 2 f_equal. lia.
Qed.
Lemma dadd_R a b : dR (dadd a b) = dR a + dR b.
Proof.
  unfold dadd. pose proof (dalign_R a b) as H. destruct (dalign a b) as [[x y] e]. destruct H as [Ha Hb].
  rewrite Ha, Hb. unfold dR. cbn [fst snd]. rewrite plus_IZR. ring.
Qed.
Lemma dleb_R a b : dleb a b = true <-> dR a <= dR b.
Proof.
  unfold dleb. pose proof (dalign_R a b) as H. destruct (dalign a b) as [[x y] e]. destruct H as [Ha Hb].
  rewrite Ha, Hb. rewrite Z.leb_le. pose proof (bpow_gt_0 radix2 e) as P. split; intro L.
  - apply Rmult_le_compat_r; [lra | apply IZR_le; exact L].
  - apply le_IZR. apply (Rmult_le_reg_r (bpow radix2 e)); assumption.
Qed.
Lemma dabs_R a : dR (dabs a) = Rabs (dR a).
Proof.
  unfold dR, dabs. cbn [fst snd]. rewrite Rabs_mult, abs_IZR. f_equal. symmetry. apply Rabs_pos_eq. apply bpow_ge_0.
Qed.
Lemma dmin_R a b : dR (dmin a b) = Rmin (dR a) (dR b).
Proof.
  unfold dmin. destruct (dleb a b) eqn:E.
  - apply dleb_R in E. rewrite Rmin_left; [reflexivity | exact E].
  - assert (~ dR a <= dR b) by (intro K; apply dleb_R in K; congruence). rewrite Rmin_right; [reflexivity | lra].
Qed.
Lemma dmax_R a b : dR (dmax a b) = Rmax (dR a) (dR b).
Proof.
  unfold dmax. destruct (dleb a b) eqn:E.
  - apply dleb_R in E. rewrite Rmax_right; [reflexivity | exact E].
  - assert (~ dR a <= dR b) by (intro K; apply dleb_R in K; congruence). rewrite Rmax_left; [reflexivity | lra].
Qed.
Lemma dis0_R a : dis0 a = true -> dR a = 0.
Proof. unfold dis0, dR. intro H. apply Z.eqb_eq in H. rewrite H. ring. Qed.

(* interval product: c in [lo, hi], x in [xl, xh]  ==>  c x between the min and the max of the four corner products *)
Lemma prod_bounds lo hi xl xh c x : lo <= c <= hi -> xl <= x <= xh ->
  Rmin (Rmin (lo * xl) (lo * xh)) (Rmin (hi * xl) (hi * xh)) <= c * x <= Rmax (Rmax (lo * xl) (lo * xh)) (Rmax (hi * xl) (hi * xh)).
Proof.
  intros [Hc1 Hc2] [Hx1 Hx2].
  assert (L : forall p q r s, Rmin (Rmin p q) (Rmin r s) <= p /\ Rmin (Rmin p q) (Rmin r s) <= q /\ Rmin (Rmin p q) (Rmin r s) <= r /\ Rmin (Rmin p q) (Rmin r s) <= s).
  { intros. repeat split; unfold Rmin; repeat destruct (Rle_dec _ _); lra. }
  assert (U : forall p q r s, p <= Rmax (Rmax p q) (Rmax r s) /\ q <= Rmax (Rmax p q) (Rmax r s) /\ r <= Rmax (Rmax p q) (Rmax r s) /\ s <= Rmax (Rmax p q) (Rmax r s)).
  { intros. repeat split; unfold Rmax; repeat destruct (Rle_dec _ _); lra. }
  destruct (L (lo * xl) (lo * xh) (hi * xl) (hi * xh)) as [L1 [L2 [L3 L4]]].
  destruct (U (lo * xl) (lo * xh) (hi * xl) (hi * xh)) as [U1 [U2 [U3 U4]]].
  destruct (Rle_dec 0 x) as [Px|Nx]; destruct (Rle_dec 0 c) as [Pc|Nc].
  - split; [ assert (lo * xl <= c * x \/ lo * xh <= c * x) by (destruct (Rle_dec 0 lo); [left; nra | right; nra]); lra
           | assert (c * x <= hi * xh) by nra; lra ].
  - split; [ assert (lo * xh <= c * x) by nra; lra
           | assert (c * x <= hi * xl \/ c * x <= hi * xh) by (destruct (Rle_dec 0 hi); [right; nra | left; nra]); lra ].
  - split; [ assert (hi * xl <= c * x) by nra; lra
           | assert (c * x <= lo * xl \/ c * x <= lo * xh) by (destruct (Rle_dec 0 lo); [right; nra | left; nra]); lra ].
  - split; [ assert (hi * xl <= c * x \/ hi * xh <= c * x) by (destruct (Rle_dec 0 hi); [left; nra | right; nra]); lra
           | assert (c * x <= lo * xl) by nra; lra ].
Qed.
