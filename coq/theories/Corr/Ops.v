(* Correlator arithmetic and index transformations (pyerrors/correlators.py), value level:
   a correlator is a list of timeslices, a timeslice is undefined (None) or an N x N matrix of numbers.
   The observable level (fluctuations of each entry) is C01's theorem applied entrywise. *)
From Coq Require Import ZArith QArith Qabs List Bool Lia Lqa.
From PV Require Import Base.QAux.
Import ListNotations.
Open Scope Q_scope.

Definition mat := list (list Q).
Definition slice := option mat.
Definition corr := list slice.

(* ------------------------------------------------------------------ timeslice-wise arithmetic *)
(* an entry operation may be "not a number" (None): 0/0 *)
Definition eop := Q -> Q -> option Q.
Definition e_add : eop := fun x y => Some (Qred (x + y)).
Definition e_sub : eop := fun x y => Some (Qred (x - y)).
Definition e_mul : eop := fun x y => Some (Qred (x * y)).
Definition e_div : eop := fun x y => if Qeqb y 0 then None else Some (Qred (x / y)).

Fixpoint opt_all {A} (l : list (option A)) : option (list A) :=
  match l with
  | [] => Some []
  | None :: _ => None
  | Some x :: r => match opt_all r with Some r' => Some (x :: r') | None => None end
  end.

Fixpoint row_map2 (f : eop) (a b : list Q) : list (option Q) :=
  match a, b with x :: a', y :: b' => f x y :: row_map2 f a' b' | _, _ => [] end.
Fixpoint mat_map2_raw (f : eop) (a b : mat) : list (option (list Q)) :=
  match a, b with r :: a', s :: b' => opt_all (row_map2 f r s) :: mat_map2_raw f a' b' | _, _ => [] end.
(* numpy broadcasting of a 1-element timeslice against an N x N one *)
Definition is_1x1 (a : mat) : option Q := match a with [[x]] => Some x | _ => None end.
Definition shape_like (x : Q) (b : mat) : mat := map (map (fun _ => x)) b.
Definition bcast (a b : mat) : mat * mat :=
  match is_1x1 a, is_1x1 b with
  | Some x, None => (shape_like x b, b)
  | None, Some y => (a, shape_like y a)
  | _, _ => (a, b)
  end.
(* entrywise operation on two defined timeslices; None when an entry is not a number (the code sets the slice to None) *)
Definition mat_op (f : eop) (a b : mat) : slice :=
  let (a', b') := bcast a b in opt_all (mat_map2_raw f a' b').

Definition slice_op (f : eop) (a b : slice) : slice :=
  match a, b with Some x, Some y => mat_op f x y | _, _ => None end.

Fixpoint zip_op (f : eop) (a b : corr) : corr :=
  match a, b with x :: a', y :: b' => slice_op f x y :: zip_op f a' b' | _, _ => [] end.

(* Corr (op) scalar and scalar (op) Corr *)
Definition scal_r (f : eop) (a : corr) (y : Q) : corr := map (fun s => slice_op f s (Some [[y]])) a.
Definition scal_l (f : eop) (y : Q) (a : corr) : corr := map (fun s => slice_op f (Some [[y]]) s) a.
Definition cneg (a : corr) : corr := map (option_map (map (map (fun x => Qred (- x))))) a.
Definition cabs (a : corr) : corr := map (option_map (map (map Qabs))) a.
Fixpoint Qpow_nat (x : Q) (n : nat) : Q := match n with O => 1 | S k => Qred (x * Qpow_nat x k) end.
Definition cpow (a : corr) (n : nat) : corr := map (option_map (map (map (fun x => Qpow_nat x n)))) a.
(* an elementary function with its values supplied per entry (None = NaN): slice undefined iff input undefined or any NaN *)
Definition capply (vals : list (option (list (list (option Q))))) (a : corr) : corr :=
  map (fun p => match fst p, snd p with
                | Some _, Some v => opt_all (map opt_all v)
                | _, _ => None end) (combine a vals).

(* ------------------------------------------------------------------ index transformations *)
Definition snth (c : corr) (i : nat) : slice := nth i c None.

(* np.roll(content, dt): the last (dt mod T) slices move to the front *)
Definition roll (dt : Z) (c : corr) : corr :=
  let T := List.length c in
  match T with
  | O => c
  | _ => let k := Z.to_nat (dt mod Z.of_nat T) in skipn (T - k) c ++ firstn (T - k) c
  end.
Definition reverse (c : corr) : corr := rev c.
Fixpoint thin_from (spacing offset : Z) (t : Z) (c : corr) : corr :=
  match c with
  | [] => []
  | x :: r => (if ((offset + t) mod spacing =? 0)%Z then x else None) :: thin_from spacing offset (t + 1) r
  end.
Definition thin (spacing offset : Z) (c : corr) : corr := thin_from spacing offset 0 c.

Definition half_comb (sgn : Q) (a b : slice) : slice :=
  match a, b with
  | Some x, Some y => mat_op (fun u v => Some (Qred ((1 # 2) * (u + sgn * v)))) x y
  | _, _ => None
  end.
Inductive cres := CRaises | CUndefined | COk (c : corr).
Definition all_none (c : corr) : bool := forallb (fun s => match s with None => true | Some _ => false end) c.
(* symmetric / anti_symmetric (sgn = 1 / -1): slice 0 kept, slice t averaged with slice T - t *)
Definition symmetrize (sgn : Q) (c : corr) : cres :=
  let T := List.length c in
  if Nat.odd T then CUndefined      (* ValueError("Can not symmetrize odd T") *)
  else
    let r := snth c 0 :: map (fun t => half_comb sgn (snth c t) (snth c (T - t))) (seq 1 (T - 1)) in
    if all_none r then CUndefined else COk r.

Definition item (i j : nat) (c : corr) : corr :=
  map (option_map (fun m => [[nth j (nth i m []) 0]])) c.
Definition mtrace (m : mat) : Q := Qsum (map (fun i => nth i (nth i m []) 0) (seq 0 (List.length m))).
Definition trace (c : corr) : corr := map (option_map (fun m => [[mtrace m]])) c.
Definition transpose (m : mat) : mat :=
  map (fun j => map (fun i => nth j (nth i m []) 0) (seq 0 (List.length m))) (seq 0 (List.length m)).
Definition matrix_symmetric (c : corr) : corr :=
  map (option_map (fun m => map (fun i => map (fun j => Qred ((1 # 2) * (nth j (nth i m []) 0 + nth i (nth j m []) 0))) (seq 0 (List.length m))) (seq 0 (List.length m)))) c.
Definition dotv (a b : list Q) : Q := Qsum (map (fun p => fst p * snd p) (combine a b)).
Definition projected (vl vr : list Q) (c : corr) : corr :=
  map (option_map (fun m => [[dotv vl (map (fun row => dotv row vr) m)]])) c.

(* projected with one vector pair per timeslice (entries may be None): undefined where the slice or either vector is undefined *)
Definition projected_l (vls vrs : list (option (list Q))) (c : corr) : corr :=
  map (fun x => match fst x, fst (snd x), snd (snd x) with
                | Some m, Some l, Some r => Some [[dotv l (map (fun row => dotv row r) m)]]
                | _, _, _ => None end) (combine c (combine vls vrs)).

(* Hankel(N, periodic): H_t[i][j] = c[t+i+j] (index mod T when periodic); non-periodic: undefined when t+2(N-1) >= T;
   undefined when a referenced timeslice is undefined *)
Definition entry0 (s : slice) : option Q := match s with Some [[x]] => Some x | _ => None end.
Definition hankel (N : nat) (periodic : bool) (c : corr) : cres :=
  let T := List.length c in
  COk (map (fun t =>
      if negb periodic && Nat.leb T (t + 2 * (N - 1)) && Nat.ltb 1 N then None
      else opt_all (map (fun i => opt_all (map (fun j => entry0 (snth c (if periodic then (t + i + j) mod T else t + i + j))) (seq 0 N))) (seq 0 N)))
    (seq 0 T)).

(* ------------------------------------------------------------------ THEOREMS *)
Lemma zip_op_length f a b : List.length a = List.length b -> List.length (zip_op f a b) = List.length a.
Proof. revert b; induction a as [|x a IH]; intros [|y b] H; simpl in *; try lia. rewrite IH; lia. Qed.

(* entry t of the result is the operation applied to the operands' entries at t; undefined if either operand is *)
Theorem zip_op_timeslicewise f a b t :
  List.length a = List.length b ->
  snth (zip_op f a b) t = slice_op f (snth a t) (snth b t).
Proof.
  unfold snth. revert b t; induction a as [|x a IH]; intros [|y b] t H; simpl in *; try lia.
  - destruct t; reflexivity.
  - destruct t as [|t]; [reflexivity|]. apply IH. lia.
Qed.
Theorem slice_op_none_l f b : slice_op f None b = None.
Proof. reflexivity. Qed.
Theorem slice_op_none_r f a : slice_op f a None = None.
Proof. destruct a; reflexivity. Qed.
Theorem slice_op_defined f a b m : slice_op f a b = Some m -> a <> None /\ b <> None.
Proof. destruct a, b; simpl; intro H; try discriminate. split; discriminate. Qed.

Lemma roll_length dt c : List.length (roll dt c) = List.length c.
Proof.
  unfold roll. destruct (List.length c) eqn:E; [exact E|].
  rewrite app_length, skipn_length, firstn_length. rewrite E. lia.
Qed.

Lemma my_nth_firstn {A} (l : list A) d : forall n i, (i < n)%nat -> nth i (firstn n l) d = nth i l d.
Proof. induction l as [|x l IH]; intros [|n] [|i] H; simpl; try lia; auto. apply IH. lia. Qed.
Lemma my_nth_skipn {A} (l : list A) d : forall n i, nth i (skipn n l) d = nth (n + i) l d.
Proof. induction l as [|x l IH]; intros [|n] i; simpl; auto. destruct i; reflexivity. Qed.

(* roll: slice t moves to (t + dt) mod T *)
Theorem roll_spec dt c t :
  (t < List.length c)%nat ->
  snth (roll dt c) (Z.to_nat ((Z.of_nat t + dt) mod Z.of_nat (List.length c))) = snth c t.
Proof.
  intro Ht. unfold roll, snth. set (T := List.length c) in *.
  destruct T as [|T'] eqn:ET; [lia|]. rewrite <- ET in *. clear ET T'.
  assert (HT : (0 < Z.of_nat T)%Z) by lia.
  set (k := Z.to_nat (dt mod Z.of_nat T)).
  assert (Hk : (k < T)%nat).
  { unfold k. pose proof (Z.mod_pos_bound dt (Z.of_nat T) HT). lia. }
  assert (Hkz : Z.of_nat k = (dt mod Z.of_nat T)%Z).
  { unfold k. pose proof (Z.mod_pos_bound dt (Z.of_nat T) HT). lia. }
  assert (Hmod : ((Z.of_nat t + dt) mod Z.of_nat T = (Z.of_nat t + Z.of_nat k) mod Z.of_nat T)%Z).
  { rewrite Hkz. rewrite Zplus_mod_idemp_r. reflexivity. }
  rewrite Hmod.
  assert (Hsk : List.length (skipn (T - k) c) = k) by (rewrite skipn_length; fold T; lia).
  destruct (Nat.lt_ge_cases (t + k) T) as [Hlt|Hge].
  - rewrite Z.mod_small by lia.
    replace (Z.to_nat (Z.of_nat t + Z.of_nat k)) with (k + t)%nat by lia.
    rewrite app_nth2 by lia. rewrite Hsk. replace (k + t - k)%nat with t by lia.
    apply my_nth_firstn. lia.
  - assert (E : ((Z.of_nat t + Z.of_nat k) mod Z.of_nat T = Z.of_nat t + Z.of_nat k - Z.of_nat T)%Z).
    { symmetry. apply Zmod_unique with (q := 1%Z); lia. }
    rewrite E. replace (Z.to_nat (Z.of_nat t + Z.of_nat k - Z.of_nat T)) with (t + k - T)%nat by lia.
    rewrite app_nth1 by lia. rewrite my_nth_skipn. f_equal. lia.
Qed.

Theorem reverse_involutive c : reverse (reverse c) = c.
Proof. apply rev_involutive. Qed.
Theorem reverse_spec c t : (t < List.length c)%nat -> snth (reverse c) t = snth c (List.length c - 1 - t).
Proof. intro H. unfold reverse, snth. rewrite rev_nth by exact H. f_equal. lia. Qed.

Lemma thin_from_nth spacing offset c : forall t0 t,
  (t < List.length c)%nat ->
  snth (thin_from spacing offset t0 c) t = if ((offset + (t0 + Z.of_nat t)) mod spacing =? 0)%Z then snth c t else None.
Proof.
  unfold snth. induction c as [|x c IH]; intros t0 t H; simpl in *; [lia|].
  destruct t as [|t].
  - replace (t0 + Z.of_nat 0)%Z with t0 by lia. reflexivity.
  - rewrite IH by lia. replace (t0 + 1 + Z.of_nat t)%Z with (t0 + Z.of_nat (S t))%Z by lia. reflexivity.
Qed.
(* thin keeps exactly the slices with (offset + t) mod spacing = 0 *)
Theorem thin_spec spacing offset c t :
  (t < List.length c)%nat ->
  snth (thin spacing offset c) t = if ((offset + Z.of_nat t) mod spacing =? 0)%Z then snth c t else None.
Proof. intro H. unfold thin. rewrite thin_from_nth by exact H. reflexivity. Qed.

(* symmetric / anti-symmetric: slice 0 kept, slice t = (c[t] +- c[T-t]) / 2, undefined iff either partner is *)
Theorem symmetrize_spec sgn c r t :
  symmetrize sgn c = COk r -> (1 <= t < List.length c)%nat ->
  snth r 0 = snth c 0 /\ snth r t = half_comb sgn (snth c t) (snth c (List.length c - t)).
Proof.
  unfold symmetrize. destruct (Nat.odd _); [discriminate|]. destruct (all_none _); [discriminate|].
  intro E. injection E as <-. intros [H1 H2]. split; [reflexivity|].
  unfold snth at 1. destruct t as [|t]; [lia|]. cbn [nth].
  set (g := fun t0 => half_comb sgn (snth c t0) (snth c (List.length c - t0))).
  rewrite (nth_indep _ None (g 0%nat)) by (rewrite map_length, seq_length; lia).
  rewrite (map_nth g). rewrite seq_nth by lia. reflexivity.
Qed.
Theorem half_comb_undefined sgn a b : half_comb sgn a b <> None -> a <> None /\ b <> None.
Proof. destruct a, b; simpl; intro H; try congruence. split; discriminate. Qed.

(* ------------------------------------------------------------------ correspondence verdicts *)
Definition mat_close (rt at_ : Q) (a b : mat) : bool := all2 (close_list rt at_) a b.
Definition slice_close (rt at_ : Q) (a b : slice) : bool :=
  match a, b with None, None => true | Some x, Some y => mat_close rt at_ x y | _, _ => false end.
Definition corr_close (rt at_ : Q) (a b : corr) : bool := all2 (slice_close rt at_) a b.
Inductive ires := IRaise | IUndef | IOk (c : corr).
Definition cres_agree (rt at_ : Q) (m : cres) (i : ires) : bool :=
  match m, i with
  | CRaises, IRaise => true
  | CUndefined, IUndef => true
  | COk a, IOk b => corr_close rt at_ a b
  | COk a, (IRaise | IUndef) => all_none a     (* a completely undefined result cannot be represented: Corr([None, ...]) raises *)
  | _, _ => false
  end.

Inductive cop :=
| OpBin (f : nat) (b : corr)          (* 0 + 1 - 2 * 3 /  with a correlator *)
| OpScalR (f : nat) (y : Q) | OpScalL (f : nat) (y : Q)
| OpNeg | OpAbs | OpPow (n : nat)
| OpApply (vals : list (option (list (list (option Q)))))
| OpRoll (dt : Z) | OpReverse | OpThin (spacing offset : Z)
| OpSym | OpAntiSym | OpTSym (partner : corr) (parity : Q)
| OpItem (i j : nat) | OpTrace | OpMatSym | OpProjected (vl vr : list Q)
| OpProjectedL (vls vrs : list (option (list Q)))
| OpHankel (N : nat) (periodic : bool).

Definition eop_of (f : nat) : eop := match f with 0%nat => e_add | 1%nat => e_sub | 2%nat => e_mul | _ => e_div end.
Definition undef_if_all_none (c : corr) : cres := if all_none c then CUndefined else COk c.
Definition run_op (a : corr) (o : cop) : cres :=
  match o with
  | OpBin f b => if Nat.eqb (List.length a) (List.length b)
                 then (if Nat.eqb f 3 then undef_if_all_none (zip_op (eop_of f) a b) else COk (zip_op (eop_of f) a b))
                 else CUndefined
  | OpScalR f y => if Nat.eqb f 3 && Qeqb y 0 then CUndefined else COk (scal_r (eop_of f) a y)
  | OpScalL f y => COk (scal_l (eop_of f) y a)
  | OpNeg => COk (cneg a)
  | OpAbs => COk (cabs a)
  | OpPow n => COk (cpow a n)
  | OpApply vals => undef_if_all_none (capply vals a)
  | OpRoll dt => COk (roll dt a)
  | OpReverse => COk (reverse a)
  | OpThin s o => COk (thin s o a)
  | OpSym => symmetrize 1 a
  | OpAntiSym => symmetrize (-1) a
  | OpTSym p par => if Nat.eqb (List.length a) (List.length p)
                    then COk (scal_r e_div (zip_op e_add a (scal_l e_mul par (reverse p))) 2) else CUndefined
  | OpItem i j => COk (item i j a)
  | OpTrace => COk (trace a)
  | OpMatSym => COk (matrix_symmetric a)
  | OpProjected vl vr => COk (projected vl vr a)
  | OpProjectedL vls vrs => if Nat.eqb (List.length vls) (List.length a) && Nat.eqb (List.length vrs) (List.length a)
                            then COk (projected_l vls vrs a) else CUndefined
  | OpHankel N per => hankel N per a
  end.

(* SPEC of the same operations, stated pointwise from the property text (independent of the list manipulations above):
   result at timeslice t as a function of the operands' timeslices *)
Definition spec_at (a : corr) (o : cop) (t : nat) : slice :=
  let T := List.length a in
  match o with
  | OpBin f b => slice_op (eop_of f) (snth a t) (snth b t)
  | OpScalR f y => slice_op (eop_of f) (snth a t) (Some [[y]])
  | OpScalL f y => slice_op (eop_of f) (Some [[y]]) (snth a t)
  | OpNeg => slice_op e_sub (Some [[0]]) (snth a t)
  | OpAbs => option_map (map (map Qabs)) (snth a t)
  | OpPow n => option_map (map (map (fun x => Qpow_nat x n))) (snth a t)
  | OpApply vals => match snth a t, nth t vals None with Some _, Some v => opt_all (map opt_all v) | _, _ => None end
  | OpRoll dt => snth a (Z.to_nat ((Z.of_nat t - dt) mod Z.of_nat T))
  | OpReverse => snth a (T - 1 - t)
  | OpThin s off => if ((off + Z.of_nat t) mod s =? 0)%Z then snth a t else None
  | OpSym => if Nat.eqb t 0 then snth a 0 else half_comb 1 (snth a t) (snth a (T - t))
  | OpAntiSym => if Nat.eqb t 0 then snth a 0 else half_comb (-1) (snth a t) (snth a (T - t))
  | OpTSym p par => slice_op e_div (slice_op e_add (snth a t) (slice_op e_mul (Some [[par]]) (snth p (T - 1 - t)))) (Some [[2]])
  | OpItem i j => option_map (fun m => [[nth j (nth i m []) 0]]) (snth a t)
  | OpTrace => option_map (fun m => [[mtrace m]]) (snth a t)
  | OpMatSym => option_map (fun m => map (fun i => map (fun j => Qred ((1 # 2) * (nth j (nth i m []) 0 + nth i (nth j m []) 0))) (seq 0 (List.length m))) (seq 0 (List.length m))) (snth a t)
  | OpProjected vl vr => option_map (fun m => [[dotv vl (map (fun row => dotv row vr) m)]]) (snth a t)
  | OpProjectedL vls vrs =>      (* sum_i sum_j l_i C_ij(t) r_j with the vectors of this timeslice *)
      match snth a t, nth t vls None, nth t vrs None with
      | Some m, Some l, Some r =>
          Some [[Qsum (map (fun i => Qsum (map (fun j => nth i l 0 * nth j (nth i m []) 0 * nth j r 0) (seq 0 (List.length m)))) (seq 0 (List.length m)))]]
      | _, _, _ => None
      end
  | OpHankel N per =>
      if negb per && Nat.ltb 1 N && Nat.leb T (t + 2 * (N - 1)) then None
      else match opt_all (map (fun i => opt_all (map (fun j => entry0 (snth a (if per then (t + i + j) mod T else t + i + j))) (seq 0 N))) (seq 0 N)) with
           | Some m => Some m | None => None end
  end.

Record ocase := mkOC { oc_a : corr; oc_op : cop; oc_impl : ires; oc_rt : Q; oc_at : Q }.
Definition ocase_model_ok (c : ocase) : bool := cres_agree (oc_rt c) (oc_at c) (run_op (oc_a c) (oc_op c)) (oc_impl c).
(* the harness maps ValueError to IUndef and every other exception to IRaise.
   spec verdict: same temporal extent, each timeslice as specified; an exception only where the specification allows one
   (shape mismatch, odd T for (anti)symmetrisation, nothing defined) *)
Definition spec_allows_raise (a : corr) (o : cop) : bool :=
  match o with
  | OpBin _ b => negb (Nat.eqb (List.length a) (List.length b))
  | OpTSym p _ => negb (Nat.eqb (List.length a) (List.length p))
  | OpSym | OpAntiSym => Nat.odd (List.length a)
  | _ => false
  end.
Definition spec_all_none (a : corr) (o : cop) : bool :=
  forallb (fun t => match spec_at a o t with None => true | Some _ => false end) (seq 0 (List.length a)).
Definition ocase_spec_ok (c : ocase) : bool :=
  match oc_impl c with
  | IOk r => Nat.eqb (List.length r) (List.length (oc_a c))
             && forallb (fun t => slice_close (oc_rt c) (oc_at c) (spec_at (oc_a c) (oc_op c) t) (snth r t)) (seq 0 (List.length (oc_a c)))
  | IUndef => spec_all_none (oc_a c) (oc_op c) || spec_allows_raise (oc_a c) (oc_op c)
              || match oc_op c with OpScalR 3 y => Qeqb y 0 | _ => false end
  | IRaise => spec_all_none (oc_a c) (oc_op c)    (* other exceptions only when no output timeslice is defined at all *)
  end.
