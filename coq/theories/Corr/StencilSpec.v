(* The DOCUMENTED formulas of Corr.deriv / second_deriv / m_eff (docstrings of correlators.py and the property text),
   written by hand as stencils: loop range = the timeslices at which every referenced neighbour exists, guards = exactly
   the referenced slices, padding restores the extent. *)
From Coq Require Import ZArith QArith List.
From PV Require Import Base.QAux Corr.Stencil.
Import ListNotations.
Open Scope Z_scope.

Definition c (q : Q) := SC q.
Definition spec_deriv_symmetric := mkStencil 1 1 [-1; 1] (SMul (c (1#2)) (SSub (SV 1) (SV (-1)))) (1, 1).
Definition spec_deriv_forward := mkStencil 0 1 [0; 1] (SSub (SV 1) (SV 0)) (0, 1).
Definition spec_deriv_backward := mkStencil 1 0 [-1; 0] (SSub (SV 0) (SV (-1))) (1, 0).
Definition spec_deriv_improved := mkStencil 2 2 [-2; -1; 1; 2]
  (SDiv (SSub (SAdd (SSub (SV (-2)) (SMul (c 8) (SV (-1)))) (SMul (c 8) (SV 1))) (SV 2)) (c 12)) (2, 2).
Definition spec_second_deriv_symmetric := mkStencil 1 1 [-1; 0; 1] (SAdd (SSub (SV 1) (SMul (c 2) (SV 0))) (SV (-1))) (1, 1).
Definition spec_second_deriv_big_symmetric := mkStencil 2 2 [-2; 0; 2] (SDiv (SAdd (SSub (SV 2) (SMul (c 2) (SV 0))) (SV (-2))) (c 4)) (2, 2).
Definition spec_second_deriv_improved := mkStencil 2 2 [-2; -1; 0; 1; 2]
  (SDiv (SSub (SAdd (SSub (SAdd (SNeg (SV 2)) (SMul (c 16) (SV 1))) (SMul (c 30) (SV 0))) (SMul (c 16) (SV (-1)))) (SV (-2))) (c 12)) (2, 2).

(* effective masses: the argument of the outer function; undefined if a referenced slice is undefined, the denominator
   value is 0 or the ratio is negative or zero (the logarithm has no real value) *)
Definition spec_m_eff_log := mkMStencil 0 1 [0; 1] [1] (Some (0, 1, true)) (SDiv (SV 0) (SV 1)) (0, 1).
Definition spec_m_eff_logsym := mkMStencil 1 1 [-1; 1] [1] (Some (-1, 1, true)) (SDiv (SV (-1)) (SV 1)) (1, 1).
Definition spec_m_eff_arccosh := mkMStencil 1 1 [-1; 0; 1] [0] None (SDiv (SAdd (SV 1) (SV (-1))) (SMul (c 2) (SV 0))) (1, 1).
