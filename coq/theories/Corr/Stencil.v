(* Finite-difference stencils of Corr.deriv / Corr.second_deriv / Corr.m_eff as data (regenerated from
   correlators.py by translate/t_stencil.py) and their interpretation.  A timeslice is [option Q] here
   (the value level); the observable level is C01's propagation theorem applied to the same expression. *)
From Coq Require Import ZArith QArith Qabs List Bool Lia Lqa.
From PV Require Import Base.QAux.
Import ListNotations.
Open Scope Z_scope.

Inductive sexpr :=
| SV (k : Z)                    (* self.content[t + k] *)
| SC (q : Q)
| SAdd (a b : sexpr) | SSub (a b : sexpr) | SMul (a b : sexpr) | SDiv (a b : sexpr) | SNeg (a : sexpr).

Fixpoint refs (e : sexpr) : list Z :=
  match e with
  | SV k => [k]
  | SC _ => []
  | SAdd a b | SSub a b | SMul a b | SDiv a b => refs a ++ refs b
  | SNeg a => refs a
  end.

Fixpoint eval (f : Z -> Q) (t : Z) (e : sexpr) : Q :=
  match e with
  | SV k => f (t + k)
  | SC q => q
  | SAdd a b => (eval f t a + eval f t b)%Q
  | SSub a b => (eval f t a - eval f t b)%Q
  | SMul a b => (eval f t a * eval f t b)%Q
  | SDiv a b => (eval f t a / eval f t b)%Q
  | SNeg a => (- eval f t a)%Q
  end.

(* the loop `for t in range(lo, T - hi)`, the offsets tested with `is None`, the appended expression, the padding *)
Record stencil := mkStencil { st_lo : Z; st_hi : Z; st_guards : list Z; st_expr : sexpr; st_pad : Z * Z }.

Definition content := list (option Q).
Definition cget (c : content) (i : Z) : option Q := if i <? 0 then None else nth (Z.to_nat i) c None.
Definition cval (c : content) (i : Z) : Q := match cget c i with Some q => q | None => 0%Q end.
Definition is_none (c : content) (i : Z) : bool := match cget c i with None => true | Some _ => false end.

(* outcome of one loop iteration: the Python expression raises TypeError when it touches a None operand *)
Inductive slot := SNone | SVal (q : Q) | SRaise.

Definition step_at (s : stencil) (c : content) (t : Z) : slot :=
  if existsb (fun k => is_none c (t + k)) (st_guards s) then SNone
  else if existsb (fun k => is_none c (t + k)) (refs (st_expr s)) then SRaise
  else SVal (Qred (eval (cval c) t (st_expr s))).

Inductive outcome := Raises | AllUndefined | Result (l : list (option Q)).

Definition loop_ts (s : stencil) (T : Z) : list Z :=
  map (fun i => st_lo s + Z.of_nat i) (seq 0 (Z.to_nat (T - st_hi s - st_lo s))).

Definition slot_opt (x : slot) : option Q := match x with SVal q => Some q | _ => None end.
Definition is_raise (x : slot) : bool := match x with SRaise => true | _ => false end.
Definition is_val (x : slot) : bool := match x with SVal _ => true | _ => false end.

(* the whole method, including the padding of Corr(newcontent, padding=[p0, p1]) *)
Definition run (s : stencil) (c : content) : outcome :=
  let T := Z.of_nat (List.length c) in
  let slots := map (step_at s c) (loop_ts s T) in
  if existsb is_raise slots then Raises
  else if negb (existsb is_val slots) then AllUndefined
  else Result (repeat None (Z.to_nat (fst (st_pad s))) ++ map slot_opt slots ++ repeat None (Z.to_nat (snd (st_pad s)))).

Definition incl_b (a b : list Z) : bool := forallb (fun x => existsb (Z.eqb x) b) a.
Lemma incl_b_spec a b : incl_b a b = true -> forall x, In x a -> In x b.
Proof.
  unfold incl_b. intros H x Hx. rewrite forallb_forall in H. specialize (H x Hx).
  apply existsb_exists in H. destruct H as [y [Hy E]]. apply Z.eqb_eq in E. subst. exact Hy.
Qed.

(* well-formedness of a regenerated stencil: every referenced slice is guarded, nothing else is, the padding
   restores the temporal extent, and the loop only references slices inside the correlator *)
Definition stencil_ok (s : stencil) : bool :=
  incl_b (refs (st_expr s)) (st_guards s) && incl_b (st_guards s) (refs (st_expr s))
  && Z.eqb (fst (st_pad s)) (st_lo s) && Z.eqb (snd (st_pad s)) (st_hi s)
  && (0 <=? st_lo s) && (0 <=? st_hi s)
  && forallb (fun k => (- st_lo s <=? k) && (k <=? st_hi s)) (refs (st_expr s)).

(* ------------------------------------------------------------------ THEOREMS (all T, all None patterns) *)
Lemma existsb_incl {A} (p : A -> bool) (a b : list A) :
  (forall x, In x a -> In x b) -> existsb p a = true -> existsb p b = true.
Proof.
  intros H E. apply existsb_exists in E. destruct E as [x [Hx Px]]. apply existsb_exists. exists x. auto.
Qed.

(* an undefined timeslice inside the correlator never raises *)
Theorem guarded_never_raises s c t :
  incl_b (refs (st_expr s)) (st_guards s) = true -> step_at s c t <> SRaise.
Proof.
  intros H. unfold step_at.
  destruct (existsb (fun k => is_none c (t + k)) (st_guards s)) eqn:G; [discriminate|].
  destruct (existsb (fun k => is_none c (t + k)) (refs (st_expr s))) eqn:R; [|discriminate].
  exfalso. apply (existsb_incl _ _ _ (incl_b_spec _ _ H)) in R. congruence.
Qed.

Theorem run_never_raises s c : incl_b (refs (st_expr s)) (st_guards s) = true -> run s c <> Raises.
Proof.
  intro H. unfold run.
  destruct (existsb is_raise _) eqn:E; [|destruct (negb _); discriminate].
  exfalso. apply existsb_exists in E. destruct E as [x [Hx Px]]. apply in_map_iff in Hx.
  destruct Hx as [t [Ht _]]. destruct x; try discriminate. eapply guarded_never_raises; eauto.
Qed.

(* undefined at precisely the timeslices for which a referenced input timeslice is undefined; elsewhere the formula *)
Theorem slot_defined_iff s c t :
  stencil_ok s = true ->
  (step_at s c t = SNone <-> exists k, In k (refs (st_expr s)) /\ is_none c (t + k) = true) /\
  ((forall k, In k (refs (st_expr s)) -> is_none c (t + k) = false) ->
   step_at s c t = SVal (Qred (eval (cval c) t (st_expr s)))).
Proof.
  intro Hok. unfold stencil_ok in Hok. repeat (apply andb_true_iff in Hok; destruct Hok as [Hok ?]).
  pose proof (incl_b_spec _ _ Hok) as Hsub1.
  match goal with H : incl_b (st_guards s) _ = true |- _ => pose proof (incl_b_spec _ _ H) as Hsub2 end.
  unfold step_at. split; [split|].
  - destruct (existsb _ (st_guards s)) eqn:G.
    + intros _. apply existsb_exists in G. destruct G as [k [Hk Nk]]. exists k. split; auto.
    + destruct (existsb _ (refs (st_expr s))) eqn:R; discriminate.
  - intros [k [Hk Nk]].
    assert (G : existsb (fun k => is_none c (t + k)) (st_guards s) = true).
    { apply existsb_exists. exists k. split; auto. }
    rewrite G. reflexivity.
  - intro Hall.
    assert (G : existsb (fun k => is_none c (t + k)) (st_guards s) = false).
    { destruct (existsb _ (st_guards s)) eqn:G; [|reflexivity]. apply existsb_exists in G. destruct G as [k [Hk Nk]].
      rewrite (Hall k (Hsub2 k Hk)) in Nk. discriminate. }
    assert (R : existsb (fun k => is_none c (t + k)) (refs (st_expr s)) = false).
    { destruct (existsb _ (refs (st_expr s))) eqn:R; [|reflexivity]. apply existsb_exists in R. destruct R as [k [Hk Nk]].
      rewrite (Hall k Hk) in Nk. discriminate. }
    rewrite G, R. reflexivity.
Qed.

(* the result has the temporal extent of the input *)
Theorem run_length s c l :
  Z.eqb (fst (st_pad s)) (st_lo s) && Z.eqb (snd (st_pad s)) (st_hi s) && (0 <=? st_lo s) && (0 <=? st_hi s) = true ->
  st_lo s + st_hi s <= Z.of_nat (List.length c) ->
  run s c = Result l -> List.length l = List.length c.
Proof.
  intros H Hc. repeat (apply andb_true_iff in H; destruct H as [H ?]).
  apply Z.eqb_eq in H. match goal with X : (snd _ =? _) = true |- _ => apply Z.eqb_eq in X; rename X into Hs end.
  repeat match goal with X : (0 <=? _) = true |- _ => apply Z.leb_le in X end.
  unfold run. destruct (existsb is_raise _); [discriminate|]. destruct (negb _); [discriminate|].
  intro E. injection E as <-. rewrite !app_length, !repeat_length, !map_length. unfold loop_ts.
  rewrite map_length, seq_length. rewrite H, Hs. lia.
Qed.

(* ------------------------------------------------------------------ effective-mass loops (log / logsym / arccosh) *)
(* guards: None tests, value == 0 tests, one sign test num/den < 0 (or <= 0 when the flag is set); then expr; the outer function is applied to the
   whole correlator afterwards (np.log, np.log(...)/2, np.arccosh) and maps NaN to undefined *)
Record mstencil := mkMStencil { ms_lo : Z; ms_hi : Z; ms_none : list Z; ms_zero : list Z; ms_sign : option (Z * Z * bool);
                                ms_expr : sexpr; ms_pad : Z * Z }.
Definition mstep_at (s : mstencil) (c : content) (t : Z) : slot :=
  if existsb (fun k => is_none c (t + k)) (ms_none s) then SNone
  else if existsb (fun k => is_none c (t + k)) (ms_zero s) then SRaise
  else if existsb (fun k => Qeqb (cval c (t + k)) 0) (ms_zero s) then SNone
  else match ms_sign s with
       | Some (a, b, nonstrict) =>
           if is_none c (t + a) || is_none c (t + b) then SRaise
           else if Qeqb (cval c (t + b)) 0 then SRaise
           else if (if nonstrict then Qleb (cval c (t + a) / cval c (t + b)) 0 else Qltb (cval c (t + a) / cval c (t + b)) 0) then SNone
           else if existsb (fun k => is_none c (t + k)) (refs (ms_expr s)) then SRaise
           else SVal (Qred (eval (cval c) t (ms_expr s)))
       | None =>
           if existsb (fun k => is_none c (t + k)) (refs (ms_expr s)) then SRaise
           else SVal (Qred (eval (cval c) t (ms_expr s)))
       end.
Definition mloop_ts (s : mstencil) (T : Z) : list Z :=
  map (fun i => ms_lo s + Z.of_nat i) (seq 0 (Z.to_nat (T - ms_hi s - ms_lo s))).
Definition mrun (s : mstencil) (c : content) : outcome :=
  let T := Z.of_nat (List.length c) in
  let slots := map (mstep_at s c) (mloop_ts s T) in
  if existsb is_raise slots then Raises
  else if negb (existsb is_val slots) then AllUndefined
  else Result (repeat None (Z.to_nat (fst (ms_pad s))) ++ map slot_opt slots ++ repeat None (Z.to_nat (snd (ms_pad s)))).

Definition mstencil_ok (s : mstencil) : bool :=
  incl_b (refs (ms_expr s)) (ms_none s) && incl_b (ms_zero s) (ms_none s)
  && match ms_sign s with Some (a, b, _) => existsb (Z.eqb a) (ms_none s) && existsb (Z.eqb b) (ms_none s) && existsb (Z.eqb b) (ms_zero s) | None => true end
  && Z.eqb (fst (ms_pad s)) (ms_lo s) && Z.eqb (snd (ms_pad s)) (ms_hi s).

Theorem mguarded_never_raises s c t : mstencil_ok s = true -> mstep_at s c t <> SRaise.
Proof.
  intro Hok. unfold mstencil_ok in Hok. repeat (apply andb_true_iff in Hok; destruct Hok as [Hok ?]).
  pose proof (incl_b_spec _ _ Hok) as Hsub1.
  match goal with H : incl_b (ms_zero s) _ = true |- _ => pose proof (incl_b_spec _ _ H) as Hsub2 end.
  unfold mstep_at.
  destruct (existsb (fun k => is_none c (t + k)) (ms_none s)) eqn:G; [discriminate|].
  assert (NR : existsb (fun k => is_none c (t + k)) (refs (ms_expr s)) = false).
  { destruct (existsb _ (refs (ms_expr s))) eqn:R; [|reflexivity]. apply (existsb_incl _ _ _ Hsub1) in R. congruence. }
  assert (NZ : existsb (fun k => is_none c (t + k)) (ms_zero s) = false).
  { destruct (existsb _ (ms_zero s)) eqn:R; [|reflexivity]. apply (existsb_incl _ _ _ Hsub2) in R. congruence. }
  rewrite NZ. destruct (existsb (fun k => Qeqb (cval c (t + k)) 0) (ms_zero s)) eqn:Z0; [discriminate|].
  destruct (ms_sign s) as [[[a b] nonstrict]|].
  - match goal with H : _ && _ && _ = true |- _ => apply andb_true_iff in H; destruct H as [H Hbz]; apply andb_true_iff in H; destruct H as [Ha Hb] end.
    assert (Na : is_none c (t + a) = false).
    { apply existsb_exists in Ha. destruct Ha as [x [Hx E]]. apply Z.eqb_eq in E. subst x.
      destruct (is_none c (t + a)) eqn:N; [|reflexivity]. exfalso.
      assert (existsb (fun k => is_none c (t + k)) (ms_none s) = true) by (apply existsb_exists; exists a; auto). congruence. }
    assert (Nb : is_none c (t + b) = false).
    { apply existsb_exists in Hb. destruct Hb as [x [Hx E]]. apply Z.eqb_eq in E. subst x.
      destruct (is_none c (t + b)) eqn:N; [|reflexivity]. exfalso.
      assert (existsb (fun k => is_none c (t + k)) (ms_none s) = true) by (apply existsb_exists; exists b; auto). congruence. }
    rewrite Na, Nb. cbn [orb].
    assert (Zb : Qeqb (cval c (t + b)) 0 = false).
    { apply existsb_exists in Hbz. destruct Hbz as [x [Hx E]]. apply Z.eqb_eq in E. subst x.
      destruct (Qeqb (cval c (t + b)) 0) eqn:N; [|reflexivity]. exfalso.
      assert (existsb (fun k => Qeqb (cval c (t + k)) 0) (ms_zero s) = true) by (apply existsb_exists; exists b; auto). congruence. }
    rewrite Zb. destruct (if nonstrict then _ else _); [discriminate|]. rewrite NR. discriminate.
  - rewrite NR. discriminate.
Qed.

(* ------------------------------------------------------------------ correspondence verdict (value level) *)
Inductive impl_outcome := IRaises | IAllUndefined | IResult (l : list (option Q)).
Definition opt_close (rt at_ : Q) (a b : option Q) : bool :=
  match a, b with None, None => true | Some x, Some y => closeb rt at_ x y | _, _ => false end.
Definition outcome_agree (rt at_ : Q) (m : outcome) (i : impl_outcome) : bool :=
  match m, i with
  | Raises, IRaises => true
  | AllUndefined, IAllUndefined => true
  | AllUndefined, IResult b => forallb (fun x => match x with None => true | Some _ => false end) b   (* non-finite entries are passed as None by the harness *)
  | Result a, IResult b => all2 (opt_close rt at_) a b
  | _, _ => false
  end.

(* ------------------------------------------------------------------ comparing a regenerated stencil with the documented one *)
Definition set_eqb (a b : list Z) : bool := incl_b a b && incl_b b a.
Definition stencil_same_shape (a b : stencil) : bool :=
  Z.eqb (st_lo a) (st_lo b) && Z.eqb (st_hi a) (st_hi b) && set_eqb (st_guards a) (st_guards b)
  && Z.eqb (fst (st_pad a)) (fst (st_pad b)) && Z.eqb (snd (st_pad a)) (snd (st_pad b)).
Definition mstencil_same_shape (a b : mstencil) : bool :=
  Z.eqb (ms_lo a) (ms_lo b) && Z.eqb (ms_hi a) (ms_hi b) && set_eqb (ms_none a) (ms_none b) && set_eqb (ms_zero a) (ms_zero b)
  && match ms_sign a, ms_sign b with Some (x, y, p), Some (u, v, q) => Z.eqb x u && Z.eqb y v && Bool.eqb p q | None, None => true | _, _ => false end
  && Z.eqb (fst (ms_pad a)) (fst (ms_pad b)) && Z.eqb (snd (ms_pad a)) (snd (ms_pad b)).

(* outer function applied to the whole correlator afterwards: NaN (argument outside the real domain) -> undefined *)
Definition outer_defined (code : nat) (x : Q) : bool :=
  match code with 0%nat | 1%nat => Qltb 0 x | _ => Qleb 1 x end.
Definition outer_filter (code : nat) (o : outcome) : outcome :=
  match o with
  | Result l => let l' := map (fun x => match x with Some q => if outer_defined code q then Some q else None | None => None end) l in
                (* _apply_func_to_corr raises ValueError('Operation returns undefined correlator') when nothing is left *)
                if forallb (fun x => match x with None => true | Some _ => false end) l' then AllUndefined else Result l'
  | _ => o
  end.

(* cases: a None pattern with values, which stencil, and what the implementation did *)
Record scase := mkSC { sc_model : stencil; sc_spec : stencil; sc_content : content; sc_impl : impl_outcome; sc_rt : Q; sc_at : Q }.
Definition scase_model_ok (c : scase) : bool := outcome_agree (sc_rt c) (sc_at c) (run (sc_model c) (sc_content c)) (sc_impl c).
Definition scase_spec_ok (c : scase) : bool := outcome_agree (sc_rt c) (sc_at c) (run (sc_spec c) (sc_content c)) (sc_impl c).
Record mcase := mkMC { mc_model : mstencil; mc_spec : mstencil; mc_outer : nat; mc_content : content; mc_impl : impl_outcome; mc_rt : Q; mc_at : Q }.
(* the implementation's values are passed through the inverse of the outer function by the harness (exp, exp(2.), cosh) *)
Definition mcase_model_ok (c : mcase) : bool := outcome_agree (mc_rt c) (mc_at c) (outer_filter (mc_outer c) (mrun (mc_model c) (mc_content c))) (mc_impl c).
Definition mcase_spec_ok (c : mcase) : bool := outcome_agree (mc_rt c) (mc_at c) (outer_filter (mc_outer c) (mrun (mc_spec c) (mc_content c))) (mc_impl c).
