(* projected with one vector pair per timeslice: the code-shaped model (two nested dot products over zipped lists) is, timeslice by
   timeslice, the specified double sum  sum_i sum_j l_i C_ij(t) r_j,  and a timeslice is undefined exactly when the correlator's timeslice
   or one of the two vectors is. *)
From Coq Require Import ZArith QArith List Bool Lia.
From PV Require Import Base.QAux Corr.Ops.
Import ListNotations.
Open Scope Q_scope.

Lemma dotv_cons x a y b : dotv (x :: a) (y :: b) == x * y + dotv a b.
Proof. unfold dotv. cbn [combine map fst snd]. apply Qsum_cons. Qed.

Lemma dotv_nth a : forall b n, List.length a = n -> List.length b = n ->
  dotv a b == Qsum (map (fun i => nth i a 0 * nth i b 0) (seq 0 n)).
Proof.
  induction a as [|x a IH]; intros b n Ha Hb.
  - simpl in Ha. subst n. reflexivity.
  - destruct b as [|y b]; [simpl in *; lia|]. destruct n as [|n]; [simpl in Ha; lia|].
    simpl in Ha, Hb. rewrite dotv_cons. cbn [seq map]. rewrite Qsum_cons. cbn [nth].
    rewrite <- seq_shift, map_map. cbn [nth]. rewrite (IH b n) by lia. reflexivity.
Qed.

Definition square (N : nat) (m : mat) : Prop := List.length m = N /\ Forall (fun row => List.length row = N) m.

Theorem projected_entry_is_double_sum N (m : mat) (l r : list Q) :
  square N m -> List.length l = N -> List.length r = N ->
  dotv l (map (fun row => dotv row r) m)
  == Qsum (map (fun i => Qsum (map (fun j => nth i l 0 * nth j (nth i m []) 0 * nth j r 0) (seq 0 N))) (seq 0 N)).
Proof.
  intros [Hm Hrows] Hl Hr.
  rewrite (dotv_nth l (map (fun row => dotv row r) m) N Hl) by (rewrite map_length; exact Hm).
  apply Qsum_map_ext. intros i Hi. apply in_seq in Hi.
  change (nth i (map (fun row => dotv row r) m) 0) with (nth i (map (fun row => dotv row r) m) ((fun row => dotv row r) [])).
  rewrite map_nth.
  assert (Hrow : List.length (nth i m []) = N).
  { rewrite Forall_forall in Hrows. apply Hrows. apply nth_In. lia. }
  rewrite (dotv_nth (nth i m []) r N Hrow Hr).
  rewrite <- Qsum_map_scale. apply Qsum_map_ext. intros j _. ring.
Qed.

Lemma nth_map_dflt {A B} (f : A -> B) l : forall n d d', (n < List.length l)%nat -> nth n (map f l) d = f (nth n l d').
Proof. induction l as [|x l IH]; intros [|n] d d' H; simpl in *; try lia; [reflexivity|apply IH; lia]. Qed.

(* the model's timeslice t *)
Lemma projected_l_nth vls vrs (a : corr) t :
  List.length vls = List.length a -> List.length vrs = List.length a -> (t < List.length a)%nat ->
  snth (projected_l vls vrs a) t
  = match snth a t, nth t vls None, nth t vrs None with
    | Some m, Some l, Some r => Some [[dotv l (map (fun row => dotv row r) m)]]
    | _, _, _ => None
    end.
Proof.
  intros Hl Hr Ht. unfold snth, projected_l. unfold corr, slice in *.
  set (F := fun x : option mat * (option (list Q) * option (list Q)) => match fst x, fst (snd x), snd (snd x) with
                | Some m, Some l, Some r => Some [[dotv l (map (fun row => dotv row r) m)]]
                | _, _, _ => None end).
  assert (Hc : List.length a = List.length (combine vls vrs)) by (rewrite combine_length, Hl, Hr; symmetry; apply Nat.min_id).
  rewrite (nth_map_dflt F _ t None (None, (None, None))) by (rewrite combine_length, <- Hc; lia).
  rewrite (combine_nth a (combine vls vrs) t None (None, None) Hc).
  rewrite (combine_nth vls vrs t None None) by congruence. reflexivity.
Qed.

Definition slice_Qeq (x y : slice) : Prop :=
  match x, y with
  | None, None => True
  | Some [[p]], Some [[q]] => p == q
  | _, _ => False
  end.

Theorem projected_l_is_the_specified_double_sum vls vrs (a : corr) t :
  List.length vls = List.length a -> List.length vrs = List.length a -> (t < List.length a)%nat ->
  (forall m l r, snth a t = Some m -> nth t vls None = Some l -> nth t vrs None = Some r ->
                 square (List.length m) m /\ List.length l = List.length m /\ List.length r = List.length m) ->
  slice_Qeq (snth (projected_l vls vrs a) t) (spec_at a (OpProjectedL vls vrs) t).
Proof.
  intros Hl Hr Ht Hsq. rewrite projected_l_nth by assumption. cbn [spec_at].
  destruct (snth a t) as [m|] eqn:Ea; [|exact I].
  destruct (nth t vls None) as [l|] eqn:El; [|exact I].
  destruct (nth t vrs None) as [r|] eqn:Er; [|exact I].
  destruct (Hsq m l r eq_refl eq_refl eq_refl) as [S1 [S2 S3]].
  cbn [slice_Qeq]. apply projected_entry_is_double_sum; assumption.
Qed.

(* undefinedness propagates from the correlator and from either vector list, and from nothing else *)
Theorem projected_l_undefined_iff vls vrs (a : corr) t :
  List.length vls = List.length a -> List.length vrs = List.length a -> (t < List.length a)%nat ->
  (snth (projected_l vls vrs a) t = None <-> snth a t = None \/ nth t vls None = None \/ nth t vrs None = None).
Proof.
  intros Hl Hr Ht. rewrite projected_l_nth by assumption.
  destruct (snth a t); destruct (nth t vls None); destruct (nth t vrs None); split; intro H; try reflexivity; try discriminate; auto;
    destruct H as [H|[H|H]]; discriminate.
Qed.

Example projected_l_nonvacuous :
  let a : corr := [Some [[1; 2]; [3; 4]]; None; Some [[0; 1]; [1; 0]]] in
  let vls := [Some [1; -1]; Some [1; 1]; None] in
  let vrs := [Some [2; 5]; Some [1; 0]; Some [1; 1]] in
  projected_l vls vrs a = [Some [[-14]]; None; None]
  /\ spec_at a (OpProjectedL vls vrs) 0 = Some [[-14]].
Proof. split; vm_compute; reflexivity. Qed.

Print Assumptions projected_l_is_the_specified_double_sum.
Print Assumptions projected_l_undefined_iff.
