(* Matrix-pencil method on an exact multi-exponential signal  c(t) = sum_m a_m lambda_m^t  (lambda_m = exp(-E_m)):
   the Hankel matrices Y1[i][j] = c(i + j), Y2[i][j] = c(i + j + 1) have the spectral form sum_m d_m u_m w_m^T with Vandermonde
   vectors u_m = (lambda_m^i)_i, w_m = (lambda_m^j)_j and weights a_m resp. a_m lambda_m, so by the GEVP algebra the pencil
   Y2 - lambda Y1 is singular exactly at the lambda_m:  a_s Y2 v = (a_s lambda_s) Y1 v  for the vector v dual to state s. *)
From Coq Require Import ZArith QArith Qabs List Bool Lia Lqa.
From PV Require Import Base.QAux Lin.Mat.
From PV Require Import Corr.Gevp.
Import ListNotations.
Open Scope Q_scope.

Fixpoint qpown (x : Q) (k : nat) : Q := match k with O => 1 | S k' => x * qpown x k' end.
Lemma qpown_add x i j : qpown x (i + j) == qpown x i * qpown x j.
Proof. induction i as [|i IH]; cbn [qpown Nat.add]; [ring | rewrite IH; ring]. Qed.
Definition vander (x : Q) (n : nat) : vec := map (qpown x) (seq 0 n).

(* a mode: amplitude and decay factor *)
Definition signal (modes : list (Q * Q)) (t : nat) : Q := fold_right (fun m acc => fst m * qpown (snd m) t + acc) 0 modes.
Definition hankel_row (sig : nat -> Q) (shift i p : nat) : vec := map (fun j => sig (i + j + shift)%nat) (seq 0 p).
Definition hankel_apply (sig : nat -> Q) (shift n p : nat) (v : vec) : vec := map (fun i => dotv (hankel_row sig shift i p) v) (seq 0 n).
(* the states of the pencil: weight a lambda at "t" (Y2) and a at "t0" (Y1) *)
Definition pencil_states (modes : list (Q * Q)) (n p : nat) : list state :=
  map (fun m => mkState (vander (snd m) n) (vander (snd m) p) (fst m * snd m) (fst m)) modes.

Lemma vscal_map {X} c (f : X -> Q) l : vscal c (map f l) = map (fun k => Qred (c * f k)) l.
Proof. unfold vscal. rewrite map_map. reflexivity. Qed.
Lemma repeat_map0 n : repeat 0 n = map (fun _ : nat => 0) (seq 0 n).
Proof. apply (repeat_as_map 0 n 0%nat). Qed.

Lemma sumv_cons n x l : sumv n (x :: l) = vaddv x (sumv n l).
Proof. reflexivity. Qed.

(* Y1 v and Y2 v in spectral form *)
Theorem hankel_is_spectral (modes : list (Q * Q)) (n p : nat) (v : vec) :
  veq (hankel_apply (signal modes) 0 n p v) (G0_apply (pencil_states modes n p) n v)
  /\ veq (hankel_apply (signal modes) 1 n p v) (G_apply (pencil_states modes n p) n v).
Proof.
  unfold hankel_apply, G0_apply, G_apply, pencil_states. rewrite !map_map. cbn [su sz sd sd0].
  induction modes as [|[a x] modes [IH0 IH1]].
  - cbn [map signal fold_right sumv]. rewrite repeat_map0. split; apply veq_map; intro i;
      (rewrite (dotv_veq_l _ (map (fun _ => 0) (seq 0 p))) by (apply veq_map; intro; reflexivity));
      rewrite <- (repeat_as_map 0 p 0%nat), dotv_comm; apply dotv_zeros_r.
  - cbn [map fst snd]. rewrite !sumv_cons. change (vander x n) with (map (qpown x) (seq 0 n)). rewrite !vscal_map. split.
    + eapply veq_trans; [|apply veq_vaddv; [apply veq_refl | exact IH0]]. rewrite vaddv_map. apply veq_map. intro i.
      rewrite Qred_correct, Qred_correct. unfold hankel_row.
      rewrite (dotv_veq_l _ (map (fun j => (a * qpown x i) * qpown x j + signal modes (i + j + 0)) (seq 0 p))).
      * rewrite dotv_map_lin. fold (vander x p). unfold hankel_row.
        match goal with |- _ + ?A == _ + ?B => change B with A; generalize A; intro T end. generalize (dotv (vander x p) v); intro U. ring.
      * apply veq_map. intro j. change (signal ((a, x) :: modes) (i + j + 0)) with (a * qpown x (i + j + 0) + signal modes (i + j + 0)).
        replace (i + j + 0)%nat with (i + j)%nat by lia. rewrite qpown_add. ring.
    + eapply veq_trans; [|apply veq_vaddv; [apply veq_refl | exact IH1]]. rewrite vaddv_map. apply veq_map. intro i.
      rewrite Qred_correct, Qred_correct. unfold hankel_row.
      rewrite (dotv_veq_l _ (map (fun j => (a * x * qpown x i) * qpown x j + signal modes (i + j + 1)) (seq 0 p))).
      * rewrite dotv_map_lin. fold (vander x p). unfold hankel_row.
        match goal with |- _ + ?A == _ + ?B => change B with A; generalize A; intro T end. generalize (dotv (vander x p) v); intro U. ring.
      * apply veq_map. intro j. change (signal ((a, x) :: modes) (i + j + 1)) with (a * qpown x (i + j + 1) + signal modes (i + j + 1)).
        replace (qpown x (i + j + 1)) with (x * qpown x (i + j)) by (replace (i + j + 1)%nat with (S (i + j)) by lia; reflexivity). rewrite qpown_add. ring.
Qed.

Lemma pencil_states_app pre m post n p : pencil_states (pre ++ m :: post) n p = pencil_states pre n p ++ mkState (vander (snd m) n) (vander (snd m) p) (fst m * snd m) (fst m) :: pencil_states post n p.
Proof. unfold pencil_states. rewrite map_app. reflexivity. Qed.
Lemma vander_length x n : List.length (vander x n) = n.
Proof. unfold vander. rewrite map_length, seq_length. reflexivity. Qed.

(* the pencil equation: a vector dual to mode s (orthogonal to the Vandermonde vectors of all other modes) satisfies
   a_s * (Y2 v) = (a_s lambda_s) * (Y1 v), i.e. Y2 v = lambda_s Y1 v whenever a_s <> 0: lambda_s = exp(-E_s) is a generalised eigenvalue *)
Theorem matrix_pencil_eigenvalue (pre post : list (Q * Q)) (m : Q * Q) (n p : nat) (v : vec) :
  Forall (fun r => dotv (vander (snd r) p) v == 0) (pre ++ post) ->
  veq (vscal (fst m) (hankel_apply (signal (pre ++ m :: post)) 1 n p v))
      (vscal (fst m * snd m) (hankel_apply (signal (pre ++ m :: post)) 0 n p v)).
Proof.
  intro H. destruct (hankel_is_spectral (pre ++ m :: post) n p v) as [S0 S1].
  assert (CongL : forall a x y, veq x y -> veq (vscal a x) (vscal a y)).
  { intros a x. induction x as [|q x IHx]; intros y K; inversion K; subst; [constructor|]. cbn. constructor; [rewrite !Qred_correct; match goal with E : q == _ |- _ => rewrite E end; reflexivity | apply IHx; assumption]. }
  eapply veq_trans; [apply CongL; exact S1|]. apply veq_sym. eapply veq_trans; [apply CongL; exact S0|]. apply veq_sym.
  rewrite pencil_states_app.
  apply (dual_vector_solves_gevp (pencil_states pre n p) (pencil_states post n p) (mkState (vander (snd m) n) (vander (snd m) p) (fst m * snd m) (fst m)) n v).
  - apply Forall_app in H. destruct H as [Hp _]. unfold pencil_states. apply Forall_forall. intros r Hr. apply in_map_iff in Hr. destruct Hr as [q [<- Hq]].
    cbn [su sz]. split; [apply vander_length | rewrite Forall_forall in Hp; apply Hp; exact Hq].
  - apply Forall_app in H. destruct H as [_ Hp]. unfold pencil_states. apply Forall_forall. intros r Hr. apply in_map_iff in Hr. destruct Hr as [q [<- Hq]].
    cbn [su sz]. split; [apply vander_length | rewrite Forall_forall in Hp; apply Hp; exact Hq].
  - cbn [su]. apply vander_length.
Qed.
