(* Generalised eigenvalue problem on a correlator matrix with an exact spectrum
     G(t) = sum_m d_m(t) z_m z_m^T        (z_m: overlap vector of state m, d_m(t) = exp(-E_m t) or any weights).
   Algebra (any number of operators and states): a vector v dual to one state s (z_m . v = 0 for all other states) satisfies
     d_s(t0) G(t) v = d_s(t) G(t0) v     and     v^T G(t) v = d_s(t) (z_s . v)^2,
   i.e. the eigen-equation with eigenvalue d_s(t)/d_s(t0) = exp(-E_s (t - t0)) and the projected correlator.
   Verdicts: eigen-equation residual, ordering, parallelism of two solutions, duality (state labelling), closed forms by intervals. *)
From Coq Require Import ZArith QArith Qabs List Bool Lia Lqa.
From Interval Require Import Interval.Interval Real.Xreal.
From PV Require Import Base.QAux Base.RI Base.Expr Lin.Mat.
Import ListNotations.
Open Scope Q_scope.

(* su: overlap vector on the row (sink) side, sz: on the column (source) side -- equal for a symmetric correlator matrix, different
   lengths for the rectangular Hankel matrices of the matrix-pencil method; sd, sd0: weight at t and at t0 *)
Record state := mkState { su : vec; sz : vec; sd : Q; sd0 : Q }.
Definition sumv (n : nat) (l : list vec) : vec := fold_right vaddv (repeat 0 n) l.
Definition G_apply (sts : list state) (n : nat) (v : vec) : vec := sumv n (map (fun s => vscal (sd s * dotv (sz s) v) (su s)) sts).
Definition G0_apply (sts : list state) (n : nat) (v : vec) : vec := sumv n (map (fun s => vscal (sd0 s * dotv (sz s) v) (su s)) sts).

Lemma veq_sym a : forall b, veq a b -> veq b a.
Proof. induction a as [|x a IH]; intros b H; inversion H; subst; constructor; [symmetry; assumption | apply IH; assumption]. Qed.
Lemma veq_length a : forall b, veq a b -> List.length a = List.length b.
Proof. induction a as [|x a IH]; intros b H; inversion H; subst; [reflexivity|]. cbn. f_equal. apply IH. assumption. Qed.
Lemma vscal_zero z s : s == 0 -> veq (vscal s z) (repeat 0 (List.length z)).
Proof. intro H. induction z as [|x z IH]; [constructor|]. cbn. constructor; [rewrite Qred_correct, H; ring | exact IH]. Qed.
Lemma vscal_zero' z s n : List.length z = n -> s == 0 -> veq (vscal s z) (repeat 0 n).
Proof. intros L H. subst n. apply vscal_zero. exact H. Qed.
Lemma vaddv_zero_l z n : List.length z = n -> veq (vaddv (repeat 0 n) z) z.
Proof. revert n; induction z as [|x z IH]; intros n H; subst n; [constructor|]. cbn. constructor; [rewrite Qred_correct; ring | apply IH; reflexivity]. Qed.
Lemma vaddv_zero_r z n : List.length z = n -> veq (vaddv z (repeat 0 n)) z.
Proof. revert n; induction z as [|x z IH]; intros n H; subst n; [constructor|]. cbn. constructor; [rewrite Qred_correct; ring | apply IH; reflexivity]. Qed.
Lemma vscal_vscal a b z : veq (vscal a (vscal b z)) (vscal (a * b) z).
Proof. induction z as [|x z IH]; [constructor|]. cbn. constructor; [rewrite !Qred_correct; ring | exact IH]. Qed.
Lemma vscal_ext a b z : a == b -> veq (vscal a z) (vscal b z).
Proof. intro H. induction z as [|x z IH]; [constructor|]. cbn. constructor; [rewrite !Qred_correct, H; reflexivity | exact IH]. Qed.

(* states orthogonal to v do not contribute *)
Lemma sumv_orthogonal (w : state -> Q) (sts : list state) (n : nat) (v : vec) :
  Forall (fun r => List.length (su r) = n /\ dotv (sz r) v == 0) sts ->
  veq (sumv n (map (fun s => vscal (w s * dotv (sz s) v) (su s)) sts)) (repeat 0 n).
Proof.
  induction sts as [|r sts IH]; intro H; [apply veq_refl|]. apply Forall_cons_iff in H. destruct H as [[L O] H']. cbn [map sumv fold_right].
  fold (sumv n (map (fun s => vscal (w s * dotv (sz s) v) (su s)) sts)).
  eapply veq_trans; [apply veq_vaddv; [apply (vscal_zero' _ _ n L); rewrite O; ring | apply IH; exact H']|].
  apply vaddv_zero_l. apply repeat_length.
Qed.

(* only the state the vector is dual to survives *)
Lemma sumv_dual (w : state -> Q) (pre post : list state) (s : state) (n : nat) (v : vec) :
  Forall (fun r => List.length (su r) = n /\ dotv (sz r) v == 0) pre ->
  Forall (fun r => List.length (su r) = n /\ dotv (sz r) v == 0) post ->
  List.length (su s) = n ->
  veq (sumv n (map (fun r => vscal (w r * dotv (sz r) v) (su r)) (pre ++ s :: post))) (vscal (w s * dotv (sz s) v) (su s)).
Proof.
  intros Hpre Hpost L. induction pre as [|r pre IH].
  - cbn [app map sumv fold_right]. fold (sumv n (map (fun r => vscal (w r * dotv (sz r) v) (su r)) post)).
    eapply veq_trans; [apply veq_vaddv; [apply veq_refl | apply (sumv_orthogonal w post n v Hpost)]|].
    apply vaddv_zero_r. rewrite vscal_length. exact L.
  - apply Forall_cons_iff in Hpre. destruct Hpre as [[Lr Or] Hpre']. cbn [app map sumv fold_right].
    fold (sumv n (map (fun r0 => vscal (w r0 * dotv (sz r0) v) (su r0)) (pre ++ s :: post))).
    eapply veq_trans; [apply veq_vaddv; [apply (vscal_zero' _ _ n Lr); rewrite Or; ring | apply IH; exact Hpre']|].
    apply vaddv_zero_l. rewrite vscal_length. exact L.
Qed.

(* the eigen-equation for a dual vector: d_s(t0) G(t) v = d_s(t) G(t0) v, entry by entry *)
Theorem dual_vector_solves_gevp (pre post : list state) (s : state) (n : nat) (v : vec) :
  Forall (fun r => List.length (su r) = n /\ dotv (sz r) v == 0) pre ->
  Forall (fun r => List.length (su r) = n /\ dotv (sz r) v == 0) post ->
  List.length (su s) = n ->
  veq (vscal (sd0 s) (G_apply (pre ++ s :: post) n v)) (vscal (sd s) (G0_apply (pre ++ s :: post) n v)).
Proof.
  intros Hpre Hpost L. unfold G_apply, G0_apply.
  pose proof (sumv_dual sd pre post s n v Hpre Hpost L) as A.
  pose proof (sumv_dual sd0 pre post s n v Hpre Hpost L) as B.
  assert (CongL : forall a x y, veq x y -> veq (vscal a x) (vscal a y)).
  { intros a x. induction x as [|q x IHx]; intros y H; inversion H; subst; [constructor|]. cbn. constructor; [rewrite !Qred_correct; match goal with E : q == _ |- _ => rewrite E end; reflexivity | apply IHx; assumption]. }
  eapply veq_trans; [apply CongL; exact A|].
  eapply veq_trans; [apply vscal_vscal|].
  apply veq_sym. eapply veq_trans; [apply CongL; exact B|].
  eapply veq_trans; [apply vscal_vscal|]. apply vscal_ext. ring.
Qed.

(* the projected correlator of a dual vector is a single exponential: v . G(t) v = d_s(t) (z_s . v)^2 *)
Theorem dual_vector_projects_single_state (pre post : list state) (s : state) (n : nat) (v : vec) :
  Forall (fun r => List.length (su r) = n /\ dotv (sz r) v == 0) pre ->
  Forall (fun r => List.length (su r) = n /\ dotv (sz r) v == 0) post ->
  List.length (su s) = n ->
  dotv v (G_apply (pre ++ s :: post) n v) == sd s * (dotv (sz s) v * dotv (su s) v).
Proof.
  intros Hpre Hpost L. unfold G_apply. rewrite (dotv_veq_r v _ _ (sumv_dual sd pre post s n v Hpre Hpost L)).
  rewrite dotv_vscal_r. rewrite (dotv_comm v (su s)). ring.
Qed.

(* ------------------------------------------------------------------ verdicts on the implementation's matrices and vectors *)
Definition vabs_sum (a b : vec) : Q := (fix go (a b : vec) := match a, b with x :: a', y :: b' => Qabs (x * y) + go a' b' | _, _ => 0 end) a b.
Definition rayleigh (Gt G0 : mat) (v : vec) : Q := dotv v (mvec Gt v) / dotv v (mvec G0 v).
(* | (G(t) v - lambda G(t0) v)_i | <= rt * sum_j (|G(t)_ij v_j| + |lambda G(t0)_ij v_j|) with lambda the Rayleigh quotient *)
Definition gevp_eq_ok (rt : Q) (Gt G0 : mat) (v : vec) : bool :=
  let lam := rayleigh Gt G0 v in
  all2 (fun rt_ r0 => Qle_bool (Qabs (dotv rt_ v - lam * dotv r0 v)) (rt * (vabs_sum rt_ v + Qabs lam * vabs_sum r0 v))) Gt G0.
Fixpoint descending (l : list Q) : bool := match l with a :: ((b :: _) as r) => Qle_bool b a && negb (Qeq_bool a b) && descending r | _ => true end.
Definition norm1 (a : vec) : Q := Qsum (map Qabs a).
Definition parallel_ok (rt : Q) (v w : vec) : bool :=
  forallb (fun vi_wi => forallb (fun vj_wj => Qle_bool (Qabs (fst vi_wi * snd vj_wj - fst vj_wj * snd vi_wi)) (rt * norm1 v * norm1 w)) (combine v w)) (combine v w).
(* v is dual to state k of the overlap vectors zs: |z_m . v| <= rt |z_k . v| for m <> k *)
Definition dual_ok (rt : Q) (zs : list vec) (k : nat) (v : vec) : bool :=
  let c := Qabs (dotv (nth k zs []) v) in
  negb (Qeq_bool c 0) && forallb (fun mz => Nat.eqb (fst mz) k || Qle_bool (Qabs (dotv (snd mz) v)) (rt * c)) (combine (seq 0 (List.length zs)) zs).
(* value = exp(-E dt) within tol, decided on a verified enclosure *)
Definition exp_ok (value E dt tol : Q) : bool := within (evalI (fun _ => zI 0) (EExp (ENeg (EMul (EC E) (EC dt))))) value tol.

Record gcase := mkGCase {
  g_rt : Q; g_ft : Q;                         (* backward (eigen-equation) and forward (vector) tolerances *)
  g_eqs : list (mat * mat * vec);             (* (G(t), G(t0), v): eigen-equation instances *)
  g_orders : list (list (mat * mat * vec));   (* per time: the vectors of states 0, 1, ...: Rayleigh quotients descend *)
  g_parallel : list (vec * vec);              (* solutions of two methods / times that must be parallel *)
  g_dual : list (list vec * nat * vec);       (* (overlap vectors, state, v) *)
  g_exp : list (Q * Q * Q * Q);               (* (value, E, dt, tol): value = exp(-E dt) *)
  g_close : list (Q * Q * Q) }.               (* (a, b, tol): |a - b| <= tol *)
Definition gcase_eq (c : gcase) : bool := forallb (fun x => gevp_eq_ok (g_rt c) (fst (fst x)) (snd (fst x)) (snd x)) (g_eqs c).
Definition gcase_order (c : gcase) : bool := forallb (fun l => descending (map (fun x => rayleigh (fst (fst x)) (snd (fst x)) (snd x)) l)) (g_orders c).
Definition gcase_parallel (c : gcase) : bool := forallb (fun x => parallel_ok (g_ft c) (fst x) (snd x)) (g_parallel c).
Definition gcase_dual (c : gcase) : bool := forallb (fun x => dual_ok (g_ft c) (fst (fst x)) (snd (fst x)) (snd x)) (g_dual c).
Definition gcase_exp (c : gcase) : bool := forallb (fun x => match x with (v, E, dt, tol) => exp_ok v E dt tol end) (g_exp c).
Definition gcase_close (c : gcase) : bool := forallb (fun x => match x with (a, b, tol) => Qle_bool (Qabs (a - b)) tol end) (g_close c).
