(* Specification of the Dirac tables, as a function of the regenerated matrices: what the
   property says they must satisfy.  Every check is a boolean over Gaussian rationals, so a
   theorem [.. = true] proved by vm_compute over the regenerated terms is a proof (finite domain). *)
From Coq Require Import ZArith QArith List Bool String.
From PV Require Import Base.QAux Tab.CMat.
Import ListNotations.
Open Scope Q_scope.

Section Spec.
Variables (gx gy gz gt g5 idm : mat).
Let gs := [gx; gy; gz; gt].

Definition idx4 : list nat := [0;1;2;3]%nat.
Definition g_at (mu : nat) : mat := nth mu gs mzero4.

Definition shapes_ok : bool := forallb (shape_ok 4) [gx; gy; gz; gt; g5; idm].

(* {gamma_mu, gamma_nu} = 2 delta_mu_nu *)
Definition clifford_ok : bool :=
  forallb (fun mu => forallb (fun nu =>
     meqb (anticomm (g_at mu) (g_at nu)) (if Nat.eqb mu nu then mscale two mid4 else mzero4)) idx4) idx4.

Definition hermitian_ok : bool := forallb (fun g => meqb (mdagger g) g) [gx; gy; gz; gt; g5].
Definition gamma5_product_ok : bool := meqb g5 (mmul (mmul (mmul gx gy) gz) gt).
Definition gamma5_anticommutes_ok : bool := forallb (fun g => meqb (anticomm g5 g) mzero4) gs.
Definition gamma5_squares_ok : bool := meqb (mmul g5 g5) mid4.
Definition identity_ok : bool := meqb idm mid4.

Definition sigma (a b : mat) : mat := mscale half (comm a b).

(* the 16 named Grid structures and what each is stated to be *)
Definition spec_grid : list (string * mat) :=
  [ ("Identity", mid4); ("Gamma5", g5);
    ("GammaX", gx); ("GammaY", gy); ("GammaZ", gz); ("GammaT", gt);
    ("GammaXGamma5", mmul gx g5); ("GammaYGamma5", mmul gy g5);
    ("GammaZGamma5", mmul gz g5); ("GammaTGamma5", mmul gt g5);
    ("SigmaXT", sigma gx gt); ("SigmaXY", sigma gx gy); ("SigmaXZ", sigma gx gz);
    ("SigmaYT", sigma gy gt); ("SigmaYZ", sigma gy gz); ("SigmaZT", sigma gz gt) ]%string.

Definition spec_tags : list string := map fst spec_grid.

Variable grid : string -> option mat.
Definition grid_ok : bool :=
  forallb (fun p => match grid (fst p) with Some g => meqb g (snd p) | None => false end) spec_grid.

(* for mu <> nu the commutator is twice the product, so sigma_mu_nu = gamma_mu gamma_nu: an
   independent cross-check of the table *)
Definition sigma_is_product_ok : bool :=
  forallb (fun p => match grid (fst p) with Some g => meqb g (snd p) | None => false end)
   [ ("SigmaXT", mmul gx gt); ("SigmaXY", mmul gx gy); ("SigmaXZ", mmul gx gz);
     ("SigmaYT", mmul gy gt); ("SigmaYZ", mmul gy gz); ("SigmaZT", mmul gz gt) ]%string.
End Spec.
