(* Specification side of the epsilon tensors: the sign of an index tuple, defined by
   counting inversions (independent of the closed-form product used by the code), the
   accepted domains, and generic lemmas that lift a finite sweep over a regenerated
   domain test to a statement for ALL integers. *)
From Coq Require Import ZArith QArith List Bool Lia.
From PV Require Import Base.QAux.
Import ListNotations.

Open Scope Z_scope.

(* membership and subset tests exactly as the code states them: set((i,j,k)) <= set(allowed) *)
Definition memZ (x : Z) (l : list Z) : bool := existsb (Z.eqb x) l.
Definition subsetZ (l allowed : list Z) : bool := forallb (fun x => memZ x allowed) l.

Lemma memZ_In x l : memZ x l = true <-> In x l.
Proof.
  unfold memZ. rewrite existsb_exists. split.
  - intros [y [Hy He]]. apply Z.eqb_eq in He. subst. exact Hy.
  - intro H. exists x. split; [exact H | apply Z.eqb_refl].
Qed.

Lemma subsetZ_In l a : subsetZ l a = true -> forall x, In x l -> In x a.
Proof.
  unfold subsetZ. rewrite forallb_forall. intros H x Hx. apply memZ_In. apply H. exact Hx.
Qed.

(* number of inversions and duplicates of a tuple *)
Fixpoint count_gt (x : Z) (l : list Z) : Z :=
  match l with [] => 0 | y :: r => (if y <? x then 1 else 0) + count_gt x r end.
Fixpoint inversions (l : list Z) : Z :=
  match l with [] => 0 | x :: r => count_gt x r + inversions r end.
Fixpoint has_dup (l : list Z) : bool :=
  match l with [] => false | x :: r => memZ x r || has_dup r end.

(* sign of the tuple as a permutation of its (sorted) entries; 0 if an index repeats *)
Definition perm_sign (l : list Z) : Z :=
  if has_dup l then 0 else if Z.even (inversions l) then 1 else -1.

(* the accepted index sets of the property: {1,2,3} or {0,1,2}; {1,2,3,4} or {0,1,2,3} *)
Definition spec_dom3 (i j k : Z) : bool :=
  subsetZ [i;j;k] [1;2;3] || subsetZ [i;j;k] [0;1;2].
Definition spec_dom4 (i j k o : Z) : bool :=
  subsetZ [i;j;k;o] [1;2;3;4] || subsetZ [i;j;k;o] [0;1;2;3].

Definition spec_eps3 (i j k : Z) : option Q :=
  if spec_dom3 i j k then Some (inject_Z (perm_sign [i;j;k])) else None.
Definition spec_eps4 (i j k o : Z) : option Q :=
  if spec_dom4 i j k o then Some (inject_Z (perm_sign [i;j;k;o])) else None.

Definition optQ_eqb (a b : option Q) : bool :=
  match a, b with
  | Some x, Some y => Qeqb x y
  | None, None => true
  | _, _ => false
  end.

(* all tuples over a finite universe *)
Definition tuples3 (u : list Z) : list (Z*Z*Z) :=
  flat_map (fun i => flat_map (fun j => map (fun k => (i,j,k)) u) u) u.
Definition tuples4 (u : list Z) : list (Z*Z*Z*Z) :=
  flat_map (fun i => flat_map (fun j => flat_map (fun k => map (fun o => (i,j,k,o)) u) u) u) u.

Lemma tuples3_In u i j k : In i u -> In j u -> In k u -> In (i,j,k) (tuples3 u).
Proof.
  intros Hi Hj Hk. unfold tuples3.
  apply in_flat_map. exists i. split; [exact Hi|].
  apply in_flat_map. exists j. split; [exact Hj|].
  apply in_map. exact Hk.
Qed.
Lemma tuples4_In u i j k o : In i u -> In j u -> In k u -> In o u -> In (i,j,k,o) (tuples4 u).
Proof.
  intros Hi Hj Hk Ho. unfold tuples4.
  apply in_flat_map. exists i. split; [exact Hi|].
  apply in_flat_map. exists j. split; [exact Hj|].
  apply in_flat_map. exists k. split; [exact Hk|].
  apply in_map. exact Ho.
Qed.

(* Lifting lemma, rank 3.  [f] is the regenerated model (domain test + closed form), given as
   [f i j k = if dom i j k then Some (form i j k) else None] where [dom] is a disjunction of
   subset tests against constant lists whose union is [u].  If the finite sweep over u^3
   agrees with the spec and both domain tests imply membership in u, they agree on all of Z^3. *)
Lemma lift3 (f g : Z -> Z -> Z -> option Q) (u : list Z) :
  (forall i j k, f i j k <> None -> In i u /\ In j u /\ In k u) ->
  (forall i j k, g i j k <> None -> In i u /\ In j u /\ In k u) ->
  forallb (fun t => match t with (i,j,k) => optQ_eqb (f i j k) (g i j k) end) (tuples3 u) = true ->
  forall i j k, optQ_eqb (f i j k) (g i j k) = true.
Proof.
  intros Hf Hg Hall i j k.
  destruct (f i j k) eqn:Ef.
  - destruct (Hf i j k) as [Hi [Hj Hk]]; [congruence|].
    rewrite forallb_forall in Hall. specialize (Hall (i,j,k) (tuples3_In u i j k Hi Hj Hk)).
    simpl in Hall. rewrite Ef in Hall. exact Hall.
  - destruct (g i j k) eqn:Eg; [|reflexivity].
    destruct (Hg i j k) as [Hi [Hj Hk]]; [congruence|].
    rewrite forallb_forall in Hall. specialize (Hall (i,j,k) (tuples3_In u i j k Hi Hj Hk)).
    simpl in Hall. rewrite Ef, Eg in Hall. exact Hall.
Qed.

Lemma lift4 (f g : Z -> Z -> Z -> Z -> option Q) (u : list Z) :
  (forall i j k o, f i j k o <> None -> In i u /\ In j u /\ In k u /\ In o u) ->
  (forall i j k o, g i j k o <> None -> In i u /\ In j u /\ In k u /\ In o u) ->
  forallb (fun t => match t with (i,j,k,o) => optQ_eqb (f i j k o) (g i j k o) end) (tuples4 u) = true ->
  forall i j k o, optQ_eqb (f i j k o) (g i j k o) = true.
Proof.
  intros Hf Hg Hall i j k o.
  destruct (f i j k o) eqn:Ef.
  - destruct (Hf i j k o) as [Hi [Hj [Hk Ho]]]; [congruence|].
    rewrite forallb_forall in Hall. specialize (Hall (i,j,k,o) (tuples4_In u i j k o Hi Hj Hk Ho)).
    simpl in Hall. rewrite Ef in Hall. exact Hall.
  - destruct (g i j k o) eqn:Eg; [|reflexivity].
    destruct (Hg i j k o) as [Hi [Hj [Hk Ho]]]; [congruence|].
    rewrite forallb_forall in Hall. specialize (Hall (i,j,k,o) (tuples4_In u i j k o Hi Hj Hk Ho)).
    simpl in Hall. rewrite Ef, Eg in Hall. exact Hall.
Qed.

(* domain tests built from subset tests imply membership in the union of the allowed lists *)
Lemma dom_or_subset_In (l a b : list Z) :
  subsetZ l a || subsetZ l b = true -> forall x, In x l -> In x (a ++ b).
Proof.
  intros H x Hx. apply orb_true_iff in H. apply in_or_app.
  destruct H as [H|H]; [left|right]; eapply subsetZ_In; eauto.
Qed.

Lemma spec_eps3_dom i j k : spec_eps3 i j k <> None ->
  In i [0;1;2;3] /\ In j [0;1;2;3] /\ In k [0;1;2;3].
Proof.
  unfold spec_eps3. destruct (spec_dom3 i j k) eqn:E; [|congruence]. intros _.
  unfold spec_dom3 in E.
  pose proof (dom_or_subset_In _ _ _ E) as H.
  assert (forall x, In x [i;j;k] -> In x [0;1;2;3]) as H'.
  { intros x Hx. specialize (H x Hx). simpl in H. simpl. intuition. }
  repeat split; apply H'; simpl; auto.
Qed.

Lemma spec_eps4_dom i j k o : spec_eps4 i j k o <> None ->
  In i [0;1;2;3;4] /\ In j [0;1;2;3;4] /\ In k [0;1;2;3;4] /\ In o [0;1;2;3;4].
Proof.
  unfold spec_eps4. destruct (spec_dom4 i j k o) eqn:E; [|congruence]. intros _.
  unfold spec_dom4 in E.
  pose proof (dom_or_subset_In _ _ _ E) as H.
  assert (forall x, In x [i;j;k;o] -> In x [0;1;2;3;4]) as H'.
  { intros x Hx. specialize (H x Hx). simpl in H. simpl. intuition. }
  repeat split; apply H'; simpl; auto.
Qed.
