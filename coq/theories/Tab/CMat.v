(* Matrices over the Gaussian rationals Q[i], as lists of rows: the carrier of the
   regenerated Dirac tables (gen/DiracGen.v).  Everything is executable; equality is the
   boolean [meqb] (Q's setoid equality entrywise). *)
From Coq Require Import ZArith QArith List Bool.
From PV Require Import Base.QAux.
Import ListNotations.
Open Scope Q_scope.

Definition C := (Q * Q)%type.
Definition c0 : C := (0, 0).
Definition c1 : C := (1, 0).
Definition ci : C := (0, 1).
Definition cre (q : Q) : C := (q, 0).
Definition cim (q : Q) : C := (0, q).          (* q * 1j *)
Definition cadd (a b : C) : C := (fst a + fst b, snd a + snd b).
Definition cneg (a : C) : C := (- fst a, - snd a).
Definition csub (a b : C) : C := cadd a (cneg b).
Definition cmul (a b : C) : C := (fst a * fst b - snd a * snd b, fst a * snd b + snd a * fst b).
Definition cconj (a : C) : C := (fst a, - snd a).
Definition ceqb (a b : C) : bool := Qeqb (fst a) (fst b) && Qeqb (snd a) (snd b).

Definition mat := list (list C).

Fixpoint csum (l : list C) : C := match l with [] => c0 | x :: r => cadd x (csum r) end.
Definition dot (r c : list C) : C := csum (map (fun p => cmul (fst p) (snd p)) (combine r c)).

Fixpoint transpose_aux (n : nat) (m : mat) : mat :=
  match n with
  | O => []
  | S k => map (fun r => hd c0 r) m :: transpose_aux k (map (fun r => tl r) m)
  end.
Definition ncols (m : mat) : nat := match m with [] => O | r :: _ => length r end.
Definition transpose (m : mat) : mat := transpose_aux (ncols m) m.

Definition mmul (a b : mat) : mat :=
  let bt := transpose b in map (fun r => map (fun c => dot r c) bt) a.
Definition madd (a b : mat) : mat := map (fun p => map (fun q => cadd (fst q) (snd q)) (combine (fst p) (snd p))) (combine a b).
Definition mscale (s : C) (a : mat) : mat := map (map (cmul s)) a.
Definition mneg (a : mat) : mat := mscale (cre (-1)) a.
Definition msub (a b : mat) : mat := madd a (mneg b).
Definition mdagger (a : mat) : mat := map (map cconj) (transpose a).
Definition meqb (a b : mat) : bool := all2 (all2 ceqb) a b.
Definition shape_ok (n : nat) (a : mat) : bool :=
  Nat.eqb (length a) n && forallb (fun r => Nat.eqb (length r) n) a.

Definition mid4 : mat :=
  [[c1;c0;c0;c0];[c0;c1;c0;c0];[c0;c0;c1;c0];[c0;c0;c0;c1]].
Definition mzero4 : mat :=
  [[c0;c0;c0;c0];[c0;c0;c0;c0];[c0;c0;c0;c0];[c0;c0;c0;c0]].
Definition anticomm (a b : mat) : mat := madd (mmul a b) (mmul b a).
Definition comm (a b : mat) : mat := msub (mmul a b) (mmul b a).
Definition half : C := cre (1 # 2).
Definition two : C := cre 2.
