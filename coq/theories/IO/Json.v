(* The pyerrors JSON format (pyerrors/input/json.py): an abstract JSON tree, the writer and the reader of one
   'obsdata' entry (types Obs / List / Array / Corr share this layout), and the round-trip theorems. *)
From Coq Require Import ZArith QArith Qabs Qround List Bool String Ascii Lia Lqa Decimal DecimalString.
From PV Require Import Base.QAux Obs.Model.
Import ListNotations.
Open Scope Q_scope.

Inductive json :=
| JNull | JNaN | JBool (b : bool) | JNum (q : Q) | JStr (s : string) | JArr (l : list json) | JObj (l : list (string * json)).

(* ------------------------------------------------------------------ writer *)
(* an entry of a structure: an observable, or the NaN placeholder written for an undefined timeslice of a Corr
   (same chains and covariance inputs as the template, every number NaN) *)
Definition entry := option obs.
Definition e_tmpl (es : list entry) : obs :=
  match flat_map (fun e => match e with Some o => [o] | None => [] end) es with o :: _ => o | [] => mkObs 0 [] [] false end.
Definition jnum_opt (x : option Q) : json := match x with Some q => JNum q | None => JNaN end.
Definition e_value (e : entry) : option Q := option_map o_value e.

(* written sample of entry e on position k of replica r:  delta + (r_mean - value) *)
Definition written (e : entry) (rname : string) (k : nat) : option Q :=
  match e with
  | None => None
  | Some o => match find_rep o rname with
              | Some r => Some (Qred (nth k (r_deltas r) 0 + (r_mean r - o_value o)))
              | None => None end
  end.

Definition enc_replica (es : list entry) (r : rep) : json :=
  JObj [("name"%string, JStr (r_name r));
        ("deltas"%string, JArr (map (fun kc => JArr (JNum (inject_Z (snd kc)) :: map (fun e => jnum_opt (written e (r_name r) (fst kc))) es))
                                    (combine (seq 0 (List.length (cfgs (r_idl r)))) (cfgs (r_idl r)))))].
Definition enc_data (es : list entry) : list json :=
  let t := e_tmpl es in
  map (fun ens => JObj [("id"%string, JStr ens);
                        ("replica"%string, JArr (map (enc_replica es) (filter (fun r => String.eqb (ens_of (r_name r)) ens) (o_reps t))))])
      (mc_names t).
Definition grad_of (e : entry) (cname : string) (i : nat) : option Q :=
  match e with Some o => match find_cov o cname with Some c => Some (nth i (c_grad c) 0) | None => None end | None => None end.
Definition shape_string (dims : list nat) : string :=
  let fix go (l : list nat) : string :=
    match l with
    | [] => ""%string
    | [n] => NilZero.string_of_uint (Nat.to_uint n)
    | n :: r => (NilZero.string_of_uint (Nat.to_uint n) ++ ", " ++ go r)%string
    end in go dims.
Definition enc_cdata (es : list entry) : list json :=
  let t := e_tmpl es in
  map (fun c => let n := List.length (c_cov c) in
                JObj [("id"%string, JStr (c_name c));
                      ("layout"%string, JStr (shape_string [n; n]));
                      ("cov"%string, JArr (map JNum (List.concat (c_cov c))));
                      ("grad"%string, JArr (map (fun i => JArr (map (fun e => jnum_opt (match e with
                                                                          | None => grad_of (Some t) (c_name c) i   (* the placeholder keeps the template's covobs *)
                                                                          | _ => grad_of e (c_name c) i end)) es)) (seq 0 n)))])
      (o_covs t).

(* one obsdata entry; [tag] is the already-built JSON value of the tag field (None = not written) *)
Definition enc_struct (typ layout : string) (tag : option json) (es : list entry) : json :=
  JObj ([("type"%string, JStr typ); ("layout"%string, JStr layout)]
        ++ (match tag with Some t => [("tag"%string, t)] | None => [] end)
        ++ (if o_rw (e_tmpl es) then [("reweighted"%string, JBool true)] else [])
        ++ [("value"%string, JArr (map (fun e => jnum_opt (e_value e)) es))]
        ++ (match enc_data es with [] => [] | d => [("data"%string, JArr d)] end)
        ++ (match enc_cdata es with [] => [] | d => [("cdata"%string, JArr d)] end)).

(* ------------------------------------------------------------------ reader *)
Definition jget (k : string) (j : json) : option json :=
  match j with JObj l => match find (fun p => String.eqb (fst p) k) l with Some p => Some (snd p) | None => None end | _ => None end.
Definition jarr (j : option json) : list json := match j with Some (JArr l) => l | _ => [] end.
Definition jstr (j : option json) : string := match j with Some (JStr s) => s | _ => ""%string end.
Definition jq (j : json) : option Q := match j with JNum q => Some q | _ => None end.

(* the reader re-inserts '|' after the ensemble id when the replica name continues without it *)
Definition fix_rep_name (ens name : string) : string :=
  let n := String.length ens in
  if Nat.ltb n (String.length name) then
    match String.get n name with
    | Some c => if Ascii.eqb c bar then name else (substring 0 n name ++ "|" ++ substring n (String.length name - n) name)%string
    | None => name end
  else name.

Definition col (rows : list json) (i : nat) : list (option Q) :=
  map (fun row => match row with JArr l => match nth_error l (S i) with Some x => jq x | None => None end | _ => None end) rows.
Definition cfg_col (rows : list json) : list Z :=
  map (fun row => match row with JArr (JNum q :: _) => Qfloor q | _ => 0%Z end) rows.
Fixpoint all_some {A} (l : list (option A)) : option (list A) :=
  match l with [] => Some [] | None :: _ => None | Some x :: r => option_map (cons x) (all_some r) end.

(* Obs(column - r_offset, names, idl, means = r_offset + value) with r_offset = average(column);  idl lists are
   normalised by the constructor (range iff equally spaced) *)
Definition dec_entry (j : json) (i : nat) : entry :=
  match nth_error (jarr (jget "value" j)) i with
  | Some (JNum v) =>
      let reps := flat_map (fun ens => map (fun rp =>
                      let rows := jarr (jget "deltas" rp) in
                      let name := fix_rep_name (jstr (jget "id" ens)) (jstr (jget "name" rp)) in
                      match all_some (col rows i) with
                      | Some c => let off := Qred (Qsum c / QlenL c) in
                                  mkRep name (norm_idl (mkIdl false (cfg_col rows))) (map (fun x => Qred (x - off)) c) (Qred (off + v))
                      | None => mkRep name (mkIdl false []) [] 0 end) (jarr (jget "replica" ens))) (jarr (jget "data" j)) in
      let covs := map (fun cd =>
                      let flat := flat_map (fun x => match jq x with Some q => [q] | None => [] end) (jarr (jget "cov" cd)) in
                      let n := List.length (jarr (jget "grad" cd)) in
                      mkCov (jstr (jget "id" cd))
                            (map (fun r => firstn n (skipn (r * n) flat)) (seq 0 n))
                            (map (fun g => match nth_error (jarr (Some g)) i with Some (JNum q) => q | _ => 0 end) (jarr (jget "grad" cd))))
                     (jarr (jget "cdata" j)) in
      Some (mkObs v reps covs (match jget "reweighted" j with Some (JBool b) => b | _ => false end))
  | _ => None
  end.
Definition dec_struct (j : json) : list entry := map (dec_entry j) (seq 0 (List.length (jarr (jget "value" j)))).

(* ------------------------------------------------------------------ THEOREMS *)
(* the core of the format: replica means travel as an offset on the fluctuations and are recovered by averaging *)
Definition enc_col (value : Q) (r : rep) : list Q := map (fun d => d + (r_mean r - value)) (r_deltas r).
Definition dec_col (value : Q) (c : list Q) : list Q * Q := let off := Qsum c / QlenL c in (map (fun x => x - off) c, off + value).

Lemma Qsum_enc_col value r : Qsum (enc_col value r) == Qsum (r_deltas r) + (r_mean r - value) * QlenL (r_deltas r).
Proof.
  unfold enc_col. rewrite (Qsum_map_affine 1 (r_mean r - value)) by (intro x; ring). ring.
Qed.

Theorem replica_roundtrip value r :
  r_deltas r <> [] -> Qsum (r_deltas r) == 0 ->
  snd (dec_col value (enc_col value r)) == r_mean r /\
  forall k, (k < List.length (r_deltas r))%nat -> nth k (fst (dec_col value (enc_col value r))) 0 == nth k (r_deltas r) 0.
Proof.
  intros Hne Hz. unfold dec_col. cbn [fst snd].
  assert (HL : 0 < QlenL (r_deltas r)).
  { destruct (r_deltas r); [congruence|]. unfold QlenL. cbn [List.length]. unfold Qlt. simpl. lia. }
  assert (EL : QlenL (enc_col value r) = QlenL (r_deltas r)) by (unfold enc_col, QlenL; rewrite map_length; reflexivity).
  assert (Eoff : Qsum (enc_col value r) / QlenL (enc_col value r) == r_mean r - value).
  { rewrite Qsum_enc_col, EL, Hz. field. lra. }
  split; [rewrite Eoff; ring|].
  intros k Hk. set (off := Qsum (enc_col value r) / QlenL (enc_col value r)) in *.
  unfold enc_col. rewrite map_map.
  rewrite (nth_indep _ 0 ((fun d => d + (r_mean r - value) - off) 0)) by (rewrite map_length; exact Hk).
  rewrite (map_nth (fun d => d + (r_mean r - value) - off)). rewrite Eoff. ring.
Qed.

(* without the zero-sum assumption the per-configuration SAMPLES (fluctuation + replica mean) are still reproduced *)
Theorem sample_roundtrip value r k :
  r_deltas r <> [] -> (k < List.length (r_deltas r))%nat ->
  nth k (fst (dec_col value (enc_col value r))) 0 + snd (dec_col value (enc_col value r)) == nth k (r_deltas r) 0 + r_mean r.
Proof.
  intros Hne Hk. unfold dec_col. cbn [fst snd].
  set (off := Qsum (enc_col value r) / QlenL (enc_col value r)).
  unfold enc_col. rewrite map_map.
  rewrite (nth_indep _ 0 ((fun d => d + (r_mean r - value) - off) 0)) by (rewrite map_length; exact Hk).
  rewrite (map_nth (fun d => d + (r_mean r - value) - off)). ring.
Qed.

(* configuration lists come back in the same form: the reader's constructor turns a list into a range exactly when it
   is equally spaced, which is the invariant of every well-formed observable *)
Theorem idl_form_roundtrip i :
  Bool.eqb (isr i) (uniform (cfgs i)) = true -> norm_idl (mkIdl false (cfgs i)) = i.
Proof.
  intro H. apply Bool.eqb_prop in H. unfold norm_idl. cbn [isr cfgs]. destruct i as [b l]. cbn [isr cfgs] in *.
  rewrite <- H. destruct b; reflexivity.
Qed.

(* replica names: 'ens|rep' and 'ens' survive the separator re-insertion *)
Lemma get_append_bar ens rest : String.get (String.length ens) (ens ++ String bar rest) = Some bar.
Proof. induction ens as [|c ens IH]; [reflexivity | exact IH]. Qed.
Lemma length_append a b : String.length (a ++ b) = (String.length a + String.length b)%nat.
Proof. induction a as [|c a IH]; [reflexivity | cbn; rewrite IH; reflexivity]. Qed.
Theorem replica_name_roundtrip ens rest :
  fix_rep_name ens (ens ++ String bar rest) = (ens ++ String bar rest)%string /\ fix_rep_name ens ens = ens.
Proof.
  split; unfold fix_rep_name.
  - rewrite length_append. cbn [String.length]. destruct (Nat.ltb_spec (String.length ens) (String.length ens + S (String.length rest))); [|lia].
    rewrite get_append_bar. rewrite Ascii.eqb_refl. reflexivity.
  - rewrite Nat.ltb_irrefl. reflexivity.
Qed.

(* ------------------------------------------------------------------ a draft-07 subset validator (schema regenerated by T-schema) *)
Inductive schema :=
| SAny
| SType (tys : list string) (props : list (string * schema)) (required : list string) (items : option schema) (tuple : list schema)
| SRef (name : string).
Definition jtype (j : json) : list string :=
  match j with
  | JNull => ["null"] | JNaN => ["number"] | JBool _ => ["boolean"] | JStr _ => ["string"] | JArr _ => ["array"] | JObj _ => ["object"]
  | JNum q => if Qeqb (inject_Z (Qfloor q)) q then ["integer"; "number"] else ["number"]
  end%string.
Fixpoint validate (fuel : nat) (defs : list (string * schema)) (s : schema) (j : json) {struct fuel} : bool :=
  match fuel with
  | O => false
  | S f =>
      match s with
      | SAny => true
      | SRef n => match find (fun p => String.eqb (fst p) n) defs with Some p => validate f defs (snd p) j | None => false end
      | SType tys props required items tuple =>
          (match tys with [] => true | _ => existsb (fun t => smem t tys) (jtype j) end)
          && match j with
             | JObj l => forallb (fun k => existsb (fun p => String.eqb (fst p) k) l) required
                         && forallb (fun p => match find (fun q => String.eqb (fst q) (fst p)) props with
                                              | Some q => validate f defs (snd q) (snd p) | None => true end) l
             | JArr l => match items with Some it => forallb (validate f defs it) l | None => true end
                         && forallb (fun p => validate f defs (fst p) (snd p)) (combine tuple l)
             | _ => true
             end
      end
  end.

(* ------------------------------------------------------------------ correspondence verdicts *)
Fixpoint json_close (fuel : nat) (rt at_ : Q) (a b : json) {struct fuel} : bool :=
  match fuel with
  | O => false
  | S f =>
      match a, b with
      | JNull, JNull => true
      | JNaN, JNaN => true
      | JBool x, JBool y => Bool.eqb x y
      | JNum x, JNum y => closeb rt at_ x y
      | JStr x, JStr y => String.eqb x y
      | JArr x, JArr y => all2 (json_close f rt at_) x y
      | JObj x, JObj y =>      (* member order is not significant *)
          Nat.eqb (List.length x) (List.length y)
          && forallb (fun p => match find (fun q => String.eqb (fst q) (fst p)) y with
                               | Some q => json_close f rt at_ (snd p) (snd q) | None => false end) x
      | _, _ => false
      end
  end.
Definition entry_agree (rt at_ : Q) (a b : entry) : bool :=
  match a, b with None, None => true | Some x, Some y => obs_agree rt at_ x y | _, _ => false end.

Record jcase := mkJCase {
  jc_typ : string; jc_layout : string; jc_tag : option json; jc_entries : list entry;    (* what was written *)
  jc_emitted : json;                                                                      (* the obsdata entry in the emitted text *)
  jc_imported : list entry;                                                               (* what import_json_string returned *)
  jc_rt : Q; jc_at : Q }.
Definition jcase_model_ok (c : jcase) : bool :=
  json_close 12 (jc_rt c) (jc_at c) (enc_struct (jc_typ c) (jc_layout c) (jc_tag c) (jc_entries c)) (jc_emitted c)
  && all2 (entry_agree (jc_rt c) (jc_at c)) (dec_struct (jc_emitted c)) (jc_imported c).
(* SPEC: reading back reproduces every central value, chain name, configuration list (same form), fluctuation, replica mean,
   covariance input with its gradient and the reweighting flag *)
Definition jcase_spec_ok (c : jcase) : bool := all2 (entry_agree (jc_rt c) (jc_at c)) (jc_entries c) (jc_imported c).
