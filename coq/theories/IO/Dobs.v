(* The Zeuthen dobs table format (pyerrors/input/dobs.py create_dobs_string / import_dobs_string): per replica one table
   on the UNION of the configurations of all observables; an observable not measured on a configuration gets the literal 0,
   which the reader takes as "not measured".  Model of writer and reader at the level of columns, and the round-trip
   theorem with its exact side condition (no stored number is 0). *)
From Coq Require Import ZArith QArith Qabs List Bool String Lia Lqa Sorted.
From PV Require Import Base.QAux Obs.Model Obs.DerivedThm.
Import ListNotations.
Open Scope Q_scope.

(* ------------------------------------------------------------------ writer: one column of one replica table *)
(* the code walks the union with a per-observable counter into the observable's own (sorted) configuration list *)
Fixpoint enc_walk (union : list Z) (idx : list Z) (deltas : list Q) (off : Q) : list Q :=
  match union with
  | [] => []
  | ci :: u =>
      match idx, deltas with
      | c :: idx', d :: deltas' =>
          if Z.eqb c ci then Qred (d + off) :: enc_walk u idx' deltas' off
          else 0 :: enc_walk u idx deltas off
      | _, _ => 0 :: enc_walk u idx deltas off          (* counter = -1: exhausted *)
      end
  end.
(* SPEC of the same column: the stored number of configuration c, or the marker 0 *)
Definition enc_lookup (union : list Z) (idx : list Z) (deltas : list Q) (off : Q) : list Q :=
  map (fun c => match lookup idx deltas c with Some d => Qred (d + off) | None => 0 end) union.

(* ------------------------------------------------------------------ reader: one column back to (configurations, samples) *)
(* repaired reader (fix commit): an entry is "measured" iff the STORED number is not the marker 0 *)
Definition dec_col (union : list Z) (col : list Q) (mean : Q) : list Z * list Q :=
  let kept := filter (fun p => negb (Qeqb (snd p) 0)) (combine union col) in
  (map fst kept, map (fun p => Qred (snd p + mean)) kept).
(* the reader before the repair: the zero test was applied AFTER the central value had been added back, which also drops
   configurations whose sample is exactly 0 *)
Definition dec_col_old (union : list Z) (col : list Q) (mean : Q) : list Z * list Q :=
  let shifted := map (fun p => (fst p, if Qeqb (snd p) 0 then 0 else Qred (snd p + mean))) (combine union col) in
  let kept := filter (fun p => negb (Qeqb (snd p) 0)) shifted in
  (map fst kept, map snd kept).

(* ------------------------------------------------------------------ THEOREMS *)
Lemma enc_walk_is_lookup : forall union idx deltas off,
  incr union -> incr idx -> List.length idx = List.length deltas -> (forall x, In x idx -> In x union) ->
  enc_walk union idx deltas off = enc_lookup union idx deltas off.
Proof.
  induction union as [|ci u IH]; intros idx deltas off Hu Hi Hl Hsub; [reflexivity|].
  inversion Hu as [|? ? Hu' Hgt]; subst. cbn [enc_walk enc_lookup map].
  destruct idx as [|c idx'].
  - destruct deltas; [|discriminate]. cbn [lookup]. f_equal. apply (IH [] [] off); auto. intros x [].
  - destruct deltas as [|d deltas']; [discriminate|]. simpl in Hl. injection Hl as Hl.
    inversion Hi as [|? ? Hi' Hgi]; subst. cbn [lookup].
    destruct (Z.eqb_spec c ci) as [->|Hne].
    + f_equal. rewrite (IH idx' deltas' off); auto.
      * unfold enc_lookup. apply map_ext_in. intros x Hx. cbn [lookup].
        rewrite Forall_forall in Hgt. specialize (Hgt x Hx). destruct (Z.eqb_spec ci x); [lia | reflexivity].
      * intros x Hx. rewrite Forall_forall in Hgi. specialize (Hgi x Hx).
        destruct (Hsub x (or_intror Hx)) as [E|E]; [lia | exact E].
    + (* c > ci: ci is not one of the observable's configurations *)
      assert (Hc : In c u).
      { destruct (Hsub c (or_introl eq_refl)) as [E|E]; [congruence | exact E]. }
      assert (Hlt : (ci < c)%Z) by (rewrite Forall_forall in Hgt; apply Hgt; exact Hc).
      assert (Hno : lookup idx' deltas' ci = None).
      { destruct (lookup idx' deltas' ci) eqn:L; [|reflexivity]. exfalso.
        assert (Hin : In ci idx').
        { clear - L. revert deltas' L. induction idx' as [|y l IH2]; intros [|e ds] L; simpl in *; try discriminate.
          destruct (Z.eqb_spec y ci) as [->|]; [left; reflexivity | right; eapply IH2; eauto]. }
        rewrite Forall_forall in Hgi. specialize (Hgi ci Hin). lia. }
      rewrite Hno. f_equal. rewrite (IH (c :: idx') (d :: deltas') off); auto.
      * simpl. lia.
      * intros x Hx. destruct (Hsub x Hx) as [E|E]; [|exact E]. subst x. exfalso.
        destruct Hx as [E|Hx]; [lia|]. rewrite Forall_forall in Hgi. specialize (Hgi ci Hx). lia.
Qed.

(* keeping the entries that are not the marker recovers exactly the observable's configurations and samples, provided no
   stored number  delta + (replica mean - value)  is 0 -- whatever the other observables of the file are defined on *)
Theorem dobs_column_roundtrip : forall union idx deltas off mean,
  incr union -> incr idx -> List.length idx = List.length deltas -> (forall x, In x idx -> In x union) ->
  Forall (fun d => ~ d + off == 0) deltas ->
  dec_col union (enc_walk union idx deltas off) mean = (idx, map (fun d => Qred (Qred (d + off) + mean)) deltas).
Proof.
  intros union idx deltas off mean Hu Hi Hl Hsub Hnz. rewrite enc_walk_is_lookup by assumption.
  unfold dec_col, enc_lookup. revert idx deltas Hi Hl Hsub Hnz.
  induction union as [|ci u IH]; intros idx deltas Hi Hl Hsub Hnz.
  - destruct idx as [|c idx']; [destruct deltas; [reflexivity | discriminate]|]. exfalso. apply (Hsub c). left. reflexivity.
  - inversion Hu as [|? ? Hu' Hgt]; subst. cbn [map combine filter fst snd].
    destruct idx as [|c idx'].
    + destruct deltas; [|discriminate]. cbn [lookup]. change (Qeqb 0 0) with true. cbn [negb].
      specialize (IH Hu' [] [] (SSorted_nil _) eq_refl (fun x (H : In x []) => match H with end) (Forall_nil _)).
      cbn [lookup] in IH. exact IH.
    + destruct deltas as [|d deltas']; [discriminate|]. simpl in Hl. injection Hl as Hl.
      inversion Hi as [|? ? Hi' Hgi]; subst. inversion Hnz as [|? ? Hd Hnz']; subst. cbn [lookup].
      destruct (Z.eqb_spec c ci) as [->|Hne].
      * assert (E : Qeqb (Qred (d + off)) 0 = false).
        { destruct (Qeqb (Qred (d + off)) 0) eqn:E; [|reflexivity]. apply Qeqb_eq in E. rewrite Qred_correct in E. contradiction. }
        rewrite E. cbn [negb map fst snd].
        assert (Hsub' : forall x, In x idx' -> In x u).
        { intros x Hx. rewrite Forall_forall in Hgi. specialize (Hgi x Hx). destruct (Hsub x (or_intror Hx)) as [E2|E2]; [lia | exact E2]. }
        specialize (IH Hu' idx' deltas' Hi' Hl Hsub' Hnz').
        assert (Hext : map (fun c0 => match (if (ci =? c0)%Z then Some d else lookup idx' deltas' c0) with Some d0 => Qred (d0 + off) | None => 0 end) u
                       = map (fun c0 => match lookup idx' deltas' c0 with Some d0 => Qred (d0 + off) | None => 0 end) u).
        { apply map_ext_in. intros x Hx. rewrite Forall_forall in Hgt. specialize (Hgt x Hx). destruct (Z.eqb_spec ci x); [lia | reflexivity]. }
        rewrite Hext. injection IH as IH1 IH2. rewrite IH1, IH2. reflexivity.
      * assert (Hc : In c u) by (destruct (Hsub c (or_introl eq_refl)) as [E|E]; [congruence | exact E]).
        assert (Hlt : (ci < c)%Z) by (rewrite Forall_forall in Hgt; apply Hgt; exact Hc).
        assert (Hno : lookup idx' deltas' ci = None).
        { destruct (lookup idx' deltas' ci) eqn:L; [|reflexivity]. exfalso.
          assert (Hin : In ci idx').
          { clear - L. revert deltas' L. induction idx' as [|y l IH2]; intros [|e ds] L; simpl in *; try discriminate.
            destruct (Z.eqb_spec y ci) as [->|]; [left; reflexivity | right; eapply IH2; eauto]. }
          rewrite Forall_forall in Hgi. specialize (Hgi ci Hin). lia. }
        rewrite Hno. change (Qeqb 0 0) with true. cbn [negb].
        assert (Hsub' : forall x, In x (c :: idx') -> In x u).
        { intros x Hx. destruct (Hsub x Hx) as [E|E]; [|exact E]. subst x. exfalso.
          destruct Hx as [E|Hx]; [lia|]. rewrite Forall_forall in Hgi. specialize (Hgi ci Hx). lia. }
        specialize (IH Hu' (c :: idx') (d :: deltas') Hi (f_equal S Hl) Hsub' Hnz). cbn [lookup] in IH. exact IH.
Qed.

(* the two ways the marker collides with data.  (a) a sample equal to the central value is WRITTEN as the marker: *)
Theorem dobs_marker_collision_sample_equals_value :
  exists union idx deltas off mean, incr union /\ incr idx /\ (forall x, In x idx -> In x union) /\
  fst (dec_col union (enc_walk union idx deltas off) mean) <> idx.
Proof.
  exists [1; 2; 3]%Z, [1; 2; 3]%Z, [1; 0; -1], 0, 5. repeat split; try (repeat constructor; lia); try (intros x H; exact H).
  vm_compute. discriminate.
Qed.
(* (b) the reader before the repair additionally dropped every configuration whose SAMPLE is exactly 0: *)
Theorem old_reader_dropped_zero_samples :
  exists union col mean, fst (dec_col union col mean) = union /\ fst (dec_col_old union col mean) <> union.
Proof. exists [1; 2; 3]%Z, [-5; 1; 2], 5. split; [vm_compute; reflexivity | vm_compute; discriminate]. Qed.

(* ------------------------------------------------------------------ pobs: one common configuration list, no marker *)
Definition pobs_enc (deltas : list Q) (rmean : Q) : list Q := map (fun d => d + rmean) deltas.
Definition pobs_dec (col : list Q) : list Q * Q := let m := Qsum col / QlenL col in (map (fun x => x - m) col, m).
Theorem pobs_sample_roundtrip deltas rmean k :
  (k < List.length deltas)%nat ->
  nth k (fst (pobs_dec (pobs_enc deltas rmean))) 0 + snd (pobs_dec (pobs_enc deltas rmean)) == nth k deltas 0 + rmean.
Proof.
  intro Hk. unfold pobs_dec. cbn [fst snd]. set (m := Qsum (pobs_enc deltas rmean) / QlenL (pobs_enc deltas rmean)).
  unfold pobs_enc. rewrite map_map.
  rewrite (nth_indep _ 0 ((fun d => d + rmean - m) 0)) by (rewrite map_length; exact Hk).
  rewrite (map_nth (fun d => d + rmean - m)). ring.
Qed.

(* ------------------------------------------------------------------ correspondence verdicts *)
(* one (replica, observable) column of an emitted file: union, the observable's own cfgs/deltas/offset, the column as
   written (parsed from the XML), central value, and what the re-import holds for this replica (cfgs, samples) or nothing *)
Record dcol := mkDCol { dc_union : list Z; dc_idx : list Z; dc_deltas : list Q; dc_off : Q; dc_written : list Q; dc_mean : Q;
                        dc_back : option (list Z * list Q); dc_rt : Q; dc_at : Q }.
Definition dcol_model_ok (c : dcol) : bool :=
  close_list (dc_rt c) (dc_at c) (enc_walk (dc_union c) (dc_idx c) (dc_deltas c) (dc_off c)) (dc_written c)
  && (let r := dec_col (dc_union c) (dc_written c) (dc_mean c) in
      match dc_back c with
      | Some (cs, xs) => zlist_eqb (fst r) cs && close_list (dc_rt c) (dc_at c) (snd r) xs
      | None => match fst r with [] => true | _ => false end
      end).
(* SPEC: the re-import holds exactly the observable's configurations with its samples delta + off + value *)
Definition dcol_spec_ok (c : dcol) : bool :=
  match dc_back c with
  | Some (cs, xs) => zlist_eqb cs (dc_idx c) && close_list (dc_rt c) (dc_at c) xs (map (fun d => d + dc_off c + dc_mean c) (dc_deltas c))
  | None => match dc_idx c with [] => true | _ => false end
  end.
(* classification of a failing column: which collision is it *)
Definition has_sample_eq_value (c : dcol) : bool := existsb (fun d => Qeqb (d + dc_off c) 0) (dc_deltas c).
Definition has_zero_sample (c : dcol) : bool := existsb (fun d => Qeqb (d + dc_off c + dc_mean c) 0) (dc_deltas c).
