(* Bytes, little-endian 32-bit integers, IEEE binary64 payloads, and the generic fixed-size record reader shared by the
   openQCD measurement formats (pyerrors/input/openQCD.py): sequences of fp.read(n) calls of which only some are checked. *)
From Coq Require Import ZArith QArith List Bool Lia.
From PV Require Import Base.QAux.
Import ListNotations.
Open Scope Z_scope.

Definition byte := Z.       (* 0 .. 255 *)
Definition is_byte (b : Z) : Prop := 0 <= b < 256.

(* struct.unpack('<i', t) *)
Definition i32_of (b0 b1 b2 b3 : Z) : Z :=
  let u := b0 + 256 * b1 + 65536 * b2 + 16777216 * b3 in if u <? 2147483648 then u else u - 4294967296.
Definition i32_bytes (z : Z) : list Z :=
  let u := z mod 4294967296 in [u mod 256; (u / 256) mod 256; (u / 65536) mod 256; (u / 16777216) mod 256].
Definition i32_dec (l : list Z) : option Z := match l with [b0; b1; b2; b3] => Some (i32_of b0 b1 b2 b3) | _ => None end.

Theorem i32_roundtrip z : -2147483648 <= z < 2147483648 -> i32_dec (i32_bytes z) = Some z.
Proof.
  intro H. unfold i32_dec, i32_bytes, i32_of. f_equal.
  set (u := z mod 4294967296).
  assert (Hu : 0 <= u < 4294967296) by (apply Z.mod_pos_bound; lia).
  assert (E : u mod 256 + 256 * ((u / 256) mod 256) + 65536 * ((u / 65536) mod 256) + 16777216 * ((u / 16777216) mod 256) = u).
  { replace (u / 65536) with (u / 256 / 256) by (rewrite Z.div_div by lia; reflexivity).
    replace (u / 16777216) with (u / 256 / 256 / 256) by (rewrite !Z.div_div by lia; reflexivity).
    set (a := u / 256). set (b := a / 256). set (c := b / 256).
    assert (Ha : u = 256 * a + u mod 256) by (apply Z.div_mod; lia).
    assert (Hb : a = 256 * b + a mod 256) by (apply Z.div_mod; lia).
    assert (Hc : b = 256 * c + b mod 256) by (apply Z.div_mod; lia).
    pose proof (Z.mod_pos_bound u 256 ltac:(lia)). pose proof (Z.mod_pos_bound a 256 ltac:(lia)). pose proof (Z.mod_pos_bound b 256 ltac:(lia)).
    assert (0 <= c < 256) by lia.
    rewrite (Z.mod_small c 256) by lia. lia. }
  rewrite E. destruct (Z.ltb_spec u 2147483648) as [L|L].
  - unfold u in *. destruct (Z_lt_le_dec z 0) as [N|N].
    + rewrite <- (Z.mod_add z 1 4294967296) in L by lia. rewrite Z.mod_small in L by lia. lia.
    + apply Z.mod_small. lia.
  - unfold u in *. destruct (Z_lt_le_dec z 0) as [N|N].
    + rewrite <- (Z.mod_add z 1 4294967296) by lia. rewrite Z.mod_small by lia. lia.
    + rewrite Z.mod_small in L by lia. lia.
Qed.

(* IEEE 754 binary64, little endian: exact rational value of a finite number *)
Definition u64_of (l : list Z) : Z := fold_right (fun b acc => b + 256 * acc) 0 l.
Definition f64_dec (l : list Z) : option Q :=
  match l with
  | [_; _; _; _; _; _; _; _] =>
      let u := u64_of l in
      let sign := u / 2 ^ 63 in let e := (u / 2 ^ 52) mod 2048 in let m := u mod 2 ^ 52 in
      if e =? 2047 then None
      else let mag : Q := if e =? 0 then Qmake m (Z.to_pos (2 ^ 1074))
                          else if 1075 <=? e then inject_Z ((2 ^ 52 + m) * 2 ^ (e - 1075))
                          else Qmake (2 ^ 52 + m) (Z.to_pos (2 ^ (1075 - e))) in
           Some (Qred (if sign =? 1 then Qopp mag else mag))
  | _ => None
  end.
Fixpoint chunks8 (l : list Z) (fuel : nat) : list (list Z) :=
  match fuel with
  | O => []
  | S f => match l with [] => [] | _ => firstn 8 l :: chunks8 (skipn 8 l) f end
  end.
Definition f64s_dec (l : list Z) : list (option Q) := map f64_dec (chunks8 l (S (List.length l))).

(* ------------------------------------------------------------------ the generic record loop
   while True:
       t = fp.read(4); if len(t) < 4: break            # loop ends silently on a short header
       <reads of R - 4 further bytes in total; a short read goes unnoticed unless its result is unpacked or its length
        checked; theta = number of bytes (from the start of the record) that must be present for every CHECKED read to
        be complete>
   A record is accepted iff at least theta of its R bytes are present. *)
Lemma skipn_app_len {A} (r x : list A) n : List.length r = n -> skipn n (r ++ x) = x.
Proof. intros <-. induction r as [|a r IH]; [reflexivity | exact IH]. Qed.
Lemma firstn_app_len {A} (r x : list A) n : List.length r = n -> firstn n (r ++ x) = r.
Proof. intros <-. induction r as [|a r IH]; [reflexivity | cbn; rewrite IH; reflexivity]. Qed.

Section RecordLoop.
  Variable R theta : nat.
  Hypothesis theta_le : (theta <= R)%nat.
  Hypothesis four_le : (4 <= theta)%nat.

  Inductive outcome := Raises | Records (l : list (list Z)).     (* accepted records (their available bytes) *)

  Fixpoint parse (fuel : nat) (bytes : list Z) : outcome :=
    match fuel with
    | O => Records []
    | S f =>
        if Nat.ltb (List.length bytes) 4 then Records []
        else if Nat.ltb (List.length bytes) theta then Raises
        else match parse f (skipn R bytes) with
             | Raises => Raises
             | Records l => Records (firstn R bytes :: l)
             end
    end.

  Definition serialize (recs : list (list Z)) : list Z := concat recs.
  Definition well_sized (recs : list (list Z)) : Prop := Forall (fun r => List.length r = R) recs.

  Lemma serialize_length recs : well_sized recs -> List.length (serialize recs) = (List.length recs * R)%nat.
  Proof.
    induction 1 as [|r recs Hr _ IH]; [reflexivity|]. unfold serialize in *. cbn [concat List.length]. rewrite app_length, IH, Hr. lia.
  Qed.

  (* complete files are read back exactly *)
  Theorem parse_serialize recs fuel :
    well_sized recs -> (List.length recs < fuel)%nat -> parse fuel (serialize recs) = Records recs.
  Proof.
    intro Hw. revert fuel. induction Hw as [|r recs Hr Hw IH]; intros fuel Hf.
    - destruct fuel; [lia|]. reflexivity.
    - destruct fuel as [|f]; [simpl in Hf; lia|]. cbn [parse]. unfold serialize. cbn [concat].
      assert (L : List.length (r ++ concat recs) = (R + List.length (concat recs))%nat) by (rewrite app_length, Hr; reflexivity).
      rewrite L. destruct (Nat.ltb_spec (R + List.length (concat recs)) 4); [lia|].
      destruct (Nat.ltb_spec (R + List.length (concat recs)) theta); [lia|].
      rewrite (skipn_app_len r _ R Hr), (firstn_app_len r _ R Hr).
      fold (serialize recs). rewrite IH by (simpl in Hf; lia). reflexivity.
  Qed.

  (* a file cut at ANY byte: the reader raises, or returns the complete records before the cut, possibly followed by ONE
     record of which at least theta bytes are present *)
  Theorem truncation recs : forall k fuel,
    well_sized recs -> (List.length recs < fuel)%nat ->
    parse fuel (firstn k (serialize recs)) = Raises
    \/ (exists n, parse fuel (firstn k (serialize recs)) = Records (firstn n recs) /\ (n * R <= k)%nat /\ (n <= List.length recs)%nat)
    \/ (exists n last, parse fuel (firstn k (serialize recs)) = Records (firstn n recs ++ [last])
                      /\ (n * R + theta <= k)%nat /\ (k < (n + 1) * R)%nat /\ (n < List.length recs)%nat
                      /\ last = firstn (k - n * R) (nth n recs [])).
  Proof.
    intros k fuel Hw. revert k fuel. induction Hw as [|r recs Hr Hw IH]; intros k fuel Hf.
    - right. left. exists O. unfold serialize. cbn [concat]. rewrite firstn_nil. destruct fuel; [lia|]. cbn. split; [reflexivity | lia].
    - destruct fuel as [|f]; [simpl in Hf; lia|].
      unfold serialize. cbn [concat].
      destruct (Nat.le_gt_cases R k) as [Hk|Hk].
      + (* the first record is complete *)
        rewrite firstn_app, Hr. rewrite firstn_all2 by lia.
        cbn [parse].
        assert (L : List.length (r ++ firstn (k - R) (concat recs)) = (R + List.length (firstn (k - R) (concat recs)))%nat) by (rewrite app_length, Hr; reflexivity).
        rewrite L. destruct (Nat.ltb_spec (R + List.length (firstn (k - R) (concat recs))) 4); [lia|].
        destruct (Nat.ltb_spec (R + List.length (firstn (k - R) (concat recs))) theta); [lia|].
        rewrite (skipn_app_len r _ R Hr), (firstn_app_len r _ R Hr).
        fold (serialize recs). destruct (IH (k - R)%nat f ltac:(simpl in Hf; lia)) as [E|[[n [E [B1 B2]]]|[n [last [E [B1 [B2 [B3 B4]]]]]]]].
        * left. rewrite E. reflexivity.
        * right. left. exists (S n). rewrite E. cbn [firstn List.length]. split; [reflexivity | split; simpl; lia].
        * right. right. exists (S n), last. rewrite E. cbn [firstn app List.length nth]. split; [reflexivity|].
          split; [simpl; lia|]. split; [simpl; lia|]. split; [simpl; lia|]. rewrite B4. f_equal. simpl. lia.
      + (* the cut lies inside the first record *)
        rewrite firstn_app, Hr. replace (k - R)%nat with O by lia. cbn [firstn]. rewrite app_nil_r.
        assert (L : List.length (firstn k r) = k) by (rewrite firstn_length, Hr; lia).
        cbn [parse]. rewrite L.
        destruct (Nat.ltb_spec k 4) as [H4|H4].
        * right. left. exists O. cbn [firstn]. split; [reflexivity | lia].
        * destruct (Nat.ltb_spec k theta) as [Ht|Ht]; [left; reflexivity|].
          right. right. exists O, (firstn k r).
          rewrite skipn_all2 by lia. rewrite (firstn_all2 (firstn k r)) by lia.
          destruct f; cbn [parse List.length Nat.ltb Nat.leb firstn app nth]; (split; [reflexivity|]); (split; [simpl; lia|]);
            (split; [simpl; lia|]); (split; [simpl; lia|]); rewrite Nat.sub_0_r; reflexivity.
  Qed.
End RecordLoop.

(* when every read of the record is checked (theta = R) a truncated file never yields anything but complete records *)
Theorem fully_checked_reader_is_truncation_safe R recs k fuel :
  (4 <= R)%nat -> well_sized R recs -> (List.length recs < fuel)%nat ->
  parse R R fuel (firstn k (serialize recs)) = Raises
  \/ exists n, parse R R fuel (firstn k (serialize recs)) = Records (firstn n recs) /\ (n * R <= k)%nat /\ (n <= List.length recs)%nat.
Proof.
  intros H4 Hw Hf. destruct (truncation R R (le_n R) H4 recs k fuel Hw Hf) as [E|[E|[n [last [_ [B1 [B2 _]]]]]]]; [left; exact E | right; exact E | lia].
Qed.

(* and when the last read is unchecked (theta < R) a record with a missing tail IS accepted: the exact failure window *)
Theorem unchecked_tail_accepts_partial_record :
  exists R theta recs k, (theta < R)%nat /\ well_sized R recs /\
  parse R theta 5 (firstn k (serialize recs)) = Records [firstn k (nth 0 recs [])] /\ (k < R)%nat.
Proof.
  exists 8%nat, 6%nat, [[1;0;0;0;7;7;9;9]], 7%nat. split; [lia|]. split; [repeat constructor|]. split; [vm_compute; reflexivity | lia].
Qed.
