(* openQCD measurement files (pyerrors/input/openQCD.py): ms.dat (gradient flow), rwms (1.4 / 1.6), ms5_xsf, decoded from
   their bytes with the generic record loop of IO/Bytes.v; the post-processing of configuration numbers and the
   r_start / r_stop / r_step selection; replica-name ordering. *)
From Coq Require Import ZArith QArith Qabs List Bool String Ascii Lia.
From PV Require Import Base.QAux Obs.Model IO.Bytes.
Import ListNotations.
Open Scope Z_scope.

(* ------------------------------------------------------------------ configuration numbers and selection *)
(* configlist -> // diffmeas, thermalisation offset; None = the reader raises *)
Definition postprocess (cfgs : list Z) (offset_needs_diff_gt1 : bool) : option (list Z) :=
  match rev cfgs with
  | last :: prev :: _ =>
      let d := last - prev in
      if d =? 0 then None
      else let c1 := map (fun c => c / d) cfgs in
           let c2 := if (1 <? zhd c1) && (negb offset_needs_diff_gt1 || (1 <? d)) then map (fun c => c - (zhd c1 - 1)) c1 else c1 in
           Some c2
  | _ => None
  end.

Fixpoint index_of (x : Z) (l : list Z) (i : nat) : option nat :=
  match l with [] => None | y :: r => if Z.eqb x y then Some i else index_of x r (S i) end.

Fixpoint every_nth {A} (step : nat) (l : list A) (fuel : nat) : list A :=      (* l[::step] *)
  match fuel with
  | O => []
  | S f => match l with [] => [] | x :: _ => x :: every_nth step (skipn step l) f end
  end.

(* r_start / r_stop (None = first / last), r_step -> (idl range, selected samples); None = raises *)
Definition select {A} (cfgs : list Z) (samples : list A) (r_start r_stop : option Z) (r_step : Z) : option (list Z * list A) :=
  let i0 := match r_start with None => Some O | Some c => index_of c cfgs O end in
  let i1 := match r_stop with None => Some (List.length cfgs - 1)%nat | Some c => index_of c cfgs O end in
  match i0, i1 with
  | Some a, Some b =>
      if forallb (fun d => d =? zhd (diffs cfgs)) (diffs cfgs) && (0 <? r_step) then
        let idl := zrange (nth a cfgs 0) (nth b cfgs 0 + 1) r_step in
        let sel := every_nth (Z.to_nat r_step) (firstn (b + 1 - a) (skipn a samples)) (S (List.length samples)) in
        if Nat.eqb (List.length idl) (List.length sel) && Nat.leb 5 (List.length sel) then Some (idl, sel) else None      (* Obs.__init__ rejects a length mismatch and fewer than five samples *)
      else None
  | _, _ => None
  end.

(* for unit-spaced configuration numbers the selected samples are exactly those of configurations
   c(i0), c(i0) + step, ... <= c(i1) *)
Lemma nth_skipn_plus {A} (l : list A) d : forall n i, nth i (skipn n l) d = nth (n + i) l d.
Proof. induction l as [|x l IH]; intros [|n] i; simpl; auto. destruct i; reflexivity. Qed.

Lemma every_nth_nth {A} (d : A) step : forall fuel (l : list A) m,
  (0 < step)%nat -> (m * step < List.length l)%nat -> (List.length l <= fuel)%nat ->
  nth m (every_nth step l fuel) d = nth (m * step) l d.
Proof.
  induction fuel as [|f IH]; intros l m Hs Hm Hf; [lia|].
  destruct l as [|x l]; [simpl in Hm; lia|]. cbn [every_nth].
  destruct m as [|m]; [reflexivity|].
  change (nth (S m) (x :: every_nth step (skipn step (x :: l)) f) d) with (nth m (every_nth step (skipn step (x :: l)) f) d).
  rewrite IH.
  - rewrite nth_skipn_plus. reflexivity.
  - exact Hs.
  - rewrite skipn_length. cbn [List.length] in *. rewrite Nat.mul_succ_l in Hm. lia.
  - rewrite skipn_length. cbn [List.length] in *. lia.
Qed.

(* ------------------------------------------------------------------ ms.dat *)
Definition take (n : nat) (l : list Z) : list Z * list Z := (firstn n l, skipn n l).
Record msdat_header := mkMsH { h_dn : Z; h_nn : Z; h_tmax : Z; h_eps : Q }.
Definition msdat_read_header (b : list Z) : option (msdat_header * list Z) :=
  let (h, r) := take 12 b in
  match h with
  | [a0;a1;a2;a3; b0;b1;b2;b3; c0;c1;c2;c3] =>
      let (e, r2) := take 8 r in
      match f64_dec e with
      | Some eps => Some (mkMsH (i32_of a0 a1 a2 a3) (i32_of b0 b1 b2 b3) (i32_of c0 c1 c2 c3) eps, r2)
      | None => None end
  | _ => None
  end.
Definition all_some {A} (l : list (option A)) : option (list A) :=
  fold_right (fun x acc => match x, acc with Some q, Some a => Some (q :: a) | _, _ => None end) (Some []) l.
(* records: (trajectory number, the doubles of block [which] (0 = Wsl, 1 = Ysl, 2 = Qsl)); theta = bytes a record must have *)
Definition msdat_records (which : nat) (theta_full : bool) (hd : msdat_header) (body : list Z) : option (list (Z * list Q)) :=
  let B := Z.to_nat (8 * h_tmax hd * (h_nn hd + 1)) in
  let R := (4 + 3 * B)%nat in
  let theta := if theta_full then R else (4 + (which + 1) * B)%nat in
  match parse R theta (S (List.length body)) body with
  | Raises => None
  | Records recs =>
      all_some (map (fun r => match firstn 4 r with
                              | [a0;a1;a2;a3] => match all_some (f64s_dec (firstn B (skipn (4 + which * B) r))) with
                                                 | Some ds => Some (i32_of a0 a1 a2 a3, ds) | None => None end
                              | _ => None end) recs)
  end.

Open Scope Q_scope.
Definition qslice (l : list Q) (a b : nat) : list Q := firstn (b - a) (skipn a l).
(* flowed energy density at flow index n: mean over the timeslices xmin .. tmax - xmin - 1, divided by L^3 *)
Definition flow_sample (hd : msdat_header) (xmin : nat) (L : Z) (n : nat) (item : list Q) : Q :=
  let tm := Z.to_nat (h_tmax hd) in
  let sl := qslice item (n * tm + xmin) (n * tm + tm - xmin) in
  Qred (Qsum sl / QlenL sl / inject_Z (L * L * L)).
(* topological charge at flow index n: sum over all timeslices *)
Definition qtop_sample (hd : msdat_header) (n : nat) (item : list Q) : Q :=
  let tm := Z.to_nat (h_tmax hd) in Qsum (qslice item (n * tm) (n * tm + tm)).

(* whole-file pipelines; None = the reader raises *)
Definition read_flow (bytes : list Z) (plaquette theta_full : bool) (xmin : nat) (L : Z) (n : nat)
                     (r_start r_stop : option Z) (r_step : Z) : option (list Z * list Q) :=
  match msdat_read_header bytes with
  | None => None
  | Some (hd, body) =>
      match msdat_records (if plaquette then 0 else 1)%nat theta_full hd body with
      | None => None
      | Some recs =>
          match postprocess (map fst recs) false with
          | None => None
          | Some cfgs => select cfgs (map (fun r => flow_sample hd xmin L n (snd r)) recs) r_start r_stop r_step
          end
      end
  end.
Definition read_qtop (bytes : list Z) (n : nat) (r_start r_stop : option Z) : option (list Z * list Q) :=
  match msdat_read_header bytes with
  | None => None
  | Some (hd, body) =>
      match msdat_records 2%nat true hd body with
      | None => None
      | Some recs =>
          let tl := map fst recs in
          match tl with
          | t0 :: t1 :: _ =>
              if negb (forallb (fun d => (d =? zhd (diffs tl))%Z) (diffs tl)) then None
              else let steps := (t1 - t0)%Z in
                   if (steps =? 0)%Z then None else
                   let c1 := map (fun t => (t / steps)%Z) tl in
                   let c2 := if (1 <? zhd c1)%Z then map (fun c => (c - (zhd c1 - 1))%Z) c1 else c1 in
                   select c2 (map (fun r => qtop_sample hd n (snd r)) recs) r_start r_stop 1%Z
          | _ => None
          end
      end
  end.

(* ------------------------------------------------------------------ correspondence verdicts *)
Record fcase := mkFCase { fc_bytes : list Z; fc_kind : nat;        (* 0 flow (Ysl), 1 flow plaquette (Wsl), 2 qtop *)
                          fc_xmin : nat; fc_L : Z; fc_n : nat; fc_rstart : option Z; fc_rstop : option Z; fc_rstep : Z;
                          fc_impl : option (list Z * list Q); fc_rt : Q; fc_at : Q }.
Definition res_agree (rt at_ : Q) (m i : option (list Z * list Q)) : bool :=
  match m, i with
  | None, None => true
  | Some (c1, s1), Some (c2, s2) => zlist_eqb c1 c2 && close_list rt at_ s1 s2
  | _, _ => false
  end.
Definition fcase_model (theta_full : bool) (c : fcase) : option (list Z * list Q) :=
  match fc_kind c with
  | 0%nat => read_flow (fc_bytes c) false theta_full (fc_xmin c) (fc_L c) (fc_n c) (fc_rstart c) (fc_rstop c) (fc_rstep c)
  | 1%nat => read_flow (fc_bytes c) true theta_full (fc_xmin c) (fc_L c) (fc_n c) (fc_rstart c) (fc_rstop c) (fc_rstep c)
  | _ => read_qtop (fc_bytes c) (fc_n c) (fc_rstart c) (fc_rstop c)
  end.
Definition fcase_ok (theta_full : bool) (c : fcase) : bool := res_agree (fc_rt c) (fc_at c) (fcase_model theta_full c) (fc_impl c).

(* ------------------------------------------------------------------ THEOREMS: the selection returns the requested configurations *)
Open Scope Z_scope.
Lemma zrange_n_nth start step : forall n m, (m < n)%nat -> nth m (zrange_n start step n) 0 = start + Z.of_nat m * step.
Proof.
  intro n. revert start. induction n as [|n IH]; intros start m H; [lia|]. cbn [zrange_n].
  destruct m as [|m]; [cbn; lia|]. cbn [nth]. rewrite IH by lia. lia.
Qed.
Lemma zrange_n_length start step n : List.length (zrange_n start step n) = n.
Proof. revert start; induction n as [|n IH]; intro start; [reflexivity|]. cbn. rewrite IH. reflexivity. Qed.

Lemma nth_firstn_below {A} (l : list A) d : forall n i, (i < n)%nat -> nth i (firstn n l) d = nth i l d.
Proof. induction l as [|x l IH]; intros [|n] [|i] H; simpl; try lia; auto. apply IH. lia. Qed.

(* samples[a : b+1][::step]: entry m is the sample stored at position a + m*step *)
Theorem slice_stride_is_by_position {A} (d : A) (samples : list A) a b step m :
  (0 < step)%nat -> (b < List.length samples)%nat -> (a + m * step <= b)%nat ->
  nth m (every_nth step (firstn (b + 1 - a) (skipn a samples)) (S (List.length samples))) d = nth (a + m * step) samples d.
Proof.
  intros Hs Hb Hm.
  assert (HL : List.length (firstn (b + 1 - a) (skipn a samples)) = (b + 1 - a)%nat) by (rewrite firstn_length, skipn_length; lia).
  rewrite every_nth_nth; [| exact Hs | rewrite HL; lia | rewrite HL; lia].
  rewrite nth_firstn_below by lia. apply nth_skipn_plus.
Qed.

(* range(c(a), c(b) + 1, step): entry m is c(a) + m*step, i.e. for unit-spaced configuration numbers the number of position a + m*step *)
Theorem idl_range_is_by_position cfgs a b step m :
  (forall j, (j < List.length cfgs)%nat -> nth j cfgs 0 = zhd cfgs + Z.of_nat j) ->
  (0 < step) -> (b < List.length cfgs)%nat -> (a + m * Z.to_nat step <= b)%nat ->
  nth m (zrange (nth a cfgs 0) (nth b cfgs 0 + 1) step) 0 = nth (a + m * Z.to_nat step) cfgs 0.
Proof.
  intros Hu Hs Hb Hm. rewrite (Hu a), (Hu b), (Hu (a + m * Z.to_nat step)%nat) by lia.
  unfold zrange. destruct (Z.leb_spec step 0); [lia|].
  rewrite zrange_n_nth.
  - rewrite Nat2Z.inj_add, Nat2Z.inj_mul, Z2Nat.id by lia. lia.
  - replace (zhd cfgs + Z.of_nat b + 1 - (zhd cfgs + Z.of_nat a) + step - 1) with (Z.of_nat b - Z.of_nat a + step) by lia.
    assert (Q0 : Z.of_nat m * step <= Z.of_nat b - Z.of_nat a).
    { assert (Z.of_nat (a + m * Z.to_nat step) <= Z.of_nat b) by lia. rewrite Nat2Z.inj_add, Nat2Z.inj_mul, Z2Nat.id in H0 by lia. lia. }
    assert (Q1 : Z.of_nat m < (Z.of_nat b - Z.of_nat a + step) / step).
    { assert (Z.of_nat m + 1 <= (Z.of_nat b - Z.of_nat a + step) / step) by (apply Z.div_le_lower_bound; [lia | nia]). lia. }
    lia.
Qed.
