(* Small exact linear algebra on lists (vectors = list Q, matrices = list of rows): products, transposes, a certifying
   linear solve, and the least-squares theorem: a solution of the normal equations minimises the residual norm. *)
From Coq Require Import ZArith QArith Qabs List Bool Lia Lqa.
From PV Require Import Base.QAux.
Import ListNotations.
Open Scope Q_scope.

Definition vec := list Q.
Definition mat := list vec.

Fixpoint dotv (a b : vec) : Q := match a, b with x :: a', y :: b' => Qred (x * y + dotv a' b') | _, _ => 0 end.
Fixpoint vaddv (a b : vec) : vec := match a, b with x :: a', y :: b' => Qred (x + y) :: vaddv a' b' | _, _ => [] end.
Fixpoint vsubv (a b : vec) : vec := match a, b with x :: a', y :: b' => Qred (x - y) :: vsubv a' b' | _, _ => [] end.
Definition vscal (s : Q) (a : vec) : vec := map (fun x => Qred (s * x)) a.
Definition normsq (a : vec) : Q := dotv a a.
Definition mvec (M : mat) (p : vec) : vec := map (fun row => dotv row p) M.
(* M^T v = sum_k v_k row_k *)
Fixpoint tmvec (M : mat) (v : vec) (n : nat) : vec :=
  match M, v with
  | row :: M', x :: v' => vaddv (vscal x row) (tmvec M' v' n)
  | _, _ => repeat 0 n
  end.
Definition mcol (M : mat) (j : nat) : vec := map (fun row => nth j row 0) M.
Definition transpose (M : mat) (n : nat) : mat := map (mcol M) (seq 0 n).
Definition mmul (A B : mat) (n : nat) : mat := map (fun row => map (fun j => dotv row (mcol B j)) (seq 0 n)) A.
Definition shape_ok (M : mat) (n : nat) : Prop := Forall (fun row => List.length row = n) M.

(* ------------------------------------------------------------------ elementary facts *)
Lemma dotv_cons x a y b : dotv (x :: a) (y :: b) == x * y + dotv a b.
Proof. cbn [dotv]. apply Qred_correct. Qed.
Lemma dotv_nil_r a : dotv a [] == 0.
Proof. destruct a; reflexivity. Qed.
Lemma dotv_comm a : forall b, dotv a b == dotv b a.
Proof. induction a as [|x a IH]; intros [|y b]; try reflexivity. rewrite !dotv_cons, IH. ring. Qed.
Lemma dotv_zeros_r a n : dotv a (repeat 0 n) == 0.
Proof. revert n; induction a as [|x a IH]; intros [|n]; try reflexivity. cbn [repeat]. rewrite dotv_cons, IH. ring. Qed.

Lemma dotv_vaddv_r a : forall b c, List.length b = List.length c -> dotv a (vaddv b c) == dotv a b + dotv a c.
Proof.
  induction a as [|x a IH]; intros [|y b] [|z c] H; try discriminate; try (cbn; ring).
  cbn [vaddv]. rewrite !dotv_cons, Qred_correct, IH by (simpl in H; lia). ring.
Qed.
Lemma dotv_vsubv_r a : forall b c, List.length b = List.length c -> dotv a (vsubv b c) == dotv a b - dotv a c.
Proof.
  induction a as [|x a IH]; intros [|y b] [|z c] H; try discriminate; try (cbn; ring).
  cbn [vsubv]. rewrite !dotv_cons, Qred_correct, IH by (simpl in H; lia). ring.
Qed.
Lemma dotv_vscal_r a s : forall b, dotv a (vscal s b) == s * dotv a b.
Proof.
  induction a as [|x a IH]; intros [|y b]; try (cbn; ring).
  cbn [vscal map]. rewrite !dotv_cons, Qred_correct. fold (vscal s b). rewrite IH. ring.
Qed.
Lemma vaddv_length a : forall b, List.length a = List.length b -> List.length (vaddv a b) = List.length a.
Proof. induction a as [|x a IH]; intros [|y b] H; try discriminate; [reflexivity|]. cbn. rewrite IH; simpl in H; lia. Qed.
Lemma vsubv_length a : forall b, List.length a = List.length b -> List.length (vsubv a b) = List.length a.
Proof. induction a as [|x a IH]; intros [|y b] H; try discriminate; [reflexivity|]. cbn. rewrite IH; simpl in H; lia. Qed.
Lemma vscal_length s a : List.length (vscal s a) = List.length a.
Proof. apply map_length. Qed.
Lemma tmvec_length M : forall v n, shape_ok M n -> List.length (tmvec M v n) = n.
Proof.
  induction M as [|row M IH]; intros v n H; [apply repeat_length|]. destruct v as [|x v]; [apply repeat_length|].
  inversion H; subst. cbn [tmvec]. rewrite vaddv_length; rewrite vscal_length; [reflexivity|]. rewrite IH; auto.
Qed.

(* (M p) . v = p . (M^T v) *)
Lemma dot_mvec_tmvec M : forall v p, shape_ok M (List.length p) -> List.length v = List.length M ->
  dotv (mvec M p) v == dotv p (tmvec M v (List.length p)).
Proof.
  induction M as [|row M IH]; intros v p Hs Hl.
  - destruct v; [|discriminate]. cbn. rewrite dotv_zeros_r. reflexivity.
  - destruct v as [|x v]; [discriminate|]. inversion Hs; subst. cbn [mvec map tmvec].
    rewrite dotv_cons. fold (mvec M p). rewrite IH by (auto; simpl in Hl; lia).
    rewrite dotv_vaddv_r by (rewrite vscal_length, tmvec_length; auto).
    rewrite dotv_vscal_r. rewrite (dotv_comm row p). ring.
Qed.

Lemma mvec_length M p : List.length (mvec M p) = List.length M.
Proof. apply map_length. Qed.

(* linearity of M p in p, pointwise in the dot product with any vector *)
Lemma dotv_vsubv_l a : forall b c, List.length a = List.length b -> dotv (vsubv a b) c == dotv a c - dotv b c.
Proof. intros b c H. rewrite dotv_comm, dotv_vsubv_r by exact H. rewrite (dotv_comm c a), (dotv_comm c b). reflexivity. Qed.

Lemma mvec_vsubv M : forall p q w, List.length p = List.length q -> shape_ok M (List.length p) ->
  dotv (mvec M (vsubv p q)) w == dotv (mvec M p) w - dotv (mvec M q) w.
Proof.
  induction M as [|row M IH]; intros p q w Hl Hs; [cbn; ring|].
  inversion Hs; subst. destruct w as [|z w]; [rewrite !dotv_nil_r; ring|].
  cbn [mvec map]. rewrite !dotv_cons. fold (mvec M (vsubv p q)) (mvec M p) (mvec M q).
  rewrite IH by assumption. rewrite dotv_vsubv_r by exact Hl. ring.
Qed.

(* ------------------------------------------------------------------ least squares: Pythagoras at a solution of the normal equations *)
Theorem normal_equations_minimise M b phat p :
  shape_ok M (List.length p) -> List.length phat = List.length p -> List.length b = List.length M ->
  (* M^T (M phat - b) = 0, stated through its dot product with every vector *)
  (forall d, List.length d = List.length p -> dotv d (tmvec M (vsubv (mvec M phat) b) (List.length p)) == 0) ->
  normsq (vsubv (mvec M p) b) == normsq (vsubv (mvec M phat) b) + normsq (mvec M (vsubv p phat)).
Proof.
  intros Hs Hlp Hlb Hne. unfold normsq.
  set (r := vsubv (mvec M phat) b). set (d := vsubv p phat). set (Md := mvec M d).
  assert (Lr : List.length r = List.length M) by (unfold r; rewrite vsubv_length; rewrite mvec_length; auto).
  assert (Ld : List.length d = List.length p) by (unfold d; rewrite vsubv_length; auto).
  (* M p - b and r + M d have the same dot product with everything *)
  assert (E : forall w, dotv (vsubv (mvec M p) b) w == dotv r w + dotv Md w).
  { intro w. unfold r, Md, d. rewrite !dotv_vsubv_l by (rewrite mvec_length; auto).
    rewrite mvec_vsubv by (auto). ring. }
  rewrite E. rewrite (dotv_comm r (vsubv (mvec M p) b)), (dotv_comm Md (vsubv (mvec M p) b)), !E.
  assert (Z : dotv Md r == 0).
  { unfold Md. rewrite dot_mvec_tmvec; [| rewrite Ld; exact Hs | exact Lr]. rewrite Ld. apply Hne. exact Ld. }
  rewrite (dotv_comm r Md), Z. ring.
Qed.

Lemma normsq_nonneg a : 0 <= normsq a.
Proof.
  unfold normsq. induction a as [|x a IH]; [cbn; lra|]. rewrite dotv_cons.
  assert (0 <= x * x). { destruct (Qlt_le_dec x 0); [setoid_replace (x * x) with ((- x) * (- x)) by ring|]; apply Qmult_le_0_compat; lra. }
  lra.
Qed.

Corollary normal_equations_give_the_minimum M b phat p :
  shape_ok M (List.length p) -> List.length phat = List.length p -> List.length b = List.length M ->
  (forall d, List.length d = List.length p -> dotv d (tmvec M (vsubv (mvec M phat) b) (List.length p)) == 0) ->
  normsq (vsubv (mvec M phat) b) <= normsq (vsubv (mvec M p) b).
Proof.
  intros. rewrite (normal_equations_minimise M b phat p) by assumption.
  pose proof (normsq_nonneg (mvec M (vsubv p phat))). lra.
Qed.

(* ------------------------------------------------------------------ certifying solve: Gauss-Jordan proposes, the product checks *)
Definition swap_to_front (M : list (vec * vec)) (j : nat) : option (list (vec * vec)) :=
  (* first row whose j-th entry is non-zero goes first *)
  match partition (fun r => negb (Qeqb (nth j (fst r) 0) 0)) M with
  | (r :: good, bad) => Some (r :: good ++ bad)
  | ([], _) => None
  end.
Definition row_scale (s : Q) (r : vec * vec) : vec * vec := (vscal s (fst r), vscal s (snd r)).
Fixpoint vaxpy (f : Q) (a b : vec) : vec := match a, b with x :: a', y :: b' => Qred (x - f * y) :: vaxpy f a' b' | _, _ => [] end.
Definition row_sub (r p : vec * vec) (f : Q) : vec * vec :=
  if Qeqb f 0 then r else (vaxpy f (fst r) (fst p), vaxpy f (snd r) (snd p)).
(* eliminate column j from all rows using pivot row piv (normalised) *)
Fixpoint gj (fuel j : nat) (done todo : list (vec * vec)) : option (list (vec * vec)) :=
  match fuel with
  | O => Some (done ++ todo)
  | S f =>
      match todo with
      | [] => Some done
      | _ => match swap_to_front todo j with
             | None => None
             | Some (piv :: rest) =>
                 let pv := nth j (fst piv) 0 in
                 let piv' := row_scale (1 / pv) piv in
                 let elim := fun r => row_sub r piv' (nth j (fst r) 0) in
                 gj f (S j) (map elim done ++ [piv']) (map elim rest)
             | Some [] => None
             end
      end
  end.
Definition mat_eqb (A B : mat) : bool := all2 (all2 Qeqb) A B.
(* solve N X = B for X (B, X: matrices with the same number of rows as N); None if singular or the check fails *)
Definition solve_checked (N B : mat) (ncolB : nat) : option mat :=
  match gj (S (List.length N)) 0 [] (combine N B) with
  | Some rows => let X := map snd rows in
                 if Nat.eqb (List.length X) (List.length N) && mat_eqb (mmul N X ncolB) (map (map Qred) B) then Some X else None
  | None => None
  end.
Theorem solve_checked_sound N B n X : solve_checked N B n = Some X -> List.length X = List.length N /\ mat_eqb (mmul N X n) (map (map Qred) B) = true.
Proof.
  unfold solve_checked. destruct (gj _ _ _ _); [|discriminate].
  destruct (Nat.eqb _ _) eqn:L; [|discriminate]. destruct (mat_eqb _ _) eqn:E; [|discriminate]. intro H. injection H as <-.
  split; [apply Nat.eqb_eq; exact L | exact E].
Qed.

(* ------------------------------------------------------------------ the matrix form of the normal equations implies the dot-product form *)
Definition veq (a b : vec) : Prop := Forall2 Qeq a b.
Lemma veq_refl a : veq a a.
Proof. induction a; constructor; [reflexivity | assumption]. Qed.
Lemma veq_trans a : forall b c, veq a b -> veq b c -> veq a c.
Proof. induction a as [|x a IH]; intros b c H1 H2; inversion H1; subst; inversion H2; subst; constructor; [etransitivity; eassumption | eapply IH; eassumption]. Qed.
Lemma veq_map {X} (f g : X -> Q) l : (forall k, f k == g k) -> veq (map f l) (map g l).
Proof. intro H. induction l; constructor; [apply H | assumption]. Qed.
Lemma dotv_veq_r d : forall a b, veq a b -> dotv d a == dotv d b.
Proof. induction d as [|x d IH]; intros a b H; [reflexivity|]. inversion H; subst; [reflexivity|]. rewrite !dotv_cons. rewrite (IH _ _ H1). rewrite H0. reflexivity. Qed.
Lemma dotv_veq_l a b d : veq a b -> dotv a d == dotv b d.
Proof. intro H. rewrite (dotv_comm a d), (dotv_comm b d). apply dotv_veq_r. exact H. Qed.
Lemma veq_vaddv a : forall a' b b', veq a a' -> veq b b' -> veq (vaddv a b) (vaddv a' b').
Proof.
  induction a as [|x a IH]; intros a' b b' H1 H2; inversion H1; subst; [constructor|].
  inversion H2; subst; [constructor|]. cbn [vaddv]. constructor; [rewrite !Qred_correct, H3, H; reflexivity | apply IH; assumption].
Qed.
Lemma dotv_all_zero d : forall v, Forall (fun x => x == 0) v -> dotv d v == 0.
Proof. induction d as [|x d IH]; intros v H; [reflexivity|]. inversion H; subst; [reflexivity|]. rewrite dotv_cons, IH by assumption. rewrite H0. ring. Qed.
Lemma row_as_map (row : vec) : forall n, List.length row = n -> row = map (fun j => nth j row 0) (seq 0 n).
Proof.
  induction row as [|x row IH]; intros n H; subst n; [reflexivity|].
  cbn [List.length seq map nth]. f_equal. rewrite <- seq_shift, map_map. cbn [nth]. apply IH. reflexivity.
Qed.
Lemma vaddv_map {X} (f g : X -> Q) l : vaddv (map f l) (map g l) = map (fun j => Qred (f j + g j)) l.
Proof. induction l; [reflexivity|]. cbn [map vaddv]. f_equal. assumption. Qed.
Lemma repeat_as_map (x : Q) n s : repeat x n = map (fun _ => x) (seq s n).
Proof. revert s; induction n; intro s; [reflexivity|]. cbn. f_equal. apply IHn. Qed.

(* M^T v, entry by entry *)
Lemma tmvec_veq M : forall v n, shape_ok M n -> List.length v = List.length M ->
  veq (tmvec M v n) (map (fun j => dotv (mcol M j) v) (seq 0 n)).
Proof.
  induction M as [|row M IH]; intros v n Hs Hl.
  - destruct v; [|discriminate]. cbn [tmvec]. rewrite (repeat_as_map 0 n 0%nat). apply veq_map. intro k. reflexivity.
  - destruct v as [|x v]; [discriminate|]. inversion Hs; subst. cbn [tmvec].
    eapply veq_trans.
    + apply veq_vaddv; [apply veq_refl | apply IH; [assumption | simpl in Hl; lia]].
    + rewrite (row_as_map row (List.length row) eq_refl) at 1. unfold vscal. rewrite map_map, vaddv_map.
      apply veq_map. intro k. unfold mcol. cbn [map]. rewrite dotv_cons, !Qred_correct. fold (mcol M k). ring.
Qed.

Lemma dotv_map_lin {X} (x : Q) (r h : X -> Q) l : forall p,
  dotv (map (fun k => x * r k + h k) l) p == x * dotv (map r l) p + dotv (map h l) p.
Proof. induction l as [|k l IH]; intros [|y p]; try (cbn; ring). cbn [map]. rewrite !dotv_cons, IH. ring. Qed.

(* (a^T M) p = a . (M p) *)
Lemma gram_row M : forall a n p, shape_ok M n ->
  dotv (map (fun k => dotv a (mcol M k)) (seq 0 n)) p == dotv a (mvec M p).
Proof.
  induction M as [|row M IH]; intros a n p Hs.
  - cbn [mvec map]. rewrite dotv_nil_r. rewrite (dotv_veq_l _ (map (fun _ => 0) (seq 0 n))) by (apply veq_map; intro k; apply dotv_nil_r).
    rewrite <- (repeat_as_map 0 n 0%nat). rewrite dotv_comm. apply dotv_zeros_r.
  - inversion Hs; subst. destruct a as [|x a].
    + cbn [dotv]. rewrite <- (repeat_as_map 0 _ 0%nat). rewrite dotv_comm. apply dotv_zeros_r.
    + cbn [mvec map]. fold (mvec M p). rewrite dotv_cons.
      rewrite (dotv_veq_l _ (map (fun k => x * nth k row 0 + dotv a (mcol M k)) (seq 0 (List.length row)))).
      * rewrite dotv_map_lin. rewrite <- (row_as_map row _ eq_refl). rewrite IH by assumption. reflexivity.
      * apply veq_map. intro k. unfold mcol. cbn [map]. rewrite dotv_cons. reflexivity.
Qed.

Lemma all2_map_same {X} (f : Q -> Q -> bool) (F G : X -> Q) l : all2 f (map F l) (map G l) = true -> Forall (fun k => f (F k) (G k) = true) l.
Proof. induction l as [|k l IH]; cbn; intro H; constructor; apply andb_true_iff in H; destruct H; auto. Qed.
Lemma all2_map_same' {X Y} (f : Y -> Y -> bool) (F G : X -> Y) l : all2 f (map F l) (map G l) = true -> Forall (fun k => f (F k) (G k) = true) l.
Proof. induction l as [|k l IH]; cbn; intro H; constructor; apply andb_true_iff in H; destruct H; auto. Qed.

(* N P = M^T b with N = M^T M (as computed: mmul / transpose) gives the normal equations used by normal_equations_give_the_minimum *)
Theorem matrix_normal_equations M b P n :
  shape_ok M n -> List.length b = List.length M -> List.length P = n ->
  mat_eqb (mmul (mmul (transpose M n) M n) P 1) (map (map Qred) (map (fun x => [x]) (mvec (transpose M n) b))) = true ->
  let phat := mcol P 0 in
  forall d, dotv d (tmvec M (vsubv (mvec M phat) b) n) == 0.
Proof.
  intros Hs Hb HP E phat d.
  assert (Lr : List.length (vsubv (mvec M phat) b) = List.length M) by (rewrite vsubv_length; rewrite mvec_length; auto).
  rewrite (dotv_veq_r d _ _ (tmvec_veq M _ n Hs Lr)).
  apply dotv_all_zero. apply Forall_forall. intros z Hz. apply in_map_iff in Hz. destruct Hz as [j [<- Hj]].
  rewrite dotv_vsubv_r by (rewrite mvec_length; auto).
  unfold mat_eqb, mmul, transpose, mvec in E. rewrite !map_map in E.
  apply all2_map_same' in E. rewrite Forall_forall in E. specialize (E j Hj). cbn in E.
  rewrite andb_true_r in E. apply Qeqb_eq in E. rewrite Qred_correct in E. fold (mcol P 0) in E. fold phat in E.
  rewrite <- E. rewrite (gram_row M (mcol M j) n phat Hs). ring.
Qed.

(* ------------------------------------------------------------------ dyadic rounding (used by verdicts only, never by theorems about the exact solve) *)
Definition qround (k : positive) (x : Q) : Q := Qmake ((Qnum x * Z.pos (2 ^ k)) / Z.pos (Qden x)) (2 ^ k).
Lemma qround_below k x : qround k x <= x.
Proof.
  unfold qround, Qle. cbn [Qnum Qden]. pose proof (Z.mul_div_le (Qnum x * Z.pos (2 ^ k)) (Z.pos (Qden x)) ltac:(lia)). lia.
Qed.
Lemma qround_above k x : x < qround k x + (1 # 2 ^ k).
Proof.
  unfold qround, Qlt, Qplus. cbn [Qnum Qden].
  pose proof (Z.mod_pos_bound (Qnum x * Z.pos (2 ^ k)) (Z.pos (Qden x)) ltac:(lia)) as Hm.
  pose proof (Z.div_mod (Qnum x * Z.pos (2 ^ k)) (Z.pos (Qden x)) ltac:(lia)) as Hd.
  set (q := (Qnum x * Z.pos (2 ^ k) / Z.pos (Qden x))%Z) in *. set (r := ((Qnum x * Z.pos (2 ^ k)) mod Z.pos (Qden x))%Z) in *.
  rewrite Pos2Z.inj_mul. nia.
Qed.

(* ------------------------------------------------------------------ the implicit-function rule as linear algebra:
   if the sensitivities S satisfy H S + B = 0 then for every data shift d the parameter shift S d satisfies H (S d) + B d = 0,
   row by row (h = row of H, b = row of B) *)
Theorem implicit_function_rule_row (h : vec) (S : mat) (b : vec) (m : nat) (d : vec) :
  shape_ok S m -> List.length b = m ->
  veq (vaddv (map (fun j => dotv h (mcol S j)) (seq 0 m)) b) (repeat 0 m) ->
  dotv h (mvec S d) + dotv b d == 0.
Proof.
  intros Hs Lb E.
  rewrite <- (gram_row S h m d Hs).
  assert (L : List.length (map (fun j => dotv h (mcol S j)) (seq 0 m)) = List.length b) by (rewrite map_length, seq_length; auto).
  rewrite (dotv_comm _ d), (dotv_comm b d), <- (dotv_vaddv_r d _ _ L).
  rewrite (dotv_veq_r d _ _ E). apply dotv_zeros_r.
Qed.

(* inverse-function rule for one equation *)
Lemma inverse_rule (fx : Q) (fd dd : vec) (dx : Q) : ~ fx == 0 -> (fx * dx + dotv fd dd == 0 <-> dx == - (dotv fd dd) / fx).
Proof.
  intro H. set (s := dotv fd dd). split; intro E.
  - assert (E2 : dx * fx == - s) by (setoid_replace (dx * fx) with ((fx * dx + s) - s) by ring; rewrite E; ring).
    rewrite <- E2. field. exact H.
  - rewrite E. field. exact H.
Qed.

(* product rule for one entry of a matrix product: (a + da) . (b + db) = a . b + (da . b + a . db) + da . db;
   the middle term is the differentiated identity decided on every configuration (C10) *)
Lemma dotv_vaddv_l a : forall b c, List.length a = List.length b -> dotv (vaddv a b) c == dotv a c + dotv b c.
Proof. intros b c H. rewrite dotv_comm, dotv_vaddv_r by exact H. rewrite (dotv_comm c a), (dotv_comm c b). reflexivity. Qed.
Theorem dotv_product_rule (a da b db : vec) :
  List.length a = List.length da -> List.length b = List.length db ->
  dotv (vaddv a da) (vaddv b db) == dotv a b + (dotv da b + dotv a db) + dotv da db.
Proof. intros H1 H2. rewrite dotv_vaddv_l by exact H1. rewrite !dotv_vaddv_r by exact H2. ring. Qed.
