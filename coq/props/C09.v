(* Property C09 -- roots and integrals of observable-dependent functions propagate errors exactly.  Theorems only. *)
From Coq Require Import ZArith QArith Reals List Bool.
From Interval Require Import Interval.Interval Real.Xreal Real.Xreal_derive.
From PV Require Import Base.QAux Base.RI Base.Expr Lin.Mat Fit.Implicit.
Import ListNotations.

(* the symbolic derivatives df/dx, df/dd (roots) and d/d(p, a, b) of the antiderivative difference (integrals) are the real derivatives *)
Theorem symbolic_derivative_is_the_real_derivative :
  forall e v env, Xderive_pt (fun t => evalX (updX env v t) e) (Xreal (env v)) (evalX (renv env) (D e v)).
Proof. exact D_correct. Qed.

Theorem interval_evaluation_encloses_the_real_value :
  forall ienv xenv e, (forall n, contains (I.convert (ienv n)) (xenv n)) -> contains (I.convert (evalI ienv e)) (evalX xenv e).
Proof. exact evalI_correct. Qed.

(* inverse-function rule: with f_x dx + sum_m f_m dd_m = 0 and f_x <> 0 the root moves by dx = - sum_m (f_m / f_x) dd_m *)
Theorem inverse_function_rule :
  forall (fx : Q) (fd dd : list Q) (dx : Q), ~ fx == 0 ->
  (fx * dx + dotv fd dd == 0 <-> dx == - (dotv fd dd) / fx)%Q.
Proof. exact inverse_rule. Qed.

(* Non-vacuity: x^3 - d at x = 2, d = 8: the equation holds, df/dx = 12, df/dd = -1 *)
Example c09_example :
  let f := ESub (EMul (EMul (EV 0) (EV 0)) (EV 0)) (EV 1) in
  Dfold f 1 = ENeg (EC 1%Q) /\ equations_hold (mkICase [f] 1 1 [2]%Q [8]%Q [] [] (1 # 1000)%Q) (1 # 1000)%Q = true.
Proof. split; vm_compute; reflexivity. Qed.

Print Assumptions symbolic_derivative_is_the_real_derivative.
Print Assumptions interval_evaluation_encloses_the_real_value.
Print Assumptions inverse_function_rule.
