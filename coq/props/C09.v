(* Property C09 -- roots and integrals of observable-dependent functions propagate errors exactly.  Theorems only. *)
From Coq Require Import ZArith QArith Reals List Bool.
From Interval Require Import Interval.Interval Real.Xreal Real.Xreal_derive.
From PV Require Import Base.QAux Base.RI Base.Expr Base.ExprFold Base.Dyadic Base.DyadicR Lin.Mat Fit.Implicit Fit.ImplicitSound Fit.ImplicitTop Fit.TableSound Fit.VerdictSound.
Import ListNotations.

(* the symbolic derivatives df/dx, df/dd (roots) and d/d(p, a, b) of the antiderivative difference (integrals) are the real derivatives *)
Theorem symbolic_derivative_is_the_real_derivative :
  forall e v env, Xderive_pt (fun t => evalX (updX env v t) e) (Xreal (env v)) (evalX (renv env) (D e v)).
Proof. exact D_correct. Qed.

Theorem interval_evaluation_encloses_the_real_value :
  forall ienv xenv e, (forall n, contains (I.convert (ienv n)) (xenv n)) -> contains (I.convert (evalI ienv e)) (evalX xenv e).
Proof. exact evalI_correct. Qed.

(* inverse-function rule: with f_x dx + sum_m f_m dd_m = 0 and f_x <> 0 the root moves by dx = - sum_m (f_m / f_x) dd_m *)
Theorem inverse_function_rule :
  forall (fx : Q) (fd dd : list Q) (dx : Q), ~ fx == 0 ->
  (fx * dx + dotv fd dd == 0 <-> dx == - (dotv fd dd) / fx)%Q.
Proof. exact inverse_rule. Qed.

(* the folded derivative used by the verdicts (0 * e folded to 0) is the same real derivative wherever the interval certificate
   guardsI holds, its interval evaluation encloses it, and the certificate is inherited (second derivatives: apply twice) *)
Theorem certified_folded_derivative :
  forall (l : list Q) e v, guardsI (qenvI l) e = true ->
  Xderive_pt (fun t => evalX (updX (qenvR l) v t) e) (Xreal (qenvR l v)) (evalX (renv (qenvR l)) (Dfold e v))
  /\ contains (I.convert (evalI (qenvI l) (Dfold e v))) (evalX (renv (qenvR l)) (Dfold e v))
  /\ guardsR (qenvR l) (Dfold e v).
Proof. exact certified_derivative. Qed.

(* interval bounds read as dyadic numbers enclose the real value *)
Theorem interval_bounds_as_dyadics :
  forall i a b r, i2d i = Some (a, b) -> contains (I.convert i) (Xreal r) -> (dR a <= r <= dR b)%R.
Proof. exact i2d_correct. Qed.

(* the decision taken on every differentiated equation: real coefficients inside their enclosures, real arguments inside theirs,
   a positive decision  ==>  |sum_j c_j x_j| <= rt (sum_j |c_j x_j| + scale)  *)
Theorem differentiated_equation_decision_is_sound :
  forall cs xs crs xrs rt scale res,
  Forall2 encl cs crs -> Forall2 enclx xs xrs -> (0 <= dR rt)%R ->
  dform cs xs dzero dzero dzero = Some res ->
  dleb (fst res) (dmul rt (dadd (snd res) scale)) = true ->
  (Rabs (rsum crs xrs) <= dR rt * (rasum crs xrs + dR scale))%R.
Proof. exact form_decision_sound. Qed.

(* Top level, for systems whose unknowns all have result observables: a positive verdict implicit_ok implies, for every equation, every
   row of the fluctuation table and all real arguments inside that row's enclosures, the differentiated equation within tolerance --
   with the REAL partial derivatives of the equation at the solution as coefficients *)
Theorem positive_verdict_implies_the_differentiated_equations :
  forall (c : icase) (i : nat) (xs : list (dy * dy)) (xrs : list R),
  ic_nv c = ic_nu c -> implicit_ok c = true -> (0 <= dR (fst (dexact (ic_rt c))))%R ->
  (i < length (ic_eqs c))%nat ->
  In xs (dfluct_table (ic_uobs c) (ic_dobs c)) -> Forall2 enclx xs xrs ->
  let l := (ic_uvals c ++ ic_dvals c)%list in
  let eq := nth i (ic_eqs c) (EC 0%Q) in
  let cols := seq 0 (ic_nu c + length (ic_dvals c)) in
  let ds := map (dval l eq) cols in
  (forall j, In j cols -> Xderive_pt (fun t => evalX (updX (qenvR l) j t) eq) (Xreal (qenvR l j)) (Xreal (dval l eq j)))
  /\ exists scale, (Rabs (rsum ds xrs) <= dR (fst (dexact (ic_rt c))) * (rasum ds xrs + dR scale))%R.
Proof. exact implicit_ok_sound. Qed.

(* the rows of that table are, for every replica n and configuration c of the operands' union, the enclosures of the actual fluctuations
   of the result observables and of the C01-weighted fluctuations of the data observables *)
Theorem fluctuation_table_rows_enclose_the_weighted_fluctuations :
  forall (u_obs d_obs : list Obs.Model.obs) (n : String.string) (c : Z),
  Forall2 enclx (table_row u_obs d_obs n c)
          (map (fun o => Q2R (Obs.Model.fluct0 o n c)) u_obs ++ map (fun o => Q2R (Obs.Derived.spec_weight d_obs o n * Obs.Model.fluct0 o n c)) d_obs).
Proof. exact fluct_table_row_encloses. Qed.

Theorem fluctuation_table_has_one_row_per_replica_and_configuration :
  forall (u_obs d_obs : list Obs.Model.obs) xs,
  In xs (dfluct_table u_obs d_obs) <->
  exists n c, In n (Obs.Derived.sample_names (u_obs ++ d_obs)) /\ In c (Obs.Derived.union_cfgs (u_obs ++ d_obs) n) /\ xs = table_row u_obs d_obs n c.
Proof. exact fluct_table_rows. Qed.

(* the same statements for the covariance-gradient table: one row per covariance input and component, enclosing the gradients exactly *)
Theorem positive_verdict_implies_the_differentiated_equations_for_covariance_gradients :
  forall (c : icase) (i : nat) (xs : list (dy * dy)) (xrs : list R),
  ic_nv c = ic_nu c -> implicit_ok c = true -> (0 <= dR (fst (dexact (ic_rt c))))%R ->
  (i < length (ic_eqs c))%nat ->
  In xs (dcov_table (ic_uobs c) (ic_dobs c)) -> Forall2 enclx xs xrs ->
  let l := (ic_uvals c ++ ic_dvals c)%list in
  let eq := nth i (ic_eqs c) (EC 0%Q) in
  let cols := seq 0 (ic_nu c + length (ic_dvals c)) in
  let ds := map (dval l eq) cols in
  (forall j, In j cols -> Xderive_pt (fun t => evalX (updX (qenvR l) j t) eq) (Xreal (qenvR l j)) (Xreal (dval l eq j)))
  /\ exists scale, (Rabs (rsum ds xrs) <= dR (fst (dexact (ic_rt c))) * (rasum ds xrs + dR scale))%R.
Proof. exact implicit_ok_sound_cov. Qed.

Theorem covariance_table_rows_enclose_the_gradients :
  forall (u_obs d_obs : list Obs.Model.obs) (n : String.string) (k : nat),
  Forall2 enclx (map (fun o => dexact (covgrad_of o n k)) u_obs ++ map (fun o => dexact (covgrad_of o n k)) d_obs)
          (map (fun o => Q2R (covgrad_of o n k)) u_obs ++ map (fun o => Q2R (covgrad_of o n k)) d_obs).
Proof. exact cov_table_row_encloses. Qed.

(* Non-vacuity: x^3 - d at x = 2, d = 8: the equation holds, df/dx = 12, df/dd = -1 *)
Example c09_example :
  let f := ESub (EMul (EMul (EV 0) (EV 0)) (EV 0)) (EV 1) in
  Dfold f 1 = ENeg (EC 1%Q) /\ equations_hold (mkICase [f] 1 1 [2]%Q [8]%Q [] [] (1 # 1000)%Q) (1 # 1000)%Q = true.
Proof. split; vm_compute; reflexivity. Qed.

Print Assumptions symbolic_derivative_is_the_real_derivative.
Print Assumptions interval_evaluation_encloses_the_real_value.
Print Assumptions inverse_function_rule.
Print Assumptions certified_folded_derivative.
Print Assumptions interval_bounds_as_dyadics.
Print Assumptions differentiated_equation_decision_is_sound.
Print Assumptions positive_verdict_implies_the_differentiated_equations.
Print Assumptions fluctuation_table_rows_enclose_the_weighted_fluctuations.

(* the root / integral verdicts are sound as statements about real numbers (Fit/VerdictSound.v): the residual of the real equation at the
   returned solution is below tol * |d eq / d x| * (1 + |x|), and the closed form agrees within the stated tolerance *)
Theorem equation_verdict_is_sound :
  forall (c : icase) tol i,
  (i < ic_nu c)%nat -> guardsI (ic_env c) (nth i (ic_eqs c) (EC 0)) = true -> equations_hold c tol = true ->
  let l := (ic_uvals c ++ ic_dvals c)%list in let eq := nth i (ic_eqs c) (EC 0) in
  exists r, evalX (renv (qenvR l)) eq = Xreal r
            /\ (Rabs r <= Q2R tol * (Rabs (dval l eq i) * (1 + Rabs (Q2R (nth i (ic_uvals c) 0%Q)))))%R
            /\ Xderive_pt (fun t => evalX (updX (qenvR l) i t) eq) (Xreal (qenvR l i)) (Xreal (dval l eq i)).
Proof. exact equations_hold_sound. Qed.
Theorem closed_form_verdict_is_sound :
  forall (c : icase) g tol, closed_form_ok c g tol = true ->
  exists r, evalX (renv (qenvR (ic_uvals c ++ ic_dvals c))) g = Xreal r
            /\ (Rabs (r - Q2R (nth 0 (ic_uvals c) 0%Q)) < Q2R (Qabs.Qabs (nth 0 (ic_uvals c) 0%Q) * tol + tol))%R.
Proof. exact closed_form_ok_sound. Qed.
Print Assumptions equation_verdict_is_sound.
Print Assumptions closed_form_verdict_is_sound.
