(* Property C01 -- linear error propagation is exact and aligned by configuration number.
   Property theorems only (closed by [exact]); the proofs live in PV.Obs.DerivedThm. *)
From Coq Require Import ZArith QArith List Bool String.
From PV Require Import Base.QAux Obs.Model Obs.Derived Obs.DerivedThm Obs.DerivedSpec.
Import ListNotations.
Open Scope Q_scope.

(* The result is defined on the union of the operands' configurations (sorted, duplicate free). *)
Theorem result_configurations_are_the_union :
  forall (l : list idl) (x : Z), l <> [] ->
  (In x (cfgs (merge_idx l)) <-> exists i, In i l /\ In x (cfgs i)).
Proof. exact merge_idx_member. Qed.

Theorem result_configurations_increasing :
  forall l : list idl, l <> [] -> Forall (fun i => incr (cfgs i)) l -> incr (cfgs (merge_idx l)).
Proof. exact merge_idx_incr. Qed.

(* One expanded entry = the operand's fluctuation on THAT configuration number (0 if not measured
   there) times |union| / |own| times the replica scale factor -- for contiguous, strided, gapped,
   irregular and partly overlapping layouts alike, and also through the equal-range shortcut. *)
Theorem expansion_is_aligned_by_configuration_number :
  forall deltas idx new_idx sf i,
  incr (cfgs idx) -> incr (cfgs new_idx) ->
  List.length (cfgs idx) = List.length deltas ->
  (forall x, In x (cfgs idx) -> In x (cfgs new_idx)) ->
  cfgs idx <> [] -> (i < List.length (cfgs new_idx))%nat ->
  nth i (expand_for_merge deltas idx new_idx sf) 0 == expand_spec deltas idx new_idx sf (nth i (cfgs new_idx) 0%Z).
Proof. exact expand_for_merge_aligned. Qed.

(* The fluctuation of the result on every configuration is the gradient-weighted sum of the
   operands' aligned, up-weighted fluctuations. *)
Theorem derived_fluctuation_pointwise :
  forall ops n i gs, Forall obs_wf ops -> (i < List.length (cfgs (new_idl ops n)))%nat ->
  acc_nth (acc_deltas ops n gs ops None) i == aligned_sum ops n (nth i (cfgs (new_idl ops n)) 0%Z) gs ops.
Proof. exact derived_deltas_aligned. Qed.

(* The up-weight |union|/|own| * sf is exactly what keeps the operand's contribution to the replica
   mean unchanged (stated for arbitrary, not necessarily zero-sum, fluctuations). *)
Theorem upweight_keeps_replica_mean :
  forall deltas idx new_idx sf,
  incr (cfgs idx) -> incr (cfgs new_idx) ->
  List.length (cfgs idx) = List.length deltas ->
  (forall x, In x (cfgs idx) -> In x (cfgs new_idx)) -> cfgs idx <> [] -> cfgs new_idx <> [] ->
  Qsum (map (expand_spec deltas idx new_idx sf) (cfgs new_idx)) / Qlen (cfgs new_idx)
  == sf * (Qsum deltas / Qlen (cfgs idx)).
Proof. exact upweight_preserves_mean. Qed.

(* Non-vacuity: a gapped operand {2,3,7} inside the union {1,2,3,5,7} of two list-type idl: hypotheses
   hold and the expansion is visibly by number, not by position. *)
Example expansion_nonvacuous :
  let idx := mkIdl false [2;3;7]%Z in let new := mkIdl false [1;2;3;5;7]%Z in
  incr (cfgs idx) /\ incr (cfgs new) /\ (forall x, In x (cfgs idx) -> In x (cfgs new)) /\
  map Qred (expand_for_merge [1;2;4] idx new 1) = map Qred [0; 5#3; 10#3; 0; 20#3] /\
  cfgs (merge_idx [idx; mkIdl true [1;3;5]%Z]) = [1;2;3;5;7]%Z.
Proof.
  cbv zeta. split; [repeat constructor|]. split; [repeat constructor|].
  split; [simpl; intuition|]. split; vm_compute; reflexivity.
Qed.

(* MODEL = SPECIFICATION for the fluctuations, all inputs: every stored fluctuation of the result equals the property's formula
   sum_j g_j * w_j(n) * (fluctuation of operand j on THAT configuration number, or 0),  w_j(n) = |union| / |own| times
   (configurations of all replica of the ensemble) / (configurations of the replica operand j has)  -- the weight written from the
   property text (spec_weight), not the code's bookkeeping.  names_ok: every operand's chain names are duplicate free and are
   sample names of the result (i.e. not shadowed by a covariance input of the same name). *)
Theorem stored_fluctuation_is_the_specified_one :
  forall ops n i gs, Forall obs_wf ops -> names_ok ops -> (i < List.length (cfgs (new_idl ops n)))%nat ->
  acc_nth (acc_deltas ops n gs ops None) i == spec_fluct ops n (nth i (cfgs (new_idl ops n)) 0%Z) gs ops.
Proof. exact derived_fluctuation_is_the_specified_one. Qed.

(* the missing-replica factor of the code is the replica factor of the specification *)
Theorem code_scale_factor_is_the_specified_replica_factor :
  forall ops o n r, find_rep o n = Some r -> NoDup (rep_names o) -> incl (rep_names o) (sample_names ops) ->
  scalefactor ops o (ens_of n) =
    (if Nat.ltb (List.length (filter (fun m => smem m (rep_names o)) (filter (fun m => String.eqb (ens_of m) (ens_of n)) (sample_names ops))))
                (List.length (filter (fun m => String.eqb (ens_of m) (ens_of n)) (sample_names ops)))
     then inject_Z (zsum (map (union_len ops) (filter (fun m => String.eqb (ens_of m) (ens_of n)) (sample_names ops))))
          / inject_Z (zsum (map (union_len ops) (filter (fun m => smem m (rep_names o)) (filter (fun m => String.eqb (ens_of m) (ens_of n)) (sample_names ops)))))
     else 1).
Proof. exact scalefactor_is_spec. Qed.

(* Non-vacuity: an operand on two replica and one that lacks the second replica, gapped lists: the hypotheses hold and the
   second operand is up-weighted by (3 + 4) / 3 on the replica it has. *)
Example model_is_spec_nonvacuous :
  let o1 := mkObs 1 [mkRep "A|r1" (mkIdl false [1;2;4]%Z) [1;-2;1] 1; mkRep "A|r2" (mkIdl true [1;2;3;4]%Z) [1;1;-1;-1] 1] [] false in
  let o2 := mkObs 2 [mkRep "A|r1" (mkIdl false [2;4]%Z) [3;-3] 2] [] false in
  Forall obs_wf [o1; o2] /\ names_ok [o1; o2] /\ scalefactor [o1; o2] o2 "A" == 7 # 3.
Proof.
  cbv zeta. split; [|split].
  - repeat constructor; simpl; congruence.
  - intros o [<-|[<-|[]]]; split; try (repeat constructor; simpl; intuition congruence);
      intros x Hx; simpl in Hx; vm_compute; intuition.
  - vm_compute. reflexivity.
Qed.

Print Assumptions stored_fluctuation_is_the_specified_one.
Print Assumptions code_scale_factor_is_the_specified_replica_factor.
Print Assumptions result_configurations_are_the_union.
Print Assumptions result_configurations_increasing.
Print Assumptions expansion_is_aligned_by_configuration_number.
Print Assumptions derived_fluctuation_pointwise.
Print Assumptions upweight_keeps_replica_mean.
