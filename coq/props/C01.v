(* Property C01 -- placeholder header; theorems are added below as they are proved. *)
From Coq Require Import ZArith QArith List Bool String.
From PV Require Import Base.QAux Obs.Model Obs.Derived.
