(* Property C01 -- linear error propagation is exact and aligned by configuration number.
   Property theorems only (closed by [exact]); the proofs live in PV.Obs.DerivedThm. *)
From Coq Require Import ZArith QArith List Bool String.
From PV Require Import Base.QAux Obs.Model Obs.Derived Obs.DerivedThm.
Import ListNotations.
Open Scope Q_scope.

(* The result is defined on the union of the operands' configurations (sorted, duplicate free). *)
Theorem result_configurations_are_the_union :
  forall (l : list idl) (x : Z), l <> [] ->
  (In x (cfgs (merge_idx l)) <-> exists i, In i l /\ In x (cfgs i)).
Proof. exact merge_idx_member. Qed.

Theorem result_configurations_increasing :
  forall l : list idl, l <> [] -> Forall (fun i => incr (cfgs i)) l -> incr (cfgs (merge_idx l)).
Proof. exact merge_idx_incr. Qed.

(* One expanded entry = the operand's fluctuation on THAT configuration number (0 if not measured
   there) times |union| / |own| times the replica scale factor -- for contiguous, strided, gapped,
   irregular and partly overlapping layouts alike, and also through the equal-range shortcut. *)
Theorem expansion_is_aligned_by_configuration_number :
  forall deltas idx new_idx sf i,
  incr (cfgs idx) -> incr (cfgs new_idx) ->
  List.length (cfgs idx) = List.length deltas ->
  (forall x, In x (cfgs idx) -> In x (cfgs new_idx)) ->
  cfgs idx <> [] -> (i < List.length (cfgs new_idx))%nat ->
  nth i (expand_for_merge deltas idx new_idx sf) 0 == expand_spec deltas idx new_idx sf (nth i (cfgs new_idx) 0%Z).
Proof. exact expand_for_merge_aligned. Qed.

(* The fluctuation of the result on every configuration is the gradient-weighted sum of the
   operands' aligned, up-weighted fluctuations. *)
Theorem derived_fluctuation_pointwise :
  forall ops n i gs, Forall obs_wf ops -> (i < List.length (cfgs (new_idl ops n)))%nat ->
  acc_nth (acc_deltas ops n gs ops None) i == aligned_sum ops n (nth i (cfgs (new_idl ops n)) 0%Z) gs ops.
Proof. exact derived_deltas_aligned. Qed.

(* The up-weight |union|/|own| * sf is exactly what keeps the operand's contribution to the replica
   mean unchanged (stated for arbitrary, not necessarily zero-sum, fluctuations). *)
Theorem upweight_keeps_replica_mean :
  forall deltas idx new_idx sf,
  incr (cfgs idx) -> incr (cfgs new_idx) ->
  List.length (cfgs idx) = List.length deltas ->
  (forall x, In x (cfgs idx) -> In x (cfgs new_idx)) -> cfgs idx <> [] -> cfgs new_idx <> [] ->
  Qsum (map (expand_spec deltas idx new_idx sf) (cfgs new_idx)) / Qlen (cfgs new_idx)
  == sf * (Qsum deltas / Qlen (cfgs idx)).
Proof. exact upweight_preserves_mean. Qed.

(* Non-vacuity: a gapped operand {2,3,7} inside the union {1,2,3,5,7} of two list-type idl: hypotheses
   hold and the expansion is visibly by number, not by position. *)
Example expansion_nonvacuous :
  let idx := mkIdl false [2;3;7]%Z in let new := mkIdl false [1;2;3;5;7]%Z in
  incr (cfgs idx) /\ incr (cfgs new) /\ (forall x, In x (cfgs idx) -> In x (cfgs new)) /\
  map Qred (expand_for_merge [1;2;4] idx new 1) = map Qred [0; 5#3; 10#3; 0; 20#3] /\
  cfgs (merge_idx [idx; mkIdl true [1;3;5]%Z]) = [1;2;3;5;7]%Z.
Proof.
  cbv zeta. split; [repeat constructor|]. split; [repeat constructor|].
  split; [simpl; intuition|]. split; vm_compute; reflexivity.
Qed.

Print Assumptions result_configurations_are_the_union.
Print Assumptions result_configurations_increasing.
Print Assumptions expansion_is_aligned_by_configuration_number.
Print Assumptions derived_fluctuation_pointwise.
Print Assumptions upweight_keeps_replica_mean.
