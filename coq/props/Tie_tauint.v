(* TIE (translator): three straight-line pieces of Obs.gamma_method, regenerated from pyerrors/obs.py on this run, equal the corresponding
   steps of the hand-written model Obs/Gamma.v:analyse --
     the pair-count normalisation   gamma_div[gamma_div < 1] = 1.0 ; e_gamma /= gamma_div[:w_max]
     the normalised autocorrelation rho = e_gamma[:w_max] / e_gamma[0]
     the cumulative tau_int         cumsum(concatenate(([0.5], rho[1:]))) with every entry <= 0.5 replaced by 0.5 + eps. *)
From Coq Require Import ZArith QArith Qabs List Bool Lia ZifyBool.
From PV Require Import Base.QAux Obs.Model Obs.DerivedThm Obs.Gamma Py.Prim Py.Lemmas.
From PVG Require Import PyGen.
Import ListNotations.
Open Scope Z_scope.

Lemma clip_ok n i : 0 <= i <= n -> clip_index n i = i.
Proof. intro H. unfold clip_index. destruct (i <? 0) eqn:E; lia. Qed.
Lemma py_slice_all (l : list Q) : py_slice l 0 (zlen l) = l.
Proof.
  unfold py_slice. pose proof (zlen_nonneg l). rewrite (clip_ok _ 0) by lia. rewrite (clip_ok _ (zlen l)) by lia.
  cbn [Z.to_nat skipn]. rewrite Z.sub_0_r. unfold zlen. rewrite Nat2Z.id. apply firstn_all.
Qed.
Lemma py_slice_tail (l : list Q) : py_slice l 1 (zlen l) = tl l.
Proof.
  destruct l as [|x r]; [reflexivity|]. unfold py_slice.
  assert (Hz : zlen (x :: r) = Z.of_nat (S (List.length r))) by reflexivity. rewrite Hz.
  rewrite (clip_ok _ 1) by lia. rewrite (clip_ok _ (Z.of_nat (S (List.length r)))) by lia.
  change (Z.to_nat 1) with 1%nat. cbn [skipn tl]. replace (Z.to_nat (Z.of_nat (S (List.length r)) - 1)) with (List.length r) by lia.
  apply firstn_all.
Qed.

Open Scope Q_scope.

(* ------------------------------------------------------------------ normalisation by the pair counts *)
Lemma norm_zip gam : forall div, List.length gam = List.length div ->
  Forall2 Qeq (arr_zip Qdiv gam (arr_mask_set (fun x => Qltb x (inject_Z 1)) (1 # 1) div))
              (map (fun pq => Qred (fst pq / (if Qltb (snd pq) 1 then 1 else snd pq))) (combine gam div)).
Proof.
  induction gam as [|g gam IH]; intros [|d div] H; simpl in H; try lia; [constructor|].
  cbn [arr_mask_set map arr_zip combine fst snd]. constructor; [|apply IH; lia].
  rewrite Qred_correct. change (inject_Z 1) with 1. destruct (Qltb d 1); reflexivity.
Qed.

Theorem normalisation_tie (gam div : list Q) (w : nat) :
  List.length gam = w -> List.length div = w ->
  exists r, gamma_method_normalise gam div (Z.of_nat w) = Ok r
            /\ Forall2 Qeq r (map (fun pq => Qred (fst pq / (if Qltb (snd pq) 1 then 1 else snd pq))) (combine gam div)).
Proof.
  intros Hg Hd. unfold gamma_method_normalise. cbv zeta.
  set (cl := arr_mask_set (fun x_ => Qltb x_ (inject_Z 1)) (1 # 1) div).
  assert (Hcl : List.length cl = w) by (unfold cl, arr_mask_set; rewrite map_length; exact Hd).
  replace (Z.of_nat w) with (zlen cl) by (unfold zlen; rewrite Hcl; reflexivity).
  rewrite py_slice_all. unfold py_arr_div2, py_arr_zip. rewrite Hg, Hcl, Nat.eqb_refl. cbn [bind].
  eexists. split; [reflexivity|]. apply norm_zip. lia.
Qed.

(* ------------------------------------------------------------------ rho *)
Lemma Forall2_map_Qeq_all {A} (f g : A -> Q) l : (forall x, f x == g x) -> Forall2 Qeq (map f l) (map g l).
Proof. intro H. induction l as [|x l IH]; simpl; constructor; [apply H|exact IH]. Qed.

Theorem rho_tie (gamma : list Q) (w : nat) :
  List.length gamma = w -> (1 <= w)%nat ->
  exists r, gamma_method_rho gamma (Z.of_nat w) = Ok r
            /\ Forall2 Qeq r (map (fun g => Qred (g / qnthz gamma 0)) gamma).
Proof.
  intros Hl Hw. unfold gamma_method_rho.
  rewrite (py_index_nth gamma 0 0) by (unfold zlen; lia). cbn [bind]. cbv zeta.
  replace (Z.of_nat w) with (zlen gamma) by (unfold zlen; rewrite Hl; reflexivity). rewrite py_slice_all.
  eexists. split; [reflexivity|]. unfold arr_div, qnthz. cbn [Z.ltb Z.to_nat].
  apply Forall2_map_Qeq_all. intro x. rewrite Qred_correct. reflexivity.
Qed.

(* ------------------------------------------------------------------ cumulative tau_int with its lower clip *)
Lemma arr_cumsum_is_cumsum l : arr_cumsum l = cumsum l.
Proof. reflexivity. Qed.

Theorem n_tauint_tie (rho : list Q) :
  gamma_method_n_tauint rho
  = Ok (map (fun t => if Qleb t (1 # 2) then (1 # 2) + eps52 else t) (cumsum ((1 # 2) :: tl rho))).
Proof.
  unfold gamma_method_n_tauint. cbv zeta. rewrite py_slice_tail. rewrite arr_cumsum_is_cumsum. reflexivity.
Qed.

Print Assumptions normalisation_tie.
Print Assumptions rho_tie.
Print Assumptions n_tauint_tie.

(* ------------------------------------------------------------------ the error of the cumulative tau_int, hep-lat/0306017 eq. (42) *)
Lemma nth_arr_zip_gen (f : Q -> Q -> Q) a : forall b j, List.length a = List.length b -> (j < List.length a)%nat ->
  nth j (arr_zip f a b) 0 = f (nth j a 0) (nth j b 0).
Proof.
  induction a as [|x a IH]; intros [|y b] j Hl Hj; simpl in *; try lia. destruct j as [|j]; [reflexivity|]. apply IH; lia.
Qed.
Lemma nth_map_Q (f : Q -> Q) l j : (j < List.length l)%nat -> nth j (map f l) 0 = f (nth j l 0).
Proof. revert j; induction l as [|x l IH]; intros [|j] H; simpl in *; try lia; [reflexivity|apply IH; lia]. Qed.

Lemma arr_zip_length_gen (f : Q -> Q -> Q) a : forall b, List.length a = List.length b -> List.length (arr_zip f a b) = List.length a.
Proof. induction a as [|x a IH]; intros [|y b] H; simpl in *; try lia. rewrite IH; lia. Qed.

Theorem dtauint_tie (nt : list Q) (w : nat) (N : Z) :
  List.length nt = w ->
  exists R F, gamma_method_dtauint_radicand nt (Z.of_nat w) N = Ok R /\ gamma_method_dtauint_factor nt (Z.of_nat w) N = Ok F
              /\ List.length R = w /\ List.length F = w
              /\ forall i, (i < w)%nat ->
                   nth i F 0 * nth i F 0 * nth i R 0
                   == nth i nt 0 * nth i nt 0 * 4 * Qabs (inject_Z (Z.of_nat i) + (1 # 2) - nth i nt 0) / inject_Z N.
Proof.
  intro Hl. unfold gamma_method_dtauint_radicand, gamma_method_dtauint_factor.
  set (grid := arr_add_s (map inject_Z (py_upto (Z.of_nat w))) (1 # 2)).
  assert (Hg : List.length grid = w) by (unfold grid, arr_add_s; rewrite !map_length, py_upto_seq, map_length, seq_length; reflexivity).
  unfold py_arr_sub2, py_arr_zip. rewrite Hg, Hl, Nat.eqb_refl. cbn [bind].
  eexists. eexists. split; [reflexivity|]. split; [reflexivity|].
  split; [unfold arr_div; rewrite !map_length, arr_zip_length_gen by lia; exact Hg|].
  split; [unfold arr_mul; rewrite !map_length; exact Hl|].
  intros i Hi. unfold arr_div, arr_mul.
  rewrite !nth_map_Q by (rewrite ?map_length, ?arr_zip_length_gen by lia; lia).
  rewrite nth_arr_zip_gen by lia.
  unfold grid, arr_add_s. rewrite nth_map_Q by (rewrite ?map_length, ?py_upto_seq, ?map_length, ?seq_length; lia).
  assert (Hgi : nth i (map inject_Z (py_upto (Z.of_nat w))) 0 = inject_Z (Z.of_nat i)).
  { rewrite py_upto_seq, map_map. rewrite (nth_map_any (fun x => inject_Z (Z.of_nat x)) (seq 0 w) i 0 O) by (rewrite seq_length; lia).
    rewrite seq_nth by lia. reflexivity. }
  rewrite Hgi.
  change (inject_Z 2) with 2. change (inject_Z 1) with 1. unfold Qdiv. ring.
Qed.
Print Assumptions dtauint_tie.
