(* Property C08 -- non-linear and total least-squares fits obey the implicit-function rule.  Theorems only. *)
From Coq Require Import ZArith QArith Reals List Bool.
From Interval Require Import Interval.Interval Real.Xreal Real.Xreal_derive.
From PV Require Import Base.QAux Base.RI Base.Expr Lin.Mat Fit.Implicit.
Import ListNotations.

(* the symbolic partial derivative used for gradient, Hessian and mixed derivatives of chi^2 IS the real derivative:
   wherever D e v evaluates to a real number d, t |-> e[v := t] is defined at env v and has derivative d there
   (Xderive_pt unfolds to Reals.derivable_pt_lim) -- for every expression, variable and environment *)
Theorem symbolic_derivative_is_the_real_derivative :
  forall e v env, Xderive_pt (fun t => evalX (updX env v t) e) (Xreal (env v)) (evalX (renv env) (D e v)).
Proof. exact D_correct. Qed.

(* verified evaluation: the interval computed for an expression (hence for every derivative of chi^2) encloses its real value *)
Theorem interval_evaluation_encloses_the_real_value :
  forall ienv xenv e, (forall n, contains (I.convert (ienv n)) (xenv n)) -> contains (I.convert (evalI ienv e)) (evalX xenv e).
Proof. exact evalI_correct. Qed.

Theorem interval_evaluation_on_rational_inputs :
  forall l e, contains (I.convert (evalI (qenvI l) e)) (evalX (renv (qenvR l)) e).
Proof. exact evalI_on_rationals. Qed.

(* the implicit-function rule as linear algebra, any sizes: sensitivities with H S + B = 0 make every data shift d and the
   induced parameter shift S d satisfy the differentiated stationarity condition H (S d) + B d = 0 *)
Theorem implicit_function_rule :
  forall (h : vec) (S : mat) (b : vec) (m : nat) (d : vec),
  shape_ok S m -> List.length b = m ->
  veq (vaddv (map (fun j => dotv h (mcol S j)) (seq 0 m)) b) (repeat 0%Q m) ->
  (dotv h (mvec S d) + dotv b d == 0)%Q.
Proof. exact implicit_function_rule_row. Qed.

(* Non-vacuity: chi^2 of y = p0 exp(-p1 x) on two points, its symbolic gradient is not trivial and evaluates to a finite interval *)
Example c08_example :
  let fe := EMul (EV 0) (EExp (ENeg (EMul (EV 1) (EV 2)))) in
  let F := lsq_chisq fe 2 [[1]; [2]]%Q [[1; 0]; [0; 1]]%Q [] [] in
  I.bounded (evalI (qenvI [2; 1 # 2; 1; 1 # 2]%Q) (D (D F 0) 1)) = true /\ D (D F 0) 1 <> EC 0%Q.
Proof. split; [vm_compute; reflexivity | vm_compute; discriminate]. Qed.

Print Assumptions symbolic_derivative_is_the_real_derivative.
Print Assumptions interval_evaluation_encloses_the_real_value.
Print Assumptions implicit_function_rule.
