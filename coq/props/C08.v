(* Property C08 -- non-linear and total least-squares fits obey the implicit-function rule.  Theorems only. *)
From Coq Require Import ZArith QArith Reals List Bool.
From Interval Require Import Interval.Interval Real.Xreal Real.Xreal_derive.
From PV Require Import Base.QAux Base.RI Base.Expr Base.ExprFold Base.Dyadic Base.DyadicR Lin.Mat Fit.Implicit Fit.ImplicitSound Fit.ImplicitTop Fit.TableSound Fit.ElimSound Fit.TlsTop Fit.VerdictSound.
Import ListNotations.

(* the symbolic partial derivative used for gradient, Hessian and mixed derivatives of chi^2 IS the real derivative:
   wherever D e v evaluates to a real number d, t |-> e[v := t] is defined at env v and has derivative d there
   (Xderive_pt unfolds to Reals.derivable_pt_lim) -- for every expression, variable and environment *)
Theorem symbolic_derivative_is_the_real_derivative :
  forall e v env, Xderive_pt (fun t => evalX (updX env v t) e) (Xreal (env v)) (evalX (renv env) (D e v)).
Proof. exact D_correct. Qed.

(* verified evaluation: the interval computed for an expression (hence for every derivative of chi^2) encloses its real value *)
Theorem interval_evaluation_encloses_the_real_value :
  forall ienv xenv e, (forall n, contains (I.convert (ienv n)) (xenv n)) -> contains (I.convert (evalI ienv e)) (evalX xenv e).
Proof. exact evalI_correct. Qed.

Theorem interval_evaluation_on_rational_inputs :
  forall l e, contains (I.convert (evalI (qenvI l) e)) (evalX (renv (qenvR l)) e).
Proof. exact evalI_on_rationals. Qed.

(* the implicit-function rule as linear algebra, any sizes: sensitivities with H S + B = 0 make every data shift d and the
   induced parameter shift S d satisfy the differentiated stationarity condition H (S d) + B d = 0 *)
Theorem implicit_function_rule :
  forall (h : vec) (S : mat) (b : vec) (m : nat) (d : vec),
  shape_ok S m -> List.length b = m ->
  veq (vaddv (map (fun j => dotv h (mcol S j)) (seq 0 m)) b) (repeat 0%Q m) ->
  (dotv h (mvec S d) + dotv b d == 0)%Q.
Proof. exact implicit_function_rule_row. Qed.

(* the folded derivative used by the verdicts (0 * e folded to 0) is the same real derivative wherever the interval certificate
   guardsI holds, its interval evaluation encloses it, and the certificate is inherited (second derivatives: apply twice) *)
Theorem certified_folded_derivative :
  forall (l : list Q) e v, guardsI (qenvI l) e = true ->
  Xderive_pt (fun t => evalX (updX (qenvR l) v t) e) (Xreal (qenvR l v)) (evalX (renv (qenvR l)) (Dfold e v))
  /\ contains (I.convert (evalI (qenvI l) (Dfold e v))) (evalX (renv (qenvR l)) (Dfold e v))
  /\ guardsR (qenvR l) (Dfold e v).
Proof. exact certified_derivative. Qed.

(* interval bounds read as dyadic numbers enclose the real value *)
Theorem interval_bounds_as_dyadics :
  forall i a b r, i2d i = Some (a, b) -> contains (I.convert i) (Xreal r) -> (dR a <= r <= dR b)%R.
Proof. exact i2d_correct. Qed.

(* the decision taken on every differentiated equation: real coefficients inside their enclosures, real arguments inside theirs,
   a positive decision  ==>  |sum_j c_j x_j| <= rt (sum_j |c_j x_j| + scale)  *)
Theorem differentiated_equation_decision_is_sound :
  forall cs xs crs xrs rt scale res,
  Forall2 encl cs crs -> Forall2 enclx xs xrs -> (0 <= dR rt)%R ->
  dform cs xs dzero dzero dzero = Some res ->
  dleb (fst res) (dmul rt (dadd (snd res) scale)) = true ->
  (Rabs (rsum crs xrs) <= dR rt * (rasum crs xrs + dR scale))%R.
Proof. exact form_decision_sound. Qed.

(* the interval Gaussian elimination of the fitted abscissae (total least squares): every row of the result either is unbounded
   (and then rejected, since unbounded entries have no dyadic bounds) or encloses a real row that still annihilates the true solution
   vector and has exact zeros in all eliminated columns -- for any number of rows, columns and eliminated unknowns *)
Theorem interval_elimination_is_sound :
  forall (rows : list irow) (RR : list (list R)) (z : list R) (n : nat) (hidden : list nat) (k : nat),
  Forall2 (fun ir rr => Forall2 encl_entry ir rr) rows RR ->
  Forall (fun rr => length rr = n /\ rdot rr z = 0%R) RR ->
  NoDup hidden -> (k < length rows)%nat -> ~ In k hidden ->
  let ir := nth k (eliminate hidden rows) [] in
  Forall unbounded ir \/
  exists rr, Forall2 encl_entry ir rr /\ rdot rr z = 0%R /\ forall h, In h hidden -> nth h rr 0%R = 0%R.
Proof. exact eliminate_sound. Qed.

Theorem unbounded_entries_have_no_bounds : forall i a b, i2d i = Some (a, b) -> ~ unbounded i.
Proof. exact unbounded_no_bounds. Qed.

(* Top level, for systems whose unknowns all have result observables: a positive verdict implicit_ok implies, for every equation, every
   row of the fluctuation table and all real arguments inside that row's enclosures, the differentiated equation within tolerance --
   with the REAL partial derivatives of the equation at the solution as coefficients *)
Theorem positive_verdict_implies_the_differentiated_equations :
  forall (c : icase) (i : nat) (xs : list (dy * dy)) (xrs : list R),
  ic_nv c = ic_nu c -> implicit_ok c = true -> (0 <= dR (fst (dexact (ic_rt c))))%R ->
  (i < length (ic_eqs c))%nat ->
  In xs (dfluct_table (ic_uobs c) (ic_dobs c)) -> Forall2 enclx xs xrs ->
  let l := (ic_uvals c ++ ic_dvals c)%list in
  let eq := nth i (ic_eqs c) (EC 0%Q) in
  let cols := seq 0 (ic_nu c + length (ic_dvals c)) in
  let ds := map (dval l eq) cols in
  (forall j, In j cols -> Xderive_pt (fun t => evalX (updX (qenvR l) j t) eq) (Xreal (qenvR l j)) (Xreal (dval l eq j)))
  /\ exists scale, (Rabs (rsum ds xrs) <= dR (fst (dexact (ic_rt c))) * (rasum ds xrs + dR scale))%R.
Proof. exact implicit_ok_sound. Qed.

(* the rows of that table are, for every replica n and configuration c of the operands' union, the enclosures of the actual fluctuations
   of the result observables and of the C01-weighted fluctuations of the data observables *)
Theorem fluctuation_table_rows_enclose_the_weighted_fluctuations :
  forall (u_obs d_obs : list Obs.Model.obs) (n : String.string) (c : Z),
  Forall2 enclx (table_row u_obs d_obs n c)
          (map (fun o => Q2R (Obs.Model.fluct0 o n c)) u_obs ++ map (fun o => Q2R (Obs.Derived.spec_weight d_obs o n * Obs.Model.fluct0 o n c)) d_obs).
Proof. exact fluct_table_row_encloses. Qed.

Theorem fluctuation_table_has_one_row_per_replica_and_configuration :
  forall (u_obs d_obs : list Obs.Model.obs) xs,
  In xs (dfluct_table u_obs d_obs) <->
  exists n c, In n (Obs.Derived.sample_names (u_obs ++ d_obs)) /\ In c (Obs.Derived.union_cfgs (u_obs ++ d_obs) n) /\ xs = table_row u_obs d_obs n c.
Proof. exact fluct_table_rows. Qed.

(* Top level for total least squares (fitted abscissae without result observables): a positive verdict implies, for every parameter's
   equation and every table row, that a real linear combination of the real differentiated stationarity equations -- one that lies in
   their span and has exactly vanishing coefficients for all hidden unknowns -- holds for the implementation's fluctuations within tolerance *)
Theorem positive_verdict_with_hidden_unknowns :
  forall (c : icase) (i : nat) (xs : list (dy * dy)) (xrs : list R),
  (ic_nv c < ic_nu c)%nat -> length (ic_eqs c) = ic_nu c -> implicit_ok c = true -> (0 <= dR (fst (dexact (ic_rt c))))%R ->
  (i < ic_nv c)%nat ->
  In xs (dfluct_table (ic_uobs c) (ic_dobs c)) -> Forall2 enclx xs xrs ->
  let l := (ic_uvals c ++ ic_dvals c)%list in
  let cols := seq 0 (ic_nu c + length (ic_dvals c)) in
  let RR := map (fun eq => map (dval l eq) cols) (ic_eqs c) in
  let hidden := seq (ic_nv c) (ic_nu c - ic_nv c) in
  exists rr scale,
    (forall h, In h hidden -> nth h rr 0%R = 0%R)
    /\ (forall z, Forall (fun R0 => rdot R0 z = 0%R) RR -> rdot rr z = 0%R)
    /\ (Rabs (rsum (firstn (ic_nv c) rr ++ skipn (ic_nu c) rr) xrs)
        <= dR (fst (dexact (ic_rt c))) * (rasum (firstn (ic_nv c) rr ++ skipn (ic_nu c) rr) xrs + dR scale))%R.
Proof. exact implicit_ok_hidden_sound. Qed.

(* the same statements for the covariance-gradient table: one row per covariance input and component, enclosing the gradients exactly *)
Theorem positive_verdict_implies_the_differentiated_equations_for_covariance_gradients :
  forall (c : icase) (i : nat) (xs : list (dy * dy)) (xrs : list R),
  ic_nv c = ic_nu c -> implicit_ok c = true -> (0 <= dR (fst (dexact (ic_rt c))))%R ->
  (i < length (ic_eqs c))%nat ->
  In xs (dcov_table (ic_uobs c) (ic_dobs c)) -> Forall2 enclx xs xrs ->
  let l := (ic_uvals c ++ ic_dvals c)%list in
  let eq := nth i (ic_eqs c) (EC 0%Q) in
  let cols := seq 0 (ic_nu c + length (ic_dvals c)) in
  let ds := map (dval l eq) cols in
  (forall j, In j cols -> Xderive_pt (fun t => evalX (updX (qenvR l) j t) eq) (Xreal (qenvR l j)) (Xreal (dval l eq j)))
  /\ exists scale, (Rabs (rsum ds xrs) <= dR (fst (dexact (ic_rt c))) * (rasum ds xrs + dR scale))%R.
Proof. exact implicit_ok_sound_cov. Qed.

Theorem covariance_table_rows_enclose_the_gradients :
  forall (u_obs d_obs : list Obs.Model.obs) (n : String.string) (k : nat),
  Forall2 enclx (map (fun o => dexact (covgrad_of o n k)) u_obs ++ map (fun o => dexact (covgrad_of o n k)) d_obs)
          (map (fun o => Q2R (covgrad_of o n k)) u_obs ++ map (fun o => Q2R (covgrad_of o n k)) d_obs).
Proof. exact cov_table_row_encloses. Qed.

(* Non-vacuity: chi^2 of y = p0 exp(-p1 x) on two points, its symbolic gradient is not trivial and evaluates to a finite interval *)
Example c08_example :
  let fe := EMul (EV 0) (EExp (ENeg (EMul (EV 1) (EV 2)))) in
  let F := lsq_chisq fe 2 [[1]; [2]]%Q [[1; 0]; [0; 1]]%Q [] [] in
  I.bounded (evalI (qenvI [2; 1 # 2; 1; 1 # 2]%Q) (D (D F 0) 1)) = true /\ D (D F 0) 1 <> EC 0%Q.
Proof. split; [vm_compute; reflexivity | vm_compute; discriminate]. Qed.

Print Assumptions symbolic_derivative_is_the_real_derivative.
Print Assumptions interval_evaluation_encloses_the_real_value.
Print Assumptions implicit_function_rule.
Print Assumptions certified_folded_derivative.
Print Assumptions interval_bounds_as_dyadics.
Print Assumptions differentiated_equation_decision_is_sound.
Print Assumptions interval_elimination_is_sound.
Print Assumptions positive_verdict_implies_the_differentiated_equations.
Print Assumptions fluctuation_table_rows_enclose_the_weighted_fluctuations.
Print Assumptions positive_verdict_with_hidden_unknowns.

(* the remaining verdicts of this check are sound as statements about real numbers (Fit/VerdictSound.v) *)
Theorem stationarity_verdict_is_sound :
  forall F nu l uvals tol i, stationary_ok F nu (qenvI l) uvals tol = true -> (i < nu)%nat ->
  exists f, evalX (renv (qenvR l)) F = Xreal f /\
  let g := dval l F i in let h := dval l (Dfold F i) i in let u := Q2R (nth i uvals 0%Q) in
  (0 < h /\ g * g <= (Q2R tol * Q2R tol) * (h * ((1 + Rabs f) + h * (u * u)))
  /\ Xderive_pt (fun t => evalX (updX (qenvR l) i t) F) (Xreal (qenvR l i)) (Xreal g)
  /\ Xderive_pt (fun t => evalX (updX (qenvR l) i t) (Dfold F i)) (Xreal (qenvR l i)) (Xreal h))%R.
Proof. exact stationary_ok_sound. Qed.
Theorem chisq_verdict_is_sound :
  forall c : fitcase, guardsI (qenvI (fc_uvals c ++ fc_dvals c)) (fc_F c) = true -> fit_chisq_ok c = true ->
  exists r, evalX (renv (qenvR (fc_uvals c ++ fc_dvals c))) (fc_F c) = Xreal r
            /\ (Rabs (r - Q2R (fc_chisq c)) < Q2R (Qabs.Qabs (fc_chisq c) * fc_tol c + fc_tol c))%R.
Proof. exact fit_chisq_ok_sound. Qed.
Print Assumptions stationarity_verdict_is_sound.
Print Assumptions chisq_verdict_is_sound.
