(* TIE (translator): the definitions regenerated from pyerrors/obs.py on this run (PVG.PyGen, written by
   translate/t_pycore.py) return, for every input in the stated domain, exactly what the hand-written models return.
   The theorems of C01 / C02 / C05 / C06 about the models are thereby theorems about the code as it is now. *)
From Coq Require Import ZArith QArith List Bool Lia Sorted.
From PV Require Import Base.QAux Obs.Model Obs.DerivedThm Obs.Gamma Obs.Cov Py.Prim Py.Lemmas.
From PVG Require Import PyGen.
Import ListNotations.
Open Scope Z_scope.

(* ------------------------------------------------------------------ _expand_deltas_for_merge *)
Theorem expand_for_merge_tie deltas idx new_idx sf :
  incr (cfgs idx) -> incr (cfgs new_idx) -> cfgs idx <> [] ->
  List.length deltas = List.length (cfgs idx) ->
  (forall x, In x (cfgs idx) -> In x (cfgs new_idx)) ->
  _expand_deltas_for_merge deltas idx (zlen (cfgs idx)) new_idx sf = Ok (expand_for_merge deltas idx new_idx sf).
Proof.
  intros Hi Hn Hne Hl Hsub. unfold _expand_deltas_for_merge, expand_for_merge.
  assert (Hne' : cfgs new_idx <> []).
  { destruct (cfgs idx) as [|x r] eqn:E; [congruence|]. intro E'. specialize (Hsub x (or_introl eq_refl)). rewrite E' in Hsub. exact Hsub. }
  assert (Hb : forall x, In x (cfgs new_idx) -> zhd (cfgs new_idx) <= x <= zlast (cfgs new_idx)) by (intros x Hx; apply incr_bounds; assumption).
  set (base := zhd (cfgs new_idx)).
  set (n := zlast (cfgs new_idx) - base + 1).
  assert (K : (t1 <- py_index (cfgs new_idx) (- (1)) ;; t2 <- py_index (cfgs new_idx) 0 ;; t3 <- py_zeros (t1 - t2 + 1) ;;
               let v_ret := t3 in
               st7 <- py_for (py_upto (zlen (cfgs idx))) v_ret
                 (fun st7 v_i => let v_ret := st7 in
                    t4 <- py_index (cfgs idx) v_i ;; t5 <- py_index (cfgs new_idx) 0 ;; t6 <- py_index deltas v_i ;;
                    v_ret <- py_store v_ret (t4 - t5) t6 ;; Ok v_ret) ;;
               let v_ret := st7 in
               t11 <- py_map (fun v_i => t8 <- py_index (cfgs new_idx) v_i ;; t9 <- py_index (cfgs new_idx) 0 ;;
                                         t10 <- py_index v_ret (t8 - t9) ;; Ok t10) (py_upto (zlen (cfgs new_idx))) ;;
               Ok (arr_mul (arr_div (arr_mul t11 (inject_Z (zlen (cfgs new_idx)))) (inject_Z (zlen (cfgs idx)))) sf))
            = Ok (map (fun c => (qnth (scatter (zeros (Z.to_nat n)) base (cfgs idx) deltas) (Z.to_nat (c - base))
                                 * Qlen (cfgs new_idx) / Qlen (cfgs idx) * sf)%Q) (cfgs new_idx))).
  { change (- (1)) with (-1). rewrite py_index_m1, py_index_0 by exact Hne'. cbn [bind]. fold base. fold n.
    assert (Hn1 : 0 < n).
    { unfold n. destruct (cfgs new_idx) as [|x r] eqn:E; [congruence|]. pose proof (Hb x (or_introl eq_refl)). fold base in H. lia. }
    unfold py_zeros. destruct (n <? 0) eqn:En; [lia|]. cbn [bind]. cbv zeta.
    rewrite (py_for_scatter (fun c => c - base) _ (cfgs idx) deltas).
    - cbn [bind]. rewrite scatter_h_scatter.
      set (ret := scatter (zeros (Z.to_nat n)) base (cfgs idx) deltas).
      assert (Hret : List.length ret = Z.to_nat n).
      { unfold ret. rewrite <- scatter_h_scatter.
        assert (G : forall idx' deltas' r, List.length (scatter_h (fun c => c - base) r idx' deltas') = List.length r).
        { induction idx' as [|c idx' IH]; intros [|d ds] r; simpl; auto. rewrite IH, upd_length. reflexivity. }
        rewrite G, zeros_length. reflexivity. }
      unfold zlen at 1. rewrite py_upto_seq.
      rewrite (py_map_total _ (fun v_i => qnth ret (Z.to_nat (nth (Z.to_nat v_i) (cfgs new_idx) 0 - base)))).
      + cbn [bind]. f_equal. unfold arr_mul, arr_div. rewrite !map_map.
        rewrite <- (map_nth_seq (fun c => (qnth ret (Z.to_nat (c - base)) * Qlen (cfgs new_idx) / Qlen (cfgs idx) * sf)%Q) (cfgs new_idx) 0).
        apply map_ext. intro k. rewrite Nat2Z.id. reflexivity.
      + intros x Hx. apply in_map_iff in Hx. destruct Hx as [k [<- Hk]]. apply in_seq in Hk.
        rewrite (py_index_nat (cfgs new_idx) k 0) by lia. cbn [bind]. rewrite ?py_index_0 by exact Hne'. cbn [bind]. fold base.
        pose proof (Hb _ (nth_In (cfgs new_idx) 0 (proj2 Hk))) as Hx. fold base in Hx.
        rewrite (py_index_nth ret _ 0%Q) by (unfold zlen; rewrite Hret; lia). cbn [bind]. rewrite Nat2Z.id. reflexivity.
    - exact Hl.
    - intros k ret Hk Hlen. cbv beta zeta.
      rewrite (py_index_nat (cfgs idx) k 0) by exact Hk. cbn [bind]. rewrite ?py_index_0 by exact Hne'. cbn [bind]. fold base.
      rewrite (py_index_nat deltas k 0%Q) by lia. cbn [bind].
      pose proof (Hb _ (Hsub _ (nth_In (cfgs idx) 0 Hk))) as Hx. fold base in Hx.
      rewrite py_store_ok; [reflexivity|]. unfold zlen. rewrite Hlen, zeros_length. lia. }
  destruct (isr idx && isr new_idx) eqn:Er.
  - apply andb_true_iff in Er. destruct Er as [E1 E2]. unfold idl_eqb. rewrite E1, E2. cbn [Bool.eqb andb].
    destruct (zlist_eqb (cfgs idx) (cfgs new_idx)); [|exact K].
    change (inject_Z 1) with 1%Q. destruct (Qeqb sf 1); reflexivity.
  - cbn [andb]. exact K.
Qed.

(* ------------------------------------------------------------------ _merge_idx *)
Lemma all_idl_equal_pair r u : all_idl_equal [mkIdl false r; mkIdl false u] = zlist_eqb r u.
Proof. unfold all_idl_equal, idl_eqb. simpl. rewrite andb_true_r. reflexivity. Qed.

Theorem merge_idx_tie (l : list idl) :
  l <> [] -> Forall (fun i => incr (cfgs i)) l ->
  (all_idl_equal l = true \/ (2 <= List.length (zunion (map cfgs l)))%nat) ->
  _merge_idx l = Ok (merge_idx l).
Proof.
  intros Hne Hinc Hdom. unfold _merge_idx, merge_idx.
  destruct (all_idl_equal l) eqn:Eall.
  - destruct l as [|x r]; [congruence|]. rewrite (py_index_nth _ 0 x) by (unfold zlen; simpl; lia). reflexivity.
  - destruct Hdom as [Hd|Hd]; [discriminate|]. cbv zeta. cbn [cfgs].
    rewrite py_sorted_union_zunion by (rewrite Forall_map; exact Hinc).
    set (u := zunion (map cfgs l)) in *.
    assert (Hu : u <> []) by (intro E; rewrite E in Hd; simpl in Hd; lia).
    assert (Hui : incr u) by (apply zunion_incr; rewrite Forall_map; exact Hinc).
    change (- (1)) with (-1). rewrite py_index_0, py_index_m1, py_index_1 by assumption. cbn [bind].
    assert (Hstep : 0 < znth u 1 - zhd u).
    { destruct u as [|a [|b r]]; simpl in Hd; try lia. unfold znth, zhd. simpl.
      inversion Hui as [|? ? _ Hlt]; subst. inversion Hlt; subst. lia. }
    unfold py_range. destruct (znth u 1 - zhd u =? 0) eqn:E0; [lia|]. cbn [bind]. cbn [cfgs].
    rewrite zrange_any_pos by exact Hstep. rewrite all_idl_equal_pair.
    destruct (zlist_eqb (zrange (zhd u) (zlast u + 1) (znth u 1 - zhd u)) u) eqn:Er; [|reflexivity].
    apply zlist_eqb_eq in Er. rewrite Er. reflexivity.
Qed.

Print Assumptions expand_for_merge_tie.
Print Assumptions merge_idx_tie.
