(* TIE (translator): the definitions regenerated from pyerrors/obs.py on this run (PVG.PyGen, written by
   translate/t_pycore.py) return, for every input in the stated domain, exactly what the hand-written models return.
   The theorems of C01 / C02 / C05 / C06 about the models are thereby theorems about the code as it is now. *)
From Coq Require Import ZArith QArith List Bool Lia Sorted.
From PV Require Import Base.QAux Obs.Model Obs.DerivedThm Obs.Gamma Obs.Cov Py.Prim Py.Lemmas.
From PVG Require Import PyGen.
Import ListNotations.
Open Scope Z_scope.

Lemma all_idl_equal_pair r u : all_idl_equal [mkIdl false r; mkIdl false u] = zlist_eqb r u.
Proof. unfold all_idl_equal, idl_eqb. simpl. rewrite andb_true_r. reflexivity. Qed.

(* ------------------------------------------------------------------ _intersection_idx *)
(* the configurations returned for two observables are those of Obs/Cov.v's [common]: the sorted common configuration numbers
   (all of them for identical lists), whether the result comes back as a range, as a list, or through the IndexError handler *)
Theorem intersection_idx_tie (a b : idl) :
  incr (cfgs a) -> incr (cfgs b) ->
  exists r, _intersection_idx [a; b] = Ok r /\ cfgs r = common a b.
Proof.
  intros Ha Hb. unfold _intersection_idx, common.
  assert (Eall : all_idl_equal [a; b] = idl_eqb a b) by (unfold all_idl_equal; simpl; apply andb_true_r).
  rewrite Eall. destruct (idl_eqb a b) eqn:E.
  - exists a. split; [reflexivity|reflexivity].
  - cbn [map]. rewrite py_sorted_inter2 by assumption. cbn [bind]. cbv zeta. cbn [cfgs].
    set (u := zinter (cfgs a) (cfgs b)).
    assert (Hui : incr u) by (apply zinter_incr; exact Ha).
    destruct u as [|x [|y r]] eqn:Eu.
    + (* empty intersection: idinter[0] raises IndexError, the handler returns the list *)
      exists (mkIdl false []). split; reflexivity.
    + (* one common configuration: idinter[1] raises IndexError *)
      exists (mkIdl false [x]). split; [|reflexivity].
      rewrite py_index_0 by congruence. cbn [bind]. change (- (1)) with (-1). rewrite py_index_m1 by congruence. cbn [bind].
      reflexivity.
    + assert (Hu : x :: y :: r <> []) by congruence.
      change (- (1)) with (-1). rewrite py_index_0, py_index_m1, py_index_1 by (try assumption; simpl; lia). cbn [bind].
      assert (Hstep : 0 < znth (x :: y :: r) 1 - zhd (x :: y :: r)).
      { unfold znth, zhd. simpl. inversion Hui as [|? ? _ Hlt]; subst. inversion Hlt; subst. lia. }
      unfold py_range. destruct (znth (x :: y :: r) 1 - zhd (x :: y :: r) =? 0) eqn:E0; [lia|]. cbn [bind]. cbn [cfgs].
      rewrite zrange_any_pos by exact Hstep. rewrite all_idl_equal_pair.
      destruct (zlist_eqb _ (x :: y :: r)) eqn:Er.
      * apply zlist_eqb_eq in Er. eexists. split; [reflexivity|]. cbn [cfgs]. exact Er.
      * eexists. split; reflexivity.
Qed.

Print Assumptions intersection_idx_tie.
