(* TIE (translator): the statements of sort_corr (pyerrors/obs.py) that build the index mapping -- block offsets in key order, blocks
   emitted in alphabetical key order -- regenerated on this run, are the model Obs/Cov.v:sort_mapping (for duplicate-free keys); the
   translator also insists that the matrix is then permuted as corr_sorted[i][j] = corr[mapping[i]][mapping[j]] over the full index range
   (Cov.permute_mat).  Hence sort_corr_is_permutation (C06) speaks about the code as it is now. *)
From Coq Require Import ZArith QArith List Bool String Lia ZifyBool.
From PV Require Import Base.QAux Obs.Model Obs.Derived Obs.DerivedThm Obs.DerivedSpec Obs.Cov Py.Prim Py.Lemmas.
From PVG Require Import PyGen.
Import ListNotations.
Open Scope Z_scope.

(* ------------------------------------------------------------------ sorted(kl) *)
Lemma sinsert_dup_fresh s l : ~ In s l -> sinsert_dup s l = sinsert s l.
Proof.
  induction l as [|x r IH]; intro H; [reflexivity|]. simpl.
  assert (Hne : s <> x) by (intro E; apply H; left; auto).
  destruct (String.eqb s x) eqn:E; [apply String.eqb_eq in E; congruence|].
  unfold String.leb, String.ltb. destruct (String.compare s x) eqn:C.
  - apply String.compare_eq_iff in C. congruence.
  - reflexivity.
  - f_equal. apply IH. intro Hin. apply H. right. exact Hin.
Qed.
Lemma sorted_strings_nodup l : NoDup l -> py_sorted_strings l = ssort_set l.
Proof.
  induction 1 as [|x l Hx Hl IH]; [reflexivity|]. unfold py_sorted_strings, ssort_set in *. cbn [fold_right]. rewrite IH.
  apply sinsert_dup_fresh. fold (ssort_set l). rewrite ssort_set_In. exact Hx.
Qed.

(* ------------------------------------------------------------------ the offsets loop *)
Definition getl (d : list (string * list Z)) (k : string) : option (list Z) := option_map snd (find (fun p => String.eqb (fst p) k) d).
Lemma getl_put_same d k v : getl (dictl_put d k v) k = Some v.
Proof. unfold getl, dictl_put. cbn [find fst]. rewrite String.eqb_refl. reflexivity. Qed.
Lemma getl_put_other d k v k' : k <> k' -> getl (dictl_put d k v) k' = getl d k'.
Proof.
  intro H. unfold getl, dictl_put. cbn [find fst]. destruct (String.eqb k k') eqn:E; [apply String.eqb_eq in E; congruence|].
  f_equal. induction d as [|p d IH]; [reflexivity|]. cbn [filter find].
  destruct (String.eqb (fst p) k) eqn:E1; cbn [negb].
  - destruct (String.eqb (fst p) k') eqn:E2; [|exact IH]. apply String.eqb_eq in E1. apply String.eqb_eq in E2. congruence.
  - cbn [find]. destruct (String.eqb (fst p) k'); [reflexivity|exact IH].
Qed.
Lemma py_dictl_get_getl d k : py_dictl_get d k = match getl d k with Some v => Ok v | None => Raise NameError end.
Proof. unfold py_dictl_get, getl. destruct (find _ d); reflexivity. Qed.

Lemma shifted_range n : forall ofs, map (fun i => i + Z.of_nat ofs) (map Z.of_nat (seq 0 n)) = map Z.of_nat (seq ofs n).
Proof.
  induction n as [|n IH]; intro ofs; [reflexivity|]. cbn [seq map]. f_equal; try lia.
  rewrite <- (IH (S ofs)). rewrite <- seq_shift, !map_map. apply map_ext. intro a. lia.
Qed.

Definition model_get (kl : list string) (sizes : string -> nat) (ofs : nat) (k : string) : option (list Z) :=
  option_map (fun p => map Z.of_nat (snd p)) (find (fun p => String.eqb (fst p) k) (offsets kl sizes ofs)).

Lemma offsets_loop (sizes : string -> nat) : forall kl d0 ofs, NoDup kl ->
  exists d1 ofs1,
    py_for kl (d0, Z.of_nat ofs)
      (fun st3 v_k => let '(v_posd, v_ofs) := st3 in
         t1 <- py_map (fun v_i => Ok (v_i + v_ofs)) (py_upto (Z.of_nat (sizes v_k))) ;;
         t2 <- py_dictl_get (dictl_put v_posd v_k t1) v_k ;; Ok (dictl_put v_posd v_k t1, v_ofs + zlen t2))
    = Ok (d1, ofs1)
    /\ forall k, getl d1 k = match model_get kl sizes ofs k with Some v => Some v | None => getl d0 k end.
Proof.
  induction kl as [|x kl IH]; intros d0 ofs Hnd.
  - exists d0, (Z.of_nat ofs). split; [reflexivity|]. intro k. reflexivity.
  - inversion Hnd as [|? ? Hx Hkl]; subst. cbn [py_for].
    rewrite (py_map_total _ (fun i => i + Z.of_nat ofs)) by (intros; reflexivity). cbn [bind].
    rewrite py_upto_seq, shifted_range. rewrite py_dictl_get_getl, getl_put_same. cbn [bind].
    unfold zlen. rewrite map_length, seq_length.
    replace (Z.of_nat ofs + Z.of_nat (sizes x)) with (Z.of_nat (ofs + sizes x)) by lia.
    destruct (IH (dictl_put d0 x (map Z.of_nat (seq ofs (sizes x)))) (ofs + sizes x)%nat Hkl) as [d1 [ofs1 [E G]]].
    exists d1, ofs1. split; [exact E|]. intro k. rewrite G. unfold model_get. cbn [offsets find fst].
    destruct (String.eqb x k) eqn:Exk.
    + apply String.eqb_eq in Exk. subst k. cbn [option_map snd].
      assert (Hnone : find (fun p => String.eqb (fst p) x) (offsets kl sizes (ofs + sizes x)) = None).
      { clear -Hx. generalize (ofs + sizes x)%nat. induction kl as [|y kl IH]; intro o; [reflexivity|]. cbn [offsets find fst].
        destruct (String.eqb y x) eqn:Eyx; [apply String.eqb_eq in Eyx; subst; exfalso; apply Hx; left; reflexivity|].
        apply IH. intro H. apply Hx. right. exact H. }
      rewrite Hnone. cbn [option_map]. apply getl_put_same.
    + destruct (find (fun p => String.eqb (fst p) k) (offsets kl sizes (ofs + sizes x))); [reflexivity|].
      cbn [option_map]. apply getl_put_other. intro Ek. subst. rewrite String.eqb_refl in Exk. discriminate.
Qed.

(* ------------------------------------------------------------------ the emission loops *)
Lemma emit_block (L : list Z) n (d : list (string * list Z)) k : List.length L = n -> getl d k = Some L -> forall m,
  py_for (py_upto (Z.of_nat n)) m
    (fun st6 v_i => t4 <- py_dictl_get d k ;; t5 <- py_index t4 v_i ;; Ok (st6 ++ [t5]))
  = Ok (m ++ L).
Proof.
  intros Hl Hg m. rewrite py_upto_seq. rewrite (py_for_append (fun z => nth (Z.to_nat z) L 0)).
  - f_equal. f_equal. rewrite map_map. rewrite <- Hl.
    transitivity (map (fun x : Z => x) L); [|apply map_id].
    rewrite <- (map_nth_seq (fun x : Z => x) L 0). apply map_ext. intro a. rewrite Nat2Z.id. reflexivity.
  - intros st x Hx. apply in_map_iff in Hx. destruct Hx as [i [<- Hi]]. apply in_seq in Hi.
    rewrite py_dictl_get_getl, Hg. cbn [bind]. rewrite (py_index_nat L i 0) by lia. cbn [bind]. rewrite Nat2Z.id. reflexivity.
Qed.

Theorem sort_corr_mapping_tie (kl : list string) (sizes : string -> nat) :
  NoDup kl -> sort_corr_mapping kl (fun k => Z.of_nat (sizes k)) = Ok (map Z.of_nat (sort_mapping kl sizes)).
Proof.
  intro Hnd. unfold sort_corr_mapping. cbv zeta.
  destruct (offsets_loop sizes kl [] 0%nat Hnd) as [d1 [ofs1 [E G]]]. change (Z.of_nat 0) with 0 in E.
  rewrite E. cbn [bind]. rewrite sorted_strings_nodup by exact Hnd.
  unfold sort_mapping.
  assert (Hget : forall k, In k kl -> exists p, find (fun q => String.eqb (fst q) k) (offsets kl sizes 0) = Some p
                                         /\ getl d1 k = Some (map Z.of_nat (snd p)) /\ List.length (snd p) = sizes k).
  { intros k Hk.
    assert (Hf : exists p, find (fun q => String.eqb (fst q) k) (offsets kl sizes 0) = Some p /\ List.length (snd p) = sizes k).
    { clear -Hk. generalize 0%nat. induction kl as [|y kl IH]; intro o; [destruct Hk|]. cbn [offsets find fst].
      destruct (String.eqb y k) eqn:Ey.
      - apply String.eqb_eq in Ey. subst. eexists. split; [reflexivity|]. cbn [snd]. apply seq_length.
      - destruct Hk as [->|Hk]; [rewrite String.eqb_refl in Ey; discriminate|]. apply IH. exact Hk. }
    destruct Hf as [p [Hp Hl]]. exists p. split; [exact Hp|]. split; [|exact Hl].
    rewrite G. unfold model_get. rewrite Hp. reflexivity. }
  (* outer loop over the sorted keys *)
  assert (Hout : forall ks m, (forall k, In k ks -> In k kl) ->
    py_for ks m
      (fun st7 v_k => st6 <- py_for (py_upto (Z.of_nat (sizes v_k))) st7
                                 (fun st6 v_i => t4 <- py_dictl_get d1 v_k ;; t5 <- py_index t4 v_i ;; Ok (st6 ++ [t5])) ;; Ok st6)
    = Ok (m ++ map Z.of_nat (flat_map (fun k => match find (fun p => String.eqb (fst p) k) (offsets kl sizes 0) with Some p => snd p | None => [] end) ks))).
  { induction ks as [|k ks IH]; intros m Hsub; [cbn; rewrite app_nil_r; reflexivity|].
    cbn [py_for flat_map]. destruct (Hget k (Hsub k (or_introl eq_refl))) as [p [Hp [Hg Hl]]].
    rewrite (emit_block (map Z.of_nat (snd p)) (sizes k) d1 k) by (try assumption; rewrite map_length; exact Hl).
    cbn [bind]. rewrite IH by (intros k' Hk'; apply Hsub; right; exact Hk'). rewrite Hp, map_app, app_assoc. reflexivity. }
  rewrite (Hout (ssort_set kl) []) by (intros k Hk; apply ssort_set_In; exact Hk). reflexivity.
Qed.

Print Assumptions sort_corr_mapping_tie.
