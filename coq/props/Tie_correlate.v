(* TIE (translator): what correlate() (pyerrors/obs.py) does with one replica, regenerated on this run (C05): the two checks of its validation
   loop and the statement that builds the samples of the result.  A replica whose sample counts or configuration lists differ raises
   ValueError; otherwise the samples are the products, configuration by configuration (identical lists: equal positions are equal configuration
   numbers), of the two observables' samples  delta + replica mean. *)
From Coq Require Import ZArith QArith List Bool Lia.
From PV Require Import Base.QAux Obs.Model Py.Prim Py.Lemmas.
From PVG Require Import PyGen.
Import ListNotations.
Open Scope Z_scope.

Lemma arr_zip_nth (f : Q -> Q -> Q) a : forall b j, List.length a = List.length b -> (j < List.length a)%nat ->
  nth j (arr_zip f a b) 0%Q = f (nth j a 0%Q) (nth j b 0%Q).
Proof.
  induction a as [|x a IH]; intros [|y b] j Hl Hj; simpl in *; try lia. destruct j as [|j]; [reflexivity|]. apply IH; lia.
Qed.
Lemma arr_zip_len (f : Q -> Q -> Q) a : forall b, List.length a = List.length b -> List.length (arr_zip f a b) = List.length a.
Proof. induction a as [|x a IH]; intros [|y b] H; simpl in *; try lia. rewrite IH; lia. Qed.
Lemma nth_map_Q0 (f : Q -> Q) l j : (j < List.length l)%nat -> nth j (map f l) 0%Q = f (nth j l 0%Q).
Proof. revert j; induction l as [|x l IH]; intros [|j] H; simpl in *; try lia; [reflexivity|apply IH; lia]. Qed.

Theorem correlate_replica_rejects ashape bshape aidl bidl adeltas ar bdeltas br :
  ashape <> bshape \/ idl_eqb aidl bidl = false ->
  correlate_replica ashape bshape aidl bidl adeltas ar bdeltas br = Raise ValueError.
Proof.
  intro H. unfold correlate_replica. cbv zeta. destruct (ashape =? bshape) eqn:E; cbn [negb]; [|reflexivity].
  destruct H as [H|H]; [apply Z.eqb_eq in E; contradiction|]. rewrite H. reflexivity.
Qed.

Theorem correlate_replica_tie ashape bshape aidl bidl adeltas ar bdeltas br :
  ashape = bshape -> idl_eqb aidl bidl = true -> List.length adeltas = List.length bdeltas ->
  exists r, correlate_replica ashape bshape aidl bidl adeltas ar bdeltas br = Ok r
            /\ List.length r = List.length adeltas
            /\ forall j, (j < List.length adeltas)%nat -> (nth j r 0 == (nth j adeltas 0 + ar) * (nth j bdeltas 0 + br))%Q.
Proof.
  intros Hs Hi Hl. unfold correlate_replica. cbv zeta. subst bshape. rewrite Z.eqb_refl, Hi. cbn [negb].
  unfold py_arr_mul2, py_arr_zip, arr_add_s. rewrite !map_length.
  replace (Nat.eqb (List.length adeltas) (List.length bdeltas)) with true by (symmetry; apply Nat.eqb_eq; exact Hl). cbn [bind].
  eexists. split; [reflexivity|]. split.
  - rewrite arr_zip_len by (rewrite !map_length; exact Hl). apply map_length.
  - intros j Hj. rewrite arr_zip_nth by (rewrite ?map_length; lia). rewrite !nth_map_Q0 by lia. reflexivity.
Qed.

Example correlate_replica_nonvacuous :
  correlate_replica 3 3 (mkIdl true [1; 2; 3]) (mkIdl true [1; 2; 3]) [1#2; -1#2; 0]%Q 2%Q [1; 0; -1]%Q 3%Q = Ok [20#2; 9#2; 4]%Q
  /\ correlate_replica 3 3 (mkIdl true [1; 2; 3]) (mkIdl false [1; 2; 3]) [1#2; -1#2; 0]%Q 2%Q [1; 0; -1]%Q 3%Q = Raise ValueError.
Proof. split; vm_compute; reflexivity. Qed.

Print Assumptions correlate_replica_tie.
Print Assumptions correlate_replica_rejects.
