(* Property C02 -- the Gamma-method error estimate equals Wolff's estimator on every chain layout.
   Property theorems only; proofs in PV.Obs.GammaThm and PV.Base.RI. *)
From Coq Require Import ZArith QArith Qabs List Bool Reals.
From Interval Require Import Real.Xreal.
From PV Require Import Base.QAux Base.RI Obs.Model Obs.DerivedThm Obs.Gamma Obs.GammaThm.
Import ListNotations.
Open Scope Q_scope.

(* The zero-filled array + shifted dot product of the code computes, for every strictly increasing configuration list
   with a common spacing (contiguous, strided, gapped), the sum over the configurations c of
   delta(c) * delta(c + t gap): products of fluctuations t measurement steps apart, by configuration NUMBER. *)
Theorem autocorrelation_is_sum_over_pairs_t_steps_apart :
  forall deltas i gap n w,
  (0 < gap)%Z -> incr (cfgs i) -> List.length (cfgs i) = List.length deltas -> cfgs i <> [] ->
  (forall x, In x (cfgs i) -> ((x - zhd (cfgs i)) mod gap = 0)%Z) ->
  (isr i && (rep_gap (mkGrep i deltas) =? gap)%Z = false) ->
  (n < w)%nat -> (n <= Z.to_nat ((zlast (cfgs i) - zhd (cfgs i) + gap) / gap))%nat ->
  nth n (calc_gamma (expand_deltas deltas i gap) w) 0 == pair_sum dl (mkGrep i deltas) gap (Z.of_nat n).
Proof. exact gamma_is_pair_sum. Qed.

(* the divisor (the same computation on ones) counts the pairs actually present; at lag 0 it is the chain length *)
Theorem pair_count_at_lag_zero :
  forall r gap, List.length (cfgs (g_idl r)) = List.length (g_deltas r) -> pair_sum present r gap 0 == QlenL (cfgs (g_idl r)).
Proof. exact pair_count_lag0. Qed.

(* FFT path: with the code's padding, the circular autocorrelation equals the linear one for every lag that is kept *)
Theorem fft_path_computes_the_same_sums :
  forall x P n m, (n < m)%nat -> (List.length x + m <= P)%nat ->
  circ_autocorr x P n == Qsum (map (fun k => nth k x 0 * nth (k + n) x 0) (seq 0 (List.length x - n))).
Proof. exact fft_padding_sufficient. Qed.
Theorem fft_padding_of_the_code_is_sufficient_and_even :
  forall L w_max, (L + Nat.min L w_max <= fft_padding L w_max)%nat /\ (fft_padding L w_max mod 2 = 0)%nat.
Proof. exact code_padding_is_sufficient_and_even. Qed.

(* the three slices of _compute_drho are the index form  (1/N) sum_{k=1}^{w-i-1} (rho(i+k) + rho(|i-k|) - 2 rho(i) rho(k))^2 *)
Theorem drho_slices_are_the_index_form :
  forall rho w N i, Z.of_nat (List.length rho) = w -> (1 <= i < w)%Z ->
  compute_drho_sq rho w N i == drho_sq_spec (qnthz rho) w N i.
Proof. exact compute_drho_is_index_form. Qed.

(* the window is the FIRST lag at which the windowing criterion is negative, else the largest admissible lag *)
Theorem window_is_first_negative_lag :
  forall gws fuel n w_max N S nt W,
  window_auto gws fuel n w_max N S nt = Some W -> (n <= w_max - 1)%Z -> (Z.to_nat (w_max - 1 - n) < fuel)%nat ->
  (n <= W <= w_max - 1)%Z
  /\ (forall m, (n <= m < W)%Z -> gws (qnthz nt m) S m N = Some false)
  /\ (W = (w_max - 1)%Z \/ gws (qnthz nt W) S W N = Some true).
Proof. exact window_auto_first_negative. Qed.
Theorem window_loop_is_first_negative_search :
  forall gws fuel n w_max N S nt, (n <= w_max - 1)%Z ->
  window_auto gws fuel n w_max N S nt = first_neg fuel n (w_max - 1) (fun m => gws (qnthz nt m) S m N).
Proof. exact window_auto_eq_first_neg. Qed.

(* the sign of g_W(n) = exp(-n/tau) - tau/sqrt(nN) is decided by a verified interval enclosure (margin 2^-30) *)
Theorem windowing_sign_negative_is_sound :
  forall t S n N, gw_sign t S n N = Some true -> exists r, Xadd (Xg t S n N) Xmargin = Xreal r /\ (r < 0)%R.
Proof. exact gw_sign_true_sound. Qed.
Theorem windowing_sign_positive_is_sound :
  forall t S n N, gw_sign t S n N = Some false -> exists r, Xsub (Xg t S n N) Xmargin = Xreal r /\ (0 < r)%R.
Proof. exact gw_sign_false_sound. Qed.

(* the tau_exp criterion rho(n) - N_sigma drho(n) < 0 is decided exactly from rho, N_sigma and drho^2 *)
Theorem tail_criterion_decided_exactly :
  forall rho nsig d drho_sq, 0 <= nsig -> 0 <= d -> d * d == drho_sq -> (crit_neg rho nsig drho_sq = true <-> rho - nsig * d < 0).
Proof. exact crit_neg_sound. Qed.

(* Gamma(0) = sum delta^2 / N, hence S = 0 gives sum delta^2 / (N (N-1)): the naive standard error of the mean *)
Theorem gamma_at_lag_zero :
  forall reps gap, Forall rep_ok reps -> 1 <= Qsum (map (fun r => QlenL (cfgs (g_idl r))) reps) ->
  gamma_spec reps gap 0 ==
  Qsum (map (fun r => Qsum (map (fun d => d * d) (g_deltas r))) reps) / Qsum (map (fun r => QlenL (cfgs (g_idl r))) reps).
Proof. exact gamma_spec_lag0. Qed.

(* Non-vacuity: a gapped chain {1,2,4,5,8} (spacing 1): hypotheses hold, lag-1 pairs are (1,2) and (4,5) only *)
Example c02_example :
  let i := mkIdl false [1;2;4;5;8]%Z in let d := [1; 2; 3; -4; 5] in
  incr (cfgs i) /\ (forall x, In x (cfgs i) -> ((x - zhd (cfgs i)) mod 1 = 0)%Z) /\
  map Qred (calc_gamma (expand_deltas d i 1) 3) = map Qred [55; -10; 6] /\
  Qred (pair_sum dl (mkGrep i d) 1 1) = Qred (-10) /\ Qred (pair_sum present (mkGrep i d) 1 1) = Qred 2.
Proof.
  cbv zeta. split; [repeat constructor|]. split; [intros x _; apply Z.mod_1_r|]. repeat split; vm_compute; reflexivity.
Qed.

Print Assumptions autocorrelation_is_sum_over_pairs_t_steps_apart.
Print Assumptions fft_path_computes_the_same_sums.
Print Assumptions drho_slices_are_the_index_form.
Print Assumptions window_is_first_negative_lag.
Print Assumptions tail_criterion_decided_exactly.
Print Assumptions gamma_at_lag_zero.
Print Assumptions windowing_sign_negative_is_sound.
