(* TIE (translator): _determine_gap and the r_length / w_max statements of Obs.gamma_method, regenerated from pyerrors/obs.py
   on this run, return exactly what the hand-written model Obs/Gamma.v computes (determine_gap, r_length, the w_max of analyse). *)
From Coq Require Import ZArith QArith List Bool Lia Sorted.
From PV Require Import Base.QAux Obs.Model Obs.DerivedThm Obs.Gamma Py.Prim Py.Lemmas.
From PVG Require Import PyGen.
Import ListNotations.
Open Scope Z_scope.

Definition as_grep (i : idl) : grep := mkGrep i [].
Definition rep_dom (i : idl) : Prop := incr (cfgs i) /\ cfgs i <> [] /\ (isr i = false -> (2 <= List.length (cfgs i))%nat).

Lemma rep_gap_pos i : incr (cfgs i) -> 0 < rep_gap (as_grep i).
Proof.
  intro H. unfold rep_gap, as_grep. simpl. pose proof (diffs_pos _ H) as Hd.
  destruct (diffs (cfgs i)) as [|d ds]; [lia|]. inversion Hd as [|? ? H1 H2]; subst.
  destruct (isr i); [exact H1|]. unfold zmin_list. apply fold_min_pos; assumption.
Qed.

Lemma diffs_nonempty l : (2 <= List.length l)%nat -> diffs l <> [].
Proof. destruct l as [|x [|y r]]; simpl; try lia. congruence. Qed.

Theorem determine_gap_tie (reps : list idl) :
  reps <> [] -> Forall rep_dom reps ->
  _determine_gap reps = match determine_gap (map as_grep reps) with Some g => Ok g | None => Raise ValueError end.
Proof.
  intros Hne Hdom. unfold _determine_gap, determine_gap. cbv zeta.
  rewrite (py_for_append (fun i => rep_gap (as_grep i))).
  2:{ intros st x Hx. cbv beta zeta. rewrite Forall_forall in Hdom. destruct (Hdom x Hx) as [Hi [_ H2]].
      unfold rep_gap, as_grep, range_step. cbn [g_idl].
      destruct (isr x) eqn:Er.
      - destruct (diffs (cfgs x)); reflexivity.
      - unfold py_min_diff, py_min. pose proof (diffs_nonempty _ (H2 eq_refl)) as Hd.
        destruct (diffs (cfgs x)) as [|d ds]; [congruence|]. cbn [bind]. reflexivity. }
  cbn [bind app]. rewrite map_map.
  destruct reps as [|r0 rs]; [congruence|]. cbn [map].
  set (g := rep_gap (as_grep r0)). set (gs := map (fun x => rep_gap (as_grep x)) rs).
  unfold py_min. cbn [bind]. fold (zmin_list gs g).
  assert (Hpos : Forall (fun d => 0 < d) (g :: gs)).
  { unfold g, gs. rewrite Forall_forall in *. intros d Hd.
    assert (Hd' : In d (map (fun x => rep_gap (as_grep x)) (r0 :: rs))) by exact Hd. clear Hd. rename Hd' into Hd.
    apply in_map_iff in Hd. destruct Hd as [x [<- Hx]]. apply rep_gap_pos. apply (Hdom x Hx). }
  assert (Hgap : 0 < zmin_list gs g).
  { inversion Hpos; subst. apply fold_min_pos; assumption. }
  rewrite (py_map_total _ (fun gi => gi mod zmin_list gs g =? 0)).
  2:{ intros x _. unfold py_mod. destruct (zmin_list gs g =? 0) eqn:E; [lia|]. reflexivity. }
  cbn [bind].
  replace (forallb (fun b : bool => b) (map (fun gi => gi mod zmin_list gs g =? 0) (g :: gs)))
    with (forallb (fun gi => gi mod zmin_list gs g =? 0) (g :: gs)).
  2:{ generalize (g :: gs). intro l. induction l as [|a l IH]; simpl; [reflexivity|]. rewrite IH. reflexivity. }
  destruct (forallb (fun gi => gi mod zmin_list gs g =? 0) (g :: gs)); reflexivity.
Qed.

Theorem w_max_tie (reps : list idl) gap :
  reps <> [] -> 0 < gap -> Forall rep_dom reps ->
  gamma_method_w_max reps gap = Ok (fold_right Z.max 0 (map (r_length gap) (map as_grep reps)) / 2).
Proof.
  intros Hne Hg Hdom. unfold gamma_method_w_max. cbv zeta.
  rewrite (py_for_append (fun i => r_length gap (as_grep i))).
  2:{ intros st x Hx. cbv beta zeta. rewrite Forall_forall in Hdom. destruct (Hdom x Hx) as [Hi [Hn H2]].
      unfold r_length, as_grep. cbn [g_idl].
      destruct (isr x) eqn:Er.
      - unfold py_floordiv. destruct (gap =? 0) eqn:E; [lia|]. cbn [bind].
        fold (as_grep x). unfold rep_gap, as_grep, range_step, zlen. cbn [g_idl]. rewrite Er.
        destruct (diffs (cfgs x)); reflexivity.
      - change (- (1)) with (-1). rewrite py_index_m1, py_index_0 by exact Hn. cbn [bind].
        unfold py_floordiv. destruct (gap =? 0) eqn:E; [lia|]. reflexivity. }
  cbn [bind app]. rewrite map_map.
  destruct reps as [|r0 rs]; [congruence|]. cbn [map]. unfold py_max. cbn [bind].
  f_equal. f_equal.
  rewrite fold_max_nonneg.
  - rewrite ?map_map. reflexivity.
  - rewrite Forall_forall in Hdom. destruct (Hdom r0 (or_introl eq_refl)) as [Hi [Hn _]].
    unfold r_length, as_grep. cbn [g_idl]. destruct (isr r0).
    + apply Z.div_pos; [|lia]. pose proof (rep_gap_pos r0 Hi). unfold as_grep in H. apply Z.mul_nonneg_nonneg; lia.
    + apply Z.div_pos; [|lia]. destruct (cfgs r0) as [|x r] eqn:E; [congruence|].
      pose proof (incr_bounds _ x Hi (or_introl eq_refl)). lia.
  - rewrite Forall_forall in *. intros d Hd. apply in_map_iff in Hd. destruct Hd as [x [<- Hx]].
    destruct (Hdom x (or_intror Hx)) as [Hi [Hn _]].
    unfold r_length, as_grep. cbn [g_idl]. destruct (isr x).
    + apply Z.div_pos; [|lia]. pose proof (rep_gap_pos x Hi). unfold as_grep in H. apply Z.mul_nonneg_nonneg; lia.
    + apply Z.div_pos; [|lia]. destruct (cfgs x) as [|y r] eqn:E; [congruence|].
      pose proof (incr_bounds _ y Hi (or_introl eq_refl)). lia.
Qed.

Print Assumptions determine_gap_tie.
Print Assumptions w_max_tie.
