(* TIE (translator): the three comprehensions of Corr.plottable, regenerated from pyerrors/correlators.py on this run over abstract timeslice
   entries with a central value and an error (C19): x_list holds the positions of the defined timeslices in increasing order, y_list and
   y_err_list the value and the error of exactly those timeslices in the same order -- point i pairs timeslice x_i with ITS value and error,
   whatever the pattern of undefined timeslices (padding in front included).  None of the three can raise. *)
From Coq Require Import ZArith QArith List Bool Lia.
From PV Require Import Base.QAux Obs.Model Py.Prim Py.Lemmas.
From PVG Require Import PyGen.
Import ListNotations.
Open Scope Z_scope.

Section Plot.
Variable E : Type.
Variables evalue edvalue : E -> Q.

Fixpoint pos_from (off : nat) (c : list (option E)) : list nat :=
  match c with
  | [] => []
  | None :: r => pos_from (S off) r
  | Some _ :: r => off :: pos_from (S off) r
  end.
Fixpoint vals (f : E -> Q) (c : list (option E)) : list Q :=
  match c with
  | [] => []
  | None :: r => vals f r
  | Some e :: r => f e :: vals f r
  end.

Lemma filter_cons_if {A} (f : A -> bool) a l : filter f (a :: l) = if f a then a :: filter f l else filter f l.
Proof. reflexivity. Qed.

Lemma filter_positions (c : list (option E)) : forall off,
  filter (fun k => negb (is_none (nth (k - off) c None))) (seq off (List.length c)) = pos_from off c.
Proof.
  induction c as [|x r IH]; intro off; [reflexivity|].
  change (seq off (List.length (x :: r))) with (off :: seq (S off) (List.length r)).
  rewrite filter_cons_if. rewrite Nat.sub_diag. change (nth 0 (x :: r) None) with x.
  assert (Ht : filter (fun k => negb (is_none (nth (k - off) (x :: r) None))) (seq (S off) (List.length r)) = pos_from (S off) r).
  { rewrite <- IH. apply filter_ext_in. intros k Hk. apply in_seq in Hk.
    replace (k - off)%nat with (S (k - S off)) by lia. reflexivity. }
  rewrite Ht. destruct x; reflexivity.
Qed.

Theorem plottable_x_tie (c : list (option E)) :
  corr_plottable_x E c = Ok (map Z.of_nat (pos_from 0 c)).
Proof.
  unfold corr_plottable_x, zlen. rewrite py_upto_seq.
  rewrite (py_filter_total _ (fun z => negb (is_none (nth (Z.to_nat z) c None)))).
  - cbn [bind]. f_equal. rewrite <- filter_positions.
    rewrite filter_map_swap. f_equal. apply filter_ext. intro k. rewrite Nat2Z.id, Nat.sub_0_r. reflexivity.
  - intros z Hz. apply in_map_iff in Hz. destruct Hz as [k [<- Hk]]. apply in_seq in Hk.
    rewrite (py_index_nat c k None) by lia. rewrite Nat2Z.id. reflexivity.
Qed.

Lemma filter_defined_vals (f : E -> Q) (c : list (option E)) :
  py_map (fun v_y => t2 <- py_eun f v_y ;; Ok t2) (filter (fun y => negb (is_none y)) c) = Ok (vals f c).
Proof.
  induction c as [|x r IH]; [reflexivity|]. destruct x as [e|]; cbn [filter is_none negb].
  - cbn [py_map py_eun bind]. rewrite IH. reflexivity.
  - exact IH.
Qed.

Theorem plottable_y_tie (c : list (option E)) : corr_plottable_y E evalue c = Ok (vals evalue c).
Proof.
  unfold corr_plottable_y. rewrite (py_filter_total _ (fun y => negb (is_none y))) by (intros; reflexivity).
  cbn [bind]. rewrite filter_defined_vals. reflexivity.
Qed.
Theorem plottable_yerr_tie (c : list (option E)) : corr_plottable_yerr E edvalue c = Ok (vals edvalue c).
Proof.
  unfold corr_plottable_yerr. rewrite (py_filter_total _ (fun y => negb (is_none y))) by (intros; reflexivity).
  cbn [bind]. rewrite filter_defined_vals. reflexivity.
Qed.

(* point i of the three lists belongs to one timeslice: the one x_i names *)
Theorem points_pair_timeslice_with_its_own_value (f : E -> Q) (c : list (option E)) : forall off i,
  List.length (pos_from off c) = List.length (vals f c) /\
  ((i < List.length (vals f c))%nat ->
   (off <= nth i (pos_from off c) 0%nat)%nat /\
   exists e, nth (nth i (pos_from off c) 0%nat - off) c None = Some e /\ nth i (vals f c) 0%Q = f e).
Proof.
  induction c as [|x r IH]; intros off i.
  - split; [reflexivity|]. simpl. lia.
  - destruct x as [e|]; cbn [pos_from vals].
    + destruct (IH (S off) (i - 1)%nat) as [Hlen Hp]. split; [simpl; lia|].
      intro Hi. destruct i as [|i].
      * cbn [nth]. split; [lia|]. rewrite Nat.sub_diag. exists e. split; reflexivity.
      * cbn [nth]. simpl in Hi. replace (S i - 1)%nat with i in Hp by lia.
        destruct (Hp ltac:(lia)) as [Hge [e' [He Hv]]]. split; [lia|].
        exists e'. split; [|exact Hv].
        replace (nth i (pos_from (S off) r) 0%nat - off)%nat with (S (nth i (pos_from (S off) r) 0%nat - S off)) by lia. exact He.
    + destruct (IH (S off) i) as [Hlen Hp]. split; [exact Hlen|].
      intro Hi. destruct (Hp Hi) as [Hge [e' [He Hv]]]. split; [lia|].
      exists e'. split; [|exact Hv].
      replace (nth i (pos_from (S off) r) 0%nat - off)%nat with (S (nth i (pos_from (S off) r) 0%nat - S off)) by lia. exact He.
Qed.

(* every defined timeslice is plotted, no undefined one is *)
Theorem plotted_positions_are_the_defined_timeslices (c : list (option E)) : forall off k,
  In k (pos_from off c) <-> (off <= k)%nat /\ exists e, nth (k - off) c None = Some e.
Proof.
  induction c as [|x r IH]; intros off k.
  - simpl. split; [intros []|]. intros [_ [e He]]. destruct (k - off)%nat; discriminate.
  - destruct x as [e|]; cbn [pos_from].
    + split.
      * intros [<-|H]; [split; [lia|]; rewrite Nat.sub_diag; exists e; reflexivity|].
        apply IH in H. destruct H as [Hk [e' He]]. split; [lia|]. exists e'. replace (k - off)%nat with (S (k - S off)) by lia. exact He.
      * intros [Hk [e' He]]. destruct (Nat.eq_dec k off) as [->|Hne]; [left; reflexivity|right].
        apply IH. split; [lia|]. exists e'. replace (k - off)%nat with (S (k - S off)) in He by lia. exact He.
    + split.
      * intro H. apply IH in H. destruct H as [Hk [e' He]]. split; [lia|]. exists e'. replace (k - off)%nat with (S (k - S off)) by lia. exact He.
      * intros [Hk [e' He]]. apply IH. destruct (Nat.eq_dec k off) as [->|Hne]; [rewrite Nat.sub_diag in He; discriminate|].
        split; [lia|]. exists e'. replace (k - off)%nat with (S (k - S off)) in He by lia. exact He.
Qed.
End Plot.

Example plottable_nonvacuous :
  corr_plottable_x Q [None; Some 5; None; Some 7]%Q = Ok [1; 3]
  /\ corr_plottable_y Q (fun q => q) [None; Some 5; None; Some 7]%Q = Ok [5; 7]%Q.
Proof. split; vm_compute; reflexivity. Qed.

Print Assumptions plottable_x_tie.
Print Assumptions plottable_y_tie.
Print Assumptions points_pair_timeslice_with_its_own_value.
Print Assumptions plotted_positions_are_the_defined_timeslices.
