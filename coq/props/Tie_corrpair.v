(* TIE (translator): the loops of Corr.reweight and of Corr.correlate (Corr partner), regenerated from pyerrors/correlators.py on this run over
   abstract timeslice entries (C05): reweighting acts on every defined timeslice by itself and keeps undefined ones; correlating pairs
   timeslice x0 of the correlator with timeslice x0 of the partner -- the same timeslice NUMBER -- and is undefined exactly when one of the
   two is.  What is done with a timeslice (reweight(weight, t_slice, ..), correlate(o, partner(x0)[0])) is abstract here and covered by
   Tie_reweight.v / Tie_correlate.v and the correspondence cases. *)
From Coq Require Import ZArith QArith List Bool Lia.
From PV Require Import Base.QAux Obs.Model Py.Prim Py.Lemmas.
From PVG Require Import PyGen.
Import ListNotations.
Open Scope Z_scope.

Section Pair.
Variable E : Type.
Variable erw : E -> E.
Variable ecorr : E -> E -> E.

Theorem corr_reweight_is_timeslicewise (c : list (option E)) :
  corr_reweight_loop E erw c = Ok (map (option_map erw) c).
Proof.
  unfold corr_reweight_loop. cbv zeta.
  rewrite (py_for_append (option_map erw)); [reflexivity|].
  intros st [e|] _; reflexivity.
Qed.

Definition pair_at (a b : option E) : option E :=
  match a, b with Some x, Some y => Some (ecorr x y) | _, _ => None end.

Lemma nth_map_dflt {A B} (f : A -> B) l : forall n d d', (n < List.length l)%nat -> nth n (map f l) d = f (nth n l d').
Proof. induction l as [|x l IH]; intros [|n] d d' H; simpl in *; try lia; [reflexivity|apply IH; lia]. Qed.

Theorem corr_correlate_pairs_equal_timeslices (c p : list (option E)) :
  (List.length c <= List.length p)%nat ->
  corr_correlate_loop E ecorr c p = Ok (map (fun k => pair_at (nth k c None) (nth k p None)) (seq 0 (List.length c))).
Proof.
  intro Hl. unfold corr_correlate_loop, zlen. cbv zeta. rewrite py_upto_seq.
  rewrite (py_for_append (fun z => pair_at (nth (Z.to_nat z) c None) (nth (Z.to_nat z) p None))).
  - cbn [bind app]. f_equal. rewrite map_map. apply map_ext. intro k. rewrite Nat2Z.id. reflexivity.
  - intros st z Hz. apply in_map_iff in Hz. destruct Hz as [k [<- Hk]]. apply in_seq in Hk. rewrite Nat2Z.id.
    rewrite (py_index_nat c k None) by lia. cbn [bind].
    destruct (nth k c None) as [x|]; cbn [is_none]; [|reflexivity].
    rewrite !(py_index_nat p k None) by lia. cbn [bind].
    destruct (nth k p None) as [y|]; cbn [is_none bind py_eun pair_at]; reflexivity.
Qed.

Corollary correlated_timeslice (c p : list (option E)) t :
  (List.length c <= List.length p)%nat -> (t < List.length c)%nat ->
  nth t (map (fun k => pair_at (nth k c None) (nth k p None)) (seq 0 (List.length c))) None = pair_at (nth t c None) (nth t p None).
Proof.
  intros _ Ht. rewrite (nth_map_dflt (fun k => pair_at (nth k c None) (nth k p None)) (seq 0 (List.length c)) t None O) by (rewrite seq_length; exact Ht).
  rewrite seq_nth by exact Ht. reflexivity.
Qed.
End Pair.

Example corr_pairing_nonvacuous :
  corr_correlate_loop Q Qmult [Some 2; None; Some 3]%Q [Some 5; Some 7; None; Some 1]%Q = Ok [Some (2 * 5); None; None]%Q
  /\ corr_reweight_loop Q (fun q => q + 1)%Q [None; Some 4]%Q = Ok [None; Some (4 + 1)]%Q.
Proof. split; vm_compute; reflexivity. Qed.

Print Assumptions corr_reweight_is_timeslicewise.
Print Assumptions corr_correlate_pairs_equal_timeslices.
