(* TRANSLATED CODE, THEOREMS DIRECTLY ON IT (C07): the two comprehensions of Corr.fit (pyerrors/correlators.py) that build what is handed
   to least_squares(xs, ys, ...), regenerated on this run: the abscissae are the defined timeslices of the fit range, in order, and the
   i-th ordinate is the first entry of the timeslice that the i-th abscissa names -- pairing by timeslice, not by position. *)
From Coq Require Import ZArith QArith List Bool Lia ZifyBool.
From PV Require Import Base.QAux Obs.Model Py.Prim Py.Lemmas.
From PVG Require Import PyGen.
Import ListNotations.
Open Scope Z_scope.

Section Gen.
  Variable E : Type.
  Notation content := (list (option E)).
  Definition onth (c : content) (t : nat) : option E := nth t c None.
  Lemma py_index_onth (c : content) k : (k < List.length c)%nat -> py_index c (Z.of_nat k) = Ok (onth c k).
  Proof. intro H. apply py_index_nat. exact H. Qed.
  (* ---------------------------------------------------------------- Corr.fit: which timeslices and which entries go to least_squares *)
  Variable Y : Type.
  Variable efirst : E -> Y.
  Definition defined_at (c : content) (t : nat) : bool := negb (is_none (onth c t)).

  Theorem fit_abscissae_are_the_defined_timeslices (c : content) a b : (a <= b < List.length c)%nat ->
    corr_fit_xs E c [Z.of_nat a; Z.of_nat b] = Ok (map Z.of_nat (filter (defined_at c) (seq a (b + 1 - a)))).
  Proof.
    intro H. unfold corr_fit_xs.
    rewrite (py_index_nth [Z.of_nat a; Z.of_nat b] 0 0) by (unfold zlen; simpl; lia).
    rewrite (py_index_nth [Z.of_nat a; Z.of_nat b] 1 0) by (unfold zlen; simpl; lia). cbn [bind].
    change (nth (Z.to_nat 0) [Z.of_nat a; Z.of_nat b] 0) with (Z.of_nat a). change (nth (Z.to_nat 1) [Z.of_nat a; Z.of_nat b] 0) with (Z.of_nat b).
    replace (Z.of_nat b + 1) with (Z.of_nat (b + 1)) by lia. rewrite zrange_seq.
    rewrite (py_filter_total _ (fun z => defined_at c (Z.to_nat z))).
    - cbn [bind]. f_equal. rewrite filter_map_swap. f_equal. apply filter_ext. intro t. rewrite Nat2Z.id. reflexivity.
    - intros x Hx. apply in_map_iff in Hx. destruct Hx as [k [<- Hk]]. apply in_seq in Hk.
      rewrite (py_index_onth c k) by lia. cbn [bind]. rewrite Nat2Z.id. reflexivity.
  Qed.

  (* the i-th ordinate is the first entry of the timeslice that the i-th abscissa names: pairing by timeslice, not by position *)
  Theorem fit_ordinates_belong_to_the_abscissae (c : content) a b : (a <= b < List.length c)%nat ->
    exists ys, corr_fit_ys E Y efirst c [Z.of_nat a; Z.of_nat b] = Ok ys
               /\ map Some ys = map (fun t => option_map efirst (onth c t)) (filter (defined_at c) (seq a (b + 1 - a))).
  Proof.
    intro H. unfold corr_fit_ys.
    rewrite (py_index_nth [Z.of_nat a; Z.of_nat b] 0 0) by (unfold zlen; simpl; lia).
    rewrite (py_index_nth [Z.of_nat a; Z.of_nat b] 1 0) by (unfold zlen; simpl; lia). cbn [bind].
    change (nth (Z.to_nat 0) [Z.of_nat a; Z.of_nat b] 0) with (Z.of_nat a). change (nth (Z.to_nat 1) [Z.of_nat a; Z.of_nat b] 0) with (Z.of_nat b).
    replace (Z.of_nat b + 1) with (Z.of_nat (b + 1)) by lia. rewrite zrange_seq.
    rewrite (py_filter_total _ (fun z => defined_at c (Z.to_nat z))).
    2:{ intros x Hx. apply in_map_iff in Hx. destruct Hx as [k [<- Hk]]. apply in_seq in Hk.
        rewrite (py_index_onth c k) by lia. cbn [bind]. rewrite Nat2Z.id. reflexivity. }
    cbn [bind]. rewrite filter_map_swap.
    rewrite (filter_ext _ (defined_at c)) by (intro t; rewrite Nat2Z.id; reflexivity).
    set (ts := filter (defined_at c) (seq a (b + 1 - a))).
    assert (Hts : forall t, In t ts -> (t < List.length c)%nat /\ exists e, onth c t = Some e).
    { intros t Ht. unfold ts in Ht. apply filter_In in Ht. destruct Ht as [Hs Hd]. apply in_seq in Hs. split; [lia|].
      unfold defined_at in Hd. destruct (onth c t) as [e|]; [exists e; reflexivity|discriminate]. }
    clearbody ts. induction ts as [|t ts IH]; [exists []; split; reflexivity|].
    destruct (Hts t (or_introl eq_refl)) as [Hlt [e He]].
    destruct IH as [ys [E1 E2]]; [intros t' Ht'; apply Hts; right; exact Ht'|].
    cbn [map py_map]. rewrite (py_index_onth c t) by exact Hlt. cbn [bind]. rewrite He. cbn [py_eun bind].
    destruct (py_map _ (map Z.of_nat ts)) as [l|ex] eqn:El; cbn [bind] in E1; [|discriminate].
    injection E1 as <-. cbn [bind]. exists (efirst e :: l). split; [reflexivity|]. cbn [map option_map]. rewrite E2. reflexivity.
  Qed.

End Gen.

Print Assumptions fit_abscissae_are_the_defined_timeslices.
Print Assumptions fit_ordinates_belong_to_the_abscissae.
