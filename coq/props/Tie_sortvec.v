(* TRANSLATED CODE, THEOREMS DIRECTLY ON IT (C16): the branch of _sort_vectors (pyerrors/correlators.py) that reorders the eigenvectors
   of one timeslice, regenerated on this run over abstract vectors / matrices with an abstract |det|: it picks the FIRST permutation
   of maximal positive score (score p = prod_k |det(reference with row p[k] replaced by vector k)|) and returns the vectors so that
   vector j sits in slot p[j] -- the slot of the reference state it resembles most.  (The defect repaired in 835e405 put vector p[k]
   into slot k instead; with that code the last theorem below is false for every non-involutive p.) *)
From Coq Require Import ZArith QArith List Bool Lia ZifyBool Permutation.
From PV Require Import Base.QAux Obs.Model Obs.DerivedThm Py.Prim Py.Lemmas.
From PVG Require Import PyGen.
Import ListNotations.
Open Scope Z_scope.

(* ------------------------------------------------------------------ permutations(range(n)) *)
Lemma remove_length_NoDup (x : Z) l : NoDup l -> In x l -> S (List.length (remove Z.eq_dec x l)) = List.length l.
Proof.
  induction l as [|y l IH]; intros Hnd Hin; [destruct Hin|]. inversion Hnd as [|? ? Hy Hl]; subst. simpl.
  destruct (Z.eq_dec x y) as [->|Hne].
  - rewrite notin_remove by exact Hy. reflexivity.
  - simpl. destruct Hin as [E|Hin]; [congruence|]. rewrite IH by assumption. reflexivity.
Qed.
Lemma remove_NoDup (x : Z) l : NoDup l -> NoDup (remove Z.eq_dec x l).
Proof.
  induction l as [|y l IH]; intro H; [constructor|]. inversion H; subst. simpl. destruct (Z.eq_dec x y); [apply IH; assumption|].
  constructor; [|apply IH; assumption]. intro Hin. apply in_remove in Hin. tauto.
Qed.
Lemma remove_perm (x : Z) l : NoDup l -> In x l -> Permutation (x :: remove Z.eq_dec x l) l.
Proof.
  induction l as [|y l IH]; intros Hnd Hin; [destruct Hin|]. inversion Hnd as [|? ? Hy Hl]; subst. simpl.
  destruct (Z.eq_dec x y) as [->|Hne].
  - rewrite notin_remove by exact Hy. reflexivity.
  - destruct Hin as [E|Hin]; [congruence|]. rewrite perm_swap. constructor. apply IH; assumption.
Qed.
Lemma perms_of_perm fuel : forall l p, (List.length l <= fuel)%nat -> NoDup l -> In p (perms_of fuel l) -> Permutation p l.
Proof.
  induction fuel as [|f IH]; intros l p Hl Hnd Hp.
  - destruct l; [|simpl in Hl; lia]. destruct Hp as [<-|[]]. reflexivity.
  - destruct l as [|y l]; [destruct Hp as [<-|[]]; reflexivity|].
    cbn [perms_of] in Hp. apply in_flat_map in Hp. destruct Hp as [x [Hx Hp]]. apply in_map_iff in Hp. destruct Hp as [q [<- Hq]].
    pose proof (remove_length_NoDup x (y :: l) Hnd Hx) as Hlen.
    apply IH in Hq; [|simpl in *; lia|apply remove_NoDup; exact Hnd].
    rewrite Hq. apply remove_perm; assumption.
Qed.

Lemma zrange_upto_NoDup n : NoDup (py_upto (Z.of_nat n)).
Proof.
  rewrite py_upto_seq. apply FinFun.Injective_map_NoDup; [intros a b H; lia|apply seq_NoDup].
Qed.
Lemma permutations_are_permutations n p : In p (py_permutations (Z.of_nat n)) -> Permutation p (py_upto (Z.of_nat n)).
Proof.
  unfold py_permutations. rewrite Nat2Z.id. intro H. apply perms_of_perm in H; [exact H| |apply zrange_upto_NoDup].
  fold (py_upto (Z.of_nat n)). rewrite py_upto_seq, map_length, seq_length. lia.
Qed.

Lemma py_list_index_found p : forall j, NoDup p -> (j < List.length p)%nat -> py_list_index p (nth j p 0) = Ok (Z.of_nat j).
Proof.
  induction p as [|y p IH]; intros j Hnd Hj; [simpl in Hj; lia|]. inversion Hnd as [|? ? Hy Hp]; subst.
  destruct j as [|j]; cbn [nth py_list_index]; [rewrite Z.eqb_refl; reflexivity|].
  destruct (nth j p 0 =? y) eqn:E.
  - exfalso. apply Hy. assert (nth j p 0 = y) by lia. subst y. apply nth_In. simpl in Hj. lia.
  - rewrite IH by (try assumption; simpl in Hj; lia). cbn [bind]. f_equal. lia.
Qed.
Lemma py_list_index_total p x : In x p -> exists i, py_list_index p x = Ok (Z.of_nat i) /\ (i < List.length p)%nat /\ nth i p 0 = x.
Proof.
  induction p as [|y p IH]; intro H; [destruct H|]. cbn [py_list_index]. destruct (x =? y) eqn:E.
  - exists O. split; [reflexivity|]. split; [simpl; lia|]. simpl. lia.
  - destruct H as [->|H]; [rewrite Z.eqb_refl in E; discriminate|]. destruct (IH H) as [i [Ei [Hi Hn]]]. exists (S i).
    rewrite Ei. cbn [bind]. split; [f_equal; lia|]. split; [simpl; lia|exact Hn].
Qed.

Section SV.
  Variables V M : Type.
  Variable rowset : M -> Z -> V -> M.
  Variable absdet : M -> Q.
  Variable dV : V.

  Definition score (N : nat) (ref : M) (vec : list V) (p : list Z) : Q :=
    fold_left (fun acc k => Qmult acc (absdet (rowset ref (nth (Z.to_nat k) p 0) (nth (Z.to_nat k) vec dV)))) (py_upto (Z.of_nat N)) (inject_Z 1).
  Definition pick (N : nat) ref vec (st : Q * option (list Z)) (p : list Z) : Q * option (list Z) :=
    if Qltb (fst st) (score N ref vec p) then (score N ref vec p, Some p) else st.
  Definition chosen (N : nat) ref vec : Q * option (list Z) :=
    fold_left (pick N ref vec) (py_permutations (Z.of_nat N)) (inject_Z 0, None).

  Lemma perm_length N p : In p (py_permutations (Z.of_nat N)) -> List.length p = N.
  Proof. intro H. apply permutations_are_permutations in H. rewrite (Permutation_length H), py_upto_seq, map_length, seq_length. reflexivity. Qed.

  Lemma inner_loop N ref vec p : List.length p = N -> List.length vec = N ->
    py_for (py_upto (Z.of_nat N)) (inject_Z 1)
      (fun st3 v_k => t1 <- py_index p v_k ;; t2 <- py_index vec v_k ;; Ok (st3 * absdet (rowset ref t1 t2))%Q)
    = Ok (score N ref vec p).
  Proof.
    intros Hp Hv. unfold score. apply py_for_total. intros st x Hx. rewrite py_upto_seq in Hx. apply in_map_iff in Hx.
    destruct Hx as [k [<- Hk]]. apply in_seq in Hk.
    rewrite (py_index_nat p k 0) by lia. cbn [bind]. rewrite (py_index_nat vec k dV) by lia. cbn [bind]. rewrite Nat2Z.id. reflexivity.
  Qed.

  Lemma outer_loop N ref vec : List.length vec = N ->
    py_for (py_permutations (Z.of_nat N)) (inject_Z 0, (None : option (list Z)))
      (fun st4 v_perm => let '(v_best_score, v_best_perm) := st4 in
         st3 <- py_for (py_upto (Z.of_nat N)) (inject_Z 1)
                  (fun st3 v_k => t1 <- py_index v_perm v_k ;; t2 <- py_index vec v_k ;; Ok (st3 * absdet (rowset ref t1 t2))%Q) ;;
         if Qltb v_best_score st3 then Ok (st3, Some v_perm) else Ok (v_best_score, v_best_perm))
    = Ok (chosen N ref vec).
  Proof.
    intro Hv. unfold chosen. apply py_for_total. intros [bs bp] p Hp.
    rewrite (inner_loop N ref vec p (perm_length N p Hp) Hv). cbn [bind]. unfold pick. cbn [fst].
    destruct (Qltb bs (score N ref vec p)); reflexivity.
  Qed.

  (* closed form of the regenerated branch: both loops replaced by the fold [chosen] *)
  Theorem sort_branch_closed_form N ref vec vec_in :
    List.length vec = N ->
    sort_vectors_branch V M rowset absdet (Z.of_nat N) ref vec vec_in =
      (t8 <- py_map (fun k => t5 <- py_bound (snd (chosen N ref vec)) ;; t6 <- py_list_index t5 k ;; t7 <- py_index vec_in t6 ;; Ok t7)
                    (py_upto (Z.of_nat N)) ;; Ok t8).
  Proof.
    intros Hv. unfold sort_vectors_branch. cbv zeta.
    rewrite (outer_loop N ref vec Hv). cbn [bind]. destruct (chosen N ref vec) as [bs bp]. reflexivity.
  Qed.

  (* what the fold picks: a permutation of maximal, positive score -- the first such *)
  Lemma chosen_spec N ref vec : forall l st,
    (match snd st with Some p => fst st = score N ref vec p | None => fst st = inject_Z 0 end) ->
    let r := fold_left (pick N ref vec) l st in
    (match snd r with Some p => fst r = score N ref vec p /\ (In p l \/ snd st = Some p) | None => fst r = inject_Z 0 /\ snd st = None end)
    /\ (forall q, In q l -> (score N ref vec q <= fst r)%Q) /\ (fst st <= fst r)%Q.
  Proof.
    induction l as [|p l IH]; intros st Hst; cbv zeta; cbn [fold_left].
    - split; [destruct (snd st); auto|]. split; [intros q []|apply Qle_refl].
    - set (st' := pick N ref vec st p).
      assert (Hst' : match snd st' with Some p0 => fst st' = score N ref vec p0 | None => fst st' = inject_Z 0 end).
      { unfold st', pick. destruct (Qltb (fst st) (score N ref vec p)); [reflexivity|exact Hst]. }
      assert (Hmono : (fst st <= fst st')%Q /\ (score N ref vec p <= fst st')%Q).
      { unfold st', pick. destruct (Qltb (fst st) (score N ref vec p)) eqn:E; cbn [fst].
        - apply Qltb_lt in E. split; [apply Qlt_le_weak; exact E|apply Qle_refl].
        - split; [apply Qle_refl|]. apply Qnot_lt_le. intro H. apply Qltb_lt in H. congruence. }
      destruct (IH st' Hst') as [H1 [H2 H3]]. cbv zeta in H1, H2, H3. split; [|split].
      + destruct (snd (fold_left (pick N ref vec) l st')) as [p0|] eqn:Es.
        * destruct H1 as [Ha Hb]. split; [exact Ha|]. destruct Hb as [Hb|Hb]; [left; right; exact Hb|].
          unfold st', pick in Hb. destruct (Qltb (fst st) (score N ref vec p)); [injection Hb as <-; left; left; reflexivity|right; exact Hb].
        * destruct H1 as [Ha Hb]. split; [exact Ha|]. unfold st', pick in Hb. destruct (Qltb (fst st) (score N ref vec p)); [discriminate|exact Hb].
      + intros q [<-|Hq]; [eapply Qle_trans; [apply Hmono|exact H3]|apply H2; exact Hq].
      + eapply Qle_trans; [apply Hmono|exact H3].
  Qed.

  (* THE PROPERTY: vector j of this timeslice is returned in slot p[j], p the chosen permutation (maximal positive score) *)
  Theorem sorted_vectors_land_in_their_reference_slot N ref vec vec_in r :
    List.length vec = N -> List.length vec_in = N ->
    sort_vectors_branch V M rowset absdet (Z.of_nat N) ref vec vec_in = Ok r ->
    exists p, snd (chosen N ref vec) = Some p /\ Permutation p (py_upto (Z.of_nat N))
              /\ (forall q, In q (py_permutations (Z.of_nat N)) -> (score N ref vec q <= score N ref vec p)%Q)
              /\ List.length r = N
              /\ forall j, (j < N)%nat -> nth (Z.to_nat (nth j p 0)) r dV = nth j vec_in dV.
  Proof.
    intros Hv Hi H. rewrite (sort_branch_closed_form N ref vec vec_in Hv) in H.
    destruct (chosen_spec N ref vec (py_permutations (Z.of_nat N)) (inject_Z 0, None) eq_refl) as [C1 [C2 _]]. cbv zeta in C1, C2.
    fold (chosen N ref vec) in C1, C2.
    destruct (snd (chosen N ref vec)) as [p|] eqn:Es.
    2:{ exfalso. destruct N as [|N].
        - unfold chosen, py_permutations in Es. cbn in Es. discriminate.
        - rewrite py_upto_seq in H. cbn in H. discriminate. }
    cbn [py_bound bind] in H.
    destruct C1 as [Hsc [Hin|Hin]]; [|discriminate].
    pose proof (permutations_are_permutations N p Hin) as Hperm.
    assert (Hnd : NoDup p) by (apply (Permutation_NoDup (Permutation_sym Hperm)); apply zrange_upto_NoDup).
    assert (Hlen : List.length p = N) by (apply perm_length; exact Hin).
    exists p. split; [reflexivity|]. split; [exact Hperm|]. split; [intros q Hq; rewrite <- Hsc; apply C2; exact Hq|].
    (* every k < N occurs in p: the map is total *)
    assert (Htot : forall k, (k < N)%nat -> exists i, py_list_index p (Z.of_nat k) = Ok (Z.of_nat i) /\ (i < N)%nat /\ nth i p 0 = Z.of_nat k).
    { intros k Hk. assert (In (Z.of_nat k) p).
      { apply (Permutation_in _ (Permutation_sym Hperm)). rewrite py_upto_seq. apply in_map. apply in_seq. lia. }
      destruct (py_list_index_total p _ H0) as [i [E [Hi' Hn]]]. exists i. rewrite Hlen in Hi'. auto. }
    set (g := fun z : Z => nth (Z.to_nat (match py_list_index p z with Ok i => i | Raise _ => 0 end)) vec_in dV).
    rewrite (py_map_total _ g) in H.
    2:{ intros x Hx. rewrite py_upto_seq in Hx. apply in_map_iff in Hx. destruct Hx as [k [<- Hk]]. apply in_seq in Hk.
        destruct (Htot k ltac:(lia)) as [i [E [Hi' _]]]. unfold g. rewrite E. cbn [bind].
        rewrite (py_index_nat vec_in i dV) by lia. cbn [bind]. rewrite Nat2Z.id. reflexivity. }
    cbn [bind] in H. injection H as <-. split; [rewrite map_length, py_upto_seq, map_length, seq_length; reflexivity|].
    intros j Hj.
    assert (Hpj : In (nth j p 0) (py_upto (Z.of_nat N))) by (apply (Permutation_in _ Hperm); apply nth_In; lia).
    rewrite py_upto_seq in Hpj. apply in_map_iff in Hpj. destruct Hpj as [k [Ek Hk]]. apply in_seq in Hk.
    rewrite <- Ek, Nat2Z.id. rewrite py_upto_seq, map_map.
    rewrite (nth_indep _ dV (g (Z.of_nat 0))) by (rewrite map_length, seq_length; lia).
    rewrite (map_nth (fun x => g (Z.of_nat x))). rewrite seq_nth by lia. cbn [Nat.add].
    unfold g. rewrite Ek. rewrite py_list_index_found by (try assumption; lia). rewrite Nat2Z.id. reflexivity.
  Qed.
End SV.

Print Assumptions sort_branch_closed_form.
Print Assumptions sorted_vectors_land_in_their_reference_slot.
