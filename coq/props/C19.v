(* Property C19 -- printed value(error) strings and scalar views agree with value and error.
   Property theorems only; proofs in PV.Obs.Format. *)
From Coq Require Import ZArith QArith Qabs List Bool String.
From PV Require Import Base.QAux Obs.Format.
Open Scope Q_scope.

(* format(x,'.kf') denotes a number within half a unit of the last printed digit -- every x, every k *)
Theorem fixed_point_digits_within_half_unit :
  forall k x, Qabs (inject_Z (fixd k x) / pow10 k - x) <= (1 # 2) / pow10 k.
Proof. exact fixd_half_unit. Qed.

(* value(error): the value read back from the string is within half a unit of the last printed digit *)
Theorem printed_value_recoverable :
  forall v d sig, let p := format_uncertainty v d sig in
  Qabs (denoted_value p - v) <= (1 # 2) / pow10 (p_vplaces p).
Proof. exact printed_value_half_unit. Qed.

(* errors >= 1: the error read back is within half a unit of its last printed digit *)
Theorem printed_error_recoverable_ge1 :
  forall v d sig, (0 <=? fexp_of d)%Z = true -> 0 <= d ->
  let p := format_uncertainty v d sig in
  Qabs (denoted_error p - d) <= (1 # 2) / pow10 (p_eplaces p).
Proof. exact printed_error_half_unit_ge1. Qed.

(* errors < 1: the code scales the error by 10^k in binary64 before rounding it to an integer; the printed
   integer is within half a unit PLUS the binary64 rounding error (relative 2^-53) of d*10^k *)
Theorem printed_error_recoverable_lt1 :
  forall v d sig, (fexp_of d <? 0)%Z = true -> 0 < d ->
  let p := format_uncertainty v d sig in
  let x := d * pow10 (p_eplaces p) in
  normal_at (ulp_exp x) x = true ->
  Qabs (inject_Z (p_edigits p) - x) <= (1 # 2) + x / pow2Q 53.
Proof. exact printed_error_half_unit_lt1. Qed.

(* the prior-string parser returns exactly the numbers the string denotes (hence the bounds above apply) *)
Theorem parser_returns_denoted_numbers :
  forall v d sig, (1 <= sig)%nat ->
  let p := format_uncertainty v d sig in
  let r := parse_printed (fexp_of d) p in
  fst r == denoted_value p /\ snd r == denoted_error p.
Proof. exact parse_recovers_denoted. Qed.

Theorem value_and_error_share_the_decimal_place :
  forall v d sig, let p := format_uncertainty v d sig in p_vplaces p = p_eplaces p.
Proof. exact same_decimal_place. Qed.

Theorem flags_affect_only_leading_character :
  forall c s, with_flag (String c EmptyString) s = s \/ with_flag (String c EmptyString) s = String c s.
Proof. exact flag_only_leading_char. Qed.

(* Non-vacuity / sanity of the exact digit model on concrete numbers, all three branches and the carry 9.96 -> 10 *)
Example c19_examples :
  p_text (format_uncertainty (130234 # 10000) (45 # 1000) 2) = "13.023(45)"%string /\
  p_text (format_uncertainty (123456 # 10) (2345 # 10) 2) = "12346(234)"%string /\
  p_text (format_uncertainty (- (1 # 8)) (23 # 8) 3) = "-0.12(2.88)"%string /\
  p_text (format_uncertainty (1 # 1) (996 # 10000) 2) = "1.000(100)"%string /\
  (fexp_of (45 # 1000) <? 0)%Z = true /\ normal_at (ulp_exp ((45 # 1000) * pow10 3)) ((45 # 1000) * pow10 3) = true.
Proof. repeat split; vm_compute; reflexivity. Qed.

Print Assumptions fixed_point_digits_within_half_unit.
Print Assumptions printed_value_recoverable.
Print Assumptions printed_error_recoverable_ge1.
Print Assumptions printed_error_recoverable_lt1.
Print Assumptions parser_returns_denoted_numbers.
