(* Property C03 -- the error analysis is invariant under relabelling, rescaling and call history.
   Property theorems only; proofs in PV.Obs.GammaInv / GammaThm. *)
From Coq Require Import ZArith QArith List Bool String.
From PV Require Import Base.QAux Obs.Model Obs.Gamma Obs.GammaThm Obs.GammaInv.
Import ListNotations.
Open Scope Q_scope.

(* replacing every configuration number c of an ensemble by a*c + b (a >= 1) leaves EVERY output of the
   analysis unchanged (window, tau_int, errors, rho, drho, cumulative arrays), for every number of replicas and every layout *)
Theorem analysis_invariant_under_affine_relabelling :
  forall gws a b reps p, (0 < a)%Z -> Forall (relabel_ok a) reps ->
  analyse gws (map (relabel a b) reps) p = analyse gws reps p.
Proof. exact analysis_invariant_under_relabelling. Qed.

(* with and without FFT: the same sums (C02) *)
Theorem fft_and_direct_path_agree :
  forall x P n m, (n < m)%nat -> (List.length x + m <= P)%nat ->
  circ_autocorr x P n == Qsum (map (fun k => nth k x 0 * nth (k + n) x 0) (seq 0 (List.length x - n))).
Proof. exact fft_padding_sufficient. Qed.

(* the outcome depends only on the data and the effective parameters, not on the history of parameter changes and analyses *)
Theorem outcome_depends_only_on_effective_parameters :
  forall gws h1 h2 s1 s2 reps aS atau ans e,
  params_of (fold_left hstep h1 s1) aS atau ans e = params_of (fold_left hstep h2 s2) aS atau ans e ->
  analysis_after gws h1 s1 reps aS atau ans e = analysis_after gws h2 s2 reps aS atau ans e.
Proof. exact history_irrelevant. Qed.
Theorem explicit_argument_over_dictionary_over_global :
  (forall v dict glob e, effective (Some v) dict glob e = v)
  /\ (forall dict glob e v, find (fun p => String.eqb (fst p) e) dict = Some (e, v) -> effective None dict glob e = v)
  /\ (forall dict glob e, find (fun p => String.eqb (fst p) e) dict = None -> effective None dict glob e = glob).
Proof. split; [exact explicit_argument_wins | split; [exact dictionary_over_global | exact global_when_no_entry]]. Qed.
Theorem analyses_of_other_objects_leave_parameters_alone : forall s n, fold_left hstep (repeat OtherAnalysis n) s = s.
Proof. exact other_analyses_do_not_change_parameters. Qed.

(* tau_int >= 1/2: the cumulative sums are kept above 1/2 and the bias factor is at least 1 *)
Theorem cumulative_tauint_above_half :
  forall l, Forall (fun t => 1 # 2 < t) (map (fun t => if Qleb t (1 # 2) then (1 # 2) + eps52 else t) l).
Proof. exact clip_gt_half. Qed.
Theorem bias_factor_at_least_one : forall n N, (0 <= n)%Z -> 0 < N -> 1 <= bias n N.
Proof. exact bias_ge_1. Qed.

(* Non-vacuity of the relabelling theorem: a two-replica ensemble with a range and a gapped list, shifted by 1000 *)
Example c03_example :
  let reps := [mkGrep (mkIdl true [1;3;5;7;9;11]%Z) [1;-1;2;-2;1;-1]; mkGrep (mkIdl false [2;3;5;6;8;9]%Z) [2;-2;1;-1;3;-3]] in
  Forall (relabel_ok 1) reps /\ determine_gap reps = Some 1%Z /\
  map (relabel 1 1000) reps = [mkGrep (mkIdl true [1001;1003;1005;1007;1009;1011]%Z) [1;-1;2;-2;1;-1]; mkGrep (mkIdl false [1002;1003;1005;1006;1008;1009]%Z) [2;-2;1;-1;3;-3]].
Proof.
  cbv zeta. split; [|split; vm_compute; reflexivity].
  repeat constructor; cbn; try discriminate; try reflexivity.
Qed.

Print Assumptions analysis_invariant_under_affine_relabelling.
Print Assumptions outcome_depends_only_on_effective_parameters.
Print Assumptions bias_factor_at_least_one.
