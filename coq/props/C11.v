(* Property C11 -- JSON serialisation round-trips losslessly and conforms to the shipped schema.  Theorems only. *)
From Coq Require Import ZArith QArith List Bool String.
From PV Require Import Base.QAux Obs.Model IO.Json.
From PVG Require Import SchemaGen.
Import ListNotations.
Open Scope Q_scope.

(* replica means travel as an offset on the written fluctuations and are recovered by averaging the column:
   for zero-sum fluctuations (every observable the library builds) the reader restores fluctuations and replica mean *)
Theorem replica_fluctuations_and_mean_roundtrip :
  forall value r, r_deltas r <> [] -> Qsum (r_deltas r) == 0 ->
  snd (dec_col value (enc_col value r)) == r_mean r /\
  forall k, (k < List.length (r_deltas r))%nat -> nth k (fst (dec_col value (enc_col value r))) 0 == nth k (r_deltas r) 0.
Proof. exact replica_roundtrip. Qed.

(* unconditionally: every per-configuration SAMPLE (fluctuation + replica mean) is reproduced *)
Theorem every_sample_roundtrips :
  forall value r k, r_deltas r <> [] -> (k < List.length (r_deltas r))%nat ->
  nth k (fst (dec_col value (enc_col value r))) 0 + snd (dec_col value (enc_col value r)) == nth k (r_deltas r) 0 + r_mean r.
Proof. exact sample_roundtrip. Qed.

(* configuration lists come back in the same form (range iff equally spaced) *)
Theorem configuration_list_form_roundtrip :
  forall i, Bool.eqb (isr i) (uniform (cfgs i)) = true -> norm_idl (mkIdl false (cfgs i)) = i.
Proof. exact idl_form_roundtrip. Qed.

(* replica names 'ens|rep' and 'ens' survive the separator re-insertion of the reader *)
Theorem replica_names_roundtrip :
  forall ens rest, fix_rep_name ens (ens ++ String bar rest) = (ens ++ String bar rest)%string /\ fix_rep_name ens ens = ens.
Proof. exact replica_name_roundtrip. Qed.

(* the regenerated shipped schema accepts a minimal document and rejects one without 'obsdata' (sanity of T-schema + validator) *)
Example shipped_schema_sanity :
  validate 40 shipped_defs shipped_schema
    (JObj [("program", JStr "pyerrors"); ("obsdata", JArr [JObj [("type", JStr "Obs"); ("layout", JStr "1"); ("value", JArr [JNum 1])]])])%string = true
  /\ validate 40 shipped_defs shipped_schema (JObj [("program", JStr "pyerrors")])%string = false
  /\ validate 40 shipped_defs shipped_schema
    (JObj [("obsdata", JArr [JObj [("type", JStr "Obs"); ("value", JArr [JStr "x"])]])])%string = false.
Proof. repeat split; vm_compute; reflexivity. Qed.

Print Assumptions replica_fluctuations_and_mean_roundtrip.
Print Assumptions every_sample_roundtrips.
Print Assumptions configuration_list_form_roundtrip.
Print Assumptions replica_names_roundtrip.
