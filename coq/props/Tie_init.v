(* TIE (translator): the branch of Obs.__init__ that stores a list-type configuration list, regenerated from pyerrors/obs.py on this
   run (np.unique(np.diff(idx)), the two rejections, the reconstruction of a range from first, last and spacing), is the constructor
   model Obs/WF.v:idl_of_arg -- unsorted or duplicate configuration numbers are rejected, an equally spaced list is stored as the
   range with exactly these elements, any other list as it is (C04). *)
From Coq Require Import ZArith QArith List Bool Lia ZifyBool Sorted.
From PV Require Import Base.QAux Obs.Model Obs.DerivedThm Obs.WF Py.Prim Py.Lemmas.
From PVG Require Import PyGen.
Import ListNotations.
Open Scope Z_scope.

Lemma existsb_same_members {A} (f : A -> bool) (a b : list A) : (forall x, In x a <-> In x b) -> existsb f a = existsb f b.
Proof.
  intro H. apply Bool.eq_true_iff_eq. rewrite !existsb_exists. split; intros [x [Hx Hf]]; exists x; split; auto; apply H; exact Hx.
Qed.
Lemma existsb_map_id {A} (f : A -> bool) l : existsb (fun b : bool => b) (map f l) = existsb f l.
Proof. induction l as [|x l IH]; simpl; [reflexivity|]. rewrite IH. reflexivity. Qed.

Lemma zsort_set_const x r : forallb (Z.eqb x) r = true -> zsort_set (x :: r) = [x].
Proof.
  induction r as [|y r IH]; intro H; [reflexivity|]. simpl in H. apply andb_true_iff in H. destruct H as [E H].
  assert (y = x) by lia. subst y. change (zsort_set (x :: x :: r)) with (zinsert x (zsort_set (x :: r))). rewrite IH by exact H.
  simpl. rewrite Z.ltb_irrefl, Z.eqb_refl. reflexivity.
Qed.
Lemma zsort_set_single d z : zsort_set d = [z] -> forall x, In x d -> x = z.
Proof. intros H x Hx. apply zsort_set_In in Hx. rewrite H in Hx. destruct Hx as [<-|[]]. reflexivity. Qed.

Lemma unique_diffs_one l : (zlen (zsort_set (diffs l)) =? 1) = uniform l.
Proof.
  unfold uniform. destruct (diffs l) as [|x r] eqn:E; [reflexivity|].
  destruct (forallb (Z.eqb x) r) eqn:F.
  - rewrite zsort_set_const by exact F. reflexivity.
  - apply Z.eqb_neq. intro H. unfold zlen in H.
    destruct (zsort_set (x :: r)) as [|z [|z' t]] eqn:S; simpl in H; try lia.
    pose proof (zsort_set_single _ _ S) as Hall.
    assert (forallb (Z.eqb x) r = true); [|congruence].
    apply forallb_forall. intros y Hy. rewrite (Hall x (or_introl eq_refl)), (Hall y (or_intror Hy)). apply Z.eqb_refl.
Qed.

(* an equally spaced list is the enumeration of the range built from its first element, last element and spacing *)
Lemma progression l d : (forall x, In x (diffs l) -> x = d) -> l = zrange_n (zhd l) d (List.length l).
Proof.
  induction l as [|x [|y t] IH]; intro H; [reflexivity|reflexivity|].
  cbn [List.length zrange_n zhd hd]. f_equal.
  assert (Hy : y = x + d) by (assert (y - x = d) by (apply H; left; reflexivity); lia).
  rewrite IH at 1 by (intros z Hz; apply H; right; exact Hz). cbn [zhd hd]. rewrite Hy. reflexivity.
Qed.
Lemma uniform_is_progression : forall l d r, diffs l = d :: r -> forallb (Z.eqb d) r = true ->
  l = zrange_n (zhd l) d (List.length l).
Proof.
  intros l d r Hd Hall. apply progression. rewrite Hd. intros x [<-|Hx]; [reflexivity|].
  rewrite forallb_forall in Hall. specialize (Hall x Hx). lia.
Qed.
Lemma zrange_n_last s d n : zlast (zrange_n s d (S n)) = s + Z.of_nat n * d.
Proof.
  revert s; induction n as [|n IH]; intro s; [simpl; unfold zlast; simpl; lia|].
  change (zrange_n s d (S (S n))) with (s :: zrange_n (s + d) d (S n)). unfold zlast in *.
  change (last (s :: zrange_n (s + d) d (S n)) 0) with (last (zrange_n (s + d) d (S n)) 0). rewrite IH. lia.
Qed.

Theorem init_idl_tie (l : list Z) :
  obs_init_idl_from_list (mkIdl false l) = match idl_of_arg (AList l) with Some i => Ok i | None => Raise ValueError end.
Proof.
  unfold obs_init_idl_from_list, idl_of_arg. cbv zeta. cbn [cfgs].
  rewrite !existsb_map_id.
  rewrite (existsb_same_members (fun x => x <? 0) (zsort_set (diffs l)) (diffs l)) by (intro; apply zsort_set_In).
  rewrite (existsb_same_members (fun x => x =? 0) (zsort_set (diffs l)) (diffs l)) by (intro; apply zsort_set_In).
  destruct (existsb (fun x => x <? 0) (diffs l)) eqn:Eneg; [reflexivity|].
  destruct (existsb (fun x => x =? 0) (diffs l)) eqn:Ezero; [reflexivity|].
  rewrite unique_diffs_one. unfold norm_idl. cbn [isr cfgs].
  destruct (uniform l) eqn:Eu; [|reflexivity].
  unfold uniform in Eu. destruct (diffs l) as [|d r] eqn:Ed; [discriminate|].
  rewrite zsort_set_const by exact Eu.
  assert (Hdpos : 0 < d).
  { assert (Hn : (d <? 0) = false) by (simpl in Eneg; apply orb_false_iff in Eneg; tauto).
    assert (Hz : (d =? 0) = false) by (simpl in Ezero; apply orb_false_iff in Ezero; tauto). lia. }
  assert (Hlen : (2 <= List.length l)%nat) by (destruct l as [|x [|y t]]; simpl in Ed; try discriminate; simpl; lia).
  assert (Hne : l <> []) by (intro E; subst; discriminate).
  change (- (1)) with (-1). rewrite py_index_0, py_index_m1 by exact Hne. cbn [bind].
  rewrite (py_index_nth [d] 0 0) by (unfold zlen; simpl; lia). cbn [bind Z.to_nat nth].
  unfold py_range. destruct (d =? 0) eqn:E0; [lia|]. cbn [bind]. rewrite zrange_any_pos by exact Hdpos.
  f_equal. f_equal.
  pose proof (uniform_is_progression l d r Ed Eu) as Hprog.
  destruct (List.length l) as [|n] eqn:En; [lia|].
  unfold zrange. destruct (d <=? 0) eqn:E1; [lia|].
  assert (Hlast : zlast l = zhd l + Z.of_nat n * d) by (rewrite Hprog at 1; apply zrange_n_last).
  replace ((zlast l + d - zhd l + d - 1) / d) with (Z.of_nat (S n)).
  - rewrite Nat2Z.id. symmetry. exact Hprog.
  - rewrite Hlast. replace (zhd l + Z.of_nat n * d + d - zhd l + d - 1) with (Z.of_nat (S n) * d + (d - 1)) by lia.
    rewrite Z.div_add_l by lia. rewrite Z.div_small by lia. lia.
Qed.

Print Assumptions init_idl_tie.

(* ------------------------------------------------------------------ the validation block of Obs.__init__ *)
Definition to_opt (a : name_arg) : option String.string := match a with NStr s => Some s | NOther => None end.
Definition is_ok {A} (r : res A) : bool := match r with Ok _ => true | Raise _ => false end.

(* the first six rejections of the constructor model Obs/WF.v:obs_init, as one boolean *)
Definition init_checks (lens : list nat) (names : list name_arg) (idl_len : option nat) : bool :=
  Nat.eqb (List.length lens) (List.length names)
  && (match idl_len with Some l => Nat.eqb l (List.length names) | None => true end)
  && all_str names
  && str_nodup (map nm names)
  && negb (Nat.ltb 1 (List.length (ssort_set (map (fun a => ens_of (nm a)) names))))
  && negb (existsb (fun n => Nat.leb n 4) lens).

Lemma init_checks_model lens names (idl : option (list idl_arg)) :
  init_checks lens names (option_map (@List.length idl_arg) idl) = false -> obs_init lens names idl = Rejected.
Proof.
  unfold init_checks, obs_init. intro H.
  destruct (Nat.eqb (List.length lens) (List.length names)); cbn [negb]; [|reflexivity].
  destruct idl as [l|]; cbn [option_map] in H |- *.
  - destruct (Nat.eqb (List.length l) (List.length names)); cbn [negb andb] in H |- *; [|reflexivity].
    destruct (all_str names); cbn [negb andb] in H |- *; [|reflexivity].
    destruct (str_nodup (map nm names)); cbn [negb andb] in H |- *; [|reflexivity].
    destruct (Nat.ltb 1 _); cbn [negb andb] in H |- *; [reflexivity|].
    destruct (existsb (fun n => Nat.leb n 4) lens); [reflexivity|discriminate].
  - cbn [andb] in H.
    destruct (all_str names); cbn [negb andb] in H |- *; [|reflexivity].
    destruct (str_nodup (map nm names)); cbn [negb andb] in H |- *; [|reflexivity].
    destruct (Nat.ltb 1 _); cbn [negb andb] in H |- *; [reflexivity|].
    destruct (existsb (fun n => Nat.leb n 4) lens); [reflexivity|discriminate].
Qed.

Lemma optstr_set_le l : (List.length (optstr_set l) <= List.length l)%nat.
Proof. induction l as [|x r IH]; simpl; [lia|]. destruct (existsb (optstr_eqb x) r); simpl; lia. Qed.
Lemma exists_some_smem x r : existsb (optstr_eqb (Some x)) (map Some r) = smem x r.
Proof. unfold smem. induction r as [|y r IH]; simpl; [reflexivity|]. rewrite IH. reflexivity. Qed.
Lemma optstr_set_nodup (l : list String.string) :
  Nat.eqb (List.length (map Some l)) (List.length (optstr_set (map Some l))) = str_nodup l.
Proof.
  induction l as [|x r IH]; [reflexivity|]. cbn [map optstr_set str_nodup]. rewrite exists_some_smem.
  destruct (smem x r); cbn [negb andb].
  - apply Nat.eqb_neq. pose proof (optstr_set_le (map Some r)). cbn [List.length]. lia.
  - cbn [List.length]. exact IH.
Qed.

Lemma all_str_map names : all_str names = true -> map to_opt names = map Some (map nm names).
Proof.
  induction names as [|a r IH]; intro H; [reflexivity|]. simpl in H. destruct a; [|discriminate]. simpl. rewrite IH by exact H. reflexivity.
Qed.
Lemma all_str_forallb names : forallb (fun b : bool => b) (map (fun x => is_some x) (map to_opt names)) = all_str names.
Proof. induction names as [|a r IH]; [reflexivity|]. simpl. rewrite IH. destruct a; reflexivity. Qed.

Lemma min_le4 (lens : list nat) : lens <> [] ->
  (Z.of_nat (fold_right Nat.min (hd 0%nat lens) lens) <=? 4) = existsb (fun n => Nat.leb n 4) lens.
Proof.
  intro H. destruct lens as [|x r]; [congruence|]. cbn [hd]. clear H.
  assert (G : forall r m, (Z.of_nat (fold_right Nat.min m r) <=? 4) = (existsb (fun n => Nat.leb n 4) r || (Z.of_nat m <=? 4))).
  { induction r0 as [|y r0 IH]; intro m; [reflexivity|]. cbn [fold_right existsb]. specialize (IH m).
    destruct (Nat.leb_spec y 4); destruct (existsb (fun n => Nat.leb n 4) r0); destruct (Z.of_nat m <=? 4) eqn:Em; cbn [orb] in *; lia. }
  cbn [fold_right existsb]. specialize (G r x).
  destruct (Nat.leb_spec x 4); destruct (existsb (fun n => Nat.leb n 4) r); destruct (Z.of_nat x <=? 4) eqn:Ex; cbn [orb] in *; lia.
Qed.

Lemma if_merge {A} (b c : bool) (R K : A) : (if b then (if c then R else K) else K) = if b && c then R else K.
Proof. destruct b, c; reflexivity. Qed.

Theorem init_validation_tie (lens : list nat) (names : list name_arg) (idl_len : option nat) :
  lens <> [] ->
  is_ok (obs_init_validation true (zlen lens) (map to_opt names) (is_some idl_len)
           (match idl_len with Some l => Z.of_nat l | None => 0 end) (Z.of_nat (fold_right Nat.min (hd 0%nat lens) lens)))
  = init_checks lens names idl_len.
Proof.
  intro Hne. unfold obs_init_validation, init_checks. cbv zeta.
  assert (Hn0 : (zlen lens =? 0) = false) by (unfold zlen; destruct lens; [congruence|simpl; lia]).
  rewrite Hn0. cbn [andb negb].
  assert (Hlen : zlen (map to_opt names) = Z.of_nat (List.length names)) by (unfold zlen; rewrite map_length; reflexivity).
  rewrite Hlen.
  replace (zlen lens =? Z.of_nat (List.length names)) with (Nat.eqb (List.length lens) (List.length names))
    by (unfold zlen; destruct (Nat.eqb_spec (List.length lens) (List.length names)); symmetry; lia).
  destruct (Nat.eqb (List.length lens) (List.length names)) eqn:El; cbn [negb andb]; [|reflexivity].
  assert (Hnames : names <> []) by (apply Nat.eqb_eq in El; destruct names; [destruct lens; [congruence|discriminate]|congruence]).
  rewrite if_merge.
  replace (is_some idl_len && negb (match idl_len with Some l => Z.of_nat l | None => 0 end =? Z.of_nat (List.length names)))
    with (negb (match idl_len with Some l => Nat.eqb l (List.length names) | None => true end))
    by (destruct idl_len as [l|]; cbn [is_some andb negb]; [destruct (Nat.eqb_spec l (List.length names)); cbn [negb]; symmetry; lia|reflexivity]).
  destruct (match idl_len with Some l => Nat.eqb l (List.length names) | None => true end); cbn [negb andb]; [|reflexivity].
  rewrite min_le4 by exact Hne.
  rewrite (py_map_total _ (fun x => is_some x)) by (intros; reflexivity). cbn [bind]. rewrite all_str_forallb.
  destruct (Z.of_nat (List.length names) >? 1) eqn:EN.
  - destruct (all_str names) eqn:Eall; cbn [andb].
    + rewrite (all_str_map names Eall). set (l := map nm names).
      replace (Z.of_nat (List.length names) =? zlen (optstr_set (map Some l))) with (str_nodup l).
      2:{ rewrite <- optstr_set_nodup. unfold zlen, l. rewrite !map_length.
          destruct (Nat.eqb_spec (List.length names) (List.length (optstr_set (map Some (map nm names))))); symmetry; lia. }
      destruct (str_nodup l); cbn [negb andb]; [|reflexivity].
      rewrite (py_map_total _ (fun o => ens_of (match o with Some s0 => s0 | None => String.EmptyString end))).
      2:{ intros x Hx. apply in_map_iff in Hx. destruct Hx as [s0 [<- _]]. reflexivity. }
      cbn [bind]. rewrite map_map. unfold l. rewrite map_map.
      replace (zlen (ssort_set (map (fun x => ens_of (nm x)) names)) >? 1)
        with (Nat.ltb 1 (List.length (ssort_set (map (fun a => ens_of (nm a)) names)))).
      2:{ unfold zlen. destruct (Nat.ltb_spec 1 (List.length (ssort_set (map (fun a => ens_of (nm a)) names)))); symmetry; lia. }
      destruct (Nat.ltb 1 _); cbn [negb andb]; [reflexivity|].
      destruct (existsb (fun n => Nat.leb n 4) lens); reflexivity.
    + destruct (negb (Z.of_nat (List.length names) =? zlen (optstr_set (map to_opt names)))); reflexivity.
  - destruct names as [|a [|b r]]; [congruence| |cbn [List.length] in EN; lia].
    cbn [map]. rewrite (py_index_nth [to_opt a] 0 None) by (unfold zlen; simpl; lia). cbn [bind Z.to_nat nth].
    destruct a as [s0|]; cbn [to_opt is_some negb all_str forallb andb map nm str_nodup smem existsb].
    + unfold ssort_set. cbn [fold_right sinsert List.length Nat.ltb Nat.leb negb andb].
      destruct (existsb (fun n => Nat.leb n 4) lens); reflexivity.
    + reflexivity.
Qed.

(* consequence: whenever the regenerated validation lets a request through, the constructor model does not reject it for one of its first
   six reasons, and whenever it raises, the model rejects *)
Corollary init_validation_rejects lens names (idl : option (list idl_arg)) :
  lens <> [] ->
  is_ok (obs_init_validation true (zlen lens) (map to_opt names) (is_some (option_map (@List.length idl_arg) idl))
           (match option_map (@List.length idl_arg) idl with Some l => Z.of_nat l | None => 0 end) (Z.of_nat (fold_right Nat.min (hd 0%nat lens) lens))) = false ->
  obs_init lens names idl = Rejected.
Proof. intros Hne H. apply init_checks_model. rewrite <- init_validation_tie by exact Hne. exact H. Qed.

Print Assumptions init_validation_tie.
