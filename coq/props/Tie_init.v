(* TIE (translator): the branch of Obs.__init__ that stores a list-type configuration list, regenerated from pyerrors/obs.py on this
   run (np.unique(np.diff(idx)), the two rejections, the reconstruction of a range from first, last and spacing), is the constructor
   model Obs/WF.v:idl_of_arg -- unsorted or duplicate configuration numbers are rejected, an equally spaced list is stored as the
   range with exactly these elements, any other list as it is (C04). *)
From Coq Require Import ZArith QArith List Bool Lia ZifyBool Sorted.
From PV Require Import Base.QAux Obs.Model Obs.DerivedThm Obs.WF Py.Prim Py.Lemmas.
From PVG Require Import PyGen.
Import ListNotations.
Open Scope Z_scope.

Lemma existsb_same_members {A} (f : A -> bool) (a b : list A) : (forall x, In x a <-> In x b) -> existsb f a = existsb f b.
Proof.
  intro H. apply Bool.eq_true_iff_eq. rewrite !existsb_exists. split; intros [x [Hx Hf]]; exists x; split; auto; apply H; exact Hx.
Qed.
Lemma existsb_map_id {A} (f : A -> bool) l : existsb (fun b : bool => b) (map f l) = existsb f l.
Proof. induction l as [|x l IH]; simpl; [reflexivity|]. rewrite IH. reflexivity. Qed.

Lemma zsort_set_const x r : forallb (Z.eqb x) r = true -> zsort_set (x :: r) = [x].
Proof.
  induction r as [|y r IH]; intro H; [reflexivity|]. simpl in H. apply andb_true_iff in H. destruct H as [E H].
  assert (y = x) by lia. subst y. change (zsort_set (x :: x :: r)) with (zinsert x (zsort_set (x :: r))). rewrite IH by exact H.
  simpl. rewrite Z.ltb_irrefl, Z.eqb_refl. reflexivity.
Qed.
Lemma zsort_set_single d z : zsort_set d = [z] -> forall x, In x d -> x = z.
Proof. intros H x Hx. apply zsort_set_In in Hx. rewrite H in Hx. destruct Hx as [<-|[]]. reflexivity. Qed.

Lemma unique_diffs_one l : (zlen (zsort_set (diffs l)) =? 1) = uniform l.
Proof.
  unfold uniform. destruct (diffs l) as [|x r] eqn:E; [reflexivity|].
  destruct (forallb (Z.eqb x) r) eqn:F.
  - rewrite zsort_set_const by exact F. reflexivity.
  - apply Z.eqb_neq. intro H. unfold zlen in H.
    destruct (zsort_set (x :: r)) as [|z [|z' t]] eqn:S; simpl in H; try lia.
    pose proof (zsort_set_single _ _ S) as Hall.
    assert (forallb (Z.eqb x) r = true); [|congruence].
    apply forallb_forall. intros y Hy. rewrite (Hall x (or_introl eq_refl)), (Hall y (or_intror Hy)). apply Z.eqb_refl.
Qed.

(* an equally spaced list is the enumeration of the range built from its first element, last element and spacing *)
Lemma progression l d : (forall x, In x (diffs l) -> x = d) -> l = zrange_n (zhd l) d (List.length l).
Proof.
  induction l as [|x [|y t] IH]; intro H; [reflexivity|reflexivity|].
  cbn [List.length zrange_n zhd hd]. f_equal.
  assert (Hy : y = x + d) by (assert (y - x = d) by (apply H; left; reflexivity); lia).
  rewrite IH at 1 by (intros z Hz; apply H; right; exact Hz). cbn [zhd hd]. rewrite Hy. reflexivity.
Qed.
Lemma uniform_is_progression : forall l d r, diffs l = d :: r -> forallb (Z.eqb d) r = true ->
  l = zrange_n (zhd l) d (List.length l).
Proof.
  intros l d r Hd Hall. apply progression. rewrite Hd. intros x [<-|Hx]; [reflexivity|].
  rewrite forallb_forall in Hall. specialize (Hall x Hx). lia.
Qed.
Lemma zrange_n_last s d n : zlast (zrange_n s d (S n)) = s + Z.of_nat n * d.
Proof.
  revert s; induction n as [|n IH]; intro s; [simpl; unfold zlast; simpl; lia|].
  change (zrange_n s d (S (S n))) with (s :: zrange_n (s + d) d (S n)). unfold zlast in *.
  change (last (s :: zrange_n (s + d) d (S n)) 0) with (last (zrange_n (s + d) d (S n)) 0). rewrite IH. lia.
Qed.

Theorem init_idl_tie (l : list Z) :
  obs_init_idl_from_list (mkIdl false l) = match idl_of_arg (AList l) with Some i => Ok i | None => Raise ValueError end.
Proof.
  unfold obs_init_idl_from_list, idl_of_arg. cbv zeta. cbn [cfgs].
  rewrite !existsb_map_id.
  rewrite (existsb_same_members (fun x => x <? 0) (zsort_set (diffs l)) (diffs l)) by (intro; apply zsort_set_In).
  rewrite (existsb_same_members (fun x => x =? 0) (zsort_set (diffs l)) (diffs l)) by (intro; apply zsort_set_In).
  destruct (existsb (fun x => x <? 0) (diffs l)) eqn:Eneg; [reflexivity|].
  destruct (existsb (fun x => x =? 0) (diffs l)) eqn:Ezero; [reflexivity|].
  rewrite unique_diffs_one. unfold norm_idl. cbn [isr cfgs].
  destruct (uniform l) eqn:Eu; [|reflexivity].
  unfold uniform in Eu. destruct (diffs l) as [|d r] eqn:Ed; [discriminate|].
  rewrite zsort_set_const by exact Eu.
  assert (Hdpos : 0 < d).
  { assert (Hn : (d <? 0) = false) by (simpl in Eneg; apply orb_false_iff in Eneg; tauto).
    assert (Hz : (d =? 0) = false) by (simpl in Ezero; apply orb_false_iff in Ezero; tauto). lia. }
  assert (Hlen : (2 <= List.length l)%nat) by (destruct l as [|x [|y t]]; simpl in Ed; try discriminate; simpl; lia).
  assert (Hne : l <> []) by (intro E; subst; discriminate).
  change (- (1)) with (-1). rewrite py_index_0, py_index_m1 by exact Hne. cbn [bind].
  rewrite (py_index_nth [d] 0 0) by (unfold zlen; simpl; lia). cbn [bind Z.to_nat nth].
  unfold py_range. destruct (d =? 0) eqn:E0; [lia|]. cbn [bind]. rewrite zrange_any_pos by exact Hdpos.
  f_equal. f_equal.
  pose proof (uniform_is_progression l d r Ed Eu) as Hprog.
  destruct (List.length l) as [|n] eqn:En; [lia|].
  unfold zrange. destruct (d <=? 0) eqn:E1; [lia|].
  assert (Hlast : zlast l = zhd l + Z.of_nat n * d) by (rewrite Hprog at 1; apply zrange_n_last).
  replace ((zlast l + d - zhd l + d - 1) / d) with (Z.of_nat (S n)).
  - rewrite Nat2Z.id. symmetry. exact Hprog.
  - rewrite Hlast. replace (zhd l + Z.of_nat n * d + d - zhd l + d - 1) with (Z.of_nat (S n) * d + (d - 1)) by lia.
    rewrite Z.div_add_l by lia. rewrite Z.div_small by lia. lia.
Qed.

Print Assumptions init_idl_tie.
