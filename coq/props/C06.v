(* Property C06 -- covariance and correlation matrices are consistent with the individual errors.  Theorems only.
   The theorems about square roots hold for EVERY function rt with the contract of the real square root
   (rt x * rt x == x and rt x > 0 for x > 0), stated as explicit hypotheses. *)
From Coq Require Import ZArith QArith Qabs List Bool String.
From PV Require Import Base.QAux Obs.Model Obs.Cov.
Import ListNotations.
Open Scope Q_scope.

Theorem covariance_matrix_is_symmetric :
  forall elt l i j, (i < List.length l)%nat -> (j < List.length l)%nat -> mnth (cov0 elt l) i j = mnth (cov0 elt l) j i.
Proof. exact cov0_symmetric. Qed.

Theorem correlation_has_unit_diagonal :
  forall rt, (forall x, 0 < x -> rt x * rt x == x) -> forall c, 0 < c -> c / (rt c * rt c) == 1.
Proof. exact corr_unit_diagonal. Qed.

Theorem covariance_diagonal_is_squared_error :
  forall rt, (forall x, 0 < x -> rt x * rt x == x) -> forall c err, 0 < c -> err * (c / (rt c * rt c)) * err == err * err.
Proof. exact cov_diagonal_is_error_squared. Qed.

(* Pearson correlation on the common configurations lies in [-1, 1] (Cauchy-Schwarz), any chain length *)
Theorem pearson_correlation_in_unit_interval :
  forall rt, (forall x, 0 < x -> rt x * rt x == x) -> (forall x, 0 < x -> 0 < rt x) ->
  forall l : list (Q * Q),
  let s := Qsum (map (fun p => fst p * snd p) l) in
  let a := Qsum (map (fun p => fst p * fst p) l) in
  let b := Qsum (map (fun p => snd p * snd p) l) in
  0 < a * b -> Qabs (s / rt (a * b)) <= 1.
Proof. exact correlation_in_unit_interval. Qed.

(* observables without a common chain or covariance input have zero covariance *)
Theorem disjoint_observables_have_zero_covariance : forall rt o1 o2, names_disjoint o1 o2 = true -> cov_element rt o1 o2 = 0.
Proof. intros rt o1 o2 H. unfold cov_element. rewrite H. reflexivity. Qed.

(* re-sorting a correlation matrix by keys is the corresponding permutation of the underlying data *)
Theorem sort_corr_is_the_induced_permutation :
  forall (X : Type) (f : X -> X -> Q) (xs : list X) (d : X) kl sizes i j,
  let mp := sort_mapping kl sizes in
  let m := map (fun a => map (fun b => f a b) xs) xs in
  (i < List.length mp)%nat -> (j < List.length mp)%nat -> (forall k, In k mp -> (k < List.length xs)%nat) ->
  nth j (nth i (sort_corr m kl sizes) []) 0 = f (nth (nth i mp O) xs d) (nth (nth j mp O) xs d).
Proof. exact @sort_corr_is_permutation. Qed.

(* eigenvalue smoothing: the renormalised eigenvalues sum to the dimension (the trace of a correlation matrix) *)
Theorem smoothing_preserves_the_trace :
  forall vals, ~ Qsum vals == 0 -> vals <> [] -> Qsum (map (fun v => v / (Qsum vals / QlenL vals)) vals) == QlenL vals.
Proof. exact smoothing_normalises_the_trace. Qed.

(* Non-vacuity: the docstring example of sort_corr: key order ['b','a'], blocks a:2, b:1 -> mapping [1;2;0] *)
Example c06_example :
  sort_mapping ["b"; "a"]%string (fun k => if String.eqb k "a" then 2%nat else 1%nat) = [1; 2; 0]%nat /\
  sort_corr [[1; 2#10; 3#10]; [2#10; 1; 4#10]; [3#10; 4#10; 1]] ["b"; "a"]%string (fun k => if String.eqb k "a" then 2%nat else 1%nat)
  = [[1; 4#10; 2#10]; [4#10; 1; 3#10]; [2#10; 3#10; 1]].
Proof. split; vm_compute; reflexivity. Qed.

Print Assumptions covariance_matrix_is_symmetric.
Print Assumptions pearson_correlation_in_unit_interval.
Print Assumptions sort_corr_is_the_induced_permutation.
Print Assumptions smoothing_preserves_the_trace.
