(* TIE (translator): the loop of Corr.m_eff for the variants 'periodic', 'cosh' and 'sinh', regenerated from pyerrors/correlators.py on this run
   over abstract timeslice entries E with a central value (evalue) and the root of the documented ratio equation at timeslice t (eroot;
   the fragment selector checks that the equation handed to find_root is  func(x (t - T/2)) / func(x (t + 1 - T/2)) = C(t)/C(t+1)  with
   func = cosh for 'periodic' / 'cosh' and sinh for 'sinh').  For every T > 2 and every pattern of undefined timeslices the loop never raises
   and decides each timeslice t < T - 1 as follows:
     undefined                        if C(t) or C(t+1) is undefined or the central value of C(t+1) is 0,
     the entry of timeslice t - 1     if the variant is sinh and 2 t = T or 2 t = T - 2   (only an even T has such timeslices),
     undefined                        if the variant is sinh and t < T/2 < t + 1          (only an odd T has such a timeslice),
     undefined                        if C(t)/C(t+1) < 0,
     the root                         otherwise. *)
From Coq Require Import ZArith QArith List Bool Lia.
From PV Require Import Base.QAux Obs.Model Py.Prim Py.Lemmas.
From PVG Require Import PyGen.
Import ListNotations.
Open Scope Z_scope.

(* the three numerical tests of the source, in integers *)
Lemma at_midpoint t T : Qeqb (inject_Z t) (inject_Z T / inject_Z 2) = (2 * t =? T).
Proof.
  unfold Qeqb. destruct (2 * t =? T) eqn:E.
  - apply Z.eqb_eq in E. apply Qeq_bool_iff. subst T. unfold Qeq, Qdiv, Qmult, Qinv, inject_Z. cbn -[Z.mul Z.add Z.sub Z.opp]. lia.
  - apply Z.eqb_neq in E. destruct (Qeq_bool (inject_Z t) (inject_Z T / inject_Z 2)) eqn:B; [|reflexivity].
    apply Qeq_bool_iff in B. unfold Qeq, Qdiv, Qmult, Qinv, inject_Z in B. cbn -[Z.mul Z.add Z.sub Z.opp] in B. lia.
Qed.
Lemma below_midpoint t T : Qeqb (inject_Z t) (inject_Z T / inject_Z 2 - inject_Z 1) = (2 * t =? T - 2).
Proof.
  unfold Qeqb. destruct (2 * t =? T - 2) eqn:E.
  - apply Z.eqb_eq in E. apply Qeq_bool_iff. unfold Qeq, Qminus, Qplus, Qopp, Qdiv, Qmult, Qinv, inject_Z. cbn -[Z.mul Z.add Z.sub Z.opp]. lia.
  - apply Z.eqb_neq in E. destruct (Qeq_bool (inject_Z t) (inject_Z T / inject_Z 2 - inject_Z 1)) eqn:B; [|reflexivity].
    apply Qeq_bool_iff in B. unfold Qeq, Qminus, Qplus, Qopp, Qdiv, Qmult, Qinv, inject_Z in B. cbn -[Z.mul Z.add Z.sub Z.opp] in B. lia.
Qed.
Lemma straddles t t1 T : t1 = t + 1 ->
  Qltb ((inject_Z t - inject_Z T / inject_Z 2) * (inject_Z t1 - inject_Z T / inject_Z 2)) 0 = ((2 * t - T) * (2 * t + 2 - T) <? 0).
Proof.
  intros ->. unfold Qltb. change 0%Q with (inject_Z 0).
  assert (H : Qle (inject_Z 0) ((inject_Z t - inject_Z T / inject_Z 2) * (inject_Z (t + 1) - inject_Z T / inject_Z 2)) <-> 0 <= (2 * t - T) * (2 * t + 2 - T)).
  { unfold Qle, Qminus, Qplus, Qopp, Qdiv, Qmult, Qinv, inject_Z. cbn -[Z.mul Z.add Z.sub Z.opp]. nia. }
  destruct ((2 * t - T) * (2 * t + 2 - T) <? 0) eqn:E.
  - apply Z.ltb_lt in E. destruct (Qle_bool _ _) eqn:B; [|reflexivity]. apply Qle_bool_iff in B. apply H in B. lia.
  - apply Z.ltb_ge in E. apply H in E. apply Qle_bool_iff in E. rewrite E. reflexivity.
Qed.

Section Tie.
Variable E : Type.
Variable evalue : E -> Q.
Variable eroot : E -> E -> Z -> E.

Inductive verdict := Undefined | Previous | Root (a b : E).
Definition decide (sinh : bool) (c : list (option E)) (t : nat) : verdict :=
  let T := Z.of_nat (List.length c) in
  match nth t c None, nth (S t) c None with
  | Some a, Some b =>
      if Qeqb (evalue b) 0 then Undefined
      else if sinh && ((2 * Z.of_nat t =? T) || (2 * Z.of_nat t =? T - 2)) then Previous
      else if sinh && ((2 * Z.of_nat t - T) * (2 * Z.of_nat t + 2 - T) <? 0) then Undefined
      else if Qltb (evalue a / evalue b) 0 then Undefined
      else Root a b
  | _, _ => Undefined
  end.
Definition step (sinh : bool) (c : list (option E)) (acc : list (option E)) (t : nat) : list (option E) :=
  acc ++ [match decide sinh c t with
          | Undefined => None
          | Previous => last acc None
          | Root a b => Some (eroot a b (Z.of_nat t))
          end].
Definition m_eff_root_model (sinh : bool) (c : list (option E)) : list (option E) :=
  fold_left (step sinh c) (seq 0 (List.length c - 1)) [].

Lemma last_nth_gen {A} (l : list A) d : l <> [] -> last l d = nth (List.length l - 1) l d.
Proof.
  induction l as [|x r IH]; [congruence|]. intros _. destruct r as [|y r'].
  - reflexivity.
  - change (last (x :: y :: r') d) with (last (y :: r') d). rewrite IH by congruence. simpl. rewrite Nat.sub_0_r. reflexivity.
Qed.
Lemma py_index_last {A} (l : list A) d : l <> [] -> py_index l (Z.opp 1) = Ok (last l d).
Proof.
  intro H. change (Z.opp 1) with (-1). unfold py_index. assert (Hl : (0 < List.length l)%nat) by (destruct l; [congruence|simpl; lia]).
  rewrite norm_index_neg by (unfold zlen; lia).
  replace (Z.to_nat (-1 + zlen l)) with (List.length l - 1)%nat by (unfold zlen; lia).
  destruct (nth_error l (List.length l - 1)) eqn:En.
  - f_equal. rewrite (last_nth_gen l d) by exact H. symmetry. apply nth_error_nth. exact En.
  - apply nth_error_None in En. lia.
Qed.

Lemma fold_left_snoc {A B} (f : A -> B -> A) l x a : fold_left f (l ++ [x]) a = f (fold_left f l a) x.
Proof. rewrite fold_left_app. reflexivity. Qed.

Theorem m_eff_root_loop_tie (sinh : bool) (c : list (option E)) :
  (2 < List.length c)%nat ->
  m_eff_root_loop E evalue eroot c sinh = Ok (m_eff_root_model sinh c).
Proof.
  intro HT. unfold m_eff_root_loop, m_eff_root_model. cbv zeta.
  set (n := (List.length c - 1)%nat).
  replace (zlen c - 1) with (Z.of_nat n) by (unfold zlen, n; lia).
  match goal with |- context [py_for _ _ ?body] => set (B := body) end.
  destruct (py_for_upto_inv (fun k st => st = fold_left (step sinh c) (seq 0 k) [] /\ List.length st = k) B n []) as [st' [Hr [Hst _]]].
  - split; reflexivity.
  - intros k st Hk [Hst Hlen]. exists (step sinh c st k). split.
    + unfold B, step, decide. cbv zeta.
      assert (Hk1 : (k < List.length c)%nat) by (unfold n in Hk; lia).
      assert (Hk2 : (S k < List.length c)%nat) by (unfold n in Hk; lia).
      rewrite !(py_index_nat c k None) by exact Hk1. cbn [bind].
      replace (Z.of_nat k + 1) with (Z.of_nat (S k)) by lia.
      rewrite !(py_index_nat c (S k) None) by exact Hk2.
      destruct (nth k c None) as [a|]; cbn [is_none bind]; [|reflexivity].
      destruct (nth (S k) c None) as [b|]; cbn [is_none bind py_eun]; [|reflexivity].
      change (inject_Z 0) with 0%Q.
      destruct (Qeqb (evalue b) 0) eqn:Ez; [reflexivity|].
      unfold py_truediv. change (Qeqb (inject_Z 2) 0) with false. cbn [bind]. rewrite Ez.
      unfold zlen. rewrite at_midpoint, below_midpoint, (straddles (Z.of_nat k) (Z.of_nat (S k))) by lia.
      destruct sinh; cbn [andb bind].
      * destruct ((2 * Z.of_nat k =? Z.of_nat (List.length c)) || (2 * Z.of_nat k =? Z.of_nat (List.length c) - 2)) eqn:Em.
        -- assert (Hne : st <> []).
           { intro Hnil. rewrite Hnil in Hlen. simpl in Hlen. subst k. apply orb_true_iff in Em. destruct Em as [Em|Em]; apply Z.eqb_eq in Em; lia. }
           rewrite (py_index_last st None Hne). reflexivity.
        -- destruct ((2 * Z.of_nat k - Z.of_nat (List.length c)) * (2 * Z.of_nat k + 2 - Z.of_nat (List.length c)) <? 0); [reflexivity|].
           cbn [bind]. destruct (Qltb (evalue a / evalue b) 0); reflexivity.
      * destruct (Qltb (evalue a / evalue b) 0); reflexivity.
    + split.
      * rewrite seq_S, fold_left_snoc, <- Hst. reflexivity.
      * unfold step. rewrite app_length, Hlen. simpl. lia.
  - rewrite Hr. cbn [bind]. rewrite Hst. reflexivity.
Qed.

(* consequences in the property's words *)
Corollary odd_T_is_never_filled (c : list (option E)) t :
  Z.odd (Z.of_nat (List.length c)) = true -> decide true c t <> Previous.
Proof.
  intro Ho. unfold decide. cbv zeta. destruct (nth t c None); [|discriminate]. destruct (nth (S t) c None); [|discriminate].
  destruct (Qeqb _ 0); [discriminate|].
  assert (Hm : ((2 * Z.of_nat t =? Z.of_nat (List.length c)) || (2 * Z.of_nat t =? Z.of_nat (List.length c) - 2)) = false).
  { apply orb_false_iff. split; apply Z.eqb_neq; intro Hx; rewrite Z.odd_spec in Ho; destruct Ho as [m Hm]; lia. }
  rewrite Hm. cbn [andb]. destruct (_ <? 0); [discriminate|]. destruct (Qltb _ 0); discriminate.
Qed.
Corollary straddling_timeslice_is_undefined (c : list (option E)) t :
  2 * Z.of_nat t < Z.of_nat (List.length c) < 2 * Z.of_nat t + 2 -> decide true c t = Undefined.
Proof.
  intro H. unfold decide. cbv zeta. destruct (nth t c None); [|reflexivity]. destruct (nth (S t) c None); [|reflexivity].
  destruct (Qeqb _ 0); [reflexivity|].
  assert (Hm : ((2 * Z.of_nat t =? Z.of_nat (List.length c)) || (2 * Z.of_nat t =? Z.of_nat (List.length c) - 2)) = false).
  { apply orb_false_iff. split; apply Z.eqb_neq; lia. }
  rewrite Hm. cbn [andb].
  assert (Hs : ((2 * Z.of_nat t - Z.of_nat (List.length c)) * (2 * Z.of_nat t + 2 - Z.of_nat (List.length c)) <? 0) = true) by (apply Z.ltb_lt; nia).
  rewrite Hs. reflexivity.
Qed.
Corollary cosh_is_root_or_undefined (c : list (option E)) t : decide false c t <> Previous.
Proof.
  unfold decide. cbv zeta. destruct (nth t c None); [|discriminate]. destruct (nth (S t) c None); [|discriminate].
  destruct (Qeqb _ 0); [discriminate|]. cbn [andb]. destruct (Qltb _ 0); discriminate.
Qed.
End Tie.

(* non-vacuity: T = 4, sinh: timeslice 0 is a root, timeslices 1 = T/2 - 1 and 2 = T/2 carry its entry; cosh: three roots; T = 5, sinh: the
   straddling timeslice 2 is undefined, and so is timeslice 3, whose ratio is negative *)
Example m_eff_root_loop_examples :
  let root := fun (a b : Q) (t : Z) => (a / b + inject_Z t)%Q in
  m_eff_root_loop Q (fun q => q) root [Some 3; Some 2; Some 1; Some (-1)]%Q true = Ok [Some (3 / 2 + 0); Some (3 / 2 + 0); Some (3 / 2 + 0)]%Q
  /\ m_eff_root_loop Q (fun q => q) root [Some 3; Some 2; Some 1; Some 2]%Q false = Ok [Some (3 / 2 + 0); Some (2 / 1 + 1); Some (1 / 2 + inject_Z 2)]%Q
  /\ m_eff_root_loop Q (fun q => q) root [Some 4; Some 3; Some 1; Some (-1); Some 2]%Q true = Ok [Some (4 / 3 + 0); Some (3 / 1 + 1); None; None]%Q.
Proof. cbv zeta. repeat split; vm_compute; reflexivity. Qed.

Print Assumptions m_eff_root_loop_tie.
Print Assumptions odd_T_is_never_filled.
Print Assumptions straddling_timeslice_is_undefined.
