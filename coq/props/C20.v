(* Property C20 -- constant tables and special-function derivatives are mathematically exact.
   Theorems over the fragments REGENERATED from /repo (PVG.DiracGen, PVG.KnGen) on every run. *)
From Coq Require Import ZArith QArith List Bool String Reals Lra.
From PV Require Import Base.QAux Tab.CMat Tab.Eps Tab.DiracSpec.
From PVG Require Import DiracGen KnGen.
Import ListNotations.

(* ---- Dirac matrices: finite domain, decided by evaluation on Gaussian rationals ---- *)
Definition gX := nth 0 gamma mzero4.
Definition gY := nth 1 gamma mzero4.
Definition gZ := nth 2 gamma mzero4.
Definition gT := nth 3 gamma mzero4.

Theorem gamma_stack_is_XYZT : all2 meqb gamma [gammaX; gammaY; gammaZ; gammaT] = true.
Proof. vm_compute. reflexivity. Qed.
Theorem tables_are_4x4 : shapes_ok gX gY gZ gT gamma5 identity = true.
Proof. vm_compute. reflexivity. Qed.
Theorem clifford_algebra : clifford_ok gX gY gZ gT = true.
Proof. vm_compute. reflexivity. Qed.
Theorem gammas_hermitian : hermitian_ok gX gY gZ gT gamma5 = true.
Proof. vm_compute. reflexivity. Qed.
Theorem gamma5_is_product_of_four : gamma5_product_ok gX gY gZ gT gamma5 = true.
Proof. vm_compute. reflexivity. Qed.
Theorem gamma5_anticommutes : gamma5_anticommutes_ok gX gY gZ gT gamma5 = true.
Proof. vm_compute. reflexivity. Qed.
Theorem identity_is_identity : identity_ok identity = true.
Proof. vm_compute. reflexivity. Qed.
Theorem grid_tags_are_the_16 : grid_tags = spec_tags gX gY gZ gT gamma5.
Proof. vm_compute. reflexivity. Qed.
Theorem grid_structures_equal_stated_products : grid_ok gX gY gZ gT gamma5 grid_gamma = true.
Proof. vm_compute. reflexivity. Qed.
Theorem sigma_equals_product : sigma_is_product_ok gX gY gZ gT grid_gamma = true.
Proof. vm_compute. reflexivity. Qed.

Theorem unknown_tag_rejected : forall tag, ~ In tag (spec_tags gX gY gZ gT gamma5) -> grid_gamma tag = None.
Proof.
  intros tag H. unfold grid_gamma.
  repeat match goal with
  | |- context [String.eqb tag ?s] =>
      destruct (String.eqb_spec tag s) as [E|_]; [exfalso; apply H; rewrite E; vm_compute; tauto|]
  end.
  reflexivity.
Qed.

(* ---- epsilon tensors: for ALL integer index tuples ---- *)
Definition u3 := (eps3_allowed_a ++ eps3_allowed_b) ++ [0;1;2;3]%Z.
Definition u4 := (eps4_allowed_a ++ eps4_allowed_b) ++ [0;1;2;3;4]%Z.

Lemma eps3_model_dom i j k : eps3_model i j k <> None -> In i u3 /\ In j u3 /\ In k u3.
Proof.
  unfold eps3_model. destruct (eps3_dom i j k) eqn:E; [|congruence]. intros _.
  unfold eps3_dom in E. pose proof (dom_or_subset_In _ _ _ E) as H.
  repeat split; apply in_or_app; left; apply H; simpl; auto.
Qed.
Lemma eps4_model_dom i j k o : eps4_model i j k o <> None -> In i u4 /\ In j u4 /\ In k u4 /\ In o u4.
Proof.
  unfold eps4_model. destruct (eps4_dom i j k o) eqn:E; [|congruence]. intros _.
  unfold eps4_dom in E. pose proof (dom_or_subset_In _ _ _ E) as H.
  repeat split; apply in_or_app; left; apply H; simpl; auto.
Qed.

Theorem eps3_is_permutation_sign_or_rejects :
  forall i j k : Z, optQ_eqb (eps3_model i j k) (spec_eps3 i j k) = true.
Proof.
  apply (lift3 eps3_model spec_eps3 u3).
  - exact eps3_model_dom.
  - intros i j k H. destruct (spec_eps3_dom i j k H) as [A [B D]].
    repeat split; apply in_or_app; right; assumption.
  - vm_compute. reflexivity.
Qed.

Theorem eps4_is_permutation_sign_or_rejects :
  forall i j k o : Z, optQ_eqb (eps4_model i j k o) (spec_eps4 i j k o) = true.
Proof.
  apply (lift4 eps4_model spec_eps4 u4).
  - exact eps4_model_dom.
  - intros i j k o H. destruct (spec_eps4_dom i j k o H) as [A [B [D E]]].
    repeat split; apply in_or_app; right; assumption.
  - vm_compute. reflexivity.
Qed.

Example eps3_nonvacuous : eps3_model 1 2 3 = Some (eps3_form 1 2 3) /\ Qeqb (eps3_form 1 2 3) 1 = true
                          /\ Qeqb (eps3_form 2 1 0) (-1) = true /\ eps3_model 0 1 3 = None.
Proof. vm_compute. auto. Qed.
Example eps4_nonvacuous : Qeqb (eps4_form 1 2 3 4) 1 = true /\ Qeqb (eps4_form 0 1 3 2) (-1) = true
                          /\ eps4_model 0 1 2 4 = None.
Proof. vm_compute. auto. Qed.

(* ---- K_n: the regenerated vjp equals g * dK_n/dx under the Bessel recurrence contract ---- *)
Section Kn.
Variable K : Z -> R -> R.
(* contract of the oracle scipy.special.kn (DLMF 10.27.3 and 10.29.1); named in the trusted base *)
Hypothesis K_order_sym : forall n x, K (- n) x = K n x.
Definition K_x_derivative (n : Z) (x : R) : R := (- (K (n - 1) x + K (n + 1) x) / 2)%R.

Theorem kn_vjp_is_g_times_derivative :
  forall (n : Z) (x g : R), kn_vjp K n x g = (g * K_x_derivative n x)%R.
Proof.
  intros n x g. unfold kn_vjp, K_x_derivative.
  assert (E : K (Z.abs (n - 1)) x = K (n - 1) x).
  { destruct (Z_le_gt_dec 0 (n - 1)) as [H|H].
    - rewrite Z.abs_eq by exact H. reflexivity.
    - rewrite Z.abs_neq by (apply Z.lt_le_incl, Z.gt_lt; exact H). apply K_order_sym. }
  rewrite E. lra.
Qed.
End Kn.

Print Assumptions gamma_stack_is_XYZT.
Print Assumptions clifford_algebra.
Print Assumptions grid_structures_equal_stated_products.
Print Assumptions unknown_tag_rejected.
Print Assumptions eps3_is_permutation_sign_or_rejects.
Print Assumptions eps4_is_permutation_sign_or_rejects.
Print Assumptions kn_vjp_is_g_times_derivative.
