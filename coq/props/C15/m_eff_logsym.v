(* Property C15, m_eff('logsym'): the loop REGENERATED from correlators.py is the documented one.  Theorems only. *)
From Coq Require Import ZArith QArith List Bool.
From PV Require Import Base.QAux Corr.Stencil Corr.StencilSpec.
From PVG Require Import StencilGen.
Open Scope Z_scope.

Theorem m_eff_logsym_guards_and_range_as_documented : mstencil_same_shape ms_m_eff_logsym spec_m_eff_logsym = true.
Proof. vm_compute. reflexivity. Qed.
Theorem m_eff_logsym_outer_function : m_eff_logsym_outer = 1%nat.
Proof. reflexivity. Qed.
Theorem m_eff_logsym_well_formed : mstencil_ok ms_m_eff_logsym = true.
Proof. vm_compute. reflexivity. Qed.
Theorem m_eff_logsym_argument_as_documented : forall f t, (eval f t (ms_expr ms_m_eff_logsym) == eval f t (ms_expr spec_m_eff_logsym))%Q.
Proof. intros f t. cbn [ms_expr ms_m_eff_logsym spec_m_eff_logsym eval c]. reflexivity. Qed.
Theorem m_eff_logsym_never_raises : forall cont t, mstep_at ms_m_eff_logsym cont t <> SRaise.
Proof. intros cont t. apply mguarded_never_raises. exact m_eff_logsym_well_formed. Qed.
Print Assumptions m_eff_logsym_never_raises.
