(* Property C15, variant second_deriv('improved'): the loop REGENERATED from correlators.py (PVG.StencilGen) is the documented stencil.
   Theorems only. *)
From Coq Require Import ZArith QArith List Bool.
From PV Require Import Base.QAux Corr.Stencil Corr.StencilSpec.
From PVG Require Import StencilGen.
Open Scope Z_scope.

(* same loop range, same padding, and the `is None` guards are exactly the slices the documented formula references *)
Theorem second_deriv_improved_guards_and_range_as_documented : stencil_same_shape st_second_deriv_improved spec_second_deriv_improved = true.
Proof. vm_compute. reflexivity. Qed.
Theorem second_deriv_improved_well_formed : stencil_ok st_second_deriv_improved = true.
Proof. vm_compute. reflexivity. Qed.
(* the appended expression is the documented formula, for every correlator f and every timeslice t *)
Theorem second_deriv_improved_formula_as_documented : forall f t, (eval f t (st_expr st_second_deriv_improved) == eval f t (st_expr spec_second_deriv_improved))%Q.
Proof. intros f t. cbn [st_expr st_second_deriv_improved spec_second_deriv_improved eval c]. field. Qed.
(* hence: an undefined timeslice never raises, and a timeslice is undefined exactly when a referenced one is (all T, all patterns) *)
Theorem second_deriv_improved_never_raises : forall cont, run st_second_deriv_improved cont <> Raises.
Proof. intro cont. apply run_never_raises. vm_compute. reflexivity. Qed.
Theorem second_deriv_improved_undefined_exactly_where_referenced :
  forall cont t, (step_at st_second_deriv_improved cont t = SNone <-> exists k, In k (refs (st_expr st_second_deriv_improved)) /\ is_none cont (t + k) = true).
Proof. intros cont t. apply (proj1 (slot_defined_iff st_second_deriv_improved cont t second_deriv_improved_well_formed)). Qed.
Print Assumptions second_deriv_improved_formula_as_documented.
Print Assumptions second_deriv_improved_undefined_exactly_where_referenced.
