(* Property C15, variant deriv('forward'): the loop REGENERATED from correlators.py (PVG.StencilGen) is the documented stencil.
   Theorems only. *)
From Coq Require Import ZArith QArith List Bool.
From PV Require Import Base.QAux Corr.Stencil Corr.StencilSpec.
From PVG Require Import StencilGen.
Open Scope Z_scope.

(* same loop range, same padding, and the `is None` guards are exactly the slices the documented formula references *)
Theorem deriv_forward_guards_and_range_as_documented : stencil_same_shape st_deriv_forward spec_deriv_forward = true.
Proof. vm_compute. reflexivity. Qed.
Theorem deriv_forward_well_formed : stencil_ok st_deriv_forward = true.
Proof. vm_compute. reflexivity. Qed.
(* the appended expression is the documented formula, for every correlator f and every timeslice t *)
Theorem deriv_forward_formula_as_documented : forall f t, (eval f t (st_expr st_deriv_forward) == eval f t (st_expr spec_deriv_forward))%Q.
Proof. intros f t. cbn [st_expr st_deriv_forward spec_deriv_forward eval c]. field. Qed.
(* hence: an undefined timeslice never raises, and a timeslice is undefined exactly when a referenced one is (all T, all patterns) *)
Theorem deriv_forward_never_raises : forall cont, run st_deriv_forward cont <> Raises.
Proof. intro cont. apply run_never_raises. vm_compute. reflexivity. Qed.
Theorem deriv_forward_undefined_exactly_where_referenced :
  forall cont t, (step_at st_deriv_forward cont t = SNone <-> exists k, In k (refs (st_expr st_deriv_forward)) /\ is_none cont (t + k) = true).
Proof. intros cont t. apply (proj1 (slot_defined_iff st_deriv_forward cont t deriv_forward_well_formed)). Qed.
Print Assumptions deriv_forward_formula_as_documented.
Print Assumptions deriv_forward_undefined_exactly_where_referenced.
