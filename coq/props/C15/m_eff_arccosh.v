(* Property C15, m_eff('arccosh'): the loop REGENERATED from correlators.py is the documented one.  Theorems only. *)
From Coq Require Import ZArith QArith List Bool.
From PV Require Import Base.QAux Corr.Stencil Corr.StencilSpec.
From PVG Require Import StencilGen.
Open Scope Z_scope.

Theorem m_eff_arccosh_guards_and_range_as_documented : mstencil_same_shape ms_m_eff_arccosh spec_m_eff_arccosh = true.
Proof. vm_compute. reflexivity. Qed.
Theorem m_eff_arccosh_outer_function : m_eff_arccosh_outer = 2%nat.
Proof. reflexivity. Qed.
Theorem m_eff_arccosh_well_formed : mstencil_ok ms_m_eff_arccosh = true.
Proof. vm_compute. reflexivity. Qed.
Theorem m_eff_arccosh_argument_as_documented : forall f t, (eval f t (ms_expr ms_m_eff_arccosh) == eval f t (ms_expr spec_m_eff_arccosh))%Q.
Proof. intros f t. cbn [ms_expr ms_m_eff_arccosh spec_m_eff_arccosh eval c]. reflexivity. Qed.
Theorem m_eff_arccosh_never_raises : forall cont t, mstep_at ms_m_eff_arccosh cont t <> SRaise.
Proof. intros cont t. apply mguarded_never_raises. exact m_eff_arccosh_well_formed. Qed.
Print Assumptions m_eff_arccosh_never_raises.
