(* Property C15, m_eff('log'): the loop REGENERATED from correlators.py is the documented one.  Theorems only. *)
From Coq Require Import ZArith QArith List Bool.
From PV Require Import Base.QAux Corr.Stencil Corr.StencilSpec.
From PVG Require Import StencilGen.
Open Scope Z_scope.

Theorem m_eff_log_guards_and_range_as_documented : mstencil_same_shape ms_m_eff_log spec_m_eff_log = true.
Proof. vm_compute. reflexivity. Qed.
Theorem m_eff_log_outer_function : m_eff_log_outer = 0%nat.
Proof. reflexivity. Qed.
Theorem m_eff_log_well_formed : mstencil_ok ms_m_eff_log = true.
Proof. vm_compute. reflexivity. Qed.
Theorem m_eff_log_argument_as_documented : forall f t, (eval f t (ms_expr ms_m_eff_log) == eval f t (ms_expr spec_m_eff_log))%Q.
Proof. intros f t. cbn [ms_expr ms_m_eff_log spec_m_eff_log eval c]. reflexivity. Qed.
Theorem m_eff_log_never_raises : forall cont t, mstep_at ms_m_eff_log cont t <> SRaise.
Proof. intros cont t. apply mguarded_never_raises. exact m_eff_log_well_formed. Qed.
Print Assumptions m_eff_log_never_raises.
