(* Property C04 -- every observable produced by the library is structurally well-formed.  Theorems only. *)
From Coq Require Import ZArith QArith List Bool String.
From PV Require Import Base.QAux Obs.Model Obs.WF.
From PVG Require Import DispatchGen.
Import ListNotations.

(* ---- arithmetic between real observables, complex observables and real or complex numbers is closed:
        over the dispatch table REGENERATED from class Obs, every operator in both operand orders yields a real
        observable or a complex observable, never an Obs with a complex central value ---- *)
Theorem arithmetic_is_closed : arith_closedb obs_dispatch = true.
Proof. vm_compute. reflexivity. Qed.

(* ---- malformed construction requests are rejected (constructor model, all argument lists) ---- *)
Theorem rejects_length_mismatch : forall lens names idl, List.length lens <> List.length names -> obs_init lens names idl = Rejected.
Proof. exact init_rejects_length_mismatch. Qed.
Theorem rejects_non_string_names : forall lens names idl, all_str names = false -> obs_init lens names idl = Rejected.
Proof. exact init_rejects_non_string_names. Qed.
Theorem rejects_duplicate_names : forall lens names idl, str_nodup (map nm names) = false -> obs_init lens names idl = Rejected.
Proof. exact init_rejects_duplicate_names. Qed.
Theorem rejects_several_ensembles :
  forall lens names idl, (1 < List.length (ssort_set (map (fun a => ens_of (nm a)) names)))%nat -> obs_init lens names idl = Rejected.
Proof. exact init_rejects_several_ensembles. Qed.
Theorem rejects_fewer_than_five_samples : forall lens names idl, existsb (fun n => Nat.leb n 4) lens = true -> obs_init lens names idl = Rejected.
Proof. exact init_rejects_short_samples. Qed.
Theorem rejects_unsorted_or_duplicate_configurations : forall l, existsb (fun x => (x <=? 0)%Z) (diffs l) = true -> idl_of_arg (AList l) = None.
Proof. exact unsorted_or_duplicate_idl_rejected. Qed.
(* ---- an accepted configuration list is stored strictly increasing, as a range exactly when equally spaced ---- *)
Theorem accepted_configuration_list_is_well_formed : forall l i, idl_of_arg (AList l) = Some i -> idl_wfb i = true /\ cfgs i = l.
Proof. exact accepted_list_idl_wf. Qed.

(* Non-vacuity: a two-replica request is built and well-formed; a gapped list stays a list, an equally spaced one becomes a range *)
Example c04_examples :
  (exists o, obs_init [5; 6]%nat [NStr "e|r2"; NStr "e|r1"] (Some [AList [1; 2; 4; 5; 7]%Z; AList [2; 4; 6; 8; 10; 12]%Z]) = Built o /\ wfb o = true
             /\ map ch_name (os_chains o) = ["e|r1"; "e|r2"]%string /\ map (fun c => isr (ch_idl c)) (os_chains o) = [true; false])
  /\ obs_init [5; 5]%nat [NStr "a|r1"; NStr "b|r1"] None = Rejected.
Proof. split; [eexists; repeat split; vm_compute; reflexivity | vm_compute; reflexivity]. Qed.

Print Assumptions arithmetic_is_closed.
Print Assumptions rejects_several_ensembles.
Print Assumptions accepted_configuration_list_is_well_formed.
