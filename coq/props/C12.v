(* Property C12 -- dobs / pobs XML export and import are mutually inverse.  Theorems only. *)
From Coq Require Import ZArith QArith List Bool String Lia.
From PV Require Import Base.QAux Obs.Model Obs.DerivedThm IO.Dobs.
Import ListNotations.
Open Scope Q_scope.

(* the writer's counter walk over the union of all observables' configurations writes, for each observable, the stored
   number of every configuration it was measured on and the marker 0 elsewhere -- whatever the other observables are *)
Theorem writer_places_numbers_by_configuration :
  forall union idx deltas off, incr union -> incr idx -> List.length idx = List.length deltas -> (forall x, In x idx -> In x union) ->
  enc_walk union idx deltas off = enc_lookup union idx deltas off.
Proof. exact enc_walk_is_lookup. Qed.

(* reading back recovers exactly the observable's configurations and samples, provided no stored number is the marker *)
Theorem dobs_roundtrip_when_no_stored_number_is_zero :
  forall union idx deltas off mean,
  incr union -> incr idx -> List.length idx = List.length deltas -> (forall x, In x idx -> In x union) ->
  Forall (fun d => ~ d + off == 0) deltas ->
  dec_col union (enc_walk union idx deltas off) mean = (idx, map (fun d => Qred (Qred (d + off) + mean)) deltas).
Proof. exact dobs_column_roundtrip. Qed.

(* the side condition is necessary: a sample equal to the central value is written as the marker (format limitation) *)
Theorem marker_collides_with_sample_equal_to_central_value :
  exists union idx deltas off mean, incr union /\ incr idx /\ (forall x, In x idx -> In x union) /\
  fst (dec_col union (enc_walk union idx deltas off) mean) <> idx.
Proof. exact dobs_marker_collision_sample_equals_value. Qed.

(* pobs: every sample is reproduced, unconditionally *)
Theorem pobs_roundtrip :
  forall deltas rmean k, (k < List.length deltas)%nat ->
  nth k (fst (pobs_dec (pobs_enc deltas rmean))) 0 + snd (pobs_dec (pobs_enc deltas rmean)) == nth k deltas 0 + rmean.
Proof. exact pobs_sample_roundtrip. Qed.

(* Non-vacuity: an observable on {2,5,9} inside a file whose union is {1,2,5,7,9}, samples containing an exact zero *)
Example c12_example :
  let union := [1;2;5;7;9]%Z in let idx := [2;5;9]%Z in let deltas := [-3; 1; 2] in
  incr union /\ incr idx /\ Forall (fun d => ~ d + 0 == 0) deltas /\
  enc_walk union idx deltas 0 = [0; -3; 1; 0; 2] /\
  dec_col union (enc_walk union idx deltas 0) 3 = (idx, [0; 4; 5]).
Proof.
  cbv zeta. split; [repeat constructor; lia|]. split; [repeat constructor; lia|].
  split; [repeat (constructor; [intro H; vm_compute in H; discriminate|]); constructor|]. split; vm_compute; reflexivity.
Qed.

Print Assumptions writer_places_numbers_by_configuration.
Print Assumptions dobs_roundtrip_when_no_stored_number_is_zero.
Print Assumptions pobs_roundtrip.
