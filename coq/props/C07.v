(* Property C07 -- linear least-squares fits reproduce the closed-form GLS estimator.  Theorems only. *)
From Coq Require Import ZArith QArith Qabs List Bool String.
From PV Require Import Base.QAux Obs.Model Obs.Derived Lin.Mat Fit.Gls.
Import ListNotations.
Open Scope Q_scope.

(* a solution of the normal equations M^T (M phat - b) = 0 minimises chi^2(p) = |M p - b|^2 over ALL p, any size *)
Theorem normal_equations_solution_minimises_chisquare :
  forall M b phat p,
  shape_ok M (List.length p) -> List.length phat = List.length p -> List.length b = List.length M ->
  (forall d, List.length d = List.length p -> dotv d (tmvec M (vsubv (mvec M phat) b) (List.length p)) == 0) ->
  normsq (vsubv (mvec M phat) b) <= normsq (vsubv (mvec M p) b).
Proof. exact normal_equations_give_the_minimum. Qed.

(* ... with the exact excess |M (p - phat)|^2 (Pythagoras) *)
Theorem chisquare_excess_is_quadratic :
  forall M b phat p,
  shape_ok M (List.length p) -> List.length phat = List.length p -> List.length b = List.length M ->
  (forall d, List.length d = List.length p -> dotv d (tmvec M (vsubv (mvec M phat) b) (List.length p)) == 0) ->
  normsq (vsubv (mvec M p) b) == normsq (vsubv (mvec M phat) b) + normsq (mvec M (vsubv p phat)).
Proof. exact normal_equations_minimise. Qed.

(* whenever the model's GLS returns a result, the parameters satisfy the normal equations and T is the inverse of M^T M, EXACTLY *)
Theorem gls_result_solves_the_normal_equations :
  forall f r, gls f = Some r ->
  let M := gls_M f in let np := f_np f in let Mt := transpose M np in let N := mmul Mt M np in
  exists P, g_p r = mcol P 0 /\ List.length P = np
    /\ mat_eqb (mmul N P 1) (map (map Qred) (map (fun x => [x]) (mvec Mt (gls_b f)))) = true
    /\ mat_eqb (mmul N (g_T r) np) (map (map Qred) (identity np)) = true.
Proof. exact gls_solves_normal_equations. Qed.

(* the fitted parameters minimise the documented chi-square (whitened data residuals plus prior rows) over every parameter vector *)
Theorem gls_parameters_minimise_chisquare :
  forall f r p, gls f = Some r -> fit_shape_ok f -> List.length p = f_np f -> gls_chisq f (g_p r) <= gls_chisq f p.
Proof. exact gls_minimises. Qed.

(* Non-vacuity: straight line through (1,1), (2,2), (3,2) with unit errors and a prior 0 +- 1 on the intercept *)
Example c07_example :
  let f := mkFit [[1; 1]; [1; 2]; [1; 3]] [1; 2; 2] [[1; 0; 0]; [0; 1; 0]; [0; 0; 1]] [0%nat] [0] [1] 2 in
  match gls f with
  | Some r => g_p r = [1 # 5; 7 # 10] /\ gls_dof f = 2%Z /\ gls_chisq f (g_p r) = 3 # 10
              /\ fit_shape_ok f
  | None => False
  end.
Proof. vm_compute. repeat split; reflexivity. Qed.

Print Assumptions normal_equations_solution_minimises_chisquare.
Print Assumptions chisquare_excess_is_quadratic.
Print Assumptions gls_result_solves_the_normal_equations.
Print Assumptions gls_parameters_minimise_chisquare.
