(* TRANSLATED CODE, THEOREM DIRECTLY ON IT (C02): the automatic-windowing loop of Obs.gamma_method, regenerated from pyerrors/obs.py on this
   run as a search (which lag n the loop stops at; the translator checks that exactly this n is stored as e_windowsize), stops at the
   FIRST lag n >= 1 with g_W(n) < 0, and at w_max - 1 if there is none -- for every sign pattern of g_W and every w_max >= 2. *)
From Coq Require Import ZArith QArith List Bool Lia ZifyBool.
From PV Require Import Base.QAux Obs.Model Py.Prim Py.Lemmas.
From PVG Require Import PyGen.
Import ListNotations.
Open Scope Z_scope.

Lemma py_first_spec (f : Z -> bool) : forall (xs : list Z),
  match py_first xs (fun n => if f n then Ok (Some n) else Ok None) with
  | Ok (Some W) => exists pre post, xs = pre ++ W :: post /\ f W = true /\ forall m, In m pre -> f m = false
  | Ok None => forall m, In m xs -> f m = false
  | Raise _ => False
  end.
Proof.
  induction xs as [|x r IH]; cbn [py_first]; [intros m []|].
  destruct (f x) eqn:E; cbn [bind].
  - exists [], r. split; [reflexivity|]. split; [exact E|intros m []].
  - destruct (py_first r (fun n => if f n then Ok (Some n) else Ok None)) as [[W|]|e]; [| |exact IH].
    + destruct IH as [pre [post [Hx [HW Hpre]]]]. exists (x :: pre), post. split; [rewrite Hx; reflexivity|]. split; [exact HW|].
      intros m [<-|Hm]; [exact E|apply Hpre; exact Hm].
    + intros m [<-|Hm]; [exact E|apply IH; exact Hm].
Qed.

Theorem window_is_the_first_negative_lag (gneg : Z -> bool) (w : nat) :
  (2 <= w)%nat ->
  exists W, gamma_method_window_search gneg (Z.of_nat w) = Ok W
            /\ 1 <= W <= Z.of_nat w - 1
            /\ (forall m, 1 <= m < W -> gneg (m - 1) = false)
            /\ (W = Z.of_nat w - 1 \/ gneg (W - 1) = true).
Proof.
  intro Hw. unfold gamma_method_window_search.
  change 1 with (Z.of_nat 1) at 1. rewrite zrange_seq.
  pose proof (py_first_spec (fun n => gneg (n - 1) || (n >=? Z.of_nat w - 1)) (map Z.of_nat (seq 1 (w - 1)))) as S.
  destruct (py_first (map Z.of_nat (seq 1 (w - 1))) _) as [[W|]|e]; cbn [bind]; [| |destruct S].
  - destruct S as [pre [post [Hx [HW Hpre]]]]. exists W. split; [reflexivity|].
    assert (HinW : In W (map Z.of_nat (seq 1 (w - 1)))) by (rewrite Hx; apply in_or_app; right; left; reflexivity).
    apply in_map_iff in HinW. destruct HinW as [k [<- Hk]]. apply in_seq in Hk.
    split; [lia|]. split.
    + intros m Hm.
      (* every lag before W is in [pre]: the list is strictly increasing *)
      assert (Hmin : In m pre).
      { assert (Hmem : In m (map Z.of_nat (seq 1 (w - 1)))) by (apply in_map_iff; exists (Z.to_nat m); split; [lia|apply in_seq; lia]).
        rewrite Hx in Hmem. apply in_app_or in Hmem. destruct Hmem as [H|[H|H]]; [exact H|lia|].
        exfalso.
        (* position argument: m < W but m occurs after W in an increasing list *)
        assert (Hsorted : forall (l1 l2 : list Z) a b, map Z.of_nat (seq 1 (w - 1)) = l1 ++ a :: l2 -> In b l2 -> a < b).
        { intros l1 l2 a b Hl Hb.
          assert (G : forall n s l1 l2 a b, map Z.of_nat (seq s n) = l1 ++ a :: l2 -> In b l2 -> a < b).
          { clear. induction n as [|n IH]; intros s l1 l2 a b Hl Hb; [destruct l1; discriminate|].
            cbn [seq map] in Hl. destruct l1 as [|y l1]; cbn [app] in Hl; injection Hl as Ha Hl.
            - subst a. rewrite <- Hl in Hb. apply in_map_iff in Hb. destruct Hb as [k [<- Hk]]. apply in_seq in Hk. lia.
            - eapply IH; eassumption. }
          eapply G; eassumption. }
        pose proof (Hsorted pre post (Z.of_nat k) m Hx H). lia. }
      specialize (Hpre m Hmin). cbv beta in Hpre. apply orb_false_iff in Hpre. tauto.
    + cbv beta in HW. apply orb_true_iff in HW. destruct HW as [H|H]; [right; exact H|left; lia].
  - (* no hit is impossible: n = w - 1 satisfies the second disjunct *)
    exfalso. assert (Hin : In (Z.of_nat (w - 1)) (map Z.of_nat (seq 1 (w - 1)))) by (apply in_map; apply in_seq; lia).
    specialize (S _ Hin). cbv beta in S. apply orb_false_iff in S. destruct S as [_ S]. lia.
Qed.

Print Assumptions window_is_the_first_negative_lag.
