(* TRANSLATED CODE, THEOREM DIRECTLY ON IT (C02): the automatic-windowing loop of Obs.gamma_method, regenerated from pyerrors/obs.py on this
   run as a search (which lag n the loop stops at; the translator checks that exactly this n is stored as e_windowsize), stops at the
   FIRST lag n >= 1 with g_W(n) < 0, and at w_max - 1 if there is none -- for every sign pattern of g_W and every w_max >= 2. *)
From Coq Require Import ZArith QArith List Bool Lia ZifyBool.
From PV Require Import Base.QAux Obs.Model Obs.Gamma Py.Prim Py.Lemmas.
From PVG Require Import PyGen.
Import ListNotations.
Open Scope Z_scope.

Theorem window_is_the_first_negative_lag (gneg : Z -> bool) (w : nat) :
  (2 <= w)%nat ->
  exists W, gamma_method_window_search gneg (Z.of_nat w) = Ok W
            /\ 1 <= W <= Z.of_nat w - 1
            /\ (forall m, 1 <= m < W -> gneg (m - 1) = false)
            /\ (W = Z.of_nat w - 1 \/ gneg (W - 1) = true).
Proof.
  intro Hw. unfold gamma_method_window_search.
  change 1 with (Z.of_nat 1) at 1. rewrite zrange_seq.
  pose proof (py_first_seq (fun n => gneg (n - 1) || (n >=? Z.of_nat w - 1)) (w - 1) 1) as S.
  destruct (py_first (map Z.of_nat (seq 1 (w - 1))) _) as [[W|]|e]; cbn [bind]; [| |destruct S].
  - destruct S as [k [-> [Hk [Hf Hpre]]]]. exists (Z.of_nat k). split; [reflexivity|]. split; [lia|]. split.
    + intros m Hm. specialize (Hpre (Z.to_nat m) ltac:(lia)). rewrite Z2Nat.id in Hpre by lia. apply orb_false_iff in Hpre. tauto.
    + apply orb_true_iff in Hf. destruct Hf as [H|H]; [right; exact H|left; lia].
  - exfalso. specialize (S (w - 1)%nat ltac:(lia)). apply orb_false_iff in S. destruct S as [_ S]. lia.
Qed.

(* the tau_exp branch: with h = w_max // 2 >= 2 (the code raises ValueError otherwise) the loop stops at the first lag n >= 1 at which the
   tail criterion rho(n) - N_sigma drho(n) < 0 holds, and at max(1, h - 2) at the latest *)
Theorem tauexp_window_is_the_first_lag_meeting_the_criterion (crit : Z -> bool) (w : nat) :
  (2 <= w / 2)%nat ->
  let h := Z.of_nat w / 2 in
  exists W, gamma_method_tauexp_search crit (Z.of_nat w) = Ok W
            /\ 1 <= W <= h - 1
            /\ (forall m, 1 <= m < W -> crit m = false /\ m < h - 2)
            /\ (crit W = true \/ h - 2 <= W).
Proof.
  intro Hw. cbv zeta. unfold gamma_method_tauexp_search.
  assert (Hh : Z.of_nat w / 2 = Z.of_nat (w / 2)) by (rewrite Nat2Z.inj_div; reflexivity).
  rewrite Hh. change 1 with (Z.of_nat 1) at 1. rewrite zrange_seq.
  pose proof (py_first_seq (fun n => crit n || (n >=? Z.of_nat (w / 2) - 2)) (w / 2 - 1) 1) as S.
  destruct (py_first (map Z.of_nat (seq 1 (w / 2 - 1))) _) as [[W|]|e]; cbn [bind]; [| |destruct S].
  - destruct S as [k [-> [Hk [Hf Hpre]]]]. exists (Z.of_nat k). split; [reflexivity|]. split; [lia|]. split.
    + intros m Hm. specialize (Hpre (Z.to_nat m) ltac:(lia)). rewrite Z2Nat.id in Hpre by lia. apply orb_false_iff in Hpre.
      destruct Hpre as [H1 H2]. split; [exact H1|lia].
    + apply orb_true_iff in Hf. destruct Hf as [H|H]; [left; exact H|right; lia].
  - exfalso. specialize (S (Nat.max 1 (w / 2 - 2)) ltac:(lia)). apply orb_false_iff in S. destruct S as [_ S]. lia.
Qed.

Print Assumptions window_is_the_first_negative_lag.
Print Assumptions tauexp_window_is_the_first_lag_meeting_the_criterion.

(* ------------------------------------------------------------------ what is stored once the window is found *)
Open Scope Q_scope.
Theorem window_tauint_tie (nt : list Q) (n : nat) (N : Z) :
  (n < List.length nt)%nat ->
  exists r, gamma_method_window_tauint nt (Z.of_nat n) N = Ok r
            /\ r == Qred (qnthz nt (Z.of_nat n) * bias (Z.of_nat n) (inject_Z N)).
Proof.
  intro H. unfold gamma_method_window_tauint. rewrite (py_index_nat nt n 0) by exact H. cbn [bind].
  eexists. split; [reflexivity|]. rewrite Qred_correct. unfold bias, qnthz.
  destruct (Z.of_nat n <? 0)%Z eqn:E; [lia|]. rewrite Nat2Z.id.
  change (inject_Z 1) with 1. unfold Qdiv.
  replace (inject_Z (2 * Z.of_nat n + 1)) with (2 * inject_Z (Z.of_nat n) + 1)
    by (unfold Qplus, Qmult, inject_Z; simpl; f_equal; lia).
  ring.
Qed.
Theorem window_dvalue_sq_tie (tauint : Q) (gamma : list Q) (N : Z) :
  gamma <> [] ->
  exists r, gamma_method_window_dvalue_sq tauint gamma N = Ok r
            /\ r == Qred (2 * tauint * qnthz gamma 0 * (1 + 1 / inject_Z N) / inject_Z N).
Proof.
  intro H. unfold gamma_method_window_dvalue_sq.
  rewrite (py_index_nth gamma 0 0) by (unfold zlen; destruct gamma; [congruence|simpl; lia]). cbn [bind].
  eexists. split; [reflexivity|]. rewrite Qred_correct. unfold qnthz. cbn [Z.ltb Z.to_nat].
  change (inject_Z 1) with 1. change (inject_Z 2) with 2. reflexivity.
Qed.
Print Assumptions window_tauint_tie.
Print Assumptions window_dvalue_sq_tie.
