(* TIE (translator): the definitions regenerated from pyerrors/obs.py on this run (PVG.PyGen, written by
   translate/t_pycore.py) return, for every input in the stated domain, exactly what the hand-written models return.
   The theorems of C01 / C02 / C05 / C06 about the models are thereby theorems about the code as it is now. *)
From Coq Require Import ZArith QArith List Bool Lia Sorted.
From PV Require Import Base.QAux Obs.Model Obs.DerivedThm Obs.Gamma Obs.Cov Py.Prim Py.Lemmas.
From PVG Require Import PyGen.
Import ListNotations.
Open Scope Z_scope.

Lemma scatter_gap_h base gap idx : forall deltas ret,
  scatter_gap ret base gap idx deltas = scatter_h (fun c => (c - base) / gap) ret idx deltas.
Proof. induction idx as [|c idx IH]; intros [|d ds] r; simpl; auto. Qed.

Lemma rep_gap_range_step i deltas : isr i = true -> rep_gap (mkGrep i deltas) = range_step i.
Proof. intro H. unfold rep_gap, range_step. simpl. destruct (diffs (cfgs i)); [reflexivity|]. rewrite H. reflexivity. Qed.

(* ------------------------------------------------------------------ _expand_deltas *)
Theorem expand_deltas_tie deltas i gap :
  0 < gap -> incr (cfgs i) -> cfgs i <> [] -> List.length deltas = List.length (cfgs i) ->
  _expand_deltas deltas i (zlen (cfgs i)) gap = Ok (expand_deltas deltas i gap).
Proof.
  intros Hg Hinc Hne Hl. unfold _expand_deltas, expand_deltas.
  assert (K : (t2 <- py_index (cfgs i) (- (1)) ;; t3 <- py_index (cfgs i) 0 ;; t4 <- py_floordiv (t2 - t3 + gap) gap ;;
               t5 <- py_zeros t4 ;; let v_ret := t5 in
               st10 <- py_for (py_upto (zlen (cfgs i))) v_ret
                 (fun st10 v_i => let v_ret := st10 in
                    t6 <- py_index (cfgs i) v_i ;; t7 <- py_index (cfgs i) 0 ;; t8 <- py_floordiv (t6 - t7) gap ;;
                    t9 <- py_index deltas v_i ;; v_ret <- py_store v_ret t8 t9 ;; Ok v_ret) ;;
               let v_ret := st10 in Ok v_ret)
              = Ok (scatter_gap (zeros (Z.to_nat ((zlast (cfgs i) - zhd (cfgs i) + gap) / gap))) (zhd (cfgs i)) gap (cfgs i) deltas)).
  { change (- (1)) with (-1). rewrite py_index_m1, py_index_0 by exact Hne. cbn [bind].
    unfold py_floordiv at 1. destruct (gap =? 0) eqn:E0; [lia|]. cbn [bind].
    assert (Hb : forall x, In x (cfgs i) -> zhd (cfgs i) <= x <= zlast (cfgs i)) by (intros x Hx; apply incr_bounds; assumption).
    assert (Hlast : zhd (cfgs i) <= zlast (cfgs i)).
    { destruct (cfgs i) as [|x r] eqn:E; [congruence|]. apply (Hb x). left; reflexivity. }
    set (n := (zlast (cfgs i) - zhd (cfgs i) + gap) / gap).
    assert (Hn : 0 < n) by (unfold n; apply Z.div_str_pos; lia).
    unfold py_zeros. destruct (n <? 0) eqn:En; [lia|]. cbn [bind].
    rewrite (py_for_scatter (fun c => (c - zhd (cfgs i)) / gap) _ (cfgs i) deltas).
    - cbn [bind]. rewrite scatter_gap_h. reflexivity.
    - exact Hl.
    - intros k ret Hk Hlen. cbv beta zeta.
      rewrite (py_index_nat (cfgs i) k 0) by exact Hk. cbn [bind]. rewrite ?py_index_0 by exact Hne. cbn [bind].
      unfold py_floordiv. rewrite E0. cbn [bind]. rewrite (py_index_nat deltas k 0%Q) by lia. cbn [bind].
      pose proof (Hb _ (nth_In (cfgs i) 0 Hk)) as Hx.
      rewrite py_store_ok.
      + reflexivity.
      + unfold zlen. rewrite Hlen, zeros_length.
        assert ((nth k (cfgs i) 0 - zhd (cfgs i)) / gap < n).
        { unfold n. apply Z.div_lt_upper_bound; [lia|].
          pose proof (Z.mul_div_le (zlast (cfgs i) - zhd (cfgs i) + gap) gap Hg).
          pose proof (Z.mod_pos_bound (zlast (cfgs i) - zhd (cfgs i) + gap) gap Hg).
          pose proof (Z.div_mod (zlast (cfgs i) - zhd (cfgs i) + gap) gap ltac:(lia)). lia. }
        assert (0 <= (nth k (cfgs i) 0 - zhd (cfgs i)) / gap) by (apply Z.div_pos; lia).
        lia. }
  destruct (isr i) eqn:Er.
  - rewrite rep_gap_range_step by exact Er. cbn [andb]. destruct (range_step i =? gap); [reflexivity|exact K].
  - cbn [andb]. exact K.
Qed.

Print Assumptions expand_deltas_tie.
