(* Property C18 -- truncated measurement files never produce wrong numbers.  Theorems only. *)
From Coq Require Import ZArith List Bool String Lia.
From PV Require Import IO.Bytes.
From PVG Require Import ReadsGen.
Import ListNotations.

(* regenerated from openQCD.py: in every record loop the LAST read of a record is checked (unpacked with an explicit count or
   length-tested).  Reads are sequential, so every earlier read of an accepted record was complete: theta = R below. *)
Theorem last_read_of_every_record_is_checked : forallb (fun p => snd p) record_loops = true.
Proof. vm_compute. reflexivity. Qed.

(* a reader that checks the whole record (theta = R), given a file cut at ANY byte, raises or returns exactly the complete
   records that precede the cut -- for every record size, every number of records, every offset *)
Theorem checked_reader_returns_only_complete_records :
  forall R recs k fuel, (4 <= R)%nat -> well_sized R recs -> (List.length recs < fuel)%nat ->
  parse R R fuel (firstn k (serialize recs)) = Raises
  \/ exists n, parse R R fuel (firstn k (serialize recs)) = Records (firstn n recs) /\ (n * R <= k)%nat /\ (n <= List.length recs)%nat.
Proof. exact fully_checked_reader_is_truncation_safe. Qed.

(* complete files are read back exactly *)
Theorem complete_file_is_read_back :
  forall R theta, (theta <= R)%nat -> (4 <= theta)%nat -> forall recs fuel, well_sized R recs -> (List.length recs < fuel)%nat ->
  parse R theta fuel (serialize recs) = Records recs.
Proof. exact parse_serialize. Qed.

(* the general statement: with an unchecked tail (theta < R) exactly one more record can be accepted, of which at least theta
   bytes are present -- and the failure window is real (witness) *)
Theorem partially_checked_reader_failure_window :
  forall R theta, (theta <= R)%nat -> (4 <= theta)%nat -> forall recs k fuel, well_sized R recs -> (List.length recs < fuel)%nat ->
  parse R theta fuel (firstn k (serialize recs)) = Raises
  \/ (exists n, parse R theta fuel (firstn k (serialize recs)) = Records (firstn n recs) /\ (n * R <= k)%nat /\ (n <= List.length recs)%nat)
  \/ (exists n last, parse R theta fuel (firstn k (serialize recs)) = Records (firstn n recs ++ [last])
                     /\ (n * R + theta <= k)%nat /\ (k < (n + 1) * R)%nat /\ (n < List.length recs)%nat
                     /\ last = firstn (k - n * R) (nth n recs [])).
Proof. exact truncation. Qed.
Theorem unchecked_tail_is_unsafe :
  exists R theta recs k, (theta < R)%nat /\ well_sized R recs /\
  parse R theta 5 (firstn k (serialize recs)) = Records [firstn k (nth 0 recs [])] /\ (k < R)%nat.
Proof. exact unchecked_tail_accepts_partial_record. Qed.

Theorem int32_roundtrip : forall z, (-2147483648 <= z < 2147483648)%Z -> i32_dec (i32_bytes z) = Some z.
Proof. exact i32_roundtrip. Qed.

Print Assumptions checked_reader_returns_only_complete_records.
Print Assumptions partially_checked_reader_failure_window.
Print Assumptions int32_roundtrip.
