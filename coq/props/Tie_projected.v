(* TIE (translator): the branch of Corr.projected for one vector pair per timeslice, regenerated from pyerrors/correlators.py on this run
   over abstract timeslice matrices E, vectors W, a normalisation vnorm (v / sqrt(v @ v)) and the product sandwich l G r (l.T @ G @ r):
   the new content at timeslice t is  sandwich (n l_t) G_t (n r_t)  with n = vnorm when normalize is set and the identity otherwise --
   the LEFT vector normalised from the left list and the RIGHT one from the right list -- and it is undefined exactly when G_t, l_t or r_t is.
   With E = matrices of numbers it is the model Corr/Ops.v:projected_l. *)
From Coq Require Import ZArith QArith List Bool Lia.
From PV Require Import Base.QAux Obs.Model Py.Prim Py.Lemmas Corr.Ops.
From PVG Require Import PyGen.
Import ListNotations.
Open Scope Z_scope.

Section Proj.
Variables E W : Type.
Variable vnorm : W -> W.
Variable sandwich : W -> E -> W -> E.

Definition proj_at (n : W -> W) (x : option E * (option W * option W)) : option E :=
  match fst x, fst (snd x), snd (snd x) with
  | Some m, Some l, Some r => Some (sandwich (n l) m (n r))
  | _, _, _ => None
  end.
Definition proj_model (normalize : bool) (c : list (option E)) (vl vr : list (option W)) : list (option E) :=
  map (proj_at (if normalize then vnorm else fun v => v)) (combine c (combine vl vr)).

Lemma nth_map_dflt {A B} (f : A -> B) l : forall n d d', (n < List.length l)%nat -> nth n (map f l) d = f (nth n l d').
Proof. induction l as [|x l IH]; intros [|n] d d' H; simpl in *; try lia; [reflexivity|apply IH; lia]. Qed.

Lemma by_position (c : list (option E)) (vl vr : list (option W)) (F : option E * (option W * option W) -> option E) :
  List.length vl = List.length c -> List.length vr = List.length c ->
  map (fun k => F (nth k c None, (nth k vl None, nth k vr None))) (seq 0 (List.length c)) = map F (combine c (combine vl vr)).
Proof.
  intros Hl Hr.
  assert (Hc : List.length c = List.length (combine vl vr)) by (rewrite combine_length, Hl, Hr; symmetry; apply Nat.min_id).
  assert (Hn : List.length (combine c (combine vl vr)) = List.length c) by (rewrite combine_length, <- Hc; apply Nat.min_id).
  rewrite <- (map_nth_seq F (combine c (combine vl vr)) (None, (None, None))). rewrite Hn.
  apply map_ext_in. intros k Hk. apply in_seq in Hk.
  rewrite (combine_nth c (combine vl vr) k None (None, None) Hc).
  rewrite (combine_nth vl vr k None None) by congruence. reflexivity.
Qed.

Lemma plain_branch (c : list (option E)) (vl vr : list (option W)) :
  List.length vl = List.length c -> List.length vr = List.length c ->
  corr_projected_lists E W vnorm sandwich c vl vr false = Ok (proj_model false c vl vr).
Proof.
  intros Hl Hr. unfold corr_projected_lists, proj_model. cbv zeta.
  unfold zlen. rewrite py_upto_seq.
  rewrite (py_map_total _ (fun z => proj_at (fun v => v) (nth (Z.to_nat z) c None, (nth (Z.to_nat z) vl None, nth (Z.to_nat z) vr None)))).
  - cbn [bind]. f_equal. rewrite map_map. rewrite <- (by_position c vl vr _ Hl Hr). apply map_ext. intro k. rewrite Nat2Z.id. reflexivity.
  - intros z Hz. apply in_map_iff in Hz. destruct Hz as [k [<- Hk]]. apply in_seq in Hk. rewrite Nat2Z.id.
    rewrite !(py_index_nat c k None) by lia. rewrite !(py_index_nat vl k None) by lia. rewrite !(py_index_nat vr k None) by lia.
    cbn [bind]. unfold proj_at. cbn [fst snd].
    destruct (nth k c None) as [m|]; cbn [is_none bind]; [|reflexivity].
    destruct (nth k vl None) as [l|]; cbn [is_none bind]; [|reflexivity].
    destruct (nth k vr None) as [r|]; cbn [is_none bind py_eun]; reflexivity.
Qed.

Lemma normalise_list (v : list (option W)) :
  py_map (fun v_v => t2 <- (if is_none v_v then Ok None else (t1 <- py_eun vnorm v_v ;; Ok (Some t1))) ;; Ok t2) v = Ok (map (option_map vnorm) v).
Proof. apply py_map_total. intros [w|] _; reflexivity. Qed.

Lemma model_of_normalised c : forall vl vr,
  proj_model false c (map (option_map vnorm) vl) (map (option_map vnorm) vr) = proj_model true c vl vr.
Proof.
  unfold proj_model. induction c as [|x c IH]; intros [|l vl] [|r vr]; try reflexivity.
  cbn [map combine]. f_equal; [|apply IH]. destruct x, l, r; reflexivity.
Qed.

Theorem projected_lists_tie (normalize : bool) (c : list (option E)) (vl vr : list (option W)) :
  List.length vl = List.length c -> List.length vr = List.length c ->
  corr_projected_lists E W vnorm sandwich c vl vr normalize = Ok (proj_model normalize c vl vr).
Proof.
  intros Hl Hr. destruct normalize; [|apply plain_branch; assumption].
  pose proof (plain_branch c (map (option_map vnorm) vl) (map (option_map vnorm) vr)) as P.
  rewrite !map_length in P. specialize (P Hl Hr). rewrite model_of_normalised in P.
  unfold corr_projected_lists in *. cbv zeta in *. rewrite !normalise_list. cbn [bind]. exact P.
Qed.

(* what the tie says timeslice by timeslice *)
Corollary projected_lists_timeslice (normalize : bool) c vl vr t :
  List.length vl = List.length c -> List.length vr = List.length c -> (t < List.length c)%nat ->
  nth t (proj_model normalize c vl vr) None
  = match nth t c None, nth t vl None, nth t vr None with
    | Some m, Some l, Some r => Some (sandwich ((if normalize then vnorm else fun v => v) l) m ((if normalize then vnorm else fun v => v) r))
    | _, _, _ => None
    end.
Proof.
  intros Hl Hr Ht. unfold proj_model.
  assert (Hc : List.length c = List.length (combine vl vr)) by (rewrite combine_length, Hl, Hr; symmetry; apply Nat.min_id).
  rewrite (nth_map_dflt _ _ t None (None, (None, None))) by (rewrite combine_length, <- Hc, Nat.min_id; exact Ht).
  rewrite (combine_nth c (combine vl vr) t None (None, None) Hc).
  rewrite (combine_nth vl vr t None None) by congruence. reflexivity.
Qed.

(* the single-vector form: every defined timeslice is projected with the same pair, undefined ones stay undefined *)
Theorem projected_single_tie (c : list (option E)) (l r : W) :
  corr_projected_single E W sandwich c l r = Ok (map (option_map (fun m => sandwich l m r)) c).
Proof.
  unfold corr_projected_single.
  rewrite (py_map_total _ (option_map (fun m => sandwich l m r))); [reflexivity|].
  intros [m|] _; reflexivity.
Qed.
End Proj.

(* with numbers: the model of Corr/Ops.v *)
Theorem projected_lists_is_model (c : corr) (vls vrs : list (option (list Q))) :
  List.length vls = List.length c -> List.length vrs = List.length c ->
  corr_projected_lists mat (list Q) (fun v => v) (fun l m r => [[dotv l (map (fun row => dotv row r) m)]]) c vls vrs false
  = Ok (projected_l vls vrs c).
Proof. intros Hl Hr. rewrite projected_lists_tie by assumption. reflexivity. Qed.

Theorem projected_single_is_model (c : corr) (vl vr : list Q) :
  corr_projected_single mat (list Q) (fun l m r => [[dotv l (map (fun row => dotv row r) m)]]) c vl vr = Ok (projected vl vr c).
Proof. rewrite projected_single_tie. reflexivity. Qed.

Print Assumptions projected_lists_tie.
Print Assumptions projected_single_is_model.
Print Assumptions projected_lists_is_model.
