(* Property C13 -- jackknife and bootstrap export/import are exact resampling transforms.
   Property theorems only; proofs in PV.Obs.Resample. *)
From Coq Require Import ZArith QArith List Bool Lia.
From PV Require Import Base.QAux Obs.Resample.
Import ListNotations.
Open Scope Q_scope.

(* Entry 0 of the export is the central value, there are n further entries ... *)
Theorem jackknife_entry0_is_value : forall v l, hd 0 (export_jack v l) = v /\ List.length (export_jack v l) = S (List.length l).
Proof. intros v l. split; [exact (export_jack_head v l) | exact (export_jack_length v l)]. Qed.

(* ... and entry i+1 is exactly the mean of the samples with sample i left out (any n >= 2). *)
Theorem jackknife_samples_are_leave_one_out_means :
  forall v l i, (2 <= List.length l)%nat -> (i < List.length l)%nat -> v == Qmean l ->
  nth i (tl (export_jack v l)) 0 == loo_mean l i.
Proof. exact export_jack_loo. Qed.

(* Importing the exported samples restores every sample (hence every fluctuation and the mean) and the value. *)
Theorem import_export_jackknife_restores_samples :
  forall v l i, (2 <= List.length l)%nat -> (i < List.length l)%nat -> v == Qmean l ->
  nth i (import_samples (export_jack v l)) 0 == nth i l 0.
Proof. exact import_export_samples. Qed.
Theorem import_export_jackknife_restores_value : forall v l, j_value (import_jack (export_jack v l)) = v.
Proof. exact import_export_value. Qed.

(* The code's matrix product jacks[1:] @ (ones - (L-1) 1) is the closed form used above. *)
Theorem import_matrix_product_closed_form :
  forall jacks i, (i < List.length (tl jacks))%nat ->
  nth i (import_samples_mat jacks) 0 == nth i (import_samples jacks) 0.
Proof. exact import_samples_mat_closed. Qed.

(* The jackknife variance of the exported samples equals the squared naive (S = 0) error. *)
Theorem jackknife_variance_is_naive_error_squared :
  forall l, (2 <= List.length l)%nat -> jack_var (tl (export_jack (Qmean l) l)) == naive_err_sq l.
Proof. exact jack_var_is_naive. Qed.

(* A bootstrap sample is exactly the mean over the resampled configurations: any table, any number of samples. *)
Theorem bootstrap_sample_is_resample_mean :
  forall v data table i, (i < List.length table)%nat ->
  Forall (Forall (fun k => (k < List.length data)%nat)) table ->
  nth i (tl (export_boot v data table)) 0 == resample_mean (nth i table []) data.
Proof. exact export_boot_spec. Qed.

(* Non-vacuity: a concrete chain of 5 samples with an irregular table. *)
Example c13_nonvacuous :
  let l := [3; -1; 4; 1#2; 5] in
  (2 <= List.length l)%nat /\ Qmean l == 23#10 /\
  map Qred (export_jack (Qmean l) l) = map Qred [23#10; 17#8; 25#8; 15#8; 11#4; 13#8] /\
  map Qred (import_samples (export_jack (Qmean l) l)) = map Qred l /\
  Qred (boot_row [0;0;4;2;2]%nat l) = Qred (19#5).
Proof. cbv zeta. split; [simpl; lia|]. split; [vm_compute; reflexivity|]. repeat split; vm_compute; reflexivity. Qed.

Print Assumptions jackknife_samples_are_leave_one_out_means.
Print Assumptions import_export_jackknife_restores_samples.
Print Assumptions import_matrix_product_closed_form.
Print Assumptions jackknife_variance_is_naive_error_squared.
Print Assumptions bootstrap_sample_is_resample_mean.
