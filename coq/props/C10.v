(* Property C10 -- matrix operations on observable matrices satisfy their defining identities.  Theorems only. *)
From Coq Require Import ZArith QArith Reals List Bool.
From Interval Require Import Interval.Interval Real.Xreal Real.Xreal_derive.
From PV Require Import Base.QAux Base.RI Base.Expr Base.ExprFold Base.Dyadic Base.DyadicR Lin.Mat Fit.Implicit Fit.ImplicitSound Fit.ImplicitTop Fit.TableSound Fit.VerdictSound.
Import ListNotations.

(* the defining identities are polynomial systems; their symbolic derivatives (the differentiated identities decided on every
   configuration) are the real derivatives, and the interval evaluation encloses the real values *)
Theorem symbolic_derivative_is_the_real_derivative :
  forall e v env, Xderive_pt (fun t => evalX (updX env v t) e) (Xreal (env v)) (evalX (renv env) (D e v)).
Proof. exact D_correct. Qed.

Theorem interval_evaluation_encloses_the_real_value :
  forall ienv xenv e, (forall n, contains (I.convert (ienv n)) (xenv n)) -> contains (I.convert (evalI ienv e)) (evalX xenv e).
Proof. exact evalI_correct. Qed.

(* first-order structure of every entry of a matrix product, any length: the explicit sum of element products obeys the product rule *)
Theorem matrix_product_entry_product_rule :
  forall a da b db : vec, List.length a = List.length da -> List.length b = List.length db ->
  (dotv (vaddv a da) (vaddv b db) == dotv a b + (dotv da b + dotv a db) + dotv da db)%Q.
Proof. exact dotv_product_rule. Qed.

(* (a^T M) p = a . (M p): associativity of the explicit sums, any sizes (products of several factors do not depend on bracketing) *)
Theorem matrix_product_associates :
  forall (M : mat) (a : vec) (n : nat) (p : vec), shape_ok M n ->
  (dotv (map (fun k => dotv a (mcol M k)) (seq 0 n)) p == dotv a (mvec M p))%Q.
Proof. intros M a n p H. exact (gram_row M a n p H). Qed.

(* the folded derivative used by the verdicts (0 * e folded to 0) is the same real derivative wherever the interval certificate
   guardsI holds, its interval evaluation encloses it, and the certificate is inherited (second derivatives: apply twice) *)
Theorem certified_folded_derivative :
  forall (l : list Q) e v, guardsI (qenvI l) e = true ->
  Xderive_pt (fun t => evalX (updX (qenvR l) v t) e) (Xreal (qenvR l v)) (evalX (renv (qenvR l)) (Dfold e v))
  /\ contains (I.convert (evalI (qenvI l) (Dfold e v))) (evalX (renv (qenvR l)) (Dfold e v))
  /\ guardsR (qenvR l) (Dfold e v).
Proof. exact certified_derivative. Qed.

(* interval bounds read as dyadic numbers enclose the real value *)
Theorem interval_bounds_as_dyadics :
  forall i a b r, i2d i = Some (a, b) -> contains (I.convert i) (Xreal r) -> (dR a <= r <= dR b)%R.
Proof. exact i2d_correct. Qed.

(* the decision taken on every differentiated equation: real coefficients inside their enclosures, real arguments inside theirs,
   a positive decision  ==>  |sum_j c_j x_j| <= rt (sum_j |c_j x_j| + scale)  *)
Theorem differentiated_equation_decision_is_sound :
  forall cs xs crs xrs rt scale res,
  Forall2 encl cs crs -> Forall2 enclx xs xrs -> (0 <= dR rt)%R ->
  dform cs xs dzero dzero dzero = Some res ->
  dleb (fst res) (dmul rt (dadd (snd res) scale)) = true ->
  (Rabs (rsum crs xrs) <= dR rt * (rasum crs xrs + dR scale))%R.
Proof. exact form_decision_sound. Qed.

(* Top level, for systems whose unknowns all have result observables: a positive verdict implicit_ok implies, for every equation, every
   row of the fluctuation table and all real arguments inside that row's enclosures, the differentiated equation within tolerance --
   with the REAL partial derivatives of the equation at the solution as coefficients *)
Theorem positive_verdict_implies_the_differentiated_equations :
  forall (c : icase) (i : nat) (xs : list (dy * dy)) (xrs : list R),
  ic_nv c = ic_nu c -> implicit_ok c = true -> (0 <= dR (fst (dexact (ic_rt c))))%R ->
  (i < length (ic_eqs c))%nat ->
  In xs (dfluct_table (ic_uobs c) (ic_dobs c)) -> Forall2 enclx xs xrs ->
  let l := (ic_uvals c ++ ic_dvals c)%list in
  let eq := nth i (ic_eqs c) (EC 0%Q) in
  let cols := seq 0 (ic_nu c + length (ic_dvals c)) in
  let ds := map (dval l eq) cols in
  (forall j, In j cols -> Xderive_pt (fun t => evalX (updX (qenvR l) j t) eq) (Xreal (qenvR l j)) (Xreal (dval l eq j)))
  /\ exists scale, (Rabs (rsum ds xrs) <= dR (fst (dexact (ic_rt c))) * (rasum ds xrs + dR scale))%R.
Proof. exact implicit_ok_sound. Qed.

(* the rows of that table are, for every replica n and configuration c of the operands' union, the enclosures of the actual fluctuations
   of the result observables and of the C01-weighted fluctuations of the data observables *)
Theorem fluctuation_table_rows_enclose_the_weighted_fluctuations :
  forall (u_obs d_obs : list Obs.Model.obs) (n : String.string) (c : Z),
  Forall2 enclx (table_row u_obs d_obs n c)
          (map (fun o => Q2R (Obs.Model.fluct0 o n c)) u_obs ++ map (fun o => Q2R (Obs.Derived.spec_weight d_obs o n * Obs.Model.fluct0 o n c)) d_obs).
Proof. exact fluct_table_row_encloses. Qed.

Theorem fluctuation_table_has_one_row_per_replica_and_configuration :
  forall (u_obs d_obs : list Obs.Model.obs) xs,
  In xs (dfluct_table u_obs d_obs) <->
  exists n c, In n (Obs.Derived.sample_names (u_obs ++ d_obs)) /\ In c (Obs.Derived.union_cfgs (u_obs ++ d_obs) n) /\ xs = table_row u_obs d_obs n c.
Proof. exact fluct_table_rows. Qed.

(* the same statements for the covariance-gradient table: one row per covariance input and component, enclosing the gradients exactly *)
Theorem positive_verdict_implies_the_differentiated_equations_for_covariance_gradients :
  forall (c : icase) (i : nat) (xs : list (dy * dy)) (xrs : list R),
  ic_nv c = ic_nu c -> implicit_ok c = true -> (0 <= dR (fst (dexact (ic_rt c))))%R ->
  (i < length (ic_eqs c))%nat ->
  In xs (dcov_table (ic_uobs c) (ic_dobs c)) -> Forall2 enclx xs xrs ->
  let l := (ic_uvals c ++ ic_dvals c)%list in
  let eq := nth i (ic_eqs c) (EC 0%Q) in
  let cols := seq 0 (ic_nu c + length (ic_dvals c)) in
  let ds := map (dval l eq) cols in
  (forall j, In j cols -> Xderive_pt (fun t => evalX (updX (qenvR l) j t) eq) (Xreal (qenvR l j)) (Xreal (dval l eq j)))
  /\ exists scale, (Rabs (rsum ds xrs) <= dR (fst (dexact (ic_rt c))) * (rasum ds xrs + dR scale))%R.
Proof. exact implicit_ok_sound_cov. Qed.

Theorem covariance_table_rows_enclose_the_gradients :
  forall (u_obs d_obs : list Obs.Model.obs) (n : String.string) (k : nat),
  Forall2 enclx (map (fun o => dexact (covgrad_of o n k)) u_obs ++ map (fun o => dexact (covgrad_of o n k)) d_obs)
          (map (fun o => Q2R (covgrad_of o n k)) u_obs ++ map (fun o => Q2R (covgrad_of o n k)) d_obs).
Proof. exact cov_table_row_encloses. Qed.

(* Non-vacuity: A * inv(A) = 1 for A = [[2, 1], [1, 1]], inv = [[1, -1], [-1, 2]]: the four identities hold at the central values *)
Example c10_example :
  let eqs := [ESub (EAdd (EMul (EV 4) (EV 0)) (EMul (EV 5) (EV 2))) (EC 1%Q); EAdd (EMul (EV 4) (EV 1)) (EMul (EV 5) (EV 3));
              EAdd (EMul (EV 6) (EV 0)) (EMul (EV 7) (EV 2)); ESub (EAdd (EMul (EV 6) (EV 1)) (EMul (EV 7) (EV 3))) (EC 1%Q)] in
  rcase_identities (mkRCase (mkICase eqs 4 4 [1; -1; -1; 2]%Q [2; 1; 1; 1]%Q [] [] (1 # 1000)%Q) (1 # 1000)%Q None) = true
  /\ rcase_identities (mkRCase (mkICase eqs 4 4 [1; -1; -1; 3]%Q [2; 1; 1; 1]%Q [] [] (1 # 1000)%Q) (1 # 1000)%Q None) = false.
Proof. split; vm_compute; reflexivity. Qed.

Print Assumptions symbolic_derivative_is_the_real_derivative.
Print Assumptions interval_evaluation_encloses_the_real_value.
Print Assumptions matrix_product_entry_product_rule.
Print Assumptions matrix_product_associates.
Print Assumptions certified_folded_derivative.
Print Assumptions interval_bounds_as_dyadics.
Print Assumptions differentiated_equation_decision_is_sound.
Print Assumptions positive_verdict_implies_the_differentiated_equations.
Print Assumptions fluctuation_table_rows_enclose_the_weighted_fluctuations.

(* the identity verdict is sound as a statement about real numbers (Fit/VerdictSound.v): the residual of a defining identity at the
   returned entries is below tol * sum_j |d eq / d u_j| (1 + |u_j|) with the real partial derivatives *)
Theorem identity_verdict_is_sound :
  forall (c : icase) tol eq, guardsI (ic_env c) eq = true -> eq_holds c tol eq = true ->
  exists r, evalX (renv (qenvR (ic_uvals c ++ ic_dvals c))) eq = Xreal r
            /\ (Rabs r <= Q2R tol * real_scale (ic_uvals c ++ ic_dvals c) (ic_uvals c) eq (seq 0 (ic_nu c)))%R.
Proof. exact eq_holds_sound. Qed.
Print Assumptions identity_verdict_is_sound.
