(* TIE (translator): the nested function _compute_drho of Obs.gamma_method, regenerated from pyerrors/obs.py on this run (its three
   slices, the reversed slice with the conditional stop, the concatenation), computes the radicand of the hand-written model
   Obs/Gamma.v:compute_drho_sq -- and never hits a shape mismatch: the three terms always have w_max - i - 1 entries. *)
From Coq Require Import ZArith QArith List Bool Lia ZifyBool.
From PV Require Import Base.QAux Obs.Model Obs.DerivedThm Obs.Gamma Obs.GammaThm Py.Prim Py.Lemmas.
From PVG Require Import PyGen.
Import ListNotations.
Open Scope Z_scope.

Lemma clip_ok n i : 0 <= i <= n -> clip_index n i = i.
Proof. intro H. unfold clip_index. destruct (i <? 0) eqn:E; lia. Qed.

Lemma py_slice_is_slice_fwd l a b : py_slice l a b = slice_fwd l a b.
Proof. reflexivity. Qed.

Lemma py_slice_length (l : list Q) a b : 0 <= a <= b -> b <= zlen l -> List.length (py_slice l a b) = Z.to_nat (b - a).
Proof.
  intros H1 H2. unfold py_slice. rewrite (clip_ok _ a) by lia. rewrite (clip_ok _ b) by lia.
  rewrite firstn_length, skipn_length. unfold zlen in *. lia.
Qed.

Lemma py_slice_rev_length (l : list Q) lo stop : List.length (py_slice_rev l lo stop) =
  Z.to_nat ((if lo <? 0 then Z.max (-1) (zlen l + lo) else Z.min (zlen l - 1) lo)
            - match stop with None => -1 | Some s => if s <? 0 then Z.max (-1) (zlen l + s) else Z.min (zlen l - 1) s end).
Proof. unfold py_slice_rev. rewrite map_length, seq_length. reflexivity. Qed.

Lemma py_slice_rev_is_slice_rev (l : list Q) lo stop : 0 <= lo -> py_slice_rev l lo stop = slice_rev l lo stop.
Proof.
  intro H. unfold py_slice_rev, slice_rev. fold (zlen l).
  destruct (lo <? 0) eqn:E; [lia|].
  apply map_ext_in. intros k Hk. apply in_seq in Hk. unfold qnthz.
  set (b := match stop with None => -1 | Some s => if s <? 0 then Z.max (-1) (zlen l + s) else Z.min (zlen l - 1) s end) in *.
  assert (-1 <= b) by (unfold b; pose proof (zlen_nonneg l); destruct stop as [s|]; [destruct (s <? 0) eqn:?; lia|lia]).
  destruct (Z.min (zlen l - 1) lo - Z.of_nat k <? 0) eqn:E2; [lia|reflexivity].
Qed.

Lemma arr_zip_length f a : forall b, List.length a = List.length b -> List.length (arr_zip f a b) = List.length a.
Proof. induction a as [|x a IH]; intros [|y b] H; simpl in *; try lia. rewrite IH; lia. Qed.

Lemma py_arr_zip_eq f a b : List.length a = List.length b -> py_arr_zip f a b = Ok (arr_zip f a b).
Proof. intro H. unfold py_arr_zip. rewrite H, Nat.eqb_refl. reflexivity. Qed.

Lemma Qsum_sq_vcomb3 (c : Q) t1 : forall t2 t3, List.length t1 = List.length t2 -> List.length t1 = List.length t3 ->
  Qsum (arr_sq (arr_zip Qminus (arr_zip Qplus t1 t2) (arr_mul t3 (inject_Z 2 * c)%Q)))
  == Qsum (vcomb3 t1 t2 t3 (fun x y z => let t := (x + y - 2 * c * z)%Q in Qred (t * t))).
Proof.
  induction t1 as [|x t1 IH]; intros [|y t2] [|z t3] H2 H3; simpl in *; try lia; try reflexivity.
  unfold arr_sq, arr_mul in *. cbn [map arr_zip vcomb3].
  etransitivity; [apply Qsum_cons|]. etransitivity; [|symmetry; apply Qsum_cons].
  apply Qplus_comp.
  - cbv beta zeta. rewrite Qred_correct. change (inject_Z 2) with 2%Q. ring.
  - apply IH; lia.
Qed.

Theorem compute_drho_tie rho w N i :
  zlen rho = w -> 1 <= i < w ->
  exists r, compute_drho_radicand rho w N i = Ok r /\ r == compute_drho_sq rho w (inject_Z N) i.
Proof.
  intros Hw Hi. unfold compute_drho_radicand, compute_drho_sq. cbv zeta.
  set (stop := if i - (w - 1) / 2 <=? 0 then None else Some (2 * i - 2 * w / 2)).
  set (t1 := py_slice rho (i + 1) w).
  set (t2r := py_slice_rev rho (i - 1) stop).
  set (t2f := py_slice rho 1 (Z.max 1 (w - 2 * i))).
  set (t3 := py_slice rho 1 (w - i)).
  assert (L1 : List.length t1 = Z.to_nat (w - i - 1)).
  { unfold t1. rewrite py_slice_length by lia. lia. }
  assert (L3 : List.length t3 = Z.to_nat (w - i - 1)).
  { unfold t3. rewrite py_slice_length by lia. lia. }
  assert (L2 : List.length (t2r ++ t2f) = Z.to_nat (w - i - 1)).
  { rewrite app_length. unfold t2r, t2f. rewrite py_slice_rev_length, Hw.
    destruct (i - 1 <? 0) eqn:E; [lia|]. unfold stop.
    destruct (i - (w - 1) / 2 <=? 0) eqn:Ec.
    - rewrite py_slice_length by (Z.div_mod_to_equations; lia). Z.div_mod_to_equations. lia.
    - assert (Hs : 0 <= 2 * i - 2 * w / 2 <= w - 2) by (Z.div_mod_to_equations; lia).
      destruct (2 * i - 2 * w / 2 <? 0) eqn:E2; [lia|].
      rewrite py_slice_length by (Z.div_mod_to_equations; lia). Z.div_mod_to_equations. lia. }
  unfold py_arr_add2. rewrite py_arr_zip_eq by lia. cbn [bind].
  rewrite (py_index_nth rho i 0%Q) by lia. cbn [bind].
  unfold py_arr_sub2. rewrite py_arr_zip_eq.
  2:{ rewrite arr_zip_length by lia. unfold arr_mul. rewrite map_length. lia. }
  cbn [bind]. eexists. split; [reflexivity|].
  rewrite Qred_correct. apply Qdiv_comp; [|reflexivity].
  rewrite Qsum_sq_vcomb3 by lia.
  unfold t1, t3, t2r, t2f. rewrite !py_slice_is_slice_fwd. rewrite py_slice_rev_is_slice_rev by lia.
  unfold qnthz. destruct (i <? 0) eqn:E; [lia|]. reflexivity.
Qed.

Print Assumptions compute_drho_tie.
