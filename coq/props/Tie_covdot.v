(* TIE (translator): the nested function calc_gamma of _covariance_element, regenerated from pyerrors/obs.py on this run, is the sum of
   the products of the two observables' fluctuations on the rows that _reduce_deltas selects for the common configurations
   (Obs/Cov.v:dot_common), whenever both selections succeed. *)
From Coq Require Import ZArith QArith List Bool Lia Sorted.
From PV Require Import Base.QAux Obs.Model Obs.DerivedThm Obs.Pairing Obs.Cov Py.Prim Py.Lemmas.
From PVG Require Import PyGen Tie_reduce.
Import ListNotations.
Open Scope Z_scope.

Lemma inter_positions_length_le a : forall b pos, (List.length (inter_positions a b pos) <= List.length b)%nat.
Proof.
  induction a as [|u a IHa]; intros b pos.
  - destruct b; simpl; lia.
  - induction b as [|v b IHb]; [simpl; lia|].
    rewrite inter_positions_unfold. destruct (u <? v).
    + specialize (IHa (v :: b) (S pos)). exact IHa.
    + destruct (v <? u); [simpl in *; lia|]. simpl. specialize (IHa b (S pos)). lia.
Qed.

Lemma reduce_deltas_length deltas old new r :
  reduce_deltas deltas old new = Some r -> List.length r = List.length (cfgs new).
Proof.
  unfold reduce_deltas. destruct (Nat.eqb (List.length deltas) (List.length (cfgs old))) eqn:El; cbn [negb]; [|discriminate].
  apply Nat.eqb_eq in El.
  destruct (isr old && isr new && zlist_eqb (cfgs old) (cfgs new)) eqn:E1.
  - intro H. injection H as <-. apply andb_true_iff in E1. destruct E1 as [_ E]. apply zlist_eqb_eq in E. congruence.
  - destruct (idl_eqb old new) eqn:E2.
    + intro H. injection H as <-. unfold idl_eqb in E2. apply andb_true_iff in E2. destruct E2 as [_ E]. apply zlist_eqb_eq in E. congruence.
    + destruct (Nat.ltb_spec (List.length (inter_positions (cfgs old) (cfgs new) 0)) (List.length (cfgs new))) as [E|E]; [discriminate|].
      intro H. injection H as <-. rewrite map_length. pose proof (inter_positions_length_le (cfgs old) (cfgs new) 0). lia.
Qed.

Lemma Qsum_zip_mult a : forall b, List.length a = List.length b ->
  Qsum (arr_zip Qmult a b) == Qsum (map (fun p => Qred (fst p * snd p)) (combine a b)).
Proof.
  induction a as [|x a IH]; intros [|y b] H; simpl in H; try lia; [reflexivity|].
  cbn [arr_zip combine map].
  etransitivity; [apply Qsum_cons|]. etransitivity; [|symmetry; apply Qsum_cons].
  apply Qplus_comp; [cbn [fst snd]; rewrite Qred_correct; reflexivity|apply IH; lia].
Qed.

Theorem cov_calc_gamma_tie d1 d2 i1 i2 new r1 r2 :
  incr (cfgs i1) -> incr (cfgs i2) -> incr (cfgs new) ->
  reduce_deltas d1 i1 new = Some r1 -> reduce_deltas d2 i2 new = Some r2 ->
  exists v, covariance_calc_gamma d1 d2 i1 i2 new = Ok v
            /\ v == Qsum (map (fun p => Qred (fst p * snd p)) (combine r1 r2)).
Proof.
  intros H1 H2 Hn E1 E2. unfold covariance_calc_gamma.
  rewrite !reduce_deltas_tie by assumption. rewrite E1, E2. cbn [lift bind].
  pose proof (reduce_deltas_length _ _ _ _ E1). pose proof (reduce_deltas_length _ _ _ _ E2).
  unfold py_arr_mul2, py_arr_zip. replace (List.length r1 =? List.length r2)%nat with true by (symmetry; apply Nat.eqb_eq; lia).
  cbn [bind]. eexists. split; [reflexivity|]. apply Qsum_zip_mult. lia.
Qed.

(* an unsuccessful selection (a common configuration missing from one list) is an exception, never a silent number *)
Theorem cov_calc_gamma_rejects d1 d2 i1 i2 new :
  incr (cfgs i1) -> incr (cfgs i2) -> incr (cfgs new) ->
  reduce_deltas d1 i1 new = None -> covariance_calc_gamma d1 d2 i1 i2 new = Raise ValueError.
Proof.
  intros H1 H2 Hn E1. unfold covariance_calc_gamma. rewrite reduce_deltas_tie by assumption. rewrite E1. reflexivity.
Qed.

Print Assumptions cov_calc_gamma_tie.
