(* TIE (translator): the nested function _parse_kwarg of Obs.gamma_method, regenerated from pyerrors/obs.py on this run, stores for
   every ensemble exactly the effective parameter of Obs/GammaInv.v: the explicit argument if given, else the entry of the
   per-ensemble dictionary, else the global default -- and nothing else enters (C03: precedence, independence of history). *)
From Coq Require Import ZArith QArith List Bool String Lia.
From PV Require Import Base.QAux Obs.Model Obs.Gamma Obs.GammaInv Py.Prim Py.Lemmas.
From PVG Require Import PyGen.
Import ListNotations.
Open Scope Q_scope.

Lemma dict_find_effective dict glob e :
  (if is_some (dict_find dict e) then opt_get (dict_find dict e) else glob) = effective None dict glob e.
Proof.
  unfold dict_find, effective. destruct (find (fun p => String.eqb (fst p) e) dict) as [p|]; reflexivity.
Qed.

Theorem parse_kwarg_tie kw dict glob names out :
  (forall v, kw = Some v -> 0 <= v) ->
  _parse_kwarg kw true dict glob names out
  = Ok (fold_left (fun o e => dict_put o e (effective kw dict glob e)) names out).
Proof.
  intro Hnn. unfold _parse_kwarg. destruct kw as [v|]; cbn [is_some opt_get]; cbv zeta.
  - specialize (Hnn v eq_refl). destruct (Qltb v (inject_Z 0)) eqn:E.
    + apply Qltb_lt in E. change (inject_Z 0) with 0 in E. exfalso. apply (Qlt_not_le _ _ E). exact Hnn.
    + rewrite (py_for_total (fun o e => dict_put o e v)); [reflexivity|]. intros st x _. reflexivity.
  - rewrite (py_for_total (fun o e => dict_put o e (effective None dict glob e))); [reflexivity|].
    intros st x _. cbv beta zeta. rewrite <- dict_find_effective. destruct (is_some (dict_find dict x)); reflexivity.
Qed.

Theorem parse_kwarg_rejects_negative v ok dict glob names out :
  v < 0 -> exists e, _parse_kwarg (Some v) ok dict glob names out = Raise e.
Proof.
  intro H. unfold _parse_kwarg. cbn [is_some opt_get]. cbv zeta. destruct ok; [|eexists; reflexivity].
  destruct (Qltb v (inject_Z 0)) eqn:E; [eexists; reflexivity|].
  assert (Qltb v (inject_Z 0) = true) by (apply Qltb_lt; exact H). congruence.
Qed.

Theorem parse_kwarg_rejects_non_number v dict glob names out :
  _parse_kwarg (Some v) false dict glob names out = Raise TypeError.
Proof. reflexivity. Qed.

(* the stored dictionary is the same whatever it held before for these ensembles: no state survives from an earlier call *)
Theorem parse_kwarg_overwrites kw dict glob names out e :
  (forall v, kw = Some v -> 0 <= v) -> In e names ->
  exists r, _parse_kwarg kw true dict glob names out = Ok r /\ dict_find r e = Some (effective kw dict glob e).
Proof.
  intros Hnn Hin. rewrite parse_kwarg_tie by exact Hnn. eexists. split; [reflexivity|].
  revert out. induction names as [|x r IH]; intro out; [destruct Hin|]. cbn [fold_left].
  destruct (in_dec string_dec e r) as [Hr|Hr].
  - apply IH. exact Hr.
  - destruct Hin as [->|Hin]; [|contradiction].
    assert (G : forall l o, ~ In e l -> dict_find (fold_left (fun o e0 => dict_put o e0 (effective kw dict glob e0)) l o) e = dict_find o e).
    { induction l as [|y l IHl]; intros o Hn; [reflexivity|]. cbn [fold_left]. rewrite IHl by (intro; apply Hn; right; assumption).
      unfold dict_find, dict_put. cbn [find fst]. destruct (String.eqb y e) eqn:Ey.
      - apply String.eqb_eq in Ey. exfalso. apply Hn. left. exact Ey.
      - f_equal. clear IHl. induction o as [|p o IHo]; [reflexivity|]. cbn [filter find].
        destruct (String.eqb (fst p) y) eqn:E1; cbn [negb].
        + destruct (String.eqb (fst p) e) eqn:E2; [|exact IHo].
          apply String.eqb_eq in E1. apply String.eqb_eq in E2. rewrite E1 in E2. subst. rewrite String.eqb_refl in Ey. discriminate.
        + cbn [find]. destruct (String.eqb (fst p) e); [reflexivity|exact IHo]. }
    rewrite G by exact Hr. unfold dict_find, dict_put. cbn [find fst]. rewrite String.eqb_refl. reflexivity.
Qed.

Print Assumptions parse_kwarg_tie.
Print Assumptions parse_kwarg_overwrites.
