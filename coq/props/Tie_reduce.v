(* TIE (translator): _reduce_deltas as regenerated from pyerrors/obs.py on this run returns exactly what the hand-written model
   Obs/Pairing.v:reduce_deltas returns -- the same rows when it succeeds, ValueError exactly when the model rejects. *)
From Coq Require Import ZArith QArith List Bool Lia Sorted.
From PV Require Import Base.QAux Obs.Model Obs.DerivedThm Obs.Pairing Py.Prim Py.Lemmas.
From PVG Require Import PyGen.
Import ListNotations.
Open Scope Z_scope.

Lemma zindex_of_cons_ne x u a : x <> u -> zindex_of x (u :: a) = 1 + zindex_of x a.
Proof. intro H. simpl. destruct (x =? u) eqn:E; [apply Z.eqb_eq in E; congruence|reflexivity]. Qed.

Lemma inter_positions_unfold u a v b pos :
  inter_positions (u :: a) (v :: b) pos =
  if u <? v then inter_positions a (v :: b) (S pos)
  else if v <? u then inter_positions (u :: a) b pos
  else pos :: inter_positions a b (S pos).
Proof. reflexivity. Qed.
Lemma inter_positions_nil_r a pos : inter_positions a [] pos = [].
Proof. destruct a; reflexivity. Qed.

(* positions in [a] of the sorted common values = the merge-style scan of the model *)
Lemma index_positions a : forall b pos, incr a -> incr b ->
  map (fun x => Z.of_nat pos + zindex_of x a) (zinter a b) = map Z.of_nat (inter_positions a b pos).
Proof.
  induction a as [|u a IHa]; intros b pos Ha Hb.
  - destruct b; reflexivity.
  - induction b as [|v b IHb].
    + reflexivity.
    + pose proof (Py.Lemmas.incr_head_lt _ _ Ha) as La. rewrite Forall_forall in La.
      pose proof (Py.Lemmas.incr_tail _ _ Ha) as Ha'. pose proof (Py.Lemmas.incr_tail _ _ Hb) as Hb'.
      rewrite inter_positions_unfold. cbn [zinter]. destruct (u <? v) eqn:E1.
      * rewrite <- (IHa (v :: b) (S pos) Ha' Hb). apply map_ext_in. intros x Hx.
        apply (zinter_In a (v :: b) x Ha' Hb) in Hx. destruct Hx as [Hx _]. apply La in Hx.
        rewrite zindex_of_cons_ne by lia. lia.
      * destruct (v <? u) eqn:E2.
        -- change ((fix inner (b0 : list Z) : list Z := match b0 with
                     | [] => [] | y :: b' => if u <? y then zinter a b0 else if y <? u then inner b' else u :: zinter a b' end) b)
             with (zinter (u :: a) b).
           exact (IHb Hb').
        -- cbn [map]. f_equal.
           ++ simpl. rewrite Z.eqb_refl. lia.
           ++ rewrite <- (IHa b (S pos) Ha' Hb'). apply map_ext_in. intros x Hx.
              apply (zinter_In a b x Ha' Hb') in Hx. destruct Hx as [Hx _]. apply La in Hx.
              rewrite zindex_of_cons_ne by lia. lia.
Qed.

Lemma intersect1d_pos_model a b : incr a -> incr b -> py_intersect1d_pos a b = map Z.of_nat (inter_positions a b 0).
Proof.
  intros Ha Hb. unfold py_intersect1d_pos.
  replace (zsort_set (filter (fun x => zmem x b) a)) with (zinter a b).
  - rewrite <- (index_positions a b 0 Ha Hb). reflexivity.
  - symmetry. apply incr_ext.
    + apply zsort_set_incr.
    + apply zinter_incr. exact Ha.
    + intro x. rewrite zsort_set_In, filter_In, (zinter_In a b x Ha Hb), zmem_In. reflexivity.
Qed.

Lemma inter_positions_bound a : forall b pos i, In i (inter_positions a b pos) -> (pos <= i < pos + List.length a)%nat.
Proof.
  induction a as [|u a IHa]; intros b pos i Hi.
  - destruct b; destruct Hi.
  - induction b as [|v b IHb]; [destruct Hi|].
    rewrite inter_positions_unfold in Hi. destruct (u <? v).
    + apply IHa in Hi. simpl. lia.
    + destruct (v <? u); [apply IHb; exact Hi|].
      destruct Hi as [<-|Hi]; [simpl; lia|]. apply IHa in Hi. simpl. lia.
Qed.

Lemma py_take_nat deltas ind : (forall i, In i ind -> (i < List.length deltas)%nat) ->
  py_take deltas (map Z.of_nat ind) = Ok (map (fun i => nth i deltas 0%Q) ind).
Proof.
  intro H. unfold py_take. rewrite (py_map_total _ (fun z => nth (Z.to_nat z) deltas 0%Q)).
  - rewrite map_map. f_equal. apply map_ext. intro i. rewrite Nat2Z.id. reflexivity.
  - intros z Hz. apply in_map_iff in Hz. destruct Hz as [i [<- Hi]]. rewrite Nat2Z.id. apply py_index_nat. apply H. exact Hi.
Qed.

Definition lift (o : option (list Q)) : res (list Q) := match o with Some r => Ok r | None => Raise ValueError end.

Theorem reduce_deltas_tie deltas idx_old idx_new :
  incr (cfgs idx_old) -> incr (cfgs idx_new) ->
  _reduce_deltas deltas idx_old idx_new = lift (reduce_deltas deltas idx_old idx_new).
Proof.
  intros Ho Hn. unfold _reduce_deltas, reduce_deltas. cbv zeta.
  replace (zlen deltas =? zlen (cfgs idx_old)) with (Nat.eqb (List.length deltas) (List.length (cfgs idx_old))).
  2:{ unfold zlen. destruct (Nat.eqb_spec (List.length deltas) (List.length (cfgs idx_old))) as [E|E].
      - rewrite E. symmetry. apply Z.eqb_refl.
      - symmetry. apply Z.eqb_neq. lia. }
  destruct (Nat.eqb (List.length deltas) (List.length (cfgs idx_old))) eqn:El; cbn [negb]; [|reflexivity].
  apply Nat.eqb_eq in El.
  assert (Eall : all_idl_equal [idx_old; idx_new] = idl_eqb idx_old idx_new) by (unfold all_idl_equal; simpl; apply andb_true_r).
  rewrite Eall.
  assert (K : (if idl_eqb idx_old idx_new then Ok deltas
               else if zlen (py_intersect1d_pos (cfgs idx_old) (cfgs idx_new)) <? zlen (cfgs idx_new) then Raise ValueError
                    else t5 <- py_take deltas (py_intersect1d_pos (cfgs idx_old) (cfgs idx_new)) ;; Ok t5)
              = lift (if idl_eqb idx_old idx_new then Some deltas
                      else if Nat.ltb (List.length (inter_positions (cfgs idx_old) (cfgs idx_new) 0)) (List.length (cfgs idx_new)) then None
                           else Some (map (fun i => nth i deltas 0%Q) (inter_positions (cfgs idx_old) (cfgs idx_new) 0)))).
  { destruct (idl_eqb idx_old idx_new); [reflexivity|].
    rewrite intersect1d_pos_model by assumption. unfold zlen. rewrite map_length.
    destruct (Nat.ltb_spec (List.length (inter_positions (cfgs idx_old) (cfgs idx_new) 0)) (List.length (cfgs idx_new))) as [E|E].
    - destruct (Z.ltb_spec (Z.of_nat (List.length (inter_positions (cfgs idx_old) (cfgs idx_new) 0))) (Z.of_nat (List.length (cfgs idx_new)))); [reflexivity|lia].
    - destruct (Z.ltb_spec (Z.of_nat (List.length (inter_positions (cfgs idx_old) (cfgs idx_new) 0))) (Z.of_nat (List.length (cfgs idx_new)))); [lia|].
      rewrite py_take_nat; [reflexivity|]. intros i Hi. apply inter_positions_bound in Hi. lia. }
  destruct (isr idx_old && isr idx_new) eqn:Er.
  - apply andb_true_iff in Er. destruct Er as [E1 E2]. cbn [andb].
    unfold idl_eqb at 1. rewrite E1, E2. cbn [Bool.eqb andb].
    destruct (zlist_eqb (cfgs idx_old) (cfgs idx_new)) eqn:Ez; [reflexivity|]. exact K.
  - cbn [andb]. exact K.
Qed.

Print Assumptions reduce_deltas_tie.
