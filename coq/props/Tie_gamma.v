(* TIE (translator): Obs._calc_gamma as regenerated from pyerrors/obs.py on this run -- both the direct and the FFT branch --
   returns, entry by entry, the numbers of the hand-written model Obs/Gamma.v:calc_gamma on the expanded fluctuations.
   For the FFT branch the expression irfft(|rfft(x, P)|^2) is given its mathematical meaning (circular autocorrelation of the
   zero-padded array, Py/Prim.v); that the code's padding P makes it the linear autocorrelation at every lag that is kept is
   Obs/GammaThm.v:fft_padding_sufficient, used here for the padding expression as it stands in the source. *)
From Coq Require Import ZArith QArith List Bool Lia Sorted ZifyBool.
From PV Require Import Base.QAux Obs.Model Obs.DerivedThm Obs.Gamma Obs.GammaThm Py.Prim Py.Lemmas.
From PVG Require Import PyGen Tie_expand_deltas.
Import ListNotations.
Open Scope Z_scope.

Lemma arr_dot_dotq a : forall b, arr_dot a b = dotq a b.
Proof. induction a as [|x a IH]; intros [|y b]; simpl; try reflexivity; try (rewrite IH; reflexivity). Qed.

Lemma dotq_firstn a : forall b k, (List.length b <= k)%nat -> dotq (firstn k a) b = dotq a b.
Proof.
  induction a as [|x a IH]; intros b k H.
  - rewrite firstn_nil. reflexivity.
  - destruct b as [|y b]; [destruct k; reflexivity|]. destruct k as [|k]; [simpl in H; lia|].
    simpl. rewrite IH by (simpl in H; lia). reflexivity.
Qed.

Lemma dotq_nil_r a : dotq a [] = 0%Q.
Proof. destruct a; reflexivity. Qed.

Lemma clip_ok n i : 0 <= i <= n -> clip_index n i = i.
Proof. intro H. unfold clip_index. destruct (i <? 0) eqn:E; lia. Qed.
Lemma py_slice_prefix (e : list Q) m : 0 <= m <= zlen e -> py_slice e 0 m = firstn (Z.to_nat m) e.
Proof.
  intro H. unfold py_slice. rewrite (clip_ok _ 0) by lia. rewrite (clip_ok _ m) by lia. rewrite Z.sub_0_r. reflexivity.
Qed.
Lemma py_slice_suffix (e : list Q) k : 0 <= k <= zlen e -> py_slice e k (zlen e) = skipn (Z.to_nat k) e.
Proof.
  intro H. unfold py_slice. rewrite (clip_ok _ k) by lia. rewrite (clip_ok _ (zlen e)) by lia.
  apply firstn_all2. rewrite skipn_length. unfold zlen in *. lia.
Qed.

Lemma Forall2_Qeq_nth (a b : list Q) :
  List.length a = List.length b -> (forall n, (n < List.length a)%nat -> nth n a 0%Q == nth n b 0%Q) -> Forall2 Qeq a b.
Proof.
  revert b; induction a as [|x a IH]; intros [|y b] Hl H; simpl in Hl; try lia; constructor.
  - apply (H O). simpl. lia.
  - apply IH; [lia|]. intros n Hn. apply (H (S n)). simpl. lia.
Qed.

Lemma calc_gamma_length e w : List.length (calc_gamma e w) = w.
Proof. unfold calc_gamma. rewrite map_length, seq_length. reflexivity. Qed.

Lemma calc_gamma_nth_dot e w n : (n < w)%nat ->
  nth n (calc_gamma e w) 0%Q = if Nat.leb n (List.length e) then dotq e (skipn n e) else 0%Q.
Proof.
  intro H. unfold calc_gamma. rewrite (nth_map_any _ _ _ 0%Q O) by (rewrite seq_length; exact H).
  rewrite seq_nth by exact H. reflexivity.
Qed.

Lemma nth_upd_same (l : list Q) i v : (i < List.length l)%nat -> nth i (upd l i v) 0%Q = v.
Proof. revert i; induction l as [|x l IH]; intros [|i] H; simpl in *; try lia; auto. apply IH. lia. Qed.
Lemma nth_upd_other (l : list Q) i j v : i <> j -> nth j (upd l i v) 0%Q = nth j l 0%Q.
Proof. revert i j; induction l as [|x l IH]; intros [|i] [|j] H; simpl; try reflexivity; try lia. apply IH. lia. Qed.

Lemma nth_zeros n i : nth i (zeros n) 0%Q = 0%Q.
Proof. unfold zeros. revert i; induction n as [|n IH]; intros [|i]; simpl; auto. Qed.

Lemma py_circ_is_circ x P n : py_circ_autocorr x P n = circ_autocorr x P n.
Proof. reflexivity. Qed.

Lemma nth_arr_add a : forall b n, (n < List.length a)%nat -> (n < List.length b)%nat ->
  nth n (arr_add a b) 0%Q == nth n a 0%Q + nth n b 0%Q.
Proof.
  induction a as [|x a IH]; intros [|y b] n Ha Hb; simpl in *; try lia.
  destruct n as [|n]; [apply Qred_correct|]. apply IH; lia.
Qed.
Lemma arr_add_length a : forall b, List.length a = List.length b -> List.length (arr_add a b) = List.length a.
Proof. induction a as [|x a IH]; intros [|y b] H; simpl in *; try lia. rewrite IH; lia. Qed.

Theorem calc_gamma_tie deltas i gap w fft :
  0 < gap -> incr (cfgs i) -> cfgs i <> [] -> List.length deltas = List.length (cfgs i) ->
  exists r, _calc_gamma deltas i (zlen (cfgs i)) (Z.of_nat w) fft gap = Ok r
            /\ Forall2 Qeq r (calc_gamma (expand_deltas deltas i gap) w).
Proof.
  intros Hg Hi Hne Hl. unfold _calc_gamma.
  unfold py_zeros. destruct (Z.of_nat w <? 0) eqn:Ew; [lia|]. cbn [bind]. cbv zeta. rewrite Nat2Z.id.
  rewrite expand_deltas_tie by assumption. cbn [bind].
  set (e := expand_deltas deltas i gap). set (L := List.length e).
  assert (HL : zlen e = Z.of_nat L) by reflexivity.
  destruct fft.
  - (* FFT branch *)
    set (m := Z.min (zlen e) (Z.of_nat w)).
    set (P := zlen e + m + (zlen e + m) mod 2).
    assert (Hm : m = Z.of_nat (Nat.min L w)) by (unfold m; rewrite HL; lia).
    pose proof (Z.mod_pos_bound (zlen e + m) 2 eq_refl) as Hmod.
    assert (HP : (L + Nat.min L w <= Z.to_nat P)%nat) by (unfold P; lia).
    unfold py_slice_add. rewrite (py_slice_prefix (py_fft_autocorr e P) m).
    2:{ unfold zlen, py_fft_autocorr. rewrite map_length, seq_length. lia. }
    assert (Hzl : zlen (zeros w) = Z.of_nat w) by (unfold zlen; rewrite zeros_length; reflexivity).
    rewrite Hzl. rewrite (clip_ok _ 0) by lia. rewrite (clip_ok _ m) by lia.
    rewrite Z.sub_0_r. cbn [Z.to_nat skipn Nat.add].
    assert (Hmid : List.length (firstn (Z.to_nat m) (zeros w)) = Nat.min L w).
    { rewrite firstn_length, zeros_length. lia. }
    assert (Hv : List.length (firstn (Z.to_nat m) (py_fft_autocorr e P)) = Nat.min L w).
    { rewrite firstn_length. unfold py_fft_autocorr. rewrite map_length, seq_length. lia. }
    rewrite Hmid, Hv, Nat.eqb_refl.
    eexists. split; [reflexivity|].
    change (firstn 0 (zeros w)) with (@nil Q). cbn [app].
    apply Forall2_Qeq_nth.
    + rewrite calc_gamma_length, !app_length, arr_add_length by lia. rewrite Hmid, skipn_length, zeros_length. lia.
    + intros n Hn. rewrite !app_length, arr_add_length in Hn by lia. rewrite Hmid, skipn_length, zeros_length in Hn.
      assert (Hnw : (n < w)%nat) by lia.
      destruct (Nat.lt_ge_cases n (Nat.min L w)) as [Hlt|Hge].
      * rewrite app_nth1 by (rewrite arr_add_length by lia; lia).
        rewrite nth_arr_add by lia.
        rewrite nth_firstn_lt by lia. rewrite nth_zeros.
        rewrite nth_firstn_lt by lia.
        unfold py_fft_autocorr. rewrite (nth_map_any _ _ _ 0%Q O) by (rewrite seq_length; lia).
        rewrite seq_nth by lia. cbn [Nat.add]. rewrite py_circ_is_circ.
        rewrite (fft_padding_sufficient e (Z.to_nat P) n (Nat.min L w)) by (fold L; lia).
        rewrite calc_gamma_nth by (fold L; lia). ring.
      * rewrite app_nth2 by (rewrite arr_add_length by lia; lia). rewrite arr_add_length by lia. rewrite Hmid.
        rewrite nth_skipn_add. rewrite nth_zeros.
        rewrite calc_gamma_nth_dot by exact Hnw. fold L.
        destruct (Nat.leb_spec n L) as [Hle|Hgt]; [|reflexivity].
        assert (n = L) by lia. subst n. unfold L. rewrite skipn_all. rewrite dotq_nil_r. reflexivity.
  - (* direct branch *)
    destruct (py_for_upto_inv
                (fun k g => List.length g = w /\
                            forall n, (n < w)%nat -> nth n g 0%Q == if Nat.ltb n k then nth n (calc_gamma e w) 0%Q else 0%Q)
                (fun st5 v_n =>
                   if zlen e - v_n >=? 0
                   then t4 <- py_dot (py_slice e 0 (zlen e - v_n)) (py_slice e v_n (zlen e)) ;;
                        v_gamma <- py_store_add st5 v_n t4 ;; Ok v_gamma
                   else Ok st5)
                w (zeros w)) as [g [Eg [Hlen Hg']]].
    + split; [apply zeros_length|]. intros n _. rewrite nth_zeros. reflexivity.
    + intros k g Hk [Hlen Hinv]. cbv zeta.
      destruct (zlen e - Z.of_nat k >=? 0) eqn:Ec.
      * assert (HkL : (k <= L)%nat) by (rewrite HL in Ec; lia).
        rewrite py_slice_prefix by lia. rewrite py_slice_suffix by lia. rewrite Nat2Z.id.
        unfold py_dot.
        assert (Hlens : List.length (firstn (Z.to_nat (zlen e - Z.of_nat k)) e) = List.length (skipn k e)).
        { rewrite firstn_length, skipn_length. fold L. lia. }
        rewrite Hlens, Nat.eqb_refl. cbn [bind].
        unfold py_store_add. rewrite norm_index_ok by (unfold zlen; lia). cbn [bind]. rewrite Nat2Z.id.
        eexists. split; [reflexivity|]. split; [rewrite upd_length; exact Hlen|].
        intros n Hn. destruct (Nat.eq_dec n k) as [->|Hne'].
        -- rewrite nth_upd_same by lia. destruct (Nat.ltb_spec k (S k)); [|lia].
           rewrite Qred_correct. unfold qnth. rewrite (Hinv k Hk). destruct (Nat.ltb_spec k k); [lia|].
           rewrite calc_gamma_nth_dot by exact Hk. fold L. destruct (Nat.leb_spec k L); [|lia].
           rewrite arr_dot_dotq. rewrite dotq_firstn by (rewrite skipn_length; fold L; lia). ring.
        -- rewrite nth_upd_other by lia. rewrite (Hinv n Hn).
           destruct (Nat.ltb_spec n k); destruct (Nat.ltb_spec n (S k)); try lia; reflexivity.
      * assert (HkL : (L < k)%nat) by (rewrite HL in Ec; lia).
        eexists. split; [reflexivity|]. split; [exact Hlen|].
        intros n Hn. rewrite (Hinv n Hn). destruct (Nat.eq_dec n k) as [->|Hne'].
        -- destruct (Nat.ltb_spec k k); [lia|]. destruct (Nat.ltb_spec k (S k)); [|lia].
           rewrite calc_gamma_nth_dot by exact Hk. fold L. destruct (Nat.leb_spec k L); [lia|reflexivity].
        -- destruct (Nat.ltb_spec n k); destruct (Nat.ltb_spec n (S k)); try lia; reflexivity.
    + rewrite Eg. cbn [bind]. eexists. split; [reflexivity|].
      apply Forall2_Qeq_nth; [rewrite calc_gamma_length; exact Hlen|].
      intros n Hn. rewrite Hlen in Hn. rewrite (Hg' n Hn). destruct (Nat.ltb_spec n w); [reflexivity|lia].
Qed.

Print Assumptions calc_gamma_tie.
