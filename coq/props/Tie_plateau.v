(* TRANSLATED CODE, THEOREM DIRECTLY ON IT (C15): the averaging branch of Corr.plateau (pyerrors/correlators.py), regenerated on this run,
   returns the mean of the first entries of the DEFINED timeslices of the inclusive range [first, last] -- undefined timeslices inside the
   range are skipped, not counted. *)
From Coq Require Import ZArith QArith List Bool Lia ZifyBool.
From PV Require Import Base.QAux Obs.Model Py.Prim Py.Lemmas.
From PVG Require Import PyGen.
Import ListNotations.
Open Scope Z_scope.

Section Gen.
  Variable E : Type.
  Notation content := (list (option E)).
  Definition onth (c : content) (t : nat) : option E := nth t c None.
  Lemma py_index_onth (c : content) k : (k < List.length c)%nat -> py_index c (Z.of_nat k) = Ok (onth c k).
  Proof. intro H. apply py_index_nat. exact H. Qed.
  (* ---------------------------------------------------------------- plateau(method='avg'): the mean over the DEFINED timeslices of the range *)
  Variable Y : Type.
  Variable efirst : E -> Y.
  Variable ymean : list Y -> Y.
  Definition defined_at (c : content) (t : nat) : bool := negb (is_none (onth c t)).
  Lemma firstn_skipn_onth (c : content) : forall a m, (a + m <= List.length c)%nat ->
    firstn m (skipn a c) = map (onth c) (seq a m).
  Proof.
    intros a m. revert a. induction m as [|m IH]; intros a H; [reflexivity|].
    cbn [seq map]. rewrite (skipn_nth_cons c a None) by lia. cbn [firstn]. f_equal. rewrite IH by lia. reflexivity.
  Qed.

  Theorem plateau_average_is_over_the_defined_timeslices (c : content) a b : (a <= b < List.length c)%nat ->
    exists ys, corr_plateau_avg E Y efirst ymean c [Z.of_nat a; Z.of_nat b] = Ok (ymean ys)
               /\ map Some ys = map (fun t => option_map efirst (onth c t)) (filter (defined_at c) (seq a (b + 1 - a))).
  Proof.
    intro H. unfold corr_plateau_avg.
    rewrite (py_index_nth [Z.of_nat a; Z.of_nat b] 0 0) by (unfold zlen; simpl; lia).
    rewrite (py_index_nth [Z.of_nat a; Z.of_nat b] 1 0) by (unfold zlen; simpl; lia). cbn [bind].
    change (nth (Z.to_nat 0) [Z.of_nat a; Z.of_nat b] 0) with (Z.of_nat a). change (nth (Z.to_nat 1) [Z.of_nat a; Z.of_nat b] 0) with (Z.of_nat b).
    assert (Hs : py_slice c (Z.of_nat a) (Z.of_nat b + 1) = map (onth c) (seq a (b + 1 - a))).
    { unfold py_slice, clip_index. unfold zlen.
      destruct (Z.of_nat a <? 0) eqn:E1; [lia|]. destruct (Z.of_nat b + 1 <? 0) eqn:E2; [lia|].
      rewrite Z.min_r by lia. rewrite Z.min_r by lia. rewrite Nat2Z.id.
      replace (Z.to_nat (Z.of_nat b + 1 - Z.of_nat a)) with (b + 1 - a)%nat by lia. apply firstn_skipn_onth. lia. }
    rewrite Hs.
    rewrite (py_filter_total _ (fun x => negb (is_none x))) by (intros; reflexivity). cbn [bind].
    rewrite filter_map_swap. fold (defined_at c).
    change (fun a0 : nat => negb (is_none (onth c a0))) with (defined_at c).
    set (ts := filter (defined_at c) (seq a (b + 1 - a))).
    assert (Hts : forall t, In t ts -> exists e, onth c t = Some e).
    { intros t Ht. unfold ts in Ht. apply filter_In in Ht. destruct Ht as [_ Hd].
      unfold defined_at in Hd. destruct (onth c t) as [e|]; [exists e; reflexivity|discriminate]. }
    clearbody ts.
    assert (G : exists ys, py_map (fun v_item => t4 <- py_eun efirst v_item ;; Ok t4) (map (onth c) ts) = Ok ys
                           /\ map Some ys = map (fun t => option_map efirst (onth c t)) ts).
    { induction ts as [|t ts IH]; [exists []; split; reflexivity|].
      destruct (Hts t (or_introl eq_refl)) as [e He].
      destruct IH as [ys [E1 E2]]; [intros t' Ht'; apply Hts; right; exact Ht'|].
      cbn [map py_map]. rewrite He. cbn [py_eun bind]. rewrite E1. cbn [bind]. exists (efirst e :: ys). split; [reflexivity|].
      cbn [map option_map]. rewrite E2. reflexivity. }
    destruct G as [ys [E1 E2]]. rewrite E1. cbn [bind]. exists ys. split; [reflexivity|exact E2].
  Qed.

End Gen.

Print Assumptions plateau_average_is_over_the_defined_timeslices.
