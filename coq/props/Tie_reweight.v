(* TIE (translator): the two statements of the replica loop of reweight() (pyerrors/obs.py), regenerated on this run (C05). *)
From Coq Require Import ZArith QArith List Bool Lia Sorted.
From PV Require Import Base.QAux Obs.Model Obs.DerivedThm Obs.Pairing Py.Prim Py.Lemmas.
From PVG Require Import PyGen Tie_reduce.
Import ListNotations.
Open Scope Z_scope.

(* ------------------------------------------------------------------ reweight: the per-replica products *)
Open Scope Q_scope.
Lemma zip_mult_is_model a : forall b, List.length a = List.length b ->
  Forall2 Qeq (arr_zip Qmult a b) (map (fun p => Qred (fst p * snd p)) (combine a b)).
Proof.
  induction a as [|x a IH]; intros [|y b] H; simpl in H; try lia; [constructor|]. cbn [arr_zip combine map fst snd].
  constructor; [rewrite Qred_correct; reflexivity|apply IH; lia].
Qed.

(* the regenerated statements of the replica loop of reweight() multiply, entry by entry, the weight's samples selected for the
   observable's configuration NUMBERS (reduce_deltas_tie + reduce_is_restriction) with the observable's samples, as the model
   Obs/Pairing.v:reweight_with does; a selection that fails raises *)
Theorem reweight_samples_tie wdeltas widl wr odeltas oidl orv wd :
  Sorted.StronglySorted Z.lt (cfgs widl) -> Sorted.StronglySorted Z.lt (cfgs oidl) ->
  reduce_deltas wdeltas widl oidl = Some wd -> List.length odeltas = List.length (cfgs oidl) ->
  exists r, reweight_samples wdeltas widl wr odeltas oidl orv = Ok r
            /\ Forall2 Qeq r (map (fun p => Qred (fst p * snd p))
                                  (combine (map (fun d => d + wr) wd) (map (fun d => d + orv) odeltas))).
Proof.
  intros Hw Ho E Hl. unfold reweight_samples. rewrite reduce_deltas_tie by assumption. rewrite E. cbn [lift bind].
  assert (Hwd : List.length wd = List.length (cfgs oidl)).
  { unfold reduce_deltas in E. destruct (Nat.eqb (List.length wdeltas) (List.length (cfgs widl))) eqn:El; cbn [negb] in E; [|discriminate].
    apply Nat.eqb_eq in El.
    destruct (isr widl && isr oidl && zlist_eqb (cfgs widl) (cfgs oidl)) eqn:E1.
    - injection E as <-. apply andb_true_iff in E1. destruct E1 as [_ Ez]. apply zlist_eqb_eq in Ez. congruence.
    - destruct (idl_eqb widl oidl) eqn:E2.
      + injection E as <-. unfold idl_eqb in E2. apply andb_true_iff in E2. destruct E2 as [_ Ez]. apply zlist_eqb_eq in Ez. congruence.
      + destruct (Nat.ltb_spec (List.length (inter_positions (cfgs widl) (cfgs oidl) 0)) (List.length (cfgs oidl))) as [Hlt|Hge]; [discriminate|].
        injection E as <-. rewrite map_length.
        assert (G : forall a b pos, (List.length (inter_positions a b pos) <= List.length b)%nat).
        { induction a as [|u a IHa]; intros b pos; [destruct b; simpl; lia|].
          induction b as [|v b IHb]; [simpl; lia|]. rewrite inter_positions_unfold. destruct (u <? v)%Z.
          - specialize (IHa (v :: b) (S pos)). exact IHa.
          - destruct (v <? u)%Z; [simpl in *; lia|]. simpl. specialize (IHa b (S pos)). lia. }
        pose proof (G (cfgs widl) (cfgs oidl) 0%nat). lia. }
  unfold py_arr_mul2, py_arr_zip, arr_add_s. rewrite !map_length.
  replace (Nat.eqb (List.length wd) (List.length odeltas)) with true by (symmetry; apply Nat.eqb_eq; lia).
  cbn [bind]. eexists. split; [reflexivity|]. apply zip_mult_is_model. rewrite !map_length. lia.
Qed.
Print Assumptions reweight_samples_tie.
