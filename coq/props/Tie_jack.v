(* TIE (translator): Obs.export_jackknife as regenerated from pyerrors/obs.py on this run returns, entry by entry, the numbers of the
   hand-written model Obs/Resample.v:export_jack (entry 0 the central value, entry i the i-th leave-one-out combination), and refuses
   observables that do not live on exactly one chain. *)
From Coq Require Import ZArith QArith List Bool String Lia ZifyBool.
From PV Require Import Base.QAux Obs.Model Obs.DerivedThm Obs.Resample Py.Prim Py.Lemmas.
From PVG Require Import PyGen.
Import ListNotations.
Open Scope Z_scope.

Lemma Forall2_map_Qeq {A} (f g : A -> Q) l : (forall x, In x l -> f x == g x) -> Forall2 Qeq (map f l) (map g l).
Proof.
  induction l as [|x l IH]; intro H; simpl; constructor.
  - apply H. left. reflexivity.
  - apply IH. intros y Hy. apply H. right. exact Hy.
Qed.

Theorem export_jackknife_tie name deltas rmean value :
  exists r, export_jackknife 1 name deltas rmean value = Ok r
            /\ Forall2 Qeq r (export_jack value (map (fun d => d + rmean)%Q deltas)).
Proof.
  unfold export_jackknife. cbv zeta. cbn [Z.eqb negb Pos.eqb].
  set (full := arr_add_s deltas rmean).
  assert (Hn : 0 <= zlen full) by apply zlen_nonneg.
  unfold py_zeros. destruct (zlen full + 1 <? 0) eqn:E; [lia|]. cbn [bind].
  assert (Hz : zeros (Z.to_nat (zlen full + 1)) = 0%Q :: zeros (Z.to_nat (zlen full))).
  { replace (Z.to_nat (zlen full + 1)) with (S (Z.to_nat (zlen full))) by lia. reflexivity. }
  rewrite Hz. unfold py_store. rewrite norm_index_ok by (unfold zlen; simpl; lia). cbn [bind Z.to_nat upd].
  unfold py_slice_set.
  assert (Hl : zlen (value :: zeros (Z.to_nat (zlen full))) = zlen full + 1).
  { unfold zlen. simpl List.length. rewrite zeros_length. unfold zlen in Hn. lia. }
  rewrite Hl. unfold clip_index. destruct (1 <? 0) eqn:E1; [lia|]. destruct (zlen full + 1 <? 0) eqn:E2; [lia|].
  rewrite (Z.min_r (zlen full + 1) 1) by lia. rewrite Z.min_id.
  assert (Hlen : List.length (arr_div (arr_rsub (inject_Z (zlen full) * value)%Q full) (inject_Z (zlen full - 1))) = Z.to_nat (zlen full + 1 - 1)).
  { unfold arr_div, arr_rsub. rewrite !map_length. unfold zlen. lia. }
  rewrite Hlen, Nat.eqb_refl. cbn [bind].
  eexists. split; [reflexivity|].
  change (Z.to_nat 1) with 1%nat. cbn [firstn app].
  rewrite skipn_all2 by (simpl; rewrite zeros_length; unfold zlen in *; lia). rewrite app_nil_r.
  unfold export_jack. constructor; [reflexivity|].
  unfold arr_div, arr_rsub. rewrite map_map. unfold full, arr_add_s.
  apply Forall2_map_Qeq. intros x _. rewrite Qred_correct.
  unfold QlenL, zlen. rewrite !map_length.
  replace (inject_Z (Z.of_nat (List.length deltas) - 1)) with (inject_Z (Z.of_nat (List.length deltas)) - 1)%Q; [reflexivity|].
  unfold Qminus, Qplus, inject_Z, Qopp. simpl. f_equal. lia.
Qed.

Theorem export_jackknife_one_chain_only n name deltas rmean value :
  n <> 1 -> export_jackknife n name deltas rmean value = Raise ValueError.
Proof.
  intro H. unfold export_jackknife. destruct (n =? 1) eqn:E; [lia|]. reflexivity.
Qed.

Print Assumptions export_jackknife_tie.
