(* TIE (translator): Obs.export_jackknife as regenerated from pyerrors/obs.py on this run returns, entry by entry, the numbers of the
   hand-written model Obs/Resample.v:export_jack (entry 0 the central value, entry i the i-th leave-one-out combination), and refuses
   observables that do not live on exactly one chain. *)
From Coq Require Import ZArith QArith List Bool String Lia ZifyBool.
From PV Require Import Base.QAux Obs.Model Obs.DerivedThm Obs.Resample Py.Prim Py.Lemmas.
From PVG Require Import PyGen.
Import ListNotations.
Open Scope Z_scope.

Lemma Forall2_map_Qeq {A} (f g : A -> Q) l : (forall x, In x l -> f x == g x) -> Forall2 Qeq (map f l) (map g l).
Proof.
  induction l as [|x l IH]; intro H; simpl; constructor.
  - apply H. left. reflexivity.
  - apply IH. intros y Hy. apply H. right. exact Hy.
Qed.

Theorem export_jackknife_tie name deltas rmean value :
  exists r, export_jackknife 1 name deltas rmean value = Ok r
            /\ Forall2 Qeq r (export_jack value (map (fun d => d + rmean)%Q deltas)).
Proof.
  unfold export_jackknife. cbv zeta. cbn [Z.eqb negb Pos.eqb].
  set (full := arr_add_s deltas rmean).
  assert (Hn : 0 <= zlen full) by apply zlen_nonneg.
  unfold py_zeros. destruct (zlen full + 1 <? 0) eqn:E; [lia|]. cbn [bind].
  assert (Hz : zeros (Z.to_nat (zlen full + 1)) = 0%Q :: zeros (Z.to_nat (zlen full))).
  { replace (Z.to_nat (zlen full + 1)) with (S (Z.to_nat (zlen full))) by lia. reflexivity. }
  rewrite Hz. unfold py_store. rewrite norm_index_ok by (unfold zlen; simpl; lia). cbn [bind Z.to_nat upd].
  unfold py_slice_set.
  assert (Hl : zlen (value :: zeros (Z.to_nat (zlen full))) = zlen full + 1).
  { unfold zlen. simpl List.length. rewrite zeros_length. unfold zlen in Hn. lia. }
  rewrite Hl. unfold clip_index. destruct (1 <? 0) eqn:E1; [lia|]. destruct (zlen full + 1 <? 0) eqn:E2; [lia|].
  rewrite (Z.min_r (zlen full + 1) 1) by lia. rewrite Z.min_id.
  assert (Hlen : List.length (arr_div (arr_rsub (inject_Z (zlen full) * value)%Q full) (inject_Z (zlen full - 1))) = Z.to_nat (zlen full + 1 - 1)).
  { unfold arr_div, arr_rsub. rewrite !map_length. unfold zlen. lia. }
  rewrite Hlen, Nat.eqb_refl. cbn [bind].
  eexists. split; [reflexivity|].
  change (Z.to_nat 1) with 1%nat. cbn [firstn app].
  rewrite skipn_all2 by (simpl; rewrite zeros_length; unfold zlen in *; lia). rewrite app_nil_r.
  unfold export_jack. constructor; [reflexivity|].
  unfold arr_div, arr_rsub. rewrite map_map. unfold full, arr_add_s.
  apply Forall2_map_Qeq. intros x _. rewrite Qred_correct.
  unfold QlenL, zlen. rewrite !map_length.
  replace (inject_Z (Z.of_nat (List.length deltas) - 1)) with (inject_Z (Z.of_nat (List.length deltas)) - 1)%Q; [reflexivity|].
  unfold Qminus, Qplus, inject_Z, Qopp. simpl. f_equal. lia.
Qed.

Theorem export_jackknife_one_chain_only n name deltas rmean value :
  n <> 1 -> export_jackknife n name deltas rmean value = Raise ValueError.
Proof.
  intro H. unfold export_jackknife. destruct (n =? 1) eqn:E; [lia|]. reflexivity.
Qed.

Print Assumptions export_jackknife_tie.

(* ------------------------------------------------------------------ import_jackknife: samples = jacks[1:] @ (ones - (L - 1) identity) *)
Open Scope Q_scope.
Lemma combine_repeat_map {A B} (x : A) (f : nat -> B) n : forall s,
  combine (repeat x n) (map f (seq s n)) = map (fun i => (x, f i)) (seq s n).
Proof. induction n as [|n IH]; intro s; simpl; [reflexivity|]. rewrite IH. reflexivity. Qed.

Definition prjrow (L : nat) (i : nat) : list Q :=
  arr_zip Qminus (repeat 1 L) (map (fun x => inject_Z (Z.of_nat L - 1) * x) (map (fun j => if Nat.eqb i j then 1 else 0) (seq 0 L))).

Lemma nth_arr_zip_minus a : forall b j, List.length a = List.length b -> (j < List.length a)%nat ->
  nth j (arr_zip Qminus a b) 0 = nth j a 0 - nth j b 0.
Proof.
  induction a as [|x a IH]; intros [|y b] j Hl Hj; simpl in *; try lia. destruct j as [|j]; [reflexivity|]. apply IH; lia.
Qed.
Lemma arr_zip_length (f : Q -> Q -> Q) a : forall b, List.length a = List.length b -> List.length (arr_zip f a b) = List.length a.
Proof. induction a as [|x a IH]; intros [|y b] H; simpl in *; try lia. rewrite IH; lia. Qed.
Lemma nth_repeat_one L j : (j < L)%nat -> nth j (repeat (1 : Q) L) 0 = 1.
Proof. revert j; induction L as [|L IH]; intros [|j] H; simpl; try lia; [reflexivity|apply IH; lia]. Qed.

Lemma prjrow_entry L i j : (j < L)%nat -> nth j (prjrow L i) 0 == prj_entry L i j.
Proof.
  intro Hj. unfold prjrow, prj_entry. rewrite nth_arr_zip_minus by (rewrite ?repeat_length, ?map_length, ?seq_length; lia).
  rewrite nth_repeat_one by exact Hj. rewrite map_map.
  rewrite (nth_indep _ 0 ((fun x => inject_Z (Z.of_nat L - 1) * (if Nat.eqb i x then 1 else 0)) O)) by (rewrite map_length, seq_length; lia).
  rewrite (map_nth (fun x => inject_Z (Z.of_nat L - 1) * (if Nat.eqb i x then 1 else 0))). rewrite seq_nth by lia. cbn [Nat.add].
  apply Qplus_comp; [reflexivity|]. apply Qopp_comp. apply Qmult_comp; [|reflexivity].
  unfold Qminus, Qplus, Qopp, inject_Z, Qeq. simpl. lia.
Qed.

Lemma sum_rows j (G : nat -> Q) (F : nat -> list Q) (js : list Q) : forall (is : list nat),
  (forall i, In i is -> nth j (F i) 0 == G i) ->
  Qsum (map (fun p => fst p * nth j (snd p) 0) (combine js (map F is))) == Qsum (map (fun p => snd p * G (fst p)) (combine is js)).
Proof.
  induction js as [|v js IH]; intros [|i is] H; try reflexivity.
  cbn [map combine].
  etransitivity; [apply Qsum_cons|]. etransitivity; [|symmetry; apply Qsum_cons].
  apply Qplus_comp; [cbn [fst snd]; rewrite (H i) by (left; reflexivity); reflexivity|].
  apply IH. intros i' Hi'. apply H. right. exact Hi'.
Qed.

Theorem import_jackknife_samples_tie j0 js :
  exists r, import_jackknife_samples (j0 :: js) = Ok r /\ Forall2 Qeq r (import_samples_mat (j0 :: js)).
Proof.
  unfold import_jackknife_samples. cbv zeta.
  set (L := List.length js).
  assert (HL : (zlen (j0 :: js) - 1)%Z = Z.of_nat L) by (unfold zlen, L; simpl List.length; lia).
  rewrite HL. unfold py_mat_ones, py_mat_identity.
  destruct ((Z.of_nat L <? 0)%Z) eqn:E; [lia|]. cbn [orb bind]. rewrite Nat2Z.id.
  assert (Hsub : py_mat_sub (repeat (repeat 1 L) L)
                   (mat_scale (inject_Z (Z.of_nat L - 1)) (map (fun i => map (fun j => if Nat.eqb i j then 1 else 0) (seq 0 L)) (seq 0 L)))
                 = Ok (map (prjrow L) (seq 0 L))).
  { unfold py_mat_sub, mat_scale. rewrite map_map. rewrite combine_repeat_map.
    replace (mat_shape_eq (repeat (repeat 1 L) L) (map (fun x => map (fun x0 => inject_Z (Z.of_nat L - 1) * x0) (map (fun j => if Nat.eqb x j then 1 else 0) (seq 0 L))) (seq 0 L))) with true.
    - rewrite map_map. reflexivity.
    - symmetry. unfold mat_shape_eq. rewrite repeat_length, map_length, seq_length, Nat.eqb_refl. cbn [andb].
      rewrite combine_repeat_map. apply forallb_forall. intros p Hp. apply in_map_iff in Hp. destruct Hp as [i [<- _]]. cbn [fst snd].
      rewrite repeat_length, !map_length, seq_length. apply Nat.eqb_refl. }
  rewrite Hsub. cbn [bind].
  assert (Hsl : py_slice (j0 :: js) 1 (zlen (j0 :: js)) = js).
  { unfold py_slice. assert (Hz : zlen (j0 :: js) = Z.of_nat (S L)) by reflexivity. rewrite Hz.
    assert (C1 : clip_index (Z.of_nat (S L)) 1 = 1%Z) by (unfold clip_index; destruct (1 <? 0)%Z eqn:E1; lia).
    assert (C2 : clip_index (Z.of_nat (S L)) (Z.of_nat (S L)) = Z.of_nat (S L)) by (unfold clip_index; destruct (Z.of_nat (S L) <? 0)%Z eqn:E2; lia).
    rewrite C1, C2. replace (Z.to_nat (Z.of_nat (S L) - 1)) with L by lia. change (Z.to_nat 1) with 1%nat.
    cbn [skipn]. apply firstn_all. }
  rewrite Hsl. unfold py_vecmat. rewrite map_length, seq_length. fold L. rewrite Nat.eqb_refl. cbn [bind].
  eexists. split; [reflexivity|].
  unfold import_samples_mat. cbn [tl]. fold L.
  assert (Hcols : match map (prjrow L) (seq 0 L) with [] => 0%nat | r :: _ => List.length r end = L).
  { destruct L as [|L']; [reflexivity|]. cbn [seq map]. unfold prjrow. rewrite arr_zip_length.
    - apply repeat_length.
    - rewrite repeat_length, !map_length, seq_length. reflexivity. }
  rewrite Hcols.
  apply Forall2_map_Qeq. intros j Hj. apply in_seq in Hj. unfold vecmat_col.
  apply (sum_rows j (fun i => prj_entry L i j) (prjrow L) js (seq 0 L)). intros i _. apply prjrow_entry. lia.
Qed.

Print Assumptions import_jackknife_samples_tie.

(* ------------------------------------------------------------------ export_bootstrap from `proj = ...` on, for a given table of random numbers *)
Lemma incr_at_q_is_model c k : incr_at_q c k = incr_at c k.
Proof. revert k; induction c as [|x c IH]; intros [|k]; simpl; try reflexivity; try (rewrite IH; reflexivity). Qed.
Lemma bincount_q_is_model rho L : bincount_q rho L = bincount rho L.
Proof. induction rho as [|k r IH]; simpl; [reflexivity|]. rewrite IH. apply incr_at_q_is_model. Qed.
Lemma arr_dot_is_dot a : forall b, arr_dot a b = dot a b.
Proof. induction a as [|x a IH]; intros [|y b]; simpl; try reflexivity; try (rewrite IH; reflexivity). Qed.

Lemma max_fold_in_range (L : Z) (o : list Z) : (forall x, In x o -> (x < L)%Z) -> fold_right Z.max L (map (fun x => (x + 1)%Z) o) = L.
Proof.
  induction o as [|x o IH]; intro H; simpl; [reflexivity|]. rewrite IH by (intros y Hy; apply H; right; exact Hy).
  assert (x < L)%Z by (apply H; left; reflexivity). lia.
Qed.

Theorem export_bootstrap_core_tie (table : list (list nat)) (deltas : list Q) (rmean value : Q) :
  table <> [] -> (forall rho k, In rho table -> In k rho -> (k < List.length deltas)%nat) ->
  export_bootstrap_core (Z.of_nat (List.length table)) (map (map Z.of_nat) table) deltas rmean value
  = Ok (export_boot value (map (fun d => d + rmean) deltas) table).
Proof.
  intros Hne Hrange. unfold export_bootstrap_core. cbv zeta.
  set (L := List.length deltas). set (data := arr_add_s deltas rmean).
  assert (Hdata : List.length data = L) by (unfold data, arr_add_s; apply map_length).
  (* the rows of counts *)
  rewrite (py_map_total _ (fun o => bincount (map Z.to_nat o) L)).
  2:{ intros o Ho. apply in_map_iff in Ho. destruct Ho as [rho [<- Hrho]]. unfold py_bincount.
      replace (existsb (fun x => (x <? 0)%Z) (map Z.of_nat rho)) with false.
      - cbn [bind]. rewrite max_fold_in_range.
        + unfold zlen. rewrite Nat2Z.id. fold L. rewrite bincount_q_is_model. reflexivity.
        + intros x Hx. apply in_map_iff in Hx. destruct Hx as [k [<- Hk]]. unfold zlen. specialize (Hrange rho k Hrho Hk). lia.
      - symmetry. apply Bool.not_true_iff_false. intro E. apply existsb_exists in E. destruct E as [x [Hx E]].
        apply in_map_iff in Hx. destruct Hx as [k [<- _]]. lia. }
  cbn [bind]. rewrite map_map.
  set (rows := map (fun rho => bincount (map Z.to_nat (map Z.of_nat rho)) L) table).
  assert (Hrows : rows = map (fun rho => bincount rho L) table).
  { unfold rows. apply map_ext. intro rho. f_equal. rewrite map_map. rewrite <- (map_id rho) at 2. apply map_ext. intro k. apply Nat2Z.id. }
  rewrite Hrows. clear rows Hrows.
  assert (Hlen : forall rho, List.length (bincount rho L) = L).
  { intro rho. apply bincount_length. }
  unfold py_vstack. destruct table as [|rho0 table'] eqn:Et; [congruence|]. cbn [map].
  replace (forallb (fun x => Nat.eqb (List.length x) (List.length (bincount rho0 L))) (map (fun rho => bincount rho L) table')) with true.
  2:{ symmetry. apply forallb_forall. intros x Hx. apply in_map_iff in Hx. destruct Hx as [r [<- _]]. rewrite !Hlen. apply Nat.eqb_refl. }
  cbn [bind].
  unfold py_zeros. destruct (Z.of_nat (List.length (rho0 :: table')) + 1 <? 0)%Z eqn:Ez; [lia|]. cbn [bind].
  replace (Z.to_nat (Z.of_nat (List.length (rho0 :: table')) + 1)) with (S (List.length (rho0 :: table'))) by lia.
  change (zeros (S (List.length (rho0 :: table')))) with (0 :: zeros (List.length (rho0 :: table'))).
  unfold py_store. rewrite norm_index_ok by (unfold zlen; simpl List.length; lia). cbn [bind Z.to_nat upd].
  unfold py_matvec, mat_div_s.
  replace (forallb (fun row => Nat.eqb (List.length row) (List.length data))
                   (map (map (fun c => c / inject_Z (zlen deltas))) (bincount rho0 L :: map (fun rho => bincount rho L) table'))) with true.
  2:{ symmetry. apply forallb_forall. intros x Hx. apply in_map_iff in Hx. destruct Hx as [r [<- Hr]]. rewrite map_length, Hdata.
      destruct Hr as [<-|Hr]; [rewrite Hlen; apply Nat.eqb_refl|]. apply in_map_iff in Hr. destruct Hr as [r' [<- _]]. rewrite Hlen. apply Nat.eqb_refl. }
  cbn [bind].
  unfold py_slice_set.
  assert (Hzl : zlen (value :: zeros (List.length (rho0 :: table'))) = Z.of_nat (S (List.length (rho0 :: table')))).
  { unfold zlen. simpl List.length. rewrite zeros_length. reflexivity. }
  rewrite Hzl. unfold clip_index. destruct (1 <? 0)%Z eqn:E1; [lia|].
  destruct (Z.of_nat (S (List.length (rho0 :: table'))) <? 0)%Z eqn:E2; [lia|].
  rewrite (Z.min_r _ 1) by lia. rewrite Z.min_id.
  rewrite !map_length. simpl List.length at 1.
  replace (Z.to_nat (Z.of_nat (S (S (List.length table'))) - 1)) with (S (List.length table')) by lia.
  cbn [List.length]. rewrite map_length, Nat.eqb_refl. cbn [bind].
  change (Z.to_nat 1) with 1%nat. cbn [firstn app].
  rewrite skipn_all2 by (simpl; rewrite zeros_length; lia). rewrite app_nil_r.
  unfold export_boot. f_equal. f_equal.
  change (bincount rho0 L :: map (fun rho => bincount rho L) table') with (map (fun rho => bincount rho L) (rho0 :: table')).
  rewrite !map_map. apply map_ext. intro rho. unfold boot_row. rewrite arr_dot_is_dot.
  fold (arr_add_s deltas rmean). fold data. unfold QlenL, zlen. rewrite Hdata. reflexivity.
Qed.

Print Assumptions export_bootstrap_core_tie.
