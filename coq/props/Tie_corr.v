(* TRANSLATED CODE, THEOREMS DIRECTLY ON IT (C14): the loops of Corr.__add__ / __mul__ (Corr-Corr branch), thin, reverse, roll,
   symmetric and anti_symmetric are regenerated from pyerrors/correlators.py on this run (PVG.PyGen, section CorrOps, over an
   abstract element type with abstract arithmetic) and proved to act timeslice-wise with exact propagation of undefined slices,
   for every temporal extent and every pattern of undefined timeslices; for the index transformations the regenerated definition is
   the hand-written model of Corr/Ops.v. *)
From Coq Require Import ZArith QArith List Bool Lia ZifyBool.
From PV Require Import Base.QAux Obs.Model Corr.Ops Py.Prim Py.Lemmas.
From PVG Require Import PyGen.
Import ListNotations.
Open Scope Z_scope.

Section Gen.
  Variable E : Type.
  Variables eadd esub emul ediv : E -> E -> E.
  Variable escale : Q -> E -> E.
  Notation content := (list (option E)).

  Definition comb (f : E -> E -> E) (a b : option E) : option E :=
    match a, b with Some x, Some y => Some (f x y) | _, _ => None end.
  Definition onth (c : content) (t : nat) : option E := nth t c None.

  Lemma py_index_onth (c : content) k : (k < List.length c)%nat -> py_index c (Z.of_nat k) = Ok (onth c k).
  Proof. intro H. apply py_index_nat. exact H. Qed.

  (* ---------------------------------------------------------------- binary operations, Corr (op) Corr *)
  Lemma zip_loop (f : E -> E -> E) (c y : content) :
    List.length c = List.length y ->
    py_for (py_upto (zlen c)) ([] : content)
      (fun st v_t =>
         t2 <- py_index c v_t ;;
         t4 <- (if is_none t2 then Ok true else t3 <- py_index y v_t ;; Ok (is_none t3)) ;;
         if t4 then Ok (st ++ [None])
         else t5 <- py_index c v_t ;; t6 <- py_index y v_t ;; t7 <- py_ebin f t5 t6 ;; Ok (st ++ [Some t7]))
    = Ok (map (fun k => comb f (onth c k) (onth y k)) (seq 0 (List.length c))).
  Proof.
    intro Hl. unfold zlen. rewrite py_upto_seq.
    rewrite (py_for_append (fun z => comb f (onth c (Z.to_nat z)) (onth y (Z.to_nat z)))).
    - cbn [app]. rewrite map_map. f_equal. apply map_ext. intro k. rewrite Nat2Z.id. reflexivity.
    - intros st x Hx. apply in_map_iff in Hx. destruct Hx as [k [<- Hk]]. apply in_seq in Hk. cbv beta zeta.
      rewrite !(py_index_onth c k) by lia. rewrite ?(py_index_onth y k) by lia. cbn [bind]. rewrite Nat2Z.id.
      destruct (onth c k) as [u|]; cbn [is_none bind]; [|reflexivity].
      destruct (onth y k) as [v|]; reflexivity.
  Qed.

  Theorem add_is_timeslicewise (c y : content) N :
    List.length c = List.length y ->
    corr_add_corr E eadd c N y N = Ok (map (fun k => comb eadd (onth c k) (onth y k)) (seq 0 (List.length c))).
  Proof.
    intro Hl. unfold corr_add_corr. cbv zeta.
    rewrite Z.eqb_refl. replace (zlen c =? zlen y) with true by (symmetry; unfold zlen; rewrite Hl; apply Z.eqb_refl).
    cbn [negb orb]. rewrite (zip_loop eadd c y Hl). reflexivity.
  Qed.
  Theorem add_rejects_other_shapes (c y : content) N yN :
    N <> yN \/ List.length c <> List.length y -> corr_add_corr E eadd c N y yN = Raise ValueError.
  Proof.
    intro H. unfold corr_add_corr. cbv zeta.
    destruct (N =? yN) eqn:E1; destruct (zlen c =? zlen y) eqn:E2; cbn [negb orb]; try reflexivity.
    unfold zlen in E2. destruct H; lia.
  Qed.
  Theorem mul_is_timeslicewise (c y : content) N yN :
    (N = 1 \/ yN = 1 \/ N = yN) -> List.length c = List.length y ->
    corr_mul_corr E emul c N y yN = Ok (map (fun k => comb emul (onth c k) (onth y k)) (seq 0 (List.length c))).
  Proof.
    intros HN Hl. unfold corr_mul_corr. cbv zeta.
    replace (((N =? 1) || (yN =? 1) || (N =? yN)) && (zlen c =? zlen y)) with true.
    - cbn [negb]. rewrite (zip_loop emul c y Hl). reflexivity.
    - symmetry. apply andb_true_iff. split; [|unfold zlen; rewrite Hl; apply Z.eqb_refl].
      destruct HN as [H|[H|H]]; subst; rewrite ?Z.eqb_refl, ?orb_true_r; reflexivity.
  Qed.

  (* the statements of the property, read off the closed form: slice t of the result is the operation on slice t of both operands,
     undefined exactly when one of them is *)
  Corollary zip_slice (f : E -> E -> E) (c y : content) t : (t < List.length c)%nat ->
    onth (map (fun k => comb f (onth c k) (onth y k)) (seq 0 (List.length c))) t = comb f (onth c t) (onth y t).
  Proof.
    intro H. unfold onth at 1. rewrite (nth_indep _ None (comb f (onth c 0) (onth y 0))) by (rewrite map_length, seq_length; exact H).
    rewrite (map_nth (fun k => comb f (onth c k) (onth y k))). rewrite seq_nth by exact H. reflexivity.
  Qed.
  Corollary comb_undefined_iff (f : E -> E -> E) a b : comb f a b = None <-> a = None \/ b = None.
  Proof. destruct a, b; simpl; split; intro H; try discriminate; auto; destruct H; discriminate. Qed.

  (* ---------------------------------------------------------------- Corr (op) scalar / observable *)
  Variable S : Type.
  Variables eaddS emulS : E -> S -> E.
  Lemma scalar_loop (f : E -> E) (c : content) :
    py_for (py_upto (zlen c)) ([] : content)
      (fun st v_t => t1 <- py_index c v_t ;;
         if is_none t1 then Ok (st ++ [None])
         else t2 <- py_index c v_t ;; t3 <- py_eun f t2 ;; Ok (st ++ [Some t3]))
    = Ok (map (option_map f) c).
  Proof.
    unfold zlen. rewrite py_upto_seq.
    rewrite (py_for_append (fun z => option_map f (onth c (Z.to_nat z)))).
    - cbn [app]. rewrite map_map. f_equal. rewrite <- (map_nth_seq (option_map f) c None). apply map_ext. intro k. rewrite Nat2Z.id. reflexivity.
    - intros st x Hx. apply in_map_iff in Hx. destruct Hx as [k [<- Hk]]. apply in_seq in Hk. cbv beta.
      rewrite !(py_index_onth c k) by lia. cbn [bind]. rewrite Nat2Z.id.
      destruct (onth c k) as [u|]; reflexivity.
  Qed.
  Theorem add_scalar_is_timeslicewise (c : content) N (y : S) :
    corr_add_scalar E S eaddS c N y = Ok (map (option_map (fun x => eaddS x y)) c).
  Proof. unfold corr_add_scalar. cbv zeta. rewrite (scalar_loop (fun x => eaddS x y) c). reflexivity. Qed.
  Theorem mul_scalar_is_timeslicewise (c : content) N (y : S) :
    corr_mul_scalar E S emulS c N y = Ok (map (option_map (fun x => emulS x y)) c).
  Proof. unfold corr_mul_scalar. cbv zeta. rewrite (scalar_loop (fun x => emulS x y) c). reflexivity. Qed.

  (* ---------------------------------------------------------------- thin *)
  Theorem thin_closed_form (c : content) spacing offset : spacing <> 0 ->
    corr_thin E spacing offset c
    = Ok (map (fun k => if (offset + Z.of_nat k) mod spacing =? 0 then onth c k else None) (seq 0 (List.length c))).
  Proof.
    intro Hs. unfold corr_thin. cbv zeta. unfold zlen. rewrite py_upto_seq.
    rewrite (py_for_append (fun z => if (offset + z) mod spacing =? 0 then onth c (Z.to_nat z) else None)).
    - cbn [bind app]. rewrite map_map. f_equal. apply map_ext. intro k. rewrite Nat2Z.id. reflexivity.
    - intros st x Hx. apply in_map_iff in Hx. destruct Hx as [k [<- Hk]]. apply in_seq in Hk. cbv beta zeta.
      unfold py_mod. destruct (spacing =? 0) eqn:E0; [lia|]. cbn [bind].
      destruct ((offset + Z.of_nat k) mod spacing =? 0); cbn [negb]; [|reflexivity].
      rewrite (py_index_onth c k) by lia. cbn [bind]. rewrite Nat2Z.id. reflexivity.
  Qed.
  Theorem thin_zero_spacing_raises (c : content) offset : c <> [] -> corr_thin E 0 offset c = Raise ZeroDivisionError.
  Proof.
    intro Hc. unfold corr_thin. cbv zeta. destruct c as [|x r]; [congruence|].
    unfold zlen. rewrite py_upto_seq. simpl. reflexivity.
  Qed.

  (* ---------------------------------------------------------------- symmetric / anti_symmetric *)
  Definition half (f : E -> E -> E) (a b : option E) : option E :=
    match a, b with Some x, Some y => Some (escale (1 # 2) (f x y)) | _, _ => None end.
  Definition sym_content (f : E -> E -> E) (c : content) : content :=
    onth c 0 :: map (fun k => half f (onth c k) (onth c (List.length c - k))) (seq 1 (List.length c - 1)).

  Lemma sym_loop (f : E -> E -> E) (c : content) (x0 : option E) : (1 <= List.length c)%nat ->
    py_for (zrange 1 (zlen c) 1) [x0]
      (fun st v_t =>
         t4 <- py_index c v_t ;;
         t6 <- (if is_none t4 then Ok true else t5 <- py_index c (zlen c - v_t) ;; Ok (is_none t5)) ;;
         if t6 then Ok (st ++ [None])
         else t7 <- py_index c v_t ;; t8 <- py_index c (zlen c - v_t) ;; t9 <- py_ebin f t7 t8 ;; Ok (st ++ [Some (escale (1 # 2) t9)]))
    = Ok (x0 :: map (fun k => half f (onth c k) (onth c (List.length c - k))) (seq 1 (List.length c - 1))).
  Proof.
    intro Hl. unfold zlen. change 1 with (Z.of_nat 1). rewrite zrange_seq.
    rewrite (py_for_append (fun z => half f (onth c (Z.to_nat z)) (onth c (List.length c - Z.to_nat z)))).
    - cbn [app]. rewrite map_map. f_equal. f_equal. apply map_ext. intro k. rewrite Nat2Z.id. reflexivity.
    - intros st x Hx. apply in_map_iff in Hx. destruct Hx as [k [<- Hk]]. apply in_seq in Hk. cbv beta zeta.
      replace (Z.of_nat (List.length c) - Z.of_nat k) with (Z.of_nat (List.length c - k)) by lia.
      rewrite !(py_index_onth c k) by lia. rewrite ?(py_index_onth c (List.length c - k)) by lia. cbn [bind]. rewrite Nat2Z.id.
      destruct (onth c k) as [u|]; cbn [is_none bind]; [|reflexivity].
      destruct (onth c (List.length c - k)) as [v|]; reflexivity.
  Qed.

  Lemma all_none_map (l : content) : forallb (fun b : bool => b) (map (fun x => is_none x) l) = forallb (fun x => is_none x) l.
  Proof. induction l as [|x l IH]; simpl; [reflexivity|]. rewrite IH. reflexivity. Qed.

  Theorem symmetric_closed_form (c : content) :
    Nat.even (List.length c) = true -> c <> [] ->
    corr_symmetric E eadd escale c 1 =
      if forallb (fun x => is_none x) (sym_content eadd c) then Raise ValueError else Ok (sym_content eadd c).
  Proof.
    intros Hev Hne. unfold corr_symmetric. cbv zeta. cbn [Z.eqb Pos.eqb negb].
    assert (Hl : (1 <= List.length c)%nat) by (destruct c; [congruence|simpl; lia]).
    assert (Hmod : zlen c mod 2 =? 0 = true).
    { unfold zlen. apply Nat.even_spec in Hev. destruct Hev as [m Hm]. rewrite Hm. apply Z.eqb_eq.
      replace (Z.of_nat (2 * m)) with (Z.of_nat m * 2) by lia. apply Z.mod_mul. lia. }
    rewrite Hmod. cbn [negb].
    rewrite (py_index_nth c 0 None) by (unfold zlen; lia). cbn [bind Z.to_nat].
    rewrite (sym_loop eadd c (nth 0 c None) Hl). cbn [bind].
    rewrite (py_map_total _ (fun x => is_none x)) by (intros; reflexivity). cbn [bind].
    rewrite all_none_map. fold (onth c 0). fold (sym_content eadd c).
    destruct (forallb (fun x => is_none x) (sym_content eadd c)); reflexivity.
  Qed.
  Theorem anti_symmetric_closed_form (c : content) :
    Nat.even (List.length c) = true -> c <> [] ->
    corr_anti_symmetric E esub escale c 1 =
      if forallb (fun x => is_none x) (sym_content esub c) then Raise ValueError else Ok (sym_content esub c).
  Proof.
    intros Hev Hne. unfold corr_anti_symmetric. cbv zeta. cbn [Z.eqb Pos.eqb negb].
    assert (Hl : (1 <= List.length c)%nat) by (destruct c; [congruence|simpl; lia]).
    assert (Hmod : zlen c mod 2 =? 0 = true).
    { unfold zlen. apply Nat.even_spec in Hev. destruct Hev as [m Hm]. rewrite Hm. apply Z.eqb_eq.
      replace (Z.of_nat (2 * m)) with (Z.of_nat m * 2) by lia. apply Z.mod_mul. lia. }
    rewrite Hmod. cbn [negb].
    rewrite (py_index_nth c 0 None) by (unfold zlen; lia). cbn [bind Z.to_nat].
    rewrite (sym_loop esub c (nth 0 c None) Hl). cbn [bind].
    rewrite (py_map_total _ (fun x => is_none x)) by (intros; reflexivity). cbn [bind].
    rewrite all_none_map. fold (onth c 0). fold (sym_content esub c).
    destruct (forallb (fun x => is_none x) (sym_content esub c)); reflexivity.
  Qed.
  Theorem symmetric_refuses_odd_extent (c : content) : Nat.even (List.length c) = false -> corr_symmetric E eadd escale c 1 = Raise ValueError.
  Proof.
    intro Hod. unfold corr_symmetric. cbv zeta. cbn [Z.eqb Pos.eqb negb].
    assert (Hmod : zlen c mod 2 =? 0 = false).
    { unfold zlen. apply Z.eqb_neq. intro H. assert (Nat.even (List.length c) = true); [|congruence].
      apply Nat.even_spec. exists (Z.to_nat (Z.of_nat (List.length c) / 2)). pose proof (Z.div_mod (Z.of_nat (List.length c)) 2 ltac:(lia)). lia. }
    rewrite Hmod. reflexivity.
  Qed.
  (* slice t of the symmetrised correlator: the half sum (difference) of slices t and T - t, undefined iff one of them is *)
  Corollary sym_slice (f : E -> E -> E) (c : content) t : (1 <= t < List.length c)%nat ->
    onth (sym_content f c) t = half f (onth c t) (onth c (List.length c - t)).
  Proof.
    intro H. unfold sym_content, onth at 1. destruct t as [|t]; [lia|]. cbn [nth].
    rewrite (nth_indep _ None (half f (onth c 0) (onth c (List.length c - 0)))) by (rewrite map_length, seq_length; lia).
    rewrite (map_nth (fun k => half f (onth c k) (onth c (List.length c - k)))). rewrite seq_nth by lia. reflexivity.
  Qed.
End Gen.

(* ---------------------------------------------------------------- index transformations = the model of Corr/Ops.v *)
Theorem reverse_is_model (c : corr) : corr_reverse mat c = Ok (reverse c).
Proof. reflexivity. Qed.
Theorem roll_is_model (c : corr) dt : corr_roll mat dt c = Ok (roll dt c).
Proof. unfold corr_roll, py_roll, roll, corr, slice in *. cbv zeta. destruct (List.length c) eqn:E; reflexivity. Qed.
Lemma thin_from_map spacing offset (c : corr) : forall t0,
  thin_from spacing offset (Z.of_nat t0) c
  = map (fun k => if (offset + Z.of_nat (t0 + k)) mod spacing =? 0 then nth k c None else None) (seq 0 (List.length c)).
Proof.
  induction c as [|x r IH]; intro t0; [reflexivity|]. cbn [thin_from List.length seq map nth].
  rewrite Nat.add_0_r. f_equal. replace (Z.of_nat t0 + 1) with (Z.of_nat (S t0)) by lia. rewrite IH.
  rewrite <- seq_shift, map_map. apply map_ext. intro k. replace (S t0 + k)%nat with (t0 + S k)%nat by lia. reflexivity.
Qed.
Theorem thin_is_model (c : corr) spacing offset : spacing <> 0 -> corr_thin mat spacing offset c = Ok (thin spacing offset c).
Proof.
  intro H. rewrite thin_closed_form by exact H. f_equal. unfold thin. change 0 with (Z.of_nat 0). rewrite thin_from_map. reflexivity.
Qed.

Print Assumptions add_is_timeslicewise.
Print Assumptions add_scalar_is_timeslicewise.
Print Assumptions mul_is_timeslicewise.
Print Assumptions thin_is_model.
Print Assumptions symmetric_closed_form.
Print Assumptions anti_symmetric_closed_form.
