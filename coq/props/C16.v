(* Property C16 -- GEVP and matrix pencil satisfy the eigen-equation and recover exact spectra.  Theorems only. *)
From Coq Require Import ZArith QArith List Bool.
From PV Require Import Base.QAux Lin.Mat Corr.Gevp Corr.Pencil.
Import ListNotations.
Open Scope Q_scope.

(* For a correlator matrix with an exact spectrum G(t) = sum_m d_m(t) u_m z_m^T (u_m = z_m for a symmetric matrix; any number of operators and states), the vector
   dual to state s solves the generalised eigenvalue problem with eigenvalue d_s(t) / d_s(t0)  [= exp(-E_s (t - t0))]:
   d_s(t0) G(t) v = d_s(t) G(t0) v, entry by entry -- for every t, hence the vector is the same on all timeslices *)
Theorem exact_spectrum_dual_vector_solves_the_gevp :
  forall (pre post : list state) (s : state) (n : nat) (v : vec),
  Forall (fun r => List.length (su r) = n /\ dotv (sz r) v == 0) pre ->
  Forall (fun r => List.length (su r) = n /\ dotv (sz r) v == 0) post ->
  List.length (su s) = n ->
  veq (vscal (sd0 s) (G_apply (pre ++ s :: post) n v)) (vscal (sd s) (G0_apply (pre ++ s :: post) n v)).
Proof. exact dual_vector_solves_gevp. Qed.

(* ... and its projected correlator is the single exponential of that state: v . G(t) v = d_s(t) (z_s . v)^2 *)
Theorem exact_spectrum_projection_is_a_single_exponential :
  forall (pre post : list state) (s : state) (n : nat) (v : vec),
  Forall (fun r => List.length (su r) = n /\ dotv (sz r) v == 0) pre ->
  Forall (fun r => List.length (su r) = n /\ dotv (sz r) v == 0) post ->
  List.length (su s) = n ->
  dotv v (G_apply (pre ++ s :: post) n v) == sd s * (dotv (sz s) v * dotv (su s) v).
Proof. exact dual_vector_projects_single_state. Qed.

(* Matrix-pencil method: for an exact multi-exponential signal c(t) = sum_m a_m lambda_m^t the Hankel matrices Y1[i][j] = c(i+j) and
   Y2[i][j] = c(i+j+1) (any shape n x p) are sum_m a_m u_m w_m^T and sum_m (a_m lambda_m) u_m w_m^T with Vandermonde vectors ... *)
Theorem hankel_matrices_have_the_spectral_form :
  forall (modes : list (Q * Q)) (n p : nat) (v : vec),
  veq (hankel_apply (signal modes) 0 n p v) (G0_apply (pencil_states modes n p) n v)
  /\ veq (hankel_apply (signal modes) 1 n p v) (G_apply (pencil_states modes n p) n v).
Proof. exact hankel_is_spectral. Qed.

(* ... hence every lambda_s = exp(-E_s) is a generalised eigenvalue of the pencil: a_s (Y2 v) = (a_s lambda_s) (Y1 v) for the vector dual to mode s *)
Theorem matrix_pencil_recovers_the_decay_factors :
  forall (pre post : list (Q * Q)) (m : Q * Q) (n p : nat) (v : vec),
  Forall (fun r => dotv (vander (snd r) p) v == 0) (pre ++ post) ->
  veq (vscal (fst m) (hankel_apply (signal (pre ++ m :: post)) 1 n p v))
      (vscal (fst m * snd m) (hankel_apply (signal (pre ++ m :: post)) 0 n p v)).
Proof. exact matrix_pencil_eigenvalue. Qed.

(* Non-vacuity: two states z_0 = (1, 1), z_1 = (1, -1) with weights (1/2, 1/8) at t and (1, 1/2) at t0; v = (1, 1) is dual to state 0 *)
Example c16_example :
  let s0 := mkState [1; 1] [1; 1] (1 # 2) 1 in let s1 := mkState [1; -1] [1; -1] (1 # 8) (1 # 2) in
  Forall (fun r => List.length (su r) = 2%nat /\ dotv (sz r) [1; 1] == 0) [s1]
  /\ G_apply [s0; s1] 2 [1; 1] = [1; 1] /\ G0_apply [s0; s1] 2 [1; 1] = [2; 2]
  /\ gevp_eq_ok (1 # 1000) [[5 # 8; 3 # 8]; [3 # 8; 5 # 8]] [[3 # 2; 1 # 2]; [1 # 2; 3 # 2]] [1; 1] = true
  /\ gevp_eq_ok (1 # 1000) [[5 # 8; 3 # 8]; [3 # 8; 5 # 8]] [[3 # 2; 1 # 2]; [1 # 2; 3 # 2]] [1; 0] = false.
Proof. repeat split; try (vm_compute; reflexivity). repeat constructor. Qed.

Print Assumptions exact_spectrum_dual_vector_solves_the_gevp.
Print Assumptions exact_spectrum_projection_is_a_single_exponential.
Print Assumptions hankel_matrices_have_the_spectral_form.
Print Assumptions matrix_pencil_recovers_the_decay_factors.
