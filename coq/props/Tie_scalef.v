(* TIE (translator): the nested function _compute_scalefactor_missing_rep of derived_observable, regenerated from pyerrors/obs.py on
   this run, yields (through .get(ens, 1)) exactly the factor Obs/Derived.v:scalefactor -- the up-weighting of an operand that lacks
   replica of an ensemble: (configurations of all replica of the ensemble) / (configurations of the replica the operand has). *)
From Coq Require Import ZArith QArith List Bool String Lia ZifyBool.
From PV Require Import Base.QAux Obs.Model Obs.Derived Py.Prim Py.Lemmas.
From PVG Require Import PyGen.
Import ListNotations.
Open Scope Q_scope.

Definition get1 (d : list (string * Q)) (e : string) : Q := match dict_find d e with Some v => v | None => 1 end.

Section S.
  Variables (ops : list obs) (o : obs).
  Let mine (e : string) := prefixed e (rep_names o).
  Let all (e : string) := prefixed e (sample_names ops).
  Let cond (e : string) : bool := Nat.ltb 0 (List.length (mine e)) && Nat.ltb (List.length (mine e)) (List.length (all e)).
  Let val (e : string) : Q := inject_Z (zsum (map (new_len ops) (all e))) / inject_Z (zsum (map (new_len ops) (mine e))).
  Let step (d : list (string * Q)) (e : string) := if cond e then dict_put d e (val e) else d.

  Hypothesis Hpos : forall n, In n (rep_names o) -> (0 < new_len ops n)%Z.

  Lemma zsum_pos l : l <> [] -> (forall n, In n l -> (0 < new_len ops n)%Z) -> (0 < zsum (map (new_len ops) l))%Z.
  Proof.
    intros Hne H. destruct l as [|x r]; [congruence|]. simpl.
    assert (0 <= zsum (map (new_len ops) r))%Z.
    { clear Hne. induction r as [|y r IH]; simpl; [lia|].
      assert (0 < new_len ops y)%Z by (apply H; right; left; reflexivity).
      assert (0 <= zsum (map (new_len ops) r))%Z by (apply IH; intros n [Hn|Hn]; apply H; [left|right; right]; assumption). lia. }
    assert (0 < new_len ops x)%Z by (apply H; left; reflexivity). lia.
  Qed.

  Lemma body_step d e :
    (let v_scalef_d := d in
     let v_mc_idl_d := filter (fun v_name => String.eqb (ens_of v_name) e) (rep_names o) in
     let v_new_mc_idl_d := filter (fun v_name => String.eqb (ens_of v_name) e) (sample_names ops) in
     if ((zlen v_mc_idl_d >? 0)%Z && (zlen v_mc_idl_d <? zlen v_new_mc_idl_d)%Z)
     then t1 <- py_map (fun v_name => Ok (zlen (cfgs (new_idl ops v_name)))) v_new_mc_idl_d ;;
          t2 <- py_map (fun v_name => Ok (zlen (cfgs (new_idl ops v_name)))) v_mc_idl_d ;;
          t3 <- py_truediv (inject_Z (py_sum t1)) (inject_Z (py_sum t2)) ;;
          let v_scalef_d := dict_put v_scalef_d e t3 in Ok v_scalef_d
     else Ok v_scalef_d) = Ok (step d e).
  Proof.
    cbv zeta. fold (prefixed e (rep_names o)). fold (prefixed e (sample_names ops)). fold (mine e). fold (all e).
    unfold step, cond.
    replace ((zlen (mine e) >? 0)%Z && (zlen (mine e) <? zlen (all e))%Z)
      with (Nat.ltb 0 (List.length (mine e)) && Nat.ltb (List.length (mine e)) (List.length (all e))).
    2:{ unfold zlen. destruct (Nat.ltb_spec 0 (List.length (mine e))); destruct (Nat.ltb_spec (List.length (mine e)) (List.length (all e)));
        simpl; symmetry; lia. }
    destruct (Nat.ltb 0 (List.length (mine e)) && Nat.ltb (List.length (mine e)) (List.length (all e))) eqn:Ec; [|reflexivity].
    rewrite !(py_map_total _ (fun n => zlen (cfgs (new_idl ops n)))) by (intros; reflexivity). cbn [bind].
    unfold py_truediv.
    assert (Hs : (0 < zsum (map (new_len ops) (mine e)))%Z).
    { apply zsum_pos.
      - apply andb_true_iff in Ec. destruct Ec as [E1 _]. apply Nat.ltb_lt in E1. destruct (mine e); [simpl in E1; lia|congruence].
      - intros n Hn. apply Hpos. unfold mine, prefixed in Hn. apply filter_In in Hn. tauto. }
    destruct (Qeqb (inject_Z (py_sum (map (fun n => zlen (cfgs (new_idl ops n))) (mine e)))) 0) eqn:E0.
    - apply Qeqb_eq in E0. exfalso. change (py_sum (map (fun n => zlen (cfgs (new_idl ops n))) (mine e))) with (zsum (map (new_len ops) (mine e))) in E0.
      unfold Qeq in E0. simpl in E0. lia.
    - reflexivity.
  Qed.

  Lemma dict_find_put_same d e v : dict_find (dict_put d e v) e = Some v.
  Proof. unfold dict_find, dict_put. cbn [find fst]. rewrite String.eqb_refl. reflexivity. Qed.
  Lemma dict_find_put_other d x e v : x <> e -> dict_find (dict_put d x v) e = dict_find d e.
  Proof.
    intro H. unfold dict_find, dict_put. cbn [find fst]. destruct (String.eqb x e) eqn:E; [apply String.eqb_eq in E; congruence|].
    f_equal. induction d as [|p d IH]; [reflexivity|]. cbn [filter find].
    destruct (String.eqb (fst p) x) eqn:E1; cbn [negb].
    - destruct (String.eqb (fst p) e) eqn:E2; [|exact IH]. apply String.eqb_eq in E1. apply String.eqb_eq in E2. congruence.
    - cbn [find]. destruct (String.eqb (fst p) e); [reflexivity|exact IH].
  Qed.

  Lemma fold_find l : forall d e,
    dict_find (fold_left step l d) e = if existsb (String.eqb e) l && cond e then Some (val e) else dict_find d e.
  Proof.
    induction l as [|x l IH]; intros d e; [reflexivity|]. cbn [fold_left existsb]. rewrite IH.
    destruct (existsb (String.eqb e) l && cond e) eqn:E1.
    - apply andb_true_iff in E1. destruct E1 as [Ea Eb]. rewrite Ea, Eb. destruct (String.eqb e x); reflexivity.
    - unfold step at 1. destruct (String.eqb e x) eqn:Ex.
      + apply String.eqb_eq in Ex. subst x. cbn [orb andb]. destruct (cond e); [apply dict_find_put_same|reflexivity].
      + cbn [orb]. rewrite E1. destruct (cond x); [|reflexivity]. apply dict_find_put_other. intro H. subst. rewrite String.eqb_refl in Ex. discriminate.
  Qed.

  Theorem scalefactor_tie e :
    exists d, _compute_scalefactor_missing_rep (mc_names o) (rep_names o) (sample_names ops) (new_idl ops) = Ok d
              /\ get1 d e = scalefactor ops o e.
  Proof.
    unfold _compute_scalefactor_missing_rep. cbv zeta.
    rewrite (py_for_total step).
    2:{ intros st x _. exact (body_step st x). }
    cbn [bind]. eexists. split; [reflexivity|].
    unfold get1. rewrite fold_find. unfold scalefactor, smem. fold (mine e). fold (all e).
    destruct (existsb (String.eqb e) (mc_names o)); cbn [andb]; [|reflexivity].
    fold (cond e). destruct (cond e); reflexivity.
  Qed.
End S.

Print Assumptions scalefactor_tie.
