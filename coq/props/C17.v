(* Property C17 -- file readers return exactly the stored numbers at the right configurations.  Theorems only. *)
From Coq Require Import ZArith QArith List Bool String Lia.
From PV Require Import Base.QAux Obs.Model IO.Bytes IO.OpenQCD.
Import ListNotations.

(* complete files are read back record by record (any record size, any number of records) *)
Theorem records_are_read_back_exactly :
  forall R theta, (theta <= R)%nat -> (4 <= theta)%nat -> forall recs fuel, well_sized R recs -> (List.length recs < fuel)%nat ->
  parse R theta fuel (serialize recs) = Records recs.
Proof. exact parse_serialize. Qed.

Theorem int32_fields_roundtrip : forall z, (-2147483648 <= z < 2147483648)%Z -> i32_dec (i32_bytes z) = Some z.
Proof. exact i32_roundtrip. Qed.

(* samples[a : b+1][::step] : entry m is the sample stored at position a + m step *)
Theorem selected_sample_is_by_position :
  forall (A : Type) (d : A) (samples : list A) a b step m,
  (0 < step)%nat -> (b < List.length samples)%nat -> (a + m * step <= b)%nat ->
  nth m (every_nth step (firstn (b + 1 - a) (skipn a samples)) (S (List.length samples))) d = nth (a + m * step) samples d.
Proof. exact @slice_stride_is_by_position. Qed.

(* range(c(a), c(b)+1, step): entry m is the configuration number of position a + m step (unit-spaced numbers): the returned
   sample and the returned configuration number belong to the same record *)
Theorem selected_configuration_is_by_position :
  forall cfgs a b step m,
  (forall j, (j < List.length cfgs)%nat -> nth j cfgs 0%Z = (zhd cfgs + Z.of_nat j)%Z) ->
  (0 < step)%Z -> (b < List.length cfgs)%nat -> (a + m * Z.to_nat step <= b)%nat ->
  nth m (zrange (nth a cfgs 0%Z) (nth b cfgs 0%Z + 1) step) 0%Z = nth (a + m * Z.to_nat step) cfgs 0%Z.
Proof. exact idl_range_is_by_position. Qed.

(* Non-vacuity: decoding of binary64 payloads and of a two-record file *)
Example c17_example :
  f64_dec [0;0;0;0;0;0;248;63]%Z = Some (3 # 2)%Q /\ f64_dec [0;0;0;0;0;0;4;192]%Z = Some (-5 # 2)%Q /\
  i32_dec [254;255;255;255]%Z = Some (-2)%Z /\
  parse 6 6 5 [1;0;0;0;7;7; 2;0;0;0;9;9]%Z = Records [[1;0;0;0;7;7]; [2;0;0;0;9;9]]%Z.
Proof. repeat split; vm_compute; reflexivity. Qed.

Print Assumptions records_are_read_back_exactly.
Print Assumptions selected_sample_is_by_position.
Print Assumptions selected_configuration_is_by_position.
