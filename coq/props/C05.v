(* Property C05 -- reweighting, correlating and merging pair samples by configuration number.  Theorems only. *)
From Coq Require Import ZArith QArith List Bool String.
From PV Require Import Base.QAux Obs.Model Obs.Derived Obs.DerivedThm Obs.Pairing.
Import ListNotations.
Open Scope Q_scope.

(* The row selection used by reweight (intersection POSITIONS of the weight's configuration list) returns, for every
   strictly increasing list and every subset request -- prefix, stride, random subset, ranges or lists -- exactly the
   fluctuation stored under each requested configuration NUMBER. *)
Theorem weight_rows_are_selected_by_configuration_number :
  forall deltas idx_old idx_new,
  List.length deltas = List.length (cfgs idx_old) -> incr (cfgs idx_old) -> incr (cfgs idx_new) ->
  (forall x, In x (cfgs idx_new) -> In x (cfgs idx_old)) ->
  exists r, reduce_deltas deltas idx_old idx_new = Some r /\ r = map (lookup0 (cfgs idx_old) deltas) (cfgs idx_new).
Proof. exact reduce_is_restriction. Qed.

(* A request that cannot be aligned is rejected. *)
Theorem unmeasured_configuration_is_rejected :
  forall deltas idx_old idx_new c, In c (cfgs idx_new) -> ~ In c (cfgs idx_old) -> restrict deltas idx_old idx_new = None.
Proof. exact restrict_rejects_missing. Qed.

(* the reweighted flag is set on every reweighted result *)
Theorem reweighted_flag_is_set : forall w o a r, reweight w o a = Some r -> o_rw r = true.
Proof.
  intros w o a r. unfold reweight, reweight_with.
  repeat match goal with |- context [if ?b then None else _] => destruct b; [discriminate|] end.
  destruct (opt_list _); [|discriminate]. intro H. injection H as <-. reflexivity.
Qed.

(* Non-vacuity: a strided weight range(2,22,4) and an observable on the later sub-range {10,14,18}: positions 2,3,4 *)
Example c05_example :
  let old := mkIdl true [2;6;10;14;18]%Z in let new := mkIdl true [10;14;18]%Z in
  incr (cfgs old) /\ incr (cfgs new) /\ reduce_deltas [1;2;3;4;5] old new = Some [3;4;5]
  /\ restrict [1;2;3;4;5] old (mkIdl false [10;11]%Z) = None.
Proof. cbv zeta. split; [repeat constructor|]. split; [repeat constructor|]. split; vm_compute; reflexivity. Qed.

Print Assumptions weight_rows_are_selected_by_configuration_number.
Print Assumptions unmeasured_configuration_is_rejected.
Print Assumptions reweighted_flag_is_set.
