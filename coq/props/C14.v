(* Property C14 -- correlator arithmetic acts timeslice-wise and propagates undefined slices; index transformations
   are the stated permutations / averages; no method stores into its arguments.  Theorems only. *)
From Coq Require Import ZArith QArith List Bool String.
From PV Require Import Base.QAux Corr.Ops Corr.ProjThm.
From PVG Require Import EffectsGen.
Import ListNotations.

(* ---- regenerated effect table (T-effects over class Corr): no public method stores into one of its parameters ---- *)
Theorem no_method_stores_into_its_arguments :
  forallb (fun m => match snd m with [] => true | _ => false end) corr_effects = true.
Proof. vm_compute. reflexivity. Qed.

(* ---- timeslice-wise arithmetic: for every T, every N, every pattern of undefined slices ---- *)
Theorem binary_operation_is_timeslicewise :
  forall f a b t, List.length a = List.length b -> snth (zip_op f a b) t = slice_op f (snth a t) (snth b t).
Proof. exact zip_op_timeslicewise. Qed.
Theorem binary_operation_keeps_extent :
  forall f a b, List.length a = List.length b -> List.length (zip_op f a b) = List.length a.
Proof. exact zip_op_length. Qed.
Theorem undefined_operand_gives_undefined_result :
  forall f a b, slice_op f None b = None /\ slice_op f a None = None.
Proof. intros f a b. split; [apply slice_op_none_l | apply slice_op_none_r]. Qed.
Theorem defined_result_needs_defined_operands :
  forall f a b m, slice_op f a b = Some m -> a <> None /\ b <> None.
Proof. exact slice_op_defined. Qed.

(* ---- index transformations ---- *)
Theorem roll_moves_slice_t_to_t_plus_dt :
  forall dt c t, (t < List.length c)%nat ->
  snth (roll dt c) (Z.to_nat ((Z.of_nat t + dt) mod Z.of_nat (List.length c))) = snth c t.
Proof. exact roll_spec. Qed.
Theorem roll_keeps_extent : forall dt c, List.length (roll dt c) = List.length c.
Proof. exact roll_length. Qed.
Theorem reverse_is_involutive : forall c, reverse (reverse c) = c.
Proof. exact reverse_involutive. Qed.
Theorem reverse_maps_t_to_T_minus_1_minus_t :
  forall c t, (t < List.length c)%nat -> snth (reverse c) t = snth c (List.length c - 1 - t).
Proof. exact reverse_spec. Qed.
Theorem thin_keeps_every_spacing_th_slice :
  forall spacing offset c t, (t < List.length c)%nat ->
  snth (thin spacing offset c) t = if ((offset + Z.of_nat t) mod spacing =? 0)%Z then snth c t else None.
Proof. exact thin_spec. Qed.
Theorem symmetrisation_averages_t_with_T_minus_t :
  forall sgn c r t, symmetrize sgn c = COk r -> (1 <= t < List.length c)%nat ->
  snth r 0 = snth c 0 /\ snth r t = half_comb sgn (snth c t) (snth c (List.length c - t)).
Proof. exact symmetrize_spec. Qed.
Theorem symmetrised_slice_undefined_iff_a_partner_is :
  forall sgn a b, half_comb sgn a b <> None -> a <> None /\ b <> None.
Proof. exact half_comb_undefined. Qed.

(* projected with one vector pair per timeslice: the entry is the double sum sum_ij l_i C_ij(t) r_j of that timeslice's own vectors,
   and the timeslice is undefined exactly when the correlator's timeslice or one of the two vectors is *)
Theorem projected_per_timeslice_is_the_double_sum :
  forall vls vrs (a : corr) t,
  List.length vls = List.length a -> List.length vrs = List.length a -> (t < List.length a)%nat ->
  (forall m l r, snth a t = Some m -> nth t vls None = Some l -> nth t vrs None = Some r ->
                 square (List.length m) m /\ List.length l = List.length m /\ List.length r = List.length m) ->
  slice_Qeq (snth (projected_l vls vrs a) t) (spec_at a (OpProjectedL vls vrs) t).
Proof. exact projected_l_is_the_specified_double_sum. Qed.
Theorem projected_per_timeslice_undefined_iff :
  forall vls vrs (a : corr) t,
  List.length vls = List.length a -> List.length vrs = List.length a -> (t < List.length a)%nat ->
  (snth (projected_l vls vrs a) t = None <-> snth a t = None \/ nth t vls None = None \/ nth t vrs None = None).
Proof. exact projected_l_undefined_iff. Qed.

(* Non-vacuity: T = 4 with an undefined slice: roll by 5 = roll by 1; symmetric; Hankel *)
Example c14_examples :
  let c := [Some [[1]]; None; Some [[3]]; Some [[5]]] in
  roll 5 c = [Some [[5]]; Some [[1]]; None; Some [[3]]] /\
  symmetrize 1 c = COk [Some [[1]]; None; Some [[3]]; None] /\
  thin 2 1 c = [None; None; None; Some [[5]]] /\
  hankel 2 false [Some [[1]]; Some [[2]]; Some [[3]]; Some [[4]]] = COk [Some [[1; 2]; [2; 3]]; Some [[2; 3]; [3; 4]]; None; None].
Proof. cbv zeta. repeat split; vm_compute; reflexivity. Qed.

Print Assumptions binary_operation_is_timeslicewise.
Print Assumptions roll_moves_slice_t_to_t_plus_dt.
Print Assumptions thin_keeps_every_spacing_th_slice.
Print Assumptions symmetrisation_averages_t_with_T_minus_t.
Print Assumptions projected_per_timeslice_is_the_double_sum.
Print Assumptions projected_per_timeslice_undefined_iff.
