#!/venv/bin/python
"""Confirm and register a seeded defect, and run a check against it.

  tools/seed.py confirm C19 1      # scratch worktree: suite still passes with the patch, demo fails with / passes without
  tools/seed.py detect  C19 1 [--tier quick] [--prop C19]   # apply to /repo, run ./check, undo; records the outcome in meta.json

Source of the candidate: /tmp/mut/out/<prop>/patch<k>.diff, demo<k>.py, notes<k>.md (written by an independent sub-agent that
saw only the property text).  Kept as /verif/seeded/<prop>-<k>/{patch.diff, demo.py, notes.md, meta.json}.
"""
import json
import os
import re
import shutil
import subprocess
import sys
import time

VERIF = os.path.dirname(os.path.dirname(os.path.abspath(__file__)))
ENV = dict(os.environ, OMP_NUM_THREADS="1", OPENBLAS_NUM_THREADS="1", MKL_NUM_THREADS="1", PYTHONHASHSEED="0")
BASE_FAIL = 11


def sh(cmd, cwd=None, env=None, timeout=3600):
    p = subprocess.run(cmd, shell=True, cwd=cwd, env=env or ENV, capture_output=True, text=True, timeout=timeout)
    return p.returncode, (p.stdout + p.stderr)


def seed_dir(prop, k):
    return os.path.join(VERIF, "seeded", "%s-%s" % (prop, k))


def load_meta(d):
    p = os.path.join(d, "meta.json")
    return json.load(open(p)) if os.path.exists(p) else {}


def save_meta(d, m):
    json.dump(m, open(os.path.join(d, "meta.json"), "w"), indent=1)


def confirm(prop, k, src=None, src_k=None):
    src = src or "/tmp/mut/out/%s" % prop
    src_k = src_k or k
    d = seed_dir(prop, k)
    os.makedirs(d, exist_ok=True)
    for a, b in (("patch%s.diff" % src_k, "patch.diff"), ("demo%s.py" % src_k, "demo.py"), ("notes%s.md" % src_k, "notes.md")):
        if os.path.exists(os.path.join(src, a)):
            shutil.copy(os.path.join(src, a), os.path.join(d, b))
    wt = "/tmp/seedv/%s-%s" % (prop, k)
    sh("git -C /repo worktree remove --force %s" % wt)
    shutil.rmtree(wt, ignore_errors=True)
    os.makedirs("/tmp/seedv", exist_ok=True)
    rc, out = sh("git -C /repo worktree add --detach %s HEAD" % wt)
    assert rc == 0, out
    m = load_meta(d)
    try:
        env = dict(ENV, PYTHONPATH=wt)
        rc, out = sh("/venv/bin/python %s/demo.py" % d, cwd=wt, env=env, timeout=900)
        m["demo_without_patch_exit"] = rc
        rc, out = sh("git apply %s/patch.diff" % d, cwd=wt)
        m["patch_applies"] = rc == 0
        rc, out = sh("/venv/bin/python -c 'import pyerrors; print(pyerrors.__file__)'", cwd=wt, env=env)
        m["imports_from"] = out.strip().splitlines()[-1] if out.strip() else ""
        rc, out = sh("/venv/bin/python %s/demo.py" % d, cwd=wt, env=env, timeout=900)
        m["demo_with_patch_exit"] = rc
        m["demo_with_patch_tail"] = out.strip()[-400:]
        rc, out = sh("/venv/bin/python -m pytest -q -p no:cacheprovider --timeout=900 2>&1 | tail -3", cwd=wt, env=env, timeout=3000)
        mm = re.search(r"(\d+) failed, (\d+) passed", out)
        m["suite_with_patch"] = out.strip().splitlines()[-1] if out.strip() else ""
        m["suite_ok"] = bool(mm and int(mm.group(1)) == BASE_FAIL and int(mm.group(2)) == 250)
    finally:
        sh("git -C /repo worktree remove --force %s" % wt)
        shutil.rmtree(wt, ignore_errors=True)
    m["property"] = prop
    m["source"] = "independent sub-agent given only the property text (prompt: tools/../seeded/PROMPT-template in DESIGN §7)"
    m["confirmed"] = bool(m.get("patch_applies") and m.get("suite_ok") and m.get("demo_without_patch_exit") == 0 and m.get("demo_with_patch_exit") not in (0, None))
    m["ran"] = ["scratch worktree of /repo HEAD: demo.py (expect exit 0), git apply patch.diff, demo.py (expect non-zero), full pytest suite with the patch (expect 250 passed, the 11 baseline failures)"]
    notes = os.path.join(d, "notes.md")
    if os.path.exists(notes):
        m["needs_to_manifest"] = open(notes).read()[:1500]
    save_meta(d, m)
    print(prop, k, "confirmed" if m["confirmed"] else "NOT CONFIRMED", {x: m.get(x) for x in ("patch_applies", "suite_with_patch", "demo_without_patch_exit", "demo_with_patch_exit")})


def detect(prop, k, tier="quick", check_prop=None):
    d = seed_dir(prop, k)
    check_prop = check_prop or prop
    rc, out = sh("git -C /repo status --porcelain")
    if out.strip():
        print("refusing: /repo is not clean:\n" + out)
        sys.exit(2)
    rc, out = sh("git -C /repo apply %s/patch.diff" % d)
    assert rc == 0, out
    t0 = time.time()
    try:
        rc, out = sh("./check %s --tier %s" % (check_prop, tier), cwd=VERIF, env=dict(os.environ), timeout=7200)
    finally:
        sh("git -C /repo checkout -- .")
    lines = [l for l in out.splitlines() if l.startswith(("VIOLATION", "KNOWN-FINDING", "  what", "  no longer"))]
    m = load_meta(d)
    m.setdefault("detection", {})["%s/%s" % (check_prop, tier)] = {"exit": rc, "lines": lines[:12], "seconds": round(time.time() - t0, 1)}
    save_meta(d, m)
    print("%s-%s vs ./check %s --tier %s: exit=%d (%.0fs)" % (prop, k, check_prop, tier, rc, time.time() - t0))
    for l in lines[:12]:
        print("   ", l)


if __name__ == "__main__":
    a = sys.argv[1:]
    if a[0] == "confirm":      # confirm C07 3 [--src /tmp/mut2/out/C07 --from 1]
        confirm(a[1], a[2], a[a.index("--src") + 1] if "--src" in a else None, a[a.index("--from") + 1] if "--from" in a else None)
    elif a[0] == "detect":
        tier = a[a.index("--tier") + 1] if "--tier" in a else "quick"
        cp = a[a.index("--prop") + 1] if "--prop" in a else None
        detect(a[1], a[2], tier, cp)
