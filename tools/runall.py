#!/venv/bin/python
"""Run every claimed check (quick tier) for a seed, a few in parallel, and summarise.  tools/runall.py [seed] [ids...]"""
import json, os, subprocess, sys, time
from concurrent.futures import ThreadPoolExecutor
V = os.path.dirname(os.path.dirname(os.path.abspath(__file__)))
seed = sys.argv[1] if len(sys.argv) > 1 else "0"
m = json.load(open(os.path.join(V, "MANIFEST.json")))
ids = sys.argv[2:] or [c["property_id"] for c in m["checks"]]
def run(pid):
    t0 = time.time()
    p = subprocess.run(["./check", pid, "--tier", "quick"], cwd=V, env=dict(os.environ, VERIF_SEED=seed), capture_output=True, text=True)
    lines = [l for l in p.stdout.splitlines() if l.startswith(("VIOLATION", "KNOWN-FINDING", "  what", "  no longer", "INFRA"))]
    return pid, p.returncode, round(time.time() - t0), lines
with ThreadPoolExecutor(max_workers=3) as ex:
    for pid, rc, secs, lines in ex.map(run, ids):
        print("%s seed=%s exit=%d %ds" % (pid, seed, rc, secs))
        for l in lines[:6]:
            print("    " + l[:300])
