#!/bin/bash
# tools/seedr.sh confirm|detect <srcdir> <offset> <id>... : candidates <srcdir>/<id>/patch{1,2}.diff become seeded/<id>-(offset+1), -(offset+2)
mode=$1; src=$2; off=$3; shift 3
for id in "$@"; do
  for k in 1 2; do
    n=$((k+off))
    if [ "$mode" = confirm ]; then /venv/bin/python /verif/tools/seed.py confirm $id $n --src $src/$id --from $k
    else /venv/bin/python /verif/tools/seed.py detect $id $n; fi
  done
done
