#!/bin/bash
# tools/seed3.sh confirm|detect <id>...  : round-3 candidates from /tmp/mut3/out/<id>/patch{1,2}.diff become seeded/<id>-3 and -4
mode=$1; shift
for id in "$@"; do
  for k in 1 2; do
    n=$((k+2))
    if [ "$mode" = confirm ]; then /venv/bin/python /verif/tools/seed.py confirm $id $n --src /tmp/mut3/out/$id --from $k
    else /venv/bin/python /verif/tools/seed.py detect $id $n; fi
  done
done
